import DdoModel.Proofs.CompatOrder
/-! C10d — **the named obligation `CompatTurn`, reduced to the turns in which the popped node is compiled**.

A turn of the solver with cache and checker (`DSolverCfg.kdturn`) either skips the popped node `N` — `N.ub ≤ best_lb`, or
`must_explore` refuses it — or compiles it.  The two skips preserve the joint invariant `CompatInv` of `Proofs/CompatOrder.lean`
(`compatInv_skip`): the cache only forgets entries (`cleanCache`), the checker and the incumbent are unchanged, every solid open
node other than `N` stays solid, and `N` itself, if it was solid, is skipped only when `best_lb ≥ opt` (a solid node is accepted
by `must_explore` and has a bound `≥ opt`).  What is left is `CompatProcess`: the turn in which both tests pass and the two
compilations run.  `compatTurn_of_process : CompatProcess → CompatTurn`. -/
set_option linter.unusedSectionVars false
set_option linter.unusedVariables false
namespace Ddo.C10d
open Ddo Ddo.C01 Ddo.Closed Ddo.C09 Ddo.C10 Ddo.C10c
variable {S K : Type} [DecidableEq S] [DecidableEq K]

/-- a cache that only forgot entries refuses less -/
theorem prunM_of_forget {c c0 : Cache S} (hv : ∀ x d, viewOf c0 x d = viewOf c x d ∨ viewOf c0 x d = none) {q : SubP S}
    (h : prunM (viewOf c0) q) : prunM (viewOf c) q := by
  obtain ⟨t, ht, hc⟩ := h
  rcases hv q.state q.depth with e | e
  · exact ⟨t, by rw [← e]; exact ht, hc⟩
  · rw [e] at ht; cases ht

/-- **a skipped node**: the state after the pop of `N`, with a cache that only forgot entries, the same checker and the same
    incumbent, satisfies the joint invariant as soon as `N`, if it was solid, is skipped because `best_lb ≥ opt` -/
theorem compatInv_skip {dv : DSolverCfg S K} {n : Nat} {opt : Int} {s : KDSt S K} {N : SubP S} {rest : List (SubP S)} {fa : Nat}
    {c0 : Cache S} (hI : CompatInv dv n opt s) (hpop : s.st.fringe.Perm (N :: rest))
    (hv : ∀ x d, viewOf c0 x d = viewOf s.cache x d ∨ viewOf c0 x d = none)
    (hN : Solid dv opt s N → opt ≤ s.st.bestLb) :
    CompatInv dv n opt ⟨popped s.st N rest fa, c0, s.store⟩ := by
  obtain ⟨f1, f2, _⟩ := popped_fields s.st N rest fa
  -- a solid node of `s` gives the conclusion in the new state
  have key : ∀ q, Solid dv opt s q →
      opt ≤ (popped s.st N rest fa).bestLb ∨ Solid dv opt ⟨popped s.st N rest fa, c0, s.store⟩ q := by
    intro q hq
    obtain ⟨hmem, hgood, hub, hnp⟩ := hq
    rcases List.mem_cons.mp (hpop.mem_iff.mp hmem) with e | e
    · subst e
      left
      rw [f2]
      exact hN ⟨hmem, hgood, hub, hnp⟩
    · right
      refine ⟨?_, hgood, hub, fun hp => hnp (prunM_of_forget hv hp)⟩
      show q ∈ (popped s.st N rest fa).fringe
      rw [f1]; exact e
  refine ⟨?_, ?_, hI.store⟩
  · rcases hI.main with h | ⟨q, hq⟩
    · left; show opt ≤ (popped s.st N rest fa).bestLb; rw [f2]; exact h
    · rcases key q hq with h | h
      · exact Or.inl h
      · exact Or.inr ⟨q, h⟩
  · intro x d t ht v' hv' hga
    have ht' : viewOf s.cache x d = some t := by
      rcases hv x d with e | e
      · rw [← e]; exact ht
      · rw [e] at ht; cases ht
    rcases hI.entries x d t ht' v' hv' hga with h | ⟨q, hq, hd⟩
    · left; show opt ≤ (popped s.st N rest fa).bestLb; rw [f2]; exact h
    · rcases key q hq with h | h
      · exact Or.inl h
      · exact Or.inr ⟨q, h, hd⟩

/-- **the obligation that is left**: the turn in which the popped node passes both tests and is compiled preserves the joint
    invariant -/
def CompatProcess : Prop :=
  ∀ (S K : Type) [DecidableEq S] [DecidableEq K] (dv : DSolverCfg S K) (H : Nat → S → EInt) (B0 B opt : Int) (n : Nat),
    WellFormed dv.sv H B0 B → (H 0 dv.sv.P.init).addI dv.sv.P.initVal = some opt → (∀ s, dv.D.dims s = n) →
    StaticOrder dv.sv.P → SimAll dv.D dv.sv.P n → MergeCompat dv.D dv.sv.R n → PotMono dv.D n H →
    ∀ (s t : KDSt S K) (N : SubP S) (rest : List (SubP S)) (c0 : Cache S),
      KDRun dv (KDSt.init dv) s → CompatInv dv n opt s → s.st.fringe.Perm (N :: rest) →
      (∀ c ∈ rest, c.ub < N.ub ∨ (c.ub = N.ub ∧ c.value ≤ N.value)) →
      cleanCache dv.sv.P.nbVars s.st.openByLayer dv.sv.P.nbVars s.st.firstActive s.cache = some c0 →
      ¬ N.ub ≤ s.st.bestLb → c0.mustExplore N.state N.depth N.value = some true →
      dv.kdturn s N rest = some t → CompatInv dv n opt t

/-- **`CompatTurn` follows from `CompatProcess`**: the two skips preserve the invariant -/
theorem compatTurn_of_process (hproc : CompatProcess) : CompatTurn := by
  intro S K _ _ dv H B0 B opt n hwf hopt hdim hstat hsim hmc hmono s t hrun hI hstep
  cases hstep with
  | pop N rest hpop hmax hturn =>
    have hJ := kdrun_inv hwf hrun (init_jsinv hwf)
    obtain ⟨c0, hc0, hl0, hv0⟩ :=
      cleanCache_spec dv.sv.P.nbVars s.st.openByLayer dv.sv.P.nbVars s.st.firstActive s.cache hJ.clen
    obtain ⟨p0, hroot, _⟩ := hJ.nodes N (hpop.mem_iff.mpr List.mem_cons_self)
    have hdN := reach_depth_le hwf.nv hroot
    generalize hfa : cleanLoop dv.sv.P.nbVars s.st.openByLayer dv.sv.P.nbVars s.st.firstActive = fa at *
    obtain ⟨_, f2, _⟩ := popped_fields s.st N rest fa
    have hturn0 := hturn
    unfold DSolverCfg.kdturn at hturn
    rw [hc0, hfa] at hturn
    dsimp only at hturn
    unfold DSolverCfg.kdprocess at hturn
    by_cases hub : N.ub ≤ (popped s.st N rest fa).bestLb
    · -- pruned by its bound
      rw [if_pos hub] at hturn
      cases hturn
      refine compatInv_skip hI hpop hv0 (fun hs => ?_)
      rw [f2] at hub
      have := hs.2.2.1
      omega
    · rw [if_neg hub] at hturn
      have hme := mustExplore_view c0 N (by rw [hl0]; omega)
      by_cases hp : prunM (viewOf c0) N
      · -- refused by `must_explore`
        have e : c0.mustExplore N.state N.depth N.value = some false := by
          rw [hme]; congr 1; exact decide_eq_false (fun hn => hn hp)
        rw [e] at hturn
        dsimp only at hturn
        cases hturn
        exact compatInv_skip hI hpop hv0 (fun hs => absurd (prunM_of_forget hv0 hp) hs.2.2.2)
      · have e : c0.mustExplore N.state N.depth N.value = some true := by
          rw [hme]; congr 1; exact decide_eq_true hp
        rw [f2] at hub
        exact hproc S K dv H B0 B opt n hwf hopt hdim hstat hsim hmc hmono s t N rest c0 hrun hI hpop hmax hc0 hub e hturn0

/-- the joint statement (repaired) from the obligation on compiled turns alone -/
theorem jointCorrect_of_process (hproc : CompatProcess) : CachingDominanceCompatMono :=
  jointCorrect_of_turn (compatTurn_of_process hproc)

end Ddo.C10d

#print axioms Ddo.C10d.compatInv_skip
#print axioms Ddo.C10d.compatTurn_of_process
#print axioms Ddo.C10d.jointCorrect_of_process
