import DdoModel.Proofs.CompatThetaCore
/-! C10e — **the dominance-aware `theta_sound`, read on `compile`** (`JCTheta` of `Proofs/CompatProcess.lean`).

`Proofs/Theta.lean` re-read with both filters: the top-down part is the invariant `TInvJ` (= `Ddo.Theta.TInv` with one more class
of nodes, `Drop l p`: dropped by `_filter_with_dominance`), packaged as `BuiltOkJ`; the analyses of the bottom-up passes
(`ThetaPass.lean`, `ThetaCut.lean`, `ThetaEq.lean`) have no hypothesis on the checker and are used as they are; the core is
`gtj_all` of `Proofs/CompatThetaCore.lean`.

* `CtxJ.ffj`: the facts `FFJ` for the finished diagram; `CtxJ.theta_sound`: soundness of the recorded thresholds on `finalize`;
* `BuiltOkJoint : Prop` — the one remaining obligation: every relaxed compilation with both filters that satisfies `CompPre`
  ends on a diagram that satisfies `BuiltOkJ` for the pseudo-potential `gpot` at the level `opt - 1`;
* `jcTheta_of : BuiltOkJoint → OptSmall → JCTheta`. -/
set_option linter.unusedSectionVars false
set_option linter.unusedVariables false
namespace Ddo.C10d
open Ddo Ddo.C01 Ddo.Closed Ddo.C09 Ddo.C10 Ddo.C10c Ddo.Truth Ddo.Theta Ddo.Bounds
variable {S K : Type} [DecidableEq S] [DecidableEq K]

/-! ## the top-down invariant with both filters -/

/-- `Ddo.Theta.NodeBase`, the threshold of a node dropped by the checker excepted -/
structure NodeBaseJ (B : Int) (i D : Nat) (InDrop : Prop) (n : Node S) : Prop where
  depth : n.depth = D
  cutset : n.cutset = false
  above : n.above = false
  arcs : ∀ a ∈ n.inb, a.fromL + 1 = i ∧ Cover.Within B a.cost
  thetaNone : n.cache = false → ¬ InDrop → n.theta = none

/-- classification of the node `n` (absolute depth `k`): pruned by the cache with the cached threshold / handed to the expansion
    (`InCur`) / dropped by the checker (`InDrop`) with a `DomOkAt` threshold / deleted -/
structure ClsJ (cfg : Cfg S K) (cache : Cache S) (H : Nat → S → EInt) (O : Int) (k : Nat) (InCur InDrop : Prop) (n : Node S) :
    Prop where
  pruned : n.cache = true → CacheFacts cfg cache n
  alive : n.cache = false → n.deleted = false → ¬ InDrop → InCur
  cur : InCur → n.cache = false ∧ n.deleted = false ∧ ¬ InDrop
  /-- dropped by `_filter_with_dominance`: exact, neither pruned nor deleted, never expanded (`rub` is still `iMax`); the item
      `(state, value)` does not beat `O`, and neither does any `(state, v)` with `v ≤ thr`, `thr` the threshold of the verdict,
      stored in `theta` -/
  drop : InDrop → n.cache = false ∧ n.deleted = false ∧ n.isExact = true ∧ n.rub = iMax ∧
    (∀ h, H k n.state = some h → n.value + h ≤ O) ∧ ∃ thr, n.theta = some thr ∧ DomOkAt H O k n.state thr

/-- the invariant of the compilation loop with both filters (`Ddo.Theta.TInv` + the class `Drop`) -/
structure TInvJ (cfg : Cfg S K) (H : Nat → S → EInt) (B : Int) (cache : Cache S) (O : Int) (Live Drop : Nat → Nat → Prop)
    (dd : DD S K) : Prop where
  depth : dd.depth = cfg.root.depth + dd.layers.length
  cacheEq : dd.cache = cache
  rngN : ∀ n ∈ dd.next, Cover.Within (Cover.Bd B dd.layers.length) n.value
  rngL : ∀ (i : Nat) ly, dd.layers[i]? = some ly → ∀ n ∈ ly, Cover.Within (Cover.Bd B i) n.value
  baseN : ∀ n ∈ dd.next, NodeBaseJ B dd.layers.length dd.depth False n ∧ n.cache = false ∧ n.deleted = false
  baseL : ∀ (i q : Nat) ly n, dd.layers[i]? = some ly → ly[q]? = some n → NodeBaseJ B i (cfg.root.depth + i) (Drop i q) n
  att : dd.layers ≠ [] → ∀ n ∈ dd.next, ∃ a ∈ n.inb, ∃ p, getNode dd.layers a.fromL a.fromP = some p
  clsL : ∀ (i q : Nat) ly n, dd.layers[i]? = some ly → ly[q]? = some n →
    ClsJ cfg cache H O (cfg.root.depth + i) (Live i q) (Drop i q) n
  /-- only finished layers hold dropped nodes -/
  dropLt : ∀ (i q : Nat), Drop i q → i < dd.layers.length
  rub : ∀ (l p : Nat) ly n, dd.layers[l]? = some ly → Live l p → ly[p]? = some n → n.rub = cfg.R.rub n.state
  stepL : ∀ (l p : Nat) ly ly' n, dd.layers[l]? = some ly → dd.layers[l + 1]? = some ly' → Live l p → ly[p]? = some n →
    StepU cfg H B (cfg.root.depth + l) l p n ly' (fun q m => Live (l + 1) q ∨ m.cache = true ∨ Drop (l + 1) q)
  stepN : ∀ (l p : Nat) ly n, l + 1 = dd.layers.length → dd.layers[l]? = some ly → Live l p → ly[p]? = some n →
    StepU cfg H B (cfg.root.depth + l) l p n dd.next (fun _ _ => True)
  rubN : ∀ n ∈ dd.next, n.rub = iMax
  root0 : dd.layers = [] → ∃ n0, dd.next = [n0] ∧ n0.state = cfg.root.state ∧ n0.value = cfg.root.value
  first : ∀ ly, dd.layers[0]? = some ly → ∀ n ∈ ly, n.cache = false
  root1 : dd.layers ≠ [] → ∃ ly n0, dd.layers[0]? = some ly ∧ ly[0]? = some n0 ∧ n0.state = cfg.root.state ∧
    n0.value = cfg.root.value ∧ n0.cache = false ∧ n0.deleted = false ∧ (Live 0 0 ∨ Drop 0 0)

/-- what the reading needs of the model: a relaxed compilation, bounded costs, and at the terminal depth a *defined* potential
    is `0` (`gpot_term_L`) -/
structure HypTJ (cfg : Cfg S K) (H : Nat → S → EInt) (B : Int) : Prop where
  rel : cfg.ctype = .relaxed
  B : NoClamp cfg.P cfg.R cfg.root.value B
  term : ∀ (k : Nat) (L : List S) (s : S) (h : Int), cfg.P.nextVar k L = none → s ∈ L → H k s = some h → h = 0
  /-- the potentials fit in a machine word (`gpot_within`: `h ≤ opt + B`) -/
  potMax : ∀ (k : Nat) (s : S) (h : Int), H k s = some h → h ≤ iMax

/-- `Ddo.Theta.BuiltOk` with both filters: the finalized layers of `fin` are the layers of `dd` plus its layer under construction,
    and `dd` satisfies the invariant `TInvJ` -/
structure BuiltOkJ (cfg : Cfg S K) (H : Nat → S → EInt) (B : Int) (cache : Cache S) (O : Int) (fin : DD S K)
    (Live Drop : Nat → Nat → Prop) (dd : DD S K) : Prop where
  inv : TInvJ cfg H B cache O Live Drop dd
  at_ : ∀ (l p : Nat) (n : Node S), getNode (finalizeLayers fin).layers l p = some n →
    (∃ ly, dd.layers[l]? = some ly ∧ ly[p]? = some n) ∨ (l = dd.layers.length ∧ dd.next[p]? = some n)
  ofL : ∀ (l : Nat) ly (p : Nat) (n : Node S), dd.layers[l]? = some ly → ly[p]? = some n →
    getNode (finalizeLayers fin).layers l p = some n
  ofN : ∀ (p : Nat) (n : Node S), dd.next[p]? = some n → getNode (finalizeLayers fin).layers dd.layers.length p = some n
  termL : (finalizeLayers fin).termL = if dd.next.isEmpty then none else some dd.layers.length
  terms : (finalizeLayers fin).terminals = dd.next
  nv : dd.next ≠ [] → cfg.P.nextVar dd.depth (dd.next.map (·.state)) = none
  len : dd.layers.length ≤ cfg.P.nbVars + 1
  lenT : dd.next ≠ [] → (finalizeLayers fin).layers.length = dd.layers.length + 1
  lelEq : fin.lel = dd.lel
  same : dd.next ≠ [] → fin = dd
  lenB : (finalizeLayers fin).layers.length ≤ dd.layers.length + 1

/-- two more facts about the built diagram, needed for the bounds of the cut-set nodes only (`Ddo.CacheClosed.KFacts.unmarked`,
    `.arcsLive`): the top-down build marks nothing, and every inbound arc comes from a position that was handed to the expansion -/
structure KFactsJ (fin : DD S K) (Live : Nat → Nat → Prop) : Prop where
  unmarked : ∀ (l p : Nat) (n : Node S), getNode (finalizeLayers fin).layers l p = some n → n.marked = false
  arcsLive : ∀ (l p : Nat) (n : Node S) (a : Arc), getNode (finalizeLayers fin).layers l p = some n → a ∈ n.inb →
    Live a.fromL a.fromP

/-- everything known about the built diagram `fin` -/
structure CtxJ (cfg : Cfg S K) (H : Nat → S → EInt) (B : Int) (cache : Cache S) (O : Int) (p0 : List Dec) (fin : DD S K)
    (Live Drop : Nat → Nat → Prop) (dd : DD S K) : Prop where
  hy : HypTJ cfg H B
  bo : BuiltOkJ cfg H B cache O fin Live Drop dd
  wf : CutWF cfg p0 (finalizeLayers fin).layers (finalizeLayers fin).lel
  inv2 : Inv2 cfg fin

section
variable {cfg : Cfg S K} {H : Nat → S → EInt} {B : Int} {cache : Cache S} {p0 : List Dec} {fin : DD S K}
  {Live Drop : Nat → Nat → Prop} {dd : DD S K} {O : Int}

/-- where a node of the final diagram sits in the diagram of the invariant -/
theorem CtxJ.locate (hx : CtxJ cfg H B cache O p0 fin Live Drop dd) (e : Bool) {l p : Nat} {n3 : Node S}
    (h : getNode (finalize cfg (finalizeLayers fin) e).2 l p = some n3) :
    ∃ n0 n1 n2, getNode (finalizeLayers fin).layers l p = some n0 ∧ getNode (fLayers1 cfg (finalizeLayers fin)) l p = some n1 ∧
      getNode (fLayers2 cfg (finalizeLayers fin)) l p = some n2 ∧ Corr n0 n1 n2 n3 ∧
      ((∃ ly, dd.layers[l]? = some ly ∧ ly[p]? = some n0 ∧ l < dd.layers.length) ∨ (l = dd.layers.length ∧ dd.next[p]? = some n0)) := by
  obtain ⟨n0, n1, n2, h0, h1, h2, hc⟩ := corr_of_L3 cfg (finalizeLayers fin) e h
  refine ⟨n0, n1, n2, h0, h1, h2, hc, ?_⟩
  rcases hx.bo.at_ l p n0 h0 with ⟨ly, hly, hp⟩ | h'
  · exact .inl ⟨ly, hly, hp, Cover.lt_of_getElem?_some hly⟩
  · exact .inr h'

theorem CtxJ.lmax (hx : CtxJ cfg H B cache O p0 fin Live Drop dd) (e : Bool) (l p : Nat) (n3 : Node S)
    (h : getNode (finalize cfg (finalizeLayers fin) e).2 l p = some n3) : l ≤ dd.layers.length := by
  obtain ⟨n0, n1, n2, _, _, _, _, hloc⟩ := hx.locate e h
  rcases hloc with ⟨_, _, _, hl⟩ | ⟨hl, _⟩ <;> omega

theorem CtxJ.rng (hx : CtxJ cfg H B cache O p0 fin Live Drop dd) (e : Bool) (l p : Nat) (n3 : Node S)
    (h : getNode (finalize cfg (finalizeLayers fin) e).2 l p = some n3) : Cover.Within (Cover.Bd B l) n3.value := by
  obtain ⟨n0, n1, n2, _, _, _, hc, hloc⟩ := hx.locate e h
  rw [hc.value]
  rcases hloc with ⟨ly, hly, hp, _⟩ | ⟨rfl, hp⟩
  · exact hx.bo.inv.rngL l ly hly n0 (List.mem_of_getElem? hp)
  · exact hx.bo.inv.rngN n0 (List.mem_of_getElem? hp)

theorem CtxJ.depth (hx : CtxJ cfg H B cache O p0 fin Live Drop dd) (e : Bool) (l p : Nat) (n3 : Node S)
    (h : getNode (finalize cfg (finalizeLayers fin) e).2 l p = some n3) : n3.depth = cfg.root.depth + l := by
  obtain ⟨n0, n1, n2, _, _, _, hc, hloc⟩ := hx.locate e h
  rw [hc.depth]
  rcases hloc with ⟨ly, hly, hp, _⟩ | ⟨rfl, hp⟩
  · exact (hx.bo.inv.baseL l p ly n0 hly hp).depth
  · rw [(hx.bo.inv.baseN n0 (List.mem_of_getElem? hp)).1.depth, hx.bo.inv.depth]

/-- a child found by the invariant, read in the final diagram -/
theorem CtxJ.child (hx : CtxJ cfg H B cache O p0 fin Live Drop dd) (e : Bool) {l p' : Nat} {m0 : Node S}
    (h : getNode (finalizeLayers fin).layers l p' = some m0) :
    ∃ m3, getNode (finalize cfg (finalizeLayers fin) e).2 l p' = some m3 ∧ m3.state = m0.state ∧ m3.value = m0.value ∧
      m3.inb = m0.inb ∧ m3.deleted = m0.deleted ∧ m3.cache = m0.cache := by
  obtain ⟨n1, n2, n3, _, _, h3, hc⟩ := corr_of_L0 cfg (finalizeLayers fin) e h
  exact ⟨n3, h3, hc.state, hc.value, hc.inb, hc.deleted, hc.cache⟩

theorem CtxJ.liveN (hx : CtxJ cfg H B cache O p0 fin Live Drop dd) (e : Bool) (l p : Nat) (n3 : Node S)
    (h : getNode (finalize cfg (finalizeLayers fin) e).2 l p = some n3) (hdel : n3.deleted = false) (hc : n3.cache = false)
    (hl : l < dd.layers.length) (hD : ¬ Drop l p) :
    n3.rub = cfg.R.rub n3.state ∧ StepF cfg H B (finalize cfg (finalizeLayers fin) e).2 l p n3 := by
  obtain ⟨n0, n1, n2, _, _, _, hco, hloc⟩ := hx.locate e h
  rcases hloc with ⟨ly, hly, hp, _⟩ | ⟨hl', _⟩
  case inr => omega
  have hcls := hx.bo.inv.clsL l p ly n0 hly hp
  have hlive : Live l p := hcls.alive (by rw [← hco.cache]; exact hc) (by rw [← hco.deleted]; exact hdel) hD
  refine ⟨by rw [hco.rub, hco.state]; exact hx.bo.inv.rub l p ly n0 hly hlive hp, ?_⟩
  intro htest h' hH
  rw [hco.state, hco.value] at htest
  rw [hco.state] at hH
  by_cases hl1 : l + 1 = dd.layers.length
  · obtain ⟨p', m0, a, h'', hm0, _, ha, hfl, hfp, hw, hH', hle, hval⟩ :=
      hx.bo.inv.stepN l p ly n0 hl1 hly hlive hp htest h' hH
    have hmd := (hx.bo.inv.baseN m0 (List.mem_of_getElem? hm0)).2.2
    obtain ⟨m3, hm3, e1, e2, e3, e4, _⟩ := hx.child e (hl1 ▸ hx.bo.ofN p' m0 hm0)
    exact ⟨p', m3, a, h'', hm3, by rw [e4]; exact hmd, by rw [e3]; exact ha, hfl, hfp, hw, by rw [e1]; exact hH', hle,
      by rw [hco.value, e2]; exact hval⟩
  · have hlt1 : l + 1 < dd.layers.length := by omega
    have hly' : dd.layers[l + 1]? = some dd.layers[l + 1] := List.getElem?_eq_getElem hlt1
    obtain ⟨p', m0, a, h'', hm0, hok, ha, hfl, hfp, hw, hH', hle, hval⟩ :=
      hx.bo.inv.stepL l p ly _ n0 hly hly' hlive hp htest h' hH
    have hcls' := hx.bo.inv.clsL (l + 1) p' _ m0 hly' hm0
    have hmd : m0.deleted = false := by
      rcases hok with hlv | hca | hdr
      · exact (hcls'.cur hlv).2.1
      · exact (hcls'.pruned hca).1
      · exact (hcls'.drop hdr).2.1
    obtain ⟨m3, hm3, e1, e2, e3, e4, _⟩ := hx.child e (hx.bo.ofL (l + 1) _ p' m0 hly' hm0)
    exact ⟨p', m3, a, h'', hm3, by rw [e4]; exact hmd, by rw [e3]; exact ha, hfl, hfp, hw, by rw [e1]; exact hH', hle,
      by rw [hco.value, e2]; exact hval⟩

theorem fLayers2_arcs (cfg : Cfg S K) (p0 : List Dec) (b : Built S K) (hwf : CutWF cfg p0 b.layers b.lel)
    (l p : Nat) (n : Node S) (h : getNode (fLayers2 cfg b) l p = some n) : ∀ a ∈ n.inb, a.fromL + 1 = l := by
  obtain ⟨n1, h1, s1⟩ := (fLayers2_eqL cfg b).getNode_some h
  obtain ⟨n0, h0, s0⟩ := (fLayers1_eqC cfg b).getNode_some h1
  intro a ha
  refine hwf.arcs l p n0 h0 a ?_
  rw [(stripC_fields s0).2.2.2.2.1, (stripL_fields s1).2.2.2.1]
  exact ha

/-- `computeThresholds_spec`, read on `finalize` -/
theorem CtxJ.spec (hx : CtxJ cfg H B cache O p0 fin Live Drop dd) (e : Bool) :
    (∀ (l p : Nat) (n3 : Node S),
      getNode (finalize cfg (finalizeLayers fin) e).2 l p = some n3 → n3.deleted = false →
      ∃ (n0 : Node S) (θp : Option Int),
        getNode (thInit cfg.kind (finalizeLayers fin).isExactField cfg.lb (finalize cfg (finalizeLayers fin) e).1.bestExactValue
          (finalizeLayers fin).termL (fLayers2 cfg (finalizeLayers fin))) l p = some n0 ∧ stripT n0 = stripT n3 ∧
        (∀ t0, n0.theta = some t0 → ∃ tp, θp = some tp ∧ tp ≤ t0) ∧
        (∀ (p' : Nat) (m3 : Node S) (t : Int) (a : Arc),
          getNode (finalize cfg (finalizeLayers fin) e).2 (l + 1) p' = some m3 →
          m3.deleted = false → m3.theta = some t → a ∈ m3.inb → a.fromP = p →
          ∃ tp, θp = some tp ∧ tp ≤ satSub t a.cost) ∧
        n3.theta = ownTheta (bkOf cfg.lb (finalize cfg (finalizeLayers fin) e).1.bestExactValue) n3 θp) ∧
    (∀ u ∈ (finalize cfg (finalizeLayers fin) e).1.cacheUpdates,
      ∃ (l p : Nat) (n3 : Node S),
        getNode (finalize cfg (finalizeLayers fin) e).2 l p = some n3 ∧
        n3.deleted = false ∧ n3.cache = false ∧ n3.above = true ∧
        ∃ t, n3.theta = some t ∧ u = (n3.state, n3.depth, t, !n3.cutset)) := by
  have h := computeThresholds_spec cfg.kind (finalizeLayers fin).isExactField cfg.lb
    (finalize cfg (finalizeLayers fin) e).1.bestExactValue (finalizeLayers fin).termL (fLayers2 cfg (finalizeLayers fin))
    (fLayers2_arcs cfg p0 (finalizeLayers fin) hx.wf)
  obtain ⟨e1, e2⟩ := finalize_relaxed cfg (finalizeLayers fin) e hx.hy.rel
  rw [← e1, ← e2] at h
  exact h

theorem CtxJ.termL_ne (hx : CtxJ cfg H B cache O p0 fin Live Drop dd) {l : Nat} (hl : l < dd.layers.length) :
    ∀ tl, (finalizeLayers fin).termL = some tl → l ≠ tl := by
  intro tl htl
  rw [hx.bo.termL] at htl
  split at htl
  · cases htl
  · cases htl; omega

theorem CtxJ.cacheN (hx : CtxJ cfg H B cache O p0 fin Live Drop dd) (e : Bool) (l p : Nat) (n3 : Node S)
    (h : getNode (finalize cfg (finalizeLayers fin) e).2 l p = some n3) (hdel : n3.deleted = false) (hc : n3.cache = true) :
    l < dd.layers.length ∧ ∃ (t : Thr) (tf : Int), lookup cfg cache n3 = some t ∧ n3.value ≤ t.value ∧
      n3.theta = some tf ∧ tf ≤ t.value := by
  obtain ⟨n0, n1, n2, _, _, h2, hco, hloc⟩ := hx.locate e h
  have hc0 : n0.cache = true := by rw [← hco.cache]; exact hc
  rcases hloc with ⟨ly, hly, hp, hl⟩ | ⟨_, hp⟩
  case inr =>
    have := (hx.bo.inv.baseN n0 (List.mem_of_getElem? hp)).2.1
    rw [hc0] at this; cases this
  refine ⟨hl, ?_⟩
  obtain ⟨_, t, ht, hth, hv⟩ := (hx.bo.inv.clsL l p ly n0 hly hp).pruned hc0
  obtain ⟨n0', θp, hn0', hs0, hP1, _, hP3⟩ := (hx.spec e).1 l p n3 h hdel
  rw [thInit_other _ _ _ _ _ _ l p (hx.termL_ne hl), h2] at hn0'
  cases hn0'
  obtain ⟨tp, htp, htple⟩ := hP1 t.value (by rw [hco.theta2]; exact hth)
  refine ⟨t, tp, ?_, by rw [hco.value]; exact hv, ?_, htple⟩
  · unfold lookup at ht ⊢
    rw [hco.state, hco.depth]; exact ht
  · rw [hP3]
    unfold ownTheta
    rw [hc, htp]
    rfl

/-- no flag of the bottom-up passes is raised in the built diagram -/
theorem CtxJ.flags0 (hx : CtxJ cfg H B cache O p0 fin Live Drop dd) (l p : Nat) (n : Node S)
    (h : getNode (finalizeLayers fin).layers l p = some n) : n.cutset = false ∧ n.above = false := by
  rcases hx.bo.at_ l p n h with ⟨ly, hly, hp⟩ | ⟨_, hp⟩
  · have := hx.bo.inv.baseL l p ly n hly hp
    exact ⟨this.cutset, this.above⟩
  · have := (hx.bo.inv.baseN n (List.mem_of_getElem? hp)).1
    exact ⟨this.cutset, this.above⟩

theorem CtxJ.flagStep (hx : CtxJ cfg H B cache O p0 fin Live Drop dd) (e : Bool) (l p p' : Nat) (n3 m3 : Node S) (a : Arc)
    (hn : getNode (finalize cfg (finalizeLayers fin) e).2 l p = some n3) (hab : n3.above = true) (hcut : n3.cutset = false)
    (hm : getNode (finalize cfg (finalizeLayers fin) e).2 (l + 1) p' = some m3) (ha : a ∈ m3.inb) (hfl : a.fromL = l)
    (hfp : a.fromP = p) : m3.above = true := by
  obtain ⟨n0, n1, n2, _, hn1, _, hco, _⟩ := hx.locate e hn
  obtain ⟨m0, m1, m2, _, hm1, _, hcm, _⟩ := hx.locate e hm
  rw [hco.above] at hab
  rw [hco.cutset] at hcut
  rw [hcm.above]
  rw [fLayers1_relaxed cfg _ hx.hy.rel] at hn1 hm1
  cases hk : cfg.kind with
  | lel =>
    rw [hk] at hn1 hm1
    obtain ⟨a1, a2, _⟩ := computeCutset_lel_flags _ _ hx.flags0 l p n1 hn1
    obtain ⟨b1, _, _⟩ := computeCutset_lel_flags _ _ hx.flags0 (l + 1) p' m1 hm1
    have h1 := a1.mp hab
    have h2 : ¬ l = (finalizeLayers fin).lel := fun h => by rw [a2.mpr h] at hcut; cases hcut
    exact b1.mpr (by omega)
  | frontier =>
    rw [hk] at hn1 hm1
    obtain ⟨f1, f2⟩ := computeCutset_frontier_flags (finalizeLayers fin).lel _ hx.flags0
    have hnex := (f1 l p n1 hn1).1.mp hab
    apply (f1 (l + 1) p' m1 hm1).1.mpr
    cases hmex : m1.isExact with
    | true => rfl
    | false =>
      exfalso
      have ha1 : a ∈ m1.inb := by rw [hcm.inb1, ← hcm.inb]; exact ha
      have := f2 (l + 1) p' m1 a n1 hm1 hmex ha1 (by rw [hfl, hfp]; exact hn1) hnex
      rw [this] at hcut; cases hcut

/-- a node flagged `cutset` is exact and its position belongs to the cut-set -/
theorem CtxJ.cutMem (hx : CtxJ cfg H B cache O p0 fin Live Drop dd) (e : Bool) (l p : Nat) (n3 : Node S)
    (hn : getNode (finalize cfg (finalizeLayers fin) e).2 l p = some n3) (hcut : n3.cutset = true) :
    (l, p) ∈ fCs cfg (finalizeLayers fin) := by
  obtain ⟨n0, n1, n2, _, hn1, _, hco, _⟩ := hx.locate e hn
  rw [hco.cutset] at hcut
  rw [fCs_of_relaxed cfg _ hx.hy.rel]
  rw [fLayers1_relaxed cfg _ hx.hy.rel] at hn1
  cases hk : cfg.kind with
  | lel =>
    rw [hk] at hn1
    exact (computeCutset_lel_flags _ _ hx.flags0 l p n1 hn1).2.2 hcut
  | frontier =>
    rw [hk] at hn1
    exact ((computeCutset_frontier_flags (finalizeLayers fin).lel _ hx.flags0).1 l p n1 hn1).2 hcut |>.2

/-- the local bounds dominate the potential-preserving paths, as soon as some node is flagged `cutset` -/
theorem CtxJ.good (hx : CtxJ cfg H B cache O p0 fin Live Drop dd) (e : Bool) (l0 q0 : Nat) (c3 : Node S)
    (hc : getNode (finalize cfg (finalizeLayers fin) e).2 l0 q0 = some c3) (hcut : c3.cutset = true)
    (l p : Nat) (h : Int) (r : Nat) (hp : Path (finalize cfg (finalizeLayers fin) e).2 H cfg.root.depth B l p h r) :
    ∃ n3, getNode (finalize cfg (finalizeLayers fin) e).2 l p = some n3 ∧ n3.marked = true ∧ h ≤ n3.vbot := by
  have hmem := hx.cutMem e l0 q0 c3 hc hcut
  have hlel : (finalizeLayers fin).lel < (finalizeLayers fin).layers.length := by
    rcases Nat.lt_or_ge (finalizeLayers fin).lel (finalizeLayers fin).layers.length with h' | h'
    · exact h'
    · have := fCs_sub cfg _ _ hmem
      rw [hx.wf.cutset_nil h'] at this
      exact absurd this List.not_mem_nil
  have hlenB : (finalizeLayers fin).layers.length ≤ cfg.P.nbVars + 2 := by
    have := hx.bo.lenB; have := hx.bo.len; omega
  exact finalize_good cfg (finalizeLayers fin) e H cfg.root.depth B hx.hy.rel hlel
    (small_of_noClamp hx.hy.B hlenB) l p h r (hp.of_xEq (finalize_layers_xEq cfg (finalizeLayers fin) e).symm)

/-- the last exact layer is not the terminal layer -/
theorem CtxJ.lel_ne (hx : CtxJ cfg H B cache O p0 fin Live Drop dd) (hne : dd.next ≠ []) :
    (fin.lel = none ∧ (finalizeLayers fin).lel = dd.layers.length + 1) ∨ (finalizeLayers fin).lel < dd.layers.length := by
  have hsame := hx.bo.same hne
  rw [finalizeLayers_lel]
  cases hl : fin.lel with
  | none => left; exact ⟨rfl, by rw [Option.getD_none, hx.bo.lenT hne]⟩
  | some k =>
    right
    rw [Option.getD_some]
    have := (hx.inv2.lelSome k hl).1
    rw [hsame] at this
    exact this

theorem CtxJ.termN (hx : CtxJ cfg H B cache O p0 fin Live Drop dd) (e : Bool) (p : Nat) (n3 : Node S)
    (h : getNode (finalize cfg (finalizeLayers fin) e).2 dd.layers.length p = some n3) :
    n3.deleted = false ∧ n3.cache = false ∧ n3.cutset = false ∧ n3.rub = iMax ∧
    (∀ h, H (cfg.root.depth + dd.layers.length) n3.state = some h → h = 0) ∧
    (finalize cfg (finalizeLayers fin) e).2.length = dd.layers.length + 1 := by
  obtain ⟨n0, n1, n2, hn0, hn1, _, hco, hloc⟩ := hx.locate e h
  rcases hloc with ⟨_, _, _, hl⟩ | ⟨_, hp⟩
  case inl => omega
  have hmem : n0 ∈ dd.next := List.mem_of_getElem? hp
  have hne : dd.next ≠ [] := List.ne_nil_of_mem hmem
  obtain ⟨hb, hc, hd⟩ := hx.bo.inv.baseN n0 hmem
  have hlenT := hx.bo.lenT hne
  refine ⟨by rw [hco.deleted]; exact hd, by rw [hco.cache]; exact hc, ?_, by rw [hco.rub]; exact hx.bo.inv.rubN n0 hmem, ?_, ?_⟩
  · rw [hco.cutset]
    rw [fLayers1_relaxed cfg _ hx.hy.rel] at hn1
    cases hcs : n1.cutset with
    | false => rfl
    | true =>
      exfalso
      cases hk : cfg.kind with
      | lel =>
        rw [hk] at hn1
        have := (computeCutset_lel_flags _ _ hx.flags0 _ p n1 hn1).2.1.mp hcs
        rcases hx.lel_ne hne with ⟨_, h2⟩ | h2 <;> omega
      | frontier =>
        rw [hk] at hn1
        have hm := ((computeCutset_frontier_flags (finalizeLayers fin).lel _ hx.flags0).1 _ p n1 hn1).2 hcs |>.2
        obtain ⟨_, _, _, l', p', m, a, hm', _, ha, hfl, _⟩ := computeCutset_frontier _ _ _ hm
        have h1 := hx.wf.arcs l' p' m hm' a ha
        have h2 := Ddo.getNode_lt hm'
        dsimp only at hfl
        omega
  · intro h hH
    rw [hco.state, ← hx.bo.inv.depth] at hH
    exact hx.hy.term dd.depth _ n0.state h (hx.bo.nv hne) (List.mem_map_of_mem hmem) hH
  · rw [(finalize_layers_xEq cfg (finalizeLayers fin) e).length, hlenT]

theorem CtxJ.thetaF (hx : CtxJ cfg H B cache O p0 fin Live Drop dd) (e : Bool) (l p : Nat) (n3 : Node S)
    (h : getNode (finalize cfg (finalizeLayers fin) e).2 l p = some n3) (hdel : n3.deleted = false) :
    ∃ θp : Option Int, n3.theta = ownTheta (bkOf cfg.lb (finalize cfg (finalizeLayers fin) e).1.bestExactValue) n3 θp ∧
      (∀ (p' : Nat) (m3 : Node S) (t : Int) (a : Arc), getNode (finalize cfg (finalizeLayers fin) e).2 (l + 1) p' = some m3 →
        m3.deleted = false → m3.theta = some t → a ∈ m3.inb → a.fromP = p → ∃ tp, θp = some tp ∧ tp ≤ satSub t a.cost) ∧
      (l = dd.layers.length → n3.above = true →
        ∃ tp, θp = some tp ∧ tp ≤ bkOf cfg.lb (finalize cfg (finalizeLayers fin) e).1.bestExactValue) ∧
      (Drop l p → ∃ tp, θp = some tp ∧ DomOkAt H O (cfg.root.depth + l) n3.state tp) := by
  obtain ⟨n0', θp, hn0', hs0, hP1, hP2, hP3⟩ := (hx.spec e).1 l p n3 h hdel
  refine ⟨θp, hP3, hP2, ?_, ?_⟩
  case refine_2 =>
    -- dropped by the checker: the thresholds pass starts from the threshold of the verdict
    intro hD
    have hl := hx.bo.inv.dropLt l p hD
    obtain ⟨n0, n1, n2, _, _, h2, hco, hloc⟩ := hx.locate e h
    rcases hloc with ⟨ly, hly, hp, _⟩ | ⟨hl', _⟩
    case inr => omega
    obtain ⟨_, _, _, _, _, thr, hthr, hdom⟩ := (hx.bo.inv.clsL l p ly n0 hly hp).drop hD
    rw [thInit_other _ _ _ _ _ _ l p (hx.termL_ne hl), h2] at hn0'
    cases hn0'
    obtain ⟨tp, htp, htple⟩ := hP1 thr (by rw [hco.theta2]; exact hthr)
    refine ⟨tp, htp, ?_⟩
    intro v hv h' hH
    rw [hco.state] at hH
    exact hdom v (by omega) h' hH
  intro hl hab
  subst hl
  obtain ⟨n0, n1, n2, hn0, hn1, hn2, hco, hloc⟩ := hx.locate e h
  rcases hloc with ⟨_, _, _, hl⟩ | ⟨_, hp⟩
  case inl => omega
  have hmem : n0 ∈ dd.next := List.mem_of_getElem? hp
  have hne : dd.next ≠ [] := List.ne_nil_of_mem hmem
  have hsame := hx.bo.same hne
  have htl : (finalizeLayers fin).termL = some dd.layers.length := by
    rw [hx.bo.termL]
    cases hn : dd.next with
    | nil => exact absurd hn hne
    | cons _ _ => rfl
  -- the node is exact, and the condition under which the terminal thresholds are initialised holds
  rw [hco.above] at hab
  rw [fLayers1_relaxed cfg _ hx.hy.rel] at hn1
  have hcond : ((cfg.kind == .lel && (finalizeLayers fin).isExactField) || (cfg.kind == .frontier && n2.isExact)) = true ∧
      n0.isExact = true := by
    have hex2 : n2.isExact = n0.isExact := by
      unfold Node.isExact
      rw [← (stripL_fields hco.c12).2.2.2.2.2.2.1, ← (stripL_fields hco.c12).2.2.2.2.2.2.2.1,
        ← (stripC_fields hco.c01).2.2.2.2.2.2.2.1, ← (stripC_fields hco.c01).2.2.2.2.2.2.2.2.1]
    cases hk : cfg.kind with
    | lel =>
      rw [hk] at hn1
      have h1 := (computeCutset_lel_flags _ _ hx.flags0 _ p n1 hn1).1.mp hab
      rcases hx.lel_ne hne with ⟨hnone, _⟩ | h2
      · have hie : (finalizeLayers fin).isExactField = true := by
          unfold finalizeLayers; dsimp only; rw [hnone]; rfl
        refine ⟨by rw [hie]; rfl, ?_⟩
        have := (hx.inv2.lelNone hnone).2 n0 (by rw [hsame]; exact hmem)
        exact this
      · omega
    | frontier =>
      rw [hk] at hn1
      have h1 := ((computeCutset_frontier_flags (finalizeLayers fin).lel _ hx.flags0).1 _ p n1 hn1).1.mp hab
      rw [hco.isExact1] at h1
      refine ⟨by rw [hex2, h1]; simp, h1⟩
  -- hence some exact value is reported
  have hbe : ∃ w, (finalize cfg (finalizeLayers fin) e).1.bestExactValue = some w := by
    rw [Bounds.finalize_bestExactValue]
    have hterm : n0 ∈ (finalizeLayers fin).terminals := by rw [hx.bo.terms]; exact hmem
    split
    · obtain ⟨bv, hbv, _⟩ := Cover.maxValue_ge _ n0 hterm
      exact ⟨bv, hbv⟩
    · obtain ⟨bv, hbv, _⟩ := Cover.maxValue_ge _ n0 (List.mem_filter.mpr ⟨hterm, hcond.2⟩)
      exact ⟨bv, hbv⟩
  obtain ⟨w, hw⟩ := hbe
  rw [hw, htl, thInit_term cfg.kind _ cfg.lb w dd.layers.length _ p n2 hn2 hcond.1] at hn0'
  cases hn0'
  rw [hw]
  exact hP1 _ rfl

theorem CtxJ.dropN (hx : CtxJ cfg H B cache O p0 fin Live Drop dd) (e : Bool) (l p : Nat) (n3 : Node S)
    (h : getNode (finalize cfg (finalizeLayers fin) e).2 l p = some n3) (hD : Drop l p) :
    n3.deleted = false ∧ n3.cache = false ∧ l < dd.layers.length ∧
    (∀ h, H (cfg.root.depth + l) n3.state = some h → h ≤ n3.rub) ∧
    (∀ h, H (cfg.root.depth + l) n3.state = some h → n3.value + h ≤ O) := by
  have hl := hx.bo.inv.dropLt l p hD
  obtain ⟨n0, n1, n2, _, _, _, hco, hloc⟩ := hx.locate e h
  rcases hloc with ⟨ly, hly, hp, _⟩ | ⟨hl', _⟩
  case inr => omega
  obtain ⟨d1, d2, _, d4, d5, _⟩ := (hx.bo.inv.clsL l p ly n0 hly hp).drop hD
  refine ⟨by rw [hco.deleted]; exact d2, by rw [hco.cache]; exact d1, hl, ?_, ?_⟩
  · intro h' hH
    rw [hco.rub, d4]
    exact hx.hy.potMax _ _ h' hH
  · intro h' hH
    rw [hco.state] at hH
    rw [hco.value]
    exact d5 h' hH

/-- **the facts of `CompatThetaCore.lean` hold for the finished diagram of a relaxed compilation with both filters** -/
theorem CtxJ.ffj (hx : CtxJ cfg H B cache O p0 fin Live Drop dd) (e : Bool) :
    FFJ cfg H B cache (finalize cfg (finalizeLayers fin) e).2 dd.layers.length
      (bkOf cfg.lb (finalize cfg (finalizeLayers fin) e).1.bestExactValue) O Drop :=
  ⟨hx.lmax e, hx.rng e, hx.cacheN e, hx.liveN e, hx.dropN e, hx.termN e, hx.thetaF e, hx.flagStep e, hx.good e⟩

/-- **soundness of the thresholds with both filters, on `finalize`**, at the level `O ≥ bk` -/
theorem CtxJ.theta_sound (hx : CtxJ cfg H B cache O p0 fin Live Drop dd) (hR : RubOk cfg.R H) (hlb : cfg.lb < iMax)
    (M : Int) (hM0 : 0 ≤ M) (hMs : M + Cover.Bd B (cfg.P.nbVars + 1) ≤ big) (e : Bool)
    (hbkO : bkOf cfg.lb (finalize cfg (finalizeLayers fin) e).1.bestExactValue ≤ O) :
    ∀ u ∈ (finalize cfg (finalizeLayers fin) e).1.cacheUpdates, cfg.root.depth ≤ u.2.1 ∧
      ∀ v h, Cover.Within (M + Cover.Bd B (u.2.1 - cfg.root.depth)) v → v ≤ u.2.2.1 → H u.2.1 u.1 = some h →
        v + h ≤ O ∨
        (∃ c ∈ (finalize cfg (finalizeLayers fin) e).1.cutset, u.2.1 ≤ c.depth ∧
          ∃ y, (H c.depth c.state).addI c.value = some y ∧ v + h ≤ y) ∨
        (cfg.useCache = true ∧ ∃ (s' : S) (d' : Nat) (t : Thr) (v' h' : Int), cache.get s' d' = some (some t) ∧ u.2.1 < d' ∧
          Cover.Within (M + Cover.Bd B (d' - cfg.root.depth)) v' ∧ v' ≤ t.value ∧ H d' s' = some h' ∧ v + h ≤ v' + h') := by
  intro u hu
  obtain ⟨l, p, n3, hn, hdel, hc, hab, t, hth, rfl⟩ := (hx.spec e).2 u hu
  have hdep := hx.depth e l p n3 hn
  dsimp only
  refine ⟨by omega, ?_⟩
  intro v h hv hvt hH
  have hlmax := hx.lmax e l p n3 hn
  have hy : HypFJ cfg H B M dd.layers.length (bkOf cfg.lb (finalize cfg (finalizeLayers fin) e).1.bestExactValue) O := by
    refine ⟨hR, hlb, bkOf_ge _ _, hbkO, hx.hy.B.nonneg, hM0, ?_⟩
    have := Cover.Bd_mono hx.hy.B.nonneg hx.bo.len
    omega
  have hg := gtj_all (hx.ffj e) hy (dd.layers.length - l) l p n3 (by omega) hn hdel
  rw [hdep, Nat.add_sub_cancel_left] at hv
  rw [hdep] at hH
  rcases hg v hv (fun t' ht' => by rw [hth] at ht'; cases ht'; exact hvt) h hH with g1 | g1 | g1 | ⟨g1, _⟩
  · exact .inl g1
  · right; left
    obtain ⟨l', p', c3, hc', hll, hc3, _, hcut3, hmk3, _, _, ⟨pt, tn, htn⟩, hHc, hxle⟩ := g1
    obtain ⟨t0, _, _, _, _, _, _, hloc⟩ := hx.locate e htn
    have hbv : ∃ bv, (finalizeLayers fin).bestValue = some bv := by
      rcases hloc with ⟨_, _, _, hl⟩ | ⟨_, hp⟩
      · omega
      · have hterm : t0 ∈ (finalizeLayers fin).terminals := by rw [hx.bo.terms]; exact List.mem_of_getElem? hp
        obtain ⟨bv, hbv, _⟩ := Cover.maxValue_ge _ t0 hterm
        exact ⟨bv, hbv⟩
    obtain ⟨bv, hbv⟩ := hbv
    refine ⟨subOf cfg (finalize cfg (finalizeLayers fin) e).2 bv c3, ?_, ?_, c3.value + hc', ?_, hxle⟩
    · exact (finalize_cutset_iff cfg _ e _).2 ⟨bv, (l', p'), c3, hbv, hx.cutMem e l' p' c3 hc3 hcut3, hc3, hmk3, rfl⟩
    · simp only [subOf]
      rw [hdep, hx.depth e l' p' c3 hc3]; omega
    · simp only [subOf]
      rw [hx.depth e l' p' c3 hc3, hHc]
      simp only [EInt.addI, Option.map_some]
      rw [Int.add_comm]
  · right; right
    obtain ⟨l', p', m3, t', v', h', hll, hpp, hm3, _, hcm, hlook, hv't, hw', hH', hxle⟩ := g1
    have hlt : l < l' := by
      rcases Nat.lt_or_ge l l' with h1 | h1
      · exact h1
      · have hl' : l' = l := by omega
        subst hl'
        rw [hpp rfl, hn] at hm3
        cases hm3
        rw [hc] at hcm; cases hcm
    obtain ⟨hu1, hget⟩ := lookup_some hlook
    have hdm := hx.depth e l' p' m3 hm3
    refine ⟨hu1, m3.state, m3.depth, t', v', h', hget, by rw [hdep, hdm]; omega, ?_, hv't, by rw [hdm]; exact hH', hxle⟩
    rw [hdm, Nat.add_sub_cancel_left]
    exact hw'
  · rw [hab] at g1; cases g1

end
end Ddo.C10d

#print axioms Ddo.C10d.CtxJ.ffj
#print axioms Ddo.C10d.CtxJ.theta_sound
