import DdoModel.Examples.Util
/-! Lemmas about the enumeration helpers of `DdoModel/Examples/Util.lean` (and about the permutation
    enumerator that several example specifications re-declare locally): each enumerator lists EXACTLY the
    objects it is meant to list, `maxOf` / `minOf` return an extremal element and `none` only on `[]`.
    These are the facts that tie the executable example specifications to declarative problem statements
    (`DdoModel/Props/C16.lean`). -/
namespace Ddo.SpecUtil
open Ddo.Examples.Util

/-! ### `sublists` enumerates exactly the sub-lists -/

theorem mem_sublists {α : Type} {s l : List α} : s ∈ sublists l ↔ s.Sublist l := by
  induction l generalizing s with
  | nil => simp [sublists]
  | cons x xs ih =>
    simp only [sublists, List.mem_append, List.mem_map, ih]
    constructor
    · rintro (h | ⟨t, ht, rfl⟩)
      · exact h.cons _
      · exact ht.cons_cons _
    · intro h
      cases h with
      | cons _ h => exact Or.inl h
      | cons_cons _ h => exact Or.inr ⟨_, h, rfl⟩

theorem length_sublists {α : Type} (l : List α) : (sublists l).length = 2 ^ l.length := by
  induction l with
  | nil => rfl
  | cons x xs ih => simp only [sublists, List.length_append, List.length_map, ih, List.length_cons]; omega

/-- a sub-list of a list whose keys `f x` are pairwise distinct is determined by the set of its keys -/
theorem sublist_eq_filter {α β : Type} [DecidableEq β] (f : α → β) {s l : List α}
    (hs : s.Sublist l) (hnd : (l.map f).Nodup) :
    s = l.filter (fun x => (s.map f).contains (f x)) := by
  induction hs with
  | slnil => rfl
  | cons a h ih =>
    rename_i s l'
    simp only [List.map_cons, List.nodup_cons] at hnd
    have hna : f a ∉ s.map f := fun hm => hnd.1 ((h.map f).subset hm)
    rw [List.filter_cons]
    simp only [List.contains_iff_mem, hna]
    simpa using ih hnd.2
  | cons_cons a h ih =>
    rename_i s l'
    simp only [List.map_cons, List.nodup_cons] at hnd
    rw [List.filter_cons]
    simp only [List.map_cons, List.contains_iff_mem, List.mem_cons, true_or, if_true]
    congr 1
    have := ih hnd.2
    refine this.trans (List.filter_congr ?_)
    intro x hx
    have : f x ≠ f a := fun e => hnd.1 (e ▸ List.mem_map_of_mem hx)
    simp [this]

/-! ### `tuples` enumerates exactly the lists of length `k` over the alphabet -/

theorem mem_tuples {α : Type} {dom : List α} {k : Nat} {t : List α} :
    t ∈ tuples dom k ↔ t.length = k ∧ ∀ x ∈ t, x ∈ dom := by
  induction k generalizing t with
  | zero =>
    simp only [tuples, List.mem_singleton]
    constructor
    · rintro rfl; simp
    · rintro ⟨h, _⟩; exact List.length_eq_zero_iff.mp h
  | succ k ih =>
    simp only [tuples, List.mem_flatMap, List.mem_map, ih]
    constructor
    · rintro ⟨t', ⟨hl, hd⟩, a, ha, rfl⟩
      refine ⟨by simp [hl], ?_⟩
      intro x hx
      rcases List.mem_cons.mp hx with rfl | hx
      · exact ha
      · exact hd x hx
    · rintro ⟨hl, hd⟩
      cases t with
      | nil => simp at hl
      | cons a t' =>
        refine ⟨t', ⟨by simpa using hl, fun x hx => hd x (List.mem_cons_of_mem _ hx)⟩, a,
          hd a (List.mem_cons_self), rfl⟩

/-! ### `maxOf` / `minOf` -/

theorem foldl_max_spec (xs : List Int) (x : Int) :
    xs.foldl max x ∈ x :: xs ∧ ∀ y ∈ x :: xs, y ≤ xs.foldl max x := by
  induction xs generalizing x with
  | nil => simp
  | cons a as ih =>
    simp only [List.foldl_cons]
    obtain ⟨hm, hle⟩ := ih (max x a)
    constructor
    · rcases List.mem_cons.mp hm with h | h
      · rw [h]
        by_cases hxa : x ≤ a
        · rw [Int.max_eq_right hxa]; simp
        · rw [Int.max_eq_left (by omega)]; simp
      · exact List.mem_cons_of_mem _ (List.mem_cons_of_mem _ h)
    · intro y hy
      have h0 := hle (max x a) (List.mem_cons_self)
      rcases List.mem_cons.mp hy with rfl | hy
      · omega
      · rcases List.mem_cons.mp hy with rfl | hy
        · omega
        · exact hle y (List.mem_cons_of_mem _ hy)

theorem foldl_min_spec (xs : List Int) (x : Int) :
    xs.foldl min x ∈ x :: xs ∧ ∀ y ∈ x :: xs, xs.foldl min x ≤ y := by
  induction xs generalizing x with
  | nil => simp
  | cons a as ih =>
    simp only [List.foldl_cons]
    obtain ⟨hm, hle⟩ := ih (min x a)
    constructor
    · rcases List.mem_cons.mp hm with h | h
      · rw [h]
        by_cases hxa : x ≤ a
        · rw [Int.min_eq_left hxa]; simp
        · rw [Int.min_eq_right (by omega)]; simp
      · exact List.mem_cons_of_mem _ (List.mem_cons_of_mem _ h)
    · intro y hy
      have h0 := hle (min x a) (List.mem_cons_self)
      rcases List.mem_cons.mp hy with rfl | hy
      · omega
      · rcases List.mem_cons.mp hy with rfl | hy
        · omega
        · exact hle y (List.mem_cons_of_mem _ hy)

theorem maxOf_eq_none {l : List Int} : maxOf l = none ↔ l = [] := by
  cases l <;> simp [maxOf]

theorem minOf_eq_none {l : List Int} : minOf l = none ↔ l = [] := by
  cases l <;> simp [minOf]

/-- `maxOf` returns an element of the list that is an upper bound of the list — and nothing else -/
theorem maxOf_eq_some {l : List Int} {v : Int} :
    maxOf l = some v ↔ v ∈ l ∧ ∀ y ∈ l, y ≤ v := by
  cases l with
  | nil => simp [maxOf]
  | cons x xs =>
    obtain ⟨hm, hle⟩ := foldl_max_spec xs x
    simp only [maxOf, Option.some.injEq]
    constructor
    · rintro rfl; exact ⟨hm, hle⟩
    · rintro ⟨hv, hub⟩
      have h1 := hub _ hm
      have h2 := hle _ hv
      omega

theorem minOf_eq_some {l : List Int} {v : Int} :
    minOf l = some v ↔ v ∈ l ∧ ∀ y ∈ l, v ≤ y := by
  cases l with
  | nil => simp [minOf]
  | cons x xs =>
    obtain ⟨hm, hle⟩ := foldl_min_spec xs x
    simp only [minOf, Option.some.injEq]
    constructor
    · rintro rfl; exact ⟨hm, hle⟩
    · rintro ⟨hv, hub⟩
      have h1 := hub _ hm
      have h2 := hle _ hv
      omega

/-! ### Optimum of a set of solutions, declaratively -/

/-- `v` is the maximum of `obj` over the solutions satisfying `Feas`: attained, and an upper bound -/
def IsMaxOf {σ : Type} (Feas : σ → Prop) (obj : σ → Int) (v : Int) : Prop :=
  (∃ s, Feas s ∧ obj s = v) ∧ ∀ s, Feas s → obj s ≤ v

/-- `v` is the minimum of `obj` over the solutions satisfying `Feas`: attained, and a lower bound -/
def IsMinOf {σ : Type} (Feas : σ → Prop) (obj : σ → Int) (v : Int) : Prop :=
  (∃ s, Feas s ∧ obj s = v) ∧ ∀ s, Feas s → v ≤ obj s

theorem IsMaxOf.unique {σ : Type} {Feas : σ → Prop} {obj : σ → Int} {v w : Int}
    (hv : IsMaxOf Feas obj v) (hw : IsMaxOf Feas obj w) : v = w := by
  obtain ⟨⟨s, hs, rfl⟩, hub⟩ := hv
  obtain ⟨⟨t, ht, rfl⟩, hub'⟩ := hw
  have := hub t ht; have := hub' s hs; omega

theorem IsMinOf.unique {σ : Type} {Feas : σ → Prop} {obj : σ → Int} {v w : Int}
    (hv : IsMinOf Feas obj v) (hw : IsMinOf Feas obj w) : v = w := by
  obtain ⟨⟨s, hs, rfl⟩, hub⟩ := hv
  obtain ⟨⟨t, ht, rfl⟩, hub'⟩ := hw
  have := hub t ht; have := hub' s hs; omega

/-- the engine of every adequacy proof: when the list `L` holds exactly the objective values of the feasible
    solutions, `maxOf L` is their maximum -/
theorem maxOf_isMaxOf {σ : Type} {Feas : σ → Prop} {obj : σ → Int} {L : List Int}
    (hL : ∀ x, x ∈ L ↔ ∃ s, Feas s ∧ obj s = x) (v : Int) :
    maxOf L = some v ↔ IsMaxOf Feas obj v := by
  rw [maxOf_eq_some, IsMaxOf, hL]
  constructor
  · rintro ⟨h1, h2⟩
    exact ⟨h1, fun s hs => h2 _ ((hL _).mpr ⟨s, hs, rfl⟩)⟩
  · rintro ⟨h1, h2⟩
    refine ⟨h1, fun y hy => ?_⟩
    obtain ⟨s, hs, rfl⟩ := (hL y).mp hy
    exact h2 s hs

theorem minOf_isMinOf {σ : Type} {Feas : σ → Prop} {obj : σ → Int} {L : List Int}
    (hL : ∀ x, x ∈ L ↔ ∃ s, Feas s ∧ obj s = x) (v : Int) :
    minOf L = some v ↔ IsMinOf Feas obj v := by
  rw [minOf_eq_some, IsMinOf, hL]
  constructor
  · rintro ⟨h1, h2⟩
    exact ⟨h1, fun s hs => h2 _ ((hL _).mpr ⟨s, hs, rfl⟩)⟩
  · rintro ⟨h1, h2⟩
    refine ⟨h1, fun y hy => ?_⟩
    obtain ⟨s, hs, rfl⟩ := (hL y).mp hy
    exact h2 s hs

theorem maxOf_none_iff {σ : Type} {Feas : σ → Prop} {obj : σ → Int} {L : List Int}
    (hL : ∀ x, x ∈ L ↔ ∃ s, Feas s ∧ obj s = x) : maxOf L = none ↔ ¬ ∃ s, Feas s := by
  rw [maxOf_eq_none]
  constructor
  · rintro rfl ⟨s, hs⟩
    have := (hL (obj s)).mpr ⟨s, hs, rfl⟩
    simp at this
  · intro h
    cases L with
    | nil => rfl
    | cons x xs =>
      obtain ⟨s, hs, _⟩ := (hL x).mp (List.mem_cons_self)
      exact absurd ⟨s, hs⟩ h

theorem minOf_none_iff {σ : Type} {Feas : σ → Prop} {obj : σ → Int} {L : List Int}
    (hL : ∀ x, x ∈ L ↔ ∃ s, Feas s ∧ obj s = x) : minOf L = none ↔ ¬ ∃ s, Feas s := by
  rw [minOf_eq_none]
  constructor
  · rintro rfl ⟨s, hs⟩
    have := (hL (obj s)).mpr ⟨s, hs, rfl⟩
    simp at this
  · intro h
    cases L with
    | nil => rfl
    | cons x xs =>
      obtain ⟨s, hs, _⟩ := (hL x).mp (List.mem_cons_self)
      exact absurd ⟨s, hs⟩ h

/-- a specification that prints `dflt` when there is no solution -/
theorem minOf_getD_iff {σ : Type} {Feas : σ → Prop} {obj : σ → Int} {L : List Int}
    (hL : ∀ x, x ∈ L ↔ ∃ s, Feas s ∧ obj s = x) (dflt v : Int) :
    (minOf L).getD dflt = v ↔ IsMinOf Feas obj v ∨ ((¬ ∃ s, Feas s) ∧ v = dflt) := by
  cases h : minOf L with
  | none =>
    have hno := (minOf_none_iff hL).mp h
    simp only [Option.getD_none]
    constructor
    · rintro rfl; exact Or.inr ⟨hno, rfl⟩
    · rintro (⟨⟨s, hs, _⟩, _⟩ | ⟨_, rfl⟩)
      · exact absurd ⟨s, hs⟩ hno
      · rfl
  | some w =>
    have hw := (minOf_isMinOf hL w).mp h
    simp only [Option.getD_some]
    constructor
    · rintro rfl; exact Or.inl hw
    · rintro (hv | ⟨hno, _⟩)
      · exact hw.unique hv
      · obtain ⟨⟨s, hs, _⟩, _⟩ := hw
        exact absurd ⟨s, hs⟩ hno

theorem maxOf_getD_iff {σ : Type} {Feas : σ → Prop} {obj : σ → Int} {L : List Int}
    (hL : ∀ x, x ∈ L ↔ ∃ s, Feas s ∧ obj s = x) (dflt v : Int) :
    (maxOf L).getD dflt = v ↔ IsMaxOf Feas obj v ∨ ((¬ ∃ s, Feas s) ∧ v = dflt) := by
  cases h : maxOf L with
  | none =>
    have hno := (maxOf_none_iff hL).mp h
    simp only [Option.getD_none]
    constructor
    · rintro rfl; exact Or.inr ⟨hno, rfl⟩
    · rintro (⟨⟨s, hs, _⟩, _⟩ | ⟨_, rfl⟩)
      · exact absurd ⟨s, hs⟩ hno
      · rfl
  | some w =>
    have hw := (maxOf_isMaxOf hL w).mp h
    simp only [Option.getD_some]
    constructor
    · rintro rfl; exact Or.inl hw
    · rintro (hv | ⟨hno, _⟩)
      · exact hw.unique hv
      · obtain ⟨⟨s, hs, _⟩, _⟩ := hw
        exact absurd ⟨s, hs⟩ hno

/-- the engine for specifications that enumerate only a DOMINANT subset of the solutions (e.g. only the schedules
    in which everything happens as early as possible): every listed value is the objective of a feasible
    solution, and every feasible solution is matched or beaten by a listed value -/
theorem minOf_isMinOf_of_dominant {σ : Type} {Feas : σ → Prop} {obj : σ → Int} {L : List Int}
    (hsound : ∀ x, x ∈ L → ∃ s, Feas s ∧ obj s = x)
    (hdom : ∀ s, Feas s → ∃ x, x ∈ L ∧ x ≤ obj s) (v : Int) :
    minOf L = some v ↔ IsMinOf Feas obj v := by
  rw [minOf_eq_some, IsMinOf]
  constructor
  · rintro ⟨h1, h2⟩
    refine ⟨hsound v h1, fun s hs => ?_⟩
    obtain ⟨x, hx, hle⟩ := hdom s hs
    have := h2 x hx; omega
  · rintro ⟨⟨s, hs, rfl⟩, h2⟩
    obtain ⟨x, hx, hle⟩ := hdom s hs
    obtain ⟨s', hs', rfl⟩ := hsound x hx
    have := h2 s' hs'
    have e : obj s' = obj s := by omega
    refine ⟨e ▸ hx, fun y hy => ?_⟩
    obtain ⟨s'', hs'', rfl⟩ := hsound y hy
    exact h2 s'' hs''

theorem minOf_none_iff_of_dominant {σ : Type} {Feas : σ → Prop} {obj : σ → Int} {L : List Int}
    (hsound : ∀ x, x ∈ L → ∃ s, Feas s ∧ obj s = x)
    (hdom : ∀ s, Feas s → ∃ x, x ∈ L ∧ x ≤ obj s) : minOf L = none ↔ ¬ ∃ s, Feas s := by
  rw [minOf_eq_none]
  constructor
  · rintro rfl ⟨s, hs⟩
    obtain ⟨x, hx, _⟩ := hdom s hs
    cases hx
  · intro h
    cases L with
    | nil => rfl
    | cons x xs =>
      obtain ⟨s, hs, _⟩ := hsound x List.mem_cons_self
      exact absurd ⟨s, hs⟩ h

theorem minOf_getD_iff_of_dominant {σ : Type} {Feas : σ → Prop} {obj : σ → Int} {L : List Int}
    (hsound : ∀ x, x ∈ L → ∃ s, Feas s ∧ obj s = x)
    (hdom : ∀ s, Feas s → ∃ x, x ∈ L ∧ x ≤ obj s) (dflt v : Int) :
    (minOf L).getD dflt = v ↔ IsMinOf Feas obj v ∨ ((¬ ∃ s, Feas s) ∧ v = dflt) := by
  cases h : minOf L with
  | none =>
    have hno := (minOf_none_iff_of_dominant hsound hdom).mp h
    simp only [Option.getD_none]
    constructor
    · rintro rfl; exact Or.inr ⟨hno, rfl⟩
    · rintro (⟨⟨s, hs, _⟩, _⟩ | ⟨_, rfl⟩)
      · exact absurd ⟨s, hs⟩ hno
      · rfl
  | some w =>
    have hw := (minOf_isMinOf_of_dominant hsound hdom w).mp h
    simp only [Option.getD_some]
    constructor
    · rintro rfl; exact Or.inl hw
    · rintro (hv | ⟨hno, _⟩)
      · exact hw.unique hv
      · obtain ⟨⟨s, hs, _⟩, _⟩ := hw
        exact absurd ⟨s, hs⟩ hno

/-! ### `sum` is the sum -/

theorem foldl_add (xs : List Int) (a : Int) : xs.foldl (· + ·) a = a + xs.sum := by
  induction xs generalizing a with
  | nil => simp
  | cons x xs ih => simp only [List.foldl_cons, ih, List.sum_cons]; omega

theorem sum_eq (xs : List Int) : sum xs = xs.sum := by
  simp [sum, foldl_add]

@[simp] theorem sum_nil : sum [] = 0 := rfl
theorem sum_cons (x : Int) (xs : List Int) : sum (x :: xs) = x + sum xs := by
  simp [sum_eq]

/-- summing `g` over the elements kept by a filter = summing `if kept then g else 0` over all elements -/
theorem sum_map_filter {α : Type} (p : α → Bool) (g : α → Int) (l : List α) :
    ((l.filter p).map g).sum = (l.map fun x => if p x then g x else 0).sum := by
  induction l with
  | nil => rfl
  | cons x xs ih =>
    by_cases h : p x <;> simp [h, ih]


/-- two descriptions of the same solutions have the same optimum -/
theorem IsMaxOf.transfer {σ τ : Type} {F : σ → Prop} {G : τ → Prop} {f : σ → Int} {g : τ → Int}
    (h1 : ∀ s, F s → ∃ t, G t ∧ g t = f s) (h2 : ∀ t, G t → ∃ s, F s ∧ f s = g t) (v : Int) :
    IsMaxOf F f v ↔ IsMaxOf G g v := by
  constructor
  · rintro ⟨⟨s, hs, rfl⟩, hub⟩
    obtain ⟨t, ht, e⟩ := h1 s hs
    refine ⟨⟨t, ht, e⟩, fun t' ht' => ?_⟩
    obtain ⟨s', hs', e'⟩ := h2 t' ht'
    have := hub s' hs'; omega
  · rintro ⟨⟨t, ht, rfl⟩, hub⟩
    obtain ⟨s, hs, e⟩ := h2 t ht
    refine ⟨⟨s, hs, e⟩, fun s' hs' => ?_⟩
    obtain ⟨t', ht', e'⟩ := h1 s' hs'
    have := hub t' ht'; omega

/-! ### sub-lists as sets of indices -/

/-- the elements of `l` whose INDEX is selected by `sel` -/
def pickIdx {α : Type} (sel : Nat → Bool) (l : List α) : List α :=
  (l.zipIdx.filter fun p => sel p.2).map (·.1)

theorem pickIdx_sublist {α : Type} (sel : Nat → Bool) (l : List α) : (pickIdx sel l).Sublist l := by
  have := (List.filter_sublist (p := fun p : α × Nat => sel p.2) (l := l.zipIdx)).map (·.1)
  rwa [List.zipIdx_map_fst] at this

/-- every sub-list is obtained by selecting a set of indices -/
theorem exists_pickIdx_of_sublist {α : Type} {s l : List α} (h : s.Sublist l) :
    ∃ sel : Nat → Bool, pickIdx sel l = s := by
  rw [← List.zipIdx_map_fst 0 l] at h
  obtain ⟨s', hs', rfl⟩ := List.sublist_map_iff.mp h
  refine ⟨fun i => (s'.map (·.2)).contains i, ?_⟩
  have hnd : (l.zipIdx.map (·.2)).Nodup := by
    rw [List.zipIdx_map_snd]; exact List.nodup_range' 1
  rw [pickIdx, ← sublist_eq_filter (·.2) hs' hnd]

theorem sum_map_pickIdx {α : Type} (sel : Nat → Bool) (g : α → Int) (l : List α) :
    ((pickIdx sel l).map g).sum = (l.zipIdx.map fun p => if sel p.2 then g p.1 else 0).sum := by
  rw [pickIdx, List.map_map, sum_map_filter]
  rfl

theorem natSum_map_filter {α : Type} (p : α → Bool) (g : α → Nat) (l : List α) :
    ((l.filter p).map g).sum = (l.map fun x => if p x then g x else 0).sum := by
  induction l with
  | nil => rfl
  | cons x xs ih => by_cases h : p x <;> simp [h, ih]

theorem natSum_map_pickIdx {α : Type} (sel : Nat → Bool) (g : α → Nat) (l : List α) :
    ((pickIdx sel l).map g).sum = (l.zipIdx.map fun p => if sel p.2 then g p.1 else 0).sum := by
  rw [pickIdx, List.map_map, natSum_map_filter]
  rfl

/-! ### sums over an index range -/

/-- `Σ_{i < n} f i` -/
def sumRange (n : Nat) (f : Nat → Int) : Int := ((List.range n).map f).sum

@[simp] theorem sumRange_zero (f : Nat → Int) : sumRange 0 f = 0 := rfl

theorem sumRange_succ' (n : Nat) (f : Nat → Int) :
    sumRange (n + 1) f = f 0 + sumRange n (fun i => f (i + 1)) := by
  simp only [sumRange, List.range_succ_eq_map, List.map_cons, List.sum_cons, List.map_map]
  rfl

theorem sumRange_succ (n : Nat) (f : Nat → Int) : sumRange (n + 1) f = sumRange n f + f n := by
  simp [sumRange, List.range_succ, List.sum_append]

theorem sumRange_add (n : Nat) (f g : Nat → Int) :
    sumRange n (fun i => f i + g i) = sumRange n f + sumRange n g := by
  induction n with
  | zero => rfl
  | succ n ih => simp only [sumRange_succ, ih]; omega

theorem sumRange_congr {n : Nat} {f g : Nat → Int} (h : ∀ i, i < n → f i = g i) :
    sumRange n f = sumRange n g := by
  induction n with
  | zero => rfl
  | succ n ih =>
    rw [sumRange_succ, sumRange_succ, ih (fun i hi => h i (by omega)), h n (by omega)]

theorem sum_map_eq_sumRange {α : Type} (l : List α) (g : α → Int) (d : α) :
    (l.map g).sum = sumRange l.length (fun i => g (l.getD i d)) := by
  induction l with
  | nil => rfl
  | cons x xs ih => rw [List.length_cons, sumRange_succ']; simp [ih]

/-- a sum does not depend on the order of its terms -/
theorem perm_sum_eq {l₁ l₂ : List Int} (h : l₁.Perm l₂) : l₁.sum = l₂.sum := by
  induction h with
  | nil => rfl
  | cons x _ ih => simp [ih]
  | swap x y l => simp only [List.sum_cons]; omega
  | trans _ _ ih1 ih2 => exact ih1.trans ih2

theorem perm_range_sum {n : Nat} {l : List Nat} (h : l.Perm (List.range n)) (f : Nat → Int) :
    (l.map f).sum = sumRange n f :=
  perm_sum_eq (h.map f)

/-- values can be attached to the elements of a duplicate-free list by a function -/
theorem exists_map_eq {β : Type} {o : List Nat} (hnd : o.Nodup) (rs : List β) (hlen : rs.length = o.length)
    (d : β) : ∃ f : Nat → β, o.map f = rs := by
  induction o generalizing rs with
  | nil => exact ⟨fun _ => d, by simp at hlen; simp [hlen]⟩
  | cons a o' ih =>
    cases rs with
    | nil => simp at hlen
    | cons w rs' =>
      obtain ⟨ha, ho'⟩ := List.nodup_cons.mp hnd
      obtain ⟨f', hf'⟩ := ih ho' rs' (by simpa using hlen)
      refine ⟨fun x => if x = a then w else f' x, ?_⟩
      simp only [List.map_cons, if_true, List.cons.injEq, true_and]
      rw [← hf']
      apply List.map_congr_left
      intro x hx
      have : x ≠ a := fun e => ha (e ▸ hx)
      simp [this]

theorem zip_map_self {α β : Type} (l : List α) (f : α → β) : l.zip (l.map f) = l.map fun a => (a, f a) := by
  induction l with
  | nil => rfl
  | cons x xs ih => simp [ih]

/-! ### `oneTo n` is the list of the integers `1 … n`, each once -/

theorem mem_oneTo {n : Nat} {x : Int} : x ∈ oneTo n ↔ 1 ≤ x ∧ x ≤ n := by
  simp only [oneTo, List.mem_map, List.mem_range]
  constructor
  · rintro ⟨i, hi, rfl⟩; simp only [Int.ofNat_eq_natCast]; omega
  · rintro ⟨h1, h2⟩
    exact ⟨(x - 1).toNat, by omega, by simp only [Int.ofNat_eq_natCast]; omega⟩

theorem nodup_oneTo (n : Nat) : (oneTo n).Nodup := by
  unfold oneTo
  rw [List.nodup_iff_pairwise_ne, List.pairwise_map]
  refine List.Pairwise.imp ?_ (List.nodup_iff_pairwise_ne.mp List.nodup_range)
  intro a b h h'
  simp only [Int.ofNat_eq_natCast] at h'
  omega

theorem length_oneTo (n : Nat) : (oneTo n).length = n := by simp [oneTo]

/-- a Boolean-valued set `S ⊆ {1 … n}` and the sub-lists of `oneTo n` are the same thing:
    `(oneTo n).filter S` is the sub-list whose members are the members of `S` -/
theorem contains_filter_oneTo {n : Nat} {S : Int → Bool} (hS : ∀ x, S x = true → 1 ≤ x ∧ x ≤ n) (x : Int) :
    ((oneTo n).filter S).contains x = S x := by
  rw [Bool.eq_iff_iff]
  simp only [List.contains_iff_mem, List.mem_filter, mem_oneTo]
  constructor
  · exact fun h => h.2
  · exact fun h => ⟨hS x h, h⟩

theorem contains_of_sublist_oneTo {n : Nat} {s : List Int} (hs : s.Sublist (oneTo n)) (x : Int)
    (hx : s.contains x = true) : 1 ≤ x ∧ x ≤ n := by
  simp only [List.contains_iff_mem] at hx
  exact mem_oneTo.mp (hs.subset hx)

/-! ### order of two elements in a duplicate-free list: `[a, b].Sublist l` reads "`a` comes before `b` in `l`" -/

theorem before_or_after {α : Type} {l : List α} {a b : α} (ha : a ∈ l) (hb : b ∈ l) (hab : a ≠ b) :
    [a, b].Sublist l ∨ [b, a].Sublist l := by
  induction l with
  | nil => cases ha
  | cons x xs ih =>
    rcases List.mem_cons.mp ha with rfl | ha'
    · rcases List.mem_cons.mp hb with rfl | hb'
      · exact absurd rfl hab
      · exact Or.inl (List.cons_sublist_cons.mpr (List.singleton_sublist.mpr hb'))
    · rcases List.mem_cons.mp hb with rfl | hb'
      · exact Or.inr (List.cons_sublist_cons.mpr (List.singleton_sublist.mpr ha'))
      · exact (ih ha' hb').imp (fun h => h.cons _) (fun h => h.cons _)

theorem not_before_and_after {α : Type} {l : List α} (hl : l.Nodup) {a b : α}
    (h1 : [a, b].Sublist l) (h2 : [b, a].Sublist l) : False := by
  induction l with
  | nil => cases h1
  | cons x xs ih =>
    obtain ⟨hx, hxs⟩ := List.nodup_cons.mp hl
    rcases List.sublist_cons_iff.mp h1 with h1' | ⟨r, hr, h1'⟩
    · rcases List.sublist_cons_iff.mp h2 with h2' | ⟨r', hr', h2'⟩
      · exact ih hxs h1' h2'
      · simp only [List.cons.injEq] at hr'
        have hb : b ∈ xs := h1'.subset (List.mem_cons_of_mem _ List.mem_cons_self)
        exact hx (hr'.1 ▸ hb)
    · simp only [List.cons.injEq] at hr
      rcases List.sublist_cons_iff.mp h2 with h2' | ⟨r', hr', h2'⟩
      · have ha : a ∈ xs := h2'.subset (List.mem_cons_of_mem _ List.mem_cons_self)
        exact hx (hr.1 ▸ ha)
      · simp only [List.cons.injEq] at hr'
        have hb : b ∈ xs := h1'.subset (hr.2 ▸ List.mem_cons_self)
        exact hx (hr'.1 ▸ hb)

/-! ### permutations by insertion

`Sop`, `Srflp`, `Talentsched`, `Tsptw` and `Alp` each declare the same two functions `inserts` / `perms`
(on `List Nat`); the facts are proved once here for the polymorphic version and transferred with
`perms_eq` lemmas in `Props/C16.lean`. -/

/-- all ways to insert `x` into a list -/
def inserts {α : Type} (x : α) : List α → List (List α)
  | [] => [[x]]
  | y :: ys => (x :: y :: ys) :: (inserts x ys).map (y :: ·)

/-- all permutations of a list -/
def perms {α : Type} : List α → List (List α)
  | [] => [[]]
  | x :: xs => (perms xs).flatMap (inserts x)

theorem mem_inserts {α : Type} {x : α} {l t : List α} :
    t ∈ inserts x l ↔ ∃ a b, l = a ++ b ∧ t = a ++ x :: b := by
  induction l generalizing t with
  | nil =>
    simp only [inserts, List.mem_singleton]
    constructor
    · rintro rfl; exact ⟨[], [], rfl, rfl⟩
    · rintro ⟨a, b, h, rfl⟩
      have h' := h.symm
      simp only [List.append_eq_nil_iff] at h'
      obtain ⟨rfl, rfl⟩ := h'; rfl
  | cons y ys ih =>
    simp only [inserts, List.mem_cons, List.mem_map, ih]
    constructor
    · rintro (rfl | ⟨t', ⟨a, b, rfl, rfl⟩, rfl⟩)
      · exact ⟨[], y :: ys, rfl, rfl⟩
      · exact ⟨y :: a, b, rfl, rfl⟩
    · rintro ⟨a, b, h, rfl⟩
      cases a with
      | nil => left; simp at h; subst h; rfl
      | cons a0 a' =>
        simp only [List.cons_append, List.cons.injEq] at h
        obtain ⟨rfl, rfl⟩ := h
        right; exact ⟨a' ++ x :: b, ⟨a', b, rfl, rfl⟩, rfl⟩

/-- the permutation enumerator lists exactly the permutations (`List.Perm`) of its argument -/
theorem mem_perms {α : Type} {l t : List α} : t ∈ perms l ↔ t.Perm l := by
  induction l generalizing t with
  | nil => simp [perms]
  | cons x xs ih =>
    simp only [perms, List.mem_flatMap, mem_inserts]
    constructor
    · rintro ⟨p, hp, a, b, rfl, rfl⟩
      exact (List.perm_middle).trans ((ih.mp hp).cons x)
    · intro h
      have hx : x ∈ t := h.symm.subset (List.mem_cons_self)
      obtain ⟨a, b, rfl⟩ := List.append_of_mem hx
      refine ⟨a ++ b, ih.mpr ?_, a, b, rfl, rfl⟩
      exact (List.perm_cons x).mp ((List.perm_middle).symm.trans h)

/-! ### miscellaneous list facts -/

/-- `find?` on `range N` returns the least index satisfying the predicate -/
theorem find?_range_eq_some (p : Nat → Bool) (N L : Nat) :
    (List.range N).find? p = some L ↔ L < N ∧ p L = true ∧ ∀ j, j < L → p j = false := by
  induction N generalizing L with
  | zero => simp
  | succ N ih =>
    rw [List.range_succ, List.find?_append]
    cases hf : (List.range N).find? p with
    | some x =>
      obtain ⟨hx1, hx2, hx3⟩ := (ih x).mp hf
      show some x = some L ↔ _
      simp only [Option.some.injEq]
      constructor
      · rintro rfl; exact ⟨by omega, hx2, hx3⟩
      · rintro ⟨h1, h2, h3⟩
        rcases Nat.lt_trichotomy x L with h | h | h
        · have := h3 x h; simp [hx2] at this
        · exact h
        · have := hx3 L h; simp [h2] at this
    | none =>
      have hnone := List.find?_eq_none.mp hf
      simp only [Option.none_or, List.find?_cons, List.find?_nil]
      constructor
      · intro h
        split at h
        · rename_i hp
          simp only [Option.some.injEq] at h
          subst h
          refine ⟨by omega, hp, fun j hj => ?_⟩
          have := hnone j (List.mem_range.mpr hj)
          simpa using this
        · cases h
      · rintro ⟨h1, h2, h3⟩
        have : L = N := by
          by_cases hL : L < N
          · exact absurd h2 (hnone L (List.mem_range.mpr hL))
          · omega
        subst this
        simp [h2]

/-- in a decreasing list every element is at most the head -/
theorem le_head_of_dec {l : List Nat} (hl : l.Pairwise (· > ·)) {m : Nat} (hm : m ∈ l) :
    m ≤ l.head?.getD 0 := by
  cases l with
  | nil => cases hm
  | cons x rest =>
    rcases List.mem_cons.mp hm with rfl | h
    · simp
    · have := (List.pairwise_cons.mp hl).1 m h
      simp only [List.head?_cons, Option.getD_some]; omega

theorem dropWhile_isEmpty {α : Type} (q : α → Bool) (l : List α) : (l.dropWhile q).isEmpty = l.all q := by
  induction l with
  | nil => rfl
  | cons x xs ih =>
    rw [List.dropWhile_cons]
    by_cases h : q x <;> simp [h, ih]

theorem all_not_eq {α : Type} (p : α → Bool) (l : List α) : (l.all fun s => !p s) = !l.any p := by
  induction l with
  | nil => rfl
  | cons x xs ih => simp [ih]

end Ddo.SpecUtil
