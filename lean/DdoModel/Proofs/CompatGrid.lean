import DdoModel.Proofs.CacheDomDefs
/-! C10d (cache **and** dominance, rule-maximal merge) — **the table family `Grid`** used by the counter-example search of
`Proofs/CompatSearch.lean` and by the regression instances of `Props/C10d.lean`.

`Grid` generalises `Ddo.C09.Layered`: `n` binary variables in static order, `m` states `0 … m-1` (as `Int`, clamped), tables for
the transition, the cost **and the domain** (`dl`: a mask per `(variable, state)`, bit 0 = decision 0 available, bit 1 =
decision 1 available; dead ends are possible), and

* every state has **two coordinates** (`co`); the dominance rule has ONE key for all states, compares the two coordinates
  component-wise and **uses the value** — so distinct states may be incomparable (partial order) or equivalent (same
  coordinates: "coarse" rule);
* the merge operator folds a **join table** `jl` (`join a b` is meant to be an upper bound of `a` and `b` in the rule's order —
  checked by `checkJoin`); the relaxed cost of a redirected arc is the cost plus a non-negative constant `bump`;
* the rough upper bound `rubl` and the ranking `rk` are per state.

`check*` are the executable conditions under which the model satisfies the hypotheses of `Ddo.C10c.CachingDominanceCompat`
(`SimAll` for the rule: `checkSim`; `MergeCompat`: `checkJoin` + `bump ≥ 0`; `WellFormed` with the value-to-go `V`, which the
simulation makes monotone in the rule's order: `checkRub`). -/
set_option linter.unusedSectionVars false
set_option linter.unusedVariables false
namespace Ddo.C10d.Grid
open Ddo Ddo.C01 Ddo.Closed Ddo.C09 Ddo.C10 Ddo.C10c

structure Tab where
  n : Nat
  m : Nat
  init : Nat
  co : List (Int × Int)
  trl : List Nat
  cl : List Int
  dl : List Nat
  jl : List Nat
  rubl : List Int
  rk : List Nat
  bump : Int := 0
  rev : Bool := false        -- `for_each_in_domain` enumerates decision 1 before decision 0
  deriving Repr

def st (T : Tab) (s : Int) : Nat := min s.toNat (T.m - 1)
def idx (T : Tab) (k s : Nat) (b : Bool) : Nat := (k * T.m + s) * 2 + b.toNat
def tr (T : Tab) (k s : Nat) (b : Bool) : Nat := min (T.trl.getD (idx T k s b) 0) (T.m - 1)
def c (T : Tab) (k s : Nat) (b : Bool) : Int := T.cl.getD (idx T k s b) 0
def allowed (T : Tab) (k s : Nat) (b : Bool) : Bool :=
  let mask := T.dl.getD (k * T.m + s) 3
  if b then decide (mask / 2 % 2 = 1) else decide (mask % 2 = 1)
def dom (T : Tab) (k s : Nat) : List Int :=
  let d0 : List Int := if allowed T k s false then [0] else []
  let d1 : List Int := if allowed T k s true then [1] else []
  if T.rev then d1 ++ d0 else d0 ++ d1
def join (T : Tab) (a b : Nat) : Nat := if a = b then a else min (T.jl.getD (a * T.m + b) 0) (T.m - 1)
def mergeL (T : Tab) : List Int → Int
  | [] => 0
  | x :: r => ((r.foldl (fun a u => join T a (st T u)) (st T x) : Nat) : Int)

def prob (T : Tab) : Problem Int :=
  { nbVars := T.n, init := (T.init : Int), initVal := 0,
    trans := fun s d => ((tr T d.var (st T s) (decide (d.val = 1)) : Nat) : Int),
    cost := fun s _ d => c T d.var (st T s) (decide (d.val = 1)),
    nextVar := fun k _ => if k < T.n then some k else none,
    domain := fun x s => dom T x (st T s),
    impacted := fun _ _ => true }

def rlx (T : Tab) : Relax Int :=
  { merge := mergeL T, relax := fun _ _ _ _ c => c + T.bump, rub := fun s => T.rubl.getD (st T s) 0 }

def coord (T : Tab) (s : Int) (i : Nat) : Int :=
  let p := T.co.getD (st T s) (0, 0)
  if i = 0 then p.1 else p.2

/-- ONE key, two coordinates, the value is used -/
def rule (T : Tab) : DomRule Int Int :=
  { key := fun _ => some 0, dims := fun _ => 2, coord := coord T, useValue := true }

def widthOf (T : Tab) (ws : List Nat) (N : SubP Int) : Nat := max 1 (ws.getD (N.depth * T.m + st T N.state) 1)

def sv (T : Tab) (ws : List Nat) (dedup : Bool) (kind : CutsetKind) : SolverCfg Int :=
  { P := prob T, R := rlx T, rank := ⟨fun a b => icmp (T.rk.getD (st T a) 0 : Int) (T.rk.getD (st T b) 0 : Int)⟩,
    width := widthOf T ws, kind := kind, dedup := dedup }

def dv (T : Tab) (ws : List Nat) (dedup : Bool) (kind : CutsetKind) : DSolverCfg Int Int := ⟨sv T ws dedup kind, rule T⟩

/-! ## value-to-go (dead ends: `none`) -/

def emax (a b : Option Int) : Option Int :=
  match a, b with
  | none, b => b
  | a, none => a
  | some x, some y => some (max x y)

/-- value-to-go with `j` variables left, from state `s` -/
def vfrom (T : Tab) : Nat → Nat → Option Int
  | 0, _ => some 0
  | j + 1, s =>
    let k := T.n - (j + 1)
    let v0 := if allowed T k s false then (vfrom T j (tr T k s false)).map (· + c T k s false) else none
    let v1 := if allowed T k s true then (vfrom T j (tr T k s true)).map (· + c T k s true) else none
    emax v0 v1

def V (T : Tab) (k : Nat) (s : Int) : EInt := vfrom T (T.n - k) (st T s)

/-! ## the executable conditions -/

/-- `a` is at least as good as `b` in the rule's order (states) -/
def geS (T : Tab) (a b : Nat) : Bool :=
  let pa := T.co.getD a (0, 0)
  let pb := T.co.getD b (0, 0)
  decide (pb.1 ≤ pa.1) && decide (pb.2 ≤ pa.2)

/-- the simulation condition for all pairs of states (values: the cost of the matching decision is at least the cost of the
    matched one) -/
def checkSim (T : Tab) : Bool :=
  (List.range T.n).all (fun k => (List.range T.m).all (fun a => (List.range T.m).all (fun b =>
    !geS T a b || [false, true].all (fun db => !allowed T k b db ||
      [false, true].any (fun da => allowed T k a da && geS T (tr T k a da) (tr T k b db) &&
        decide (c T k b db ≤ c T k a da))))))

/-- `join a b` is an upper bound of `a` and `b` -/
def checkJoin (T : Tab) : Bool :=
  (List.range T.m).all (fun a => (List.range T.m).all (fun b => geS T (join T a b) a && geS T (join T a b) b)) &&
  decide (0 ≤ T.bump)

/-- the rough upper bound dominates the value-to-go at every depth -/
def checkRub (T : Tab) : Bool :=
  (List.range (T.n + 1)).all (fun j => (List.range T.m).all (fun s =>
    match vfrom T j s with
    | none => true
    | some h => decide (h ≤ T.rubl.getD s 0)))

def checkShape (T : Tab) : Bool :=
  decide (1 ≤ T.m) && decide (T.init < T.m) && decide (T.co.length = T.m) && decide (T.trl.length = T.n * T.m * 2) &&
  decide (T.cl.length = T.n * T.m * 2) && decide (T.dl.length = T.n * T.m) && decide (T.jl.length = T.m * T.m) &&
  decide (T.rubl.length = T.m) && decide (T.rk.length = T.m)

def check (T : Tab) : Bool := checkShape T && checkSim T && checkJoin T && checkRub T

def optimum (T : Tab) : Option Int := vfrom T T.n T.init

end Ddo.C10d.Grid
