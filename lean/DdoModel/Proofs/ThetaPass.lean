import DdoModel.Proofs.MddBounds
/-! Stage 1 of C09, bottom-up part: what `computeThresholds` (`_compute_thresholds` + `_maybe_update_cache`) computes,
    in *pull* form.  Pure list / fold analysis, no model hypothesis except "every inbound arc comes from the previous layer".

For every node `n` that is not `deleted`, let `θp` be the threshold it holds when its turn comes (`theta` at processing
time).  Then
* `θp` is below the threshold the node started with (`thInit`: the terminal nodes start with `bk` under the conditions of
  the code, the nodes pruned by the cache with the cached value);
* for every child `m` (not deleted, processed before, final threshold `t`) and every inbound arc `e` of `m` coming from `n`:
  `θp ≤ satSub t e.cost`;
* the final threshold of `n` is `ownTheta bk n θp` (the case analysis of the code);
and every emitted cache update is `(state, depth, final theta, !cutset)` of a node that is not deleted, not pruned by the
cache, flagged `above`. -/
set_option linter.unusedSectionVars false
set_option linter.unusedVariables false
namespace Ddo.Theta
open Ddo Ddo.Bounds
variable {S : Type} [DecidableEq S]

/-- `best_known` of `_compute_thresholds` -/
def bkOf (lb : Int) (bestExact : Option Int) : Int :=
  match bestExact with | some v => max lb v | none => lb

/-- the layers after the initialisation of the terminal thresholds -/
def thInit (kind : CutsetKind) (isExactField : Bool) (lb : Int) (bestExact : Option Int)
    (termL : Option Nat) (layers : List (List (Node S))) : List (List (Node S)) :=
  match bestExact, termL with
  | some _, some tl =>
    layers.set tl ((layers[tl]?.getD []).map (fun n =>
      if (kind == .lel && isExactField) || (kind == .frontier && n.isExact) then { n with theta := some (bkOf lb bestExact) } else n))
  | _, _ => layers

/-- the threshold a node ends with, from the threshold `θp` it holds when its turn comes -/
def ownTheta (bk : Int) (n : Node S) (θp : Option Int) : Option Int :=
  if n.cache then θp
  else if satAdd n.value n.rub ≤ bk then some (satSub bk n.rub)
  else if n.cutset then
    (if satAdd n.value n.vbot ≤ bk then some (min (θp.getD iMax) (satSub bk n.vbot)) else some n.value)
  else if n.isExact && θp.isNone then some iMax
  else θp

/-! ### the three loops as named step functions -/

abbrev Ups (S : Type) := List (S × Nat × Int × Bool)
abbrev Acc (S : Type) := List (List (Node S)) × Ups S

def thUpd (x : Int) (par : Node S) : Node S := { par with theta := some (min (par.theta.getD iMax) x) }
def thArc (t : Int) (ls : List (List (Node S))) (e : Arc) : List (List (Node S)) :=
  modNode ls e.fromL e.fromP (thUpd (satSub t e.cost))
def thOwn (bk : Int) (n : Node S) : Node S :=
  if satAdd n.value n.rub ≤ bk then { n with theta := some (satSub bk n.rub) }
  else if n.cutset then
    if satAdd n.value n.vbot ≤ bk then { n with theta := some (min (n.theta.getD iMax) (satSub bk n.vbot)) }
    else { n with theta := some n.value }
  else if n.isExact && n.theta.isNone then { n with theta := some iMax }
  else n
def thUps (n1 : Node S) (ups : Ups S) : Ups S :=
  match n1.theta with
  | some t => if n1.above then (n1.state, n1.depth, t, !n1.cutset) :: ups else ups
  | none => ups
def thNode (bk : Int) (n : Node S) (ups : Ups S) : Node S × Ups S :=
  if !n.cache then (thOwn bk n, thUps (thOwn bk n) ups) else (n, ups)
def thPos (bk : Int) (l : Nat) (acc : Acc S) (p : Nat) : Acc S :=
  match getNode acc.1 l p with
  | none => acc
  | some n =>
    if n.deleted then acc else
    match (thNode bk n acc.2).1.theta with
    | some t => ((thNode bk n acc.2).1.inb.foldl (thArc t) (modNode acc.1 l p (fun _ => (thNode bk n acc.2).1)), (thNode bk n acc.2).2)
    | none => (modNode acc.1 l p (fun _ => (thNode bk n acc.2).1), (thNode bk n acc.2).2)
def thLayer (bk : Int) (acc : Acc S) (l : Nat) : Acc S :=
  (List.range (acc.1[l]?.getD []).length).foldl (thPos bk l) acc

theorem computeThresholds_eq (kind : CutsetKind) (isExactField : Bool) (lb : Int) (bestExact : Option Int)
    (termL : Option Nat) (layers : List (List (Node S))) :
    computeThresholds kind isExactField lb bestExact termL layers =
      (List.range (thInit kind isExactField lb bestExact termL layers).length).reverse.foldl (thLayer (bkOf lb bestExact))
        (thInit kind isExactField lb bestExact termL layers, []) := by
  rfl

/-! ### generic fold lemmas -/

theorem foldl_range_inv {β : Type} (f : β → Nat → β) (P : Nat → β → Prop) (n : Nat) (b : β) (h0 : P 0 b)
    (hstep : ∀ i b, i < n → P i b → P (i + 1) (f b i)) : P n ((List.range n).foldl f b) := by
  induction n with
  | zero => exact h0
  | succ n ih =>
    rw [List.range_succ, List.foldl_append, List.foldl_cons, List.foldl_nil]
    exact hstep n _ (Nat.lt_succ_self n) (ih (fun i b hi => hstep i b (by omega)))

theorem foldl_range_rev_inv {β : Type} (f : β → Nat → β) (P : Nat → β → Prop) (n : Nat) (b : β) (h0 : P n b)
    (hstep : ∀ i b, i < n → P (i + 1) b → P i (f b i)) : P 0 ((List.range n).reverse.foldl f b) := by
  induction n generalizing b with
  | zero => exact h0
  | succ n ih =>
    rw [List.range_succ, List.reverse_append, List.reverse_singleton, List.singleton_append, List.foldl_cons]
    exact ih _ (hstep n b (Nat.lt_succ_self n) h0) (fun i b hi => hstep i b (by omega))

/-! ### nodes up to `theta` -/

theorem stripT_more {a b : Node S} (h : stripT a = stripT b) :
    a.cache = b.cache ∧ a.cutset = b.cutset ∧ a.fExact = b.fExact ∧ a.fRelaxed = b.fRelaxed ∧ a.above = b.above ∧
    a.deleted = b.deleted ∧ a.inb = b.inb := by
  have h1 := congrArg Node.cache h
  have h2 := congrArg Node.cutset h
  have h3 := congrArg Node.fExact h
  have h4 := congrArg Node.fRelaxed h
  have h5 := congrArg Node.above h
  have h6 := congrArg Node.deleted h
  have h7 := congrArg Node.inb h
  simp only [stripT] at h1 h2 h3 h4 h5 h6 h7
  exact ⟨h1, h2, h3, h4, h5, h6, h7⟩

theorem ownTheta_congr {a b : Node S} (h : stripT a = stripT b) (bk : Int) (θ : Option Int) :
    ownTheta bk a θ = ownTheta bk b θ := by
  obtain ⟨h1, h2, h3, h4, _, _, _⟩ := stripT_more h
  obtain ⟨_, g2, g3, _, _, g6⟩ := stripT_fields h
  unfold ownTheta Node.isExact
  rw [h1, h2, h3, h4, g2, g3, g6]

theorem thOwn_strip (bk : Int) (n : Node S) : stripT (thOwn bk n) = stripT n := by
  unfold thOwn
  repeat' split
  all_goals rfl

theorem thNode_strip (bk : Int) (n : Node S) (ups : Ups S) : stripT (thNode bk n ups).1 = stripT n := by
  unfold thNode
  split
  · exact thOwn_strip bk n
  · rfl

theorem thNode_theta (bk : Int) (n : Node S) (ups : Ups S) : (thNode bk n ups).1.theta = ownTheta bk n n.theta := by
  unfold thNode ownTheta thOwn
  cases hc : n.cache
  · simp only [Bool.not_false, if_true, Bool.false_eq_true, if_false]
    repeat' split
    all_goals rfl
  · simp only [Bool.not_true, Bool.false_eq_true, if_false, if_true]

theorem thNode_ups (bk : Int) (n : Node S) (ups : Ups S) (u : S × Nat × Int × Bool) (hu : u ∈ (thNode bk n ups).2) :
    u ∈ ups ∨ ((thNode bk n ups).1.cache = false ∧ (thNode bk n ups).1.above = true ∧
      ∃ t, (thNode bk n ups).1.theta = some t ∧
        u = ((thNode bk n ups).1.state, (thNode bk n ups).1.depth, t, !(thNode bk n ups).1.cutset)) := by
  have hs := (stripT_more (thNode_strip bk n ups)).1
  revert hu hs
  unfold thNode
  cases hc : n.cache
  · simp only [Bool.not_false, if_true]
    intro hu hs
    unfold thUps at hu
    split at hu
    · rename_i t ht
      split at hu
      · rename_i ha
        rcases List.mem_cons.mp hu with rfl | hu
        · exact Or.inr ⟨hs, ha, t, ht, rfl⟩
        · exact Or.inl hu
      · exact Or.inl hu
    · exact Or.inl hu
  · simp only [Bool.not_true, Bool.false_eq_true, if_false]
    intro hu _
    exact Or.inl hu
/-! ### the arc loop -/

/-- `θ` is a threshold, at most `b` -/
def Below (θ : Option Int) (b : Int) : Prop := ∃ tp, θ = some tp ∧ tp ≤ b

theorem thUpd_below (x : Int) (n : Node S) {b : Int} (h : Below n.theta b) : Below (thUpd x n).theta b := by
  obtain ⟨tp, h1, h2⟩ := h
  refine ⟨min tp x, ?_, by omega⟩
  simp only [thUpd, h1, Option.getD_some]

theorem thUpd_new (x : Int) (n : Node S) : Below (thUpd x n).theta x :=
  ⟨min (n.theta.getD iMax) x, rfl, by omega⟩

theorem getNode_thArc (t : Int) (ls : List (List (Node S))) (e : Arc) (l p : Nat) :
    getNode (thArc t ls e) l p =
      if l = e.fromL ∧ p = e.fromP then (getNode ls l p).map (thUpd (satSub t e.cost)) else getNode ls l p :=
  getNode_modNode ls e.fromL e.fromP _ l p

theorem thArcs_tEq (t : Int) (es : List Arc) (ls : List (List (Node S))) : TEq (es.foldl (thArc t) ls) ls :=
  Ddo.foldl_inv (fun b => TEq b ls) _ _ _ (TEq.refl ls) (fun b e _ hb => hb.modNode _ _ _ (fun _ _ => rfl))

theorem thArcs_frame (t : Int) (es : List Arc) (ls : List (List (Node S))) (l p : Nat)
    (h : ∀ e ∈ es, e.fromL ≠ l) : getNode (es.foldl (thArc t) ls) l p = getNode ls l p := by
  refine Ddo.foldl_inv (fun b => getNode b l p = getNode ls l p) _ _ _ rfl ?_
  intro b e he hb
  rw [getNode_thArc, if_neg (fun hc => h e he hc.1.symm)]
  exact hb

theorem thArcs_spec (t : Int) (es : List Arc) : ∀ (ls : List (List (Node S))) (l p : Nat) (x : Node S),
    getNode ls l p = some x →
    ∃ y, getNode (es.foldl (thArc t) ls) l p = some y ∧ (∀ b, Below x.theta b → Below y.theta b) ∧
      (∀ e ∈ es, e.fromL = l → e.fromP = p → Below y.theta (satSub t e.cost)) := by
  induction es with
  | nil => intro ls l p x hx; exact ⟨x, hx, fun _ h => h, fun e he => by cases he⟩
  | cons e es ih =>
    intro ls l p x hx
    rw [List.foldl_cons]
    by_cases hc : l = e.fromL ∧ p = e.fromP
    · have hx' : getNode (thArc t ls e) l p = some (thUpd (satSub t e.cost) x) := by
        rw [getNode_thArc, if_pos hc, hx]; rfl
      obtain ⟨y, hy, hmono, harc⟩ := ih _ l p _ hx'
      refine ⟨y, hy, fun b hb => hmono b (thUpd_below _ x hb), ?_⟩
      intro e' he' h1 h2
      rcases List.mem_cons.mp he' with rfl | he'
      · exact hmono _ (thUpd_new _ x)
      · exact harc e' he' h1 h2
    · have hx' : getNode (thArc t ls e) l p = some x := by
        rw [getNode_thArc, if_neg hc, hx]
      obtain ⟨y, hy, hmono, harc⟩ := ih _ l p _ hx'
      refine ⟨y, hy, hmono, ?_⟩
      intro e' he' h1 h2
      rcases List.mem_cons.mp he' with rfl | he'
      · exact absurd ⟨h1.symm, h2.symm⟩ hc
      · exact harc e' he' h1 h2

/-! ### one position -/

theorem thPos_none (bk : Int) (i p : Nat) (ls : List (List (Node S))) (ups : Ups S)
    (hn : getNode ls i p = none) : thPos bk i (ls, ups) p = (ls, ups) := by
  unfold thPos
  dsimp only
  rw [hn]

theorem thPos_deleted (bk : Int) (i p : Nat) (ls : List (List (Node S))) (ups : Ups S) (n : Node S)
    (hn : getNode ls i p = some n) (hd : n.deleted = true) : thPos bk i (ls, ups) p = (ls, ups) := by
  unfold thPos
  dsimp only
  rw [hn]
  dsimp only
  rw [if_pos hd]

theorem thPos_facts (bk : Int) (i p : Nat) (ls : List (List (Node S))) (ups : Ups S) (n : Node S)
    (hn : getNode ls i p = some n) (hd : n.deleted = false) (harcs : ∀ e ∈ n.inb, e.fromL + 1 = i) :
    ∃ n1, stripT n1 = stripT n ∧ n1.theta = ownTheta bk n n.theta ∧
      TEq (thPos bk i (ls, ups) p).1 ls ∧
      getNode (thPos bk i (ls, ups) p).1 i p = some n1 ∧
      (∀ l' p', l' + 1 ≠ i → ¬(l' = i ∧ p' = p) → getNode (thPos bk i (ls, ups) p).1 l' p' = getNode ls l' p') ∧
      (∀ l' p' x, l' + 1 = i → getNode ls l' p' = some x → ∃ y, getNode (thPos bk i (ls, ups) p).1 l' p' = some y ∧
        (∀ b, Below x.theta b → Below y.theta b) ∧
        (∀ t e, n1.theta = some t → e ∈ n1.inb → e.fromP = p' → Below y.theta (satSub t e.cost))) ∧
      (∀ u ∈ (thPos bk i (ls, ups) p).2, u ∈ ups ∨ (n1.cache = false ∧ n1.above = true ∧
        ∃ t, n1.theta = some t ∧ u = (n1.state, n1.depth, t, !n1.cutset))) := by
  have hstrip := thNode_strip bk n ups
  have htheta := thNode_theta bk n ups
  have hups := thNode_ups bk n ups
  unfold thPos
  dsimp only
  rw [hn]
  dsimp only
  rw [if_neg (by rw [hd]; exact Bool.false_ne_true)]
  generalize thNode bk n ups = r at hstrip htheta hups ⊢
  obtain ⟨n1, ups1⟩ := r
  dsimp only at hstrip htheta hups ⊢
  have hinb : n1.inb = n.inb := (stripT_more hstrip).2.2.2.2.2.2
  have harcs1 : ∀ e ∈ n1.inb, e.fromL ≠ i ∧ e.fromL + 1 = i := by
    intro e he; rw [hinb] at he; have := harcs e he; omega
  have hteq1 : TEq (modNode ls i p (fun _ => n1)) ls :=
    (TEq.refl ls).modNode i p _ (fun m hm => by rw [hn] at hm; cases hm; exact hstrip)
  have hself1 : getNode (modNode ls i p (fun _ => n1)) i p = some n1 := by
    rw [getNode_modNode, if_pos ⟨rfl, rfl⟩, hn]; rfl
  have hfr1 : ∀ l' p', ¬(l' = i ∧ p' = p) → getNode (modNode ls i p (fun _ => n1)) l' p' = getNode ls l' p' := by
    intro l' p' h; rw [getNode_modNode, if_neg h]
  refine ⟨n1, hstrip, htheta, ?_⟩
  cases ht : n1.theta with
  | none =>
    dsimp only
    rw [ht] at hups
    refine ⟨hteq1, hself1, fun l' p' _ h => hfr1 l' p' h, ?_, hups⟩
    intro l' p' x hl hx
    refine ⟨x, by rw [hfr1 l' p' (by omega)]; exact hx, fun _ h => h, ?_⟩
    intro t e h; cases h
  | some t =>
    dsimp only
    rw [ht] at hups
    refine ⟨(thArcs_tEq t _ _).trans hteq1, ?_, ?_, ?_, hups⟩
    · rw [thArcs_frame t _ _ i p (fun e he => (harcs1 e he).1)]; exact hself1
    · intro l' p' hl h
      rw [thArcs_frame t _ _ l' p' (fun e he => by have := (harcs1 e he).2; omega)]
      exact hfr1 l' p' h
    · intro l' p' x hl hx
      have hx1 : getNode (modNode ls i p (fun _ => n1)) l' p' = some x := by
        rw [hfr1 l' p' (by omega)]; exact hx
      obtain ⟨y, hy, hmono, harc⟩ := thArcs_spec t n1.inb _ l' p' x hx1
      refine ⟨y, hy, hmono, ?_⟩
      intro t' e ht' he hp
      cases ht'
      exact harc e he (by have := (harcs1 e he).2; omega) hp
/-! ### the invariant of the two outer loops -/

/-- `Pr l p`: the node at `(l, p)` has been processed -/
structure Inv (bk : Int) (L0 : List (List (Node S))) (Pr : Nat → Nat → Prop)
    (ls : List (List (Node S))) (ups : Ups S) : Prop where
  teq : TEq ls L0
  done : ∀ (l p : Nat) (n' : Node S), getNode ls l p = some n' → Pr l p → n'.deleted = false →
    ∃ θp : Option Int,
      (∀ (n0 : Node S) (t0 : Int), getNode L0 l p = some n0 → n0.theta = some t0 → Below θp t0) ∧
      (∀ (p' : Nat) (m : Node S) (t : Int) (e : Arc), getNode ls (l + 1) p' = some m → m.deleted = false →
        m.theta = some t → e ∈ m.inb → e.fromP = p → Below θp (satSub t e.cost)) ∧
      n'.theta = ownTheta bk n' θp
  todo : ∀ (l p : Nat) (n' : Node S), getNode ls l p = some n' → ¬ Pr l p →
    (∀ (n0 : Node S) (t0 : Int), getNode L0 l p = some n0 → n0.theta = some t0 → Below n'.theta t0) ∧
    (∀ (p' : Nat) (m : Node S) (t : Int) (e : Arc), getNode ls (l + 1) p' = some m → Pr (l + 1) p' → m.deleted = false →
      m.theta = some t → e ∈ m.inb → e.fromP = p → Below n'.theta (satSub t e.cost))
  ups : ∀ u ∈ ups, ∃ (l p : Nat) (n3 : Node S), getNode ls l p = some n3 ∧ Pr l p ∧
    n3.deleted = false ∧ n3.cache = false ∧ n3.above = true ∧
    ∃ t, n3.theta = some t ∧ u = (n3.state, n3.depth, t, !n3.cutset)

theorem Inv.congr {bk : Int} {L0 : List (List (Node S))} {Pr Pr' : Nat → Nat → Prop}
    {ls : List (List (Node S))} {ups : Ups S} (h : Inv bk L0 Pr ls ups)
    (hc : ∀ (l p : Nat) (n : Node S), getNode ls l p = some n → (Pr l p ↔ Pr' l p)) : Inv bk L0 Pr' ls ups where
  teq := h.teq
  done := fun l p n' hn hp hd => h.done l p n' hn ((hc l p n' hn).mpr hp) hd
  todo := fun l p n' hn hp =>
    ⟨(h.todo l p n' hn (fun hp' => hp ((hc l p n' hn).mp hp'))).1,
     fun p' m t e hm hpr => (h.todo l p n' hn (fun hp' => hp ((hc l p n' hn).mp hp'))).2 p' m t e hm ((hc _ _ m hm).mpr hpr)⟩
  ups := fun u hu => by
    obtain ⟨l, p, n3, hn, hp, r⟩ := h.ups u hu
    exact ⟨l, p, n3, hn, (hc l p n3 hn).mp hp, r⟩

/-- processed when the turn of `(i, p)` comes -/
def Proc (i p l' p' : Nat) : Prop := i < l' ∨ (l' = i ∧ p' < p)

theorem thPos_inv (bk : Int) (L0 : List (List (Node S)))
    (harcs : ∀ (l p : Nat) (n : Node S), getNode L0 l p = some n → ∀ e ∈ n.inb, e.fromL + 1 = l)
    (i p : Nat) (ls : List (List (Node S))) (ups : Ups S) (h : Inv bk L0 (Proc i p) ls ups) :
    Inv bk L0 (Proc i (p + 1)) (thPos bk i (ls, ups) p).1 (thPos bk i (ls, ups) p).2 := by
  cases hn : getNode ls i p with
  | none =>
    rw [thPos_none bk i p ls ups hn]
    refine h.congr (fun l' p' n' hn' => ?_)
    have : ¬(l' = i ∧ p' = p) := by
      rintro ⟨rfl, rfl⟩; rw [hn] at hn'; cases hn'
    unfold Proc; omega
  | some n =>
    have hnp : ¬ Proc i p i p := by unfold Proc; omega
    cases hd : n.deleted with
    | true =>
      rw [thPos_deleted bk i p ls ups n hn hd]
      dsimp only
      refine ⟨h.teq, ?_, ?_, ?_⟩
      · intro l' p' n' hn' hp' hd'
        have hne : ¬(l' = i ∧ p' = p) := by
          rintro ⟨rfl, rfl⟩; rw [hn] at hn'; cases hn'; rw [hd] at hd'; cases hd'
        exact h.done l' p' n' hn' (by unfold Proc at hp' ⊢; omega) hd'
      · intro l' p' n' hn' hp'
        obtain ⟨a, b⟩ := h.todo l' p' n' hn' (by unfold Proc at hp' ⊢; omega)
        refine ⟨a, ?_⟩
        intro p'' m t e hm hpr hdm
        have hne : ¬(l' + 1 = i ∧ p'' = p) := by
          rintro ⟨h1, rfl⟩; rw [h1, hn] at hm; cases hm; rw [hd] at hdm; cases hdm
        exact b p'' m t e hm (by unfold Proc at hpr ⊢; omega) hdm
      · intro u hu
        obtain ⟨l', p', n3, hn3, hp3, r⟩ := h.ups u hu
        exact ⟨l', p', n3, hn3, (by unfold Proc at hp3 ⊢; omega), r⟩
    | false =>
      obtain ⟨n0, hn0, hs0⟩ := h.teq.getNode_some hn
      have harcs' : ∀ e ∈ n.inb, e.fromL + 1 = i := by
        intro e he
        rw [← (stripT_more hs0).2.2.2.2.2.2] at he
        exact harcs i p n0 hn0 e he
      obtain ⟨n1, hs1, hth1, hteq, hself, hframe, hpar, hups⟩ := thPos_facts bk i p ls ups n hn hd harcs'
      generalize (thPos bk i (ls, ups) p).1 = ls2 at hteq hself hframe hpar hups ⊢
      generalize (thPos bk i (ls, ups) p).2 = ups2 at hups ⊢
      have hd1 : n1.deleted = false := by rw [(stripT_more hs1).2.2.2.2.2.1]; exact hd
      refine ⟨hteq.trans h.teq, ?_, ?_, ?_⟩
      · -- processed nodes
        intro l' p' n' hn' hp' hd'
        by_cases hc : l' = i ∧ p' = p
        · obtain ⟨rfl, rfl⟩ := hc
          rw [hself] at hn'; cases hn'
          obtain ⟨a, b⟩ := h.todo l' p' n hn hnp
          refine ⟨n.theta, a, ?_, ?_⟩
          · intro p'' m t e hm hdm htm he hep
            rw [hframe (l' + 1) p'' (by omega) (by omega)] at hm
            exact b p'' m t e hm (by unfold Proc; omega) hdm htm he hep
          · rw [hth1]; exact (ownTheta_congr hs1 bk _).symm
        · have hp0 : Proc i p l' p' := by unfold Proc at hp' ⊢; omega
          have hl' : i ≤ l' := by unfold Proc at hp0; omega
          rw [hframe l' p' (by omega) hc] at hn'
          obtain ⟨θp, a, b, c⟩ := h.done l' p' n' hn' hp0 hd'
          refine ⟨θp, a, ?_, c⟩
          intro p'' m t e hm
          rw [hframe (l' + 1) p'' (by omega) (by omega)] at hm
          exact b p'' m t e hm
      · -- nodes still to come
        intro l' p' n' hn' hp'
        have hc : ¬(l' = i ∧ p' = p) := by unfold Proc at hp'; omega
        have hp0 : ¬ Proc i p l' p' := by unfold Proc at hp' ⊢; omega
        have hl' : l' ≤ i := by unfold Proc at hp'; omega
        by_cases hl : l' + 1 = i
        · obtain ⟨x, hx, _⟩ := hteq.getNode_some hn'
          obtain ⟨y, hy, hmono, harc⟩ := hpar l' p' x hl hx
          rw [hn'] at hy; cases hy
          obtain ⟨a, b⟩ := h.todo l' p' x hx hp0
          refine ⟨fun n0 t0 h1 h2 => hmono _ (a n0 t0 h1 h2), ?_⟩
          intro p'' m t e hm hpr hdm htm he hep
          by_cases hc' : p'' = p
          · subst hc'
            rw [hl, hself] at hm; cases hm
            exact harc t e htm he hep
          · rw [hframe (l' + 1) p'' (by omega) (by omega)] at hm
            exact hmono _ (b p'' m t e hm (by unfold Proc at hpr ⊢; omega) hdm htm he hep)
        · rw [hframe l' p' hl hc] at hn'
          obtain ⟨a, b⟩ := h.todo l' p' n' hn' hp0
          refine ⟨a, ?_⟩
          intro p'' m t e hm hpr
          have : i ≤ l' + 1 := by unfold Proc at hpr; omega
          rw [hframe (l' + 1) p'' (by omega) (by omega)] at hm
          exact b p'' m t e hm (by unfold Proc at hpr ⊢; omega)
      · -- cache updates
        intro u hu
        rcases hups u hu with hu | ⟨hc1, ha1, t, ht1, rfl⟩
        · obtain ⟨l', p', n3, hn3, hp3, r⟩ := h.ups u hu
          have : i ≤ l' := by unfold Proc at hp3; omega
          refine ⟨l', p', n3, ?_, (by unfold Proc at hp3 ⊢; omega), r⟩
          rw [hframe l' p' (by omega) (by unfold Proc at hp3; omega)]; exact hn3
        · exact ⟨i, p, n1, hself, (by unfold Proc; omega), hd1, hc1, ha1, t, ht1, rfl⟩
theorem thLayer_inv (bk : Int) (L0 : List (List (Node S)))
    (harcs : ∀ (l p : Nat) (n : Node S), getNode L0 l p = some n → ∀ e ∈ n.inb, e.fromL + 1 = l)
    (i : Nat) (ls : List (List (Node S))) (ups : Ups S) (h : Inv bk L0 (fun l' _ => i + 1 ≤ l') ls ups) :
    Inv bk L0 (fun l' _ => i ≤ l') (thLayer bk (ls, ups) i).1 (thLayer bk (ls, ups) i).2 := by
  unfold thLayer
  dsimp only
  have key : Inv bk L0 (Proc i (ls[i]?.getD []).length)
      ((List.range (ls[i]?.getD []).length).foldl (thPos bk i) (ls, ups)).1
      ((List.range (ls[i]?.getD []).length).foldl (thPos bk i) (ls, ups)).2 := by
    refine foldl_range_inv (thPos bk i) (fun p acc => Inv bk L0 (Proc i p) acc.1 acc.2) _ (ls, ups) ?_ ?_
    · exact h.congr (fun l' p' _ _ => by unfold Proc; omega)
    · rintro p ⟨ls', ups'⟩ _ hacc
      exact thPos_inv bk L0 harcs i p ls' ups' hacc
  generalize (List.range (ls[i]?.getD []).length).foldl (thPos bk i) (ls, ups) = res at key ⊢
  refine key.congr (fun l' p' n' hn' => ?_)
  have hlen : (res.1[i]?.getD []).length = (ls[i]?.getD []).length := by
    have := congrArg List.length ((key.teq.trans h.teq.symm).layer i)
    simpa only [List.length_map] using this
  have hp' := getNode_pos_lt hn'
  unfold Proc
  constructor
  · intro hpr; omega
  · intro hle
    by_cases hli : l' = i
    · subst hli; rw [hlen] at hp'; exact Or.inr ⟨rfl, hp'⟩
    · exact Or.inl (by omega)

theorem thInit_tEq (kind : CutsetKind) (isExactField : Bool) (lb : Int) (bestExact : Option Int)
    (termL : Option Nat) (layers : List (List (Node S))) :
    TEq (thInit kind isExactField lb bestExact termL layers) layers := by
  unfold thInit
  split
  · refine (TEq.refl _).set_map _ _ (fun n => ?_)
    split <;> rfl
  · exact TEq.refl _

/-- **`computeThresholds` in pull form** -/
theorem computeThresholds_spec (kind : CutsetKind) (isExactField : Bool) (lb : Int) (bestExact : Option Int)
    (termL : Option Nat) (layers : List (List (Node S)))
    (harcs : ∀ (l p : Nat) (n : Node S), getNode layers l p = some n → ∀ e ∈ n.inb, e.fromL + 1 = l) :
    (∀ (l p : Nat) (n3 : Node S),
      getNode (computeThresholds kind isExactField lb bestExact termL layers).1 l p = some n3 → n3.deleted = false →
      ∃ (n0 : Node S) (θp : Option Int),
        getNode (thInit kind isExactField lb bestExact termL layers) l p = some n0 ∧ stripT n0 = stripT n3 ∧
        (∀ t0, n0.theta = some t0 → ∃ tp, θp = some tp ∧ tp ≤ t0) ∧
        (∀ (p' : Nat) (m3 : Node S) (t : Int) (e : Arc),
          getNode (computeThresholds kind isExactField lb bestExact termL layers).1 (l + 1) p' = some m3 →
          m3.deleted = false → m3.theta = some t → e ∈ m3.inb → e.fromP = p →
          ∃ tp, θp = some tp ∧ tp ≤ satSub t e.cost) ∧
        n3.theta = ownTheta (bkOf lb bestExact) n3 θp) ∧
    (∀ u ∈ (computeThresholds kind isExactField lb bestExact termL layers).2,
      ∃ (l p : Nat) (n3 : Node S),
        getNode (computeThresholds kind isExactField lb bestExact termL layers).1 l p = some n3 ∧
        n3.deleted = false ∧ n3.cache = false ∧ n3.above = true ∧
        ∃ t, n3.theta = some t ∧ u = (n3.state, n3.depth, t, !n3.cutset)) := by
  rw [computeThresholds_eq]
  have hteq0 := thInit_tEq kind isExactField lb bestExact termL layers
  generalize thInit kind isExactField lb bestExact termL layers = L0 at hteq0 ⊢
  generalize bkOf lb bestExact = bk
  have harcs0 : ∀ (l p : Nat) (n : Node S), getNode L0 l p = some n → ∀ e ∈ n.inb, e.fromL + 1 = l := by
    intro l p n hn e he
    obtain ⟨n', hn', hs⟩ := hteq0.getNode_some hn
    rw [← (stripT_more hs).2.2.2.2.2.2] at he
    exact harcs l p n' hn' e he
  have key : Inv bk L0 (fun l' _ => 0 ≤ l')
      ((List.range L0.length).reverse.foldl (thLayer bk) (L0, [])).1
      ((List.range L0.length).reverse.foldl (thLayer bk) (L0, [])).2 := by
    refine foldl_range_rev_inv (thLayer bk) (fun lo acc => Inv bk L0 (fun l' _ => lo ≤ l') acc.1 acc.2) _ (L0, []) ?_ ?_
    · dsimp only
      refine ⟨TEq.refl L0, ?_, ?_, ?_⟩
      · intro l p n' hn hp
        have := Ddo.getNode_lt hn
        omega
      · intro l p n' hn _
        refine ⟨?_, ?_⟩
        · intro n0 t0 h0 ht0
          rw [hn] at h0; cases h0
          exact ⟨t0, ht0, Int.le_refl _⟩
        · intro p' m t e hm hp
          have := Ddo.getNode_lt hm
          omega
      · intro u hu; cases hu
    · rintro i ⟨ls, ups⟩ _ hacc
      exact thLayer_inv bk L0 harcs0 i ls ups hacc
  generalize (List.range L0.length).reverse.foldl (thLayer bk) (L0, []) = res at key ⊢
  constructor
  · intro l p n3 hn3 hd3
    obtain ⟨n0, hn0, hs0⟩ := key.teq.getNode_some hn3
    obtain ⟨θp, a, b, c⟩ := key.done l p n3 hn3 (Nat.zero_le _) hd3
    exact ⟨n0, θp, hn0, hs0, fun t0 ht0 => a n0 t0 hn0 ht0, b, c⟩
  · intro u hu
    obtain ⟨l, p, n3, hn3, _, r⟩ := key.ups u hu
    exact ⟨l, p, n3, hn3, r⟩

end Ddo.Theta

#print axioms Ddo.Theta.computeThresholds_spec
