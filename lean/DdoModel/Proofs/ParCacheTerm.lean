import DdoModel.Proofs.ParCacheSys
import DdoModel.Proofs.ParSysTerm
/-! # Termination of the parallel solver WITH the threshold cache (`ParCacheSys.KStep`)

A lexicographic measure `muK` on `nbVars + 8` coordinates that EVERY `KStep` strictly decreases (the 21 constructors:
the steps inside `get_workload`, every single cache write, the panics), provided the cut-sets the workers are about to
enqueue hold strictly deeper nodes (`ProgOkK`, an invariant when `okX` guarantees it: `kstep_progOkK`).  No other
invariant is needed: the measure decreases from *any* state, even one in which several workers are inside
`get_workload` at once.

Coordinates, most significant first (`K = nbVars + 1`, depths clamped to `K` as in `Props/C01t.lean`):
* `0 … K` — `VcK`: number of open sub-problems of that depth: fringe entries + nodes in hand not yet closed
             (`KW.openNode`: from `gwW n` — popped and kept — to `enq`);  `gwDrop` / `gwStarve` remove fringe entries for
             good, closing a node (`fin`, a crash with a node in hand) removes a hand, `enqueue` adds deeper nodes only;
* `K + 1` — length of the fringe (`gwKeep` moves a node from the fringe to a hand);
* `K + 2` — `HcK`: number of *busy* workers (`gwW n` … `fin n`): `notify` releases one (and wakes the parked workers,
             which raises the rank sum below);
* `K + 3` — `BcK`: number of workers in stage `gwP` **if the fringe is empty**, else `0`: this is what pays for
             `gwEmpty : gwP → idle` (the only local move that goes *up* in the rank): it can only grow when the fringe
             becomes empty (`gwDrop` / `gwStarve` / `gwKeep`: more significant coordinates decrease) — `gwToPop`, the only
             way into `gwP`, requires a non-empty fringe;
* `K + 4` — `RcK`: sum of the stage ranks (`idle > gwC > gwP, waiting, done`; `gwW > readR > compR > wrR > readX > compX >
             wrX > enq`);
* `K + 5` — `TcK`: sum of the numbers of `update_threshold` calls left (`writeR` / `writeX`; `compileR` / `compileX`
             raise it by an arbitrary amount but lower the rank);
* `K + 6` — `nbVars - first_active_layer` (`gwClear`, which changes nothing else the measure reads).
Core Lean only. -/
set_option linter.unusedSectionVars false
set_option linter.unusedVariables false
set_option linter.unusedSimpArgs false
namespace Ddo.ParCache
open Ddo Ddo.C09 Ddo.ParSys Ddo.C01t
variable {S : Type} [DecidableEq S]

/-! ### the coordinates -/

/-- the worker has popped a node it has not yet acknowledged (`gwW n` … `fin n`) -/
def KW.busy : KW S → Bool
  | .gwW _ | .readR _ | .compR _ _ _ | .wrR _ _ _ _ _ _ | .readX _ | .compX _ _ _ | .wrX _ _ _ _ _ _ | .enq _ _ _ _ _
  | .fin _ => true
  | _ => false

def KW.isP : KW S → Bool
  | .gwP => true
  | _ => false

/-- stages left -/
def KW.rank : KW S → Nat
  | .done | .crashed | .fin _ => 0
  | .waiting | .gwP | .enq _ _ _ _ _ => 1
  | .gwC | .wrX _ _ _ _ _ _ => 2
  | .idle | .compX _ _ _ => 3
  | .readX _ => 4
  | .wrR _ _ _ _ _ _ => 5
  | .compR _ _ _ => 6
  | .readR _ => 7
  | .gwW _ => 8

/-- `update_threshold` calls left -/
def KW.todoLen : KW S → Nat
  | .wrR _ _ _ _ _ todo | .wrX _ _ _ _ _ todo => todo.length
  | _ => 0

/-- does the worker hold an open node of clamped depth `d`? -/
def hpK (K d : Nat) (w : KW S) : Bool :=
  match w.openNode with
  | some n => cdepth K n == d
  | none => false

def handK (K : Nat) (ws : List (KW S)) (d : Nat) : Nat := ws.countP (hpK K d)
def VcK (K : Nat) (fr : List (SubP S)) (ws : List (KW S)) (d : Nat) : Nat := cnt K fr d + handK K ws d
def HcK (ws : List (KW S)) : Nat := ws.countP KW.busy
/-- workers about to pop an empty fringe -/
def BcK : List (SubP S) → List (KW S) → Nat
  | [], ws => ws.countP KW.isP
  | _ :: _, _ => 0
def RcK (ws : List (KW S)) : Nat := (ws.map KW.rank).sum
def TcK (ws : List (KW S)) : Nat := (ws.map KW.todoLen).sum

/-- the coordinates after the open-node counts -/
def tlK (nbVars : Nat) (c : ParCrit S) (ws : List (KW S)) : Nat → Nat
  | 0 => c.base.fringe.length
  | 1 => HcK ws
  | 2 => BcK c.base.fringe ws
  | 3 => RcK ws
  | 4 => TcK ws
  | _ => nbVars - c.base.firstActive

/-- the measure, as a function of what it reads: the shared record and the workers -/
def muC (nbVars : Nat) (c : ParCrit S) (ws : List (KW S)) (d : Nat) : Nat :=
  if d ≤ nbVars + 1 then VcK (nbVars + 1) c.base.fringe ws d else tlK nbVars c ws (d - (nbVars + 2))

/-- **the measure** -/
def muK (nbVars : Nat) (s : KSys S) : Nat → Nat := muC nbVars s.crit s.ws

theorem muC_lo {nbVars : Nat} (c : ParCrit S) (ws : List (KW S)) {d : Nat} (h : d ≤ nbVars + 1) :
    muC nbVars c ws d = VcK (nbVars + 1) c.base.fringe ws d := by
  unfold muC; rw [if_pos h]

theorem muC_hi {nbVars : Nat} (c : ParCrit S) (ws : List (KW S)) (j : Nat) :
    muC nbVars c ws (nbVars + 2 + j) = tlK nbVars c ws j := by
  unfold muC
  rw [if_neg (show ¬ nbVars + 2 + j ≤ nbVars + 1 by omega)]
  congr 1
  omega

theorem BcK_nil (ws : List (KW S)) : BcK ([] : List (SubP S)) ws = ws.countP KW.isP := rfl
theorem BcK_ne {fr : List (SubP S)} (h : fr ≠ []) (ws : List (KW S)) : BcK fr ws = 0 := by
  cases fr with
  | nil => exact absurd rfl h
  | cons _ _ => rfl
theorem BcK_le (fr : List (SubP S)) (ws : List (KW S)) : BcK fr ws ≤ ws.countP KW.isP := by
  cases fr with
  | nil => exact Nat.le_refl _
  | cons _ _ => exact Nat.zero_le _

/-! ### lexicographic bookkeeping -/

theorem lt_VK {nbVars : Nat} {c c' : ParCrit S} {ws ws' : List (KW S)} (d : Nat) (hd : d ≤ nbVars + 1)
    (hlt : VcK (nbVars + 1) c'.base.fringe ws' d < VcK (nbVars + 1) c.base.fringe ws d)
    (hle : ∀ e, e < d → VcK (nbVars + 1) c'.base.fringe ws' e ≤ VcK (nbVars + 1) c.base.fringe ws e) :
    LexLT (nbVars + 8) (muC nbVars c' ws') (muC nbVars c ws) := by
  refine lexLT_of_le d (by omega) ?_ ?_
  · rw [muC_lo _ _ hd, muC_lo _ _ hd]; exact hlt
  · intro e he
    rw [muC_lo _ _ (by omega), muC_lo _ _ (by omega)]; exact hle e he

theorem lt_tl {nbVars : Nat} {c c' : ParCrit S} {ws ws' : List (KW S)} (k : Nat) (hk : k < 6)
    (hV : ∀ e, VcK (nbVars + 1) c'.base.fringe ws' e ≤ VcK (nbVars + 1) c.base.fringe ws e)
    (hlt : tlK nbVars c' ws' k < tlK nbVars c ws k)
    (hle : ∀ j, j < k → tlK nbVars c' ws' j ≤ tlK nbVars c ws j) :
    LexLT (nbVars + 8) (muC nbVars c' ws') (muC nbVars c ws) := by
  refine lexLT_of_le (nbVars + 2 + k) (by omega) ?_ ?_
  · rw [muC_hi, muC_hi]; exact hlt
  · intro e he
    by_cases h1 : e ≤ nbVars + 1
    · rw [muC_lo _ _ h1, muC_lo _ _ h1]; exact hV e
    · obtain ⟨j, rfl⟩ : ∃ j, e = nbVars + 2 + j := ⟨e - (nbVars + 2), by omega⟩
      rw [muC_hi, muC_hi]; exact hle j (by omega)

theorem lt_F {nbVars : Nat} {c c' : ParCrit S} {ws ws' : List (KW S)}
    (hV : ∀ e, VcK (nbVars + 1) c'.base.fringe ws' e ≤ VcK (nbVars + 1) c.base.fringe ws e)
    (hF : c'.base.fringe.length < c.base.fringe.length) :
    LexLT (nbVars + 8) (muC nbVars c' ws') (muC nbVars c ws) :=
  lt_tl 0 (by omega) hV hF (fun j hj => absurd hj (Nat.not_lt_zero j))

theorem lt_H {nbVars : Nat} {c c' : ParCrit S} {ws ws' : List (KW S)}
    (hV : ∀ e, VcK (nbVars + 1) c'.base.fringe ws' e ≤ VcK (nbVars + 1) c.base.fringe ws e)
    (hF : c'.base.fringe.length ≤ c.base.fringe.length) (hH : HcK ws' < HcK ws) :
    LexLT (nbVars + 8) (muC nbVars c' ws') (muC nbVars c ws) :=
  lt_tl 1 (by omega) hV hH (fun j hj => by
    have : j = 0 := by omega
    subst this; exact hF)

theorem lt_B {nbVars : Nat} {c c' : ParCrit S} {ws ws' : List (KW S)}
    (hV : ∀ e, VcK (nbVars + 1) c'.base.fringe ws' e ≤ VcK (nbVars + 1) c.base.fringe ws e)
    (hF : c'.base.fringe.length ≤ c.base.fringe.length) (hH : HcK ws' ≤ HcK ws)
    (hB : BcK c'.base.fringe ws' < BcK c.base.fringe ws) :
    LexLT (nbVars + 8) (muC nbVars c' ws') (muC nbVars c ws) :=
  lt_tl 2 (by omega) hV hB (fun j hj => by
    rcases (show j = 0 ∨ j = 1 by omega) with rfl | rfl
    · exact hF
    · exact hH)

theorem lt_R {nbVars : Nat} {c c' : ParCrit S} {ws ws' : List (KW S)}
    (hV : ∀ e, VcK (nbVars + 1) c'.base.fringe ws' e ≤ VcK (nbVars + 1) c.base.fringe ws e)
    (hF : c'.base.fringe.length ≤ c.base.fringe.length) (hH : HcK ws' ≤ HcK ws)
    (hB : BcK c'.base.fringe ws' ≤ BcK c.base.fringe ws) (hR : RcK ws' < RcK ws) :
    LexLT (nbVars + 8) (muC nbVars c' ws') (muC nbVars c ws) :=
  lt_tl 3 (by omega) hV hR (fun j hj => by
    rcases (show j = 0 ∨ j = 1 ∨ j = 2 by omega) with rfl | rfl | rfl
    · exact hF
    · exact hH
    · exact hB)

theorem lt_T {nbVars : Nat} {c c' : ParCrit S} {ws ws' : List (KW S)}
    (hV : ∀ e, VcK (nbVars + 1) c'.base.fringe ws' e ≤ VcK (nbVars + 1) c.base.fringe ws e)
    (hF : c'.base.fringe.length ≤ c.base.fringe.length) (hH : HcK ws' ≤ HcK ws)
    (hB : BcK c'.base.fringe ws' ≤ BcK c.base.fringe ws) (hR : RcK ws' ≤ RcK ws) (hT : TcK ws' < TcK ws) :
    LexLT (nbVars + 8) (muC nbVars c' ws') (muC nbVars c ws) :=
  lt_tl 4 (by omega) hV hT (fun j hj => by
    rcases (show j = 0 ∨ j = 1 ∨ j = 2 ∨ j = 3 by omega) with rfl | rfl | rfl | rfl
    · exact hF
    · exact hH
    · exact hB
    · exact hR)

theorem lt_A {nbVars : Nat} {c c' : ParCrit S} {ws : List (KW S)}
    (hfr : c'.base.fringe = c.base.fringe)
    (hA : nbVars - c'.base.firstActive < nbVars - c.base.firstActive) :
    LexLT (nbVars + 8) (muC nbVars c' ws) (muC nbVars c ws) :=
  lt_tl 5 (by omega) (fun e => by rw [hfr]; exact Nat.le_refl _) hA (fun j hj => by
    rcases (show j = 0 ∨ j = 1 ∨ j = 2 ∨ j = 3 ∨ j = 4 by omega) with rfl | rfl | rfl | rfl | rfl
    · show c'.base.fringe.length ≤ c.base.fringe.length
      rw [hfr]; exact Nat.le_refl _
    · exact Nat.le_refl _
    · show BcK c'.base.fringe ws ≤ BcK c.base.fringe ws
      rw [hfr]; exact Nat.le_refl _
    · exact Nat.le_refl _
    · exact Nat.le_refl _)

/-! ### the hands -/

theorem hpK_of_open {K d : Nat} {w : KW S} {n : SubP S} (h : w.openNode = some n) :
    hpK K d w = (cdepth K n == d) := by unfold hpK; rw [h]
theorem hpK_of_none {K d : Nat} {w : KW S} (h : w.openNode = none) : hpK K d w = false := by unfold hpK; rw [h]
theorem hpK_congr {K d : Nat} {w w' : KW S} (h : w'.openNode = w.openNode) : hpK K d w' = hpK K d w := by
  unfold hpK; rw [h]

theorem handK_same {K : Nat} {ws : List (KW S)} {i : Nat} {w : KW S} (hw : ws[i]? = some w) (w' : KW S)
    (hop : w'.openNode = w.openNode) (e : Nat) : handK K (ws.set i w') e = handK K ws e := by
  have := countP_set (hpK K e) w' hw
  rw [hpK_congr hop] at this
  unfold handK
  omega

/-- the hand closes its node `n` -/
theorem handK_close {K : Nat} {ws : List (KW S)} {i : Nat} {w : KW S} {n : SubP S} (hw : ws[i]? = some w) (w' : KW S)
    (hop : w.openNode = some n) (hop' : w'.openNode = none) (e : Nat) :
    handK K (ws.set i w') e + (if cdepth K n = e then 1 else 0) = handK K ws e := by
  have := countP_set (hpK K e) w' hw
  rw [hpK_of_open hop, hpK_of_none hop'] at this
  unfold handK
  by_cases h : cdepth K n = e
  · simp only [h, beq_self_eq_true, if_true] at this ⊢; simp at this; omega
  · have hb : (cdepth K n == e) = false := by simpa using h
    rw [hb] at this; simp only [if_neg h]; simp at this; omega

/-- the hand receives the node `n` -/
theorem handK_open {K : Nat} {ws : List (KW S)} {i : Nat} {w : KW S} {n : SubP S} (hw : ws[i]? = some w) (w' : KW S)
    (hop : w.openNode = none) (hop' : w'.openNode = some n) (e : Nat) :
    handK K (ws.set i w') e = handK K ws e + (if cdepth K n = e then 1 else 0) := by
  have := countP_set (hpK K e) w' hw
  rw [hpK_of_open hop', hpK_of_none hop] at this
  unfold handK
  by_cases h : cdepth K n = e
  · simp only [h, beq_self_eq_true, if_true] at this ⊢; simp at this; omega
  · have hb : (cdepth K n == e) = false := by simpa using h
    rw [hb] at this; simp only [if_neg h]; simp at this; omega

theorem HcK_set {ws : List (KW S)} {i : Nat} {w : KW S} (hw : ws[i]? = some w) (w' : KW S) :
    HcK (ws.set i w') + (if w.busy then 1 else 0) = HcK ws + (if w'.busy then 1 else 0) :=
  countP_set KW.busy w' hw

/-- a worker that does not enter `gwP` with an empty fringe does not raise `BcK` -/
theorem BcK_set_le {fr : List (SubP S)} {ws : List (KW S)} {i : Nat} {w : KW S} (hw : ws[i]? = some w) (w' : KW S)
    (hP : w'.isP = true → fr ≠ []) : BcK fr (ws.set i w') ≤ BcK fr ws := by
  cases fr with
  | cons _ _ => exact Nat.le_refl _
  | nil =>
    have := countP_set KW.isP w' hw
    have h' : w'.isP = false := by
      cases h : w'.isP with
      | false => rfl
      | true => exact absurd rfl (hP h)
    rw [h'] at this
    rw [BcK_nil, BcK_nil]
    simp at this
    omega

/-! ### the kinds of steps -/

/-- worker `i` changes stage, keeping its node open (or having none), the fringe is untouched: the more significant
    coordinates do not grow -/
theorem kset_le {nbVars : Nat} {c : ParCrit S} {ws : List (KW S)} {i : Nat} {w : KW S} (hw : ws[i]? = some w)
    (c' : ParCrit S) (w' : KW S) (hfr : c'.base.fringe = c.base.fringe) (hop : w'.openNode = w.openNode)
    (hh : w'.busy = w.busy) (hP : w'.isP = true → c.base.fringe ≠ []) :
    (∀ e, VcK (nbVars + 1) c'.base.fringe (ws.set i w') e ≤ VcK (nbVars + 1) c.base.fringe ws e) ∧
    c'.base.fringe.length ≤ c.base.fringe.length ∧ HcK (ws.set i w') ≤ HcK ws ∧
    BcK c'.base.fringe (ws.set i w') ≤ BcK c.base.fringe ws := by
  refine ⟨fun e => ?_, ?_, ?_, ?_⟩
  · unfold VcK
    rw [hfr, handK_same hw w' hop]; exact Nat.le_refl _
  · rw [hfr]; exact Nat.le_refl _
  · have := HcK_set hw w'
    rw [hh] at this
    omega
  · rw [hfr]; exact BcK_set_le hw w' hP

/-- … and the rank decreases -/
theorem klocal_lt {nbVars : Nat} {c : ParCrit S} {ws : List (KW S)} {i : Nat} {w : KW S} (hw : ws[i]? = some w)
    (c' : ParCrit S) (w' : KW S) (hfr : c'.base.fringe = c.base.fringe) (hop : w'.openNode = w.openNode)
    (hh : w'.busy = w.busy) (hP : w'.isP = true → c.base.fringe ≠ []) (hr : w'.rank < w.rank) :
    LexLT (nbVars + 8) (muC nbVars c' (ws.set i w')) (muC nbVars c ws) := by
  obtain ⟨h1, h2, h3, h4⟩ := kset_le (nbVars := nbVars) hw c' w' hfr hop hh hP
  refine lt_R h1 h2 h3 h4 ?_
  have := sum_set KW.rank w' hw
  unfold RcK
  omega

/-- … or the rank is the same and there is one `update_threshold` call less to make -/
theorem ktodo_lt {nbVars : Nat} {c : ParCrit S} {ws : List (KW S)} {i : Nat} {w : KW S} (hw : ws[i]? = some w)
    (c' : ParCrit S) (w' : KW S) (hfr : c'.base.fringe = c.base.fringe) (hop : w'.openNode = w.openNode)
    (hh : w'.busy = w.busy) (hP : w'.isP = true → c.base.fringe ≠ []) (hr : w'.rank = w.rank)
    (ht : w'.todoLen < w.todoLen) :
    LexLT (nbVars + 8) (muC nbVars c' (ws.set i w')) (muC nbVars c ws) := by
  obtain ⟨h1, h2, h3, h4⟩ := kset_le (nbVars := nbVars) hw c' w' hfr hop hh hP
  refine lt_T h1 h2 h3 h4 ?_ ?_
  · have := sum_set KW.rank w' hw
    unfold RcK
    omega
  · have := sum_set KW.todoLen w' hw
    unfold TcK
    omega

/-- worker `i` closes its node `n` (goes to a stage without open node), the fringe loses nothing shallower and gains
    nothing at the depth of `n` or above -/
theorem kclose_lt {nbVars : Nat} {c : ParCrit S} {ws : List (KW S)} {i : Nat} {w : KW S} {n : SubP S} (hw : ws[i]? = some w)
    (c' : ParCrit S) (w' : KW S) (hop : w.openNode = some n) (hop' : w'.openNode = none)
    (hfr : ∀ e, e ≤ cdepth (nbVars + 1) n → cnt (nbVars + 1) c'.base.fringe e ≤ cnt (nbVars + 1) c.base.fringe e) :
    LexLT (nbVars + 8) (muC nbVars c' (ws.set i w')) (muC nbVars c ws) := by
  refine lt_VK (cdepth (nbVars + 1) n) (by unfold cdepth; omega) ?_ ?_
  · have h1 := handK_close (K := nbVars + 1) hw w' hop hop' (cdepth (nbVars + 1) n)
    have h2 := hfr _ (Nat.le_refl _)
    rw [if_pos rfl] at h1
    unfold VcK
    omega
  · intro e he
    have h1 := handK_close (K := nbVars + 1) hw w' hop hop' e
    have h2 := hfr e (by omega)
    unfold VcK
    omega

/-- a node leaves the fringe for good, no hand moves -/
theorem kdrop_lt {nbVars : Nat} {c : ParCrit S} {ws ws' : List (KW S)} {N : SubP S} {rest : List (SubP S)}
    (hp' : PopMax c.base.fringe N rest) (c' : ParCrit S)
    (hfr : ∀ e, cnt (nbVars + 1) c'.base.fringe e ≤ cnt (nbVars + 1) rest e)
    (hws : ∀ e, handK (nbVars + 1) ws' e = handK (nbVars + 1) ws e) :
    LexLT (nbVars + 8) (muC nbVars c' ws') (muC nbVars c ws) := by
  refine lt_VK (cdepth (nbVars + 1) N) (by unfold cdepth; omega) ?_ ?_
  · have h1 := hfr (cdepth (nbVars + 1) N)
    unfold VcK
    rw [hws, cnt_perm _ hp'.1, cnt_cons, if_pos rfl]
    omega
  · intro e he
    have h1 := hfr e
    unfold VcK
    rw [hws, cnt_perm _ hp'.1 e, cnt_cons]
    omega

/-- a kept pop: the node goes from the fringe to a hand -/
theorem kpop_lt {nbVars : Nat} {c : ParCrit S} {ws : List (KW S)} {i : Nat} {w : KW S} {N : SubP S} {rest : List (SubP S)}
    (hw : ws[i]? = some w) (hop : w.openNode = none) (hp' : PopMax c.base.fringe N rest)
    (c' : ParCrit S) (w' : KW S) (hfr : c'.base.fringe = rest) (hop' : w'.openNode = some N) :
    LexLT (nbVars + 8) (muC nbVars c' (ws.set i w')) (muC nbVars c ws) := by
  refine lt_F (fun e => ?_) ?_
  · have := handK_open (K := nbVars + 1) hw w' hop hop' e
    unfold VcK
    rw [hfr, cnt_perm _ hp'.1 e, cnt_cons]
    omega
  · rw [hfr, hp'.1.length_eq]; simp

/-! ### progress of the pending cut-sets -/

/-- the cut-set the worker is about to enqueue holds strictly deeper nodes, none beyond the last layer -/
def KW.ProgOk (nbVars : Nat) : KW S → Prop
  | .wrX n _ o _ _ _ => ∀ c ∈ o.cutset, n.depth < c.depth ∧ c.depth ≤ nbVars
  | .enq n _ o _ _ => ∀ c ∈ o.cutset, n.depth < c.depth ∧ c.depth ≤ nbVars
  | _ => True

/-- for every worker in stage `.wrX n lb o cv ups todo` or `.enq n lb o cv ups`:
    `∀ c ∈ o.cutset, n.depth < c.depth ∧ c.depth ≤ nbVars` -/
def ProgOkK (nbVars : Nat) (s : KSys S) : Prop := ∀ w ∈ s.ws, KW.ProgOk nbVars w

theorem progOkK_iff (nbVars : Nat) (s : KSys S) :
    ProgOkK nbVars s ↔
      ∀ (j : Nat) (n : SubP S) (lb : Int) (o : DDOut S) (cv : Cache S) (ups : List (Up S)),
        ((∃ todo, s.ws[j]? = some (.wrX n lb o cv ups todo)) ∨ s.ws[j]? = some (.enq n lb o cv ups)) →
        ∀ c ∈ o.cutset, n.depth < c.depth ∧ c.depth ≤ nbVars := by
  constructor
  · intro h j n lb o cv ups hj
    rcases hj with ⟨todo, hj⟩ | hj
    · exact h _ (List.mem_of_getElem? hj)
    · exact h _ (List.mem_of_getElem? hj)
  · intro h w hw
    obtain ⟨j, hj⟩ := List.getElem?_of_mem hw
    cases w with
    | wrX n lb o cv ups todo => exact h j n lb o cv ups (Or.inl ⟨todo, hj⟩)
    | enq n lb o cv ups => exact h j n lb o cv ups (Or.inr hj)
    | _ => trivial

theorem wake_openNodeK (w : KW S) : w.wake.openNode = w.openNode := by cases w <;> rfl
theorem wake_busyK (w : KW S) : w.wake.busy = w.busy := by cases w <;> rfl
theorem wake_progOk (nbVars : Nat) (w : KW S) : KW.ProgOk nbVars w.wake ↔ KW.ProgOk nbVars w := by
  cases w <;> exact Iff.rfl

theorem dropOne_fringe {c c' : ParCrit S} {N : SubP S} {rest : List (SubP S)} (h : dropOne c N rest = some c') :
    c'.base.fringe = rest := by
  unfold dropOne at h
  split at h
  · injection h with h; subst h; rfl
  · cases h

/-! ### every step decreases the measure -/

theorem kstep_measure_lt {nbVars : Nat} {dedup : Bool} {okR okX : SubP S → Int → Cache S → DDOut S → List (Up S) → Prop}
    {s t : KSys S} (h : KStep nbVars dedup okR okX s t) (hprog : ProgOkK nbVars s) :
    LexLT (nbVars + 8) (muK nbVars t) (muK nbVars s) := by
  cases h with
  | gwEnter i hw hl => exact klocal_lt hw _ _ rfl rfl rfl (fun h => by cases h) (by simp [KW.rank])
  | gwClear i c' hw hc hcl =>
    refine lt_A (c := s.crit) (c' := bumpFirst s.crit) (ws := s.ws) rfl ?_
    have := hc.1
    show nbVars - (s.crit.base.firstActive + 1) < nbVars - s.crit.base.firstActive
    omega
  | gwComplete i hw hc ho hf => exact klocal_lt hw _ _ rfl rfl rfl (fun h => by cases h) (by simp [KW.rank])
  | gwWait i hw hc ho hf => exact klocal_lt hw _ _ rfl rfl rfl (fun h => by cases h) (by simp [KW.rank])
  | gwToPop i hw hc hf => exact klocal_lt hw _ _ rfl rfl rfl (fun _ => hf) (by simp [KW.rank])
  | gwEmpty i hw hf =>
    show LexLT _ (muC nbVars s.crit (s.ws.set i .idle)) (muC nbVars s.crit s.ws)
    refine lt_B (fun e => ?_) (Nat.le_refl _) ?_ ?_
    · unfold VcK
      rw [handK_same hw KW.idle rfl]; exact Nat.le_refl _
    · have := HcK_set hw (KW.idle : KW S)
      have h1 : (KW.gwP : KW S).busy = false := rfl
      have h2 : (KW.idle : KW S).busy = false := rfl
      rw [h1, h2] at this
      omega
    · rw [hf, BcK_nil, BcK_nil]
      have := countP_set KW.isP (KW.idle : KW S) hw
      have h1 : (KW.gwP : KW S).isP = true := rfl
      have h2 : (KW.idle : KW S).isP = false := rfl
      rw [h1, h2] at this
      simp at this
      omega
  | gwStarve i N rest hw hp' hub =>
    refine kdrop_lt hp' (starve s.crit) (fun e => ?_) (fun e => handK_same hw KW.idle rfl e)
    show cnt _ [] e ≤ _
    rw [cnt_nil]; exact Nat.zero_le _
  | gwDrop i N rest c' hw hp' hub hme hd =>
    refine kdrop_lt hp' c' (fun e => ?_) (fun e => rfl)
    rw [dropOne_fringe hd]; exact Nat.le_refl _
  | gwKeep i N rest hw hp' hub hme => exact kpop_lt hw rfl hp' (setFringe s.crit rest) _ rfl rfl
  | gwTake i n c' crit' hw hu ht =>
    exact klocal_lt hw crit' _ (take_spec ht).1 rfl rfl (fun h => by cases h) (by simp [KW.rank])
  | readLbR i n hw hl =>
    show LexLT _ (muC nbVars s.crit (s.ws.set i _)) (muC nbVars s.crit s.ws)
    split
    · exact kclose_lt hw _ _ rfl rfl (fun _ _ => Nat.le_refl _)
    · exact klocal_lt hw _ _ rfl rfl rfl (fun h => by cases h) (by simp [KW.rank])
  | compileR i n lb k0 cv o ups hw hcv hok =>
    exact klocal_lt hw _ _ rfl rfl rfl (fun h => by cases h) (by simp [KW.rank])
  | writeR i n lb o cv ups u todo c' hw hu =>
    exact ktodo_lt hw _ _ rfl rfl rfl (fun h => by cases h) rfl (by simp [KW.todoLen])
  | updateR i n lb o cv ups hw hl =>
    have hfe : (s.crit.updateBest o).base.fringe = s.crit.base.fringe := (updateBest_fringe s.crit.base o).1
    show LexLT _ (muC nbVars (s.crit.updateBest o) (s.ws.set i _)) (muC nbVars s.crit s.ws)
    split
    · exact kclose_lt hw _ _ rfl rfl (fun _ _ => by rw [hfe]; exact Nat.le_refl _)
    · exact klocal_lt hw _ _ hfe rfl rfl (fun h => by cases h) (by simp [KW.rank])
  | readLbX i n hw hl => exact klocal_lt hw _ _ rfl rfl rfl (fun h => by cases h) (by simp [KW.rank])
  | compileX i n lb k0 cv o ups hw hcv hok =>
    exact klocal_lt hw _ _ rfl rfl rfl (fun h => by cases h) (by simp [KW.rank])
  | writeX i n lb o cv ups u todo c' hw hu =>
    exact ktodo_lt hw _ _ rfl rfl rfl (fun h => by cases h) rfl (by simp [KW.todoLen])
  | updateX i n lb o cv ups hw hl =>
    have hfe : (s.crit.updateBest o).base.fringe = s.crit.base.fringe := (updateBest_fringe s.crit.base o).1
    show LexLT _ (muC nbVars (s.crit.updateBest o) (s.ws.set i _)) (muC nbVars s.crit s.ws)
    split
    · exact kclose_lt hw _ _ rfl rfl (fun _ _ => by rw [hfe]; exact Nat.le_refl _)
    · exact klocal_lt hw _ _ hfe rfl rfl (fun h => by cases h) (by simp [KW.rank])
  | enqueue i n lb o cv ups hw hl =>
    refine kclose_lt hw (s.crit.enqueue dedup o.cutset) _ rfl rfl (fun e he => ?_)
    show cnt _ (s.crit.base.enqueue dedup o.cutset).fringe e ≤ _
    rw [cnt_enqueue_of_ne (nbVars + 1) dedup o.cutset e (fun c hc => ?_)]
    · exact Nat.le_refl _
    · have hpw : KW.ProgOk nbVars (.enq n lb o cv ups) := hprog _ (List.mem_of_getElem? hw)
      obtain ⟨h1, h2⟩ := hpw c hc
      have he' : e ≤ cdepth (nbVars + 1) n := he
      unfold cdepth at he' ⊢
      omega
  | notify i n c' hw hl hn =>
    obtain ⟨n1, _, _, _⟩ := notify_spec hn
    have hw' : (s.ws.map KW.wake)[i]? = some (.fin n) := by rw [List.getElem?_map, hw]; rfl
    have hwk : ∀ p : KW S → Bool, (∀ w, p w.wake = p w) → (s.ws.map KW.wake).countP p = s.ws.countP p := by
      intro p hp
      rw [List.countP_map]
      congr 1
      funext w; exact hp w
    show LexLT _ (muC nbVars c' ((s.ws.map KW.wake).set i .idle)) (muC nbVars s.crit s.ws)
    refine lt_H (fun e => ?_) ?_ ?_
    · unfold VcK
      rw [handK_same hw' KW.idle rfl, n1]
      unfold handK
      rw [hwk _ (fun w => hpK_congr (wake_openNodeK w))]
      exact Nat.le_refl _
    · rw [n1]; exact Nat.le_refl _
    · have := HcK_set hw' (KW.idle : KW S)
      have h1 : (KW.fin n : KW S).busy = true := rfl
      have h2 : (KW.idle : KW S).busy = false := rfl
      rw [h1, h2] at this
      have h3 : HcK (s.ws.map KW.wake) = HcK s.ws := hwk _ wake_busyK
      simp at this
      omega
  | crash i w hw hp =>
    show LexLT _ (muC nbVars s.crit (s.ws.set i .crashed)) (muC nbVars s.crit s.ws)
    cases w with
    | gwC => exact klocal_lt hw _ _ rfl rfl rfl (fun h => by cases h) (by simp [KW.rank])
    | gwP =>
      refine lt_R (fun e => ?_) (Nat.le_refl _) ?_ (BcK_set_le hw _ (fun h => by cases h)) ?_
      · unfold VcK
        rw [handK_same hw KW.crashed rfl]; exact Nat.le_refl _
      · have := HcK_set hw (KW.crashed : KW S)
        have h1 : (KW.gwP : KW S).busy = false := rfl
        have h2 : (KW.crashed : KW S).busy = false := rfl
        rw [h1, h2] at this
        omega
      · have := sum_set KW.rank (KW.crashed : KW S) hw
        have h1 : (KW.gwP : KW S).rank = 1 := rfl
        have h2 : (KW.crashed : KW S).rank = 0 := rfl
        rw [h1, h2] at this
        unfold RcK
        omega
    | gwW n => exact kclose_lt hw _ _ rfl rfl (fun _ _ => Nat.le_refl _)
    | wrR n lb o cv ups todo => exact kclose_lt hw _ _ rfl rfl (fun _ _ => Nat.le_refl _)
    | wrX n lb o cv ups todo => exact kclose_lt hw _ _ rfl rfl (fun _ _ => Nat.le_refl _)
    | fin n =>
      refine lt_H (fun e => ?_) (Nat.le_refl _) ?_
      · unfold VcK
        rw [handK_same hw KW.crashed rfl]; exact Nat.le_refl _
      · have := HcK_set hw (KW.crashed : KW S)
        have h1 : (KW.fin n : KW S).busy = true := rfl
        have h2 : (KW.crashed : KW S).busy = false := rfl
        rw [h1, h2] at this
        simp at this
        omega
    | idle => exact absurd hp (by simp [Panics])
    | waiting => exact absurd hp (by simp [Panics])
    | done => exact absurd hp (by simp [Panics])
    | crashed => exact absurd hp (by simp [Panics])
    | readR n => exact absurd hp (by simp [Panics])
    | compR n lb k0 => exact absurd hp (by simp [Panics])
    | readX n => exact absurd hp (by simp [Panics])
    | compX n lb k0 => exact absurd hp (by simp [Panics])
    | enq n lb o cv ups => exact absurd hp (by simp [Panics])

/-- **`ksys_terminates`**: the step relation of the parallel solver with the threshold cache, restricted to states whose
    pending cut-sets make progress, is well-founded: any number of threads, any interleaving of the critical sections
    and of the individual cache accesses, both fringes, panics included -/
theorem ksys_terminates' (nbVars : Nat) (dedup : Bool) (okR okX : SubP S → Int → Cache S → DDOut S → List (Up S) → Prop) :
    WellFounded (fun t s : KSys S => KStep nbVars dedup okR okX s t ∧ ProgOkK nbVars s) :=
  Subrelation.wf (r := InvImage (LexLT (nbVars + 8)) (muK nbVars))
    (fun {_ _} h => kstep_measure_lt h.1 h.2) (InvImage.wf _ (lexLT_wf _))

/-! ### `ProgOkK` is an invariant -/

theorem progOk_set {nbVars : Nat} {ws : List (KW S)} (i : Nat) (w' : KW S) (hw' : KW.ProgOk nbVars w')
    (h : ∀ w ∈ ws, KW.ProgOk nbVars w) : ∀ w ∈ ws.set i w', KW.ProgOk nbVars w := by
  intro w hw
  rcases List.mem_or_eq_of_mem_set hw with hw | rfl
  · exact h w hw
  · exact hw'

/-- `ProgOkK` is an invariant when the relaxed compilations guarantee progress -/
theorem kstep_progOkK {nbVars : Nat} {dedup : Bool} {okR okX : SubP S → Int → Cache S → DDOut S → List (Up S) → Prop}
    (hX : ∀ n lb cv o ups, okX n lb cv o ups → ∀ c ∈ o.cutset, n.depth < c.depth ∧ c.depth ≤ nbVars)
    {s t : KSys S} (h : KStep nbVars dedup okR okX s t) (hp : ProgOkK nbVars s) : ProgOkK nbVars t := by
  cases h with
  | gwEnter i hw hl => exact progOk_set i _ trivial hp
  | gwClear i c' hw hc hcl => exact hp
  | gwComplete i hw hc ho hf => exact progOk_set i _ trivial hp
  | gwWait i hw hc ho hf => exact progOk_set i _ trivial hp
  | gwToPop i hw hc hf => exact progOk_set i _ trivial hp
  | gwEmpty i hw hf => exact progOk_set i _ trivial hp
  | gwStarve i N rest hw hp' hub => exact progOk_set i _ trivial hp
  | gwDrop i N rest c' hw hp' hub hme hd => exact hp
  | gwKeep i N rest hw hp' hub hme => exact progOk_set i _ trivial hp
  | gwTake i n c' crit' hw hu ht => exact progOk_set i _ trivial hp
  | readLbR i n hw hl =>
    refine progOk_set i _ ?_ hp
    split <;> trivial
  | compileR i n lb k0 cv o ups hw hcv hok => exact progOk_set i _ trivial hp
  | writeR i n lb o cv ups u todo c' hw hu => exact progOk_set i _ trivial hp
  | updateR i n lb o cv ups hw hl =>
    refine progOk_set i _ ?_ hp
    split <;> trivial
  | readLbX i n hw hl => exact progOk_set i _ trivial hp
  | compileX i n lb k0 cv o ups hw hcv hok => exact progOk_set i _ (hX n lb cv o ups hok) hp
  | writeX i n lb o cv ups u todo c' hw hu =>
    have h0 : KW.ProgOk nbVars (.wrX n lb o cv ups (u :: todo)) := hp _ (List.mem_of_getElem? hw)
    exact progOk_set i _ h0 hp
  | updateX i n lb o cv ups hw hl =>
    have h0 : KW.ProgOk nbVars (.wrX n lb o cv ups []) := hp _ (List.mem_of_getElem? hw)
    refine progOk_set i _ ?_ hp
    split
    · trivial
    · exact h0
  | enqueue i n lb o cv ups hw hl => exact progOk_set i _ trivial hp
  | notify i n c' hw hl hn =>
    refine progOk_set i _ trivial (fun w hw => ?_)
    obtain ⟨w0, hw0, rfl⟩ := List.mem_map.mp hw
    exact (wake_progOk nbVars w0).mpr (hp w0 hw0)
  | crash i w hw hp' => exact progOk_set i _ trivial hp

theorem init_progOkK (nbVars : Nat) (P : Problem S) (dedup : Bool) (U : Nat) : ProgOkK nbVars (KSys.init P dedup U) := by
  intro w hw
  have hw : w ∈ List.replicate U (KW.idle : KW S) := hw
  rw [(List.mem_replicate.mp hw).2]
  trivial

/-- **no infinite run** from a state whose pending cut-sets make progress, when the relaxed compilations do -/
theorem k_no_infinite_run_from {nbVars : Nat} {dedup : Bool}
    {okR okX : SubP S → Int → Cache S → DDOut S → List (Up S) → Prop}
    (hX : ∀ n lb cv o ups, okX n lb cv o ups → ∀ c ∈ o.cutset, n.depth < c.depth ∧ c.depth ≤ nbVars)
    (run : Nat → KSys S) (h0 : ProgOkK nbVars (run 0)) : ¬ ∀ k, KStep nbVars dedup okR okX (run k) (run (k + 1)) := by
  intro hrun
  have hall : ∀ k, ProgOkK nbVars (run k) := by
    intro k
    induction k with
    | zero => exact h0
    | succ k ih => exact kstep_progOkK hX (hrun k) ih
  exact no_infinite_chain (ksys_terminates' nbVars dedup okR okX) run (fun k => ⟨hrun k, hall k⟩)

/-- **no infinite run of the solver**: from `maximize()` after `initialize()`, with any number `U` of threads, there is
    no infinite sequence of steps (critical sections, cache accesses, waits, panics), in any interleaving -/
theorem k_no_infinite_run {nbVars : Nat} {dedup : Bool}
    {okR okX : SubP S → Int → Cache S → DDOut S → List (Up S) → Prop}
    (hX : ∀ n lb cv o ups, okX n lb cv o ups → ∀ c ∈ o.cutset, n.depth < c.depth ∧ c.depth ≤ nbVars)
    (P : Problem S) (U : Nat) (run : Nat → KSys S) (h0 : run 0 = KSys.init P dedup U) :
    ¬ ∀ k, KStep nbVars dedup okR okX (run k) (run (k + 1)) :=
  k_no_infinite_run_from hX run (by rw [h0]; exact init_progOkK nbVars P dedup U)

end Ddo.ParCache

#print axioms Ddo.ParCache.kstep_measure_lt
#print axioms Ddo.ParCache.ksys_terminates'
#print axioms Ddo.ParCache.kstep_progOkK
#print axioms Ddo.ParCache.init_progOkK
#print axioms Ddo.ParCache.k_no_infinite_run_from
#print axioms Ddo.ParCache.k_no_infinite_run
