import DdoModel.Proofs.DomRelaxA
/-! # Relaxed compilation with the dominance checker enabled — part B: the invariant of the top-down build

`DInv cfg H Prot B opt Live dd` mirrors `Bounds.BInv` of `Proofs/MddBounds.lean` for a compilation with the checker enabled.
The ghost predicate `Live l p` now says: position `p` of layer `l` was expanded **and** its node is inexact or protected.
The one-step fact `StepP` holds for live nodes only (a node dropped by `_filter_with_dominance` is not live), and its
conclusion records that the child is inexact or protected — what makes it survive the next `_filter_with_dominance`.
The fields of `BInv` that fail with dominance pruning (every node of the layers `≤ lel` is live, the source of every arc is
live) are gone. -/
set_option linter.unusedSectionVars false
set_option linter.unusedVariables false
namespace Ddo.C10
open Ddo Ddo.C01 Ddo.Closed Ddo.Truth
variable {S K : Type} [DecidableEq S] [DecidableEq K]

/-- the hypotheses of the relaxed diagram theorems with the checker enabled -/
structure RHyp (cfg : Cfg S K) (D : DomRule S K) (H : Nat → S → EInt) (opt : Int) (Prot : Nat → S → Int → Prop) (B : Int) :
    Prop extends DomHyp cfg D H opt Prot B where
  rel : cfg.ctype = .relaxed
  W : 1 ≤ cfg.width
  M : MergeOk cfg.R H
  AM : Cover.AttMerge cfg.P cfg.R H

/-- one-step fact: if the potential `value + H` of the node `n` (position `(l, p)`, depth `k`) reaches `t`, a node of the layer
    `child`, at a position satisfying `LiveC`, inexact or protected, holds an inbound arc from `(l, p)` along which no
    potential is lost -/
def StepP (H : Nat → S → EInt) (Prot : Nat → S → Int → Prop) (B t : Int) (k l p : Nat) (n : Node S) (child : List (Node S))
    (LiveC : Nat → Prop) : Prop :=
  ∀ h, H k n.state = some h → t ≤ n.value + h →
    ∃ (p' : Nat) (m : Node S) (e : Arc) (h' : Int), LiveC p' ∧ child[p']? = some m ∧ e ∈ m.inb ∧ e.fromL = l ∧ e.fromP = p ∧
      Cover.Within B e.cost ∧ H (k + 1) m.state = some h' ∧ h ≤ e.cost + h' ∧ n.value + e.cost ≤ m.value ∧
      (m.isExact = true → Prot (k + 1) m.state m.value)

/-- the invariant; `Live l p`: the node at position `p` of layer `l` has been expanded and is inexact or protected -/
structure DInv (cfg : Cfg S K) (H : Nat → S → EInt) (Prot : Nat → S → Int → Prop) (B t : Int) (Live : Nat → Nat → Prop)
    (dd : DD S K) : Prop where
  len : dd.layers.length ≤ cfg.P.nbVars + 1
  rngN : ∀ n ∈ dd.next, Cover.Within (Cover.Bd B dd.layers.length) n.value
  rngL : ∀ (i : Nat) ly, dd.layers[i]? = some ly → ∀ n ∈ ly, Cover.Within (Cover.Bd B i) n.value
  arcsN : ∀ n ∈ dd.next, ∀ a ∈ n.inb, Cover.Within B a.cost
  att : dd.layers ≠ [] → ∀ n ∈ dd.next, ∃ a ∈ n.inb, ∃ p, getNode dd.layers a.fromL a.fromP = some p
  stepL : ∀ (l p : Nat) ly ly' n, dd.layers[l]? = some ly → dd.layers[l + 1]? = some ly' → Live l p → ly[p]? = some n →
    StepP H Prot B t (cfg.root.depth + l) l p n ly' (Live (l + 1))
  stepN : ∀ (l p : Nat) ly n, l + 1 = dd.layers.length → dd.layers[l]? = some ly → Live l p → ly[p]? = some n →
    StepP H Prot B t (cfg.root.depth + l) l p n dd.next (fun _ => True)
  rub : ∀ (l p : Nat) ly n, dd.layers[l]? = some ly → Live l p → ly[p]? = some n → n.rub = cfg.R.rub n.state
  prot : ∀ (l p : Nat) ly n, dd.layers[l]? = some ly → Live l p → ly[p]? = some n → n.isExact = true →
    Prot (cfg.root.depth + l) n.state n.value
  cutL : ∀ ly ∈ dd.layers, ∀ n ∈ ly, n.cutset = false
  cutN : ∀ n ∈ dd.next, n.cutset = false
  root0 : dd.layers = [] → ∃ n0, dd.next = [n0] ∧ n0.state = cfg.root.state ∧ n0.value = cfg.root.value
  root1 : dd.layers ≠ [] → ∃ ly n0, dd.layers[0]? = some ly ∧ ly[0]? = some n0 ∧ n0.state = cfg.root.state ∧
    n0.value = cfg.root.value ∧ Live 0 0

theorem DInv.congr {cfg : Cfg S K} {H : Nat → S → EInt} {Prot : Nat → S → Int → Prop} {B t : Int} {Live : Nat → Nat → Prop}
    {dd dd' : DD S K} (h : DInv cfg H Prot B t Live dd) (h1 : dd'.layers = dd.layers) (h2 : dd'.next = dd.next) :
    DInv cfg H Prot B t Live dd' := by
  obtain ⟨a0, a1, a2, a3, a4, a5, a6, a7, a8, a9, a10, a11, a12⟩ := h
  exact ⟨by rw [h1]; exact a0, by rw [h1, h2]; exact a1, by rw [h1]; exact a2, by rw [h2]; exact a3,
    by rw [h1, h2]; exact a4, by rw [h1]; exact a5, by rw [h1, h2]; exact a6, by rw [h1]; exact a7,
    by rw [h1]; exact a8, by rw [h1]; exact a9, by rw [h2]; exact a10, by rw [h1, h2]; exact a11, by rw [h1]; exact a12⟩

/-- what the expansion needs from the filtered and squashed layer; `LN` = the live positions of the layer -/
structure SqPostD (cfg : Cfg S K) (H : Nat → S → EInt) (Prot : Nat → S → Int → Prop) (B t : Int) (Live : Nat → Nat → Prop)
    (dd : DD S K) (var : Nat) (layer' : List (Node S)) (cur' : List Nat) (LN : Nat → Prop) : Prop where
  sub : ∀ q, LN q → q ∈ cur'
  prot : ∀ q n, LN q → layer'[q]? = some n → n.isExact = true → Prot dd.depth n.state n.value
  att : ∀ q ∈ cur', ∀ n, layer'[q]? = some n → Cover.AttAt cfg H dd.depth var n.state
  rng : ∀ n ∈ layer', Cover.Within (Cover.Bd B dd.layers.length) n.value
  arcs : ∀ n ∈ layer', ∀ a ∈ n.inb, Cover.Within B a.cost
  cut : ∀ n ∈ layer', n.cutset = false
  exst : ∀ n ∈ layer', n.isExact = true → n.state ∈ dd.next.map (·.state)
  step : ∀ (l p : Nat) ly n, l + 1 = dd.layers.length → dd.layers[l]? = some ly → Live l p → ly[p]? = some n →
    StepP H Prot B t (cfg.root.depth + l) l p n layer' LN
  root : dd.layers = [] → ∃ n0, layer'[0]? = some n0 ∧ n0.state = cfg.root.state ∧ n0.value = cfg.root.value ∧ LN 0

theorem srcOk_of_dinv (cfg : Cfg S K) (H : Nat → S → EInt) (Prot : Nat → S → Int → Prop) (B t : Int) (Live : Nat → Nat → Prop)
    (dd : DD S K) (hB : NoClamp cfg.P cfg.R cfg.root.value B) (hI : DInv cfg H Prot B t Live dd) :
    Cover.SrcOk cfg dd.layers B (Cover.Bd B dd.layers.length) := by
  constructor
  · intro l p src c hsrc hc
    obtain ⟨ly, hly, hp⟩ := Cover.getNode_lt hsrc
    have hw := hI.rngL l ly hly src (List.mem_of_getElem? hp)
    have hl := Cover.lt_of_getElem?_some hly
    have := Cover.within_satAdd hw hc
    rw [← Cover.Bd_succ] at this
    exact this.mono (Cover.Bd_mono hB.nonneg (by omega))
  · intro s u m d c hc
    exact hB.relax s u m d c hc

theorem stripT_cutset {a b : Node S} (h : Bounds.stripT a = Bounds.stripT b) : a.cutset = b.cutset := by
  have h1 := congrArg Node.cutset h
  simpa only [Bounds.stripT] using h1

/-- the live positions of a layer: expanded, inexact or protected -/
def LiveOf (Prot : Nat → S → Int → Prop) (k : Nat) (layer : List (Node S)) (cur : List Nat) (q : Nat) : Prop :=
  q ∈ cur ∧ ∀ n, layer[q]? = some n → n.isExact = true → Prot k n.state n.value

/-- the layer as `_filter_with_dominance` leaves it (nothing squashed) -/
theorem sqpost_filtered (cfg : Cfg S K) (D : DomRule S K) (H : Nat → S → EInt) (opt : Int) (Prot : Nat → S → Int → Prop) (B : Int)
    (hy : DomHyp cfg D H opt Prot B) (p0 : List Dec) (Live : Nat → Nat → Prop) (dd : DD S K) (var : Nat)
    (hS : SInv cfg D dd) (hM : MInv cfg B p0 dd)
    (hdepth : dd.depth = cfg.root.depth + dd.layers.length)
    (hnv : cfg.P.nextVar dd.depth (dd.next.map (·.state)) = some var)
    (hprot : Prot cfg.root.depth cfg.root.state cfg.root.value)
    (hI : DInv cfg H Prot B opt Live dd) :
    SqPostD cfg H Prot B opt Live dd var (fdOf cfg dd).1 (fdOf cfg dd).2.1
      (LiveOf Prot dd.depth (fdOf cfg dd).1 (fdOf cfg dd).2.1) ∧
    (∀ n ∈ (fdOf cfg dd).1, n.state ∈ dd.next.map (·.state)) ∧
    (dd.layers ≠ [] → ∀ n ∈ (fdOf cfg dd).1, ∃ a ∈ n.inb, ∃ p, getNode dd.layers a.fromL a.fromP = some p) := by
  obtain ⟨f1, f2, f3, f4, f5, f6⟩ := fdOf_facts cfg D hy.dom hy.nv B p0 dd var hS hM hdepth hnv
  -- a node of the filtered layer and the node of `dd.next` at the same position
  have hF : ∀ (q : Nat) n, (fdOf cfg dd).1[q]? = some n → ∃ n0, dd.next[q]? = some n0 ∧ n.state = n0.state ∧
      n.value = n0.value ∧ n.isExact = n0.isExact ∧ n.inb = n0.inb ∧ n.cutset = n0.cutset := by
    intro q n hq
    obtain ⟨n0, h0, hs⟩ := f1.get hq
    obtain ⟨e1, e2, _, e4, e5, _⟩ := stripT_all hs
    exact ⟨n0, h0, e1, e2, e4, e5, stripT_cutset hs⟩
  have hF' : ∀ (q : Nat) n0, dd.next[q]? = some n0 → ∃ n, (fdOf cfg dd).1[q]? = some n ∧ n.state = n0.state ∧
      n.value = n0.value ∧ n.isExact = n0.isExact ∧ n.inb = n0.inb ∧ n.cutset = n0.cutset := by
    intro q n0 hq
    obtain ⟨n, h0, hs⟩ := f1.symm.get hq
    obtain ⟨e1, e2, _, e4, e5, _⟩ := stripT_all hs
    exact ⟨n, h0, e1.symm, e2.symm, e4.symm, e5.symm, (stripT_cutset hs).symm⟩
  have hFm : ∀ n ∈ (fdOf cfg dd).1, ∃ n0 ∈ dd.next, n.state = n0.state ∧
      n.value = n0.value ∧ n.isExact = n0.isExact ∧ n.inb = n0.inb ∧ n.cutset = n0.cutset := by
    intro n hn
    obtain ⟨q, hq⟩ := List.mem_iff_getElem?.mp hn
    obtain ⟨n0, h0, r⟩ := hF q n hq
    exact ⟨n0, List.mem_of_getElem? h0, r⟩
  have hsts : ∀ n ∈ (fdOf cfg dd).1, n.state ∈ dd.next.map (·.state) := by
    intro n hn
    obtain ⟨n0, h0, e1, _⟩ := hFm n hn
    rw [e1]; exact List.mem_map_of_mem h0
  refine ⟨⟨fun q hq => hq.1, fun q n hq hn he => hq.2 n hn he, ?_, ?_, ?_, ?_, fun n hn _ => hsts n hn, ?_, ?_⟩, hsts, ?_⟩
  · intro q _ n hn h1 hH1
    exact hy.P.att dd.depth _ var n.state h1 hnv (hsts n (List.mem_of_getElem? hn)) hH1
  · intro n hn
    obtain ⟨n0, h0, _, e2, _⟩ := hFm n hn
    rw [e2]; exact hI.rngN n0 h0
  · intro n hn a ha
    obtain ⟨n0, h0, _, _, _, e5, _⟩ := hFm n hn
    exact hI.arcsN n0 h0 a (e5 ▸ ha)
  · intro n hn
    obtain ⟨n0, h0, _, _, _, _, e6⟩ := hFm n hn
    rw [e6]; exact hI.cutN n0 h0
  · -- step
    intro l p ly n hl hly hlive hn h hH ht
    obtain ⟨p', m, e, h', _, hm, he, r1, r2, r3, r4, r5, r6, r7⟩ := hI.stepN l p ly n hl hly hlive hn h hH ht
    obtain ⟨m1, hm1, e1, e2, e4, e5, _⟩ := hF' p' m hm
    have hk : cfg.root.depth + l + 1 = dd.depth := by rw [hdepth]; omega
    have hkeep : p' ∈ (fdOf cfg dd).2.1 := f6 H opt Prot hy.prot p' m hm (fun hex => hk ▸ r7 hex)
    refine ⟨p', m1, e, h', ⟨hkeep, fun n' hn' hex' => ?_⟩, hm1, e5 ▸ he, r1, r2, r3, e1 ▸ r4, r5, e2 ▸ r6, ?_⟩
    · rw [hm1] at hn'; cases hn'
      rw [e1, e2, ← hk]; exact r7 (e4 ▸ hex')
    · intro hex'
      rw [e1, e2]; exact r7 (e4 ▸ hex')
  · -- root
    intro hemp
    obtain ⟨n0, hn0, hs0, hv0⟩ := hI.root0 hemp
    have h0 : dd.next[0]? = some n0 := by rw [hn0]; rfl
    obtain ⟨n, hn, e1, e2, e4, _⟩ := hF' 0 n0 h0
    have hd0 : dd.depth = cfg.root.depth := by rw [hdepth, hemp]; rfl
    have hpr : Prot dd.depth n0.state n0.value := by rw [hd0, hs0, hv0]; exact hprot
    refine ⟨n, hn, e1 ▸ hs0, e2 ▸ hv0, f6 H opt Prot hy.prot 0 n0 h0 (fun _ => hpr), fun n' hn' _ => ?_⟩
    rw [hn] at hn'; cases hn'
    rw [e1, e2]; exact hpr
  · intro hne n hn
    obtain ⟨n0, h0, _, _, _, e5, _⟩ := hFm n hn
    obtain ⟨a, ha, p, hp⟩ := hI.att hne n0 h0
    exact ⟨a, e5 ▸ ha, p, hp⟩

/-- the filtered layer after `_relax` -/
theorem sqpost_relaxD (cfg : Cfg S K) (D : DomRule S K) (H : Nat → S → EInt) (opt : Int) (Prot : Nat → S → Int → Prop) (B : Int)
    (hy : RHyp cfg D H opt Prot B) (Live : Nat → Nat → Prop) (dd : DD S K) (var : Nat)
    (fl : List (Node S)) (fc : List Nat) (lg : List (Call S))
    (hdepth : dd.depth = cfg.root.depth + dd.layers.length)
    (hnv : cfg.P.nextVar dd.depth (dd.next.map (·.state)) = some var)
    (hlen : dd.layers.length ≤ cfg.P.nbVars)
    (hc1 : fc.length > cfg.width) (hc2 : dd.layers.length > 1)
    (hcur : ∀ p ∈ fc, p < fl.length)
    (hI : DInv cfg H Prot B opt Live dd)
    (hsq : SqPostD cfg H Prot B opt Live dd var fl fc (LiveOf Prot dd.depth fl fc))
    (hsts : ∀ n ∈ fl, n.state ∈ dd.next.map (·.state))
    (hatt : ∀ n ∈ fl, ∃ a ∈ n.inb, ∃ p, getNode dd.layers a.fromL a.fromP = some p) :
    SqPostD cfg H Prot B opt Live dd var (relaxLayer cfg dd.layers fl fc lg).1 (relaxLayer cfg dd.layers fl fc lg).2.1
      (LiveOf Prot dd.depth (relaxLayer cfg dd.layers fl fc lg).1 (relaxLayer cfg dd.layers fl fc lg).2.1) := by
  have hpost := Cover.relaxLayer_spec cfg dd.layers fl fc lg hy.W hc1 hcur
  have hpostA := Bounds.relaxLayer_specA cfg dd.layers fl fc lg hy.W hcur
  have hpostF := relaxLayer_specF cfg dd.layers fl fc lg hy.W hcur
  have hsrc := srcOk_of_dinv cfg H Prot B opt Live dd hy.B hI
  have hXsub : ∀ x ∈ Cover.restStatesOf cfg fl fc, x ∈ dd.next.map (·.state) := by
    intro x hx
    unfold Cover.restStatesOf at hx
    obtain ⟨q0, _, hq0⟩ := List.mem_filterMap.mp hx
    cases hn0 : fl[q0]? with
    | none => rw [hn0] at hq0; cases hq0
    | some n0 =>
      rw [hn0] at hq0
      simp only [Option.map_some, Option.some.injEq] at hq0
      rw [← hq0]
      exact hsts n0 (List.mem_of_getElem? hn0)
  have hXne : Cover.restStatesOf cfg fl fc ≠ [] := by
    obtain ⟨q0, hq0, hq0c⟩ := Cover.rest_nonempty cfg fl fc hy.W hc1
    have hlt := hcur q0 hq0c
    apply List.ne_nil_of_mem (a := fl[q0].state)
    unfold Cover.restStatesOf
    exact List.mem_filterMap.mpr ⟨q0, hq0, by rw [List.getElem?_eq_getElem hlt]; rfl⟩
  refine ⟨fun q hq => hq.1, fun q n hq hn he => hq.2 n hn he, ?_, ?_, ?_, ?_, ?_, ?_, ?_⟩
  · -- att
    intro q' hq' n' hn' h1 hH1
    rcases hpostA.states q' hq' n' hn' with ⟨u, hu, hs⟩ | hs
    · rw [hs] at hH1 ⊢
      exact hy.P.att dd.depth _ var u.state h1 hnv (hsts u hu) hH1
    · rw [hs] at hH1 ⊢
      exact hy.AM dd.depth (dd.next.map (·.state)) var _ h1 hnv hXne hXsub hH1
  · -- rng
    exact hpost.range B (Cover.Bd B dd.layers.length) hsrc (Cover.Bd_nonneg hy.B.nonneg _)
      ⟨fun n hn => ⟨hsq.rng n hn, hsq.arcs n hn⟩, fun q _ u hu => by
        obtain ⟨a, ha, p, hp⟩ := hatt u (List.mem_of_getElem? hu)
        exact ⟨a, ha, p, hp⟩⟩
  · -- arcs
    refine Bounds.relaxLayer_forall (fun n => ∀ a ∈ n.inb, Cover.Within B a.cost)
      cfg dd.layers fl _ lg ?_ (fun n hn => hn) (fun n b hn => hn) ?_ hsq.arcs
    · intro d0 a ha; simp only [Cover.freshMerged] at ha; cases ha
    · intro dropN hd e he src m hm a ha
      rw [Cover.appendEdge_inb] at ha
      rcases List.mem_cons.mp ha with ha | ha
      · rw [ha]
        exact hy.B.relax _ _ _ _ _ (hd e he)
      · exact hm a ha
  · -- cut
    refine Bounds.relaxLayer_forall (fun n => n.cutset = false) cfg dd.layers fl _ lg (fun _ => rfl) (fun n hn => hn)
      (fun n b hn => hn) ?_ hsq.cut
    intro dropN _ e _ src m hm
    rw [Bounds.appendEdge_cutset]; exact hm
  · -- exst
    intro n hn he
    obtain ⟨n0, h0, _, hc⟩ := Ddo.relaxLayer_sub cfg dd.layers fl fc lg n hn he
    rw [← hc.1]; exact hsts n0 h0
  · -- step
    intro l p ly n hl hly hlive hn h hH ht
    obtain ⟨q0, m0, e0, h0, hL0, hm0, he0, hfl, hfp, hwc, hH0, hle, hval, hpr0⟩ := hsq.step l p ly n hl hly hlive hn h hH ht
    have hk : cfg.root.depth + l + 1 = dd.depth := by rw [hdepth]; omega
    obtain ⟨q', hq', n', hn', hT⟩ := hpostF q0 hL0.1 m0 hm0
    rcases hT with ⟨hs, hv, harcs, hex⟩ | ⟨hnex, hX, hs, harc⟩
    · refine ⟨q', n', e0, h0, ⟨hq', fun n'' hn'' he'' => ?_⟩, hn', harcs e0 he0, hfl, hfp, hwc, by rw [hs]; exact hH0, hle,
        by omega, fun he'' => ?_⟩
      · rw [hn'] at hn''; cases hn''
        obtain ⟨x1, x2⟩ := hex he''
        rw [hs, x2, ← hk]; exact hpr0 x1
      · obtain ⟨x1, x2⟩ := hex he''
        rw [hs, x2]; exact hpr0 x1
    · have hsrcn : getNode dd.layers e0.fromL e0.fromP = some n := by rw [hfl, hfp]; exact Bounds.getNode_of hly hn
      obtain ⟨hmem, hge⟩ := harc e0 he0 n hsrcn
      obtain ⟨h'', hH'', hle''⟩ := hy.M (cfg.root.depth + l + 1) (Cover.restStatesOf cfg fl fc) m0.state n.state e0.dec e0.cost
        h0 hX hH0
      have hrc := hy.B.relax n.state m0.state (Cover.mergedOf cfg fl fc) e0.dec e0.cost hwc
      have hw := hI.rngL l ly hly n (List.mem_of_getElem? hn)
      have hsmall : Cover.Bd B dd.layers.length ≤ 4611686018427387904 := Cover.Bd_small hy.B.toDom (by omega)
      have hbd : Cover.Bd B l + B ≤ Cover.Bd B dd.layers.length := by
        rw [← Cover.Bd_succ]; exact Cover.Bd_mono hy.B.nonneg (by omega)
      have e2 : satAdd n.value (cfg.R.relax n.state m0.state (Cover.mergedOf cfg fl fc) e0.dec e0.cost)
          = n.value + cfg.R.relax n.state m0.state (Cover.mergedOf cfg fl fc) e0.dec e0.cost := by
        apply Cover.satAdd_eq <;> (unfold Cover.Within at hw hrc; simp only [iMin, iMax]; omega)
      rw [e2] at hge
      refine ⟨q', n', _, h'', ⟨hq', fun n'' hn'' he'' => ?_⟩, hn', hmem, hfl, hfp, hrc, ?_, ?_, hge, fun he'' => ?_⟩
      · rw [hn'] at hn''; cases hn''
        rw [hnex] at he''; cases he''
      · rw [hs]; exact hH''
      · unfold Cover.mergedOf
        dsimp only
        omega
      · rw [hnex] at he''; cases he''
  · -- root
    intro h; rw [h] at hc2; simp at hc2

theorem stripRub_fields' {a b : Node S} (h : stripRub a = stripRub b) :
    a.state = b.state ∧ a.value = b.value ∧ a.inb = b.inb ∧ a.cutset = b.cutset ∧ a.isExact = b.isExact := by
  obtain ⟨h1, h2, h3, h4⟩ := Bounds.stripRub_fields h
  exact ⟨h1, h2, h3, h4, (Ddo.stripRub_core h).1⟩

/-- the expansion of the filtered and squashed layer keeps the invariant -/
theorem expand_dinv (cfg : Cfg S K) (D : DomRule S K) (H : Nat → S → EInt) (opt : Int) (Prot : Nat → S → Int → Prop) (B : Int)
    (hy : DomHyp cfg D H opt Prot B) (p0 : List Dec) (Live : Nat → Nat → Prop) (dd dd' : DD S K) (var : Nat)
    (layer' : List (Node S)) (cur' : List Nat) (lg : List (Call S)) (LN : Nat → Prop)
    (hlen : dd.layers.length ≤ cfg.P.nbVars)
    (hdepth : dd.depth = cfg.root.depth + dd.layers.length)
    (hnv : cfg.P.nextVar dd.depth (dd.next.map (·.state)) = some var)
    (hI : DInv cfg H Prot B opt Live dd) (hsq : SqPostD cfg H Prot B opt Live dd var layer' cur' LN)
    (hM' : MInv cfg B p0 dd')
    (hl : dd'.layers = dd.layers ++ [(expandAll cfg var dd.layers.length layer' cur' lg).1])
    (hn : dd'.next = (expandAll cfg var dd.layers.length layer' cur' lg).2.1) :
    DInv cfg H Prot B opt (fun l p => if l = dd.layers.length then LN p else Live l p) dd' := by
  unfold expandAll at hl hn
  have hexs := fold_child_exsrc cfg var dd.layers.length cur' layer' lg
  generalize hlyF : (cur'.foldl (expandOne cfg var dd.layers.length) (layer', [], lg)).1 = lyF at hl
  generalize hnx : (cur'.foldl (expandOne cfg var dd.layers.length) (layer', [], lg)).2.1 = nx at hn hexs
  have hrub : RubEq lyF layer' := by rw [← hlyF]; exact Bounds.fold_rubEq cfg var dd.layers.length cur' (layer', [], lg)
  have hkeys : lyF.map Cover.key = layer'.map Cover.key := by
    rw [← hlyF]; exact Cover.fold_keys cfg var dd.layers.length cur' (layer', [], lg)
  have hcost : ∀ s s' d, Cover.Within B (cfg.P.cost s s' d) := fun s s' d => hy.B.cost s s' d
  have hok : ∀ m ∈ nx, Cover.NodeOk (layer'.map Cover.key) dd.layers.length B (Cover.Bd B dd.layers.length) m := by
    rw [← hnx]
    refine Cover.fold_ok cfg var dd.layers.length cur' (layer', [], lg) (layer'.map Cover.key) B (Cover.Bd B dd.layers.length)
      rfl ?_ (fun s d _ => hcost s _ _) ?_
    · intro sv hsv
      obtain ⟨n, hn, rfl⟩ := List.mem_map.mp hsv
      exact hsq.rng n hn
    · intro m hm; cases hm
  have hlen' : dd'.layers.length = dd.layers.length + 1 := by rw [hl, List.length_append, List.length_singleton]
  have hsmall : Cover.Bd B dd.layers.length + B ≤ 4611686018427387904 := by
    rw [← Cover.Bd_succ]; exact Cover.Bd_small hy.B.toDom (by omega)
  have hlay : ∀ (i : Nat) ly, dd'.layers[i]? = some ly → dd.layers[i]? = some ly ∨ (i = dd.layers.length ∧ ly = lyF) := by
    intro i ly hi; rw [hl] at hi; exact getElem?_append_singleton_cases hi
  have hold : ∀ (i : Nat) ly, dd.layers[i]? = some ly → dd'.layers[i]? = some ly := by
    intro i ly hi
    rw [hl, List.getElem?_append_left (Cover.lt_of_getElem?_some hi)]; exact hi
  have hnew : dd'.layers[dd.layers.length]? = some lyF := by rw [hl]; exact List.getElem?_concat_length
  have hF : ∀ (q : Nat) n, lyF[q]? = some n → ∃ n0, layer'[q]? = some n0 ∧ n0.state = n.state ∧ n0.value = n.value ∧
      n0.inb = n.inb ∧ n0.cutset = n.cutset ∧ n0.isExact = n.isExact := by
    intro q n hq
    obtain ⟨n0, h0, hs⟩ := hrub.get hq
    exact ⟨n0, h0, stripRub_fields' hs⟩
  have hF' : ∀ (q : Nat) n0, layer'[q]? = some n0 → ∃ n, lyF[q]? = some n ∧ n0.state = n.state ∧ n0.value = n.value ∧
      n0.inb = n.inb ∧ n0.cutset = n.cutset ∧ n0.isExact = n.isExact := by
    intro q n0 hq
    obtain ⟨n, h0, hs⟩ := hrub.get' hq
    exact ⟨n, h0, stripRub_fields' hs⟩
  refine ⟨?_, ?_, ?_, ?_, ?_, ?_, ?_, ?_, ?_, ?_, ?_, ?_, ?_⟩
  · -- len
    rw [hlen']; omega
  · -- rngN
    intro m hm
    rw [hn] at hm
    rw [hlen', Cover.Bd_succ]
    exact (hok m hm).rng
  · -- rngL
    intro i ly hi m hm
    rcases hlay i ly hi with hi | ⟨rfl, rfl⟩
    · exact hI.rngL i ly hi m hm
    · obtain ⟨q, hq⟩ := List.mem_iff_getElem?.mp hm
      obtain ⟨n0, h0, _, hv, _⟩ := hF q m hq
      rw [← hv]; exact hsq.rng n0 (List.mem_of_getElem? h0)
  · -- arcsN
    intro m hm a ha
    rw [hn] at hm
    exact (hok m hm).arc a ha
  · -- att
    intro _ m hm
    rw [hn] at hm
    obtain ⟨a, ha, hal, sv, hsv, hv⟩ := (hok m hm).att
    rw [← hkeys, List.getElem?_map] at hsv
    cases hp : lyF[a.fromP]? with
    | none => rw [hp] at hsv; cases hsv
    | some p =>
      refine ⟨a, ha, p, ?_⟩
      rw [hal]; exact Bounds.getNode_of hnew hp
  · -- stepL
    intro l p ly ly' n hly hly' hlive hnp
    have hlt := Cover.lt_of_getElem?_some hly'
    rw [hlen'] at hlt
    rcases hlay l ly hly with hly0 | ⟨rfl, _⟩
    · have hlive0 : Live l p := by
        have := Cover.lt_of_getElem?_some hly0
        rw [if_neg (by omega)] at hlive; exact hlive
      rcases hlay (l + 1) ly' hly' with hly0' | ⟨hl1, rfl⟩
      · intro h hH ht
        obtain ⟨p', m, e, h', hl', rest⟩ := hI.stepL l p ly ly' n hly0 hly0' hlive0 hnp h hH ht
        have := Cover.lt_of_getElem?_some hly0'
        exact ⟨p', m, e, h', by dsimp only; rw [if_neg (by omega)]; exact hl', rest⟩
      · intro h hH ht
        obtain ⟨q', m, e, h', hq', hm, he, r1, r2, r3, r4, r5, r6, r7⟩ := hsq.step l p ly n hl1 hly0 hlive0 hnp h hH ht
        obtain ⟨m', hm', hs, hv, hinb, _, hie⟩ := hF' q' m hm
        exact ⟨q', m', e, h', by dsimp only; rw [if_pos hl1]; exact hq', hm', hinb ▸ he, r1, r2, r3, hs ▸ r4, r5, hv ▸ r6,
          fun hex => by rw [← hs, ← hv]; exact r7 (hie ▸ hex)⟩
    · omega
  · -- stepN
    intro l p ly n hl1 hly hlive hnp h hH ht
    have hlL : l = dd.layers.length := by omega
    subst hlL
    rw [hnew] at hly; cases hly
    rw [if_pos rfl] at hlive
    obtain ⟨n0, h0, hs, hv, _, _, hie⟩ := hF p n hnp
    rw [← hs] at hH
    rw [← hv] at ht
    -- the decision: the protected one for an exact node, a non-losing one otherwise
    have hdec : ∃ d ∈ cfg.P.domain var n0.state, ∃ h', H (dd.depth + 1) (cfg.P.trans n0.state ⟨var, d⟩) = some h' ∧
        h ≤ cfg.P.cost n0.state (cfg.P.trans n0.state ⟨var, d⟩) ⟨var, d⟩ + h' ∧
        (n0.isExact = true → Prot (dd.depth + 1) (cfg.P.trans n0.state ⟨var, d⟩)
          (n0.value + cfg.P.cost n0.state (cfg.P.trans n0.state ⟨var, d⟩) ⟨var, d⟩)) := by
      by_cases hex : n0.isExact = true
      · have hpr := hsq.prot p n0 hlive h0 hex
        obtain ⟨dec, hdec, hpc⟩ := hy.prot.step dd.depth n0.state n0.value _ var hpr hnv
          (hsq.exst n0 (List.mem_of_getElem? h0) hex)
        obtain ⟨h1, hH1, hoh⟩ := addI_some' (hy.prot.opt _ _ _ hpr)
        obtain ⟨h', hH', hoh'⟩ := addI_some' (hy.prot.opt _ _ _ hpc)
        rw [← hdepth, hH1] at hH
        cases hH
        exact ⟨dec, hdec, h', hH', by omega, fun _ => hpc⟩
      · obtain ⟨d, hdm, h', hH', hle'⟩ := hsq.att p (hsq.sub p hlive) n0 h0 h (hdepth ▸ hH)
        exact ⟨d, hdm, h', hH', hle', fun he => absurd he hex⟩
    obtain ⟨d, hdm, h', hH', hle', hpc⟩ := hdec
    have hrubv : satAdd (cfg.R.rub n0.state) n0.value > cfg.lb := by
      unfold satAdd; apply clamp_gt hy.lb hy.gt hy.optLe
      have := hy.R _ _ _ hH; omega
    have hnewA := Bounds.fold_hasA_new cfg var dd.layers.length cur' (layer', [], lg) p (hsq.sub p hlive) n0.state n0.value
      (by rw [List.getElem?_map, h0]; rfl) hrubv d hdm
    rw [hnx] at hnewA
    obtain ⟨m, hm, hms, hmv, hma⟩ := hnewA
    obtain ⟨p', hp'⟩ := List.mem_iff_getElem?.mp hm
    have hw := hsq.rng n0 (List.mem_of_getElem? h0)
    have hc := hcost n0.state (cfg.P.trans n0.state ⟨var, d⟩) ⟨var, d⟩
    have hsa : satAdd n0.value (cfg.P.cost n0.state (cfg.P.trans n0.state ⟨var, d⟩) ⟨var, d⟩) =
        n0.value + cfg.P.cost n0.state (cfg.P.trans n0.state ⟨var, d⟩) ⟨var, d⟩ := by
      apply Cover.satAdd_eq <;> (unfold Cover.Within at hw hc; simp only [iMin, iMax]; omega)
    rw [hsa] at hmv
    refine ⟨p', m, _, h', True.intro, by rw [hn]; exact hp', hma, rfl, rfl, hc, ?_, hle', ?_, fun hmex => ?_⟩
    · rw [hms, ← hdepth]; exact hH'
    · rw [← hv]; exact hmv
    · -- an exact child comes from an exact parent, and carries exactly the protected value
      obtain ⟨n00, h00, hex00⟩ := hexs m hm hmex _ hma
      dsimp only at h00
      rw [h0] at h00; cases h00
      have hpc' := hpc hex00
      have hm' : m ∈ dd'.next := by rw [hn]; exact hm
      obtain ⟨_, _, hr, hmd, _⟩ := hM'.next m hm' hmex
      have hle := reach_le_root hy.P hr
      rw [hy.prot.opt _ _ _ hy.prot.root, hmd, hlen', hms] at hle
      have hd1 : cfg.root.depth + (dd.layers.length + 1) = dd.depth + 1 := by rw [hdepth]; omega
      rw [hd1, hH'] at hle
      have hle2 : h' + m.value ≤ opt := by simpa [EInt.addI] using hle
      obtain ⟨h2, hH2, hoh2⟩ := addI_some' (hy.prot.opt _ _ _ hpc')
      rw [hH'] at hH2; cases hH2
      have hval : m.value = n0.value + cfg.P.cost n0.state (cfg.P.trans n0.state ⟨var, d⟩) ⟨var, d⟩ := by omega
      rw [hms, hval, ← hdepth]
      exact hpc'
  · -- rub
    intro l p ly n hly hlive hnp
    rcases hlay l ly hly with hly0 | ⟨rfl, rfl⟩
    · have := Cover.lt_of_getElem?_some hly0
      rw [if_neg (by omega)] at hlive
      exact hI.rub l p ly n hly0 hlive hnp
    · rw [if_pos rfl] at hlive
      have := Bounds.fold_rubSet cfg var dd.layers.length cur' (layer', [], lg) p (.inl (hsq.sub p hlive))
      rw [hlyF] at this
      exact this n hnp
  · -- prot
    intro l p ly n hly hlive hnp hex
    rcases hlay l ly hly with hly0 | ⟨rfl, rfl⟩
    · have := Cover.lt_of_getElem?_some hly0
      rw [if_neg (by omega)] at hlive
      exact hI.prot l p ly n hly0 hlive hnp hex
    · rw [if_pos rfl] at hlive
      obtain ⟨n0, h0, hs, hv, _, _, hie⟩ := hF p n hnp
      rw [← hs, ← hv, ← hdepth]
      exact hsq.prot p n0 hlive h0 (hie ▸ hex)
  · -- cutL
    intro ly hly m hm
    rw [hl] at hly
    rcases List.mem_append.mp hly with hly | hly
    · exact hI.cutL ly hly m hm
    · rw [List.mem_singleton] at hly; subst hly
      obtain ⟨q, hq⟩ := List.mem_iff_getElem?.mp hm
      obtain ⟨n0, h0, _, _, _, hc, _⟩ := hF q m hq
      rw [← hc]; exact hsq.cut n0 (List.mem_of_getElem? h0)
  · -- cutN
    intro m hm
    rw [hn] at hm
    have := Bounds.fold_child_cutset cfg var dd.layers.length cur' (layer', [], lg) (fun m hm => by cases hm)
    rw [hnx] at this
    exact this m hm
  · -- root0
    intro h; rw [hl] at h; simp at h
  · -- root1
    intro _
    by_cases hemp : dd.layers = []
    · obtain ⟨n0, h0, hs0, hv0, hLN⟩ := hsq.root hemp
      have hL0 : dd.layers.length = 0 := by rw [hemp]; rfl
      obtain ⟨n, hn', hs, hv, _⟩ := hF' 0 n0 h0
      refine ⟨lyF, n, by rw [← hL0]; exact hnew, hn', by rw [← hs]; exact hs0, by rw [← hv]; exact hv0, ?_⟩
      rw [if_pos hL0.symm]; exact hLN
    · obtain ⟨ly, n0, hly, hn0, hs0, hv0, hlive⟩ := hI.root1 hemp
      refine ⟨ly, n0, hold 0 ly hly, hn0, hs0, hv0, ?_⟩
      have : 0 < dd.layers.length := Cover.lt_of_getElem?_some hly
      rw [if_neg (by omega)]; exact hlive

/-- the invariant carried along the loop: the store is sound, `DInv` holds for some `Live` -/
def JInv (cfg : Cfg S K) (D : DomRule S K) (H : Nat → S → EInt) (opt : Int) (Prot : Nat → S → Int → Prop) (B : Int)
    (dd : DD S K) : Prop :=
  SInv cfg D dd ∧ ∃ Live, DInv cfg H Prot B opt Live dd

/-- one successful step of a relaxed build with the checker enabled keeps the invariant -/
theorem stepLayer_dinv (cfg : Cfg S K) (D : DomRule S K) (H : Nat → S → EInt) (opt : Int) (Prot : Nat → S → Int → Prop) (B : Int)
    (hy : RHyp cfg D H opt Prot B) (p0 : List Dec) (dd dd' : DD S K) (var : Nat) (oc : Outcome)
    (hprot : Prot cfg.root.depth cfg.root.state cfg.root.value)
    (hJ : JInv cfg D H opt Prot B dd) (hM : MInv cfg B p0 dd)
    (hdepth : dd.depth = cfg.root.depth + dd.layers.length)
    (hnv : cfg.P.nextVar dd.depth (dd.next.map (·.state)) = some var)
    (hlen : dd.layers.length ≤ cfg.P.nbVars + 1) (hne : dd.next ≠ [])
    (hst : stepLayer cfg dd var = (some dd', oc)) : oc = .ok ∧ JInv cfg D H opt Prot B dd' := by
  obtain ⟨hS, Live, hI⟩ := hJ
  have hS' := stepLayer_sinv cfg D hy.dom hy.cache hy.nv B p0 dd dd' var oc hS hM hdepth hnv hst
  obtain ⟨hM', _, _⟩ := Ddo.stepLayer_inv cfg B p0 hy.B dd var hM hdepth hnv hlen dd' oc hst
  have hltd := nv_depth_lt hy.nv hnv
  have hlen2 : dd.layers.length ≤ cfg.P.nbVars := by omega
  obtain ⟨f1, f2, f3, f4, f5, f6⟩ := fdOf_facts cfg D hy.dom hy.nv B p0 dd var hS hM hdepth hnv
  obtain ⟨s1, s2⟩ := stepLayer_dom cfg dd var hne hy.cache f4
  obtain ⟨hsqF, hsts, hattF⟩ := sqpost_filtered cfg D H opt Prot B hy.toDomHyp p0 Live dd var hS hM hdepth hnv hprot hI
  have hcur : ∀ p ∈ (fdOf cfg dd).2.1, p < (fdOf cfg dd).1.length := by
    intro p hp; rw [f1.length]; exact f2 p hp
  rcases Bounds.squash_cases cfg dd (fdOf cfg dd).1 (fdOf cfg dd).2.1 hy.rel hy.W with ⟨_, hsq⟩ | ⟨c1, c2, hsq⟩
  · obtain ⟨dd1, e, el, en, _, _, _, _⟩ := s2 _ hsq
    rw [e] at hst
    simp only [Prod.mk.injEq, Option.some.injEq] at hst
    obtain ⟨hdd, hoc⟩ := hst
    subst hdd
    subst hoc
    dsimp only at el en
    exact ⟨rfl, hS', _, expand_dinv cfg D H opt Prot B hy.toDomHyp p0 Live dd dd1 var _ _ _ _ hlen2 hdepth hnv hI hsqF hM' el en⟩
  · obtain ⟨dd1, e, el, en, _, _, _, _⟩ := s2 _ hsq
    rw [e] at hst
    simp only [Prod.mk.injEq, Option.some.injEq] at hst
    obtain ⟨hdd, hoc⟩ := hst
    subst hdd
    subst hoc
    dsimp only at el en
    have hne' : dd.layers ≠ [] := by intro h; rw [h] at c2; simp at c2
    have hsqR := sqpost_relaxD cfg D H opt Prot B hy Live dd var _ _ dd.log hdepth hnv hlen2 c1 c2 hcur hI hsqF hsts
      (hattF hne')
    exact ⟨rfl, hS', _, expand_dinv cfg D H opt Prot B hy.toDomHyp p0 Live dd dd1 var _ _ _ _ hlen2 hdepth hnv hI hsqR hM' el en⟩

theorem init_dinv (cfg : Cfg S K) (H : Nat → S → EInt) (Prot : Nat → S → Int → Prop) (B t : Int) (cache : Cache S)
    (store : DomStore S K) (polls : Nat) (hB : NoClamp cfg.P cfg.R cfg.root.value B) :
    DInv cfg H Prot B t (fun _ _ => False) (initDD cfg cache store polls) := by
  have hnext : (initDD cfg cache store polls).next =
      [{ state := cfg.root.state, value := cfg.root.value, depth := cfg.root.depth }] := rfl
  have hlay : (initDD cfg cache store polls).layers = [] := rfl
  refine ⟨?_, ?_, ?_, ?_, ?_, ?_, ?_, ?_, ?_, ?_, ?_, ?_, ?_⟩
  · rw [hlay]; simp
  · intro n hn
    rw [hnext, List.mem_singleton] at hn
    subst hn
    have := hB.root
    simp only [hlay, List.length_nil, Cover.Bd, Cover.Within]
    omega
  · intro i ly hi; rw [hlay] at hi; simp at hi
  · intro n hn a ha
    rw [hnext, List.mem_singleton] at hn
    subst hn; cases ha
  · intro h; exact absurd hlay h
  · intro l p ly ly' n hi; rw [hlay] at hi; simp at hi
  · intro l p ly n _ hi; rw [hlay] at hi; simp at hi
  · intro l p ly n hi; rw [hlay] at hi; simp at hi
  · intro l p ly n hi; rw [hlay] at hi; simp at hi
  · intro ly hly; rw [hlay] at hly; cases hly
  · intro n hn
    rw [hnext, List.mem_singleton] at hn
    subst hn; rfl
  · intro _; exact ⟨_, hnext, rfl, rfl⟩
  · intro h; exact absurd hlay h

end Ddo.C10
