import DdoModel.Proofs.ParCacheExec
import DdoModel.Proofs.ParCacheCutSys
/-! # A schedule search for `abort_search` bounds below the optimum (executable code only; no theorem depends on it)

On top of the driver of `Proofs/ParCacheExec.lean` (`ParCache.Search`: tables of the D14 family, their mutants, random tables;
pseudo-random schedules of `nextK`, which only takes steps of `KPStep`): at EVERY state of every run, if nobody is inside
`get_workload` and some worker is inside a compilation, the bound `abort_search` would record there
(`abortBoundAt`: `ParCrit.abortSearch` with the best bound of the fringe) is compared with the optimum of the table.
`freeze = 1`: a worker about to publish an improving value, or about to enqueue its cut-set, is only scheduled when nobody else
can move (it widens the window of the finding).  Entry point `cutSearchMain` (run it from a scratch file
`def main := Ddo.ParCache.CutSearch.cutSearchMain` with `lake env lean --run`).

Recorded results (interpreter, `U ∈ {2, 3}`, 4 configurations, bursts 0 / 2 / 8 / 30):
* `1 14 400 6 6 1` (mutants, freeze): 400 tables, 76 800 runs, **12 runs with a bound below the optimum**;
* `1 13 400 6 8 0` (mutants, no freeze): 400 tables, 76 800 runs, **7**;
* `0 1 3 20 4 1` (the three base tables): 1 920 runs, 0;  random tables (`2 …`, another freeze policy): 102 400 runs, 0.
All violating tables are mutants of `Layered.Hand.T`.  The run of `Proofs/ParCacheCutWitness.lean` is one of them
(`U = 2`, plain fringe, last-exact-layer cut-sets, every read fresh). -/
namespace Ddo.ParCache.CutSearch
open Ddo Ddo.ParCache Ddo.ParCache.Search Ddo.C09 Ddo.C09.Layered Ddo.C09.NoCapSearch Ddo.C01

def fringeTop (fr : List (SubP Int)) : Option Int :=
  match fr with
  | [] => none
  | c :: r => some (r.foldl (fun a x => max a x.ub) c.ub)

/-- the smallest bound an `abort_search` enabled now would record (none: no abort enabled) -/
def abortBoundAt (s : KSys Int) : Option (Nat × Int) :=
  if !lockFreeB s then none else
  let top := fringeTop s.crit.base.fringe
  (List.range s.ws.length).foldl (fun acc i =>
    let nd : Option (SubP Int) := match (s.ws[i]? : Option (KW Int)) with
      | some (KW.compR n _ _) => some n
      | some (KW.compX n _ _) => some n
      | _ => none
    match nd with
    | some n =>
      let b := (s.crit.abortSearch n.ub top).base.bestUb
      match acc with
      | some (_, b0) => if b < b0 then some (i, b) else acc
      | none => some (i, b)
    | none => acc) none

def viol (opt : Int) (s : KSys Int) : Option (Nat × Int) :=
  match abortBoundAt s with
  | some (i, b) => if b < opt then some (i, b) else none
  | none => none

/-- the worker is about to publish an improving value, or about to enqueue: keep it frozen -/
def frozen (s : KSys Int) (i : Nat) : Bool :=
  match (s.ws[i]? : Option (KW Int)) with
  | some (KW.wrR _ _ o _ _ []) => (match o.bestExact with | some v => decide (v > s.crit.base.bestLb) | none => false)
  | some (KW.wrX _ _ o _ _ []) => (match o.bestExact with | some v => decide (v > s.crit.base.bestLb) | none => false)
  | some (KW.enq _ _ _ _ _) => true
  | _ => false

def randomChk (fz : Bool) (sv : SolverCfg Int) (opt : Int) (U burst : Nat) : Nat → Nat → Nat → Drv → Option (Drv × Nat × Int) × Nat
  | 0, g, _, _ => (none, g)
  | f + 1, g, cur, d =>
    match viol opt d.s with
    | some (i, b) => (some (d, i, b), g)
    | none =>
    if allDoneB d.s then (none, g) else
    let g := lcg g
    let keep := (g >>> 33) % (burst + 1) != 0
    let g := lcg g
    let w := if keep then cur else (g >>> 33) % U
    let g := lcg g
    let pk := [0, 1, 2, 5].getD ((g >>> 33) % 4) 0
    match (if fz && frozen d.s w then none else d.step sv w (.idx pk)) with
    | some d' => randomChk fz sv opt U burst f g w d'
    | none =>
      match (List.range U).findSome? (fun j => let i := (w + 1 + j) % U; (if fz && frozen d.s i then none else d.step sv i (.idx pk)).map (fun d' => (i, d'))) with
      | some (i, d') => randomChk fz sv opt U burst f g i d'
      | none =>
        match (List.range U).findSome? (fun j => let i := (w + 1 + j) % U; (d.step sv i (.idx pk)).map (fun d' => (i, d'))) with
        | some (i, d') => randomChk fz sv opt U burst f g i d'
        | none => (none, g)


def oneTab (fz : Bool) (T : Tab) (ws : List Nat) (nrand seed : Nat) (found0 runs0 : Nat) : IO (Nat × Nat) := do
  let mut found := found0
  let mut runs := runs0
  let opt := optimum T
  for (dedup, kind) in configs do
    for U in [2, 3] do
      let sv := Layered.sv T ws dedup kind
      let s0 := KSys.init (prob T) dedup U
      let mut g := lcg (seed + 17)
      for burst in [0, 2, 8, 30] do
        for _ in List.range nrand do
          let (r, g') := randomChk fz sv opt U burst 20000 g 0 { s := s0 }
          g := lcg g'
          runs := runs + 1
          match r with
          | some (d, i, b) =>
            found := found + 1
            if found ≤ 5 then
              IO.println s!"VIOL bound={b} opt={opt} lb={d.s.crit.base.bestLb} worker={i} tags={d.s.ws.map tagK} ubs={d.s.crit.upperBounds} steps={d.steps} {showCfg T ws dedup kind U} sched={d.rev.reverse}"
          | none => pure ()
  return (found, runs)

/-- `args = [mode (0: the three base tables, 1: mutants of them, 2: random tables), seed, count, nrand, kmax, freeze (0 / 1)]` -/
def cutSearchMain (args : List String) : IO UInt32 := do
  let a := args.map String.toNat!
  let mode := a.getD 0 0
  let seed := a.getD 1 1
  let count := a.getD 2 3
  let nrand := a.getD 3 5
  let kmax := a.getD 4 4
  let fz := a.getD 5 1 != 0
  let mut r : Rng := ⟨seed.toUInt64 * 0x2545F4914F6CDD1D + 99⟩
  let mut tables := 0
  let mut tries := 0
  let mut found := 0
  let mut runs := 0
  while tables < count && tries < count * 400 do
    tries := tries + 1
    let mut cand : Option (Tab × List Nat) := none
    if mode = 0 then
      cand := bases[tables]?
      if cand.isNone then break
    else if mode = 1 then
      let (r1, b) := r.below bases.length
      let (T0, ws0) := bases.getD b (Layered.Counter.T, Layered.Counter.ws)
      let (r2, k) := r1.below kmax
      let (r3, T, ws) := mutate r2 T0 ws0 (k + 1)
      r := r3
      let hmax := (List.range (T.n + 1)).foldl (fun a j => (List.range T.m).foldl (fun a s => max a (hfrom T j s)) a) 0
      cand := some ({ T with rub := max T.rub hmax }, ws)
    else
      let (r1, n) := r.below 4
      let (r2, m) := r1.below 3
      let (r3, md) := r2.below 3
      let (r4, mo) := r3.below 3
      let (r5, T) := genTab r4 (n + 4) (m + 2) md (mo = 0)
      let (r6, ws) := genWs r5 T
      r := r6
      cand := some (T, ws)
    match cand with
    | none => pure ()
    | some (T, ws) =>
      if check T (costBound T) then
        tables := tables + 1
        let (f, rn) ← oneTab fz T ws nrand (seed * 1000 + tables) found runs
        found := f
        runs := rn
        if tables % 10 = 0 then
          IO.println s!"progress tables={tables} runs={runs} found={found}"
          (← IO.getStdout).flush
  IO.println s!"FINAL mode={mode} tables={tables} runs={runs} found={found}"
  return 0

end Ddo.ParCache.CutSearch
