import DdoModel.Fringe
/-! Helper lemmas for the fringe models: the comparator is a preorder, the loops only permute
    `heap`/`pos`, decidable well-formedness and heap-order predicates (evaluated by the driver on
    every state of every explored trace). -/
namespace Ddo

theorem icmp_ne_gt_iff (a b : Int) : icmp a b ≠ .gt ↔ a ≤ b := by
  unfold icmp; split
  · simp; omega
  · split <;> simp <;> omega
theorem icmp_eq_iff (a b : Int) : icmp a b = .eq ↔ a = b := by
  unfold icmp; split
  · simp; omega
  · split <;> simp <;> omega
theorem icmp_lt_iff (a b : Int) : icmp a b = .lt ↔ a < b := by
  unfold icmp; split
  · simp; assumption
  · split <;> simp <;> omega

/-- `a` does not rank above `b` -/
def subLe (rank : Int → Int → Ordering) (a b : Sub) : Prop := subCmp rank a b ≠ .gt

/-- lexicographic reading of `MaxUB::compare` -/
theorem subLe_iff (rank : Int → Int → Ordering) (a b : Sub) :
    subLe rank a b ↔ (a.ub < b.ub ∨ (a.ub = b.ub ∧ (a.value < b.value ∨ (a.value = b.value ∧ rank a.state b.state ≠ .gt)))) := by
  unfold subLe subCmp
  rcases Int.lt_trichotomy a.ub b.ub with h | h | h
  · have : icmp a.ub b.ub = .lt := (icmp_lt_iff _ _).mpr h
    simp [this]; omega
  · have h1 : icmp a.ub b.ub = .eq := (icmp_eq_iff _ _).mpr h
    simp only [h1]
    rcases Int.lt_trichotomy a.value b.value with hv | hv | hv
    · have : icmp a.value b.value = .lt := (icmp_lt_iff _ _).mpr hv
      simp [this]; omega
    · have : icmp a.value b.value = .eq := (icmp_eq_iff _ _).mpr hv
      simp only [this]
      constructor
      · intro hh; right; exact ⟨h, Or.inr ⟨hv, hh⟩⟩
      · intro hh
        rcases hh with hh | ⟨_, hh | ⟨_, hh⟩⟩
        · omega
        · omega
        · exact hh
    · have : icmp a.value b.value = .gt := by
        unfold icmp; have h1 : ¬ a.value < b.value := by omega
        have h2 : ¬ a.value = b.value := by omega
        simp [h1, h2]
      simp [this]; omega
  · have : icmp a.ub b.ub = .gt := by
      unfold icmp; have h1 : ¬ a.ub < b.ub := by omega
      have h2 : ¬ a.ub = b.ub := by omega
      simp [h1, h2]
    simp [this]; omega

theorem subLe_trans (rank : Int → Int → Ordering)
    (hr : ∀ x y z, rank x y ≠ .gt → rank y z ≠ .gt → rank x z ≠ .gt)
    (a b c : Sub) (h1 : subLe rank a b) (h2 : subLe rank b c) : subLe rank a c := by
  rw [subLe_iff] at *
  rcases h1 with h1 | ⟨e1, h1⟩ <;> rcases h2 with h2 | ⟨e2, h2⟩
  · left; omega
  · left; omega
  · left; omega
  · right; refine ⟨by omega, ?_⟩
    rcases h1 with h1 | ⟨f1, h1⟩ <;> rcases h2 with h2 | ⟨f2, h2⟩
    · left; omega
    · left; omega
    · left; omega
    · right; exact ⟨by omega, hr _ _ _ h1 h2⟩

/-- a popped element that is `subLe`-maximal is in particular maximal for `(ub, value)`:
    non-increasing upper bounds, ties by larger value -/
theorem subLe_ub_value (rank : Int → Int → Ordering) (a b : Sub) (h : subLe rank a b) :
    a.ub < b.ub ∨ (a.ub = b.ub ∧ a.value ≤ b.value) := by
  rw [subLe_iff] at h
  rcases h with h | ⟨e, h⟩
  · left; exact h
  · right; refine ⟨e, ?_⟩; rcases h with h | ⟨h, _⟩ <;> omega

/-! ## the node at a heap position, heap order, root maximality -/

def NoDup.at? (f : NoDup) (p : Nat) : Option Sub :=
  match f.heap[p]? with
  | none => none
  | some id => f.nodes[id]?

/-- heap order: no element ranks above its parent (`(p - 1) / 2`, which is what `parent` computes) -/
def NoDup.HeapOrd (rank : Int → Int → Ordering) (f : NoDup) : Prop :=
  ∀ j, 0 < j → j < f.heap.length → ∀ a b, f.at? j = some a → f.at? ((j - 1) / 2) = some b → subLe rank a b

theorem hparent_eq (p : Nat) (h : 0 < p) : hparent p = (p - 1) / 2 := by
  unfold hparent; split
  · omega
  · split <;> omega

/-- every position holds a node (part of well-formedness) -/
def NoDup.Total (f : NoDup) : Prop := ∀ j, j < f.heap.length → ∃ a, f.at? j = some a

/-- the root of a heap-ordered array is maximal -/
theorem NoDup.root_max (rank : Int → Int → Ordering)
    (hr : ∀ x y z, rank x y ≠ .gt → rank y z ≠ .gt → rank x z ≠ .gt)
    (hrefl : ∀ x, rank x x ≠ .gt)
    (f : NoDup) (hord : f.HeapOrd rank) (htot : f.Total) (j : Nat) (hj : j < f.heap.length)
    (a r : Sub) (ha : f.at? j = some a) (hroot : f.at? 0 = some r) : subLe rank a r := by
  induction j using Nat.strongRecOn generalizing a with
  | _ j ih =>
    by_cases h0 : j = 0
    · subst h0; rw [ha] at hroot; injection hroot with e; subst e
      rw [subLe_iff]; right; exact ⟨rfl, Or.inr ⟨rfl, hrefl _⟩⟩
    · have hp : (j - 1) / 2 < j := by omega
      obtain ⟨b, hb⟩ := htot ((j - 1) / 2) (by omega)
      exact subLe_trans rank hr _ _ _ (hord j (by omega) hj a b ha hb) (ih _ hp (by omega) b hb)

/-! ## decidable invariants, evaluated by the driver after every operation of every explored trace -/

def allLt (l : List Nat) (n : Nat) : Bool := l.all (fun x => decide (x < n))

/-- well-formedness of the concrete structure:
    heap ids are distinct and in range, `pos` inverts `heap`, the recycle bin and the heap
    partition the slots, `states` maps exactly the keys of the live nodes to their ids -/
def NoDup.wfB (f : NoDup) : Bool :=
  f.pos.length == f.nodes.length
  && allLt f.heap f.nodes.length
  && f.heap.Nodup
  && (List.range f.heap.length).all (fun p => match f.heap[p]? with
        | some id => f.pos[id]? == some p
        | none => false)
  && allLt f.bin f.nodes.length
  && f.bin.Nodup
  && f.bin.all (fun id => !f.heap.contains id)
  && (f.heap.length + f.bin.length == f.nodes.length)
  && (f.states.length == f.heap.length)
  && f.heap.all (fun id => match f.nodes[id]? with
        | some n => lookupKey f.states n.key == some id
        | none => false)
  && (f.states.map (·.1)).Nodup

def NoDup.heapOrdB (rank : Int → Int → Ordering) (f : NoDup) : Bool :=
  (List.range f.heap.length).all (fun j =>
    j == 0 || (match f.at? j, f.at? ((j - 1) / 2) with
      | some a, some b => subCmp rank a b != .gt
      | _, _ => false))

end Ddo
