import DdoModel.Proofs.CacheDomDefs
/-! # `Cross` — a well-formed model on which cache + dominance together lose the optimum (finding **D16**)

The sequential solver with **both** the threshold cache and the dominance checker enabled (`Proofs/CacheDomDefs.lean`:
`DSolverCfg.kdturn`, `KDStep`, `KDRun`, `DSolverCfg.kdsolveLoop`) on the model `Cross` pops best-first, runs three turns
without panic, ends with the empty fringe, reports `is_exact = true` and `best_value = Some(5)`; the optimum is 10.  On the
same model the solver with the cache only returns 10 (`Ddo.C09.caching_solver_correct` applies: the model is `WellFormed`)
and the solver with the checker only returns 10 (`Ddo.C10.dominance_solver_optimal` applies: the rule has a protected
optimal strategy, `UndomOpt`; it is moreover admissible in the potential form for all pairs of values, `AdmissibleAll`).
Every statement about the runs is `decide`d on the executable model; the real library reproduces every number (see the
replay data at the end of this comment).

## the model (family `Ddo.C09.Layered`, `Proofs/AnyOrderLayered.lean`)

6 binary variables `x0 … x5` in static order (variable `k` is decided at depth `k`), domain `[0, 1]` enumerated in that
order, 6 states `0 … 5`, initial state `0`, initial value `0`.  Tables (`state: (next, cost) for decision 0 | decision 1`;
`*` = never reached, copies a neighbour so that the value-to-go stays monotone in the state):

```
x0:  every state: (4,1)|(5,0)                                          R=0 → b=4 (cost 1) | a=5
x1:  0*–3*, 4: (4,-1)|(5,-1)      5: (0,1)|(0,1)                         b=4 → x=4 | y=5 (cost -1);  a=5 → a2=0 (cost 1)
x2:  0, 1*–3*: (2,-1)|(2,-1)      4: (4,0)|(4,0)     5: (5,0)|(5,0)       a2=0 → a3=2 (cost -1);  x=4 → x3=4;  y=5 → y3=5
x3:  0*,1*,3*,4: (4,0)|(4,0)      2: (1,0)|(0,0)     5: (0,0)|(0,0)       a3=2 → J=1 | s*=0;  x3=4 → g4=4;  y3=5 → s*=0
x4:  0: (3,0)|(0,5)    1: (2,0)|(2,0)    2*–5*, 4: (4,0)|(4,0)            s*=0 → s5=3 | D5=0 (cost 5);  J=1 → J5=2;  g4=4 → g5=4
x5:  0, 1*: (0,0)|(0,0)           2–5: (0,10)|(0,0)                       the late reward: D5=0 earns 0, s5, J5, g5 earn 10
```

Value-to-go by depth (`hfrom`, monotone in the state at every depth): depth 0: `10 ×6`; depth 1: `9,9,9,9,9,10`;
depth 2: `9,9,9,9,10,10`; depth 3, 4: `10 ×6`; depth 5: `0,0,10,10,10,10`; depth 6: `0 ×6`.  **Optimum 10**, reached by
three families of paths:

* `σ1 = R, b, x, x3, g4, g5` (values `0, 1, 0, 0, 0, 0`, then `+10`) — the **protected** strategy: `4` has no key;
* `σs`: through `s* = (state 0, depth 4, value 0)` and `s5 = (3, depth 5, 0)` — reached through `a` and through `b, y`;
* `σJ`: `R, a, a2, a3, J = (1, depth 4, 0), J5 = (2, depth 5, 0)`.

The relaxation: `merge` = largest state, `relax` = identity on the costs, `fast_upper_bound` = 20; state ranking: larger
state better; `FixedWidth(1)`.  `WellFormed` (`Cross.wellFormed`).

**The rule**: key `0` for the states `0, 1`, key `1` for the states `2, 3`, no key for `4, 5`; one coordinate = the state;
the value is used.  So at depth 4 `J = 1` dominates `s* = 0`, at depth 5 `s5 = 3` dominates `J5 = 2` (two verdicts that
*cross*, as in `Ddo.C10.Cyc`: all four have value-to-go 10, the rule is admissible in the potential form,
`Cross.admissibleAll`) — but here the third optimal strategy `σ1` is never dominated: `Cross.undomOpt`.  With the checker
alone `σs` and `σJ` kill each other and `σ1` delivers 10.

## the run (plain fringe, last-exact-layer cut-set; the three other configurations behave identically)

```
turn 1  pop R.  Restricted (width 1): keeps b (value 1 > 0), then y (rank), y3, s* = (0, depth 4, 0) — recorded by the
        checker —, then presents s5 = (3, 0) and D5 = (0, 5) to the checker (both recorded) and drops s5 (`_restrict` keeps
        the larger value): reaches 5.  Incumbent 5.  Relaxed: the depth-2 layer {x, y, a2} is merged, cut-set {b, a}.
        fringe [a = (5, 0, ub 16, 1), b = (4, 1, ub 15, 1)], checker: depth 4 {s*}, depth 5 {D5, s5}.
turn 2  pop a (ub 16 > 15: the only best-first choice).  Restricted: a2, a3, then {J, s*}: J is presented first, evicts the
        entry s* and is recorded; s* is dominated by J (threshold 0).  J5, the only child of J, is dominated by the entry
        s5 of turn 1 — recorded for a node `_restrict` dropped.  The diagram is empty below: exact, no value.
        `_compute_thresholds` writes the verdicts to the **cache**: (0, depth 4) ↦ (0, explored), (2, depth 5) ↦ (0, explored),
        and 0 / 1 on the ancestors.  The relaxed compilation is not run.   fringe [b], incumbent 5.
turn 3  pop b.  Restricted: keeps y, y3, then s* = (0, depth 4, 0) exact — pruned by the cache (0 ≤ 0): legitimate, the
        checker would say the same.  Relaxed: {x, y} exact, {x3, y3} merged into M = (5, depth 3, value 0, inexact); the
        only child of M is (state 0, depth 4, value 0), **inexact** — it stands for g4 = (4, depth 4, 0) of σ1 as well —
        and `_filter_with_cache` prunes it with the threshold of turn 2.  `_filter_with_dominance` would never have touched
        it: the checker is only asked about exact nodes.  The layer is empty, the diagram has no terminal node, hence
        `best_value = None`, `is_exact() = true` (no best node ⇒ "exact best path"), nothing is enqueued.
        fringe [], incumbent 5: `is_exact = true`, `best_value = Some(5)`.
```

**Mechanism.**  A dominance verdict is a statement about one *exactly reached* item `(state, depth, value)`.
`_compute_thresholds` turns it into a cache threshold on `(state, depth)`, and `_filter_with_cache` applies thresholds to
*every* node, relaxed ones included.  A relaxed node with that state stands for other exact items (here `g4`, merged away
two layers above) which the rule does not dominate.  The cache thus extends a dominance verdict to sub-problems the checker
is, by design, never asked about.  Each mechanism alone is sound on this model; the composition is not.

With the cache off (`Cross.dom_only`), turn 3 keeps the relaxed node, the cut-set {x, y} is enqueued and x delivers 10.
With the checker off (`Cross.cache_only`) s* survives and a's diagrams deliver 10.

## replay data for the real library

`Problem`: `nb_variables = 6`, `next_variable(depth) = Variable(depth)` for `depth < 6`, domain `{0, 1}` in that order,
transition / cost from the tables above; `Relaxation`: `merge = max`, `relax = cost`, `fast_upper_bound = 20`;
`StateRanking`: `a.cmp(b)`; `FixedWidth(1)`; `NoCutoff`; `SimpleFringe` or `NoDupFringe` with `MaxUB`; `Dominance`: `get_key` =
`Some(0)` for 0, 1, `Some(1)` for 2, 3, else `None`; `nb_dimensions = 1`; `get_coordinate(s, _) = s`; `use_value = true`;
`SimpleDominanceChecker::new(Dom, 6)`.  Observed (crate `/tmp/agent_cachedom/rs`, depending on `/repo/ddo` by path):
`is_exact = true, best_value = Some(5)` for `SeqCachingSolverLel`, `SeqCachingSolverFc` (either fringe),
`ParCachingSolverLel/Fc` (1 thread), `DefaultCachingSolver`; `Some(10)` for `SeqNoCachingSolverLel/Fc` with the checker, for
`SeqCachingSolverLel/Fc` with `EmptyDominanceChecker`, and without both. -/
set_option linter.unusedSectionVars false
set_option linter.unusedVariables false
namespace Ddo.C10c.Cross
open Ddo Ddo.C01 Ddo.Closed Ddo.C09 Ddo.C10 Ddo.C10c Ddo.C09.Layered

def T : Tab :=
  { n := 6, m := 6,
    --      s0      s1      s2      s3      s4      s5
    trl := [4,5,    4,5,    4,5,    4,5,    4,5,    4,5,
            4,5,    4,5,    4,5,    4,5,    4,5,    0,0,
            2,2,    2,2,    2,2,    2,2,    4,4,    5,5,
            4,4,    4,4,    1,0,    4,4,    4,4,    0,0,
            3,0,    2,2,    4,4,    4,4,    4,4,    4,4,
            0,0,    0,0,    0,0,    0,0,    0,0,    0,0],
    cl :=  [1,0,    1,0,    1,0,    1,0,    1,0,    1,0,
            -1,-1,  -1,-1,  -1,-1,  -1,-1,  -1,-1,  1,1,
            -1,-1,  -1,-1,  -1,-1,  -1,-1,  0,0,    0,0,
            0,0,    0,0,    0,0,    0,0,    0,0,    0,0,
            0,5,    0,0,    0,0,    0,0,    0,0,    0,0,
            0,0,    0,0,    10,0,   10,0,   10,0,   10,0],
    rub := 20 }

/-- `FixedWidth(1)` -/
def ws : List Nat := List.replicate 42 1

/-- key 0 = {0, 1}, key 1 = {2, 3}, no key for 4 and 5; one coordinate: the state; the value is used -/
def rule : DomRule Int Int :=
  { key := fun s => if s = 0 ∨ s = 1 then some 0 else if s = 2 ∨ s = 3 then some 1 else none,
    dims := fun _ => 1, coord := fun s _ => s, useValue := true }

def sv (dedup : Bool) (kind : CutsetKind) : SolverCfg Int := Layered.sv T ws dedup kind
def dv (dedup : Bool) (kind : CutsetKind) : DSolverCfg Int Int := ⟨sv dedup kind, rule⟩

/-! ## the model is well formed, its optimum is 10 -/

theorem checked : check T 10 = true := by decide

theorem wellFormed (dedup : Bool) (kind : CutsetKind) : WellFormed (dv dedup kind).sv (H T) 10 80 :=
  wellFormed_ofTables T 10 80 ws dedup kind checked (by decide) (by decide)

theorem opt10 : (H T 0 (prob T).init).addI (prob T).initVal = some 10 := by decide

/-! ## the rule is admissible in the potential form, for all pairs of values -/

theorem key_some {s : Int} {k : Int} (h : rule.key s = some k) : (k = 0 ∧ (s = 0 ∨ s = 1)) ∨ (k = 1 ∧ (s = 2 ∨ s = 3)) := by
  simp only [rule] at h
  split at h
  · next hc => cases h; exact Or.inl ⟨rfl, hc⟩
  · split at h
    · next hc => cases h; exact Or.inr ⟨rfl, hc⟩
    · cases h

/-- within a key class the larger state has the larger value-to-go, at every depth -/
theorem hfrom_pair : ∀ j ∈ List.range 7, hfrom T j 0 ≤ hfrom T j 1 ∧ hfrom T j 2 ≤ hfrom T j 3 := by decide

theorem H_pair (d : Nat) : H T d 0 ≤ H T d 1 ∧ H T d 2 ≤ H T d 3 := by
  have h := hfrom_pair (T.n - d) (List.mem_range.mpr (by show 6 - d < 7; omega))
  exact h

theorem addI_mono' {a b : EInt} {x y : Int} (hab : a ≤ b) (h : x ≤ y) : a.addI x ≤ b.addI y := by
  cases a with
  | none => exact EInt.none_le _
  | some z =>
    cases b with
    | none => exact absurd hab (by simp)
    | some w =>
      have : z ≤ w := hab
      show z + x ≤ w + y; omega

/-- **the rule is admissible in the potential form, for all pairs of values** -/
theorem admissibleAll : AdmissibleAll rule (H T) := by
  intro d a va b vb ⟨⟨k, hka, hkb⟩, hdom⟩
  have hge : geEnt true (rule.ent 1 a va) (rule.ent 1 b vb) = true := by
    have : rule.useValue = true := rfl
    rw [this] at hdom
    have : rule.dims b = 1 := rfl
    rw [this] at hdom
    simp only [domEnt, Bool.and_eq_true] at hdom
    exact hdom.1
  have hv : vb ≤ va := by
    simp only [geEnt, Bool.not_true, Bool.false_or, Bool.and_eq_true, decide_eq_true_eq] at hge
    exact hge.2
  have hco : b ≤ a := by
    simp only [geEnt, Bool.and_eq_true] at hge
    have h1 := hge.1
    have e : ∀ s v, (rule.ent 1 s v).coords = [s] := fun s v => rfl
    rw [e, e] at h1
    simpa [leB] using h1
  have hp := H_pair d
  rcases key_some hka with ⟨rfl, ha⟩ | ⟨rfl, ha⟩ <;> rcases key_some hkb with ⟨hk, hb⟩ | ⟨hk, hb⟩ <;>
    (try (exfalso; omega)) <;> rcases ha with rfl | rfl <;> rcases hb with rfl | rfl <;> (try (exfalso; omega))
  · exact addI_mono' (EInt.le_refl _) hv
  · exact addI_mono' hp.1 hv
  · exact addI_mono' (EInt.le_refl _) hv
  · exact addI_mono' (EInt.le_refl _) hv
  · exact addI_mono' hp.2 hv
  · exact addI_mono' (EInt.le_refl _) hv

/-! ## the rule has a protected optimal strategy -/

/-- `σ1 = R, b, x, x3, g4, g5`, terminal value 10 -/
def protL : List (Nat × Int × Int) := [(0, 0, 0), (1, 4, 1), (2, 4, 0), (3, 4, 0), (4, 4, 0), (5, 4, 0), (6, 0, 10)]
def Prot (d : Nat) (s v : Int) : Prop := (d, s, v) ∈ protL
instance (d : Nat) (s v : Int) : Decidable (Prot d s v) := by unfold Prot; exact inferInstance

theorem prot_cases {d : Nat} {s v : Int} (h : Prot d s v) :
    (d = 0 ∧ s = 0 ∧ v = 0) ∨ (d = 1 ∧ s = 4 ∧ v = 1) ∨ (d = 2 ∧ s = 4 ∧ v = 0) ∨ (d = 3 ∧ s = 4 ∧ v = 0) ∨
    (d = 4 ∧ s = 4 ∧ v = 0) ∨ (d = 5 ∧ s = 4 ∧ v = 0) ∨ (d = 6 ∧ s = 0 ∧ v = 10) := by
  simpa [Prot, protL] using h

theorem reach1 : Reach (prob T) 1 4 1 [⟨0, 0⟩] :=
  Reach.step (P := prob T) 0 0 0 [] [0] 0 0 Reach.root rfl (by decide) (by decide)
theorem reach2 : Reach (prob T) 2 4 0 [⟨0, 0⟩, ⟨1, 0⟩] :=
  Reach.step (P := prob T) 1 4 1 [⟨0, 0⟩] [4] 1 0 reach1 rfl (by decide) (by decide)
theorem reach3 : Reach (prob T) 3 4 0 [⟨0, 0⟩, ⟨1, 0⟩, ⟨2, 0⟩] :=
  Reach.step (P := prob T) 2 4 0 [⟨0, 0⟩, ⟨1, 0⟩] [4] 2 0 reach2 rfl (by decide) (by decide)
theorem reach4 : Reach (prob T) 4 4 0 [⟨0, 0⟩, ⟨1, 0⟩, ⟨2, 0⟩, ⟨3, 0⟩] :=
  Reach.step (P := prob T) 3 4 0 [⟨0, 0⟩, ⟨1, 0⟩, ⟨2, 0⟩] [4] 3 0 reach3 rfl (by decide) (by decide)
theorem reach5 : Reach (prob T) 5 4 0 [⟨0, 0⟩, ⟨1, 0⟩, ⟨2, 0⟩, ⟨3, 0⟩, ⟨4, 0⟩] :=
  Reach.step (P := prob T) 4 4 0 [⟨0, 0⟩, ⟨1, 0⟩, ⟨2, 0⟩, ⟨3, 0⟩] [4] 4 0 reach4 rfl (by decide) (by decide)
theorem reach6 : Reach (prob T) 6 0 10 [⟨0, 0⟩, ⟨1, 0⟩, ⟨2, 0⟩, ⟨3, 0⟩, ⟨4, 0⟩, ⟨5, 0⟩] :=
  Reach.step (P := prob T) 5 4 0 [⟨0, 0⟩, ⟨1, 0⟩, ⟨2, 0⟩, ⟨3, 0⟩, ⟨4, 0⟩] [4] 5 0 reach5 rfl (by decide) (by decide)

/-- every state reached at depth 6 is the state 0 -/
theorem last_tr : ∀ s ∈ List.range 6, ∀ b ∈ [false, true], tr T 5 s b = 0 := by decide

theorem reach6_facts {a va : Int} {pa : List Dec} (h : Reach (prob T) 6 a va pa) : a = 0 ∧ va ≤ 10 := by
  constructor
  · generalize hk : 6 = k at h
    cases h with
    | root => cases hk
    | step k0 s v p' L x d hr hnv hs hd =>
      have hk0 : k0 = 5 := by omega
      subst hk0
      obtain ⟨_, rfl⟩ := nv_some hnv
      have hlt : st T s < 6 := st_lt T (by decide) s
      have := last_tr (st T s) (List.mem_range.mpr hlt) (decide (d = 1)) (by cases decide (d = 1) <;> simp)
      show (((tr T 5 (st T s) (decide (d = 1))) : Nat) : Int) = 0
      rw [this]; rfl
  · have h1 := reach_le_root (potential T) h
    rw [opt10] at h1
    have e : H T 6 a = some 0 := rfl
    rw [e] at h1
    have : (0 : Int) + va ≤ 10 := h1
    omega

/-- the state 4 has no key: it is never compared -/
theorem not_dom4 (a va v : Int) : ¬ Dominates rule a va 4 v := by
  rintro ⟨⟨k, _, hk⟩, _⟩
  have : rule.key 4 = none := by decide
  rw [this] at hk; cases hk

/-- **`σ1` is a protected optimal strategy** -/
theorem protected_ : Protected rule (prob T) (H T) 10 Prot := by
  refine ⟨by decide, ?_, ?_, ?_, ?_⟩
  · intro d s v h
    rcases prot_cases h with ⟨rfl, rfl, rfl⟩ | ⟨rfl, rfl, rfl⟩ | ⟨rfl, rfl, rfl⟩ | ⟨rfl, rfl, rfl⟩ | ⟨rfl, rfl, rfl⟩ |
      ⟨rfl, rfl, rfl⟩ | ⟨rfl, rfl, rfl⟩
    · exact ⟨_, Reach.root⟩
    · exact ⟨_, reach1⟩
    · exact ⟨_, reach2⟩
    · exact ⟨_, reach3⟩
    · exact ⟨_, reach4⟩
    · exact ⟨_, reach5⟩
    · exact ⟨_, reach6⟩
  · intro d s v h
    rcases prot_cases h with ⟨rfl, rfl, rfl⟩ | ⟨rfl, rfl, rfl⟩ | ⟨rfl, rfl, rfl⟩ | ⟨rfl, rfl, rfl⟩ | ⟨rfl, rfl, rfl⟩ |
      ⟨rfl, rfl, rfl⟩ | ⟨rfl, rfl, rfl⟩ <;> decide
  · intro d s v L x h hnv hs
    obtain ⟨hk, rfl⟩ := nv_some hnv
    rcases prot_cases h with ⟨rfl, rfl, rfl⟩ | ⟨rfl, rfl, rfl⟩ | ⟨rfl, rfl, rfl⟩ | ⟨rfl, rfl, rfl⟩ | ⟨rfl, rfl, rfl⟩ |
      ⟨rfl, rfl, rfl⟩ | ⟨rfl, rfl, rfl⟩
    · exact ⟨0, by decide, by decide⟩
    · exact ⟨0, by decide, by decide⟩
    · exact ⟨0, by decide, by decide⟩
    · exact ⟨0, by decide, by decide⟩
    · exact ⟨0, by decide, by decide⟩
    · exact ⟨0, by decide, by decide⟩
    · exact absurd hk (by decide)
  · intro d s v a va pa h hr
    rcases prot_cases h with ⟨rfl, rfl, rfl⟩ | ⟨rfl, rfl, rfl⟩ | ⟨rfl, rfl, rfl⟩ | ⟨rfl, rfl, rfl⟩ | ⟨rfl, rfl, rfl⟩ |
      ⟨rfl, rfl, rfl⟩ | ⟨rfl, rfl, rfl⟩
    · obtain ⟨rfl, rfl⟩ := reach_zero hr
      decide
    · exact not_dom4 _ _ _
    · exact not_dom4 _ _ _
    · exact not_dom4 _ _ _
    · exact not_dom4 _ _ _
    · exact not_dom4 _ _ _
    · obtain ⟨rfl, hva⟩ := reach6_facts hr
      rintro ⟨_, hdom⟩
      have hu : rule.useValue = true := rfl
      have hd : rule.dims 0 = 1 := rfl
      rw [hu, hd] at hdom
      have e : ∀ v, rule.ent 1 0 v = ⟨[0], v⟩ := fun v => rfl
      rw [e, e] at hdom
      simp only [domEnt, geEnt, leB, Bool.not_true, Bool.false_or, Bool.and_true, Bool.and_eq_true, decide_eq_true_eq,
        Bool.not_eq_true', decide_eq_false_iff_not, Int.le_refl, decide_true, Bool.true_and] at hdom
      omega

theorem undomOpt : UndomOpt rule (prob T) (H T) 10 := ⟨Prot, protected_⟩

/-! ## the runs -/

/-- the state after `j` best-first turns of the solver with cache **and** checker -/
def after (dedup : Bool) (kind : CutsetKind) (j : Nat) : KDSt Int Int :=
  (dv dedup kind).kdsolveLoop j (KDSt.init (dv dedup kind))

/-- what the traces show of a state: the fringe as `(state, value, ub, depth)` (newest push first) and the incumbent -/
def viewKD (s : KDSt Int Int) : List (Int × Int × Int × Nat) × Int :=
  (s.st.fringe.map (fun c => (c.state, c.value, c.ub, c.depth)), s.st.bestLb)
/-- layer `d` of the cache as `(state, threshold, explored)` -/
def cacheAtKD (s : KDSt Int Int) (d : Nat) : List (Int × Int × Bool) :=
  (s.cache.layers.getD d []).map (fun e => (e.1, e.2.value, e.2.explored))
/-- the cache the compilations of the next turn consult: the cache of the state after the cache-cleaning loop of `get_workload` -/
def cacheIn (s : KDSt Int Int) : Cache Int :=
  (cleanCache T.n s.st.openByLayer T.n s.st.firstActive s.cache).getD s.cache
/-- the checker as the restricted compilation of `N` (plain fringe, last-exact-layer cut-set) leaves it: what the relaxed compilation
    of the same turn starts from -/
def storeR (s : KDSt Int Int) (N : SubP Int) : DomStore Int Int :=
  ((dv false .lel).kdcompR (cacheIn s) s.store N s.st.bestLb).2.2.2.store
/-- layer `d` of the checker as `(key, entries)` -/
def storeAt (s : KDSt Int Int) (d : Nat) : List (Int × List (Int × Int)) := s.store.layers.getD d []

set_option maxRecDepth 100000 in
/-- **cache + dominance: three turns, empty fringe, `is_exact = true`, `best_value = Some(5)`** — both fringes, both cut-set
    kinds, nothing panics -/
theorem joint_value : ∀ dedup ∈ [false, true], ∀ kind ∈ [CutsetKind.lel, CutsetKind.frontier],
    (after dedup kind 6).st.fringe.length = 0 ∧ (after dedup kind 6).st.completion = (true, some 5) ∧
    (after dedup kind 6).st.explored = 3 ∧ (after dedup kind 6).st.crashed = false := by decide

set_option maxRecDepth 100000 in
/-- **the checker alone** (`EmptyCache`; `Ddo.C10.DSolverCfg.solveLoop`): the optimum, five turns -/
theorem dom_only : ∀ dedup ∈ [false, true], ∀ kind ∈ [CutsetKind.lel, CutsetKind.frontier],
    ((dv dedup kind).solveLoop 12 (dv dedup kind).init).st.fringe.length = 0 ∧
    ((dv dedup kind).solveLoop 12 (dv dedup kind).init).st.completion = (true, some 10) ∧
    ((dv dedup kind).solveLoop 12 (dv dedup kind).init).st.explored = 5 := by decide

set_option maxRecDepth 100000 in
/-- **the cache alone** (`EmptyDominanceChecker`; `Ddo.C01.SolverCfg.ksolveLoop`): the optimum, six turns -/
theorem cache_only : ∀ dedup ∈ [false, true], ∀ kind ∈ [CutsetKind.lel, CutsetKind.frontier],
    ((sv dedup kind).ksolveLoop 12 (KSt.init (sv dedup kind))).st.fringe.length = 0 ∧
    ((sv dedup kind).ksolveLoop 12 (KSt.init (sv dedup kind))).st.completion = (true, some 10) ∧
    ((sv dedup kind).ksolveLoop 12 (KSt.init (sv dedup kind))).st.explored = 6 := by decide

/-! ### turn by turn (plain fringe, last-exact-layer cut-set) -/

set_option maxRecDepth 100000 in
/-- after turn 1 (the root): incumbent 5, `a` and `b` open with bounds 16 and 15; the checker holds `s* = (0, value 0)` at depth
    4 and `D5 = (0, 5)`, `s5 = (3, 0)` at depth 5 — `s5` was recorded by the restricted compilation, which then dropped it -/
theorem stage1 : viewKD (after false .lel 1) = ([(5, 0, 16, 1), (4, 1, 15, 1)], 5) ∧
    storeAt (after false .lel 1) 4 = [(0, [(0, 0)])] ∧ storeAt (after false .lel 1) 5 = [(0, [(0, 5)]), (1, [(3, 0)])] ∧
    cacheAtKD (after false .lel 1) 4 = [] := by decide

set_option maxRecDepth 100000 in
/-- turn 2 pops `a` — the only best-first choice — and its restricted compilation is exact, finds nothing, and receives two
    `dominated` verdicts (`s*` by `J`, `J5` by `s5`) -/
theorem stage2a :
    (popMax (after false .lel 1).st.fringe).map (fun Nr => (Nr.1.state, Nr.1.ub, Nr.2.map (·.ub))) = some (5, 16, [15]) ∧
    ((dv false .lel).kdcompR (cacheIn (after false .lel 1)) (after false .lel 1).store ⟨5, 0, [⟨0, 1⟩], 16, 1⟩ 5).2.1.isExact = true ∧
    ((dv false .lel).kdcompR (cacheIn (after false .lel 1)) (after false .lel 1).store ⟨5, 0, [⟨0, 1⟩], 16, 1⟩ 5).2.1.bestValue = none ∧
    ((dv false .lel).kdcompR (cacheIn (after false .lel 1)) (after false .lel 1).store ⟨5, 0, [⟨0, 1⟩], 16, 1⟩ 5).2.2.2.ndom = 2 := by
  decide

set_option maxRecDepth 100000 in
/-- **which single-compilation contract breaks**: `Ddo.C09.theta_sound` (proved for `cfg.dom = none`) offers three justifications for
    a recorded threshold `(s, d, θ)` and a value `v ≤ θ`: `v + H d s ≤ bk`, or a cut-set node of the diagram carries `v + H d s`, or
    the consulted cache prunes something at least as good strictly deeper.  For the threshold `(state 0, depth 4) ↦ 0` recorded by
    the (exact) compilation of `a` at turn 2, `v = 0`, `H 4 0 = 10`: `bk = 5`, the cut-set is empty, and the consulted cache has no
    entry deeper than depth 1.  Its only justification is the `dominated` verdict — a fourth alternative that speaks about the exact
    item `(0, depth 4, 0)`, not about relaxed nodes. -/
theorem theta_unjustified :
    (0, 4, 0, true) ∈ ((dv false .lel).kdcompR (cacheIn (after false .lel 1)) (after false .lel 1).store ⟨5, 0, [⟨0, 1⟩], 16, 1⟩ 5).2.1.cacheUpdates ∧
    H T 4 0 = some 10 ∧
    ((dv false .lel).kdcompR (cacheIn (after false .lel 1)) (after false .lel 1).store ⟨5, 0, [⟨0, 1⟩], 16, 1⟩ 5).2.1.bestExactValue = none ∧
    ((dv false .lel).kdcompR (cacheIn (after false .lel 1)) (after false .lel 1).store ⟨5, 0, [⟨0, 1⟩], 16, 1⟩ 5).2.1.cutset.length = 0 ∧
    (after false .lel 1).st.bestLb = 5 ∧
    (List.range 7).map (fun d => ((cacheIn (after false .lel 1)).layers.getD d []).length) = [0, 2, 0, 0, 0, 0, 0] := by decide

set_option maxRecDepth 100000 in
/-- after turn 2 the **cache** holds the verdicts: `(0, depth 4) ↦ (0, explored)` and `(2, depth 5) ↦ (0, explored)`; the checker
    holds `J = (1, 0)` at depth 4 -/
theorem stage2b :
    viewKD (after false .lel 2) = ([(4, 1, 15, 1)], 5) ∧
    cacheAtKD (after false .lel 2) 4 = [(1, 0, true), (0, 0, true)] ∧ cacheAtKD (after false .lel 2) 5 = [(2, 0, true)] ∧
    storeAt (after false .lel 2) 4 = [(0, [(1, 0)])] := by decide

/-- the nodes of a built diagram that `_filter_with_cache` pruned, as `(state, value, depth, exact)` -/
def cachePruned (dd : DD Int Int) : List (Int × Int × Nat × Bool) :=
  (dd.layers.flatMap id).filterMap (fun n => if n.cache then some (n.state, n.value, n.depth, n.isExact) else none)

set_option maxRecDepth 100000 in
/-- turn 3 pops `b = (4, value 1, ub 15, depth 1)`: `must_explore` accepts it; the restricted compilation loses the *exact* node
    `(0, depth 4, value 0)` to the cache; the relaxed compilation loses the **inexact** node `(0, depth 4, value 0)` — the only
    node of its layer — to the same threshold, ends without terminal node (`best_value = None`), reports `is_exact = true` and an
    empty cut-set, and receives no `dominated` verdict -/
theorem stage3 :
    (cacheIn (after false .lel 2)).mustExplore 4 1 1 = some true ∧
    cachePruned ((dv false .lel).kdcompR (cacheIn (after false .lel 2)) (after false .lel 2).store ⟨4, 1, [⟨0, 0⟩], 15, 1⟩ 5).2.2.2 =
      [(0, 0, 4, true)] ∧
    cachePruned ((dv false .lel).kdcompX (cacheIn (after false .lel 2)) (storeR (after false .lel 2) ⟨4, 1, [⟨0, 0⟩], 15, 1⟩) ⟨4, 1, [⟨0, 0⟩], 15, 1⟩ 5).2.2.2 =
      [(0, 0, 4, false)] ∧
    ((dv false .lel).kdcompX (cacheIn (after false .lel 2)) (storeR (after false .lel 2) ⟨4, 1, [⟨0, 0⟩], 15, 1⟩) ⟨4, 1, [⟨0, 0⟩], 15, 1⟩ 5).2.1.bestValue = none ∧
    ((dv false .lel).kdcompX (cacheIn (after false .lel 2)) (storeR (after false .lel 2) ⟨4, 1, [⟨0, 0⟩], 15, 1⟩) ⟨4, 1, [⟨0, 0⟩], 15, 1⟩ 5).2.1.isExact = true ∧
    ((dv false .lel).kdcompX (cacheIn (after false .lel 2)) (storeR (after false .lel 2) ⟨4, 1, [⟨0, 0⟩], 15, 1⟩) ⟨4, 1, [⟨0, 0⟩], 15, 1⟩ 5).2.1.cutset.length = 0 ∧
    ((dv false .lel).kdcompX (cacheIn (after false .lel 2)) (storeR (after false .lel 2) ⟨4, 1, [⟨0, 0⟩], 15, 1⟩) ⟨4, 1, [⟨0, 0⟩], 15, 1⟩ 5).2.2.2.ndom = 0 := by
  decide

set_option maxRecDepth 100000 in
/-- after turn 3 the fringe is empty and the incumbent is still 5 -/
theorem stage_end : viewKD (after false .lel 3) = ([], 5) := by decide

end Ddo.C10c.Cross
