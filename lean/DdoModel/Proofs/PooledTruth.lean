import DdoModel.Proofs.PooledDefs
import DdoModel.Props.C08p
/-! # What the pooled diagram reports as *best exact value / solution* is sound

Stated for an arbitrary `PathRel cfg.P R` (`Proofs/PooledDefs.lean`): a relation on (depth, state, value, decisions since the
root of the compilation) closed under a transition of the model and under a skip.

* §1 `MInvR` — the exact-node invariant of `Proofs/PooledInv.lean` §4 with `ReachSkip … (p0 ++ q)` replaced by `R … q`
  (`stepLayerP_invR`, `buildLoopP_invR`, `initPD_invR`); `finalizeP_cutset_rel`, `cutset_rel_pooled`: C08 (i) in `R` form.
* §2 `G2P` — genuine arcs (`GOkP`, `ArcOkP`): every node that is not flagged relaxed has inbound arcs that transfer `R` from
  their source (when the source is not flagged relaxed) to the node, at the depth of the node's location (the transition of
  the model, then one skip per iteration during which the node lingered in the pool); its `best` arc attains its value; a
  node without `best` arc is the root of the compilation.  `stepLayerP_g2`, `initPD_g2`; both invariants: `TInv`,
  `buildLoopP_tinv`.  Any compilation type, any cache / dominance configuration (the filters only touch `theta` / `cache` /
  `deleted`: `SubG`), any cutoff — no isolation hypothesis is needed.
* §3 `FinOkP`, `ebpAll_reachP` — on the final diagram (`finalLF`: the pool as last layer, at the current depth), a node
  with `ebpAll = true` is `R`-reached by its `best` chain, with its value, at the depth recorded with its layer.
* §4 finalisation: `compileP_must` (which bit `compileP` hands to `finalizeP`), `finalizeP_bestExact_rel`,
  `bestExact_rel_detail`, `bestExact_rel` (any compilation type, configuration, cutoff), and its instances
  `bestExact_rel_restricted`, `bestExact_rel_relaxed_gen`, `bestExact_rel_relaxed`.
* `WitnessP` — non-vacuity: a relaxed compilation whose terminal node is not flagged exact, `must` bit set, best exact
  solution through a long arc. -/
set_option linter.unusedSectionVars false
set_option linter.unusedVariables false
namespace Ddo.PTruth
open Ddo Ddo.Pooled Ddo.Truth
variable {S K : Type} [DecidableEq S] [DecidableEq K]

/-! ## 1. exact nodes, in `R` form -/

/-- `n`, located `k` iterations below the root of the compilation (all its ancestors in layers of index `< l`), is
    `R`-reached by the decisions of its `best` chain with exactly its value -/
def SelfR (cfg : Cfg S K) (B : Int) (R : Nat → S → Int → List Dec → Prop) (layers : List (List (Node S))) (l k : Nat)
    (n : Node S) : Prop :=
  ∃ q, BestChainP layers l n.best q ∧ R (cfg.root.depth + k) n.state n.value q ∧ Bnd B k n.value

/-- `NodeOkP` in `R` form -/
def NodeOkR (cfg : Cfg S K) (B : Int) (R : Nat → S → Int → List Dec → Prop) (layers : List (List (Node S))) (l k : Nat)
    (n : Node S) : Prop :=
  n.isExact = true → SelfR cfg B R layers l k n

theorem NodeOkR.of_core {cfg : Cfg S K} {B : Int} {R : Nat → S → Int → List Dec → Prop} {layers : List (List (Node S))}
    {l k : Nat} {n0 n : Node S} (h : NodeOkR cfg B R layers l k n0) (he : n.isExact = true → n0.isExact = true)
    (hs : n0.state = n.state) (hv : n0.value = n.value) (hb : n0.best = n.best) : NodeOkR cfg B R layers l k n := by
  intro hn
  obtain ⟨q, h1, h2, h3⟩ := h (he hn)
  exact ⟨q, hb ▸ h1, hs ▸ hv ▸ h2, hv ▸ h3⟩

theorem NodeOkR.mono {cfg : Cfg S K} {B : Int} {R : Nat → S → Int → List Dec → Prop} {layers : List (List (Node S))}
    {l k : Nat} {n : Node S} (h : NodeOkR cfg B R layers l k n) (more : List (List (Node S))) :
    NodeOkR cfg B R (layers ++ more) l k n := by
  intro hn
  obtain ⟨q, h1, h2⟩ := h hn
  exact ⟨q, h1.mono more, h2⟩

/-- a node of the layer being expanded (index `layers.length`, depth `dp`); `L` = the pool states handed to `nextVar` -/
def ParOkR (cfg : Cfg S K) (B : Int) (R : Nat → S → Int → List Dec → Prop) (layers : List (List (Node S))) (k dp : Nat)
    (L : List S) (n : Node S) : Prop :=
  NodeOkR cfg B R layers layers.length k n ∧ (n.isExact = true → n.state ∈ L ∧ n.depth = dp)

theorem ParOkR.of_sub {cfg : Cfg S K} {B : Int} {R : Nat → S → Int → List Dec → Prop} {layers : List (List (Node S))}
    {k dp : Nat} {L : List S} {ly ly0 : List (Node S)} (hs : SubE ly ly0)
    (h : ∀ n ∈ ly0, ParOkR cfg B R layers k dp L n) : ∀ n ∈ ly, ParOkR cfg B R layers k dp L n := by
  intro n hn
  refine ⟨fun he => ?_, fun he => ?_⟩
  · obtain ⟨n0, h0, he0, hc⟩ := hs n hn he
    exact (h n0 h0).1.of_core (fun _ => he0) hc.1 hc.2.1 hc.2.2.1 he
  · obtain ⟨n0, h0, he0, hc⟩ := hs n hn he
    obtain ⟨h1, h2⟩ := (h n0 h0).2 he0
    exact ⟨hc.1 ▸ h1, hc.2.2.2 ▸ h2⟩

/-- the child obtained by `appendEdge` from an (exact) parent of the layer satisfies the invariant one iteration further -/
theorem childOkR_appendEdge (cfg : Cfg S K) (B : Int) (R : Nat → S → Int → List Dec → Prop) (hR : PathRel cfg.P R)
    (hB : NoClamp cfg.P cfg.R cfg.root.value B)
    (layers : List (List (Node S))) (k : Nat) (hk : k ≤ cfg.P.nbVars + 1)
    (ly0 : List (Node S)) (dp : Nat) (L : List S) (var : Nat)
    (hnv : cfg.P.nextVar (cfg.root.depth + k) L = some var)
    (p : Nat) (n0 par : Node S) (h0 : ly0[p]? = some n0) (hpar0 : ParOkR cfg B R layers k dp L n0)
    (hs : stripRub n0 = stripRub par) (d : Int) (hd : d ∈ cfg.P.domain var par.state)
    (m : Node S)
    (hm : NodeOkR cfg B R (layers ++ [ly0]) (layers.length + 1) (k + 1) m ∨ m = freshNode cfg par ⟨var, d⟩)
    (hms : m.state = cfg.P.trans par.state ⟨var, d⟩) :
    NodeOkR cfg B R (layers ++ [ly0]) (layers.length + 1) (k + 1) (appendEdge par m
      ⟨layers.length, p, ⟨var, d⟩, cfg.P.cost par.state (cfg.P.trans par.state ⟨var, d⟩) ⟨var, d⟩⟩) := by
  intro hex
  rw [appendEdge_isExact, Bool.and_eq_true] at hex
  obtain ⟨hpe, hme⟩ := hex
  obtain ⟨hie, hst, hv, hb, hdp⟩ := stripRub_core hs
  obtain ⟨q, hq, hreach, hbnd⟩ := hpar0.1 (hie.trans hpe)
  have hinL := (hpar0.2 (hie.trans hpe)).1
  unfold SelfR
  rw [Ddo.appendEdge_state]
  have hcost := hB.cost par.state (cfg.P.trans par.state ⟨var, d⟩) ⟨var, d⟩
  have hbnd' : Bnd B (k + 1) (par.value + cfg.P.cost par.state (cfg.P.trans par.state ⟨var, d⟩) ⟨var, d⟩) :=
    (hv ▸ hbnd).step hcost
  have hsat : satAdd par.value (cfg.P.cost par.state (cfg.P.trans par.state ⟨var, d⟩) ⟨var, d⟩) =
      par.value + cfg.P.cost par.state (cfg.P.trans par.state ⟨var, d⟩) ⟨var, d⟩ :=
    clamp_of_in (satAdd_of_bnd hB (by omega) hbnd')
  have hstep := hR.step _ _ _ _ L var d hreach hnv hinL (hst ▸ hd)
  rw [hst, hv] at hstep
  rcases appendEdge_best_value par m
    ⟨layers.length, p, ⟨var, d⟩, cfg.P.cost par.state (cfg.P.trans par.state ⟨var, d⟩) ⟨var, d⟩⟩ with
      ⟨_, hbest, hval⟩ | ⟨hlt, hbest, hval⟩
  · refine ⟨q ++ [⟨var, d⟩], ?_, ?_, ?_⟩
    · rw [hbest]
      refine BestChainP.step _ ⟨layers.length, p, ⟨var, d⟩, _⟩ n0 q (Nat.lt_succ_self _) ?_ (hq.mono _)
      dsimp only
      rw [Cover.getNode_last]
      exact h0
    · rw [hval, hms]
      dsimp only
      rw [hsat, ← Nat.add_assoc]
      exact hstep
    · rw [hval]; dsimp only; rw [hsat]; exact hbnd'
  · rw [hbest, hval]
    rcases hm with hm | hm
    · obtain ⟨q', h1, h2, h3⟩ := hm hme
      exact ⟨q', h1, hms ▸ h2, h3⟩
    · exfalso
      apply hlt
      rw [hm]
      simp only [freshNode]
      exact Int.le_refl _

/-- invariant of the pooled expansion: the layer changes in the `rub` fields only, the pool nodes are fine -/
structure EInvR (cfg : Cfg S K) (B : Int) (R : Nat → S → Int → List Dec → Prop) (layers : List (List (Node S)))
    (ly0 : List (Node S)) (k : Nat) (acc : List (Node S) × List (Node S) × List (Call S)) : Prop where
  rub : RubEq acc.1 ly0
  child : ∀ c ∈ acc.2.1, NodeOkR cfg B R (layers ++ [ly0]) (layers.length + 1) (k + 1) c

theorem expandOneR_inv (cfg : Cfg S K) (B : Int) (R : Nat → S → Int → List Dec → Prop) (hR : PathRel cfg.P R)
    (hB : NoClamp cfg.P cfg.R cfg.root.value B)
    (layers : List (List (Node S))) (k : Nat) (hk : k ≤ cfg.P.nbVars + 1)
    (ly0 : List (Node S)) (dp : Nat) (L : List S) (var : Nat)
    (hnv : cfg.P.nextVar (cfg.root.depth + k) L = some var)
    (hpar : ∀ n ∈ ly0, ParOkR cfg B R layers k dp L n)
    (acc : List (Node S) × List (Node S) × List (Call S)) (p : Nat) (h : EInvR cfg B R layers ly0 k acc) :
    EInvR cfg B R layers ly0 k (expandOne cfg var layers.length acc p) := by
  obtain ⟨ly, nx, lg⟩ := acc
  unfold expandOne
  dsimp only
  split
  · exact h
  · rename_i n hn
    obtain ⟨n0, h0, hs⟩ := h.rub.get hn
    have hrub : RubEq (ly.set p { n with rub := cfg.R.rub n.state }) ly0 := h.rub.set hn rfl
    split
    · have hs' : stripRub n0 = stripRub { n with rub := cfg.R.rub n.state } := hs
      generalize hpar' : ({ n with rub := cfg.R.rub n.state } : Node S) = par at hs' hrub ⊢
      have hst : n.state = par.state := by rw [← hpar']
      simp only [hst]
      refine ⟨hrub, ?_⟩
      refine foldl_inv (β := List (Node S) × List (Call S))
        (fun acc => ∀ c ∈ acc.1, NodeOkR cfg B R (layers ++ [ly0]) (layers.length + 1) (k + 1) c) _ _ _ h.child ?_
      rintro ⟨nx', lg'⟩ d hd ih1
      dsimp only at ih1 ⊢
      intro c hc
      rcases branchOn_mem cfg par layers.length p ⟨var, d⟩ nx' c hc with hc | ⟨m, hm, hms, rfl⟩
      · exact ih1 c hc
      · refine childOkR_appendEdge cfg B R hR hB layers k hk ly0 dp L var hnv p n0 par h0
          (hpar n0 (List.mem_of_getElem? h0)) hs' d hd m ?_ hms
        rcases hm with hm | hm
        · exact .inl (ih1 m hm)
        · exact .inr hm
    · exact ⟨hrub, h.child⟩

theorem expFR_inv (cfg : Cfg S K) (B : Int) (R : Nat → S → Int → List Dec → Prop) (hR : PathRel cfg.P R)
    (hB : NoClamp cfg.P cfg.R cfg.root.value B)
    (layers : List (List (Node S))) (k : Nat) (hk : k ≤ cfg.P.nbVars + 1)
    (ly0 : List (Node S)) (dp : Nat) (L : List S) (var : Nat) (rest : List (Node S))
    (hnv : cfg.P.nextVar (cfg.root.depth + k) L = some var)
    (hpar : ∀ n ∈ ly0, ParOkR cfg B R layers k dp L n)
    (hrest : ∀ c ∈ rest, NodeOkR cfg B R (layers ++ [ly0]) (layers.length + 1) (k + 1) c)
    (cur : List Nat) (log : List (Call S)) :
    EInvR cfg B R layers ly0 k (expF cfg var layers.length ly0 rest cur log) := by
  unfold expF
  refine foldl_inv (EInvR cfg B R layers ly0 k) _ _ _ ⟨RubEq.refl _, hrest⟩ ?_
  intro acc p _ h
  exact expandOneR_inv cfg B R hR hB layers k hk ly0 dp L var hnv hpar acc p h

/-- the exact-node invariant of the top-down build of the pooled diagram, `k` = number of completed iterations -/
structure MInvR (cfg : Cfg S K) (B : Int) (R : Nat → S → Int → List Dec → Prop) (pd : PD S K) (k : Nat) : Prop where
  depth : pd.depth = cfg.root.depth + k
  layers : ∀ (l dp : Nat) (ly : List (Node S)), pd.layers[l]? = some (dp, ly) →
    ∃ k', k' < k ∧ dp = cfg.root.depth + k' ∧
      ∀ n ∈ ly, NodeOkR cfg B R pd.plain l k' n ∧ (n.isExact = true → n.depth = dp)
  pool : ∀ n ∈ pd.pool, NodeOkR cfg B R pd.plain pd.layers.length k n

theorem MInvR.congr {cfg : Cfg S K} {B : Int} {R : Nat → S → Int → List Dec → Prop} {pd pd' : PD S K} {k : Nat}
    (h : MInvR cfg B R pd k) (hl : pd'.layers = pd.layers) (hn : pd'.pool = pd.pool) (hd : pd'.depth = pd.depth) :
    MInvR cfg B R pd' k := by
  obtain ⟨h0, h1, h2⟩ := h
  have hp : pd'.plain = pd.plain := by unfold PD.plain; rw [hl]
  exact ⟨hd ▸ h0, hp ▸ hl ▸ h1, hp ▸ hl ▸ hn ▸ h2⟩

theorem stepLayerP_invR (cfg : Cfg S K) (B : Int) (R : Nat → S → Int → List Dec → Prop) (hR : PathRel cfg.P R)
    (hB : NoClamp cfg.P cfg.R cfg.root.value B)
    (pd pd' : PD S K) (var k : Nat) (hinv : MInvR cfg B R pd k)
    (hnv : cfg.P.nextVar pd.depth (pd.pool.map (·.state)) = some var) (hk : k ≤ cfg.P.nbVars + 1)
    (h : stepLayerP cfg pd var = some pd') : MInvR cfg B R pd' (k + 1) := by
  obtain ⟨layer, cur, ief, log, hs⟩ := stepLayerP_elim cfg pd pd' var h
  have hnv' : cfg.P.nextVar (cfg.root.depth + k) (pd.pool.map (·.state)) = some var := hinv.depth ▸ hnv
  -- the impacted pool nodes
  have hcn : ∀ n ∈ curNodes cfg pd var, ParOkR cfg B R pd.plain k pd.depth (pd.pool.map (·.state)) n := by
    intro n hn
    unfold curNodes at hn
    obtain ⟨m, hm, rfl⟩ := List.mem_map.1 hn
    have hm' := (List.mem_filter.1 hm).1
    refine ⟨?_, fun _ => ⟨List.mem_map.2 ⟨m, hm', rfl⟩, rfl⟩⟩
    rw [plain_length]
    exact (hinv.pool m hm').of_core (fun h => h) rfl rfl rfl
  have hfd := fdOf_subS cfg pd var
  obtain ⟨hsq1, hsq2⟩ := squashCase_sub cfg _ _ _ _ _ _ _ _ _ hs.sq
  have hpar : ∀ n ∈ layer, ParOkR cfg B R pd.plain k pd.depth (pd.pool.map (·.state)) n :=
    ParOkR.of_sub (hsq1.trans hfd.toSub) hcn
  -- the skipped pool nodes
  have hrest : ∀ c ∈ restNodes cfg pd var,
      NodeOkR cfg B R (pd.plain ++ [layer]) (pd.plain.length + 1) (k + 1) c := by
    intro c hc hex
    obtain ⟨hcp, himp⟩ := mem_restNodes hc
    obtain ⟨q, h1, h2, h3⟩ := hinv.pool c hcp hex
    refine ⟨q, (h1.mono _).of_le (.inl (by rw [plain_length]; omega)), ?_, h3.mono hB.nonneg (by omega)⟩
    exact hR.skip _ _ _ _ _ var h2 hnv' (List.mem_map.2 ⟨c, hcp, rfl⟩) himp
  have hE := expFR_inv cfg B R hR hB pd.plain k hk layer pd.depth (pd.pool.map (·.state)) var (restNodes cfg pd var)
    hnv' hpar hrest cur log
  have hlayers := hs.layers
  have hplain := hs.plain
  have hpool := hs.pool
  rw [← plain_length pd] at hlayers hplain hpool
  generalize expF cfg var pd.plain.length layer (restNodes cfg pd var) cur log = r at hE hlayers hplain hpool
  obtain ⟨hrub, hchild⟩ := hE
  have hlen' : pd'.layers.length = if r.1.isEmpty then pd.layers.length else pd.layers.length + 1 := by
    rw [hlayers]; split
    · rfl
    · rw [List.length_append, List.length_singleton]
  refine ⟨?_, ?_, ?_⟩
  · rw [hs.depth, hinv.depth]; omega
  · intro l dp ly hl
    rw [hlayers] at hl
    rw [hplain]
    by_cases hemp : r.1.isEmpty = true
    · rw [if_pos hemp] at hl ⊢
      obtain ⟨k', hk', hdp, hn⟩ := hinv.layers l dp ly hl
      exact ⟨k', by omega, hdp, hn⟩
    · rw [if_neg hemp] at hl ⊢
      rw [List.getElem?_append] at hl
      split at hl
      · obtain ⟨k', hk', hdp, hn⟩ := hinv.layers l dp ly hl
        exact ⟨k', by omega, hdp, fun n hnm => ⟨((hn n hnm).1).mono _, (hn n hnm).2⟩⟩
      · rename_i hge
        have hlt := Cover.lt_of_getElem?_some hl
        simp only [List.length_singleton] at hlt
        have h0 : l - pd.layers.length = 0 := by omega
        rw [h0] at hl
        simp only [List.getElem?_cons_zero, Option.some.injEq, Prod.mk.injEq] at hl
        obtain ⟨rfl, rfl⟩ := hl
        have hl' : l = pd.plain.length := by rw [plain_length]; omega
        refine ⟨k, Nat.lt_succ_self _, hinv.depth, fun n hnm => ?_⟩
        obtain ⟨h1, h2⟩ := ParOkR.of_sub hrub.subS.toSub hpar n hnm
        exact ⟨hl' ▸ h1.mono _, fun he => (h2 he).2⟩
  · intro c hc hex
    rw [hpool] at hc
    obtain ⟨q, h1, h2, h3⟩ := hchild c hc hex
    refine ⟨q, ?_, h2, h3⟩
    rw [hplain, hlen']
    by_cases hemp : r.1.isEmpty = true
    · rw [if_pos hemp, if_pos hemp]
      have hnil : layer = [] := by
        have h4 := hrub.length
        rw [List.isEmpty_iff.1 hemp] at h4
        exact List.eq_nil_of_length_eq_zero h4.symm
      rw [hnil] at h1
      exact h1.drop_nil.of_le (.inr (by rw [plain_length]; exact Nat.le_refl _))
    · rw [if_neg hemp, if_neg hemp, ← plain_length]
      exact h1.of_keyEq (keyEq_of_rubEq pd.plain hrub)

theorem initPD_invR (cfg : Cfg S K) (B : Int) (R : Nat → S → Int → List Dec → Prop)
    (hB : NoClamp cfg.P cfg.R cfg.root.value B)
    (hroot : R cfg.root.depth cfg.root.state cfg.root.value [])
    (cache : Cache S) (store : DomStore S K) (polls : Nat) : MInvR cfg B R (initPD cfg cache store polls) 0 := by
  refine ⟨rfl, ?_, ?_⟩
  · intro l dp ly hl
    simp only [initPD, List.getElem?_nil] at hl
    cases hl
  · intro n hn
    simp only [initPD, List.mem_singleton] at hn
    subst hn
    intro _
    refine ⟨[], .root _, hroot, ?_⟩
    have := hB.root
    show -((((0 : Nat) : Int) + 1) * B) ≤ cfg.root.value ∧ cfg.root.value ≤ (((0 : Nat) : Int) + 1) * B
    rw [show (((0 : Nat) : Int) + 1) = 1 by rfl, Int.one_mul]
    exact this

theorem buildLoopP_invR (cfg : Cfg S K) (B : Int) (R : Nat → S → Int → List Dec → Prop) (hR : PathRel cfg.P R)
    (hB : NoClamp cfg.P cfg.R cfg.root.value B) (stopAt : Option Nat) :
    ∀ (fuel : Nat) (pd : PD S K) (k : Nat), MInvR cfg B R pd k → k + fuel ≤ cfg.P.nbVars + 2 →
      ∃ k', k' ≤ cfg.P.nbVars + 2 ∧ MInvR cfg B R (buildLoopP cfg stopAt fuel pd).1 k' ∧
        ((buildLoopP cfg stopAt fuel pd).2 = .ok → TerminalP cfg (buildLoopP cfg stopAt fuel pd).1) := by
  intro fuel
  induction fuel with
  | zero =>
    intro pd k hinv hk
    exact ⟨k, by omega, hinv, fun h => by cases h⟩
  | succ fuel ih =>
    intro pd k hinv hfuel
    cases buildLoopP_cases cfg stopAt fuel pd with
    | none hnv hb => rw [hb]; exact ⟨k, by omega, hinv.congr rfl rfl rfl, fun _ => .inr hnv⟩
    | cutoff var _ hb => rw [hb]; exact ⟨k, by omega, hinv.congr rfl rfl rfl, fun h => by cases h⟩
    | empty var _ hemp hb => rw [hb]; exact ⟨k, by omega, hinv.congr rfl rfl rfl, fun _ => .inl hemp⟩
    | crash var _ _ hb => rw [hb]; exact ⟨k, by omega, hinv.congr rfl rfl rfl, fun h => by cases h⟩
    | step var pd' hnv _ hst hb =>
      rw [hb]
      have hinv2 : MInvR cfg B R (polled cfg pd) k := hinv.congr rfl rfl rfl
      exact ih pd' (k + 1) (stepLayerP_invR cfg B R hR hB (polled cfg pd) pd' var k hinv2 hnv (by omega) hst) (by omega)

/-! ### the cut-set (C08 (i)) in `R` form -/

/-- `Pooled.finalizeP_cutset_exact` in `R` form: any `hasEBP` bit, from the exact-node invariant -/
theorem finalizeP_cutset_rel (cfg : Cfg S K) (B : Int) (R : Nat → S → Int → List Dec → Prop) (pd : PD S K) (k : Nat)
    (e : Bool) (hinv : MInvR cfg B R pd k) (c : SubP S) (hc : c ∈ (finalizePOld cfg pd e).cutset) :
    ∃ q, R c.depth c.state c.value q ∧ c.path = cfg.root.path ++ q.reverse := by
  obtain ⟨lp, n, hlp, hn, hs, hv, hd, hpath⟩ := finalizeP_cutset_mem cfg pd e c hc
  obtain ⟨n0, hn0, hex, _⟩ := computeCutset_frontier 0 _ lp hlp
  have hx := layers3P_xEq cfg pd e
  obtain ⟨n0', hn0', hsn⟩ := hx.getNode_some hn
  rw [hn0] at hn0'
  cases hn0'
  have e1 : n0.state = n.state := by have := congrArg Node.state hsn; simpa only [stripB] using this
  have e2 : n0.value = n.value := by have := congrArg Node.value hsn; simpa only [stripB] using this
  have e3 : n0.best = n.best := by have := congrArg Node.best hsn; simpa only [stripB] using this
  have e4 : n0.depth = n.depth := by have := congrArg Node.depth hsn; simpa only [stripB] using this
  have hlt : lp.1 < (layers3P cfg pd e).length := getNode_index_lt hn
  -- the chain and the path, in `pd.plain`
  have key : ∃ q l, l ≤ lp.1 ∧ BestChainP pd.plain l n0.best q ∧ R n0.depth n0.state n0.value q := by
    rcases getNode_layers0 pd hn0 with ⟨dp, ly, hl, hmem, _⟩ | ⟨hl, m, hm, rfl⟩
    · obtain ⟨k', _, hdp, hok⟩ := hinv.layers lp.1 dp ly hl
      obtain ⟨h1, h2⟩ := hok n0 hmem
      obtain ⟨q, hq, hr, _⟩ := h1 hex
      exact ⟨q, lp.1, Nat.le_refl _, hq, by rw [h2 hex, hdp]; exact hr⟩
    · obtain ⟨q, hq, hr, _⟩ := hinv.pool m hm hex
      exact ⟨q, pd.layers.length, by omega, hq, by dsimp only; rw [hinv.depth]; exact hr⟩
  obtain ⟨q, l, hl, hq, hr⟩ := key
  refine ⟨q, ?_, ?_⟩
  · rw [hs, hv, hd, ← e1, ← e2, ← e4]; exact hr
  · have hchain : BestChainP (layers3P cfg pd e) l n.best q := e3 ▸ (hq.mono [termsP pd]).of_xEq hx
    have := hchain.bestPath_eq n rfl ((layers3P cfg pd e).length + 1) (by omega)
    rw [hpath, ← this, List.reverse_reverse]

/-! ## 2. genuine arcs -/

theorem Ess.rfl' (a : Node S) : Ess a a := ⟨rfl, rfl, rfl, rfl, rfl, rfl⟩

/-- every node of `ly` is a node of `ly0` up to the fields `Ess` ignores -/
def SubG (ly ly0 : List (Node S)) : Prop := ∀ n ∈ ly, ∃ n0 ∈ ly0, Ess n0 n
/-- … for the nodes that are not flagged relaxed -/
def SubNE (ly ly0 : List (Node S)) : Prop := ∀ n ∈ ly, n.fRelaxed = false → ∃ n0 ∈ ly0, Ess n0 n

theorem SubG.refl (ly : List (Node S)) : SubG ly ly := fun n hn => ⟨n, hn, Ess.rfl' n⟩
theorem SubG.trans {a b c : List (Node S)} (h1 : SubG a b) (h2 : SubG b c) : SubG a c := fun n hn => by
  obtain ⟨n1, hn1, e1⟩ := h1 n hn
  obtain ⟨n2, hn2, e2⟩ := h2 n1 hn1
  exact ⟨n2, hn2, e2.trans e1⟩
theorem SubG.toNE {a b : List (Node S)} (h : SubG a b) : SubNE a b := fun n hn _ => h n hn
theorem SubNE.trans {a b c : List (Node S)} (h1 : SubNE a b) (h2 : SubG b c) : SubNE a c := fun n hn hr => by
  obtain ⟨n1, hn1, e1⟩ := h1 n hn hr
  obtain ⟨n2, hn2, e2⟩ := h2 n1 hn1
  exact ⟨n2, hn2, e2.trans e1⟩

theorem SubG.set {ly ly0 : List (Node S)} (h : SubG ly ly0) {p : Nat} {n n' : Node S} (hp : ly[p]? = some n)
    (he : Ess n n') : SubG (ly.set p n') ly0 := fun m hm => by
  rcases List.mem_or_eq_of_mem_set hm with hm | rfl
  · exact h m hm
  · obtain ⟨n0, h0, e0⟩ := h n (List.mem_of_getElem? hp)
    exact ⟨n0, h0, e0.trans he⟩

theorem filterCache_subG (cfg : Cfg S K) (cache : Cache S) (layer : List (Node S)) (cur : List Nat) :
    SubG (filterCache cfg cache layer cur).1 layer := by
  unfold filterCache
  refine foldl_inv (β := List (Node S) × List Nat) (fun acc => SubG acc.1 layer) _ _ _ ?_ ?_
  · exact SubG.refl _
  · rintro ⟨ly, keep⟩ p _ h
    dsimp only at h ⊢
    split
    · exact h
    · rename_i n hn
      split
      · split
        · exact h
        · exact h.set hn ⟨rfl, rfl, rfl, rfl, rfl, rfl⟩
      · exact h

theorem filterDom_subG (cfg : Cfg S K) (store : DomStore S K) (layer : List (Node S)) (cur : List Nat) :
    SubG (filterDom cfg store layer cur).1 layer := by
  unfold filterDom
  split
  · exact SubG.refl _
  · rename_i D _
    refine foldl_inv (β := List (Node S) × List Nat × DomStore S K × Bool) (fun acc => SubG acc.1 layer) _ _ _ ?_ ?_
    · exact SubG.refl _
    · rintro ⟨ly, keep, st, ok⟩ p _ h
      dsimp only at h ⊢
      split
      · exact h
      · rename_i n hn
        split
        · split
          · exact h
          · split
            · exact h.set hn ⟨rfl, rfl, rfl, rfl, rfl, rfl⟩
            · exact h
        · exact h

theorem restrictLayer_subG (cfg : Cfg S K) (layer : List (Node S)) (cur : List Nat) :
    SubG (restrictLayer cfg layer cur).1 layer := by
  unfold restrictLayer
  dsimp only
  refine foldl_inv (β := List (Node S)) (fun acc => SubG acc layer) _ _ _ ?_ ?_
  · exact SubG.refl _
  · intro ly p _ h
    split
    · rename_i n hn
      exact h.set hn ⟨rfl, rfl, rfl, rfl, rfl, rfl⟩
    · exact h

theorem curNodes_subG (cfg : Cfg S K) (pd : PD S K) (var : Nat) : SubG (curNodes cfg pd var) pd.pool := by
  intro n hn
  unfold curNodes at hn
  obtain ⟨m, hm, rfl⟩ := List.mem_map.1 hn
  exact ⟨m, (List.mem_filter.1 hm).1, rfl, rfl, rfl, rfl, rfl, rfl⟩

theorem fdOf_subG (cfg : Cfg S K) (pd : PD S K) (var : Nat) : SubG (fdOf cfg pd var).1 (curNodes cfg pd var) := by
  have hfc : SubG (fcOf cfg pd var).1 (curNodes cfg pd var) := by
    unfold fcOf
    split
    · exact SubG.refl _
    · exact filterCache_subG _ _ _ _
  exact (filterDom_subG cfg pd.store (fcOf cfg pd var).1 (fcOf cfg pd var).2).trans hfc

theorem squashCase_subNE (cfg : Cfg S K) (plain : List (List (Node S))) (nl : Nat) (ief0 : Bool)
    (fd : List (Node S) × List Nat × DomStore S K × Bool) (log0 : List (Call S))
    (layer : List (Node S)) (cur : List Nat) (ief : Bool) (log : List (Call S))
    (h : SquashCase cfg plain nl ief0 fd log0 layer cur ief log) : SubNE layer fd.1 := by
  cases h with
  | restrict _ _ hl _ _ _ => rw [hl]; exact (restrictLayer_subG cfg _ _).toNE
  | relax hc _ _ _ hl _ _ _ =>
    rw [hl]
    intro n hn hr
    obtain ⟨n0, h0, hs⟩ := relaxLayer_subN cfg plain fd.1 fd.2.1 log0 n hn hr
    exact ⟨n0, h0, ess_of_stripD hs⟩
  | keep _ _ hl _ _ _ => rw [hl]; exact (SubG.refl _).toNE

/-- an expansion of the empty layer does nothing -/
theorem expF_nil (cfg : Cfg S K) (var lidx : Nat) (rest : List (Node S)) (cur : List Nat) (log : List (Call S)) :
    expF cfg var lidx [] rest cur log = ([], rest, log) := by
  unfold expF
  induction cur with
  | nil => rfl
  | cons p ps ih =>
    rw [List.foldl_cons]
    have : expandOne cfg var lidx (([] : List (Node S)), rest, log) p = ([], rest, log) := by
      unfold expandOne
      simp only [List.getElem?_nil]
    rw [this]
    exact ih

theorem getNode_mapSnd {LF : List (Nat × List (Node S))} {l p dp : Nat} {ly : List (Node S)} {n : Node S}
    (h1 : LF[l]? = some (dp, ly)) (h2 : ly[p]? = some n) : getNode (LF.map (·.2)) l p = some n := by
  unfold getNode
  rw [List.getElem?_map, h1]
  exact h2

theorem mapSnd_of_getNode {LF : List (Nat × List (Node S))} {l p : Nat} {n : Node S}
    (h : getNode (LF.map (·.2)) l p = some n) : ∃ dp ly, LF[l]? = some (dp, ly) ∧ ly[p]? = some n := by
  obtain ⟨ly, h1, h2⟩ := Cover.getNode_lt h
  rw [List.getElem?_map] at h1
  cases hl : LF[l]? with
  | none => rw [hl] at h1; cases h1
  | some dl =>
    rw [hl] at h1
    simp only [Option.map_some, Option.some.injEq] at h1
    exact ⟨dl.1, dl.2, rfl, h1 ▸ h2⟩

/-- **one genuine inbound arc** `a` of a node of state `s` located `k` iterations below the root of the compilation (all its
    ancestors in layers of index `< l`): its source `par` sits in the materialised layer `a.fromL`, of recorded depth
    `root.depth + k'` with `k' < k`; its cost is bounded; and when `par` is not flagged relaxed, `R` is transferred from
    `par` (at the depth of its layer) to `s` (at depth `root.depth + k`) along the arc — the transition of the model followed
    by the skips of the iterations during which the node lingered in the pool -/
def ArcOkP (cfg : Cfg S K) (B : Int) (R : Nat → S → Int → List Dec → Prop) (LF : List (Nat × List (Node S))) (l k : Nat)
    (s : S) (a : Arc) : Prop :=
  a.fromL < l ∧ (-B ≤ a.cost ∧ a.cost ≤ B) ∧
  ∃ (k' : Nat) (lyp : List (Node S)) (par : Node S), k' < k ∧ LF[a.fromL]? = some (cfg.root.depth + k', lyp) ∧
    lyp[a.fromP]? = some par ∧
    (par.fRelaxed = false → ∀ v q, R (cfg.root.depth + k') par.state v q →
      R (cfg.root.depth + k) s (v + a.cost) (q ++ [a.dec]))

/-- **a node that is not flagged relaxed has genuine arcs**: without `best` arc it is the root of the compilation (lingering
    in the pool, possibly with arcs of smaller value), `R`-reached with its value by the empty path; otherwise its `best` arc
    is one of its inbound arcs and attains its value; every inbound arc is genuine (`ArcOkP`) -/
def GOkP (cfg : Cfg S K) (B : Int) (R : Nat → S → Int → List Dec → Prop) (LF : List (Nat × List (Node S))) (l k : Nat)
    (n : Node S) : Prop :=
  n.fRelaxed = false →
    (n.best = none → R (cfg.root.depth + k) n.state n.value [] ∧ Bnd B k n.value) ∧
    (∀ a0, n.best = some a0 → a0 ∈ n.inb ∧
      ∃ par, getNode (LF.map (·.2)) a0.fromL a0.fromP = some par ∧ n.value = satAdd par.value a0.cost) ∧
    ∀ a ∈ n.inb, ArcOkP cfg B R LF l k n.state a

theorem ArcOkP.mono {cfg : Cfg S K} {B : Int} {R : Nat → S → Int → List Dec → Prop} {LF : List (Nat × List (Node S))}
    {l k : Nat} {s : S} {a : Arc} (h : ArcOkP cfg B R LF l k s a) (more : List (Nat × List (Node S))) {l' : Nat}
    (hl : l ≤ l') : ArcOkP cfg B R (LF ++ more) l' k s a := by
  obtain ⟨h1, h2, k', lyp, par, h3, h4, h5, h6⟩ := h
  refine ⟨by omega, h2, k', lyp, par, h3, ?_, h5, h6⟩
  rw [List.getElem?_append_left (Cover.lt_of_getElem?_some h4)]
  exact h4

theorem ArcOkP.skip {cfg : Cfg S K} {B : Int} {R : Nat → S → Int → List Dec → Prop} (hR : PathRel cfg.P R)
    {LF : List (Nat × List (Node S))} {l k : Nat} {s : S} {a : Arc} (h : ArcOkP cfg B R LF l k s a)
    {L : List S} {var : Nat} (hnv : cfg.P.nextVar (cfg.root.depth + k) L = some var) (hs : s ∈ L)
    (hi : cfg.P.impacted var s = false) : ArcOkP cfg B R LF l (k + 1) s a := by
  obtain ⟨h1, h2, k', lyp, par, h3, h4, h5, h6⟩ := h
  refine ⟨h1, h2, k', lyp, par, by omega, h4, h5, fun hr v q hv => ?_⟩
  exact hR.skip _ _ _ _ L var (h6 hr v q hv) hnv hs hi

theorem ArcOkP.of_rubEq {cfg : Cfg S K} {B : Int} {R : Nat → S → Int → List Dec → Prop} {LF : List (Nat × List (Node S))}
    {dp l k : Nat} {s : S} {a : Arc} {ly0 lyF : List (Node S)} (hrub : RubEq lyF ly0)
    (h : ArcOkP cfg B R (LF ++ [(dp, ly0)]) l k s a) : ArcOkP cfg B R (LF ++ [(dp, lyF)]) l k s a := by
  obtain ⟨h1, h2, k', lyp, par, h3, h4, h5, h6⟩ := h
  rcases getElem?_append_singleton_cases h4 with h4 | ⟨hfl, h4'⟩
  · refine ⟨h1, h2, k', lyp, par, h3, ?_, h5, h6⟩
    rw [List.getElem?_append_left (Cover.lt_of_getElem?_some h4)]
    exact h4
  · simp only [Prod.mk.injEq] at h4'
    obtain ⟨hdp, rfl⟩ := h4'
    obtain ⟨parF, hpF, hsF⟩ := hrub.get' h5
    have eF := ess_of_stripRub hsF
    refine ⟨h1, h2, k', lyF, parF, h3, ?_, hpF, ?_⟩
    · rw [hfl, hdp]; exact List.getElem?_concat_length
    · intro hr v q hv
      rw [← eF.1] at hv
      exact h6 (eF.2.2.2.2.1.trans hr) v q hv

theorem GOkP.of_ess {cfg : Cfg S K} {B : Int} {R : Nat → S → Int → List Dec → Prop} {LF : List (Nat × List (Node S))}
    {l k : Nat} {n0 n : Node S} (h : GOkP cfg B R LF l k n0) (he : Ess n0 n) : GOkP cfg B R LF l k n := by
  obtain ⟨e1, e2, e3, e4, e5, e6⟩ := he
  intro hr
  obtain ⟨c1, c2, c3⟩ := h (e5.trans hr)
  refine ⟨fun hb => ?_, fun a0 hb => ?_, fun a ha => ?_⟩
  · rw [← e1, ← e2]; exact c1 (e3.trans hb)
  · rw [← e2, ← e4]; exact c2 a0 (e3.trans hb)
  · rw [← e1]; exact c3 a (e4 ▸ ha)

theorem GOkP.mono {cfg : Cfg S K} {B : Int} {R : Nat → S → Int → List Dec → Prop} {LF : List (Nat × List (Node S))}
    {l k : Nat} {n : Node S} (h : GOkP cfg B R LF l k n) (more : List (Nat × List (Node S))) {l' : Nat} (hl : l ≤ l') :
    GOkP cfg B R (LF ++ more) l' k n := by
  intro hr
  obtain ⟨c1, c2, c3⟩ := h hr
  refine ⟨c1, fun a0 hb => ?_, fun a ha => (c3 a ha).mono more hl⟩
  obtain ⟨h1, par, h2, h3⟩ := c2 a0 hb
  refine ⟨h1, par, ?_, h3⟩
  rw [List.map_append]
  exact getNode_append_left _ _ _ _ _ h2

theorem GOkP.skip {cfg : Cfg S K} {B : Int} {R : Nat → S → Int → List Dec → Prop} (hR : PathRel cfg.P R)
    (hB : 0 ≤ B) {LF : List (Nat × List (Node S))} {l k : Nat} {n : Node S} (h : GOkP cfg B R LF l k n)
    {L : List S} {var : Nat} (hnv : cfg.P.nextVar (cfg.root.depth + k) L = some var) (hs : n.state ∈ L)
    (hi : cfg.P.impacted var n.state = false) : GOkP cfg B R LF l (k + 1) n := by
  intro hr
  obtain ⟨c1, c2, c3⟩ := h hr
  refine ⟨fun hb => ?_, c2, fun a ha => (c3 a ha).skip hR hnv hs hi⟩
  obtain ⟨h1, h2⟩ := c1 hb
  exact ⟨hR.skip _ _ _ _ L var h1 hnv hs hi, h2.mono hB (by omega)⟩

theorem GOkP.of_rubEq {cfg : Cfg S K} {B : Int} {R : Nat → S → Int → List Dec → Prop} {LF : List (Nat × List (Node S))}
    {dp l k : Nat} {n : Node S} {ly0 lyF : List (Node S)} (hrub : RubEq lyF ly0)
    (h : GOkP cfg B R (LF ++ [(dp, ly0)]) l k n) : GOkP cfg B R (LF ++ [(dp, lyF)]) l k n := by
  intro hr
  obtain ⟨c1, c2, c3⟩ := h hr
  refine ⟨c1, fun a0 hb => ?_, fun a ha => (c3 a ha).of_rubEq hrub⟩
  obtain ⟨h1, par, h2, h3⟩ := c2 a0 hb
  have hk := (keyEq_of_rubEq (LF.map (·.2)) hrub).getNode a0.fromL a0.fromP
  rw [List.map_append, List.map_cons, List.map_nil] at h2 ⊢
  rw [h2] at hk
  cases hg : getNode (LF.map (·.2) ++ [lyF]) a0.fromL a0.fromP with
  | none => rw [hg] at hk; cases hk
  | some parF =>
    rw [hg] at hk
    simp only [Option.map_some, Option.some.injEq, bv, Prod.mk.injEq] at hk
    exact ⟨h1, parF, rfl, by rw [h3, hk.1]⟩

theorem getNode_mapLast (LF : List (Nat × List (Node S))) (dp : Nat) (ly : List (Node S)) (p : Nat) :
    getNode ((LF ++ [(dp, ly)]).map (·.2)) LF.length p = ly[p]? := by
  rw [List.map_append, List.map_cons, List.map_nil]
  have := Cover.getNode_last (LF.map (·.2)) ly p
  rw [List.length_map] at this
  exact this

/-- the child obtained by `appendEdge` from a parent of the layer (index `LF.length`, iteration `k`) has genuine arcs one
    iteration further; `L` = the pool states handed to `nextVar` -/
theorem gOkP_appendEdge (cfg : Cfg S K) (B : Int) (R : Nat → S → Int → List Dec → Prop) (hR : PathRel cfg.P R)
    (hB : NoClamp cfg.P cfg.R cfg.root.value B)
    (LF : List (Nat × List (Node S))) (k : Nat) (ly0 : List (Node S)) (L : List S) (var : Nat)
    (hnv : cfg.P.nextVar (cfg.root.depth + k) L = some var)
    (p : Nat) (n0 par : Node S) (h0 : ly0[p]? = some n0) (hinL : n0.fRelaxed = false → n0.state ∈ L)
    (hs : stripRub n0 = stripRub par) (d : Int) (hd : d ∈ cfg.P.domain var par.state)
    (m : Node S)
    (hm : GOkP cfg B R (LF ++ [(cfg.root.depth + k, ly0)]) (LF.length + 1) (k + 1) m ∨ m = freshNode cfg par ⟨var, d⟩)
    (hms : m.state = cfg.P.trans par.state ⟨var, d⟩) :
    GOkP cfg B R (LF ++ [(cfg.root.depth + k, ly0)]) (LF.length + 1) (k + 1) (appendEdge par m
      ⟨LF.length, p, ⟨var, d⟩, cfg.P.cost par.state (cfg.P.trans par.state ⟨var, d⟩) ⟨var, d⟩⟩) := by
  intro hr
  rw [appendEdge_fRelaxed] at hr
  obtain ⟨_, hst, hv, _, _⟩ := stripRub_core hs
  -- the new arc
  have hnew : ArcOkP cfg B R (LF ++ [(cfg.root.depth + k, ly0)]) (LF.length + 1) (k + 1) m.state
      ⟨LF.length, p, ⟨var, d⟩, cfg.P.cost par.state (cfg.P.trans par.state ⟨var, d⟩) ⟨var, d⟩⟩ := by
    refine ⟨Nat.lt_succ_self _, hB.cost _ _ _, k, ly0, n0, Nat.lt_succ_self _, List.getElem?_concat_length, h0, ?_⟩
    intro hfr v q hvq
    have hstep := hR.step _ _ _ _ L var d hvq hnv (hinL hfr) (hst ▸ hd)
    rw [hst] at hstep
    rw [hms]
    exact hstep
  -- what is known of `m`
  have hmG : m = freshNode cfg par ⟨var, d⟩ ∨
      ((m.best = none → R (cfg.root.depth + (k + 1)) m.state m.value [] ∧ Bnd B (k + 1) m.value) ∧
      (∀ a0, m.best = some a0 → a0 ∈ m.inb ∧
        ∃ par', getNode ((LF ++ [(cfg.root.depth + k, ly0)]).map (·.2)) a0.fromL a0.fromP = some par' ∧
          m.value = satAdd par'.value a0.cost) ∧
      ∀ a ∈ m.inb, ArcOkP cfg B R (LF ++ [(cfg.root.depth + k, ly0)]) (LF.length + 1) (k + 1) m.state a) := by
    rcases hm with hm | hm
    · exact .inr (hm hr)
    · exact .inl hm
  rw [Ddo.appendEdge_state, Ddo.appendEdge_inb]
  have harcs : ∀ a ∈ (⟨LF.length, p, ⟨var, d⟩, cfg.P.cost par.state (cfg.P.trans par.state ⟨var, d⟩) ⟨var, d⟩⟩ : Arc) :: m.inb,
      ArcOkP cfg B R (LF ++ [(cfg.root.depth + k, ly0)]) (LF.length + 1) (k + 1) m.state a := by
    intro a ha
    rcases List.mem_cons.1 ha with rfl | ha
    · exact hnew
    · rcases hmG with hmG | hmG
      · rw [hmG] at ha; simp only [freshNode] at ha; cases ha
      · exact hmG.2.2 a ha
  rcases appendEdge_best_value par m
    ⟨LF.length, p, ⟨var, d⟩, cfg.P.cost par.state (cfg.P.trans par.state ⟨var, d⟩) ⟨var, d⟩⟩ with
      ⟨_, hbest, hval⟩ | ⟨hlt, hbest, hval⟩
  · refine ⟨fun hb => ?_, fun a0 hb => ?_, harcs⟩
    · rw [hbest] at hb; cases hb
    · rw [hbest] at hb
      simp only [Option.some.injEq] at hb
      subst hb
      refine ⟨List.mem_cons_self, n0, ?_, ?_⟩
      · dsimp only
        rw [getNode_mapLast]
        exact h0
      · rw [hval, hv]
  · rcases hmG with hmG | hmG
    · exfalso
      apply hlt
      rw [hmG]
      simp only [freshNode]
      exact Int.le_refl _
    · rw [hbest, hval]
      refine ⟨hmG.1, fun a0 hb => ?_, harcs⟩
      obtain ⟨h1, h2⟩ := hmG.2.1 a0 hb
      exact ⟨List.mem_cons_of_mem _ h1, h2⟩

/-- invariant of the pooled expansion for the genuine arcs -/
structure GInvP (cfg : Cfg S K) (B : Int) (R : Nat → S → Int → List Dec → Prop) (LF : List (Nat × List (Node S)))
    (ly0 : List (Node S)) (k : Nat) (acc : List (Node S) × List (Node S) × List (Call S)) : Prop where
  rub : RubEq acc.1 ly0
  child : ∀ c ∈ acc.2.1, GOkP cfg B R (LF ++ [(cfg.root.depth + k, ly0)]) (LF.length + 1) (k + 1) c

theorem expandOneP_ginv (cfg : Cfg S K) (B : Int) (R : Nat → S → Int → List Dec → Prop) (hR : PathRel cfg.P R)
    (hB : NoClamp cfg.P cfg.R cfg.root.value B)
    (LF : List (Nat × List (Node S))) (k : Nat) (ly0 : List (Node S)) (L : List S) (var : Nat)
    (hnv : cfg.P.nextVar (cfg.root.depth + k) L = some var)
    (hpar : ∀ n ∈ ly0, n.fRelaxed = false → n.state ∈ L)
    (acc : List (Node S) × List (Node S) × List (Call S)) (p : Nat) (h : GInvP cfg B R LF ly0 k acc) :
    GInvP cfg B R LF ly0 k (expandOne cfg var LF.length acc p) := by
  obtain ⟨ly, nx, lg⟩ := acc
  unfold expandOne
  dsimp only
  split
  · exact h
  · rename_i n hn
    obtain ⟨n0, h0, hs⟩ := h.rub.get hn
    have hrub : RubEq (ly.set p { n with rub := cfg.R.rub n.state }) ly0 := h.rub.set hn rfl
    split
    · have hs' : stripRub n0 = stripRub { n with rub := cfg.R.rub n.state } := hs
      generalize hpar' : ({ n with rub := cfg.R.rub n.state } : Node S) = par at hs' hrub ⊢
      have hst : n.state = par.state := by rw [← hpar']
      simp only [hst]
      refine ⟨hrub, ?_⟩
      refine foldl_inv (β := List (Node S) × List (Call S))
        (fun acc => ∀ c ∈ acc.1, GOkP cfg B R (LF ++ [(cfg.root.depth + k, ly0)]) (LF.length + 1) (k + 1) c)
        _ _ _ h.child ?_
      rintro ⟨nx', lg'⟩ d hd ih1
      dsimp only at ih1 ⊢
      intro c hc
      rcases branchOn_mem cfg par LF.length p ⟨var, d⟩ nx' c hc with hc | ⟨m, hm, hms, rfl⟩
      · exact ih1 c hc
      · refine gOkP_appendEdge cfg B R hR hB LF k ly0 L var hnv p n0 par h0
          (hpar n0 (List.mem_of_getElem? h0)) hs' d hd m ?_ hms
        rcases hm with hm | hm
        · exact .inl (ih1 m hm)
        · exact .inr hm
    · exact ⟨hrub, h.child⟩

theorem expFP_ginv (cfg : Cfg S K) (B : Int) (R : Nat → S → Int → List Dec → Prop) (hR : PathRel cfg.P R)
    (hB : NoClamp cfg.P cfg.R cfg.root.value B)
    (LF : List (Nat × List (Node S))) (k : Nat) (ly0 : List (Node S)) (L : List S) (var : Nat) (rest : List (Node S))
    (hnv : cfg.P.nextVar (cfg.root.depth + k) L = some var)
    (hpar : ∀ n ∈ ly0, n.fRelaxed = false → n.state ∈ L)
    (hrest : ∀ c ∈ rest, GOkP cfg B R (LF ++ [(cfg.root.depth + k, ly0)]) (LF.length + 1) (k + 1) c)
    (cur : List Nat) (log : List (Call S)) :
    GInvP cfg B R LF ly0 k (expF cfg var LF.length ly0 rest cur log) := by
  unfold expF
  refine foldl_inv (GInvP cfg B R LF ly0 k) _ _ _ ⟨RubEq.refl _, hrest⟩ ?_
  intro acc p _ h
  exact expandOneP_ginv cfg B R hR hB LF k ly0 L var hnv hpar acc p h

/-- **the genuine-arc invariant of the top-down build of the pooled diagram**, `k` = number of completed iterations: the
    nodes of a materialised layer are located at the iteration recorded with the layer, the pool nodes at the current one -/
structure G2P (cfg : Cfg S K) (B : Int) (R : Nat → S → Int → List Dec → Prop) (pd : PD S K) (k : Nat) : Prop where
  depth : pd.depth = cfg.root.depth + k
  layers : ∀ (l dp : Nat) (ly : List (Node S)), pd.layers[l]? = some (dp, ly) →
    ∃ k', k' < k ∧ dp = cfg.root.depth + k' ∧ ∀ n ∈ ly, GOkP cfg B R pd.layers l k' n
  pool : ∀ n ∈ pd.pool, GOkP cfg B R pd.layers pd.layers.length k n

theorem G2P.congr {cfg : Cfg S K} {B : Int} {R : Nat → S → Int → List Dec → Prop} {pd pd' : PD S K} {k : Nat}
    (h : G2P cfg B R pd k) (hl : pd'.layers = pd.layers) (hn : pd'.pool = pd.pool) (hd : pd'.depth = pd.depth) :
    G2P cfg B R pd' k := by
  obtain ⟨h0, h1, h2⟩ := h
  exact ⟨hd ▸ h0, hl ▸ h1, hl ▸ hn ▸ h2⟩

theorem stepLayerP_g2 (cfg : Cfg S K) (B : Int) (R : Nat → S → Int → List Dec → Prop) (hR : PathRel cfg.P R)
    (hB : NoClamp cfg.P cfg.R cfg.root.value B)
    (pd pd' : PD S K) (var k : Nat) (hG : G2P cfg B R pd k)
    (hnv : cfg.P.nextVar pd.depth (pd.pool.map (·.state)) = some var)
    (h : stepLayerP cfg pd var = some pd') : G2P cfg B R pd' (k + 1) := by
  obtain ⟨layer, cur, ief, log, hs⟩ := stepLayerP_elim cfg pd pd' var h
  have hnv' : cfg.P.nextVar (cfg.root.depth + k) (pd.pool.map (·.state)) = some var := hG.depth ▸ hnv
  -- a node of the squashed layer that is not flagged relaxed is a pool node
  have hback : SubNE layer pd.pool :=
    (squashCase_subNE cfg _ _ _ _ _ _ _ _ _ hs.sq).trans ((fdOf_subG cfg pd var).trans (curNodes_subG cfg pd var))
  have hpar : ∀ n ∈ layer, n.fRelaxed = false → n.state ∈ pd.pool.map (·.state) := by
    intro n hn hr
    obtain ⟨m, hm, e⟩ := hback n hn hr
    exact List.mem_map.2 ⟨m, hm, e.1⟩
  -- the skipped pool nodes
  have hskip : ∀ c ∈ restNodes cfg pd var, GOkP cfg B R pd.layers pd.layers.length (k + 1) c := by
    intro c hc
    obtain ⟨hcp, himp⟩ := mem_restNodes hc
    exact (hG.pool c hcp).skip hR hB.nonneg hnv' (List.mem_map.2 ⟨c, hcp, rfl⟩) himp
  have hold : ∀ (l dp : Nat) (ly : List (Node S)) (more : List (Nat × List (Node S))), pd.layers[l]? = some (dp, ly) →
      ∃ k', k' < k + 1 ∧ dp = cfg.root.depth + k' ∧ ∀ n ∈ ly, GOkP cfg B R (pd.layers ++ more) l k' n := by
    intro l dp ly more hl
    obtain ⟨k', hk', hdp, hn⟩ := hG.layers l dp ly hl
    exact ⟨k', by omega, hdp, fun n hnm => (hn n hnm).mono more (Nat.le_refl _)⟩
  by_cases hnil : layer = []
  · -- nothing is materialised
    have hr : expF cfg var pd.layers.length layer (restNodes cfg pd var) cur log = ([], restNodes cfg pd var, log) := by
      rw [hnil]; exact expF_nil cfg var _ _ cur log
    have hlayers := hs.layers
    have hpool := hs.pool
    rw [hr] at hlayers hpool
    simp only [List.isEmpty_nil, if_true] at hlayers
    dsimp only at hpool
    refine ⟨by rw [hs.depth, hG.depth]; omega, ?_, ?_⟩
    · intro l dp ly hl
      rw [hlayers] at hl ⊢
      have := hold l dp ly [] hl
      rw [List.append_nil] at this
      exact this
    · rw [hpool, hlayers]
      exact hskip
  · have hrest : ∀ c ∈ restNodes cfg pd var,
        GOkP cfg B R (pd.layers ++ [(cfg.root.depth + k, layer)]) (pd.layers.length + 1) (k + 1) c :=
      fun c hc => (hskip c hc).mono _ (Nat.le_succ _)
    have hE := expFP_ginv cfg B R hR hB pd.layers k layer (pd.pool.map (·.state)) var (restNodes cfg pd var)
      hnv' hpar hrest cur log
    have hlayers := hs.layers
    have hpool := hs.pool
    generalize expF cfg var pd.layers.length layer (restNodes cfg pd var) cur log = r at hE hlayers hpool
    obtain ⟨hrub, hchild⟩ := hE
    have hne : r.1.isEmpty = false := by
      cases hr1 : r.1 with
      | nil =>
        have h4 := hrub.length
        rw [hr1] at h4
        exact absurd (List.eq_nil_of_length_eq_zero h4.symm) hnil
      | cons _ _ => rfl
    rw [hne] at hlayers
    simp only [Bool.false_eq_true, if_false] at hlayers
    rw [hG.depth] at hlayers
    refine ⟨by rw [hs.depth, hG.depth]; omega, ?_, ?_⟩
    · intro l dp ly hl
      rw [hlayers] at hl ⊢
      rcases getElem?_append_singleton_cases hl with hl | ⟨hll, hl'⟩
      · exact hold l dp ly _ hl
      · simp only [Prod.mk.injEq] at hl'
        obtain ⟨rfl, rfl⟩ := hl'
        refine ⟨k, Nat.lt_succ_self _, rfl, fun n hnm hr => ?_⟩
        obtain ⟨i, hi⟩ := List.mem_iff_getElem?.1 hnm
        obtain ⟨n0, h0, hs0⟩ := hrub.get hi
        have e0 := ess_of_stripRub hs0
        obtain ⟨m, hm, e⟩ := hback n0 (List.mem_of_getElem? h0) (e0.2.2.2.2.1.trans hr)
        rw [hll]
        exact (((hG.pool m hm).of_ess (e.trans e0)).mono _ (Nat.le_refl _)) hr
    · intro c hc
      rw [hpool] at hc
      rw [hlayers, List.length_append, List.length_singleton]
      exact (hchild c hc).of_rubEq hrub

theorem initPD_g2 (cfg : Cfg S K) (B : Int) (R : Nat → S → Int → List Dec → Prop)
    (hB : NoClamp cfg.P cfg.R cfg.root.value B)
    (hroot : R cfg.root.depth cfg.root.state cfg.root.value [])
    (cache : Cache S) (store : DomStore S K) (polls : Nat) : G2P cfg B R (initPD cfg cache store polls) 0 := by
  refine ⟨rfl, ?_, ?_⟩
  · intro l dp ly hl
    simp only [initPD, List.getElem?_nil] at hl
    cases hl
  · intro n hn
    simp only [initPD, List.mem_singleton] at hn
    subst hn
    intro _
    refine ⟨fun _ => ⟨hroot, ?_⟩, fun a0 hb => (by cases hb), fun a ha => (by cases ha)⟩
    have := hB.root
    show -((((0 : Nat) : Int) + 1) * B) ≤ cfg.root.value ∧ cfg.root.value ≤ (((0 : Nat) : Int) + 1) * B
    rw [show (((0 : Nat) : Int) + 1) = 1 by rfl, Int.one_mul]
    exact this

/-! ### the whole loop -/

/-- the two invariants of the top-down build -/
structure TInv (cfg : Cfg S K) (B : Int) (R : Nat → S → Int → List Dec → Prop) (pd : PD S K) (k : Nat) : Prop where
  ex : MInvR cfg B R pd k
  gen : G2P cfg B R pd k

theorem TInv.congr {cfg : Cfg S K} {B : Int} {R : Nat → S → Int → List Dec → Prop} {pd pd' : PD S K} {k : Nat}
    (h : TInv cfg B R pd k) (hl : pd'.layers = pd.layers) (hn : pd'.pool = pd.pool) (hd : pd'.depth = pd.depth) :
    TInv cfg B R pd' k := ⟨h.ex.congr hl hn hd, h.gen.congr hl hn hd⟩

theorem buildLoopP_tinv (cfg : Cfg S K) (B : Int) (R : Nat → S → Int → List Dec → Prop) (hR : PathRel cfg.P R)
    (hB : NoClamp cfg.P cfg.R cfg.root.value B) (stopAt : Option Nat) :
    ∀ (fuel : Nat) (pd : PD S K) (k : Nat), TInv cfg B R pd k → k + fuel ≤ cfg.P.nbVars + 2 →
      ∃ k', k' ≤ cfg.P.nbVars + 2 ∧ TInv cfg B R (buildLoopP cfg stopAt fuel pd).1 k' ∧
        ((buildLoopP cfg stopAt fuel pd).2 = .ok → TerminalP cfg (buildLoopP cfg stopAt fuel pd).1) := by
  intro fuel
  induction fuel with
  | zero =>
    intro pd k hinv hk
    exact ⟨k, by omega, hinv, fun h => by cases h⟩
  | succ fuel ih =>
    intro pd k hinv hfuel
    cases buildLoopP_cases cfg stopAt fuel pd with
    | none hnv hb => rw [hb]; exact ⟨k, by omega, hinv.congr rfl rfl rfl, fun _ => .inr hnv⟩
    | cutoff var _ hb => rw [hb]; exact ⟨k, by omega, hinv.congr rfl rfl rfl, fun h => by cases h⟩
    | empty var _ hemp hb => rw [hb]; exact ⟨k, by omega, hinv.congr rfl rfl rfl, fun _ => .inl hemp⟩
    | crash var _ _ hb => rw [hb]; exact ⟨k, by omega, hinv.congr rfl rfl rfl, fun h => by cases h⟩
    | step var pd' hnv _ hst hb =>
      rw [hb]
      have hinv2 : TInv cfg B R (polled cfg pd) k := hinv.congr rfl rfl rfl
      refine ih pd' (k + 1) ⟨?_, ?_⟩ (by omega)
      · exact stepLayerP_invR cfg B R hR hB (polled cfg pd) pd' var k hinv2.ex hnv (by omega) hst
      · exact stepLayerP_g2 cfg B R hR hB (polled cfg pd) pd' var k hinv2.gen hnv hst

theorem initPD_tinv (cfg : Cfg S K) (B : Int) (R : Nat → S → Int → List Dec → Prop)
    (hB : NoClamp cfg.P cfg.R cfg.root.value B)
    (hroot : R cfg.root.depth cfg.root.state cfg.root.value [])
    (cache : Cache S) (store : DomStore S K) (polls : Nat) : TInv cfg B R (initPD cfg cache store polls) 0 :=
  ⟨initPD_invR cfg B R hB hroot cache store polls, initPD_g2 cfg B R hB hroot cache store polls⟩

/-! ## 3. `ebpAll` ⇒ reached -/

/-- the facts about the finished diagram `LF` (all layers with their recorded depths, the terminal layer included) -/
structure FinOkP (cfg : Cfg S K) (B : Int) (R : Nat → S → Int → List Dec → Prop) (LF : List (Nat × List (Node S))) :
    Prop where
  ok : ∀ (l dp : Nat) (ly : List (Node S)), LF[l]? = some (dp, ly) →
    ∃ k, k ≤ cfg.P.nbVars + 2 ∧ dp = cfg.root.depth + k ∧
      ∀ n ∈ ly, NodeOkR cfg B R (LF.map (·.2)) l k n ∧ GOkP cfg B R LF l k n

/-- the final diagram of a pooled compilation: the pool becomes the last layer, at the current depth -/
def finalLF (pd : PD S K) : List (Nat × List (Node S)) := pd.layers ++ [(pd.depth, termsP pd)]

theorem finalLF_plain (pd : PD S K) : (finalLF pd).map (·.2) = pd.plain ++ [termsP pd] := by
  unfold finalLF PD.plain
  rw [List.map_append]
  rfl

theorem finOkP_of_tinv {cfg : Cfg S K} {B : Int} {R : Nat → S → Int → List Dec → Prop} {pd : PD S K} {k : Nat}
    (h : TInv cfg B R pd k) (hk : k ≤ cfg.P.nbVars + 2) : FinOkP cfg B R (finalLF pd) := by
  refine ⟨fun l dp ly hl => ?_⟩
  rw [finalLF_plain]
  unfold finalLF at hl ⊢
  rcases getElem?_append_singleton_cases hl with hl | ⟨hll, hl'⟩
  · obtain ⟨k1, hk1, hdp1, hn1⟩ := h.ex.layers l dp ly hl
    obtain ⟨k2, hk2, hdp2, hn2⟩ := h.gen.layers l dp ly hl
    have : k2 = k1 := by omega
    subst this
    exact ⟨k2, by omega, hdp1, fun n hn => ⟨(hn1 n hn).1.mono _, (hn2 n hn).mono _ (Nat.le_refl _)⟩⟩
  · simp only [Prod.mk.injEq] at hl'
    obtain ⟨rfl, rfl⟩ := hl'
    refine ⟨k, hk, h.ex.depth, fun n hn => ?_⟩
    obtain ⟨m, hm, rfl⟩ := mem_termsP hn
    rw [hll]
    exact ⟨((h.ex.pool m hm).of_core (fun h => h) rfl rfl rfl).mono _,
      ((h.gen.pool m hm).of_ess ⟨rfl, rfl, rfl, rfl, rfl, rfl⟩).mono _ (Nat.le_refl _)⟩

/-- **every** resolution of the ties gives an exact best path ⇒ the `best` chain of the node `R`-reaches it with its value,
    at the depth of its layer -/
theorem ebpAll_reachP (cfg : Cfg S K) (B : Int) (R : Nat → S → Int → List Dec → Prop)
    (hB : NoClamp cfg.P cfg.R cfg.root.value B) (LF : List (Nat × List (Node S))) (hF : FinOkP cfg B R LF) :
    ∀ (fuel l k : Nat) (ly : List (Node S)) (n : Node S), LF[l]? = some (cfg.root.depth + k, ly) → n ∈ ly →
      ebpAll (LF.map (·.2)) fuel n = true → SelfR cfg B R (LF.map (·.2)) l k n := by
  have hloc : ∀ (l k : Nat) (ly : List (Node S)) (n : Node S), LF[l]? = some (cfg.root.depth + k, ly) → n ∈ ly →
      k ≤ cfg.P.nbVars + 2 ∧ NodeOkR cfg B R (LF.map (·.2)) l k n ∧ GOkP cfg B R LF l k n := by
    intro l k ly n hly hn
    obtain ⟨k0, hk0, hdp, hall⟩ := hF.ok l _ ly hly
    have : k0 = k := by omega
    subst this
    exact ⟨hk0, hall n hn⟩
  intro fuel
  induction fuel with
  | zero =>
    intro l k ly n hly hn h
    exact (hloc l k ly n hly hn).2.1 (by simpa [ebpAll] using h)
  | succ fuel ih =>
    intro l k ly n hly hn h
    obtain ⟨hk, hex, hgen⟩ := hloc l k ly n hly hn
    by_cases hx : n.isExact = true
    · exact hex hx
    · have hr := ebpAll_fRelaxed h
      obtain ⟨c1, c2, c3⟩ := hgen hr
      cases hb0 : n.best with
      | none =>
        obtain ⟨h1, h2⟩ := c1 hb0
        exact ⟨[], hb0 ▸ .root l, h1, h2⟩
      | some a0 =>
        simp only [ebpAll, hb0, Bool.or_eq_true, Bool.and_eq_true, List.all_eq_true] at h
        rcases h with h | ⟨_, hall⟩
        · exact absurd h hx
        · obtain ⟨ha0, par0, hg0, hv0⟩ := c2 a0 hb0
          obtain ⟨hfl, hcost, k', lyp, par, hk', hlyp, hpar, htr⟩ := c3 a0 ha0
          have hg' := getNode_mapSnd hlyp hpar
          rw [hg0] at hg'
          cases hg'
          have hpe := hall par0 (mem_argmaxParents.mpr ⟨a0, ha0, hg0, hv0.symm⟩)
          obtain ⟨q, hc, hq, hbq⟩ := ih a0.fromL k' lyp par0 hlyp (List.mem_of_getElem? hpar) hpe
          have hbnd' : Bnd B (k' + 1) (par0.value + a0.cost) := hbq.step hcost
          have hsat : satAdd par0.value a0.cost = par0.value + a0.cost :=
            clamp_of_in (satAdd_of_bnd hB (by omega) hbnd')
          refine ⟨q ++ [a0.dec], ?_, ?_, ?_⟩
          · rw [hb0]
            exact BestChainP.step l a0 par0 q hfl hg0 hc
          · rw [hv0, hsat]
            exact htr (ebpAll_fRelaxed hpe) _ _ hq
          · rw [hv0, hsat]
            exact hbnd'.mono hB.nonneg (by omega)

/-! ## 4. finalisation -/

theorem finalizeP_bestExactValue (cfg : Cfg S K) (pd : PD S K) (e : Bool) :
    (finalizeP cfg pd e).bestExactValue =
      if e then maxValue (termsP pd) else maxValue ((termsP pd).filter (·.isExact)) := rfl

theorem finalizeP_bestExactSol (cfg : Cfg S K) (pd : PD S K) (e : Bool) :
    (finalizeP cfg pd e).bestExactSol =
      (if e then
        (match maxValue (termsP pd) with
          | none => none
          | some v => ((layers3P cfg pd e)[(pd.plain ++ [termsP pd]).length - 1]?.getD []).find?
              (fun (n : Node S) => decide (n.value = v)))
       else
        (match (if e then maxValue (termsP pd) else maxValue ((termsP pd).filter (·.isExact))) with
          | none => none
          | some v => ((layers3P cfg pd e)[(pd.plain ++ [termsP pd]).length - 1]?.getD []).find?
              (fun (n : Node S) => n.isExact && decide (n.value = v)))).map
        (fun n => cfg.root.path ++ bestPath (layers3P cfg pd e) ((layers3P cfg pd e).length + 1) n) := rfl

/-- the path reported for the first terminal node selected by `f` -/
theorem find_chainP (cfg : Cfg S K) (pd : PD S K) (L3 : List (List (Node S))) (hk : XEq L3 (pd.plain ++ [termsP pd]))
    (f : Node S → Bool) (hf : ∀ a b, stripB a = stripB b → f a = f b) (n : Node S)
    (hfind : (termsP pd).find? f = some n) (q : List Dec)
    (hq : BestChainP (pd.plain ++ [termsP pd]) pd.layers.length n.best q) :
    ((L3[(pd.plain ++ [termsP pd]).length - 1]?.getD []).find? f).map
        (fun n => cfg.root.path ++ bestPath L3 (L3.length + 1) n) = some (cfg.root.path ++ q.reverse) := by
  have hlen : (pd.plain ++ [termsP pd]).length - 1 = pd.plain.length := by
    rw [List.length_append, List.length_singleton]; omega
  rw [hlen]
  have hlayer := hk.layer pd.plain.length
  rw [List.getElem?_concat_length, Option.getD_some] at hlayer
  have hf3 := find?_stripB f hf _ _ hlayer
  rw [hfind] at hf3
  cases h3 : (L3[pd.plain.length]?.getD []).find? f with
  | none => rw [h3] at hf3; cases hf3
  | some n3 =>
    rw [h3] at hf3
    simp only [Option.map_some, Option.some.injEq] at hf3
    have hchain : BestChainP L3 pd.layers.length n3.best q := by
      rw [stripB_best hf3]; exact hq.of_xEq hk
    have := hchain.bestPath_eq n3 rfl (L3.length + 1) (by
      rw [hk.length, List.length_append, List.length_singleton, plain_length]; omega)
    simp only [Option.map_some, Option.some.injEq, List.append_cancel_left_eq]
    rw [← this, List.reverse_reverse]

/-- the `must` bit `compileP` hands to `finalizeP` for its first result -/
def mustBit (cfg : Cfg S K) (pd : PD S K) : Bool :=
  (cfg.ctype == .relaxed) &&
    (match maxValue (termsP pd) with
      | none => []
      | some v => (termsP pd).filter (fun (n : Node S) => decide (n.value = v))).all
      (ebpAll (pd.plain ++ [termsP pd]) (pd.plain ++ [termsP pd]).length)

theorem compileP_must (cfg : Cfg S K) (cache : Cache S) (store : DomStore S K) (polls : Nat) (stopAt : Option Nat)
    (hok : (buildLoopP cfg stopAt (cfg.P.nbVars + 2) (initPD cfg cache store polls)).2 = .ok) :
    (compileP cfg cache store polls stopAt).2.1 =
      finalizeP cfg (buildLoopP cfg stopAt (cfg.P.nbVars + 2) (initPD cfg cache store polls)).1
        (mustBit cfg (buildLoopP cfg stopAt (cfg.P.nbVars + 2) (initPD cfg cache store polls)).1) := by
  unfold compileP
  generalize buildLoopP cfg stopAt (cfg.P.nbVars + 2) (initPD cfg cache store polls) = bl at hok ⊢
  obtain ⟨pd, oc⟩ := bl
  dsimp only at hok
  subst hok
  rfl

/-- **finalisation, detailed form**: on a final diagram that satisfies the two invariants, with a `hasEBP` bit `e` that is
    only set when `compileP`'s `must` test succeeds, a reported best exact value `w` is the value of a node `n` of the pool at
    exit; `n` is `R`-reached at depth `pd.depth` by the decisions `q` of its `best` chain; `nextVar` answers `none` on the
    pool; the reported best exact solution is the root path followed by `q`, last decision first -/
theorem finalizeP_bestExact_rel (cfg : Cfg S K) (B : Int) (R : Nat → S → Int → List Dec → Prop)
    (hB : NoClamp cfg.P cfg.R cfg.root.value B) (pd : PD S K) (k : Nat) (hinv : TInv cfg B R pd k)
    (hk : k ≤ cfg.P.nbVars + 2) (hterm : TerminalP cfg pd) (e : Bool) (he : e = true → mustBit cfg pd = true) (w : Int)
    (hw : (finalizeP cfg pd e).bestExactValue = some w) :
    ∃ (n : Node S) (q : List Dec), n ∈ pd.pool ∧ n.value = w ∧ R pd.depth n.state w q ∧
      BestChainP (pd.plain ++ [termsP pd]) pd.layers.length n.best q ∧
      cfg.P.nextVar pd.depth (pd.pool.map (·.state)) = none ∧
      (finalizeP cfg pd e).bestExactSol = some (cfg.root.path ++ q.reverse) := by
  have hF := finOkP_of_tinv hinv hk
  have hx := layers3P_xEq cfg pd e
  have hlast : (finalLF pd)[pd.layers.length]? = some (cfg.root.depth + k, termsP pd) := by
    unfold finalLF; rw [hinv.ex.depth]; exact List.getElem?_concat_length
  -- a terminal node that is reached gives the conclusion
  have hfin : ∀ (n' : Node S), n' ∈ termsP pd → n'.value = w →
      ∃ (n : Node S), n ∈ pd.pool ∧ n.value = w ∧ n.state = n'.state ∧ n.best = n'.best ∧
        cfg.P.nextVar pd.depth (pd.pool.map (·.state)) = none := by
    intro n' hn' hv
    obtain ⟨m, hm, rfl⟩ := mem_termsP hn'
    rcases hterm with hnil | hnone
    · rw [hnil] at hm; cases hm
    · exact ⟨m, hm, hv, rfl, rfl, hnone⟩
  cases e with
  | false =>
    rw [finalizeP_bestExactValue] at hw
    simp only [Bool.false_eq_true, if_false] at hw
    obtain ⟨n2, hfind2, hn2, hx2, hv2⟩ := find?_of_maxValue_f (fun n : Node S => n.isExact) hw
    obtain ⟨k0, _, hdp, hall⟩ := hF.ok _ _ _ hlast
    have : k0 = k := by omega
    subst this
    have hself := (hall n2 hn2).1 hx2
    obtain ⟨m, hm, hmv, hms, hmb, hnone⟩ := hfin n2 hn2 hv2
    obtain ⟨q, hq, hr, _⟩ := hself
    rw [finalLF_plain] at hq
    refine ⟨m, q, hm, hmv, ?_, hmb ▸ hq, hnone, ?_⟩
    · rw [hinv.ex.depth, hms, ← hv2]; exact hr
    · rw [finalizeP_bestExactSol]
      simp only [Bool.false_eq_true, if_false, hw]
      refine find_chainP cfg pd _ hx _ ?_ n2 hfind2 q hq
      intro a b h
      rw [stripB_value h, stripB_isExact h]
  | true =>
    have hmust := he rfl
    rw [finalizeP_bestExactValue] at hw
    simp only [if_true] at hw
    obtain ⟨n1, hfind1, hn1, hv1⟩ := find?_of_maxValue hw
    simp only [mustBit, hw, Bool.and_eq_true, List.all_eq_true, List.mem_filter, decide_eq_true_eq] at hmust
    have hebp := hmust.2 n1 ⟨hn1, hv1⟩
    rw [← finalLF_plain] at hebp
    have hself := ebpAll_reachP cfg B R hB (finalLF pd) hF _ _ k _ n1 hlast hn1 hebp
    obtain ⟨m, hm, hmv, hms, hmb, hnone⟩ := hfin n1 hn1 hv1
    obtain ⟨q, hq, hr, _⟩ := hself
    rw [finalLF_plain] at hq
    refine ⟨m, q, hm, hmv, ?_, hmb ▸ hq, hnone, ?_⟩
    · rw [hinv.ex.depth, hms, ← hv1]; exact hr
    · rw [finalizeP_bestExactSol]
      simp only [if_true, hw]
      refine find_chainP cfg pd _ hx _ ?_ n1 hfind1 q hq
      intro a b h
      rw [stripB_value h]

/-- **what `compileP` reports as best exact value / solution is sound**, detailed form: any compilation type, any cache /
    dominance configuration, any cutoff -/
theorem bestExact_rel_detail (cfg : Cfg S K) (B : Int) (R : Nat → S → Int → List Dec → Prop)
    (hR : PathRel cfg.P R) (hroot : R cfg.root.depth cfg.root.state cfg.root.value [])
    (hB : NoClamp cfg.P cfg.R cfg.root.value B)
    (cache : Cache S) (store : DomStore S K) (polls : Nat) (stopAt : Option Nat)
    (hok : (compileP cfg cache store polls stopAt).1 = .ok) (w : Int)
    (hw : (compileP cfg cache store polls stopAt).2.1.bestExactValue = some w) :
    ∃ (n : Node S) (q : List Dec),
      n ∈ (compileP cfg cache store polls stopAt).2.2.2.pool ∧ n.value = w ∧
      R (compileP cfg cache store polls stopAt).2.2.2.depth n.state w q ∧
      (∀ fuel, (compileP cfg cache store polls stopAt).2.2.2.layers.length ≤ fuel →
        q = (bestPath ((compileP cfg cache store polls stopAt).2.2.2.plain ++
          [termsP (compileP cfg cache store polls stopAt).2.2.2]) fuel n).reverse) ∧
      cfg.P.nextVar (compileP cfg cache store polls stopAt).2.2.2.depth
        ((compileP cfg cache store polls stopAt).2.2.2.pool.map (·.state)) = none ∧
      (compileP cfg cache store polls stopAt).2.1.bestExactSol = some (cfg.root.path ++ q.reverse) := by
  rw [compileP_outcome] at hok
  rw [compileP_must cfg cache store polls stopAt hok] at hw ⊢
  rw [compileP_pd]
  obtain ⟨k, hk, hinv, hterm⟩ := buildLoopP_tinv cfg B R hR hB stopAt (cfg.P.nbVars + 2) (initPD cfg cache store polls) 0
    (initPD_tinv cfg B R hB hroot cache store polls) (by omega)
  generalize (buildLoopP cfg stopAt (cfg.P.nbVars + 2) (initPD cfg cache store polls)) = bl at *
  obtain ⟨pd, oc⟩ := bl
  dsimp only at hok hw hinv hterm ⊢
  obtain ⟨n, q, h1, h2, h3, h4, h5, h6⟩ :=
    finalizeP_bestExact_rel cfg B R hB pd k hinv hk (hterm hok) (mustBit cfg pd) id w hw
  exact ⟨n, q, h1, h2, h3, fun fuel hf => (h4.bestPath_eq n rfl fuel hf).symm, h5, h6⟩

/-- **what `compileP` reports as best exact value / solution is sound**: any compilation type, any cache / dominance
    configuration, any cutoff -/
theorem bestExact_rel (cfg : Cfg S K) (B : Int) (R : Nat → S → Int → List Dec → Prop)
    (hR : PathRel cfg.P R) (hroot : R cfg.root.depth cfg.root.state cfg.root.value [])
    (hB : NoClamp cfg.P cfg.R cfg.root.value B)
    (cache : Cache S) (store : DomStore S K) (polls : Nat) (stopAt : Option Nat)
    (hok : (compileP cfg cache store polls stopAt).1 = .ok) (w : Int)
    (hw : (compileP cfg cache store polls stopAt).2.1.bestExactValue = some w) :
    ∃ (k : Nat) (s : S) (q : List Dec) (L : List S), R k s w q ∧ s ∈ L ∧ cfg.P.nextVar k L = none ∧
      (compileP cfg cache store polls stopAt).2.1.bestExactSol = some (cfg.root.path ++ q.reverse) := by
  obtain ⟨n, q, hn, _, hr, _, hnone, hsol⟩ := bestExact_rel_detail cfg B R hR hroot hB cache store polls stopAt hok w hw
  exact ⟨_, n.state, q, _, hr, List.mem_map.2 ⟨n, hn, rfl⟩, hnone, hsol⟩

/-- restricted (or exact-mode) pooled compilation, any cache / dominance configuration, any cutoff -/
theorem bestExact_rel_restricted (cfg : Cfg S K) (B : Int) (R : Nat → S → Int → List Dec → Prop)
    (hR : PathRel cfg.P R) (hroot : R cfg.root.depth cfg.root.state cfg.root.value [])
    (hB : NoClamp cfg.P cfg.R cfg.root.value B)
    (cache : Cache S) (store : DomStore S K) (polls : Nat) (stopAt : Option Nat)
    (hty : cfg.ctype = .restricted ∨ cfg.ctype = .exact)
    (hok : (compileP cfg cache store polls stopAt).1 = .ok) (w : Int)
    (hw : (compileP cfg cache store polls stopAt).2.1.bestExactValue = some w) :
    ∃ (k : Nat) (s : S) (q : List Dec) (L : List S), R k s w q ∧ s ∈ L ∧ cfg.P.nextVar k L = none ∧
      (compileP cfg cache store polls stopAt).2.1.bestExactSol = some (cfg.root.path ++ q.reverse) :=
  bestExact_rel cfg B R hR hroot hB cache store polls stopAt hok w hw

/-- relaxed pooled compilation, the `must` result `(compileP …).2.1`, any cache / dominance configuration, any cutoff -/
theorem bestExact_rel_relaxed_gen (cfg : Cfg S K) (B : Int) (R : Nat → S → Int → List Dec → Prop)
    (hR : PathRel cfg.P R) (hroot : R cfg.root.depth cfg.root.state cfg.root.value [])
    (hB : NoClamp cfg.P cfg.R cfg.root.value B)
    (cache : Cache S) (store : DomStore S K) (polls : Nat) (stopAt : Option Nat)
    (hrel : cfg.ctype = .relaxed)
    (hok : (compileP cfg cache store polls stopAt).1 = .ok) (w : Int)
    (hw : (compileP cfg cache store polls stopAt).2.1.bestExactValue = some w) :
    ∃ (k : Nat) (s : S) (q : List Dec) (L : List S), R k s w q ∧ s ∈ L ∧ cfg.P.nextVar k L = none ∧
      (compileP cfg cache store polls stopAt).2.1.bestExactSol = some (cfg.root.path ++ q.reverse) :=
  bestExact_rel cfg B R hR hroot hB cache store polls stopAt hok w hw

/-- relaxed pooled compilation in isolation, the `must` result `(compileP …).2.1` -/
theorem bestExact_rel_relaxed (cfg : Cfg S K) (B : Int) (R : Nat → S → Int → List Dec → Prop)
    (hR : PathRel cfg.P R) (hroot : R cfg.root.depth cfg.root.state cfg.root.value [])
    (hB : NoClamp cfg.P cfg.R cfg.root.value B)
    (cache : Cache S) (store : DomStore S K) (polls : Nat)
    (hrel : cfg.ctype = .relaxed) (hcache : cfg.useCache = false) (hdom : cfg.dom = none) (hW : 1 ≤ cfg.width)
    (hok : (compileP cfg cache store polls none).1 = .ok) (w : Int)
    (hw : (compileP cfg cache store polls none).2.1.bestExactValue = some w) :
    ∃ (k : Nat) (s : S) (q : List Dec) (L : List S), R k s w q ∧ s ∈ L ∧ cfg.P.nextVar k L = none ∧
      (compileP cfg cache store polls none).2.1.bestExactSol = some (cfg.root.path ++ q.reverse) :=
  bestExact_rel cfg B R hR hroot hB cache store polls none hok w hw

/-! ## non-vacuity: a relaxed compilation whose exact best path goes through a long arc

The instance of `Ddo.C07.WitnessP` with width 2.  Block 0 expands the root `0` into `1, 2, 3` (the arc to `3` costs 100);
state `3` is not impacted by variable 1 and stays in the pool during block 1; block 2 keeps `3` and merges `4, 5` into `9`;
both `3` and `9` are expanded into `6`.  The terminal node `6` is **not** flagged exact (one of its two parents is the merged
node) but its only value-attaining parent is `3`, so the `must` test succeeds: the compilation reports the best exact value
109 with a solution of 2 decisions, for a terminal node at depth 3. -/
namespace WitnessP
open Ddo.C07.WitnessP

def cfg2 : Cfg Int Unit := { cfg .relaxed with width := 2 }

example : (compileP cfg2 (Cache.init 3) (DomStore.init 3) 0 none).1 = .ok := by decide
example : (compileP cfg2 (Cache.init 3) (DomStore.init 3) 0 none).2.1.bestExactValue = some 109 := by decide
example : (compileP cfg2 (Cache.init 3) (DomStore.init 3) 0 none).2.1.bestExactSol = some [⟨2, 6⟩, ⟨0, 3⟩] := by decide
/-- the terminal node is not flagged exact, it has two inbound arcs, and sits at depth 3 -/
example : (compileP cfg2 (Cache.init 3) (DomStore.init 3) 0 none).2.2.2.depth = 3 ∧
    (compileP cfg2 (Cache.init 3) (DomStore.init 3) 0 none).2.2.2.pool.map
      (fun n => (n.state, n.value, n.isExact, n.fRelaxed, n.inb.length)) = [(6, 109, false, false, 2)] := by decide
/-- a merge did happen -/
example : (compileP cfg2 (Cache.init 3) (DomStore.init 3) 0 none).2.2.2.layers.map
      (fun l => (l.1, l.2.map (fun n => (n.state, n.value, n.fRelaxed)))) =
    [(0, [(0, 0, false)]), (1, [(1, 1, false), (2, 2, false)]),
     (2, [(3, 100, false), (4, 8, false), (5, 9, false), (9, 9, true)])] := by decide

/-- the theorem applies (`R` := `ReachSkip` from the problem root): 109 is the value of a complete path with skips -/
example : ∃ (k : Nat) (s : Int) (q : List Dec) (L : List Int),
    ReachSkip P k s 109 ([] ++ q) ∧ s ∈ L ∧ P.nextVar k L = none ∧
    (compileP cfg2 (Cache.init 3) (DomStore.init 3) 0 none).2.1.bestExactSol = some ([] ++ q.reverse) :=
  bestExact_rel_relaxed cfg2 200 (fun k s v q => ReachSkip P k s v ([] ++ q)) (pathRel_reachSkip P [])
    ReachSkip.root (noClamp .relaxed) (Cache.init 3) (DomStore.init 3) 0 rfl rfl rfl (by decide) (by decide) 109
    (by decide)

end WitnessP

end Ddo.PTruth

#print axioms Ddo.PTruth.bestExact_rel_detail
#print axioms Ddo.PTruth.bestExact_rel
#print axioms Ddo.PTruth.bestExact_rel_restricted
#print axioms Ddo.PTruth.bestExact_rel_relaxed_gen
#print axioms Ddo.PTruth.bestExact_rel_relaxed
