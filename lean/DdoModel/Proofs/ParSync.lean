/-! The synchronisation skeleton of `parallel.rs` as a transition system (C04).
    Data (which node, which bounds) is abstracted to what liveness needs: fringe size, `ongoing`,
    the abort flag, one program counter per worker, the size of `upper_bounds`.  One `Step`
    constructor per outcome of a critical section of `ParSolver.lean` (the driver checks on every
    validated trace that each section of the executable model is the corresponding `Step` of this
    abstraction: `Engines/Par.lean`, `absStepOk`).  Order of the tests in `get_workload` as since
    fix D4: abort flag first, then completion. -/
namespace Ddo.ParSync

inductive Pc | idle | waiting | held | aborting | done | crashed
deriving DecidableEq, Repr

structure PSt where
  fringe  : Nat          -- number of open nodes
  ongoing : Nat
  abort   : Bool
  pcs     : List Pc      -- one per worker; index = thread id
  ubSlots : Nat          -- size of `upper_bounds` (fixed at construction)

def count (p : Pc) : List Pc → Nat
  | [] => 0
  | x :: xs => (if x = p then 1 else 0) + count p xs

/-- every `waiting` worker becomes `idle` (notify_all) -/
def wake (l : List Pc) : List Pc := l.map (fun p => if p = .waiting then .idle else p)

/-- one atomic step of worker `i` -/
inductive Step : PSt → PSt → Prop
  /-- get_workload: nothing open, nothing in progress → Complete -/
  | complete (s : PSt) (i : Nat) : s.pcs[i]? = some Pc.idle → s.abort = false → s.ongoing = 0 → s.fringe = 0 →
      Step s { s with pcs := s.pcs.set i .done }
  /-- get_workload: abort flag seen → Aborted -/
  | aborted (s : PSt) (i : Nat) : s.pcs[i]? = some Pc.idle → s.abort = true →
      Step s { s with pcs := s.pcs.set i .done }
  /-- get_workload: empty fringe, work in progress → park on the condvar (lock released atomically) -/
  | park (s : PSt) (i : Nat) : s.pcs[i]? = some Pc.idle → s.ongoing ≠ 0 → s.fringe = 0 → s.abort = false →
      Step s { s with pcs := s.pcs.set i .waiting }
  /-- get_workload: pops `k ≥ 1` nodes, none worth processing (ub ≤ lb ⇒ clear, or skipped by the cache) → Starvation without waiting -/
  | starve (s : PSt) (i k : Nat) : s.pcs[i]? = some Pc.idle → s.abort = false → 0 < k → k ≤ s.fringe →
      Step s { s with fringe := s.fringe - k }
  /-- get_workload: pops `k ≥ 1` nodes and keeps the last one; indexes `upper_bounds[i]` -/
  | take (s : PSt) (i k : Nat) : s.pcs[i]? = some Pc.idle → s.abort = false → 0 < k → k ≤ s.fringe → i < s.ubSlots →
      Step s { s with fringe := s.fringe - k, ongoing := s.ongoing + 1, pcs := s.pcs.set i .held }
  /-- the same with `i ≥ upper_bounds.len()`: panic after `ongoing += 1`; the guard is released by unwinding -/
  | takeCrash (s : PSt) (i k : Nat) : s.pcs[i]? = some Pc.idle → s.abort = false → 0 < k → k ≤ s.fringe → ¬ i < s.ubSlots →
      Step s { s with fringe := s.fringe - k, ongoing := s.ongoing + 1, pcs := s.pcs.set i .crashed }
  /-- enqueue_cutset: `m` nodes pushed while holding a node -/
  | enqueue (s : PSt) (i m : Nat) : s.pcs[i]? = some Pc.held →
      Step s { s with fringe := s.fringe + m }
  /-- notify_node_finished after a normal end -/
  | finish (s : PSt) (i : Nat) : s.pcs[i]? = some Pc.held → 0 < s.ongoing →
      Step s { s with ongoing := s.ongoing - 1, pcs := wake (s.pcs.set i .idle) }
  /-- abort_search: the flag is raised, the fringe cleared -/
  | abortS (s : PSt) (i : Nat) : s.pcs[i]? = some Pc.held →
      Step s { s with fringe := 0, abort := true, pcs := s.pcs.set i .aborting }
  /-- notify_node_finished on the abort path, then the worker leaves its loop -/
  | finishAbort (s : PSt) (i : Nat) : s.pcs[i]? = some Pc.aborting → 0 < s.ongoing →
      Step s { s with ongoing := s.ongoing - 1, pcs := wake (s.pcs.set i .done) }

/-- the bookkeeping invariant -/
structure Inv (s : PSt) : Prop where
  ongoingEq : s.ongoing = count .held s.pcs + count .aborting s.pcs + count .crashed s.pcs
  waitOk    : count .waiting s.pcs ≠ 0 → s.ongoing ≠ 0

theorem count_set (l : List Pc) (i : Nat) (old new p : Pc) (h : l[i]? = some old) :
    count p (l.set i new) + (if old = p then 1 else 0) = count p l + (if new = p then 1 else 0) := by
  induction l generalizing i with
  | nil => simp at h
  | cons x xs ih =>
    cases i with
    | zero =>
      simp only [List.getElem?_cons_zero, Option.some.injEq] at h
      subst h
      simp only [List.set_cons_zero, count]
      omega
    | succ j =>
      simp only [List.getElem?_cons_succ] at h
      have := ih j h
      simp only [List.set_cons_succ, count]
      omega

theorem count_wake_waiting (l : List Pc) : count .waiting (wake l) = 0 := by
  induction l with
  | nil => rfl
  | cons x xs ih =>
    simp only [wake, List.map_cons, count] at ih ⊢
    rw [ih]
    cases x <;> simp

theorem count_wake_other (l : List Pc) (p : Pc) (h1 : p ≠ .waiting) (h2 : p ≠ .idle) :
    count p (wake l) = count p l := by
  induction l with
  | nil => rfl
  | cons x xs ih =>
    simp only [wake, List.map_cons, count] at ih ⊢
    rw [ih]
    cases x <;> cases p <;> simp_all

theorem count_pos_of_mem (l : List Pc) (p : Pc) (h : p ∈ l) : count p l ≠ 0 := by
  induction l with
  | nil => cases h
  | cons x xs ih =>
    simp only [count]
    cases h with
    | head => simp
    | tail _ h => have := ih h; omega

theorem count_zero_of_not_mem (l : List Pc) (p : Pc) (h : p ∉ l) : count p l = 0 := by
  induction l with
  | nil => rfl
  | cons x xs ih =>
    simp only [List.mem_cons, not_or] at h
    simp only [count, ih h.2]
    have : x ≠ p := fun e => h.1 e.symm
    simp [this]

theorem step_inv {s t : PSt} (h : Step s t) (hi : Inv s) : Inv t := by
  obtain ⟨ho, hw⟩ := hi
  cases h with
  | complete i h1 _ h2 h3 =>
    have a := count_set s.pcs i .idle .done .held h1
    have a' := count_set s.pcs i .idle .done .aborting h1
    have b := count_set s.pcs i .idle .done .crashed h1
    have c := count_set s.pcs i .idle .done .waiting h1
    simp at a a' b c
    exact ⟨by simp; omega, by simp; omega⟩
  | aborted i h1 h3 =>
    have a := count_set s.pcs i .idle .done .held h1
    have a' := count_set s.pcs i .idle .done .aborting h1
    have b := count_set s.pcs i .idle .done .crashed h1
    have c := count_set s.pcs i .idle .done .waiting h1
    simp at a a' b c
    exact ⟨by simp; omega, by simp; omega⟩
  | park i h1 h2 h3 h4 =>
    have a := count_set s.pcs i .idle .waiting .held h1
    have a' := count_set s.pcs i .idle .waiting .aborting h1
    have b := count_set s.pcs i .idle .waiting .crashed h1
    simp at a a' b
    exact ⟨by simp; omega, fun _ => h2⟩
  | starve i k h1 h2 h3 h4 => exact ⟨ho, hw⟩
  | take i k h1 h2 h3 h4 h5 =>
    have a := count_set s.pcs i .idle .held .held h1
    have a' := count_set s.pcs i .idle .held .aborting h1
    have b := count_set s.pcs i .idle .held .crashed h1
    simp at a a' b
    exact ⟨by simp; omega, fun _ => by simp⟩
  | takeCrash i k h1 h2 h3 h4 h5 =>
    have a := count_set s.pcs i .idle .crashed .held h1
    have a' := count_set s.pcs i .idle .crashed .aborting h1
    have b := count_set s.pcs i .idle .crashed .crashed h1
    simp at a a' b
    exact ⟨by simp; omega, fun _ => by simp⟩
  | enqueue i m h1 => exact ⟨ho, hw⟩
  | finish i h1 h2 =>
    have a := count_set s.pcs i .held .idle .held h1
    have a' := count_set s.pcs i .held .idle .aborting h1
    have b := count_set s.pcs i .held .idle .crashed h1
    simp at a a' b
    refine ⟨?_, fun h => absurd (count_wake_waiting _) h⟩
    simp only []
    rw [count_wake_other _ .held (by decide) (by decide), count_wake_other _ .aborting (by decide) (by decide),
      count_wake_other _ .crashed (by decide) (by decide)]
    omega
  | abortS i h1 =>
    have a := count_set s.pcs i .held .aborting .held h1
    have a' := count_set s.pcs i .held .aborting .aborting h1
    have b := count_set s.pcs i .held .aborting .crashed h1
    have c := count_set s.pcs i .held .aborting .waiting h1
    simp at a a' b c
    exact ⟨by simp; omega, fun hh => by simp at hh; have := hw (by omega); simpa using this⟩
  | finishAbort i h1 h2 =>
    have a := count_set s.pcs i .aborting .done .held h1
    have a' := count_set s.pcs i .aborting .done .aborting h1
    have b := count_set s.pcs i .aborting .done .crashed h1
    simp at a a' b
    refine ⟨?_, fun h => absurd (count_wake_waiting _) h⟩
    simp only []
    rw [count_wake_other _ .held (by decide) (by decide), count_wake_other _ .aborting (by decide) (by decide),
      count_wake_other _ .crashed (by decide) (by decide)]
    omega

/-- No lost wake-up: in a state satisfying the invariant with no crashed worker, if some worker has
    not finished then some step is enabled. -/
theorem no_stuck (s : PSt) (hi : Inv s) (hc : count .crashed s.pcs = 0)
    (hlive : ∃ (i : Nat) (p : Pc), s.pcs[i]? = some p ∧ p ≠ Pc.done) : ∃ t, Step s t := by
  -- a worker that is idle or holds a node can always move
  by_cases hidle : ∃ i : Nat, s.pcs[i]? = some Pc.idle
  · obtain ⟨i, h⟩ := hidle
    by_cases ha : s.abort = true
    · exact ⟨_, Step.aborted s i h ha⟩
    · have ha' : s.abort = false := by simpa using ha
      by_cases h0 : s.ongoing = 0 ∧ s.fringe = 0
      · exact ⟨_, Step.complete s i h ha' h0.1 h0.2⟩
      · by_cases hf : s.fringe = 0
        · exact ⟨_, Step.park s i h (by intro h'; exact h0 ⟨h', hf⟩) hf ha'⟩
        · exact ⟨_, Step.starve s i 1 h ha' (by omega) (by omega)⟩
  · by_cases hheld : ∃ i : Nat, s.pcs[i]? = some Pc.held
    · obtain ⟨i, h⟩ := hheld
      exact ⟨_, Step.enqueue s i 0 h⟩
    · by_cases habt : ∃ i : Nat, s.pcs[i]? = some Pc.aborting
      · obtain ⟨i, h⟩ := habt
        have hpos : count .aborting s.pcs ≠ 0 := count_pos_of_mem _ _ (List.mem_of_getElem? h)
        have := hi.ongoingEq
        exact ⟨_, Step.finishAbort s i h (by omega)⟩
      · -- otherwise every live worker waits; then `ongoing ≠ 0` forces a busy worker: contradiction
        exfalso
        obtain ⟨i, p, hp, hne⟩ := hlive
        have hcount : ∀ (q : Pc), (¬ ∃ j : Nat, s.pcs[j]? = some q) → count q s.pcs = 0 := by
          intro q hq
          apply count_zero_of_not_mem
          intro hx
          obtain ⟨j, hj, hjx⟩ := List.getElem_of_mem hx
          exact hq ⟨j, by rw [List.getElem?_eq_getElem hj, hjx]⟩
        have hheld0 := hcount .held hheld
        have habt0 := hcount .aborting habt
        have hw : count .waiting s.pcs ≠ 0 := by
          cases p with
          | idle => exact absurd ⟨i, hp⟩ hidle
          | held => exact absurd ⟨i, hp⟩ hheld
          | aborting => exact absurd ⟨i, hp⟩ habt
          | done => exact absurd rfl hne
          | crashed =>
            have hmem : Pc.crashed ∈ s.pcs := List.mem_of_getElem? hp
            exact absurd hc (count_pos_of_mem _ _ hmem)
          | waiting =>
            exact count_pos_of_mem _ _ (List.mem_of_getElem? hp)
        have := hi.waitOk hw
        have := hi.ongoingEq
        omega

/-- the D3 scenario: 2 workers, `upper_bounds` of size 1.  Worker 1 takes the only node and crashes;
    worker 0 then parks forever: a reachable stuck state. -/
def s0 : PSt := { fringe := 1, ongoing := 0, abort := false, pcs := [.idle, .idle], ubSlots := 1 }
def s1 : PSt := { fringe := 0, ongoing := 1, abort := false, pcs := [.idle, .crashed], ubSlots := 1 }
def s2 : PSt := { fringe := 0, ongoing := 1, abort := false, pcs := [.waiting, .crashed], ubSlots := 1 }
theorem d3_step1 : Step s0 s1 := Step.takeCrash s0 1 1 rfl rfl (by decide) (by decide) (by decide)
theorem d3_step2 : Step s1 s2 := Step.park s1 0 rfl (by decide) rfl rfl
theorem s2_stuck : ¬ ∃ t, Step s2 t := by
  have key : ∀ (i : Nat) (p : Pc), [Pc.waiting, Pc.crashed][i]? = some p → p = .waiting ∨ p = .crashed := by
    intro i p h
    match i, h with
    | 0, h => simp at h; exact Or.inl h.symm
    | 1, h => simp at h; exact Or.inr h.symm
    | (n+2), h => simp at h
  rintro ⟨t, h⟩
  cases h with
  | complete i h1 _ _ _ => have := key _ _ h1; simp at this
  | aborted i h1 _ => have := key _ _ h1; simp at this
  | park i h1 _ _ _ => have := key _ _ h1; simp at this
  | starve i k h1 _ _ _ => have := key _ _ h1; simp at this
  | take i k h1 _ _ _ _ => have := key _ _ h1; simp at this
  | takeCrash i k h1 _ _ _ _ => have := key _ _ h1; simp at this
  | enqueue i m h1 => have := key _ _ h1; simp at this
  | finish i h1 _ => have := key _ _ h1; simp at this
  | abortS i h1 => have := key _ _ h1; simp at this
  | finishAbort i h1 _ => have := key _ _ h1; simp at this
end Ddo.ParSync

namespace Ddo.ParSync

deriving instance DecidableEq for PSt

/-- Boolean recogniser of one `Step` of worker `i` (evaluated by the driver on every section of every
    validated trace, after abstracting the executable model's state) -/
def stepAt (s t : PSt) (i : Nat) : Bool :=
  match s.pcs[i]? with
  | some .idle =>
    (s.abort == false && s.ongoing == 0 && s.fringe == 0 && t == { s with pcs := s.pcs.set i .done })
    || (s.abort == true && t == { s with pcs := s.pcs.set i .done })
    || (s.ongoing != 0 && s.fringe == 0 && s.abort == false && t == { s with pcs := s.pcs.set i .waiting })
    || (s.abort == false && decide (t.fringe < s.fringe) && t == { s with fringe := s.fringe - (s.fringe - t.fringe) })
    || (s.abort == false && decide (t.fringe < s.fringe) && decide (i < s.ubSlots)
        && t == { s with fringe := s.fringe - (s.fringe - t.fringe), ongoing := s.ongoing + 1, pcs := s.pcs.set i .held })
    || (s.abort == false && decide (t.fringe < s.fringe) && !decide (i < s.ubSlots)
        && t == { s with fringe := s.fringe - (s.fringe - t.fringe), ongoing := s.ongoing + 1, pcs := s.pcs.set i .crashed })
  | some .held =>
    (t == { s with fringe := s.fringe + (t.fringe - s.fringe) })
    || (decide (0 < s.ongoing) && t == { s with ongoing := s.ongoing - 1, pcs := wake (s.pcs.set i .idle) })
    || (t == { s with fringe := 0, abort := true, pcs := s.pcs.set i .aborting })
  | some .aborting =>
    decide (0 < s.ongoing) && t == { s with ongoing := s.ongoing - 1, pcs := wake (s.pcs.set i .done) }
  | _ => false

theorem stepAt_sound (s t : PSt) (i : Nat) (h : stepAt s t i = true) : Step s t := by
  unfold stepAt at h
  split at h
  · next hp =>
    simp only [Bool.or_eq_true, Bool.and_eq_true, beq_iff_eq, bne_iff_ne, decide_eq_true_eq, Bool.not_eq_true',
      decide_eq_false_iff_not] at h
    rcases h with ((((( ⟨⟨⟨h1, h2⟩, h3⟩, rfl⟩ | ⟨h1, rfl⟩) | ⟨⟨⟨h1, h2⟩, h3⟩, rfl⟩) | ⟨⟨h1, h2⟩, h3⟩) | ⟨⟨⟨h1, h2⟩, h3⟩, h4⟩) | ⟨⟨⟨h1, h2⟩, h3⟩, h4⟩)
    · exact Step.complete s i hp h1 h2 h3
    · exact Step.aborted s i hp h1
    · exact Step.park s i hp h1 h2 h3
    · rw [h3]; exact Step.starve s i (s.fringe - t.fringe) hp h1 (by omega) (by omega)
    · rw [h4]; exact Step.take s i (s.fringe - t.fringe) hp h1 (by omega) (by omega) h3
    · rw [h4]; exact Step.takeCrash s i (s.fringe - t.fringe) hp h1 (by omega) (by omega) h3
  · next hp =>
    simp only [Bool.or_eq_true, Bool.and_eq_true, beq_iff_eq, decide_eq_true_eq] at h
    rcases h with ((h | ⟨h1, h⟩) | h)
    · rw [h]; exact Step.enqueue s i _ hp
    · rw [h]; exact Step.finish s i hp h1
    · rw [h]; exact Step.abortS s i hp
  · next hp =>
    simp only [Bool.and_eq_true, beq_iff_eq, decide_eq_true_eq] at h
    rw [h.2]; exact Step.finishAbort s i hp h.1
  · cases h

/-- a section of the executable model is either invisible to the skeleton or one of its steps -/
def stepOrStutter (s t : PSt) (i : Nat) : Bool := s == t || stepAt s t i

theorem stepOrStutter_sound (s t : PSt) (i : Nat) (h : stepOrStutter s t i = true) : s = t ∨ Step s t := by
  simp only [stepOrStutter, Bool.or_eq_true, beq_iff_eq] at h
  rcases h with h | h
  · exact Or.inl h
  · exact Or.inr (stepAt_sound s t i h)

/-- Boolean form of the invariant -/
def invB (s : PSt) : Bool :=
  s.ongoing == count .held s.pcs + count .aborting s.pcs + count .crashed s.pcs
  && (count .waiting s.pcs == 0 || s.ongoing != 0)

theorem invB_iff (s : PSt) : invB s = true ↔ Inv s := by
  simp only [invB, Bool.and_eq_true, beq_iff_eq, Bool.or_eq_true, bne_iff_ne]
  constructor
  · rintro ⟨h1, h2⟩
    exact ⟨h1, fun hw => by rcases h2 with h | h; exact absurd h hw; exact h⟩
  · rintro ⟨h1, h2⟩
    refine ⟨h1, ?_⟩
    by_cases hw : count .waiting s.pcs = 0
    · exact Or.inl hw
    · exact Or.inr (h2 hw)

/-- every state reachable from an initial state (all workers idle, nothing in progress) satisfies the invariant -/
inductive Reachable (s0 : PSt) : PSt → Prop
  | init : Reachable s0 s0
  | step {s t : PSt} : Reachable s0 s → Step s t → Reachable s0 t

theorem reachable_inv (s0 s : PSt) (h0 : Inv s0) (h : Reachable s0 s) : Inv s := by
  induction h with
  | init => exact h0
  | step _ hst ih => exact step_inv hst ih

/-- no worker ever crashes when `upper_bounds` has a cell per worker (`with_nb_threads` resizes it: fix D3) -/
theorem no_crash (s0 s : PSt) (hsz : s0.pcs.length ≤ s0.ubSlots) (hc0 : count .crashed s0.pcs = 0)
    (h : Reachable s0 s) : count .crashed s.pcs = 0 ∧ s.pcs.length = s0.pcs.length ∧ s.ubSlots = s0.ubSlots := by
  induction h with
  | init => exact ⟨hc0, rfl, rfl⟩
  | step hr hst ih =>
    obtain ⟨ih1, ih2, ih3⟩ := ih
    have lenWake : ∀ l : List Pc, (wake l).length = l.length := fun l => by simp [wake]
    cases hst with
    | complete i h1 _ _ _ => have b := count_set _ i .idle .done .crashed h1; simp at b; exact ⟨by simp; omega, by simp [ih2], ih3⟩
    | aborted i h1 _ => have b := count_set _ i .idle .done .crashed h1; simp at b; exact ⟨by simp; omega, by simp [ih2], ih3⟩
    | park i h1 _ _ _ => have b := count_set _ i .idle .waiting .crashed h1; simp at b; exact ⟨by simp; omega, by simp [ih2], ih3⟩
    | starve i k _ _ _ _ => exact ⟨ih1, ih2, ih3⟩
    | take i k h1 _ _ _ _ => have b := count_set _ i .idle .held .crashed h1; simp at b; exact ⟨by simp; omega, by simp [ih2], ih3⟩
    | takeCrash i k h1 _ _ _ h5 =>
      exfalso
      have : i < _ := (List.getElem?_eq_some_iff.mp h1).1
      omega
    | enqueue i m _ => exact ⟨ih1, ih2, ih3⟩
    | finish i h1 _ =>
      have b := count_set _ i .held .idle .crashed h1; simp at b
      exact ⟨by simp only []; rw [count_wake_other _ .crashed (by decide) (by decide)]; omega, by simp [lenWake, ih2], ih3⟩
    | abortS i h1 => have b := count_set _ i .held .aborting .crashed h1; simp at b; exact ⟨by simp; omega, by simp [ih2], ih3⟩
    | finishAbort i h1 _ =>
      have b := count_set _ i .aborting .done .crashed h1; simp at b
      exact ⟨by simp only []; rw [count_wake_other _ .crashed (by decide) (by decide)]; omega, by simp [lenWake, ih2], ih3⟩

/-- **no deadlock / no lost wake-up**: from an initial state with a cell of `upper_bounds` per worker, every
    reachable state in which some worker has not left its loop has an enabled step -/
theorem reachable_not_stuck (s0 s : PSt) (h0 : Inv s0) (hsz : s0.pcs.length ≤ s0.ubSlots) (hc0 : count .crashed s0.pcs = 0)
    (h : Reachable s0 s) (hlive : ∃ (i : Nat) (p : Pc), s.pcs[i]? = some p ∧ p ≠ Pc.done) : ∃ t, Step s t :=
  no_stuck s (reachable_inv s0 s h0 h) (no_crash s0 s hsz hc0 h).1 hlive

/-- the search is declared complete only when nothing is open or in progress -/
theorem complete_only_when_closed {s t : PSt} (i : Nat) (h : Step s t) (hidle : s.pcs[i]? = some Pc.idle)
    (hdone : t.pcs[i]? = some Pc.done) (hna : s.abort = false) : s.ongoing = 0 ∧ s.fringe = 0 := by
  cases h with
  | complete j h1 _ h2 h3 => exact ⟨h2, h3⟩
  | aborted j h1 ha => rw [hna] at ha; cases ha
  | park j h1 _ _ _ =>
    simp only at hdone
    by_cases e : j = i
    · subst e; rw [List.getElem?_set_self (List.getElem?_eq_some_iff.mp hidle).1] at hdone; cases hdone
    · rw [List.getElem?_set_ne e] at hdone; rw [hidle] at hdone; cases hdone
  | starve j k _ _ _ _ => simp only at hdone; rw [hidle] at hdone; cases hdone
  | take j k h1 _ _ _ _ =>
    simp only at hdone
    by_cases e : j = i
    · subst e; rw [List.getElem?_set_self (List.getElem?_eq_some_iff.mp hidle).1] at hdone; cases hdone
    · rw [List.getElem?_set_ne e] at hdone; rw [hidle] at hdone; cases hdone
  | takeCrash j k h1 _ _ _ _ =>
    simp only at hdone
    by_cases e : j = i
    · subst e; rw [List.getElem?_set_self (List.getElem?_eq_some_iff.mp hidle).1] at hdone; cases hdone
    · rw [List.getElem?_set_ne e] at hdone; rw [hidle] at hdone; cases hdone
  | enqueue j m _ => simp only at hdone; rw [hidle] at hdone; cases hdone
  | finish j h1 _ =>
    exfalso
    simp only [wake, List.getElem?_map] at hdone
    by_cases e : j = i
    · subst e; rw [hidle] at h1; cases h1
    · rw [List.getElem?_set_ne e, hidle] at hdone; simp at hdone
  | abortS j h1 =>
    simp only at hdone
    by_cases e : j = i
    · subst e; rw [hidle] at h1; cases h1
    · rw [List.getElem?_set_ne e] at hdone; rw [hidle] at hdone; cases hdone
  | finishAbort j h1 _ =>
    exfalso
    simp only [wake, List.getElem?_map] at hdone
    by_cases e : j = i
    · subst e; rw [hidle] at h1; cases h1
    · rw [List.getElem?_set_ne e, hidle] at hdone; simp at hdone

end Ddo.ParSync
