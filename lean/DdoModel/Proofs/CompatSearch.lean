import DdoModel.Proofs.CompatGrid
import DdoModel.Proofs.NoCapSearch
import DdoModel.Proofs.CacheDomTwin
import DdoModel.Proofs.CompatGridWf
/-! C10d — **counter-example search for `Ddo.C10c.CachingDominanceCompat`** (cache + dominance checker, `SimAll` rule, static
order, rule-maximal merge) on the table family `Ddo.C10d.Grid` of `Proofs/CompatGrid.lean`.

Executable code only (no theorem depends on it); `searchMain` is the entry point of a small driver (a compiled executable that
imports this module).  A model is drawn **by construction** inside the hypotheses of the open statement:

* the states are the representatives of the points of a grid `ga × gb` (1 ≤ ga, gb ≤ 3; several representatives per point with
  some probability: *coarse* rule, distinct equivalent states); the rule compares the two grid coordinates and the value — for
  `ga, gb ≥ 2` incomparable states exist (*partial* order), for `gb = 1` the order is total (the knapsack regime);
* per variable and decision a **monotone** map of the grid (random monotone closure, "subtract a vector where it fits" — the
  knapsack / multi-resource step —, "add a vector", identity, constant), a monotone cost and an upward closed availability; per
  state the two decisions are randomly swapped and the child is a random representative of the child point: the rule satisfies
  `SimAll` (re-checked by `Grid.checkSim`), and the simulating decision is in general **not** the same decision;
* merge = fold of a join table whose entries are representatives of the least upper bound (or, mode `joinUp`, of a random
  upper bound) of the two points: `MergeCompat` (`Grid.checkJoin`); relaxed arc cost = cost + `bump` (0 or 1);
* rough upper bound: constant or per state, tight or with slack, above the true value-to-go of **every** state (`Grid.checkRub`);
  `rubMode = 2` (secondary regime, see `Props/C10d.lean`): per state, above the value-to-go of the *exactly reachable* items the
  state dominates only;
* costs with many ties (values 0 … 2, sparse rewards), widths `1 … 3` as a function of (depth, state), random ranking, both
  decision orders.

Every model is run in the four configurations (both fringes × both cut-set kinds), best-first (`KDStep`): the deterministic
`popMax` order and, when a tie among maximal nodes was met, `nrand` random resolutions of the ties.  The value held at the empty
fringe is compared with the dynamic program `Grid.optimum`.  Counted besides: runs in which the checker prunes, the cache prunes,
the cache prunes an **inexact** (relaxed) node, `must_explore` refuses a popped node, the checker drops the **root** of a popped
sub-problem (the last step of `Twin`), both mechanisms prune.  In every visited state the executable form of the conjectured joint
invariant `Ddo.C10d.CompatInv` is evaluated (`goodTable`, `invOk`); `nany > 0` adds runs with an **arbitrary** pop order (any open node,
not only a maximal one: a custom ranking, or the parallel solver processing out of order); `mode = 1` is the mutation search around
`Ddo.C10d.Shadow` with the rough upper bound repaired. -/
set_option linter.unusedVariables false
namespace Ddo.C10d.Search
open Ddo Ddo.C01 Ddo.Closed Ddo.C09 Ddo.C10 Ddo.C10c Ddo.C10d.Grid
open Ddo.C09.NoCapSearch (Rng)

/-! ## instrumented turn (the same computation as `DSolverCfg.kdturn`, plus what the two filters did) -/

structure Flags where
  ndom : Nat := 0
  ncache : Nat := 0
  ncacheInexact : Nat := 0
  refused : Nat := 0
  rootDom : Nat := 0
  deriving Repr

def Flags.add (a b : Flags) : Flags :=
  { ndom := a.ndom + b.ndom, ncache := a.ncache + b.ncache, ncacheInexact := a.ncacheInexact + b.ncacheInexact,
    refused := a.refused + b.refused, rootDom := a.rootDom + b.rootDom }

def ddFlags (dd : DD Int Int) : Flags :=
  let nodes := dd.layers.flatMap id ++ dd.next
  let pr := nodes.filter (·.cache)
  { ndom := dd.ndom, ncache := pr.length, ncacheInexact := (pr.filter (fun n => !n.isExact)).length,
    rootDom := if (dd.layers.headD []).length == 1 && (dd.layers.drop 1).all (·.isEmpty) && dd.next.isEmpty && dd.ndom > 0 then 1 else 0 }

def processI (dv : DSolverCfg Int Int) (st : SeqSt Int) (c0 : Cache Int) (d0 : DomStore Int Int) (N : SubP Int) :
    Option (KDSt Int Int × Flags) :=
  if N.ub ≤ st.bestLb then some (⟨st, c0, d0⟩, {})
  else
    match c0.mustExplore N.state N.depth N.value with
    | none => none
    | some false => some (⟨st, c0, d0⟩, { refused := 1 })
    | some true =>
      let cR := dv.kdcompR c0 d0 N st.bestLb
      if cR.1 ≠ .ok then none
      else
        match applyUps c0 cR.2.1.cacheUpdates.reverse with
        | none => none
        | some c1 =>
          let st1 := st.updateBest (toOut cR.2.1)
          let d1 := cR.2.2.2.store
          let fR := ddFlags cR.2.2.2
          if cR.2.1.isExact then some (⟨st1, c1, d1⟩, fR)
          else
            let cX := dv.kdcompX c1 d1 N st1.bestLb
            if cX.1 ≠ .ok then none
            else
              match applyUps c1 cX.2.1.cacheUpdates.reverse with
              | none => none
              | some c2 =>
                let st2 := st1.updateBest (toOut cX.2.1)
                let d2 := cX.2.2.2.store
                let fl := fR.add (ddFlags cX.2.2.2)
                if cX.2.1.isExact then some (⟨st2, c2, d2⟩, fl)
                else some (⟨st2.enqueue dv.sv.dedup cX.2.1.cutset, c2, d2⟩, fl)

def turnI (dv : DSolverCfg Int Int) (s : KDSt Int Int) (N : SubP Int) (rest : List (SubP Int)) :
    Option (KDSt Int Int × Flags) :=
  match cleanCache dv.sv.P.nbVars s.st.openByLayer dv.sv.P.nbVars s.st.firstActive s.cache with
  | none => none
  | some c0 =>
    processI dv (popped s.st N rest (cleanLoop dv.sv.P.nbVars s.st.openByLayer dv.sv.P.nbVars s.st.firstActive)) c0 s.store N

/-- indices of the maximal nodes (`MaxUB`, then value) -/
def maxIdx (l : List (SubP Int)) : List Nat :=
  match l with
  | [] => []
  | c0 :: _ =>
    let best := l.foldl (fun (b : Int × Int) c => if c.ub > b.1 || (c.ub == b.1 && c.value > b.2) then (c.ub, c.value) else b)
      (c0.ub, c0.value)
    (List.range l.length).filter (fun i => match l[i]? with
      | some c => c.ub == best.1 && c.value == best.2
      | none => false)

structure RunOut where
  complete : Bool := false
  panic : Bool := false
  value : Int := 0
  crashed : Bool := false
  turns : Nat := 0
  tie : Bool := false
  fl : Flags := {}
  sched : List Nat := []
  invBad : Nat := 0        -- visited states that violate the conjectured joint invariant (`CompatInv`, executable form)

/-- a best-first run; `rnd = none`: the first maximal node (in fringe order), otherwise a random one -/
def runBF (dv : DSolverCfg Int Int) (chk : KDSt Int Int → Bool := fun _ => true) (anyOrder : Bool := false) :
    Nat → Option Rng → KDSt Int Int → RunOut → Option Rng × RunOut
  | 0, g, _, o => (g, o)
  | fuel + 1, g, s, o =>
    let o := if chk s then o else { o with invBad := o.invBad + 1 }
    if s.st.fringe.isEmpty then (g, { o with complete := true, value := s.st.bestLb, crashed := s.st.crashed })
    else
      -- `anyOrder`: any open node may be popped (a custom ranking, or the parallel solver processing out of order)
      let cands := if anyOrder then List.range s.st.fringe.length else maxIdx s.st.fringe
      let tie := o.tie || cands.length > 1
      let (g, i) : Option Rng × Nat := match g with
        | none => (none, cands.getD 0 0)
        | some r => let (r, j) := r.below cands.length; (some r, cands.getD j 0)
      match popAt s.st.fringe i with
      | none => (g, { o with panic := true })
      | some (N, rest) =>
        match turnI dv s N rest with
        | none => (g, { o with panic := true, sched := i :: o.sched })
        | some (t, fl) => runBF dv chk anyOrder fuel g t { o with turns := o.turns + 1, tie := tie, fl := o.fl.add fl, sched := i :: o.sched }

/-! ## the conjectured joint invariant `Ddo.C10d.CompatInv` (`Proofs/CompatOrder.lean`), executable on `Grid` models

`goodTable T opt` computes the protected family `Good` (exactly reached items of each depth that are undominated among the exactly
reached items of the depth and have a `Good` child, or, at the last depth, the value `opt`); `invOk` evaluates the clauses **main** and
**entries** of `CompatInv` in a state of the solver (`GAbove` is upward closed in the value: it is enough to test every entry at its
threshold).  The search counts the visited states in which the invariant fails: evidence for (or against) the named obligation
`CompatProcess`, independent of the final value. -/

def itemsTable (T : Tab) : Array (List (Nat × Int)) := Id.run do
  let mut tab : Array (List (Nat × Int)) := #[[(T.init, 0)]]
  for k in List.range T.n do
    let cur := tab.getD k []
    let mut nx : List (Nat × Int) := []
    for (s, v) in cur do
      for b in [false, true] do
        if allowed T k s b then
          let it := (tr T k s b, v + c T k s b)
          if !nx.contains it then nx := it :: nx
    tab := tab.push nx
  return tab

def domItem (T : Tab) (a : Nat × Int) (b : Nat × Int) : Bool :=
  (geS T a.1 b.1 && decide (b.2 ≤ a.2)) && !(geS T b.1 a.1 && decide (a.2 ≤ b.2))

def goodTable (T : Tab) (opt : Int) : Array (List (Nat × Int)) := Id.run do
  let items := itemsTable T
  let mut good : Array (List (Nat × Int)) := Array.replicate (T.n + 1) []
  let last := items.getD T.n []
  good := good.set! T.n (last.filter (fun it => it.2 == opt && !last.any (fun a => domItem T a it)))
  for j in List.range T.n do
    let k := T.n - 1 - j
    let cur := items.getD k []
    let nxt := good.getD (k + 1) []
    good := good.set! k (cur.filter (fun it =>
      !cur.any (fun a => domItem T a it) &&
      [false, true].any (fun b => allowed T k it.1 b && nxt.contains (tr T k it.1 b, it.2 + c T k it.1 b))))
  return good

def invOk (T : Tab) (opt : Int) (good : Array (List (Nat × Int))) (s : KDSt Int Int) : Bool :=
  if s.st.bestLb ≥ opt then true
  else
    let solidDepths := s.st.fringe.filterMap (fun q =>
      if (good.getD q.depth []).contains (st T q.state, q.value) && decide (opt ≤ q.ub) &&
          (s.cache.mustExplore q.state q.depth q.value == some true) then some q.depth else none)
    -- main
    !solidDepths.isEmpty &&
    -- entries
    (List.range s.cache.layers.length).all (fun d =>
      (s.cache.layers.getD d []).all (fun e =>
        let applies := (good.getD d []).any (fun g => geS T (st T e.1) g.1 && decide (g.2 ≤ e.2.value))
        !applies || solidDepths.any (fun dq => decide (d ≤ dq))))

/-! ## random models -/

def genCost (late : Bool) (mode : Nat) (r : Rng) : Rng × Int :=
  let (r, a) := r.below 100
  match mode with
  | 0 => if a < 55 then (r, 0) else if a < 80 then (r, 1) else if a < 92 then (r, 2)
         else if late then (let (r, b) := r.below 8; (r, (b : Int) + 3)) else (r, 3)
  | 1 => let (r, b) := r.below 3; (r, (b : Int))
  | 2 => let (r, b) := r.below 7; (r, (b : Int) - 3)
  | _ => if a < 70 then (r, 0) else if a < 90 then (r, 1) else (let (r, b) := r.below 10; (r, (b : Int) + 2))

structure Params where
  nlo : Nat := 4
  nhi : Nat := 7
  mmax : Nat := 10
  gmax : Nat := 3        -- largest side of the grid
  nany : Nat := 0        -- runs with an arbitrary pop order per configuration
  rubMode : Nat := 0     -- 0: mixed valid bounds; 2: secondary regime (bound valid for reachable items only)
  deriving Repr

/-- a random model inside the hypotheses; returns the tables and the optimum -/
def genModel (r0 : Rng) (pp : Params) : Rng × Tab := Id.run do
  let mut r := r0
  let (r1, ga0) := r.below pp.gmax; r := r1
  let (r1, gb0) := r.below pp.gmax; r := r1
  let (r1, tot) := r.below 4; r := r1
  let (r1, ga1) := r.below (2 * pp.gmax); r := r1
  let ga := if tot = 0 then ga1 + 2 else ga0 + 1
  let gb := if tot = 0 then 1 else if ga = 1 && gb0 = 0 then 2 else gb0 + 1
  let ncls := ga * gb
  let cjoin := fun (a b : Nat) => (max (a / gb) (b / gb)) * gb + max (a % gb) (b % gb)
  let (r1, nn) := r.below (pp.nhi - pp.nlo + 1); r := r1
  let n := nn + pp.nlo
  let (r1, cmode) := r.below 4; r := r1
  let (r1, pal) := r.below 3; r := r1
  let pAllow := match pal with | 0 => 100 | 1 => 85 | _ => 65
  let (r1, sty) := r.below 10; r := r1
  let style := if sty < 5 then 0 else if sty < 8 then 1 else 2
  let (r1, cr) := r.below 2; r := r1
  let corr := cr = 0
  -- class-level tables, index (k*2+d)*ncls + a
  let mut f : Array Nat := Array.replicate (n * 2 * ncls) 0
  let mut g : Array Int := Array.replicate (n * 2 * ncls) 0
  let mut al : Array Bool := Array.replicate (n * 2 * ncls) false
  for k in List.range n do
    for d in [0, 1] do
      let base := (k * 2 + d) * ncls
      let late := k * 3 ≥ n * 2
      let (r1, kd0) := r.below 10; r := r1
      let (r1, kd1) := r.below 20; r := r1
      -- style 0: knapsack (decision 1 = take, decision 0 = leave); style 1: knapsack with some foreign steps; style 2: mixture
      let kd := if style = 0 then (if d = 1 then 4 else 7)
                else if style = 1 then (if kd1 < 10 then 4 else if kd1 < 13 then 7 else if kd1 < 16 then 8 else if kd1 < 18 then 0 else 9)
                else kd0
      if kd < 3 then
        for a in List.range ncls do
          let (r1, f0) := r.below ncls; r := r1
          let (r1, g0) := genCost late cmode r; r := r1
          let (r1, a0) := r.below 100; r := r1
          let mut fa := f0
          let mut gaa := g0
          let mut ala := decide (a0 < pAllow)
          if a / gb > 0 then
            let p := a - gb
            fa := cjoin fa (f.getD (base + p) 0); gaa := max gaa (g.getD (base + p) 0); ala := ala || al.getD (base + p) false
          if a % gb > 0 then
            let p := a - 1
            fa := cjoin fa (f.getD (base + p) 0); gaa := max gaa (g.getD (base + p) 0); ala := ala || al.getD (base + p) false
          f := f.set! (base + a) fa; g := g.set! (base + a) gaa; al := al.set! (base + a) ala
      else if kd < 7 then
        -- subtract a vector where it fits (knapsack "take"), constant reward
        let (r1, wi) := r.below (min ga 3); r := r1
        let (r1, wj) := r.below (min gb 3); r := r1
        let (r1, p0) := genCost late cmode r; r := r1
        let (r1, p1) := r.below 3; r := r1
        let (r1, p2) := r.below 4; r := r1
        -- style 2: sparse rewards; knapsack styles: reward correlated with the weight (hard instances)
        let p := if style = 2 then p0 + (p1 : Int) else if corr then ((wi + wj : Nat) : Int) * 2 + (p2 : Int) - 1 else (p2 : Int) + (p1 : Int) + 1
        for a in List.range ncls do
          let ok := decide (a / gb ≥ wi) && decide (a % gb ≥ wj)
          f := f.set! (base + a) (if ok then (a / gb - wi) * gb + (a % gb - wj) else 0)
          g := g.set! (base + a) p
          al := al.set! (base + a) ok
      else if kd < 8 then
        -- identity ("leave"), constant small cost
        let (r1, p0) := r.below 4; r := r1
        for a in List.range ncls do
          f := f.set! (base + a) a; g := g.set! (base + a) (if p0 = 3 then 1 else 0); al := al.set! (base + a) true
      else if kd < 9 then
        -- add a vector (gain), monotone cost
        let (r1, wi) := r.below ga; r := r1
        let (r1, wj) := r.below gb; r := r1
        let (r1, p00) := genCost late 2 r; r := r1
        let p0 : Int := if style = 2 then p00 else -(((wi + wj : Nat) : Int)) - (if p00 > 0 then 1 else 0)
        for a in List.range ncls do
          f := f.set! (base + a) ((min (a / gb + wi) (ga - 1)) * gb + min (a % gb + wj) (gb - 1))
          g := g.set! (base + a) p0; al := al.set! (base + a) true
      else
        -- constant map, monotone cost
        let (r1, f0) := r.below ncls; r := r1
        for a in List.range ncls do
          let (r1, g0) := genCost late cmode r; r := r1
          let mut gaa := g0
          if a / gb > 0 then gaa := max gaa (g.getD (base + a - gb) 0)
          if a % gb > 0 then gaa := max gaa (g.getD (base + a - 1) 0)
          f := f.set! (base + a) f0; g := g.set! (base + a) gaa; al := al.set! (base + a) true
  -- states
  let (r1, pd) := r.below 4; r := r1
  let pdup := match pd with | 0 => 0 | 1 => 0 | 2 => 25 | _ => 60
  let mut cls : Array Nat := #[]
  let mut reps : Array (Array Nat) := Array.replicate ncls #[]
  for a in List.range ncls do
    reps := reps.set! a ((reps.getD a #[]).push cls.size); cls := cls.push a
    let (r1, x) := r.below 100; r := r1
    if x < pdup && cls.size + (ncls - a - 1) < pp.mmax then
      reps := reps.set! a ((reps.getD a #[]).push cls.size); cls := cls.push a
  let m := cls.size
  let (r1, swapMode) := r.below 3; r := r1
  let mut trl : Array Nat := Array.replicate (n * m * 2) 0
  let mut cl : Array Int := Array.replicate (n * m * 2) 0
  let mut dl : Array Nat := Array.replicate (n * m) 0
  for k in List.range n do
    for s in List.range m do
      let a := cls.getD s 0
      let (r1, sw0) := r.below 2; r := r1
      let sw := if swapMode = 0 then 0 else sw0
      let mut mask := 0
      for b in [0, 1] do
        let d := if sw = 1 then 1 - b else b
        let base := (k * 2 + d) * ncls
        let fc := f.getD (base + a) 0
        let rp := reps.getD fc #[]
        let (r1, j) := r.below rp.size; r := r1
        trl := trl.set! ((k * m + s) * 2 + b) (rp.getD j 0)
        cl := cl.set! ((k * m + s) * 2 + b) (g.getD (base + a) 0)
        if al.getD (base + a) false then mask := mask + (if b = 0 then 1 else 2)
      dl := dl.set! (k * m + s) mask
  -- initial state
  let (r1, im) := r.below 3; r := r1
  let (r1, ir) := r.below m; r := r1
  let init := if im = 0 then ir else (reps.getD (ncls - 1) #[]).getD 0 0
  -- join table
  let (r1, jm) := r.below 4; r := r1
  let mut jl : Array Nat := Array.replicate (m * m) 0
  for s in List.range m do
    for t in List.range m do
      let mut cj := cjoin (cls.getD s 0) (cls.getD t 0)
      if jm = 0 then
        let (r1, u) := r.below ncls; r := r1
        let (r1, x) := r.below 3; r := r1
        if x = 0 then cj := cjoin cj u
      let rp := reps.getD cj #[]
      let (r1, j) := r.below rp.size; r := r1
      jl := jl.set! (s * m + t) (rp.getD j 0)
  let (r1, bp) := r.below 5; r := r1
  let (r1, rv) := r.below 2; r := r1
  -- ranking: a random permutation (ranks may tie with small probability: then the order of creation decides)
  let (r1, rkl) := r.listOf m (fun r => r.below (m + 2)); r := r1
  let co := cls.toList.map (fun a => (((a / gb : Nat) : Int), ((a % gb : Nat) : Int)))
  let T0 : Tab := { n := n, m := m, init := init, co := co, trl := trl.toList, cl := cl.toList, dl := dl.toList, jl := jl.toList,
                    rubl := List.replicate m 0, rk := rkl, bump := if bp = 0 then 1 else 0, rev := rv = 1 }
  -- value-to-go rows: rows[j][s]
  let mut rows : Array (Array (Option Int)) := #[Array.replicate m (some 0)]
  for j in List.range n do
    let k := n - (j + 1)
    let prev := rows.getD j #[]
    let mut row : Array (Option Int) := #[]
    for s in List.range m do
      let v0 := if allowed T0 k s false then ((prev.getD (tr T0 k s false) none).map (· + c T0 k s false)) else none
      let v1 := if allowed T0 k s true then ((prev.getD (tr T0 k s true) none).map (· + c T0 k s true)) else none
      row := row.push (emax v0 v1)
    rows := rows.push row
  -- reachable states per depth (for the secondary regime)
  let mut reach : Array (Array Bool) := #[(Array.replicate m false).set! init true]
  for k in List.range n do
    let cur := reach.getD k #[]
    let mut nx : Array Bool := Array.replicate m false
    for s in List.range m do
      if cur.getD s false then
        for b in [false, true] do
          if allowed T0 k s b then nx := nx.set! (tr T0 k s b) true
    reach := reach.push nx
  let (r1, rm0) := r.below 2; r := r1
  let rm := if pp.rubMode = 2 then 2 else rm0
  let allV := rows.foldl (fun a row => row.foldl (fun a v => match v with | some x => max a x | none => a) a) (0 : Int)
  let (r1, sl0) := r.below 4; r := r1
  let slack0 : Int := match sl0 with | 0 => 0 | 1 => 1 | 2 => 3 | _ => 20
  let mut rubl : Array Int := #[]
  for s in List.range m do
    let (r1, sl) := r.below 4; r := r1
    let slack : Int := match sl with | 0 => 0 | 1 => 0 | 2 => 1 | _ => 3
    if rm = 0 then rubl := rubl.push (allV + slack0)
    else if rm = 1 then
      let best := (List.range (n + 1)).foldl (fun (a : Option Int) j => emax a ((rows.getD j #[]).getD s none)) none
      rubl := rubl.push ((best.getD (-3)) + slack)
    else
      -- secondary regime: only the exactly reachable items the state dominates count (depth k = n - j)
      let best := (List.range (n + 1)).foldl (fun (a : Option Int) j =>
        let k := n - j
        (List.range m).foldl (fun (a : Option Int) u =>
          if (reach.getD k #[]).getD u false && geS T0 s u then emax a ((rows.getD j #[]).getD u none) else a) a) none
      rubl := rubl.push ((best.getD (-3)) + slack)
  return (r, { T0 with rubl := rubl.toList })

def genWs (r : Rng) (T : Tab) : Rng × List Nat :=
  let len := (T.n + 1) * T.m
  let (r, wm) := r.below 6
  match wm with
  | 0 => (r, List.replicate len 1)
  | 1 => (r, List.replicate len 2)
  | 2 =>
    let (r, k) := r.below 4
    (r, (List.range len).map (fun i => if i / T.m < k then 1 else 2))
  | 3 =>
    let (r, k) := r.below 4
    (r, (List.range len).map (fun i => if i / T.m < k then 2 else 1))
  | _ => r.listOf len (fun r => let (r, w) := r.below 3; (r, w + 1))

structure Tally where
  models : Nat := 0
  infeasible : Nat := 0
  checkFail : Nat := 0
  runs : Nat := 0
  turns : Nat := 0
  bad : Nat := 0
  panics : Nat := 0
  tieCfg : Nat := 0
  rDom : Nat := 0          -- runs in which the checker prunes
  rCache : Nat := 0        -- runs in which the cache prunes a node of a layer
  rCacheInexact : Nat := 0 -- … an inexact node
  rRefused : Nat := 0      -- runs in which `must_explore` refuses a popped node
  rRootDom : Nat := 0      -- runs in which the checker drops the root of a popped sub-problem
  rBoth : Nat := 0         -- checker prunes and cache prunes an inexact node in the same run
  rLong : Nat := 0         -- runs of at least 5 turns
  invBad : Nat := 0        -- visited states violating the conjectured joint invariant
  invRuns : Nat := 0       -- runs with such a state
  anyRuns : Nat := 0       -- runs with an arbitrary pop order (not best-first)
  anyBad : Nat := 0        -- … that do not hold the optimum at the empty fringe
  anyInvBad : Nat := 0     -- … visited states violating the invariant
  nPartial : Nat := 0       -- models whose order is not total (incomparable states)
  coarse : Nat := 0        -- models with several states per grid point
  deriving Repr

def Tally.add (a b : Tally) : Tally :=
  { models := a.models + b.models, infeasible := a.infeasible + b.infeasible, checkFail := a.checkFail + b.checkFail,
    runs := a.runs + b.runs, turns := a.turns + b.turns, bad := a.bad + b.bad, panics := a.panics + b.panics,
    tieCfg := a.tieCfg + b.tieCfg, rDom := a.rDom + b.rDom, rCache := a.rCache + b.rCache,
    rCacheInexact := a.rCacheInexact + b.rCacheInexact, rRefused := a.rRefused + b.rRefused, rRootDom := a.rRootDom + b.rRootDom,
    rBoth := a.rBoth + b.rBoth, rLong := a.rLong + b.rLong, invBad := a.invBad + b.invBad, invRuns := a.invRuns + b.invRuns, anyRuns := a.anyRuns + b.anyRuns, anyBad := a.anyBad + b.anyBad, anyInvBad := a.anyInvBad + b.anyInvBad, nPartial := a.nPartial + b.nPartial, coarse := a.coarse + b.coarse }

def Tally.count (t : Tally) (o : RunOut) (ok : Bool) : Tally :=
  { t with runs := t.runs + 1, turns := t.turns + o.turns, bad := t.bad + (if ok then 0 else 1),
           panics := t.panics + (if o.panic then 1 else 0),
           rDom := t.rDom + (if o.fl.ndom > 0 then 1 else 0), rCache := t.rCache + (if o.fl.ncache > 0 then 1 else 0),
           rCacheInexact := t.rCacheInexact + (if o.fl.ncacheInexact > 0 then 1 else 0),
           rRefused := t.rRefused + (if o.fl.refused > 0 then 1 else 0),
           rRootDom := t.rRootDom + (if o.fl.rootDom > 0 then 1 else 0),
           rBoth := t.rBoth + (if o.fl.ndom > 0 && o.fl.ncacheInexact > 0 then 1 else 0),
           rLong := t.rLong + (if o.turns ≥ 5 then 1 else 0), invBad := t.invBad + o.invBad,
           invRuns := t.invRuns + (if o.invBad > 0 then 1 else 0) }

def showTab (T : Tab) : String :=
  s!"n := {T.n}, m := {T.m}, init := {T.init}, co := {T.co}, trl := {T.trl}, cl := {T.cl}, dl := {T.dl}, jl := {T.jl}, rubl := {T.rubl}, rk := {T.rk}, bump := {T.bump}, rev := {T.rev}"

def oneModel (r0 : Rng) (T : Tab) (opt : Int) (nrand : Nat) (tally : Tally) (log : Array String) :
    Rng × Tally × Array String := Id.run do
  let mut r := r0
  let mut tally := tally
  let mut log := log
  let good := goodTable T opt
  let chk := invOk T opt good
  for (dedup, kind) in [(false, CutsetKind.lel), (false, CutsetKind.frontier), (true, CutsetKind.lel), (true, CutsetKind.frontier)] do
    let (r1, ws) := genWs r T; r := r1
    let dvv := dv T ws dedup kind
    let s0 := KDSt.init dvv
    let (_, o) := runBF dvv chk false 80 none s0 {}
    let ok := o.complete && !o.panic && !o.crashed && o.value == opt
    tally := tally.count o ok
    if o.invBad > 0 && tally.invRuns ≤ 3 then
      log := log.push s!"INV det dedup={dedup} kind={repr kind} ws={ws} opt={opt} got={o.value} invBad={o.invBad} sched={o.sched.reverse} | {showTab T}"
    if !ok then
      log := log.push s!"FAIL det dedup={dedup} kind={repr kind} ws={ws} opt={opt} got={o.value} complete={o.complete} panic={o.panic} sched={o.sched.reverse} | {showTab T}"
    if o.tie then
      tally := { tally with tieCfg := tally.tieCfg + 1 }
      for _ in List.range nrand do
        let (g, o2) := runBF dvv chk false 80 (some r) s0 {}
        r := g.getD r
        let ok2 := o2.complete && !o2.panic && !o2.crashed && o2.value == opt
        tally := tally.count o2 ok2
        if !ok2 then
          log := log.push s!"FAIL rnd dedup={dedup} kind={repr kind} ws={ws} opt={opt} got={o2.value} complete={o2.complete} panic={o2.panic} sched={o2.sched.reverse} | {showTab T}"
  return (r, tally, log)

/-- arbitrary pop orders (the statement `KDStep` is about best-first pops; the cache-only theorem holds for every order) -/
def anyOrderRuns (r0 : Rng) (T : Tab) (opt : Int) (nany : Nat) (tally : Tally) (log : Array String) :
    Rng × Tally × Array String := Id.run do
  let mut r := r0
  let mut tally := tally
  let mut log := log
  let chk := invOk T opt (goodTable T opt)
  for (dedup, kind) in [(false, CutsetKind.lel), (true, CutsetKind.frontier), (false, CutsetKind.frontier), (true, CutsetKind.lel)] do
    let (r1, ws) := genWs r T; r := r1
    let dvv := dv T ws dedup kind
    for _ in List.range nany do
      let (g, o) := runBF dvv chk true 80 (some r) (KDSt.init dvv) {}
      r := g.getD r
      let ok := o.complete && !o.panic && !o.crashed && o.value == opt
      tally := { tally with anyRuns := tally.anyRuns + 1, anyBad := tally.anyBad + (if ok then 0 else 1),
                            anyInvBad := tally.anyInvBad + o.invBad }
      if (!ok || o.invBad > 0) && tally.anyBad + tally.anyInvBad ≤ 6 then
        log := log.push s!"ANYORDER {if ok then "INV" else "FAIL"} dedup={dedup} kind={repr kind} ws={ws} opt={opt} got={o.value} complete={o.complete} panic={o.panic} invBad={o.invBad} sched={o.sched.reverse} | {showTab T}"
  return (r, tally, log)

def search (seed count nrand : Nat) (pp : Params) : Tally × Array String := Id.run do
  let mut r : Rng := ⟨seed.toUInt64 * 0x2545F4914F6CDD1D + 99991⟩
  let mut tally : Tally := {}
  let mut log : Array String := #[]
  let mut tries := 0
  while tally.models < count && tries < count * 50 do
    tries := tries + 1
    let (r1, T) := genModel r pp
    r := r1
    let full := tries % 64 == 1
    let okc := checkShape T && checkSim T && checkJoin T && (if full && pp.rubMode != 2 then checkRub T else true)
    if !okc then
      tally := { tally with checkFail := tally.checkFail + 1 }
      if tally.checkFail ≤ 3 then log := log.push s!"CHECKFAIL shape={checkShape T} sim={checkSim T} join={checkJoin T} | {showTab T}"
    else
      match optimum T with
      | none => tally := { tally with infeasible := tally.infeasible + 1 }
      | some opt =>
        let isPartial := (List.range T.m).any (fun a => (List.range T.m).any (fun b => !geS T a b && !geS T b a))
        let isCoarse := (List.range T.m).any (fun a => (List.range T.m).any (fun b => a != b && geS T a b && geS T b a))
        tally := { tally with models := tally.models + 1, nPartial := tally.nPartial + (if isPartial then 1 else 0),
                              coarse := tally.coarse + (if isCoarse then 1 else 0) }
        let (r2, t2, l2) := oneModel r T opt nrand tally log
        r := r2; tally := t2; log := l2
        if pp.nany > 0 then
          let (r3, t3, l3) := anyOrderRuns r T opt pp.nany tally log
          r := r3; tally := t3; log := l3
  return (tally, log)

/-! ## mutation search around `Shadow` (`Proofs/CompatShadow.lean`) with an honest rough upper bound

`Shadow` loses the optimum because the rough upper bound of the shadow state is below its value-to-go.  With the bound repaired
(`rubl[s] ≥` the value-to-go of `s` at every depth) the solver is right on it; this mode applies `1 … kmax` random point mutations
(a transition, a cost, a domain mask, a join entry, a pair of coordinates, a width), keeps the mutants that still satisfy `SimAll`
and `MergeCompat` (`checkSim`, `checkJoin`; the bound is re-raised above the value-to-go), and runs them in the four
configurations. -/

def honest (T : Tab) : Tab :=
  let rows := (List.range (T.n + 1)).map (fun j => (List.range T.m).map (fun s => vfrom T j s))
  { T with rubl := (List.range T.m).map (fun s =>
      rows.foldl (fun (a : Int) row => match row.getD s none with | some x => max a x | none => a) (T.rubl.getD s 0)) }

def mutate (r : Rng) (T : Tab) (ws : List Nat) (k : Nat) : Rng × Tab × List Nat :=
  (List.range k).foldl (fun (acc : Rng × Tab × List Nat) _ =>
    let (r, T, ws) := acc
    let (r, what) := r.below 12
    if what < 4 then
      let (r, i) := r.below T.trl.length
      let (r, v) := r.below T.m
      (r, { T with trl := T.trl.set i v }, ws)
    else if what < 7 then
      let (r, i) := r.below T.cl.length
      let (r, v) := r.below 9
      (r, { T with cl := T.cl.set i ((v : Int) - 3) }, ws)
    else if what < 8 then
      let (r, i) := r.below T.dl.length
      let (r, v) := r.below 3
      (r, { T with dl := T.dl.set i (v + 1) }, ws)
    else if what < 9 then
      let (r, i) := r.below T.jl.length
      let (r, v) := r.below T.m
      (r, { T with jl := T.jl.set i v }, ws)
    else if what < 11 then
      let (r, i) := r.below T.m
      let (r, j) := r.below T.m
      let (r, w) := r.below 3
      -- move state `i` next to state `j` in the order (just above, just below on one coordinate, or same coordinates)
      let pj := T.co.getD j (0, 0)
      let np : Int × Int := match w with | 0 => (pj.1 + 1, pj.2) | 1 => (pj.1, pj.2 - 1) | _ => pj
      (r, { T with co := T.co.set i np }, ws)
    else
      let (r, i) := r.below ws.length
      let (r, v) := r.below 3
      (r, T, ws.set i (v + 1))) (r, T, ws)

def searchMut (seed count nrand kmax : Nat) : Tally × Array String := Id.run do
  let mut r : Rng := ⟨seed.toUInt64 * 0x2545F4914F6CDD1D + 424243⟩
  let mut tally : Tally := {}
  let mut log : Array String := #[]
  let mut tries := 0
  let base := honest Ddo.C10d.Shadow.T
  while tally.models < count && tries < count * 2000 do
    tries := tries + 1
    let (r1, k) := r.below kmax; r := r1
    let (r2, T1, ws) := mutate r base Ddo.C10d.Shadow.ws (k + 1); r := r2
    let T := honest T1
    if checkShape T && checkSim T && checkJoin T then
      match optimum T with
      | none => tally := { tally with infeasible := tally.infeasible + 1 }
      | some opt =>
        tally := { tally with models := tally.models + 1 }
        -- fixed widths of the mutant (not redrawn per configuration)
        for (dedup, kind) in [(false, CutsetKind.lel), (false, CutsetKind.frontier), (true, CutsetKind.lel), (true, CutsetKind.frontier)] do
          let dvv := dv T ws dedup kind
          let (_, o) := runBF dvv (invOk T opt (goodTable T opt)) false 80 none (KDSt.init dvv) {}
          let ok := o.complete && !o.panic && !o.crashed && o.value == opt
          tally := tally.count o ok
          if o.invBad > 0 && tally.invRuns ≤ 3 then
            log := log.push s!"INV mut dedup={dedup} kind={repr kind} ws={ws} opt={opt} got={o.value} invBad={o.invBad} sched={o.sched.reverse} | {showTab T}"
          if !ok then
            log := log.push s!"FAIL mut dedup={dedup} kind={repr kind} ws={ws} opt={opt} got={o.value} complete={o.complete} panic={o.panic} sched={o.sched.reverse} | {showTab T}"
    else
      tally := { tally with checkFail := tally.checkFail + 1 }
  return (tally, log)

/-- `args = [seed, count, nrand, nlo, nhi, mmax, rubMode, gmax, mode, nany]` (`mode = 1`: mutation search around `Shadow`, `nlo` =
    largest number of mutations; `nany`: runs with an arbitrary pop order per configuration) -/
def searchMain (args : List String) : IO UInt32 := do
  let a := args.map String.toNat!
  let seed := a.getD 0 1
  let count := a.getD 1 1000
  let nrand := a.getD 2 3
  let pp : Params := { nlo := a.getD 3 4, nhi := a.getD 4 7, mmax := a.getD 5 10, rubMode := a.getD 6 0, gmax := a.getD 7 3, nany := a.getD 9 0 }
  -- sanity of the runner: `Twin` (merge not rule-maximal) must come out wrong (5 instead of 10)
  let dT := Ddo.C10c.Twin.dv false .lel
  let (_, oT) := runBF dT (fun _ => true) false 80 none (KDSt.init dT) {}
  IO.println s!"sanity Twin: complete={oT.complete} value={oT.value} (optimum 10) turns={oT.turns} rootDom={oT.fl.rootDom} cacheInexact={oT.fl.ncacheInexact}"
  let dS := dv (honest Ddo.C10d.Shadow.T) Ddo.C10d.Shadow.ws false .lel
  let (_, oS) := runBF dS (invOk (honest Ddo.C10d.Shadow.T) 10 (goodTable (honest Ddo.C10d.Shadow.T) 10)) false 80 none (KDSt.init dS) {}
  let dS0 := dv Ddo.C10d.Shadow.T Ddo.C10d.Shadow.ws false .lel
  let (_, oS0) := runBF dS0 (invOk Ddo.C10d.Shadow.T 10 (goodTable Ddo.C10d.Shadow.T 10)) false 80 none (KDSt.init dS0) {}
  IO.println s!"sanity Shadow: value={oS0.value} (optimum 10); with an honest rough upper bound: value={oS.value} turns={oS.turns}; states violating the invariant: {oS0.invBad} / {oS.invBad}"
  let chunk := 200
  let mut done := 0
  let mut total : Tally := {}
  let mut k := 0
  while done < count do
    let cnt := min chunk (count - done)
    let (t, log) := if a.getD 8 0 = 1 then searchMut (seed * 1000003 + k) cnt nrand pp.nlo else search (seed * 1000003 + k) cnt nrand pp
    for l in log do IO.println l
    total := total.add t
    done := done + t.models
    k := k + 1
    if k % 25 = 0 || done ≥ count then
      IO.println s!"progress seed={seed} models={total.models} nPartial={total.nPartial} coarse={total.coarse} infeasible={total.infeasible} checkFail={total.checkFail} runs={total.runs} turns={total.turns} BAD={total.bad} panics={total.panics} tieCfg={total.tieCfg} | dom={total.rDom} cache={total.rCache} cacheInexact={total.rCacheInexact} refused={total.rRefused} rootDom={total.rRootDom} both={total.rBoth} long={total.rLong} INVBAD={total.invBad} invRuns={total.invRuns} | anyorder runs={total.anyRuns} BAD={total.anyBad} INVBAD={total.anyInvBad}"
      (← IO.getStdout).flush
    if t.models = 0 then break
  return 0

end Ddo.C10d.Search
