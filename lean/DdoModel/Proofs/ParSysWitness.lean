import DdoModel.Proofs.ParSysInv
/-! A concrete two-thread run of the concrete parallel system `ParSys`, built step by step from the
    initial state, used for

    * non-vacuity: the hypotheses of the theorems of `Props/C03b.lean` (`PhiOk`, the contracts, the
      initial conditions) are satisfied by a concrete instance, and the run reaches aborted / completed
      states in which the conclusions can be read off;
    * the violation witness of defect D4b: with the `abort_search` formula between fixes D4 and D4b
      (`ParCrit.abortSearchD4`) the same run ends — every worker gone, `maximize()` returns — with
      `best_ub = 10 < 15 = best_lb = opt`.

    The instance: root `R` (potential 15), whose relaxed diagram has the cut-set `{M, N}` with
    `M.ub = 20` (potential 15) and `N.ub = 10` (potential 7).  Thread B takes `M`, thread A takes `N`;
    B's restricted diagram of `M` is exact and finds 15, B updates the incumbent and acknowledges its node
    (`upper_bounds[B] := MIN`); then A's restricted compilation of `N` is cut off and A calls
    `abort_search(N.ub = 10)`: nothing is in the fringe, `upper_bounds = [10, MIN]`. -/
set_option linter.unusedSectionVars false
set_option linter.unusedVariables false
namespace Ddo.ParSys
variable {S : Type} [DecidableEq S]

/-! ### forward execution helpers: the successor state of the sections whose `Step` has an existential -/

theorem StepG.head {ab : ParCrit S → Int → Option Int → ParCrit S} {dedup : Bool}
    {okR okX : SubP S → Int → DDOut S → Prop} {s t u : Sys S}
    (h : StepG ab dedup okR okX s t) (r : RunG ab dedup okR okX t u) : RunG ab dedup okR okX s u := by
  induction r with
  | refl => exact RunG.tail (RunG.refl _) h
  | tail _ hst ih => exact RunG.tail ih hst

def nItem (s : Sys S) (i : Nat) (N : SubP S) (rest : List (SubP S)) : Sys S :=
  { crit := ((setFringe s.crit rest).take i N).getD s.crit, ws := s.ws.set i (.readR N) }

theorem step_item {ab : ParCrit S → Int → Option Int → ParCrit S} {dedup : Bool}
    {okR okX : SubP S → Int → DDOut S → Prop} (s : Sys S) (i : Nat) (N : SubP S) (rest : List (SubP S))
    (hw : s.ws[i]? = some .idle) (ha : s.crit.base.abort = false) (hp : PopMax s.crit.base.fringe N rest)
    (hgt : ¬ N.ub ≤ s.crit.base.bestLb) (ht : ((setFringe s.crit rest).take i N).isSome = true) :
    StepG ab dedup okR okX s (nItem s i N rest) := by
  have hl : popLoop (setFringe s.crit rest) [(N, true)] 0 = (setFringe s.crit rest, some (some N), 1) := by
    rw [popLoop_single]; exact if_neg hgt
  unfold nItem
  cases h : (setFringe s.crit rest).take i N with
  | none => rw [h] at ht; cases ht
  | some c'' => exact StepG.gwItem s i N rest _ N 1 c'' hw ha hp hl h

def nNotify (s : Sys S) (i : Nat) (d : Nat) (te : Bool) : Sys S :=
  { crit := (s.crit.notifyFinished i d).getD s.crit, ws := (s.ws.map WSt.wake).set i (if te then .done else .idle) }

theorem step_notify {ab : ParCrit S → Int → Option Int → ParCrit S} {dedup : Bool}
    {okR okX : SubP S → Int → DDOut S → Prop} (s : Sys S) (i : Nat) (n : SubP S) (te : Bool)
    (hw : s.ws[i]? = some (.fin n te)) (hn : (s.crit.notifyFinished i n.depth).isSome = true) :
    StepG ab dedup okR okX s (nNotify s i n.depth te) := by
  unfold nNotify
  cases h : s.crit.notifyFinished i n.depth with
  | none => rw [h] at hn; cases hn
  | some c' => exact StepG.notify s i n te c' hw h

/-! ### the instance -/
namespace Wit

def P0 : Problem Nat :=
  { nbVars := 1, init := 0, initVal := 0, trans := fun s _ => s, cost := fun _ _ _ => 0,
    nextVar := fun _ _ => none, domain := fun _ _ => [], impacted := fun _ _ => true }

def R : SubP Nat := { state := 0, value := 0, path := [], ub := iMax, depth := 0 }
def M : SubP Nat := { state := 1, value := 0, path := [], ub := 20, depth := 1 }
def N : SubP Nat := { state := 2, value := 0, path := [], ub := 10, depth := 1 }

/-- potentials: the root and `M` can be completed to 15, `N` to 7 -/
def Phi (c : SubP Nat) : EInt :=
  match c.state with
  | 0 => some 15
  | 1 => some 15
  | 2 => some 7
  | _ => none
def opt : Int := 15
def Sol (_ : List Dec) (w : Int) : Prop := w = 15

/-- restricted diagram of the root: not exact, finds nothing -/
def r0 : DDOut Nat := { isExact := false, bestExact := none, bestExactSol := none, cutset := [] }
/-- relaxed diagram of the root: not exact, cut-set `{M, N}` -/
def x0 : DDOut Nat := { isExact := false, bestExact := none, bestExactSol := none, cutset := [M, N] }
/-- restricted diagram of `M`: exact, finds the optimum -/
def rM : DDOut Nat := { isExact := true, bestExact := some 15, bestExactSol := some [⟨0, 1⟩], cutset := [] }

theorem phiOk : PhiOk Phi false := ⟨fun _ _ => rfl, fun h => by cases h⟩

theorem r0_ok (lb : Int) : OkR Phi opt Sol R lb r0 :=
  ⟨(fun w h => by cases h), (fun w h => by cases h), (fun h => by cases h)⟩

theorem x0_ok (lb : Int) : OkX Phi opt Sol R lb x0 := by
  refine ⟨⟨(fun w h => by cases h), (fun w h => by cases h), (fun h => by cases h)⟩, fun _ => ?_⟩
  have hM : Phi M = some 15 := rfl
  have hN : Phi N = some 7 := rfl
  have hR : Phi R = some 15 := rfl
  have hmem : ∀ c ∈ x0.cutset, c = M ∨ c = N := by
    intro c hc
    have hc : c ∈ [M, N] := hc
    simpa using hc
  refine ⟨?_, ?_, ?_, ?_⟩
  · intro c hc y hy
    rcases hmem c hc with rfl | rfl
    · rw [hM] at hy; injection hy with hy; subst hy; decide
    · rw [hN] at hy; injection hy with hy; subst hy; decide
  · intro c hc y hy _
    rcases hmem c hc with rfl | rfl
    · rw [hM] at hy; injection hy with hy; subst hy; decide
    · rw [hN] at hy; injection hy with hy; subst hy; decide
  · intro y hy _ _
    rw [hR] at hy; injection hy with hy; subst hy
    exact ⟨M, List.mem_cons_self, 15, hM, Int.le_refl _⟩
  · intro c hc y hy
    rcases hmem c hc with rfl | rfl
    · rw [hM] at hy; injection hy with hy; subst hy; exact ⟨15, hR, by decide⟩
    · rw [hN] at hy; injection hy with hy; subst hy; exact ⟨15, hR, by decide⟩

theorem rM_ok (lb : Int) : OkR Phi opt Sol M lb rM := by
  have hM : Phi M = some 15 := rfl
  refine ⟨fun w h => ?_, fun w h => ?_, fun _ y hy _ => ?_⟩
  · have h : some (15 : Int) = some w := h
    injection h with h; subst h
    exact ⟨_, rfl, rfl, Int.le_refl _⟩
  · have h : some (15 : Int) = some w := h
    injection h with h; subst h
    exact ⟨15, hM, Int.le_refl _⟩
  · rw [hM] at hy; injection hy with hy; subst hy; rfl

/-! ### the run up to the cut-off (no `abort_search` yet: valid for any formula `ab`) -/

def w0 : Sys Nat := Sys.init P0 none false 2
def w1 : Sys Nat := nItem w0 0 R []
def w2 : Sys Nat := { crit := w1.crit, ws := w1.ws.set 0 (if R.ub ≤ w1.crit.readLb then .fin R false else .compR R w1.crit.readLb) }
def w3 : Sys Nat := { crit := w2.crit, ws := w2.ws.set 0 (WSt.afterR R iMin (.ok r0)) }
def w4 : Sys Nat := { crit := w3.crit.updateBest r0, ws := w3.ws.set 0 (if r0.isExact then .fin R false else .readX R) }
def w5 : Sys Nat := { crit := w4.crit, ws := w4.ws.set 0 (.compX R w4.crit.readLb) }
def w6 : Sys Nat := { crit := w5.crit, ws := w5.ws.set 0 (WSt.afterX R iMin (.ok x0)) }
def w7 : Sys Nat := { crit := w6.crit.updateBest x0, ws := w6.ws.set 0 (if x0.isExact then .fin R false else .enq R iMin x0) }
def w8 : Sys Nat := { crit := w7.crit.enqueue false x0.cutset, ws := w7.ws.set 0 (.fin R false) }
def w9 : Sys Nat := nNotify w8 0 R.depth false
def w10 : Sys Nat := nItem w9 1 M [N]
def w11 : Sys Nat := nItem w10 0 N []
def w12 : Sys Nat := { crit := w11.crit, ws := w11.ws.set 0 (if N.ub ≤ w11.crit.readLb then .fin N false else .compR N w11.crit.readLb) }
def w13 : Sys Nat := { crit := w12.crit, ws := w12.ws.set 1 (if M.ub ≤ w12.crit.readLb then .fin M false else .compR M w12.crit.readLb) }
def w14 : Sys Nat := { crit := w13.crit, ws := w13.ws.set 1 (WSt.afterR M iMin (.ok rM)) }
def w15 : Sys Nat := { crit := w14.crit.updateBest rM, ws := w14.ws.set 1 (if rM.isExact then .fin M false else .readX M) }
def w16 : Sys Nat := nNotify w15 1 M.depth false
def w17 : Sys Nat := { crit := w16.crit, ws := w16.ws.set 0 (WSt.afterR N iMin .cutoff) }


section
variable (ab : ParCrit Nat → Int → Option Int → ParCrit Nat)

local notation "St" => StepG ab false (OkR Phi opt Sol) (OkX Phi opt Sol)

theorem s1 : St w0 w1 :=
  step_item w0 0 R [] rfl rfl ⟨List.Perm.refl _, fun c hc => by cases hc⟩ (by decide) (by decide)
theorem s2 : St w1 w2 := StepG.readLbR w1 0 R rfl
theorem s3 : St w2 w3 := StepG.compileR w2 0 R iMin (.ok r0) rfl (fun o h => by injection h with h; subst h; exact r0_ok _)
theorem s4 : St w3 w4 := StepG.updateR w3 0 R iMin r0 rfl
theorem s5 : St w4 w5 := StepG.readLbX w4 0 R rfl
theorem s6 : St w5 w6 := StepG.compileX w5 0 R iMin (.ok x0) rfl (fun o h => by injection h with h; subst h; exact x0_ok _)
theorem s7 : St w6 w7 := StepG.updateX w6 0 R iMin x0 rfl
theorem s8 : St w7 w8 := StepG.enqueue w7 0 R iMin x0 rfl
theorem s9 : St w8 w9 := step_notify w8 0 R false rfl (by decide)


theorem fr9 : w9.crit.base.fringe = [N, M] := rfl

theorem s10 : St w9 w10 := by
  refine step_item w9 1 M [N] rfl rfl ⟨?_, fun c hc => ?_⟩ (by decide) (by decide)
  · rw [fr9]; exact List.Perm.swap M N []
  · have : c = N := by simpa using hc
    subst this; decide

theorem fr10 : w10.crit.base.fringe = [N] := rfl

theorem s11 : St w10 w11 :=
  step_item w10 0 N [] rfl rfl ⟨by rw [fr10], fun c hc => by cases hc⟩ (by decide) (by decide)
theorem s12 : St w11 w12 := StepG.readLbR w11 0 N rfl
theorem s13 : St w12 w13 := StepG.readLbR w12 1 M rfl
theorem s14 : St w13 w14 := StepG.compileR w13 1 M iMin (.ok rM) rfl (fun o h => by injection h with h; subst h; exact rM_ok _)
theorem s15 : St w14 w15 := StepG.updateR w14 1 M iMin rM rfl
theorem s16 : St w15 w16 := step_notify w15 1 M false rfl (by decide)
theorem s17 : St w16 w17 := StepG.compileR w16 0 N iMin .cutoff rfl (fun o h => by cases h)

/-- the state in which thread A is about to call `abort_search` is reachable, whatever the formula -/
theorem run17 : RunG ab false (OkR Phi opt Sol) (OkX Phi opt Sol) w0 w17 :=
  (s1 ab).head <| (s2 ab).head <| (s3 ab).head <| (s4 ab).head <| (s5 ab).head <| (s6 ab).head <| (s7 ab).head <|
  (s8 ab).head <| (s9 ab).head <| (s10 ab).head <| (s11 ab).head <| (s12 ab).head <| (s13 ab).head <| (s14 ab).head <|
  (s15 ab).head <| (s16 ab).head <| (s17 ab).head <| RunG.refl _

/-- thread A holds `N` (bound 10), thread B is idle, the incumbent is 15, the fringe is empty -/
theorem at17 : w17.ws = [.abortS N, .idle] ∧ w17.crit.base.bestLb = 15 ∧ w17.crit.base.fringe = [] ∧
    w17.crit.upperBounds = [10, iMin] ∧ w17.crit.base.abort = false ∧ w17.crit.ongoing = 1 :=
  ⟨rfl, rfl, rfl, rfl, rfl, rfl⟩


/-! ### the end of the run: `abort_search`, `notify_node_finished`, the other worker gets `Aborted` -/

def w18 : Sys Nat := { crit := ab w17.crit N.ub none, ws := w17.ws.set 0 (.fin N true) }
def w19 : Sys Nat := nNotify (w18 ab) 0 N.depth true
def w20 : Sys Nat := { crit := (w19 ab).crit, ws := (w19 ab).ws.set 1 .done }

theorem s18 : St w17 (w18 ab) := StepG.abort w17 0 N none rfl (Or.inl ⟨rfl, rfl⟩)

end

/-- the run with the formula between fixes D4 and D4b … -/
theorem runD4 : RunG ParCrit.abortSearchD4 false (OkR Phi opt Sol) (OkX Phi opt Sol) w0 (w20 ParCrit.abortSearchD4) := by
  have h19 : StepG ParCrit.abortSearchD4 false (OkR Phi opt Sol) (OkX Phi opt Sol) (w18 ParCrit.abortSearchD4) (w19 ParCrit.abortSearchD4) :=
    step_notify _ 0 N true rfl (by decide)
  have h20 : StepG ParCrit.abortSearchD4 false (OkR Phi opt Sol) (OkX Phi opt Sol) (w19 ParCrit.abortSearchD4) (w20 ParCrit.abortSearchD4) :=
    StepG.gwAborted _ 1 rfl rfl
  exact RunG.tail (RunG.tail (RunG.tail (run17 _) (s18 _)) h19) h20

/-- … ends, every worker gone, with `best_ub = 10 < 15 = best_lb = opt` -/
theorem endD4 : (w20 ParCrit.abortSearchD4).ws = [.done, .done] ∧ (w20 ParCrit.abortSearchD4).crit.base.abort = true ∧
    (w20 ParCrit.abortSearchD4).crit.base.bestLb = 15 ∧ (w20 ParCrit.abortSearchD4).crit.base.bestUb = 10 :=
  ⟨rfl, rfl, rfl, rfl⟩

/-- the same schedule with the code as it is now … -/
theorem runNow : Run false (OkR Phi opt Sol) (OkX Phi opt Sol) w0 (w20 ParCrit.abortSearch) := by
  have h19 : Step false (OkR Phi opt Sol) (OkX Phi opt Sol) (w18 ParCrit.abortSearch) (w19 ParCrit.abortSearch) :=
    step_notify _ 0 N true rfl (by decide)
  have h20 : Step false (OkR Phi opt Sol) (OkX Phi opt Sol) (w19 ParCrit.abortSearch) (w20 ParCrit.abortSearch) :=
    StepG.gwAborted _ 1 rfl rfl
  exact RunG.tail (RunG.tail (RunG.tail (run17 _) (s18 _)) h19) h20

/-- … ends with `best_lb = best_ub = 15 = opt` -/
theorem endNow : (w20 ParCrit.abortSearch).ws = [.done, .done] ∧ (w20 ParCrit.abortSearch).crit.base.abort = true ∧
    (w20 ParCrit.abortSearch).crit.base.bestLb = 15 ∧ (w20 ParCrit.abortSearch).crit.base.bestUb = 15 :=
  ⟨rfl, rfl, rfl, rfl⟩

/-- the initial conditions of `init_inv` hold for the instance -/
theorem inv0 : SysInv Phi opt Sol w0 :=
  init_inv Phi opt Sol P0 none false 2 (fun x hx => by
      have hx : some (15 : Int) = some x := hx
      injection hx with hx; subst hx; exact Int.le_refl _)
    (by decide) (by decide) (fun p hp => by cases hp) (fun _ => rfl)

/-! ### a run that completes: one thread, the restricted diagram of the root is exact -/

def rR : DDOut Nat := { isExact := true, bestExact := some 15, bestExactSol := some [⟨0, 1⟩], cutset := [] }

theorem rR_ok (lb : Int) : OkR Phi opt Sol R lb rR := by
  have hR : Phi R = some 15 := rfl
  refine ⟨fun w h => ?_, fun w h => ?_, fun _ y hy _ => ?_⟩
  · have h : some (15 : Int) = some w := h
    injection h with h; subst h
    exact ⟨_, rfl, rfl, Int.le_refl _⟩
  · have h : some (15 : Int) = some w := h
    injection h with h; subst h
    exact ⟨15, hR, Int.le_refl _⟩
  · rw [hR] at hy; injection hy with hy; subst hy; rfl

def c0 : Sys Nat := Sys.init P0 none false 1
def c1 : Sys Nat := nItem c0 0 R []
def c2 : Sys Nat := { crit := c1.crit, ws := c1.ws.set 0 (if R.ub ≤ c1.crit.readLb then .fin R false else .compR R c1.crit.readLb) }
def c3 : Sys Nat := { crit := c2.crit, ws := c2.ws.set 0 (WSt.afterR R iMin (.ok rR)) }
def c4 : Sys Nat := { crit := c3.crit.updateBest rR, ws := c3.ws.set 0 (if rR.isExact then .fin R false else .readX R) }
def c5 : Sys Nat := nNotify c4 0 R.depth false

theorem runC : Run false (OkR Phi opt Sol) (OkX Phi opt Sol) c0 c5 := by
  have h1 : Step false (OkR Phi opt Sol) (OkX Phi opt Sol) c0 c1 :=
    step_item c0 0 R [] rfl rfl ⟨List.Perm.refl _, fun c hc => by cases hc⟩ (by decide) (by decide)
  have h2 : Step false (OkR Phi opt Sol) (OkX Phi opt Sol) c1 c2 := StepG.readLbR c1 0 R rfl
  have h3 : Step false (OkR Phi opt Sol) (OkX Phi opt Sol) c2 c3 :=
    StepG.compileR c2 0 R iMin (.ok rR) rfl (fun o h => by injection h with h; subst h; exact rR_ok _)
  have h4 : Step false (OkR Phi opt Sol) (OkX Phi opt Sol) c3 c4 := StepG.updateR c3 0 R iMin rR rfl
  have h5 : Step false (OkR Phi opt Sol) (OkX Phi opt Sol) c4 c5 := step_notify c4 0 R false rfl (by decide)
  exact RunG.tail (RunG.tail (RunG.tail (RunG.tail (RunG.tail (RunG.refl _) h1) h2) h3) h4) h5

/-- in `c5` the worker's `get_workload` answers `Complete` -/
theorem completesC : CompletesAt c5 0 := ⟨rfl, rfl, rfl, rfl⟩

theorem invC0 : SysInv Phi opt Sol c0 :=
  init_inv Phi opt Sol P0 none false 1 (fun x hx => by
      have hx : some (15 : Int) = some x := hx
      injection hx with hx; subst hx; exact Int.le_refl _)
    (by decide) (by decide) (fun p hp => by cases hp) (fun _ => rfl)

end Wit
end Ddo.ParSys
