import DdoModel.Proofs.ParDomOpReach
import DdoModel.Proofs.ParDomOpSpec
import DdoModel.Props.C10b
/-! # The exact phase of the operation-wise compilation (`compileOp`): oracle forms of `exact_diagram_dom`,
`restricted_isExact`, `relaxed_isExact_cases` -/
set_option linter.unusedSectionVars false
set_option linter.unusedVariables false
namespace Ddo.ParDom
open Ddo Ddo.Truth Ddo.Closed Ddo.C10
open Ddo.C01 (SolverCfg WellFormed toOut SolOf)
variable {S K : Type} [DecidableEq S] [DecidableEq K]

/-- the final diagram of the operation-wise compilation -/
def finOp (cfg : Cfg S K) (cache : Cache S) (τ : Nat → DomStore S K) (polls : Nat) : DD S K :=
  (buildLoopO cfg τ (cfg.P.nbVars + 2) (initDD cfg cache (τ 0) polls) 0 []).1.1

theorem ex_result (cfg : Cfg S K) (cache : Cache S) (τ : Nat → DomStore S K) (polls : Nat) :
    (compileOp cfg cache τ polls).2.1 = resultOf cfg (finOp cfg cache τ polls) := rfl

/-! ## finalize level -/

theorem restrictedOp_isExact (cfg : Cfg S K) (cache : Cache S) (τ : Nat → DomStore S K) (polls : Nat)
    (hres : cfg.ctype = .restricted) (hok : (compileOp cfg cache τ polls).1 = .ok)
    (he : (compileOp cfg cache τ polls).2.1.isExact = true) : (finOp cfg cache τ polls).lel = none := by
  rw [ex_result] at he
  unfold resultOf at he
  have e2 : (cfg.ctype == CompType.relaxed) = false := by rw [hres]; decide
  rw [e2] at he
  have e3 : ∀ b : Built S K, b.ebpMust false = false := fun _ => rfl
  rw [e3] at he
  have : (finalizeLayers (finOp cfg cache τ polls)).isExactField = true := by
    simpa [finalize] using he
  simpa [finalizeLayers] using this

theorem relaxedOp_isExact_cases (cfg : Cfg S K) (cache : Cache S) (τ : Nat → DomStore S K) (polls : Nat)
    (hrel : cfg.ctype = .relaxed) (hok : (compileOp cfg cache τ polls).1 = .ok)
    (he : (compileOp cfg cache τ polls).2.1.isExact = true) :
    (finOp cfg cache τ polls).lel = none ∨
    ((finalizeLayers (finOp cfg cache τ polls)).ebpMust true = true ∧
      (compileOp cfg cache τ polls).2.1.bestExactValue = (compileOp cfg cache τ polls).2.1.bestValue) := by
  have e2 : (cfg.ctype == CompType.relaxed) = true := by rw [hrel]; decide
  have hr : (compileOp cfg cache τ polls).2.1 =
      (finalize cfg (finalizeLayers (finOp cfg cache τ polls)) ((finalizeLayers (finOp cfg cache τ polls)).ebpMust true)).1 := by
    rw [ex_result]; unfold resultOf; rw [e2]
  rw [hr] at he ⊢
  rw [finalize_isExact] at he
  cases hm : (finalizeLayers (finOp cfg cache τ polls)).ebpMust true with
  | true =>
    right
    refine ⟨rfl, ?_⟩
    rw [finalize_bestExactValue, Ddo.finalize_bestValue]
    rfl
  | false =>
    left
    rw [hm, Bool.or_false] at he
    have : (finOp cfg cache τ polls).lel.isNone = true := he
    simpa using this

/-! ## the exact phase -/

/-- the invariant of the exact phase, without the store part (`stepLayerO` never touches `dd.store`) -/
structure ex_XInvO (Prot : Nat → S → Int → Prop) (dd : DD S K) : Prop where
  ex : dd.lel = none → ∀ n ∈ dd.next, n.isExact = true
  wit : dd.lel = none → ∃ n ∈ dd.next, Prot dd.depth n.state n.value

theorem ex_fcOf_id (cfg : Cfg S K) (hc : cfg.useCache = false) (dd : DD S K) :
    fcOf cfg dd = (dd.next, List.range dd.next.length) := by
  unfold fcOf
  split
  · rfl
  · exact Cover.filterCache_id cfg dd.cache dd.next _ hc (fun p hp => List.mem_range.mp hp)

theorem ex_stepLayerO_xinv (cfg : Cfg S K) (D : DomRule S K) (H : Nat → S → EInt) (opt : Int) (Prot : Nat → S → Int → Prop)
    (B : Int) (hy : DomHyp cfg D H opt Prot B) (p0 : List Dec) (τ : Nat → DomStore S K)
    (hτ : ∀ k, StoreReach D cfg.P (τ k) ∧ (τ k).layers.length = cfg.P.nbVars + 1)
    (dd : DD S K) (k : Nat) (ops : List (Op S)) (var : Nat) (dd' : DD S K) (k' : Nat) (ops' : List (Op S)) (oc : Outcome)
    (hX : ex_XInvO Prot dd) (hM : MInv cfg B p0 dd)
    (hdepth : dd.depth = cfg.root.depth + dd.layers.length)
    (hnv : cfg.P.nextVar dd.depth (dd.next.map (·.state)) = some var)
    (hlen : dd.layers.length ≤ cfg.P.nbVars + 1)
    (hst : stepLayerO cfg τ dd k ops var = (some (dd', k', ops'), oc)) :
    ex_XInvO Prot dd' ∧ (oc = .cutoff → dd'.next = []) := by
  obtain ⟨hM', hM2, _⟩ := stepLayerO_inv cfg B p0 hy.B τ dd k ops var hM hdepth hnv hlen dd' k' ops' oc hst
  by_cases hempty : dd.next.isEmpty = true
  · unfold stepLayerO at hst
    rw [if_pos hempty] at hst
    simp only [Prod.mk.injEq, Option.some.injEq] at hst
    obtain ⟨⟨rfl, rfl, rfl⟩, rfl⟩ := hst
    have hnil : dd.next = [] := List.isEmpty_iff.1 hempty
    refine ⟨⟨fun hl n hn => ?_, fun hl => ?_⟩, fun _ => hnil⟩
    · have hn' : n ∈ dd.next := hn
      rw [hnil] at hn'; cases hn'
    · obtain ⟨n, hn, _⟩ := hX.wit hl
      rw [hnil] at hn; cases hn
  · have hne' : dd.next.isEmpty = false := by simpa using hempty
    rw [stepLayerO_unfold cfg τ dd k ops var hne'] at hst
    have hfc := ex_fcOf_id cfg hy.cache dd
    have hfc1 : (fcOf cfg dd).1 = dd.next := by rw [hfc]
    have hfc2 : (fcOf cfg dd).2 = List.range dd.next.length := by rw [hfc]
    have hlt := nv_depth_lt hy.nv hnv
    have hcur : ∀ p ∈ List.range dd.next.length, p < dd.next.length := fun p hp => List.mem_range.mp hp
    have hdep : ∀ n ∈ dd.next, n.isExact = true → n.depth ≤ cfg.P.nbVars := by
      intro n hn he
      obtain ⟨_, _, _, hd, _⟩ := hM.next n hn he
      rw [hd, ← hdepth]; omega
    have hspec : ThEq (filterDomO cfg τ k (fcOf cfg dd).1 (fcOf cfg dd).2).1 dd.next ∧
        (filterDomO cfg τ k (fcOf cfg dd).1 (fcOf cfg dd).2).2.2.2.1 = true := by
      rw [hfc1, hfc2]
      obtain ⟨h1, _, h3, _⟩ := filterDomO_spec cfg D hy.dom cfg.P τ (fun j => (hτ j).1) cfg.P.nbVars (fun j => (hτ j).2)
        k dd.next _ hcur hdep
      exact ⟨h1, h3⟩
    obtain ⟨f1, f4⟩ := hspec
    have f6 : ∀ p n, dd.next[p]? = some n → (n.isExact = true → Prot dd.depth n.state n.value) →
        p ∈ (filterDomO cfg τ k (fcOf cfg dd).1 (fcOf cfg dd).2).2.1 := by
      rw [hfc1, hfc2]
      intro p n hp hpr
      refine filterDomO_protected cfg D hy.dom cfg.P H opt Prot hy.prot τ (fun j => (hτ j).1) k dd.next _ p
        (List.mem_range.mpr (Cover.lt_of_getElem?_some hp)) n hp (fun he => ?_)
      obtain ⟨_, _, _, hd, _⟩ := hM.next n (List.mem_of_getElem? hp) he
      rw [hd, ← hdepth]; exact hpr he
    have hsubS : SubS (filterDomO cfg τ k (fcOf cfg dd).1 (fcOf cfg dd).2).1 dd.next := by
      have := filterDomO_subS cfg τ k (fcOf cfg dd).1 (fcOf cfg dd).2
      exact this.trans (by rw [hfc1]; exact SubS.refl _)
    generalize fcOf cfg dd = fc at hst f1 f4 f6 hsubS
    generalize filterDomO cfg τ k fc.1 fc.2 = fd at hst f1 f4 f6 hsubS
    unfold stepTailO at hst
    split at hst
    · cases hst
    · split at hst
      · cases hst
      · rename_i lsq csq lgsq lel hsq
        simp only [Prod.mk.injEq, Option.some.injEq] at hst
        obtain ⟨⟨hdd, _, _⟩, hoc⟩ := hst
        subst hoc
        obtain ⟨hd', hl'⟩ := hM2 rfl
        have en : dd'.next = (expandAll cfg var dd.layers.length lsq csq lgsq).2.1 := by rw [← hdd]
        have ed : dd'.depth = dd.depth + 1 := by rw [← hdd]
        have ell : dd'.lel = lel := by rw [← hdd]
        have key : dd'.lel = none → (∀ n ∈ dd'.next, n.isExact = true) ∧ ∃ n ∈ dd'.next, Prot dd'.depth n.state n.value := by
          intro hl
          obtain ⟨q1, q2, hl0⟩ := squash_lel_none cfg dd fd.1 fd.2.1 (lsq, csq, lgsq, lel) hsq (ell ▸ hl)
          have q1' : lsq = fd.1 := q1
          have q2' : csq = fd.2.1 := q2
          subst q1' q2'
          have hex0 := hX.ex hl0
          obtain ⟨n, hn, hprot⟩ := hX.wit hl0
          obtain ⟨q, hq⟩ := List.mem_iff_getElem?.mp hn
          have hqk : q ∈ fd.2.1 := f6 q n hq (fun _ => hprot)
          have hexF : ∀ m ∈ fd.1, m.isExact = true := by
            intro m hm
            obtain ⟨i, hi⟩ := List.mem_iff_getElem?.mp hm
            obtain ⟨m0, hm0, hs⟩ := f1.get hi
            rw [(stripT_all hs).2.2.2.1]
            exact hex0 m0 (List.mem_of_getElem? hm0)
          have hsubE : SubE fd.1 dd.next := hsubS.toSub
          have hpar0 : ∀ n ∈ dd.next, ParOk cfg B p0 dd.layers (dd.next.map (·.state)) n := fun n hn =>
            ⟨hM.next n hn, fun _ => List.mem_map.2 ⟨n, hn, rfl⟩⟩
          have hpar := ParOk.of_sub hsubE hpar0
          have hE := Ddo.expandAll_inv cfg B p0 hy.B dd.layers hlen fd.1 (dd.next.map (·.state)) var (hdepth ▸ hnv)
            hpar fd.2.1 lgsq
          have hexN : ∀ c ∈ dd'.next, c.isExact = true := by
            rw [en]; exact hE.allEx hexF
          refine ⟨hexN, ?_⟩
          obtain ⟨n1, hn1, hs1⟩ := f1.symm.get hq
          obtain ⟨es1, ev1, _, _, _, _⟩ := stripT_all hs1
          obtain ⟨dec, hdec, hpc⟩ := hy.prot.step dd.depth n.state n.value _ var hprot hnv (List.mem_map_of_mem hn)
          obtain ⟨h, hH, hoh⟩ := addI_some' (hy.prot.opt _ _ _ hprot)
          obtain ⟨h', hH', hoh'⟩ := addI_some' (hy.prot.opt _ _ _ hpc)
          have hnex := hex0 n hn
          obtain ⟨_, _, _, _, hbnd⟩ := hM.next n hn hnex
          have hcost := hy.B.cost n.state (cfg.P.trans n.state ⟨var, dec⟩) ⟨var, dec⟩
          have hsmall := hy.B.small
          have hnn := hy.B.nonneg
          have hltd := nv_depth_lt hy.nv hnv
          have hBl : ((dd.layers.length : Int) + 2) * B ≤ ((cfg.P.nbVars : Int) + 2) * B :=
            Int.mul_le_mul_of_nonneg_right (by omega) hnn
          have hBl2 : ((dd.layers.length : Int) + 2) * B = ((dd.layers.length : Int) + 1) * B + B := by
            rw [show ((dd.layers.length : Int) + 2) = ((dd.layers.length : Int) + 1) + 1 by omega, Int.add_mul, Int.one_mul]
          have hsat : satAdd n.value (cfg.P.cost n.state (cfg.P.trans n.state ⟨var, dec⟩) ⟨var, dec⟩) =
              n.value + cfg.P.cost n.state (cfg.P.trans n.state ⟨var, dec⟩) ⟨var, dec⟩ := by
            unfold Bnd at hbnd
            apply Cover.satAdd_eq <;> (simp only [iMin, iMax]; omega)
          have hrub : satAdd (cfg.R.rub n.state) n.value > cfg.lb := by
            unfold satAdd
            apply clamp_gt hy.lb hy.gt hy.optLe
            have := hy.R dd.depth n.state h hH
            omega
          have hhas := Cover.fold_has_new cfg var dd.layers.length fd.2.1 (fd.1, [], lgsq) q hqk
            n.state n.value (by
              show ((fd.1).map Cover.key)[q]? = _
              rw [List.getElem?_map, hn1]
              simp only [Option.map_some, Cover.key, es1, ev1]) hrub dec hdec
          obtain ⟨m, hm, hms, hmv⟩ := hhas
          have hm' : m ∈ dd'.next := by rw [en]; exact hm
          refine ⟨m, hm', ?_⟩
          have hmex := hexN m hm'
          obtain ⟨_, _, hr, hmd, _⟩ := hM'.next m hm' hmex
          have hle := reach_le_root hy.P hr
          rw [hy.prot.opt _ _ _ hy.prot.root, hmd, ← hd', ed, hms, hH'] at hle
          have hle' : h' + m.value ≤ opt := by simpa [EInt.addI] using hle
          rw [hsat] at hmv
          have hval : m.value = n.value + cfg.P.cost n.state (cfg.P.trans n.state ⟨var, dec⟩) ⟨var, dec⟩ := by omega
          rw [ed, hms, hval]
          exact hpc
        exact ⟨⟨fun hl => (key hl).1, fun hl => (key hl).2⟩, fun h => by cases h⟩

/-- the loop: the exact-phase invariant holds of the final diagram, and if nothing was squashed the loop ended because no
    variable is left -/
theorem ex_buildLoopO_xinv (cfg : Cfg S K) (D : DomRule S K) (H : Nat → S → EInt) (opt : Int) (Prot : Nat → S → Int → Prop)
    (B : Int) (hy : DomHyp cfg D H opt Prot B) (p0 : List Dec) (τ : Nat → DomStore S K)
    (hτ : ∀ k, StoreReach D cfg.P (τ k) ∧ (τ k).layers.length = cfg.P.nbVars + 1) :
    ∀ (fuel : Nat) (dd : DD S K) (k : Nat) (ops : List (Op S)), ex_XInvO Prot dd → MInv cfg B p0 dd →
      dd.depth = cfg.root.depth + dd.layers.length → dd.layers.length + fuel ≤ cfg.P.nbVars + 2 →
      (buildLoopO cfg τ fuel dd k ops).2 = .ok →
      ex_XInvO Prot (buildLoopO cfg τ fuel dd k ops).1.1 ∧
      ((buildLoopO cfg τ fuel dd k ops).1.1.lel = none →
        cfg.P.nextVar (buildLoopO cfg τ fuel dd k ops).1.1.depth
          ((buildLoopO cfg τ fuel dd k ops).1.1.next.map (·.state)) = none) := by
  intro fuel
  induction fuel with
  | zero => intro dd k ops _ _ _ _ h; simp [buildLoopO] at h
  | succ fuel ih =>
    intro dd k ops hX hM hdepth hfuel hok
    cases hnv : cfg.P.nextVar dd.depth (dd.next.map (·.state)) with
    | none =>
      rw [buildLoopO_stop cfg τ fuel dd k ops hnv]
      exact ⟨⟨hX.ex, hX.wit⟩, fun _ => hnv⟩
    | some var =>
      rw [buildLoopO_step cfg τ fuel dd k ops var hnv] at hok ⊢
      have hM' : MInv cfg B p0 (tick dd var) := hM.congr rfl rfl
      have hXt : ex_XInvO Prot (tick dd var) := ⟨hX.ex, hX.wit⟩
      cases hs : stepLayerO cfg τ (tick dd var) k ops var with
      | mk o oc =>
        rw [hs] at hok
        cases o with
        | none => cases hok
        | some x =>
          obtain ⟨dd', k', ops'⟩ := x
          have hl : (tick dd var).layers.length ≤ cfg.P.nbVars + 1 := by show dd.layers.length ≤ _; omega
          obtain ⟨m1, m2, _⟩ := stepLayerO_inv cfg B p0 hy.B τ (tick dd var) k ops var hM' hdepth hnv hl dd' k' ops' oc hs
          obtain ⟨x1, x2⟩ := ex_stepLayerO_xinv cfg D H opt Prot B hy p0 τ hτ (tick dd var) k ops var dd' k' ops' oc
            hXt hM' hdepth hnv hl hs
          cases oc with
          | cutoff =>
            refine ⟨x1, fun hl' => ?_⟩
            exfalso
            obtain ⟨n, hn, _⟩ := x1.wit hl'
            rw [x2 rfl] at hn
            cases hn
          | crash => cases hok
          | ok =>
            obtain ⟨m2a, m2b⟩ := m2 rfl
            exact ih dd' k' ops' x1 m1 m2a (by rw [m2b]; show dd.layers.length + 1 + fuel ≤ _; omega) hok

/-- exact phase, whole operation-wise compilation -/
theorem ex_compileOp_exact_phase (cfg : Cfg S K) (D : DomRule S K) (H : Nat → S → EInt) (opt : Int)
    (Prot : Nat → S → Int → Prop)
    (B : Int) (hy : DomHyp cfg D H opt Prot B) (p0 : List Dec) (cache : Cache S) (τ : Nat → DomStore S K) (polls : Nat)
    (hroot : Reach cfg.P cfg.root.depth cfg.root.state cfg.root.value p0)
    (hprot : Prot cfg.root.depth cfg.root.state cfg.root.value)
    (hτ : ∀ k, StoreReach D cfg.P (τ k) ∧ (τ k).layers.length = cfg.P.nbVars + 1)
    (hok : (compileOp cfg cache τ polls).1 = .ok) (hl : (finOp cfg cache τ polls).lel = none) :
    ∃ n ∈ (finOp cfg cache τ polls).next, n.isExact = true ∧ n.value = opt := by
  have hX0 : ex_XInvO Prot (initDD cfg cache (τ 0) polls) := by
    refine ⟨fun _ n hn => ?_, fun _ => ⟨_, List.mem_singleton.mpr rfl, hprot⟩⟩
    simp only [initDD, List.mem_singleton] at hn
    subst hn; rfl
  have hbl : (buildLoopO cfg τ (cfg.P.nbVars + 2) (initDD cfg cache (τ 0) polls) 0 []).2 = .ok := hok
  obtain ⟨hX, hT⟩ := ex_buildLoopO_xinv cfg D H opt Prot B hy p0 τ hτ (cfg.P.nbVars + 2) (initDD cfg cache (τ 0) polls) 0 []
    hX0 (initDD_inv cfg B p0 hy.B hroot cache (τ 0) polls) rfl (by simp only [initDD, List.length_nil]; omega) hbl
  have hX' : ex_XInvO Prot (finOp cfg cache τ polls) := hX
  have hT' : (finOp cfg cache τ polls).lel = none →
      cfg.P.nextVar (finOp cfg cache τ polls).depth ((finOp cfg cache τ polls).next.map (·.state)) = none := hT
  obtain ⟨n, hn, hp⟩ := hX'.wit hl
  refine ⟨n, hn, hX'.ex hl n hn, ?_⟩
  have hterm := hy.P.term (finOp cfg cache τ polls).depth _ n.state (hT' hl) (List.mem_map_of_mem hn)
  have := hy.prot.opt _ _ _ hp
  rw [hterm] at this
  simpa [EInt.addI] using this

theorem exactOp_diagram (cfg : Cfg S K) (D : DomRule S K) (H : Nat → S → EInt) (opt : Int) (Prot : Nat → S → Int → Prop)
    (B : Int) (hy : DomHyp cfg D H opt Prot B) (p0 : List Dec) (cache : Cache S) (τ : Nat → DomStore S K) (polls : Nat)
    (hroot : Reach cfg.P cfg.root.depth cfg.root.state cfg.root.value p0)
    (hprot : Prot cfg.root.depth cfg.root.state cfg.root.value)
    (hτ : ∀ k, StoreReach D cfg.P (τ k) ∧ (τ k).layers.length = cfg.P.nbVars + 1)
    (hok : (compileOp cfg cache τ polls).1 = .ok) (hl : (finOp cfg cache τ polls).lel = none) :
    ∃ w, (compileOp cfg cache τ polls).2.1.bestExactValue = some w ∧ opt ≤ w := by
  obtain ⟨n, hn, he, hv⟩ := ex_compileOp_exact_phase cfg D H opt Prot B hy p0 cache τ polls hroot hprot hτ hok hl
  rw [ex_result]
  unfold resultOf
  rw [Bounds.finalize_bestExactValue, terminals_finalizeLayers]
  split
  · obtain ⟨w, h1, h2⟩ := Cover.maxValue_ge _ n hn
    refine ⟨w, ?_, by omega⟩
    unfold Built.bestValue
    rw [terminals_finalizeLayers]; exact h1
  · obtain ⟨w, h1, h2⟩ := maxValue_filter_ge _ n hn he
    exact ⟨w, h1, by omega⟩

#print axioms exactOp_diagram
#print axioms restrictedOp_isExact
#print axioms relaxedOp_isExact_cases

end Ddo.ParDom
