import DdoModel.Proofs.ParDomOpReach
import DdoModel.Proofs.ParDomOpSpec
import DdoModel.Props.C10b
/-! # The operation-wise compilation does not crash (`compile_no_crash_dom` for `compileOp`)

Whatever stores of `nb_variables + 1` layers of exactly reached items answer the individual `is_dominated_or_insert` calls, a
compilation without cache, of width ≥ 1, of a sub-problem reached exactly ends normally. -/
set_option linter.unusedSectionVars false
set_option linter.unusedVariables false
namespace Ddo.ParDom
open Ddo Ddo.Truth Ddo.Closed Ddo.C10
open Ddo.C01 (SolverCfg WellFormed toOut SolOf)
variable {S K : Type} [DecidableEq S] [DecidableEq K]

/-- one step of the operation-wise filter keeps at most one more position -/
theorem nc_fdStepO_len (D : DomRule S K) (τ : Nat → DomStore S K)
    (acc : List (Node S) × List Nat × Nat × Bool × List (Op S)) (p : Nat) :
    (fdStepO D τ acc p).2.1.length ≤ acc.2.1.length + 1 := by
  unfold fdStepO
  cases hn : acc.1[p]? with
  | none => exact Nat.le_succ _
  | some n =>
    simp only
    by_cases he : n.isExact = true
    · rw [if_pos he]
      cases hq : DomStore.query D (τ acc.2.2.1) n.state n.depth n.value with
      | none => simp
      | some x =>
        obtain ⟨st', dom, thr⟩ := x
        cases dom
        · simp
        · simp
    · rw [if_neg he]; simp

theorem nc_fdFoldO_len (D : DomRule S K) (τ : Nat → DomStore S K) :
    ∀ (l : List Nat) (acc : List (Node S) × List Nat × Nat × Bool × List (Op S)),
      (l.foldl (fdStepO D τ) acc).2.1.length ≤ acc.2.1.length + l.length := by
  intro l
  induction l with
  | nil => intro acc; simp
  | cons p ps ih =>
    intro acc
    rw [List.foldl_cons, List.length_cons]
    have h1 := ih (fdStepO D τ acc p)
    have h2 := nc_fdStepO_len D τ acc p
    omega

theorem nc_filterDomO_eq (cfg : Cfg S K) (D : DomRule S K) (hD : cfg.dom = some D) (τ : Nat → DomStore S K) (k : Nat)
    (layer : List (Node S)) (cur : List Nat) :
    filterDomO cfg τ k layer cur = (fdSorted D layer cur).foldl (fdStepO D τ) (layer, [], k, true, []) := by
  unfold filterDomO
  rw [hD]

/-- one step of the operation-wise filter does not panic when the depths are in range -/
theorem nc_fdStepO_flag (D : DomRule S K) (τ : Nat → DomStore S K) (n : Nat) (hlen : ∀ k, (τ k).layers.length = n + 1)
    (layer : List (Node S)) (hdepth : ∀ m ∈ layer, m.isExact = true → m.depth ≤ n)
    (acc : List (Node S) × List Nat × Nat × Bool × List (Op S)) (p : Nat)
    (h : SubS acc.1 layer ∧ acc.2.2.2.1 = true) :
    SubS (fdStepO D τ acc p).1 layer ∧ (fdStepO D τ acc p).2.2.2.1 = true := by
  obtain ⟨h1, h2⟩ := h
  unfold fdStepO
  cases hn : acc.1[p]? with
  | none => exact ⟨h1, h2⟩
  | some m =>
    simp only
    by_cases he : m.isExact = true
    · rw [if_pos he]
      obtain ⟨n0, h0, he0, hc⟩ := h1 m (List.mem_of_getElem? hn)
      have hd : m.depth < (τ acc.2.2.1).layers.length := by
        rw [hlen, ← hc.2.2.2]; exact Nat.lt_succ_of_le (hdepth n0 h0 (he0.trans he))
      cases hq : DomStore.query D (τ acc.2.2.1) m.state m.depth m.value with
      | none => exact absurd hq (query_ne_none D _ _ _ _ hd)
      | some x =>
        obtain ⟨st', dom, thr⟩ := x
        cases dom
        · exact ⟨h1, h2⟩
        · exact ⟨h1.set hn rfl ⟨rfl, rfl, rfl, rfl⟩, h2⟩
    · rw [if_neg he]; exact ⟨h1, h2⟩

/-- the operation-wise filter does not panic when the depths are in range -/
theorem nc_filterDomO_flag (cfg : Cfg S K) (D : DomRule S K) (hD : cfg.dom = some D) (τ : Nat → DomStore S K) (n : Nat)
    (hlen : ∀ k, (τ k).layers.length = n + 1) (k : Nat) (layer : List (Node S)) (cur : List Nat)
    (hdepth : ∀ m ∈ layer, m.isExact = true → m.depth ≤ n) : (filterDomO cfg τ k layer cur).2.2.2.1 = true := by
  rw [nc_filterDomO_eq cfg D hD]
  refine (foldl_inv (β := List (Node S) × List Nat × Nat × Bool × List (Op S))
    (fun acc => SubS acc.1 layer ∧ acc.2.2.2.1 = true) _ _ _ ⟨SubS.refl _, rfl⟩ ?_).2
  intro acc p _ h
  exact nc_fdStepO_flag D τ n hlen layer hdepth acc p h

/-- the operation-wise filter keeps no more positions than were presented -/
theorem nc_filterDomO_len (cfg : Cfg S K) (D : DomRule S K) (hD : cfg.dom = some D) (τ : Nat → DomStore S K) (k : Nat)
    (layer : List (Node S)) (cur : List Nat) : (filterDomO cfg τ k layer cur).2.1.length ≤ cur.length := by
  rw [nc_filterDomO_eq cfg D hD]
  have h := nc_fdFoldO_len D τ (fdSorted D layer cur) (layer, [], k, true, [])
  have hl : (fdSorted D layer cur).length = cur.length := Cover.length_sortBy _ _
  rw [hl] at h
  simpa using h

/-- without cache the cache filter is the identity -/
theorem nc_fcOf_id (cfg : Cfg S K) (dd : DD S K) (hc : cfg.useCache = false) :
    fcOf cfg dd = (dd.next, List.range dd.next.length) := by
  unfold fcOf
  split
  · rfl
  · exact Cover.filterCache_id cfg dd.cache dd.next _ hc (fun p hp => List.mem_range.mp hp)

/-- **one layer**: the operation-wise step of a non-empty layer neither panics in the checker nor in the squash -/
theorem nc_stepLayerO_ok (cfg : Cfg S K) (D : DomRule S K) (hD : cfg.dom = some D) (B : Int) (p0 : List Dec)
    (hc : cfg.useCache = false) (hW : 1 ≤ cfg.width)
    (τ : Nat → DomStore S K) (hτ : ∀ k, StoreReach D cfg.P (τ k) ∧ (τ k).layers.length = cfg.P.nbVars + 1)
    (dd : DD S K) (k : Nat) (ops : List (Op S)) (var : Nat)
    (hM : MInv cfg B p0 dd) (hdepth : dd.depth = cfg.root.depth + dd.layers.length) (hlt : dd.depth < cfg.P.nbVars)
    (hJ : dd.layers = [] → dd.next.length ≤ 1) (hne : dd.next.isEmpty = false) :
    ∃ x, stepLayerO cfg τ dd k ops var = (some x, .ok) := by
  have e : stepLayerO cfg τ dd k ops var = stepTailO cfg dd ops var (dd.next, List.range dd.next.length)
      (filterDomO cfg τ k dd.next (List.range dd.next.length)) := by
    rw [stepLayerO_unfold cfg τ dd k ops var hne, nc_fcOf_id cfg dd hc]
  rw [e]
  have f3 := nc_filterDomO_flag cfg D hD τ cfg.P.nbVars (fun k => (hτ k).2) k dd.next (List.range dd.next.length) (by
      intro m hm he
      obtain ⟨_, _, _, hd, _⟩ := hM.next m hm he
      rw [hd, ← hdepth]; omega)
  have f2 := nc_filterDomO_len cfg D hD τ k dd.next (List.range dd.next.length)
  rw [List.length_range] at f2
  generalize filterDomO cfg τ k dd.next (List.range dd.next.length) = r at f3 f2
  unfold stepTailO
  rw [f3]
  simp only [Bool.not_true, Bool.false_eq_true, if_false]
  cases hsq : squash cfg dd r.1 r.2.1 with
  | none => exact absurd hsq (squash_ne_none_gen cfg dd _ _ hW (fun hl => Nat.le_trans f2 (hJ hl)))
  | some sq =>
    obtain ⟨a, b, c, d⟩ := sq
    exact ⟨_, rfl⟩

/-- **the loop** does not crash, whatever the oracle -/
theorem nc_buildLoopO_no_crash (cfg : Cfg S K) (D : DomRule S K) (hD : cfg.dom = some D) (B : Int) (p0 : List Dec)
    (hc : cfg.useCache = false) (hW : 1 ≤ cfg.width) (hNV : NvBound cfg.P)
    (hB : NoClamp cfg.P cfg.R cfg.root.value B)
    (τ : Nat → DomStore S K) (hτ : ∀ k, StoreReach D cfg.P (τ k) ∧ (τ k).layers.length = cfg.P.nbVars + 1) :
    ∀ (fuel : Nat) (dd : DD S K) (k : Nat) (ops : List (Op S)), MInv cfg B p0 dd →
      dd.depth = cfg.root.depth + dd.layers.length → (dd.layers = [] → dd.next.length ≤ 1) → dd.depth ≤ cfg.P.nbVars →
      cfg.P.nbVars + 1 ≤ dd.depth + fuel → (buildLoopO cfg τ fuel dd k ops).2 = .ok := by
  intro fuel
  induction fuel with
  | zero => intro dd k ops _ _ _ h1 h2; omega
  | succ fuel ih =>
    intro dd k ops hM hdepth hJ h1 h2
    cases hnv : cfg.P.nextVar dd.depth (dd.next.map (·.state)) with
    | none => rw [buildLoopO_stop cfg τ fuel dd k ops hnv]
    | some var =>
      have hlt : dd.depth < cfg.P.nbVars := nv_depth_lt hNV hnv
      rw [buildLoopO_step cfg τ fuel dd k ops var hnv]
      have hM' : MInv cfg B p0 (tick dd var) := hM.congr rfl rfl
      by_cases hne : (tick dd var).next.isEmpty = true
      · have e : stepLayerO cfg τ (tick dd var) k ops var =
            (some ({ (tick dd var) with layers := (tick dd var).layers ++ [[]] }, k, ops), .cutoff) := by
          unfold stepLayerO
          rw [if_pos hne]
        rw [e]
      · have hne' : (tick dd var).next.isEmpty = false := by simpa using hne
        obtain ⟨x, e⟩ := nc_stepLayerO_ok cfg D hD B p0 hc hW τ hτ (tick dd var) k ops var hM' hdepth hlt hJ hne'
        obtain ⟨dd', k', ops'⟩ := x
        obtain ⟨m1, m2, _⟩ := stepLayerO_inv cfg B p0 hB τ (tick dd var) k ops var hM' hdepth hnv
          (by show dd.layers.length ≤ _; omega) dd' k' ops' .ok e
        obtain ⟨m2a, m2b⟩ := m2 rfl
        have m2b' : dd'.layers.length = dd.layers.length + 1 := m2b
        rw [e]
        refine ih dd' k' ops' m1 m2a ?_ ?_ ?_
        · intro h; rw [h] at m2b'; simp at m2b'
        · omega
        · omega

/-- **no crash, operation-wise**: a compilation without cache, of width ≥ 1, of a sub-problem reached exactly, each
    `is_dominated_or_insert` of which is answered by any store of `nb_variables + 1` layers of exactly reached items, ends
    normally -/
theorem compileOp_no_crash (cfg : Cfg S K) (D : DomRule S K) (hD : cfg.dom = some D) (B : Int) (p0 : List Dec)
    (cache : Cache S) (τ : Nat → DomStore S K) (polls : Nat)
    (hc : cfg.useCache = false) (hW : 1 ≤ cfg.width) (hNV : NvBound cfg.P)
    (hB : NoClamp cfg.P cfg.R cfg.root.value B)
    (hroot : Reach cfg.P cfg.root.depth cfg.root.state cfg.root.value p0)
    (hτ : ∀ k, StoreReach D cfg.P (τ k) ∧ (τ k).layers.length = cfg.P.nbVars + 1) :
    (compileOp cfg cache τ polls).1 = .ok := by
  show (buildLoopO cfg τ (cfg.P.nbVars + 2) (initDD cfg cache (τ 0) polls) 0 []).2 = .ok
  have hdepth := reach_depth_le hNV hroot
  refine nc_buildLoopO_no_crash cfg D hD B p0 hc hW hNV hB τ hτ _ _ 0 []
    (initDD_inv cfg B p0 hB hroot cache (τ 0) polls) rfl ?_ hdepth ?_
  · intro _; simp [initDD]
  · show cfg.P.nbVars + 1 ≤ cfg.root.depth + (cfg.P.nbVars + 2); omega

end Ddo.ParDom
