import DdoModel.Proofs.PooledDefs
import DdoModel.Proofs.MddBounds
import DdoModel.Props.C08p
/-! C08 (iii) / (iv) for the **pooled** diagram (`compileP`), long arcs allowed (no `AllImpacted` hypothesis): validity
    of the upper bounds of the cut-set sub-problems and coverage by the cut-set, for a relaxed compilation in isolation
    (no cache, no dominance).  Adaptation of `Proofs/MddBounds.lean`; the only extra model hypothesis is
    `SkipWf.up` (`Proofs/PooledDefs.lean`): a state that is not impacted by the variable of a layer loses no potential
    by waiting in the pool.

Structure:

* **top-down build** — `BInvP cfg H B t Live pd k`, the loop invariant (`k` = number of completed iterations);
  `Live l p` is the ghost predicate "position `p` of the materialised layer `l` was expanded".  Its core is the
  one-step fact `StepTo`: an expanded node whose potential `value + H` reaches the threshold `t` has — in a **later**
  materialised layer at an expanded position (`TgtL`), or in the pool (`TgtP`) — a node holding an inbound arc from it
  along which no potential is lost.  `BInvP.skip` (iteration that materialises no layer: the pool facts are
  re-established one depth further with `SkipWf.up`), `sqpostP_keep` / `sqpostP_relax` / `expand_binvP` (iteration that
  materialises one), `stepLayerP_binv`, `buildLoopP_binv`, `initPD_binv`, `DoneP`, `compileP_done`.  `BInvP` also records:
  value / cost ranges (indexed by the number of iterations), the source of every arc is an expanded position of an
  **earlier** materialised layer, live nodes carry `rub = R.rub state`, no `cutset` flag is raised,
  `isExactField = true` ⟹ every node is exact, the root (in the pool until it is expanded, then at `(0, 0)`).
* **paths** — `PathP LS H dep B l p h r nx`: a potential-preserving path of `r` (long) arcs from `(l, p)` to the terminal
  layer, first hop into layer `nx`; `path_of_liveP`, `BInvP.cover`, `PathP.terminal`, `PathP.frontier`.
* **bottom-up** — `lbLayer_stepP`, `computeLocalBounds_goodP`.
* **finalizeP** — `layers3P_good`, `FinP.cutset_ub`, `FinP.cutset_cover`, `finalizeP_bestValue_ge`.
* **`lb = isize::MAX`** — `compileP_lbmax_cutset`: everything is pruned, the diagram stays exact, the cut-set is empty.
* **theorems** — `cutset_ub_valid_pooled'` (no `lb < iMax`), `cutset_ub_valid_pooled`, `cutset_cover_pooled`,
  `compileP_bestValue_ge`; `TinyLong`: non-vacuity on a model with a long arc (the root lands in the cut-set). -/
set_option linter.unusedSectionVars false
set_option linter.unusedVariables false
namespace Ddo.PBounds
open Ddo Ddo.Pooled Ddo.Bounds
variable {S K : Type} [DecidableEq S] [DecidableEq K]

/-! ## generic facts -/

theorem getNode_plain {pd : PD S K} {l p : Nat} {n : Node S} (h : getNode pd.plain l p = some n) :
    ∃ dp ly, pd.layers[l]? = some (dp, ly) ∧ ly[p]? = some n := by
  obtain ⟨ly, h1, h2⟩ := Cover.getNode_lt h
  unfold PD.plain at h1
  rw [List.getElem?_map] at h1
  cases hl : pd.layers[l]? with
  | none => rw [hl] at h1; cases h1
  | some dl =>
    rw [hl] at h1
    simp only [Option.map_some, Option.some.injEq] at h1
    exact ⟨dl.1, dl.2, rfl, h1 ▸ h2⟩

theorem getNode_plain_of {pd : PD S K} {l p dp : Nat} {ly : List (Node S)} {n : Node S}
    (hl : pd.layers[l]? = some (dp, ly)) (hp : ly[p]? = some n) : getNode pd.plain l p = some n := by
  unfold getNode PD.plain
  rw [List.getElem?_map, hl]
  exact hp

/-- `expandOne`, the children: as `Bounds.expandOne_children`, the parent being known to sit at position `p` -/
theorem expandOne_childrenK (Q : Node S → Prop) (cfg : Cfg S K) (var lidx : Nat)
    (acc : List (Node S) × List (Node S) × List (Call S)) (p : Nat) (ks : List (S × Int)) (hks : acc.1.map Cover.key = ks)
    (hall : ∀ m ∈ acc.2.1, Q m)
    (hold : ∀ (par : Node S) d n, ks[p]? = some (Cover.key par) → Q n →
      Q (appendEdge par n (Cover.arcOf cfg var lidx p par d)))
    (hfresh : ∀ (par : Node S) d, ks[p]? = some (Cover.key par) →
      Q (appendEdge par (Cover.freshNode par (cfg.P.trans par.state ⟨var, d⟩)
        (cfg.P.cost par.state (cfg.P.trans par.state ⟨var, d⟩) ⟨var, d⟩)) (Cover.arcOf cfg var lidx p par d))) :
    ∀ m ∈ (expandOne cfg var lidx acc p).2.1, Q m := by
  obtain ⟨ly, nx, lg⟩ := acc
  cases h : ly[p]? with
  | none => rw [Cover.expandOne_none _ _ _ _ _ _ _ h]; exact hall
  | some n =>
    rw [Cover.expandOne_some _ _ _ _ _ _ _ n h]
    have hk : ks[p]? = some (Cover.key ({ n with rub := cfg.R.rub n.state } : Node S)) := by
      rw [Cover.getElem?_of_map_key ly ks hks p, h]; rfl
    split
    · dsimp only at hall ⊢
      exact Cover.branchAll_forall Q cfg var lidx p _ _ (nx, _) hall (fun d _ m hm => hold _ d m hk hm)
        (fun d _ => hfresh _ d hk)
    · exact hall

theorem fold_childrenK (Q : Node S → Prop) (cfg : Cfg S K) (var lidx : Nat) (cur : List Nat)
    (acc : List (Node S) × List (Node S) × List (Call S)) (ks : List (S × Int)) (hks : acc.1.map Cover.key = ks)
    (hall : ∀ m ∈ acc.2.1, Q m)
    (hold : ∀ q ∈ cur, ∀ (par : Node S) d n, ks[q]? = some (Cover.key par) → Q n →
      Q (appendEdge par n (Cover.arcOf cfg var lidx q par d)))
    (hfresh : ∀ q ∈ cur, ∀ (par : Node S) d, ks[q]? = some (Cover.key par) →
      Q (appendEdge par (Cover.freshNode par (cfg.P.trans par.state ⟨var, d⟩)
        (cfg.P.cost par.state (cfg.P.trans par.state ⟨var, d⟩) ⟨var, d⟩)) (Cover.arcOf cfg var lidx q par d))) :
    ∀ m ∈ (cur.foldl (expandOne cfg var lidx) acc).2.1, Q m := by
  refine (Ddo.foldl_inv (fun b => b.1.map Cover.key = ks ∧ ∀ m ∈ b.2.1, Q m) _ cur acc ⟨hks, hall⟩ ?_).2
  intro b q hq hb
  exact ⟨by rw [Cover.expandOne_keys]; exact hb.1,
    expandOne_childrenK Q cfg var lidx b q ks hb.1 hb.2 (hold q hq) (hfresh q hq)⟩

/-- in isolation the two filters are the identity -/
theorem fdOf_iso (cfg : Cfg S K) (pd : PD S K) (var : Nat) (hc : cfg.useCache = false) (hd : cfg.dom = none) :
    fdOf cfg pd var = (curNodes cfg pd var, List.range (curNodes cfg pd var).length, pd.store, true) := by
  have h2 : fcOf cfg pd var = (curNodes cfg pd var, List.range (curNodes cfg pd var).length) := by
    unfold fcOf
    split
    · rfl
    · exact Cover.filterCache_id cfg pd.cache _ _ hc (fun p hp => List.mem_range.mp hp)
  unfold fdOf
  rw [h2]
  simp only [filterDom, hd]

/-! ## the invariant of the top-down build -/

/-- one-step fact: if the potential `value + H` of the node `n` (position `(l, p)`, depth `dp`) reaches the threshold
    `t`, then a node `m` satisfying `Tgt m dp'` (`dp'` = the depth at which `m` sits) holds an inbound arc from `(l, p)`
    along which no potential is lost -/
def StepTo (H : Nat → S → EInt) (B t : Int) (dp l p : Nat) (n : Node S) (Tgt : Node S → Nat → Prop) : Prop :=
  ∀ h, H dp n.state = some h → t ≤ n.value + h →
    ∃ (m : Node S) (e : Arc) (h' : Int) (dp' : Nat), Tgt m dp' ∧ e ∈ m.inb ∧ e.fromL = l ∧ e.fromP = p ∧
      Cover.Within B e.cost ∧ H dp' m.state = some h' ∧ h ≤ e.cost + h' ∧ n.value + e.cost ≤ m.value

/-- target in a later materialised layer, at an expanded position -/
def TgtL (pd : PD S K) (Live : Nat → Nat → Prop) (l : Nat) (m : Node S) (dp' : Nat) : Prop :=
  ∃ (l' p' : Nat) (ly' : List (Node S)), l < l' ∧ pd.layers[l']? = some (dp', ly') ∧ ly'[p']? = some m ∧ Live l' p'

/-- target in the pool (at the current depth) -/
def TgtP (pd : PD S K) (m : Node S) (dp' : Nat) : Prop := m ∈ pd.pool ∧ dp' = pd.depth

/-- `H k s ≤ H k' s`, unfolded -/
def UpTo (H : Nat → S → EInt) (k k' : Nat) (s : S) : Prop :=
  ∀ h0, H k s = some h0 → ∃ h, H k' s = some h ∧ h0 ≤ h

theorem UpTo.refl (H : Nat → S → EInt) (k : Nat) (s : S) : UpTo H k k s := fun h0 h => ⟨h0, h, Int.le_refl _⟩

theorem UpTo.trans {H : Nat → S → EInt} {k k' k'' : Nat} {s : S} (h1 : UpTo H k k' s) (h2 : UpTo H k' k'' s) :
    UpTo H k k'' s := by
  intro h0 hh
  obtain ⟨a, ha, hle⟩ := h1 h0 hh
  obtain ⟨b, hb, hle'⟩ := h2 a ha
  exact ⟨b, hb, by omega⟩

theorem upTo_of_le {H : Nat → S → EInt} {k k' : Nat} {s : S} (h : H k s ≤ H k' s) : UpTo H k k' s := by
  intro h0 hh
  rw [hh] at h
  cases h1 : H k' s with
  | none => rw [h1] at h; exact absurd h (by simp)
  | some a => rw [h1] at h; exact ⟨a, rfl, h⟩

/-- the invariant; `Live l p`: the node at position `p` of the materialised layer `l` has been expanded;
    `k` = number of completed iterations -/
structure BInvP (cfg : Cfg S K) (H : Nat → S → EInt) (B t : Int) (Live : Nat → Nat → Prop) (pd : PD S K) (k : Nat) :
    Prop where
  depth : pd.depth = cfg.root.depth + k
  nlay : pd.layers.length ≤ k
  lays : ∀ (l dp : Nat) (ly : List (Node S)), pd.layers[l]? = some (dp, ly) → cfg.root.depth ≤ dp ∧ dp < pd.depth
  rngP : ∀ n ∈ pd.pool, Cover.Within (Cover.Bd B k) n.value
  rngL : ∀ (l dp : Nat) (ly : List (Node S)), pd.layers[l]? = some (dp, ly) →
    ∀ n ∈ ly, Cover.Within (Cover.Bd B (dp - cfg.root.depth)) n.value
  arcsP : ∀ n ∈ pd.pool, ∀ a ∈ n.inb, Cover.Within B a.cost ∧ a.fromL < pd.layers.length ∧ Live a.fromL a.fromP
  arcsL : ∀ (l dp : Nat) (ly : List (Node S)), pd.layers[l]? = some (dp, ly) →
    ∀ n ∈ ly, ∀ a ∈ n.inb, a.fromL < l ∧ Live a.fromL a.fromP
  att : pd.layers ≠ [] → ∀ n ∈ pd.pool, ∃ a ∈ n.inb, ∃ x, getNode pd.plain a.fromL a.fromP = some x
  step : ∀ (l p dp : Nat) (ly : List (Node S)) (n : Node S), pd.layers[l]? = some (dp, ly) → Live l p → ly[p]? = some n →
    StepTo H B t dp l p n (fun m dp' => TgtL pd Live l m dp' ∨ TgtP pd m dp')
  rub : ∀ (l p dp : Nat) (ly : List (Node S)) (n : Node S), pd.layers[l]? = some (dp, ly) → Live l p → ly[p]? = some n →
    n.rub = cfg.R.rub n.state
  cutL : ∀ ly ∈ pd.plain, ∀ n ∈ ly, n.cutset = false
  cutP : ∀ n ∈ pd.pool, n.cutset = false
  exF : pd.isExactField = true → (∀ ly ∈ pd.plain, ∀ n ∈ ly, n.isExact = true) ∧ ∀ n ∈ pd.pool, n.isExact = true
  root0 : pd.layers = [] → ∃ n0, pd.pool = [n0] ∧ n0.state = cfg.root.state ∧ n0.value = cfg.root.value ∧
    n0.isExact = true ∧ UpTo H cfg.root.depth pd.depth cfg.root.state
  root1 : pd.layers ≠ [] → ∃ (dp : Nat) (ly : List (Node S)) (n0 : Node S), pd.layers[0]? = some (dp, ly) ∧
    ly[0]? = some n0 ∧ n0.state = cfg.root.state ∧ n0.value = cfg.root.value ∧ n0.isExact = true ∧ Live 0 0 ∧
    UpTo H cfg.root.depth dp cfg.root.state

/-- the hypotheses of C08 (iii) / (iv) that the loop needs; `t` is the potential threshold of interest -/
structure HypP (cfg : Cfg S K) (H : Nat → S → EInt) (B t : Int) : Prop where
  rel : cfg.ctype = .relaxed
  cache : cfg.useCache = false
  dom : cfg.dom = none
  W : 1 ≤ cfg.width
  P : Potential cfg.P H
  S : SkipWf cfg.P H
  R : RubOk cfg.R H
  M : MergeOk cfg.R H
  AM : Cover.AttMerge cfg.P cfg.R H
  B : NoClamp cfg.P cfg.R cfg.root.value B
  clamp : ∀ x, t ≤ x → clamp x > cfg.lb

theorem BInvP.congr {cfg : Cfg S K} {H : Nat → S → EInt} {B t : Int} {Live : Nat → Nat → Prop} {pd pd' : PD S K} {k : Nat}
    (h : BInvP cfg H B t Live pd k) (h1 : pd'.layers = pd.layers) (h2 : pd'.pool = pd.pool) (h3 : pd'.depth = pd.depth)
    (h4 : pd'.isExactField = pd.isExactField) : BInvP cfg H B t Live pd' k := by
  have hp : pd'.plain = pd.plain := by unfold PD.plain; rw [h1]
  obtain ⟨a1, a0, a2, a3, a4, a5, a6, a7, a8, a9, a10, a11, a12, a13, a14⟩ := h
  refine ⟨by rw [h3]; exact a1, by rw [h1]; exact a0, by rw [h1, h3]; exact a2, by rw [h2]; exact a3, by rw [h1]; exact a4,
    by rw [h1, h2]; exact a5, by rw [h1]; exact a6, by rw [h1, h2, hp]; exact a7, ?_, by rw [h1]; exact a9,
    by rw [hp]; exact a10, by rw [h2]; exact a11, by rw [h4, hp, h2]; exact a12, by rw [h1, h2, h3]; exact a13,
    by rw [h1]; exact a14⟩
  intro l p dp ly n hl hlive hn h hH ht
  rw [h1] at hl
  obtain ⟨m, e, h', dp', htg, rest⟩ := a8 l p dp ly n hl hlive hn h hH ht
  refine ⟨m, e, h', dp', ?_, rest⟩
  rcases htg with htg | htg
  · left; unfold TgtL at htg ⊢; rw [h1]; exact htg
  · right; unfold TgtP at htg ⊢; rw [h2, h3]; exact htg

theorem initPD_binv (cfg : Cfg S K) (H : Nat → S → EInt) (B t : Int) (cache : Cache S) (store : DomStore S K) (polls : Nat)
    (hB : NoClamp cfg.P cfg.R cfg.root.value B) :
    BInvP cfg H B t (fun _ _ => False) (initPD cfg cache store polls) 0 := by
  have hpool : (initPD cfg cache store polls).pool =
      [{ state := cfg.root.state, value := cfg.root.value, depth := cfg.root.depth }] := rfl
  have hlay : (initPD cfg cache store polls).layers = [] := rfl
  have hplain : (initPD cfg cache store polls).plain = [] := rfl
  refine ⟨rfl, Nat.le_refl _, ?_, ?_, ?_, ?_, ?_, ?_, ?_, ?_, ?_, ?_, ?_, ?_, ?_⟩
  · intro l dp ly hi; rw [hlay] at hi; simp at hi
  · intro n hn
    rw [hpool, List.mem_singleton] at hn
    subst hn
    have := hB.root
    simp only [Cover.Bd, Cover.Within]
    omega
  · intro l dp ly hi; rw [hlay] at hi; simp at hi
  · intro n hn a ha
    rw [hpool, List.mem_singleton] at hn
    subst hn; cases ha
  · intro l dp ly hi; rw [hlay] at hi; simp at hi
  · intro h; exact absurd hlay h
  · intro l p dp ly n hi; rw [hlay] at hi; simp at hi
  · intro l p dp ly n hi; rw [hlay] at hi; simp at hi
  · intro ly hly; rw [hplain] at hly; cases hly
  · intro n hn
    rw [hpool, List.mem_singleton] at hn
    subst hn; rfl
  · intro _
    refine ⟨fun ly hly => (by rw [hplain] at hly; cases hly), fun n hn => ?_⟩
    rw [hpool, List.mem_singleton] at hn
    subst hn; rfl
  · intro _; exact ⟨_, hpool, rfl, rfl, rfl, UpTo.refl _ _ _⟩
  · intro h; exact absurd hlay h

theorem StepTo.imp {H : Nat → S → EInt} {B t : Int} {dp l p : Nat} {n : Node S} {Tgt Tgt' : Node S → Nat → Prop}
    (h : StepTo H B t dp l p n Tgt) (himp : ∀ m dp', Tgt m dp' → Tgt' m dp') : StepTo H B t dp l p n Tgt' := by
  intro h0 hH ht
  obtain ⟨m, e, h', dp', htg, rest⟩ := h h0 hH ht
  exact ⟨m, e, h', dp', himp m dp' htg, rest⟩

/-! ## an iteration that materialises no layer -/

/-- no pool node is impacted: the pool waits one depth further -/
theorem BInvP.skip {cfg : Cfg S K} {H : Nat → S → EInt} {B t : Int} {Live : Nat → Nat → Prop} {pd pd' : PD S K} {k : Nat}
    (hI : BInvP cfg H B t Live pd k) (hB : 0 ≤ B) (h1 : pd'.layers = pd.layers) (h2 : pd'.pool = pd.pool)
    (h3 : pd'.depth = pd.depth + 1) (h4 : pd'.isExactField = pd.isExactField)
    (hup : ∀ m ∈ pd.pool, UpTo H pd.depth (pd.depth + 1) m.state) : BInvP cfg H B t Live pd' (k + 1) := by
  have hp : pd'.plain = pd.plain := by unfold PD.plain; rw [h1]
  refine ⟨?_, ?_, ?_, ?_, ?_, ?_, ?_, ?_, ?_, ?_, ?_, ?_, ?_, ?_, ?_⟩
  · rw [h3, hI.depth]; omega
  · rw [h1]; have := hI.nlay; omega
  · intro l dp ly hl
    rw [h1] at hl
    have := hI.lays l dp ly hl
    omega
  · intro n hn
    rw [h2] at hn
    exact (hI.rngP n hn).mono (Cover.Bd_mono hB (by omega))
  · rw [h1]; exact hI.rngL
  · rw [h1, h2]; exact hI.arcsP
  · rw [h1]; exact hI.arcsL
  · rw [h1, h2, hp]; exact hI.att
  · intro l p dp ly n hl hlive hn h hH ht
    rw [h1] at hl
    obtain ⟨m, e, h', dp', htg, he, hfl, hfp, hw, hH', hle, hval⟩ := hI.step l p dp ly n hl hlive hn h hH ht
    rcases htg with htg | ⟨hm, hdp⟩
    · refine ⟨m, e, h', dp', .inl ?_, he, hfl, hfp, hw, hH', hle, hval⟩
      unfold TgtL at htg ⊢; rw [h1]; exact htg
    · subst hdp
      obtain ⟨h'', hH'', hle''⟩ := hup m hm h' hH'
      exact ⟨m, e, h'', pd.depth + 1, .inr ⟨by rw [h2]; exact hm, h3.symm⟩, he, hfl, hfp, hw, hH'', by omega, hval⟩
  · rw [h1]; exact hI.rub
  · rw [hp]; exact hI.cutL
  · rw [h2]; exact hI.cutP
  · rw [h4, hp, h2]; exact hI.exF
  · intro hl
    rw [h1] at hl
    obtain ⟨n0, hn0, hs, hv, hex, hu⟩ := hI.root0 hl
    refine ⟨n0, by rw [h2]; exact hn0, hs, hv, hex, ?_⟩
    rw [h3]
    refine hu.trans ?_
    have := hup n0 (by rw [hn0]; exact List.mem_cons_self)
    rw [hs] at this
    exact this
  · rw [h1]; exact hI.root1

/-! ## an iteration that materialises a layer: the squashed layer -/

theorem mem_curNodes' {cfg : Cfg S K} {pd : PD S K} {var : Nat} {n : Node S} (h : n ∈ curNodes cfg pd var) :
    ∃ m ∈ pd.pool, cfg.P.impacted var m.state = true ∧ n = { m with depth := pd.depth } := by
  unfold curNodes at h
  obtain ⟨m, hm, rfl⟩ := List.mem_map.1 h
  obtain ⟨hm1, hm2⟩ := List.mem_filter.1 hm
  exact ⟨m, hm1, hm2, rfl⟩

theorem curNodes_of_mem {cfg : Cfg S K} {pd : PD S K} {var : Nat} {m : Node S} (hm : m ∈ pd.pool)
    (hi : cfg.P.impacted var m.state = true) : ({ m with depth := pd.depth } : Node S) ∈ curNodes cfg pd var := by
  unfold curNodes
  exact List.mem_map.2 ⟨m, List.mem_filter.2 ⟨hm, hi⟩, rfl⟩

theorem restNodes_of_mem {cfg : Cfg S K} {pd : PD S K} {var : Nat} {m : Node S} (hm : m ∈ pd.pool)
    (hi : cfg.P.impacted var m.state = false) : m ∈ restNodes cfg pd var := by
  unfold restNodes
  exact List.mem_filter.2 ⟨hm, by rw [hi]; rfl⟩

/-- what the expansion needs from the squashed layer -/
structure SqPostP (cfg : Cfg S K) (H : Nat → S → EInt) (B t : Int) (Live : Nat → Nat → Prop) (pd : PD S K) (k var : Nat)
    (layer' : List (Node S)) (cur' : List Nat) : Prop where
  att : ∀ q ∈ cur', ∀ n, layer'[q]? = some n → Cover.AttAt cfg H pd.depth var n.state
  rng : ∀ n ∈ layer', Cover.Within (Cover.Bd B k) n.value
  arcs : ∀ n ∈ layer', ∀ a ∈ n.inb, Cover.Within B a.cost ∧ a.fromL < pd.layers.length ∧ Live a.fromL a.fromP
  cut : ∀ n ∈ layer', n.cutset = false
  step : ∀ (l p dp : Nat) (ly : List (Node S)) (n : Node S), pd.layers[l]? = some (dp, ly) → Live l p → ly[p]? = some n →
    StepTo H B t dp l p n (fun m dp' => TgtL pd Live l m dp' ∨
      (dp' = pd.depth ∧ ((∃ q ∈ cur', layer'[q]? = some m) ∨ m ∈ restNodes cfg pd var)))

theorem sqpostP_keep (cfg : Cfg S K) (H : Nat → S → EInt) (B t : Int) (Live : Nat → Nat → Prop) (pd : PD S K) (k var : Nat)
    (hP : Potential cfg.P H) (hnv : cfg.P.nextVar pd.depth (pd.pool.map (·.state)) = some var)
    (hI : BInvP cfg H B t Live pd k) :
    SqPostP cfg H B t Live pd k var (curNodes cfg pd var) (List.range (curNodes cfg pd var).length) := by
  refine ⟨?_, ?_, ?_, ?_, ?_⟩
  · intro q _ n hn h1 hH1
    obtain ⟨m, hm, _, rfl⟩ := mem_curNodes' (List.mem_of_getElem? hn)
    exact hP.att pd.depth _ var m.state h1 hnv (List.mem_map_of_mem hm) hH1
  · intro n hn
    obtain ⟨m, hm, _, rfl⟩ := mem_curNodes' hn
    exact hI.rngP m hm
  · intro n hn
    obtain ⟨m, hm, _, rfl⟩ := mem_curNodes' hn
    exact hI.arcsP m hm
  · intro n hn
    obtain ⟨m, hm, _, rfl⟩ := mem_curNodes' hn
    exact hI.cutP m hm
  · intro l p dp ly n hl hlive hn h hH ht
    obtain ⟨m, e, h', dp', htg, he, hfl, hfp, hw, hH', hle, hval⟩ := hI.step l p dp ly n hl hlive hn h hH ht
    rcases htg with htg | ⟨hm, hdp⟩
    · exact ⟨m, e, h', dp', .inl htg, he, hfl, hfp, hw, hH', hle, hval⟩
    · cases hi : cfg.P.impacted var m.state with
      | true =>
        obtain ⟨q, hq⟩ := List.mem_iff_getElem?.mp (curNodes_of_mem (pd := pd) hm hi)
        exact ⟨{ m with depth := pd.depth }, e, h', dp', .inr ⟨hdp, .inl ⟨q, Cover.mem_of_getElem?_range hq, hq⟩⟩,
          he, hfl, hfp, hw, hH', hle, hval⟩
      | false =>
        exact ⟨m, e, h', dp', .inr ⟨hdp, .inr (restNodes_of_mem hm hi)⟩, he, hfl, hfp, hw, hH', hle, hval⟩

theorem srcOk_of_binvP (cfg : Cfg S K) (H : Nat → S → EInt) (B t : Int) (Live : Nat → Nat → Prop) (pd : PD S K) (k : Nat)
    (hB : NoClamp cfg.P cfg.R cfg.root.value B) (hI : BInvP cfg H B t Live pd k) :
    Cover.SrcOk cfg pd.plain B (Cover.Bd B k) := by
  constructor
  · intro l p src c hsrc hc
    obtain ⟨dp, ly, hly, hp⟩ := getNode_plain hsrc
    have hw := hI.rngL l dp ly hly src (List.mem_of_getElem? hp)
    have hd := hI.lays l dp ly hly
    have := Cover.within_satAdd hw hc
    rw [← Cover.Bd_succ] at this
    exact this.mono (Cover.Bd_mono hB.nonneg (by have := hI.depth; omega))
  · intro s u m d c hc
    exact hB.relax s u m d c hc

theorem sqpostP_relax (cfg : Cfg S K) (H : Nat → S → EInt) (B t : Int) (Live : Nat → Nat → Prop) (pd : PD S K) (k var : Nat)
    (lg : List (Call S)) (hy : HypP cfg H B t)
    (hnv : cfg.P.nextVar pd.depth (pd.pool.map (·.state)) = some var) (hk : k ≤ cfg.P.nbVars + 1)
    (hc1 : (List.range (curNodes cfg pd var).length).length > cfg.width) (hc2 : pd.layers.length ≥ 2)
    (hI : BInvP cfg H B t Live pd k) :
    SqPostP cfg H B t Live pd k var
      (relaxLayer cfg pd.plain (curNodes cfg pd var) (List.range (curNodes cfg pd var).length) lg).1
      (relaxLayer cfg pd.plain (curNodes cfg pd var) (List.range (curNodes cfg pd var).length) lg).2.1 := by
  have hne : pd.layers ≠ [] := by intro h; rw [h] at hc2; simp at hc2
  have hcnm : ∀ n ∈ curNodes cfg pd var, ∃ m ∈ pd.pool, cfg.P.impacted var m.state = true ∧
      n = { m with depth := pd.depth } := fun n hn => mem_curNodes' hn
  have hcnof : ∀ m ∈ pd.pool, cfg.P.impacted var m.state = true →
      ({ m with depth := pd.depth } : Node S) ∈ curNodes cfg pd var := fun m hm hi => curNodes_of_mem hm hi
  generalize curNodes cfg pd var = cn at hc1 hcnm hcnof ⊢
  have hcur : ∀ p ∈ List.range cn.length, p < cn.length := fun p hp => List.mem_range.mp hp
  have hpost := Cover.relaxLayer_spec cfg pd.plain cn (List.range cn.length) lg hy.W hc1 hcur
  have hpostA := relaxLayer_specA cfg pd.plain cn (List.range cn.length) lg hy.W hcur
  have hsrc := srcOk_of_binvP cfg H B t Live pd k hy.B hI
  have hXsub : ∀ x ∈ Cover.restStatesOf cfg cn (List.range cn.length), x ∈ pd.pool.map (·.state) := by
    intro x hx
    unfold Cover.restStatesOf at hx
    obtain ⟨p0, _, hp0⟩ := List.mem_filterMap.mp hx
    cases hn0 : cn[p0]? with
    | none => rw [hn0] at hp0; cases hp0
    | some n0 =>
      rw [hn0] at hp0
      simp only [Option.map_some, Option.some.injEq] at hp0
      rw [← hp0]
      obtain ⟨m, hm, _, rfl⟩ := hcnm n0 (List.mem_of_getElem? hn0)
      exact List.mem_map.2 ⟨m, hm, rfl⟩
  have hXne : Cover.restStatesOf cfg cn (List.range cn.length) ≠ [] := by
    obtain ⟨q0, hq0, hq0c⟩ := Cover.rest_nonempty cfg cn (List.range cn.length) hy.W hc1
    have hlt := hcur q0 hq0c
    apply List.ne_nil_of_mem (a := cn[q0].state)
    unfold Cover.restStatesOf
    exact List.mem_filterMap.mpr ⟨q0, hq0, by rw [List.getElem?_eq_getElem hlt]; rfl⟩
  refine ⟨?_, ?_, ?_, ?_, ?_⟩
  · -- att
    intro q' hq' n' hn' h1 hH1
    rcases hpostA.states q' hq' n' hn' with ⟨u, hu, hs⟩ | hs
    · rw [hs] at hH1 ⊢
      obtain ⟨m, hm, _, rfl⟩ := hcnm u hu
      exact hy.P.att pd.depth _ var m.state h1 hnv (List.mem_map_of_mem hm) hH1
    · rw [hs] at hH1 ⊢
      exact hy.AM pd.depth (pd.pool.map (·.state)) var _ h1 hnv hXne hXsub hH1
  · -- rng
    refine hpost.range B (Cover.Bd B k) hsrc (Cover.Bd_nonneg hy.B.nonneg _) ⟨fun n hn => ?_, fun q _ u hu => ?_⟩
    · obtain ⟨m, hm, _, rfl⟩ := hcnm n hn
      exact ⟨hI.rngP m hm, fun a ha => (hI.arcsP m hm a ha).1⟩
    · obtain ⟨m, hm, _, rfl⟩ := hcnm u (List.mem_of_getElem? hu)
      exact hI.att hne m hm
  · -- arcs
    refine relaxLayer_forall
      (fun n => ∀ a ∈ n.inb, Cover.Within B a.cost ∧ a.fromL < pd.layers.length ∧ Live a.fromL a.fromP)
      cfg pd.plain cn _ lg ?_ (fun n hn => hn) (fun n b hn => hn) ?_ ?_
    · intro d0 a ha; simp only [Cover.freshMerged] at ha; cases ha
    · intro dropN hd e he src m hm a ha
      rw [Cover.appendEdge_inb] at ha
      rcases List.mem_cons.mp ha with ha | ha
      · rw [ha]
        obtain ⟨h1, h2, h3⟩ := hd e he
        exact ⟨hy.B.relax _ _ _ _ _ h1, h2, h3⟩
      · exact hm a ha
    · intro n hn
      obtain ⟨m, hm, _, rfl⟩ := hcnm n hn
      exact hI.arcsP m hm
  · -- cut
    refine relaxLayer_forall (fun n => n.cutset = false) cfg pd.plain cn _ lg (fun _ => rfl) (fun n hn => hn)
      (fun n b hn => hn) ?_ ?_
    · intro dropN _ e _ src m hm
      rw [appendEdge_cutset]; exact hm
    · intro n hn
      obtain ⟨m, hm, _, rfl⟩ := hcnm n hn
      exact hI.cutP m hm
  · -- step
    intro l p dp ly n hl hlive hn h hH ht
    obtain ⟨m, e, h', dp', htg, he, hfl, hfp, hw, hH', hle, hval⟩ := hI.step l p dp ly n hl hlive hn h hH ht
    rcases htg with htg | ⟨hm, hdp⟩
    · exact ⟨m, e, h', dp', .inl htg, he, hfl, hfp, hw, hH', hle, hval⟩
    · cases hi : cfg.P.impacted var m.state with
      | false =>
        exact ⟨m, e, h', dp', .inr ⟨hdp, .inr (restNodes_of_mem hm hi)⟩, he, hfl, hfp, hw, hH', hle, hval⟩
      | true =>
        subst hdp
        obtain ⟨q0, hq0⟩ := List.mem_iff_getElem?.mp (hcnof m hm hi)
        obtain ⟨q', hq', n', hn', hT⟩ := hpostA.transfer q0 (Cover.mem_of_getElem?_range hq0) _ hq0
        rcases hT with ⟨hs, hv, harcs⟩ | ⟨hX, hs, harc⟩
        · dsimp only at hs hv harcs
          exact ⟨n', e, h', pd.depth, .inr ⟨rfl, .inl ⟨q', hq', hn'⟩⟩, harcs e he, hfl, hfp, hw, by rw [hs]; exact hH', hle,
            by omega⟩
        · dsimp only at hX hs harc
          have hsrcn : getNode pd.plain e.fromL e.fromP = some n := by rw [hfl, hfp]; exact getNode_plain_of hl hn
          obtain ⟨hmem, hge⟩ := harc e he n hsrcn
          obtain ⟨h'', hH'', hle''⟩ := hy.M pd.depth (Cover.restStatesOf cfg cn (List.range cn.length)) m.state n.state
            e.dec e.cost h' hX hH'
          have hrc := hy.B.relax n.state m.state (Cover.mergedOf cfg cn (List.range cn.length)) e.dec e.cost hw
          have hwn := hI.rngL l dp ly hl n (List.mem_of_getElem? hn)
          have hd := hI.lays l dp ly hl
          have hdep := hI.depth
          have hsmall : Cover.Bd B k ≤ 4611686018427387904 := Cover.Bd_small hy.B.toDom hk
          have hbd : Cover.Bd B (dp - cfg.root.depth) + B ≤ Cover.Bd B k := by
            rw [← Cover.Bd_succ]; exact Cover.Bd_mono hy.B.nonneg (by omega)
          have e2 : satAdd n.value (cfg.R.relax n.state m.state (Cover.mergedOf cfg cn (List.range cn.length)) e.dec e.cost)
              = n.value + cfg.R.relax n.state m.state (Cover.mergedOf cfg cn (List.range cn.length)) e.dec e.cost := by
            apply Cover.satAdd_eq <;> (unfold Cover.Within at hwn hrc; simp only [iMin, iMax]; omega)
          rw [e2] at hge
          refine ⟨n', _, h'', pd.depth, .inr ⟨rfl, .inl ⟨q', hq', hn'⟩⟩, hmem, hfl, hfp, hrc, ?_, ?_, hge⟩
          · rw [hs]; exact hH''
          · unfold Cover.mergedOf
            dsimp only
            omega

/-! ## an iteration that materialises a layer: the expansion -/

theorem fold_allEx (cfg : Cfg S K) (var lidx : Nat) (cur : List Nat) (acc : List (Node S) × List (Node S) × List (Call S))
    (h1 : ∀ n ∈ acc.1, n.isExact = true) (h2 : ∀ c ∈ acc.2.1, c.isExact = true) :
    (∀ n ∈ (cur.foldl (expandOne cfg var lidx) acc).1, n.isExact = true) ∧
    (∀ c ∈ (cur.foldl (expandOne cfg var lidx) acc).2.1, c.isExact = true) :=
  Ddo.foldl_inv (β := List (Node S) × List (Node S) × List (Call S))
    (fun b => (∀ n ∈ b.1, n.isExact = true) ∧ ∀ c ∈ b.2.1, c.isExact = true) _ cur acc ⟨h1, h2⟩
    (fun b p _ hb => expandOne_allEx cfg var lidx b p hb.1 hb.2)

theorem expand_binvP (cfg : Cfg S K) (H : Nat → S → EInt) (B t : Int) (Live : Nat → Nat → Prop) (pd pd' : PD S K)
    (k var : Nat) (layer' : List (Node S)) (cur' : List Nat) (lg : List (Call S)) (hy : HypP cfg H B t)
    (hk : k ≤ cfg.P.nbVars)
    (hnv : cfg.P.nextVar pd.depth (pd.pool.map (·.state)) = some var)
    (hI : BInvP cfg H B t Live pd k) (hsq : SqPostP cfg H B t Live pd k var layer' cur')
    (hl : pd'.layers = pd.layers ++ [(pd.depth, (expF cfg var pd.layers.length layer' (restNodes cfg pd var) cur' lg).1)])
    (hp : pd'.pool = (expF cfg var pd.layers.length layer' (restNodes cfg pd var) cur' lg).2.1)
    (hd : pd'.depth = pd.depth + 1)
    (hex : pd'.isExactField = true → pd.isExactField = true ∧ ∀ n ∈ layer', n.isExact = true)
    (hroot : pd.layers = [] → restNodes cfg pd var = [] ∧ ∃ n0, layer'[0]? = some n0 ∧ 0 ∈ cur' ∧
      n0.state = cfg.root.state ∧ n0.value = cfg.root.value ∧ n0.isExact = true) :
    BInvP cfg H B t (fun l p => if l = pd.layers.length then p ∈ cur' else Live l p) pd' (k + 1) := by
  unfold expF at hl hp
  have hrestm : ∀ m ∈ restNodes cfg pd var, m ∈ pd.pool ∧ cfg.P.impacted var m.state = false := fun m hm => mem_restNodes hm
  have hex2 := fold_allEx cfg var pd.layers.length cur' (layer', restNodes cfg pd var, lg)
  generalize hlyF : (cur'.foldl (expandOne cfg var pd.layers.length) (layer', restNodes cfg pd var, lg)).1 = lyF at hl hex2
  generalize hnx : (cur'.foldl (expandOne cfg var pd.layers.length) (layer', restNodes cfg pd var, lg)).2.1 = nx at hp hex2
  have hrub : RubEq lyF layer' := by rw [← hlyF]; exact fold_rubEq cfg var pd.layers.length cur' (layer', restNodes cfg pd var, lg)
  have hkeys : lyF.map Cover.key = layer'.map Cover.key := by
    rw [← hlyF]; exact Cover.fold_keys cfg var pd.layers.length cur' (layer', restNodes cfg pd var, lg)
  have hlenF : lyF.length = layer'.length := by
    have := congrArg List.length hkeys; simpa using this
  have hcost : ∀ s s' d, Cover.Within B (cfg.P.cost s s' d) := fun s s' d => hy.B.cost s s' d
  have hdep := hI.depth
  have hlen' : pd'.layers.length = pd.layers.length + 1 := by rw [hl, List.length_append, List.length_singleton]
  have hplain' : pd'.plain = pd.plain ++ [lyF] := by unfold PD.plain; rw [hl, List.map_append]; rfl
  have hsmall : Cover.Bd B k + B ≤ 4611686018427387904 := by
    rw [← Cover.Bd_succ]; exact Cover.Bd_small hy.B.toDom (by omega)
  -- layers of `pd'`
  have hlay : ∀ (i dp : Nat) ly, pd'.layers[i]? = some (dp, ly) →
      pd.layers[i]? = some (dp, ly) ∨ (i = pd.layers.length ∧ dp = pd.depth ∧ ly = lyF) := by
    intro i dp ly hi
    rw [hl] at hi
    rcases getElem?_append_singleton_cases hi with h | ⟨h1, h2⟩
    · exact .inl h
    · simp only [Prod.mk.injEq] at h2
      exact .inr ⟨h1, h2.1, h2.2⟩
  have hold : ∀ (i : Nat) x, pd.layers[i]? = some x → pd'.layers[i]? = some x := by
    intro i x hi
    rw [hl, List.getElem?_append_left (Cover.lt_of_getElem?_some hi)]; exact hi
  have hnew : pd'.layers[pd.layers.length]? = some (pd.depth, lyF) := by rw [hl]; exact List.getElem?_concat_length
  -- a node of `lyF` and the node of `layer'` at the same position
  have hF : ∀ (q : Nat) n, lyF[q]? = some n → ∃ n0, layer'[q]? = some n0 ∧ n0.state = n.state ∧ n0.value = n.value ∧
      n0.inb = n.inb ∧ n0.cutset = n.cutset ∧ n0.isExact = n.isExact := by
    intro q n hq
    obtain ⟨n0, h0, hs⟩ := hrub.get hq
    obtain ⟨e1, e2, e3, e4⟩ := stripRub_fields hs
    exact ⟨n0, h0, e1, e2, e3, e4, (stripRub_core hs).1⟩
  have hF' : ∀ (q : Nat) n0, layer'[q]? = some n0 → ∃ n, lyF[q]? = some n ∧ n0.state = n.state ∧ n0.value = n.value ∧
      n0.inb = n.inb ∧ n0.cutset = n.cutset ∧ n0.isExact = n.isExact := by
    intro q n0 hq
    obtain ⟨n, h0, hs⟩ := hrub.get' hq
    obtain ⟨e1, e2, e3, e4⟩ := stripRub_fields hs
    exact ⟨n, h0, e1, e2, e3, e4, (stripRub_core hs).1⟩
  have hkpar : ∀ (q : Nat) (par : Node S), (layer'.map Cover.key)[q]? = some (Cover.key par) →
      Cover.Within (Cover.Bd B k) par.value ∧ q < lyF.length := by
    intro q par hq
    rw [List.getElem?_map] at hq
    cases h0 : layer'[q]? with
    | none => rw [h0] at hq; cases hq
    | some n0 =>
      rw [h0] at hq
      simp only [Option.map_some, Cover.key, Option.some.injEq, Prod.mk.injEq] at hq
      refine ⟨hq.2 ▸ hsq.rng n0 (List.mem_of_getElem? h0), ?_⟩
      rw [hlenF]; exact Cover.lt_of_getElem?_some h0
  -- the new pool
  have hrng : ∀ m ∈ nx, Cover.Within (Cover.Bd B (k + 1)) m.value := by
    rw [← hnx]
    refine fold_childrenK (fun m => Cover.Within (Cover.Bd B (k + 1)) m.value) cfg var pd.layers.length cur'
      (layer', restNodes cfg pd var, lg) _ rfl ?_ ?_ ?_
    · intro m hm
      exact (hI.rngP m (hrestm m hm).1).mono (Cover.Bd_mono hy.B.nonneg (by omega))
    · intro q _ par d n hq hn
      have hw := Cover.within_satAdd (hkpar q par hq).1 (hcost par.state (cfg.P.trans par.state ⟨var, d⟩) ⟨var, d⟩)
      rw [← Cover.Bd_succ] at hw
      rcases Cover.appendEdge_value par n (Cover.arcOf cfg var pd.layers.length q par d) with ⟨h1, _⟩ | ⟨h1, _⟩
      · rw [h1]; exact hn
      · rw [h1]; exact hw
    · intro q _ par d hq
      have hw := Cover.within_satAdd (hkpar q par hq).1 (hcost par.state (cfg.P.trans par.state ⟨var, d⟩) ⟨var, d⟩)
      rw [← Cover.Bd_succ] at hw
      rcases Cover.appendEdge_value par (Cover.freshNode par (cfg.P.trans par.state ⟨var, d⟩)
        (cfg.P.cost par.state (cfg.P.trans par.state ⟨var, d⟩) ⟨var, d⟩)) (Cover.arcOf cfg var pd.layers.length q par d)
        with ⟨h1, _⟩ | ⟨h1, _⟩
      · rw [h1]; exact hw
      · rw [h1]; exact hw
  have harcs : ∀ m ∈ nx, ∀ a ∈ m.inb, Cover.Within B a.cost ∧ a.fromL < pd.layers.length + 1 ∧
      (if a.fromL = pd.layers.length then a.fromP ∈ cur' else Live a.fromL a.fromP) := by
    rw [← hnx]
    refine fold_child_arcs (fun a => Cover.Within B a.cost ∧ a.fromL < pd.layers.length + 1 ∧
      (if a.fromL = pd.layers.length then a.fromP ∈ cur' else Live a.fromL a.fromP)) cfg var pd.layers.length cur'
      (layer', restNodes cfg pd var, lg) ?_ ?_
    · intro m hm a ha
      obtain ⟨h1, h2, h3⟩ := hI.arcsP m (hrestm m hm).1 a ha
      exact ⟨h1, by omega, by rw [if_neg (by omega)]; exact h3⟩
    · intro q hq s d
      exact ⟨hcost _ _ _, Nat.lt_succ_self _, by rw [if_pos rfl]; exact hq⟩
  have hatt : ∀ m ∈ nx, ∃ a ∈ m.inb, ∃ x, getNode (pd.plain ++ [lyF]) a.fromL a.fromP = some x := by
    rw [← hnx]
    refine fold_childrenK (fun m => ∃ a ∈ m.inb, ∃ x, getNode (pd.plain ++ [lyF]) a.fromL a.fromP = some x) cfg var
      pd.layers.length cur' (layer', restNodes cfg pd var, lg) _ rfl ?_ ?_ ?_
    · intro m hm
      by_cases hemp : pd.layers = []
      · rw [(hroot hemp).1] at hm; cases hm
      · obtain ⟨a, ha, x, hx⟩ := hI.att hemp m (hrestm m hm).1
        exact ⟨a, ha, x, getNode_append_left _ _ _ _ _ hx⟩
    · intro q _ par d n _ hn
      obtain ⟨a, ha, x, hx⟩ := hn
      exact ⟨a, by rw [Cover.appendEdge_inb]; exact List.mem_cons_of_mem _ ha, x, hx⟩
    · intro q _ par d hq
      have hlt := (hkpar q par hq).2
      refine ⟨_, by rw [Cover.appendEdge_inb]; exact List.mem_cons_self, lyF[q], ?_⟩
      simp only [Cover.arcOf]
      rw [← plain_length, Cover.getNode_last]
      exact List.getElem?_eq_getElem hlt
  have hcut : ∀ m ∈ nx, m.cutset = false := by
    rw [← hnx]
    exact fold_child_cutset cfg var pd.layers.length cur' (layer', restNodes cfg pd var, lg)
      (fun m hm => hI.cutP m (hrestm m hm).1)
  refine ⟨?_, ?_, ?_, ?_, ?_, ?_, ?_, ?_, ?_, ?_, ?_, ?_, ?_, ?_, ?_⟩
  · -- depth
    rw [hd, hI.depth]; omega
  · -- nlay
    rw [hlen']; have := hI.nlay; omega
  · -- lays
    intro i dp ly hi
    rcases hlay i dp ly hi with hi | ⟨_, rfl, _⟩
    · have := hI.lays i dp ly hi; omega
    · omega
  · -- rngP
    intro m hm
    rw [hp] at hm
    exact hrng m hm
  · -- rngL
    intro i dp ly hi m hm
    rcases hlay i dp ly hi with hi | ⟨_, rfl, rfl⟩
    · exact hI.rngL i dp ly hi m hm
    · obtain ⟨q, hq⟩ := List.mem_iff_getElem?.mp hm
      obtain ⟨n0, h0, _, hv, _⟩ := hF q m hq
      rw [← hv, show pd.depth - cfg.root.depth = k by omega]
      exact hsq.rng n0 (List.mem_of_getElem? h0)
  · -- arcsP
    intro m hm a ha
    rw [hp] at hm
    rw [hlen']
    exact harcs m hm a ha
  · -- arcsL
    intro i dp ly hi m hm a ha
    rcases hlay i dp ly hi with hi | ⟨rfl, _, rfl⟩
    · obtain ⟨h1, h2⟩ := hI.arcsL i dp ly hi m hm a ha
      have := Cover.lt_of_getElem?_some hi
      exact ⟨h1, by rw [if_neg (by omega)]; exact h2⟩
    · obtain ⟨q, hq⟩ := List.mem_iff_getElem?.mp hm
      obtain ⟨n0, h0, _, _, hinb, _⟩ := hF q m hq
      obtain ⟨_, h2, h3⟩ := hsq.arcs n0 (List.mem_of_getElem? h0) a (hinb ▸ ha)
      exact ⟨h2, by rw [if_neg (by omega)]; exact h3⟩
  · -- att
    intro _ m hm
    rw [hp] at hm
    rw [hplain']
    exact hatt m hm
  · -- step
    intro l p dp ly n hly hlive hnp
    rcases hlay l dp ly hly with hly0 | ⟨rfl, rfl, rfl⟩
    · -- an old live node
      have hlt := Cover.lt_of_getElem?_some hly0
      have hlive0 : Live l p := by rw [if_neg (by omega)] at hlive; exact hlive
      intro h hH ht
      obtain ⟨m, e, h', dp', htg, he, hfl, hfp, hw, hH', hle, hval⟩ := hsq.step l p dp ly n hly0 hlive0 hnp h hH ht
      rcases htg with ⟨l', p', ly', hll', hly', hm, hlive'⟩ | ⟨hdp', ⟨q, hq, hm⟩ | hm⟩
      · have := Cover.lt_of_getElem?_some hly'
        exact ⟨m, e, h', dp', .inl ⟨l', p', ly', hll', hold l' _ hly', hm, by dsimp only; rw [if_neg (by omega)]; exact hlive'⟩,
          he, hfl, hfp, hw, hH', hle, hval⟩
      · subst hdp'
        obtain ⟨m', hm', hs, hv, hinb, _⟩ := hF' q m hm
        exact ⟨m', e, h', pd.depth, .inl ⟨pd.layers.length, q, lyF, hlt, hnew, hm', by dsimp only; rw [if_pos rfl]; exact hq⟩,
          hinb ▸ he, hfl, hfp, hw, hs ▸ hH', hle, hv ▸ hval⟩
      · subst hdp'
        obtain ⟨hmp, himp⟩ := hrestm m hm
        have hA : HasA (cur'.foldl (expandOne cfg var pd.layers.length) (layer', restNodes cfg pd var, lg)).2.1 m.state m.value e :=
          fold_hasA_mono cfg var pd.layers.length cur' (layer', restNodes cfg pd var, lg) m.state m.value e
            ⟨m, hm, rfl, Int.le_refl _, he⟩
        rw [hnx] at hA
        obtain ⟨m', hm', hs, hv, he'⟩ := hA
        obtain ⟨h'', hH'', hle''⟩ := upTo_of_le (hy.S.up pd.depth _ var m.state hnv (List.mem_map_of_mem hmp) himp) h' hH'
        exact ⟨m', e, h'', pd.depth + 1, .inr ⟨by rw [hp]; exact hm', hd.symm⟩, he', hfl, hfp, hw, by rw [hs]; exact hH'',
          by omega, by omega⟩
    · -- a node of the new layer
      rw [if_pos rfl] at hlive
      intro h hH ht
      obtain ⟨n0, h0, hs, hv, _, _⟩ := hF p n hnp
      rw [← hs] at hH
      rw [← hv] at ht
      obtain ⟨d, hdm, h', hH', hle'⟩ := hsq.att p hlive n0 h0 h hH
      have hrubt : satAdd (cfg.R.rub n0.state) n0.value > cfg.lb := by
        unfold satAdd; apply hy.clamp
        have := hy.R _ _ _ hH; omega
      have hnewA := fold_hasA_new cfg var pd.layers.length cur' (layer', restNodes cfg pd var, lg) p hlive n0.state n0.value
        (by rw [List.getElem?_map, h0]; rfl) hrubt d hdm
      rw [hnx] at hnewA
      obtain ⟨m, hm, hms, hmv, hma⟩ := hnewA
      have hw := hsq.rng n0 (List.mem_of_getElem? h0)
      have hc := hcost n0.state (cfg.P.trans n0.state ⟨var, d⟩) ⟨var, d⟩
      have hsa : satAdd n0.value (cfg.P.cost n0.state (cfg.P.trans n0.state ⟨var, d⟩) ⟨var, d⟩) =
          n0.value + cfg.P.cost n0.state (cfg.P.trans n0.state ⟨var, d⟩) ⟨var, d⟩ := by
        apply Cover.satAdd_eq <;> (unfold Cover.Within at hw hc; simp only [iMin, iMax]; omega)
      rw [hsa] at hmv
      refine ⟨m, _, h', pd.depth + 1, .inr ⟨by rw [hp]; exact hm, hd.symm⟩, hma, rfl, rfl, hc, ?_, hle', ?_⟩
      · rw [hms]; exact hH'
      · rw [← hv]; exact hmv
  · -- rub
    intro l p dp ly n hly hlive hnp
    rcases hlay l dp ly hly with hly0 | ⟨rfl, _, rfl⟩
    · have := Cover.lt_of_getElem?_some hly0
      rw [if_neg (by omega)] at hlive
      exact hI.rub l p dp ly n hly0 hlive hnp
    · rw [if_pos rfl] at hlive
      have := fold_rubSet cfg var pd.layers.length cur' (layer', restNodes cfg pd var, lg) p (.inl hlive)
      rw [hlyF] at this
      exact this n hnp
  · -- cutL
    intro ly hly m hm
    rw [hplain'] at hly
    rcases List.mem_append.mp hly with hly | hly
    · exact hI.cutL ly hly m hm
    · rw [List.mem_singleton] at hly; subst hly
      obtain ⟨q, hq⟩ := List.mem_iff_getElem?.mp hm
      obtain ⟨n0, h0, _, _, _, hc, _⟩ := hF q m hq
      rw [← hc]; exact hsq.cut n0 (List.mem_of_getElem? h0)
  · -- cutP
    intro m hm
    rw [hp] at hm
    exact hcut m hm
  · -- exF
    intro hief
    obtain ⟨hief0, hlex⟩ := hex hief
    obtain ⟨hEL, hEP⟩ := hI.exF hief0
    obtain ⟨hx1, hx2⟩ := hex2 hlex (fun c hc => hEP c (hrestm c hc).1)
    refine ⟨?_, by rw [hp]; exact hx2⟩
    intro ly hly
    rw [hplain'] at hly
    rcases List.mem_append.mp hly with hly | hly
    · exact hEL ly hly
    · rw [List.mem_singleton] at hly; subst hly; exact hx1
  · -- root0
    intro h; rw [hl] at h; simp at h
  · -- root1
    intro _
    by_cases hemp : pd.layers = []
    · obtain ⟨n0', hn0', _, _, _, hup⟩ := hI.root0 hemp
      obtain ⟨_, n0, h0, hc0, hs0, hv0, hx0⟩ := hroot hemp
      have hL0 : pd.layers.length = 0 := by rw [hemp]; rfl
      obtain ⟨n, hn', hs, hv, _, _, hx⟩ := hF' 0 n0 h0
      refine ⟨pd.depth, lyF, n, by rw [← hL0]; exact hnew, hn', by rw [← hs]; exact hs0, by rw [← hv]; exact hv0,
        by rw [← hx]; exact hx0, ?_, hup⟩
      rw [if_pos hL0.symm]; exact hc0
    · obtain ⟨dp, ly, n0, hly, hn0, hs0, hv0, hx0, hlive, hup⟩ := hI.root1 hemp
      refine ⟨dp, ly, n0, hold 0 _ hly, hn0, hs0, hv0, hx0, ?_, hup⟩
      have : 0 < pd.layers.length := Cover.lt_of_getElem?_some hly
      rw [if_neg (by omega)]; exact hlive

/-! ## `stepLayerP`, `buildLoopP` -/

theorem expF_isEmpty (cfg : Cfg S K) (var lidx : Nat) (layer rest : List (Node S)) (cur : List Nat) (log : List (Call S))
    (hne : layer ≠ []) : (expF cfg var lidx layer rest cur log).1.isEmpty = false := by
  have h4 := (expF_rubEq cfg var lidx layer rest cur log).length
  cases hr : (expF cfg var lidx layer rest cur log).1 with
  | nil =>
    rw [hr] at h4
    exact absurd (List.eq_nil_of_length_eq_zero h4.symm) hne
  | cons _ _ => rfl

theorem stepLayerP_binv (cfg : Cfg S K) (H : Nat → S → EInt) (B t : Int) (hy : HypP cfg H B t)
    (Live : Nat → Nat → Prop) (pd pd' : PD S K) (var k : Nat)
    (hnv : cfg.P.nextVar pd.depth (pd.pool.map (·.state)) = some var) (hk : k ≤ cfg.P.nbVars)
    (hI : BInvP cfg H B t Live pd k) (hst : stepLayerP cfg pd var = some pd') :
    ∃ Live', BInvP cfg H B t Live' pd' (k + 1) := by
  obtain ⟨layer, cur, ief, log, hs⟩ := stepLayerP_elim cfg pd pd' var hst
  have hsq := hs.sq
  have hlenL := squashCase_length cfg pd var layer cur ief log hs.sq
  rw [fdOf_iso cfg pd var hy.cache hy.dom] at hsq
  have hlayers := hs.layers
  have hpool := hs.pool
  by_cases hcn : curNodes cfg pd var = []
  · -- no pool node is impacted
    have hall : ∀ m ∈ pd.pool, cfg.P.impacted var m.state = false := by
      intro m hm
      cases hi : cfg.P.impacted var m.state with
      | false => rfl
      | true =>
        have := curNodes_of_mem (pd := pd) hm hi
        rw [hcn] at this; cases this
    have hrest : restNodes cfg pd var = pd.pool := by
      unfold restNodes
      rw [List.filter_eq_self]
      intro m hm
      rw [hall m hm]; rfl
    have hshape : layer = [] ∧ cur = [] ∧ ief = pd.isExactField := by
      cases hsq with
      | restrict hc _ _ _ _ _ => rw [hy.rel] at hc; cases hc
      | relax _ hlen _ _ _ _ _ _ =>
        dsimp only at hlen
        rw [hcn] at hlen
        simp at hlen
      | keep _ _ hl hc _ hief =>
        dsimp only at hl hc
        rw [hcn] at hl hc
        exact ⟨hl, hc, hief⟩
    obtain ⟨rfl, rfl, rfl⟩ := hshape
    have hexp : expF cfg var pd.layers.length [] (restNodes cfg pd var) [] log = ([], restNodes cfg pd var, log) := rfl
    rw [hexp] at hlayers hpool
    dsimp only at hlayers hpool
    rw [hrest] at hpool
    refine ⟨Live, hI.skip hy.B.nonneg ?_ hpool hs.depth hs.ief ?_⟩
    · rw [hlayers]; rfl
    · intro m hm
      exact upTo_of_le (hy.S.up pd.depth _ var m.state hnv (List.mem_map_of_mem hm) (hall m hm))
  · -- a layer is materialised
    have hlne : layer ≠ [] := by
      intro h
      rw [h] at hlenL
      exact hcn (List.eq_nil_of_length_eq_zero (Nat.le_zero.mp hlenL))
    rw [expF_isEmpty cfg var pd.layers.length layer _ cur log hlne] at hlayers
    simp only [Bool.false_eq_true, if_false] at hlayers
    refine ⟨fun l p => if l = pd.layers.length then p ∈ cur else Live l p, ?_⟩
    cases hsq with
    | restrict hc _ _ _ _ _ => rw [hy.rel] at hc; cases hc
    | relax _ hlen hnl _ hl hc hlog hief =>
      dsimp only at hlen hl hc hlog
      subst hl hc
      refine expand_binvP cfg H B t Live pd pd' k var _ _ log hy hk hnv hI
        (sqpostP_relax cfg H B t Live pd k var _ hy hnv (by omega) hlen hnl hI) hlayers hpool hs.depth ?_ ?_
      · intro h; rw [hs.ief, hief] at h; cases h
      · intro h; rw [h] at hnl; simp at hnl
    | keep _ _ hl hc hlog hief =>
      dsimp only at hl hc hlog
      subst hl hc
      refine expand_binvP cfg H B t Live pd pd' k var _ _ log hy hk hnv hI
        (sqpostP_keep cfg H B t Live pd k var hy.P hnv hI) hlayers hpool hs.depth ?_ ?_
      · intro h
        rw [hs.ief, hief] at h
        refine ⟨h, fun n hn => ?_⟩
        obtain ⟨m, hm, _, rfl⟩ := mem_curNodes' hn
        exact (hI.exF h).2 m hm
      · intro hemp
        obtain ⟨n0, hn0, hs0, hv0, hx0, _⟩ := hI.root0 hemp
        cases hi : cfg.P.impacted var n0.state with
        | false =>
          exfalso; apply hcn
          unfold curNodes; rw [hn0]
          simp [hi]
        | true =>
          refine ⟨?_, { n0 with depth := pd.depth }, ?_, ?_, hs0, hv0, hx0⟩
          · unfold restNodes; rw [hn0]; simp [hi]
          · unfold curNodes; rw [hn0]; simp [hi]
          · unfold curNodes; rw [hn0]; simp [hi]

/-- what holds when the loop ends normally: the invariant, after at most `nbVars + 1` iterations, on a diagram whose
    pool is empty (the `break`) or is the terminal layer (`nextVar` answered `none`) -/
def DoneP (cfg : Cfg S K) (H : Nat → S → EInt) (B t : Int) (fin : PD S K) : Prop :=
  ∃ (Live : Nat → Nat → Prop) (k : Nat), BInvP cfg H B t Live fin k ∧ k ≤ cfg.P.nbVars + 1 ∧ TerminalP cfg fin

theorem buildLoopP_binv (cfg : Cfg S K) (H : Nat → S → EInt) (B t : Int) (hy : HypP cfg H B t) (stopAt : Option Nat) :
    ∀ (fuel : Nat) (pd : PD S K) (k : Nat) (Live : Nat → Nat → Prop), BInvP cfg H B t Live pd k →
      k + fuel ≤ cfg.P.nbVars + 2 → (buildLoopP cfg stopAt fuel pd).2 = .ok →
      DoneP cfg H B t (buildLoopP cfg stopAt fuel pd).1 := by
  intro fuel
  induction fuel with
  | zero => intro pd k Live _ _ h; simp [buildLoopP] at h
  | succ fuel ih =>
    intro pd k Live hI hfuel hok
    cases buildLoopP_cases cfg stopAt fuel pd with
    | none hnv hb =>
      rw [hb]
      exact ⟨Live, k, hI.congr rfl rfl rfl rfl, by omega, .inr hnv⟩
    | cutoff var _ hb => rw [hb] at hok; cases hok
    | empty var _ hemp hb =>
      rw [hb]
      exact ⟨Live, k, hI.congr rfl rfl rfl rfl, by omega, .inl hemp⟩
    | crash var _ _ hb => rw [hb] at hok; cases hok
    | step var pd' hnv _ hst hb =>
      rw [hb] at hok ⊢
      cases fuel with
      | zero => simp [buildLoopP] at hok
      | succ fuel' =>
        have hI2 : BInvP cfg H B t Live (polled cfg pd) k := hI.congr rfl rfl rfl rfl
        obtain ⟨Live', hI'⟩ := stepLayerP_binv cfg H B t hy Live (polled cfg pd) pd' var k hnv (by omega) hI2 hst
        exact ih pd' (k + 1) Live' hI' (by omega) hok

/-- **the invariant at the end of the top-down build** of a pooled compilation that ends normally -/
theorem compileP_done (cfg : Cfg S K) (H : Nat → S → EInt) (B t : Int) (hy : HypP cfg H B t)
    (cache : Cache S) (store : DomStore S K) (polls : Nat) (stopAt : Option Nat)
    (hok : (compileP cfg cache store polls stopAt).1 = .ok) :
    DoneP cfg H B t (buildLoopP cfg stopAt (cfg.P.nbVars + 2) (initPD cfg cache store polls)).1 := by
  rw [compileP_outcome] at hok
  exact buildLoopP_binv cfg H B t hy stopAt (cfg.P.nbVars + 2) (initPD cfg cache store polls) 0 _
    (initPD_binv cfg H B t cache store polls hy.B) (by omega) hok

/-! ## potential-preserving paths (long arcs) to the terminal layer -/

/-- depth of the layer of index `l` of the diagram `pd.plain ++ [termsP pd]` -/
def depOf (pd : PD S K) (l : Nat) : Nat :=
  match pd.layers[l]? with
  | some dl => dl.1
  | none => pd.depth

theorem depOf_layer {pd : PD S K} {l dp : Nat} {ly : List (Node S)} (h : pd.layers[l]? = some (dp, ly)) :
    depOf pd l = dp := by
  unfold depOf; rw [h]

theorem depOf_last (pd : PD S K) : depOf pd pd.layers.length = pd.depth := by
  unfold depOf; rw [List.getElem?_eq_none (Nat.le_refl _)]

/-- `PathP LS H dep B l p h r nx`: from the node at position `(l, p)` of the diagram `LS` (layer `i` at depth `dep i`),
    whose state has potential `h`, a path of `r` arcs — each into a **later** layer — leads to the last layer, no
    potential being lost along any arc; `nx` = the layer its first arc lands in (`LS.length` for the empty path) -/
inductive PathP (LS : List (List (Node S))) (H : Nat → S → EInt) (dep : Nat → Nat) (B : Int) :
    Nat → Nat → Int → Nat → Nat → Prop
  | term (l p : Nat) (n : Node S) : l + 1 = LS.length → getNode LS l p = some n → H (dep l) n.state = some 0 →
      PathP LS H dep B l p 0 0 LS.length
  | step (l p l' p' : Nat) (n m : Node S) (e : Arc) (h h' : Int) (r nx : Nat) :
      l < l' → getNode LS l p = some n → getNode LS l' p' = some m → e ∈ m.inb → e.fromL = l → e.fromP = p →
      Cover.Within B e.cost → H (dep l) n.state = some h → H (dep l') m.state = some h' →
      h ≤ e.cost + h' → n.value + e.cost ≤ m.value → PathP LS H dep B l' p' h' r nx →
      PathP LS H dep B l p h (r + 1) l'

section
variable {LS : List (List (Node S))} {H : Nat → S → EInt} {dep : Nat → Nat} {B : Int} {l p : Nat} {h : Int} {r nx : Nat}

theorem PathP.len (hp : PathP LS H dep B l p h r nx) : l + r + 1 ≤ LS.length := by
  induction hp with
  | term l p n hl _ _ => omega
  | step l p l' p' n m e h h' r nx hll _ _ _ _ _ _ _ _ _ _ _ ih => omega

theorem PathP.lt_nx (hp : PathP LS H dep B l p h r nx) : l < nx ∧ nx ≤ LS.length := by
  cases hp with
  | term l p n hl _ _ => omega
  | step l p l' p' n m e h h' r nx hll _ hm _ _ _ _ _ _ _ _ _ =>
    have := Ddo.getNode_lt hm
    omega

theorem PathP.bound (hp : PathP LS H dep B l p h r nx) : h ≤ (r : Int) * B := by
  induction hp with
  | term l p n hl _ _ => simp
  | step l p l' p' n m e h h' r nx _ _ _ _ _ _ hw _ _ hle _ _ ih =>
    have : ((r + 1 : Nat) : Int) * B = (r : Int) * B + B := by
      rw [show ((r + 1 : Nat) : Int) = (r : Int) + 1 by omega, Int.add_mul, Int.one_mul]
    unfold Cover.Within at hw
    omega

theorem PathP.node (hp : PathP LS H dep B l p h r nx) : ∃ n, getNode LS l p = some n ∧ H (dep l) n.state = some h := by
  cases hp with
  | term l p n _ hn hH => exact ⟨n, hn, hH⟩
  | step l p l' p' n m e h h' r nx _ hn _ _ _ _ _ hH _ _ _ _ => exact ⟨n, hn, hH⟩

/-- the path ends on a terminal node whose value is at least the potential `value + h` of its origin -/
theorem PathP.terminal (hp : PathP LS H dep B l p h r nx) :
    ∀ n, getNode LS l p = some n → ∃ pt tn, getNode LS (LS.length - 1) pt = some tn ∧ n.value + h ≤ tn.value := by
  induction hp with
  | term l p n hl hn _ =>
    intro n' hn'
    rw [hn] at hn'; cases hn'
    exact ⟨p, n, by rw [show LS.length - 1 = l by omega]; exact hn, by omega⟩
  | step l p l' p' n m e h h' r nx _ hn hm _ _ _ _ _ _ hle hval _ ih =>
    intro n' hn'
    rw [hn] at hn'; cases hn'
    obtain ⟨pt, tn, htn, hv⟩ := ih m hm
    exact ⟨pt, tn, htn, by omega⟩

/-- following a potential-preserving path from an exact node: it stays exact down to a terminal node of value `≥ o`,
    or it meets an exact node with an arc into an inexact node -/
theorem PathP.frontier (hp : PathP LS H dep B l p h r nx) (o : Int) :
    ∀ n, getNode LS l p = some n → n.isExact = true → o ≤ n.value + h →
      (∃ pt tn, getNode LS (LS.length - 1) pt = some tn ∧ tn.isExact = true ∧ o ≤ tn.value) ∨
      (∃ (l1 p1 : Nat) (n1 : Node S) (h1 : Int) (r1 nx1 : Nat) (l2 p2 : Nat) (m : Node S) (e : Arc),
        PathP LS H dep B l1 p1 h1 r1 nx1 ∧ getNode LS l1 p1 = some n1 ∧ n1.isExact = true ∧ o ≤ n1.value + h1 ∧
        getNode LS l2 p2 = some m ∧ m.isExact = false ∧ e ∈ m.inb ∧ e.fromL = l1 ∧ e.fromP = p1) := by
  induction hp with
  | term l p n hl hn hH =>
    intro n' hn' hex ho
    rw [hn] at hn'; cases hn'
    exact .inl ⟨p, n, by rw [show LS.length - 1 = l by omega]; exact hn, hex, by omega⟩
  | step l p l' p' n m e h h' r nx hll hn hm he hfl hfp hw hH hH' hle hval hp' ih =>
    intro n' hn' hex ho
    rw [hn] at hn'; cases hn'
    by_cases hme : m.isExact = true
    · rcases ih m hm hme (by omega) with hterm | hcut
      · exact .inl hterm
      · exact .inr hcut
    · exact .inr ⟨l, p, n, h, r + 1, l', l', p', m, e,
        .step l p l' p' n m e h h' r nx hll hn hm he hfl hfp hw hH hH' hle hval hp',
        hn, hex, ho, hm, by simpa using hme, he, hfl, hfp⟩

theorem PathP.of_xEq {LS' : List (List (Node S))} (hp : PathP LS H dep B l p h r nx) (hx : XEq LS' LS) :
    PathP LS' H dep B l p h r nx := by
  induction hp with
  | term l p n hl hn hH =>
    obtain ⟨n', hn', hs⟩ := hx.symm.getNode_some hn
    rw [← hx.length]
    exact .term l p n' (by rw [hx.length]; exact hl) hn' (by rw [(stripB_fields hs).1]; exact hH)
  | step l p l' p' n m e h h' r nx hll hn hm he hfl hfp hw hH hH' hle hval _ ih =>
    obtain ⟨n', hn', hs⟩ := hx.symm.getNode_some hn
    obtain ⟨m', hm', hsm⟩ := hx.symm.getNode_some hm
    obtain ⟨e1, e2, _⟩ := stripB_fields hs
    obtain ⟨f1, f2, f3, _⟩ := stripB_fields hsm
    exact .step l p l' p' n' m' e h h' r nx hll hn' hm' (by rw [f3]; exact he) hfl hfp hw (by rw [e1]; exact hH)
      (by rw [f1]; exact hH') hle (by rw [e2, f2]; exact hval) ih

end

theorem getNode_LS_layer {pd : PD S K} {l p dp : Nat} {ly : List (Node S)} {n : Node S}
    (hl : pd.layers[l]? = some (dp, ly)) (hp : ly[p]? = some n) :
    getNode (pd.plain ++ [termsP pd]) l p = some n :=
  getNode_append_left _ _ _ _ _ (getNode_plain_of hl hp)

theorem getNode_LS_pool {pd : PD S K} {p : Nat} {m : Node S} (hp : pd.pool[p]? = some m) :
    getNode (pd.plain ++ [termsP pd]) pd.layers.length p = some { m with depth := pd.depth } := by
  rw [← plain_length, Cover.getNode_last]
  unfold termsP
  rw [List.getElem?_map, hp]; rfl

theorem LS_length (pd : PD S K) : (pd.plain ++ [termsP pd]).length = pd.layers.length + 1 := by
  rw [List.length_append, List.length_singleton, plain_length]

/-- every expanded node whose potential reaches the threshold starts a potential-preserving path -/
theorem path_of_liveP (cfg : Cfg S K) (H : Nat → S → EInt) (B t : Int) (hP : Potential cfg.P H)
    (Live : Nat → Nat → Prop) (pd : PD S K) (k : Nat) (hI : BInvP cfg H B t Live pd k)
    (hnone : cfg.P.nextVar pd.depth (pd.pool.map (·.state)) = none) :
    ∀ (d l p dp : Nat) (ly : List (Node S)) (n : Node S) (h : Int), pd.layers.length ≤ l + d →
      pd.layers[l]? = some (dp, ly) → Live l p → ly[p]? = some n → H dp n.state = some h → t ≤ n.value + h →
      ∃ r nx, PathP (pd.plain ++ [termsP pd]) H (depOf pd) B l p h r nx := by
  intro d
  induction d with
  | zero =>
    intro l p dp ly n h hd hl
    have := Cover.lt_of_getElem?_some hl
    omega
  | succ d ih =>
    intro l p dp ly n h hd hl hlive hn hH ht
    obtain ⟨m, e, h', dp', htg, he, hfl, hfp, hw, hH', hle, hval⟩ := hI.step l p dp ly n hl hlive hn h hH ht
    have hnLS := getNode_LS_layer hl hn
    rcases htg with ⟨l', p', ly', hll', hly', hm, hlive'⟩ | ⟨hm, hdp'⟩
    · obtain ⟨r, nx, hpath⟩ := ih l' p' dp' ly' m h' (by omega) hly' hlive' hm hH' (by omega)
      exact ⟨r + 1, l', .step l p l' p' n m e h h' r nx hll' hnLS (getNode_LS_layer hly' hm) he hfl hfp hw
        (by rw [depOf_layer hl]; exact hH) (by rw [depOf_layer hly']; exact hH') hle hval hpath⟩
    · subst hdp'
      obtain ⟨p', hp'⟩ := List.mem_iff_getElem?.mp hm
      have hterm := hP.term pd.depth _ m.state hnone (List.mem_map_of_mem hm)
      rw [hterm] at hH'
      cases hH'
      have hlt := Cover.lt_of_getElem?_some hl
      refine ⟨0 + 1, pd.layers.length, .step l p pd.layers.length p' n { m with depth := pd.depth } e h 0 0 _ hlt hnLS
        (getNode_LS_pool hp') he hfl hfp hw (by rw [depOf_layer hl]; exact hH) (by rw [depOf_last]; exact hterm) hle hval
        (.term pd.layers.length p' { m with depth := pd.depth } (LS_length pd).symm (getNode_LS_pool hp')
          (by rw [depOf_last]; exact hterm))⟩

/-- **cover**: an expanded node whose potential reaches the threshold has a descendant in the pool that does -/
theorem BInvP.cover {cfg : Cfg S K} {H : Nat → S → EInt} {B t : Int} {Live : Nat → Nat → Prop} {pd : PD S K} {k : Nat}
    (hI : BInvP cfg H B t Live pd k) :
    ∀ (d l p dp : Nat) (ly : List (Node S)) (n : Node S) (h : Int), pd.layers.length ≤ l + d →
      pd.layers[l]? = some (dp, ly) → Live l p → ly[p]? = some n → H dp n.state = some h → t ≤ n.value + h →
      ∃ m ∈ pd.pool, ∃ h', H pd.depth m.state = some h' ∧ n.value + h ≤ m.value + h' := by
  intro d
  induction d with
  | zero =>
    intro l p dp ly n h hd hl
    have := Cover.lt_of_getElem?_some hl
    omega
  | succ d ih =>
    intro l p dp ly n h hd hl hlive hn hH ht
    obtain ⟨m, e, h', dp', htg, he, hfl, hfp, hw, hH', hle, hval⟩ := hI.step l p dp ly n hl hlive hn h hH ht
    rcases htg with ⟨l', p', ly', hll', hly', hm, hlive'⟩ | ⟨hm, hdp'⟩
    · obtain ⟨m', hm', h'', hH'', hle''⟩ := ih l' p' dp' ly' m h' (by omega) hly' hlive' hm hH' (by omega)
      exact ⟨m', hm', h'', hH'', by omega⟩
    · subst hdp'
      exact ⟨m, hm, h', hH', by omega⟩

/-- **cover, from the root**: if the potential of the root sub-problem reaches the threshold, so does a pool node -/
theorem BInvP.cover_root {cfg : Cfg S K} {H : Nat → S → EInt} {B t : Int} {Live : Nat → Nat → Prop} {pd : PD S K} {k : Nat}
    (hI : BInvP cfg H B t Live pd k) (h0 : Int) (hH0 : H cfg.root.depth cfg.root.state = some h0)
    (ht : t ≤ cfg.root.value + h0) :
    ∃ m ∈ pd.pool, ∃ h', H pd.depth m.state = some h' ∧ cfg.root.value + h0 ≤ m.value + h' := by
  by_cases hemp : pd.layers = []
  · obtain ⟨n0, hn0, hs, hv, _, hup⟩ := hI.root0 hemp
    obtain ⟨h, hH, hle⟩ := hup h0 hH0
    exact ⟨n0, by rw [hn0]; exact List.mem_cons_self, h, by rw [hs]; exact hH, by omega⟩
  · obtain ⟨dp, ly, n0, hly, hn0, hs, hv, _, hlive, hup⟩ := hI.root1 hemp
    obtain ⟨h, hH, hle⟩ := hup h0 hH0
    obtain ⟨m, hm, h', hH', hle'⟩ := hI.cover pd.layers.length 0 0 dp ly n0 h (by omega) hly hlive hn0
      (by rw [hs]; exact hH) (by omega)
    exact ⟨m, hm, h', hH', by omega⟩

/-! ## `computeLocalBounds` in pull form, long arcs -/

/-- processing layer `j'` transmits the bound of a child to its parent, whatever the (earlier) layer of the parent -/
theorem lbLayer_stepP {ls LS : List (List (Node S))} (hx : XEq ls LS) {j j' p p' : Nat} {n m : Node S} {e : Arc} {h h' : Int}
    (hn : getNode LS j p = some n) (hm : getNode LS j' p' = some m) (he : e ∈ m.inb)
    (hfl : e.fromL = j) (hfp : e.fromP = p) (hg : Good ls j' p' h') (hle : h ≤ e.cost + h') (hmax : h ≤ iMax) :
    Good (lbLayer ls j') j p h := by
  unfold lbLayer
  have hp' : p' ∈ List.range (ls[j']?.getD []).length := by
    obtain ⟨n', hn', _⟩ := hg
    exact List.mem_range.mpr (getNode_pos_lt hn')
  refine foldl_reach (lbPos j') (fun b => XEq b LS ∧ Good b j' p' h') (fun b => Good b j p h) p'
    (fun b a hb => ⟨lbPos_xEq hb.1 _ _, lbPos_good hb.2 _ _⟩) (fun b a hb => lbPos_good hb _ _) ?_ _ ls hp' ⟨hx, hg⟩
  rintro b ⟨hbx, n', hn', hmk, hvb⟩
  unfold lbPos
  rw [hn']
  dsimp only
  rw [if_pos hmk]
  obtain ⟨m', hm', hs⟩ := hbx.getNode_some hn'
  rw [hm] at hm'; cases hm'
  have he' : e ∈ n'.inb := by rw [← stripB_inb hs]; exact he
  refine foldl_reach (lbArc n') (fun b' => XEq b' LS) (fun b' => Good b' j p h) e
    (fun b' a hb' => lbArc_xEq hb' _ _) (fun b' a hb' => lbArc_good hb' _ _) ?_ _ b he' hbx
  intro b' hb'
  obtain ⟨n'', hn'', _⟩ := hb'.symm.getNode_some hn
  unfold lbArc
  rw [hfl, hfp]
  refine Good_modNode_new hn'' _ _ ?_
  unfold satAdd clamp
  unfold iMax at hmax
  simp only [iMin, iMax]
  omega

/-- **local bounds**: after `computeLocalBounds`, the origin of a potential-preserving path is marked and its
    local bound dominates its potential -/
theorem computeLocalBounds_goodP (LS : List (List (Node S))) (H : Nat → S → EInt) (dep : Nat → Nat) (B : Int)
    (hsmall : ∀ r : Nat, r < LS.length → (r : Int) * B ≤ iMax) :
    ∀ (l p : Nat) (h : Int) (r nx : Nat), PathP LS H dep B l p h r nx → Good (computeLocalBounds LS) l p h := by
  rw [computeLocalBounds_eq]
  generalize hL0 : LS.set (LS.length - 1)
    ((LS[LS.length - 1]?.getD []).map (fun n => { n with vbot := 0, marked := true })) = L0
  have hx0 : XEq L0 LS := by rw [← hL0]; exact (XEq.refl LS).set_map _ _ (fun _ => rfl)
  -- the invariant of the outer loop: the paths whose first arc lands in a layer `≥ lo` are fine
  have key : ∀ (lo : Nat), lo ≤ LS.length → ∀ ls, XEq ls LS →
      (∀ (j p : Nat) (h : Int) (r nx : Nat), lo ≤ nx → PathP LS H dep B j p h r nx → Good ls j p h) →
      ∀ (j p : Nat) (h : Int) (r nx : Nat), PathP LS H dep B j p h r nx →
        Good ((List.range lo).reverse.foldl lbLayer ls) j p h := by
    intro lo
    induction lo with
    | zero => intro _ ls _ hJ j p h r nx hp; exact hJ j p h r nx (by omega) hp
    | succ lo ih =>
      intro hlo ls hx hJ
      rw [List.range_succ, List.reverse_append, List.reverse_singleton, List.singleton_append, List.foldl_cons]
      refine ih (by omega) _ (lbLayer_xEq hx lo) ?_
      intro j p h r nx hnx hp
      by_cases hnx' : lo + 1 ≤ nx
      · exact lbLayer_good (hJ j p h r nx hnx' hp) lo
      · have hnxlo : nx = lo := by omega
        have hb := hp.bound
        have hlen := hp.len
        cases hp with
        | term _ _ n hl _ _ => omega
        | step _ _ _ p' n m e _ h' r' nx' hll hn hm he hfl hfp hw hH hH' hle hval hp' =>
          have hg := hJ nx p' h' r' nx' (by have := hp'.lt_nx; omega) hp'
          have := hsmall (r' + 1) (by omega)
          rw [← hnxlo]
          exact lbLayer_stepP hx hn hm he hfl hfp hg hle (by omega)
  refine key LS.length (Nat.le_refl _) L0 hx0 ?_
  intro j p h r nx hnx hp
  cases hp with
  | term _ _ n hl hn hH =>
    -- a node of the last layer
    obtain ⟨ly, hly, hnp⟩ := Cover.getNode_lt hn
    have hj1 : j = LS.length - 1 := by omega
    refine ⟨{ n with vbot := 0, marked := true }, ?_, rfl, Int.le_refl _⟩
    rw [← hL0]
    unfold getNode
    rw [hj1] at hly ⊢
    rw [List.getElem?_set_self (by omega), hly]
    simp only [Option.getD_some, List.getElem?_map, hnp, Option.map_some]
  | step _ _ _ p' n m e _ h' r' nx' hll hn hm _ _ _ _ _ _ _ _ hp' =>
    have := Ddo.getNode_lt hm
    omega

/-! ## `finalizeP` -/

/-- the layers of `finalizeP` after `computeCutset` and `computeLocalBounds` -/
def layers2P (cfg : Cfg S K) (pd : PD S K) : List (List (Node S)) :=
  let relaxed := cfg.ctype == .relaxed
  let terms := pd.pool.map (fun n => { n with depth := pd.depth })
  let layers0 := pd.plain ++ [terms]
  let doCut := relaxed || pd.isExactField
  let (layers1, cs0) := if doCut then computeCutset .frontier 0 layers0 else (layers0, [])
  let cs := if pd.isExactField then [] else cs0
  if !cs.isEmpty && relaxed then computeLocalBounds layers1 else layers1

theorem layers3P_tEq (cfg : Cfg S K) (pd : PD S K) (e : Bool) : TEq (layers3P cfg pd e) (layers2P cfg pd) := by
  unfold layers3P layers2P
  extract_lets relaxed terms layers0 termL bestValue bestExactValue doCut
  generalize (if doCut = true then computeCutset .frontier 0 layers0 else (layers0, [])) = r1
  obtain ⟨layers1, cs0⟩ := r1
  dsimp only
  generalize (if (!(if pd.isExactField = true then [] else cs0).isEmpty && relaxed) = true
      then computeLocalBounds layers1 else layers1) = layers2
  split
  · exact computeThresholds_tEq _ _ _ _ _ _
  · exact TEq.refl _

theorem layers2P_eq (cfg : Cfg S K) (pd : PD S K) (hrel : cfg.ctype = .relaxed) (hief : pd.isExactField = false)
    (hcs : (computeCutset .frontier 0 (pd.plain ++ [termsP pd])).2 ≠ []) :
    layers2P cfg pd = computeLocalBounds (computeCutset .frontier 0 (pd.plain ++ [termsP pd])).1 := by
  unfold layers2P
  unfold termsP at hcs ⊢
  have e2 : (cfg.ctype == CompType.relaxed) = true := by rw [hrel]; decide
  have e3 : (computeCutset .frontier 0 (pd.plain ++ [pd.pool.map (fun n => { n with depth := pd.depth })])).2.isEmpty
      = false := by
    cases h : (computeCutset .frontier 0 (pd.plain ++ [pd.pool.map (fun n => { n with depth := pd.depth })])).2 with
    | nil => exact absurd h hcs
    | cons _ _ => rfl
  simp only [e2, hief, Bool.true_or, if_true, Bool.false_eq_true, if_false, Bool.and_true, e3, Bool.not_false]

theorem cs0P_relaxed (cfg : Cfg S K) (pd : PD S K) (hrel : cfg.ctype = .relaxed) :
    cs0P cfg pd = (computeCutset .frontier 0 (pd.plain ++ [termsP pd])).2 := by
  unfold cs0P
  rw [if_pos (by rw [hrel]; rfl)]

theorem finalizeP_cutset_iff (cfg : Cfg S K) (pd : PD S K) (e : Bool) (c : SubP S) :
    c ∈ (finalizePOld cfg pd e).cutset ↔ ∃ bv lp n, maxValue (termsP pd) = some bv ∧
      lp ∈ (if pd.isExactField then [] else cs0P cfg pd) ∧
      getNode (layers3P cfg pd e) lp.1 lp.2 = some n ∧ n.marked = true ∧ c = subOf cfg (layers3P cfg pd e) bv n := by
  rw [finalizeP_cutset]
  constructor
  · intro hc
    split at hc
    · cases hc
    · rename_i bv hbv
      obtain ⟨lp, hlp, hsome⟩ := List.mem_filterMap.1 hc
      split at hsome
      · rename_i n hn
        split at hsome
        · rename_i hmk
          simp only [Option.some.injEq] at hsome
          exact ⟨bv, lp, n, hbv, hlp, hn, hmk, hsome.symm⟩
        · cases hsome
      · cases hsome
  · rintro ⟨bv, lp, n, hbv, hlp, hn, hmk, rfl⟩
    rw [hbv]
    dsimp only
    refine List.mem_filterMap.2 ⟨lp, hlp, ?_⟩
    rw [hn]
    dsimp only
    rw [if_pos hmk]
    rfl

theorem finalizePOld_bestExactValue (cfg : Cfg S K) (pd : PD S K) (e : Bool) :
    (finalizePOld cfg pd e).bestExactValue =
      if e then maxValue (termsP pd) else maxValue ((termsP pd).filter (·.isExact)) := rfl

theorem finalizeP_bestExactValue (cfg : Cfg S K) (pd : PD S K) (e : Bool) :
    (finalizeP cfg pd e).bestExactValue =
      if e then maxValue (termsP pd) else maxValue ((termsP pd).filter (·.isExact)) := rfl

/-- in the final layers of a relaxed pooled compilation whose cut-set is not empty, the origin of a potential-preserving
    path of the built diagram is marked and its local bound dominates its potential -/
theorem finalizeP_good (cfg : Cfg S K) (pd : PD S K) (e : Bool) (H : Nat → S → EInt) (dep : Nat → Nat) (B : Int)
    (hrel : cfg.ctype = .relaxed) (hief : pd.isExactField = false)
    (hcs : (computeCutset .frontier 0 (pd.plain ++ [termsP pd])).2 ≠ [])
    (hsmall : ∀ r : Nat, r < (pd.plain ++ [termsP pd]).length → (r : Int) * B ≤ iMax)
    (l p : Nat) (h : Int) (r nx : Nat) (hp : PathP (pd.plain ++ [termsP pd]) H dep B l p h r nx) :
    ∃ n3, getNode (layers3P cfg pd e) l p = some n3 ∧ n3.marked = true ∧ h ≤ n3.vbot := by
  have hx1 := computeCutset_xEq .frontier 0 (pd.plain ++ [termsP pd])
  have hp1 := hp.of_xEq hx1
  obtain ⟨n2, hn2, hmk, hv⟩ := computeLocalBounds_goodP _ H dep B (by rw [hx1.length]; exact hsmall) l p h r nx hp1
  have ht := layers3P_tEq cfg pd e
  rw [layers2P_eq cfg pd hrel hief hcs] at ht
  obtain ⟨n3, hn3, hs⟩ := ht.symm.getNode_some hn2
  obtain ⟨_, _, _, _, hm3, hv3⟩ := stripT_fields hs
  exact ⟨n3, hn3, by rw [hm3]; exact hmk, by rw [hv3]; exact hv⟩

section
variable {cfg : Cfg S K} {H : Nat → S → EInt} {B t : Int} {Live : Nat → Nat → Prop} {pd : PD S K} {k : Nat}

/-- the source of an inbound arc of a node of the final diagram: an expanded position of an earlier materialised layer -/
theorem BInvP.arc_src (hI : BInvP cfg H B t Live pd k) {l' p' : Nat} {m : Node S}
    (hm : getNode (pd.plain ++ [termsP pd]) l' p' = some m) {e : Arc} (he : e ∈ m.inb) :
    e.fromL < l' ∧ e.fromL < pd.layers.length ∧ Live e.fromL e.fromP := by
  rcases getNode_layers0 pd hm with ⟨dp, ly, hl, hmem, _⟩ | ⟨hl, m0, hm0, rfl⟩
  · obtain ⟨h1, h2⟩ := hI.arcsL l' dp ly hl m hmem e he
    have := Cover.lt_of_getElem?_some hl
    exact ⟨h1, by omega, h2⟩
  · obtain ⟨_, h1, h2⟩ := hI.arcsP m0 hm0 e he
    exact ⟨by omega, h1, h2⟩

theorem BInvP.cut_LS (hI : BInvP cfg H B t Live pd k) {l p : Nat} {n : Node S}
    (hn : getNode (pd.plain ++ [termsP pd]) l p = some n) : n.cutset = false := by
  rcases getNode_layers0 pd hn with ⟨dp, ly, hl, hmem, hg⟩ | ⟨hl, m0, hm0, rfl⟩
  · obtain ⟨ly', h1, h2⟩ := Cover.getNode_lt hg
    exact hI.cutL ly' (List.mem_of_getElem? h1) n (List.mem_of_getElem? h2)
  · exact hI.cutP m0 hm0

theorem BInvP.ex_LS (hI : BInvP cfg H B t Live pd k) (hief : pd.isExactField = true) {l p : Nat} {n : Node S}
    (hn : getNode (pd.plain ++ [termsP pd]) l p = some n) : n.isExact = true := by
  rcases getNode_layers0 pd hn with ⟨dp, ly, hl, hmem, hg⟩ | ⟨hl, m0, hm0, rfl⟩
  · obtain ⟨ly', h1, h2⟩ := Cover.getNode_lt hg
    exact (hI.exF hief).1 ly' (List.mem_of_getElem? h1) n (List.mem_of_getElem? h2)
  · exact (hI.exF hief).2 m0 hm0

/-- a node of the final diagram that sits in a materialised layer -/
theorem getNode_LS_lt {l p : Nat} {n : Node S} (hn : getNode (pd.plain ++ [termsP pd]) l p = some n)
    (hl : l < pd.layers.length) : ∃ dp ly, pd.layers[l]? = some (dp, ly) ∧ ly[p]? = some n := by
  rcases getNode_layers0 pd hn with ⟨dp, ly, _, _, hg⟩ | ⟨hl', _⟩
  · exact getNode_plain hg
  · omega

/-- the final diagram of a build that ended on `nextVar = none` -/
structure FinP (cfg : Cfg S K) (H : Nat → S → EInt) (B t : Int) (Live : Nat → Nat → Prop) (pd : PD S K) (k : Nat) :
    Prop where
  inv : BInvP cfg H B t Live pd k
  none : cfg.P.nextVar pd.depth (pd.pool.map (·.state)) = none
  len : k ≤ cfg.P.nbVars + 1
  dep : ∀ (l dp : Nat) (ly : List (Node S)), pd.layers[l]? = some (dp, ly) → ∀ n ∈ ly, n.isExact = true → n.depth = dp

theorem FinP.small (hf : FinP cfg H B t Live pd k) (hB : NoClamp cfg.P cfg.R cfg.root.value B) :
    ∀ r : Nat, r < (pd.plain ++ [termsP pd]).length → (r : Int) * B ≤ iMax := by
  apply small_of_noClamp hB
  rw [LS_length]
  have := hf.inv.nlay
  have := hf.len
  omega

/-- the origin of a potential-preserving path of the final diagram: best value, magnitude -/
theorem FinP.path_best (hf : FinP cfg H B t Live pd k) (hB : NoClamp cfg.P cfg.R cfg.root.value B)
    {l p : Nat} {h : Int} {r nx : Nat} {n0 : Node S}
    (hpath : PathP (pd.plain ++ [termsP pd]) H (depOf pd) B l p h r nx)
    (hn0 : getNode (pd.plain ++ [termsP pd]) l p = some n0) :
    ∃ bv, maxValue (termsP pd) = some bv ∧ n0.value + h ≤ bv ∧ n0.value + h ≤ 4611686018427387904 := by
  obtain ⟨pt, tn, htn, hv⟩ := hpath.terminal n0 hn0
  rw [LS_length, Nat.add_sub_cancel, ← plain_length, Cover.getNode_last] at htn
  have htmem : tn ∈ termsP pd := List.mem_of_getElem? htn
  obtain ⟨bv, h1, h2⟩ := Cover.maxValue_ge _ tn htmem
  refine ⟨bv, h1, by omega, ?_⟩
  obtain ⟨m, hm, rfl⟩ := mem_termsP htmem
  have := hf.inv.rngP m hm
  have hs := Cover.Bd_small hB.toDom hf.len
  unfold Cover.Within at this
  dsimp only at hv
  omega
end

section
variable {cfg : Cfg S K} {H : Nat → S → EInt} {B t : Int} {Live : Nat → Nat → Prop} {pd : PD S K} {k : Nat}

/-- **C08 (iii)** for `finalizeP`: the upper bound attached to a sub-problem of the cut-set dominates its potential
    `x`, as soon as `x` reaches the threshold `t` of the invariant -/
theorem FinP.cutset_ub (hf : FinP cfg H B t Live pd k) (hy : HypP cfg H B t) (hlb : InI cfg.lb) (e : Bool)
    (c : SubP S) (hc : c ∈ (finalizePOld cfg pd e).cutset)
    (x : Int) (hΦ : (H c.depth c.state).addI c.value = some x) (htx : t ≤ x) (hx : x > cfg.lb) : x ≤ c.ub := by
  obtain ⟨bv, lp, n3, hbv, hlp, hn3, hmk, rfl⟩ := (finalizeP_cutset_iff cfg pd e c).1 hc
  cases hief : pd.isExactField with
  | true => rw [hief] at hlp; cases hlp
  | false =>
    rw [hief, cs0P_relaxed cfg pd hy.rel] at hlp
    simp only [Bool.false_eq_true, if_false] at hlp
    have hcs : (computeCutset .frontier 0 (pd.plain ++ [termsP pd])).2 ≠ [] := List.ne_nil_of_mem hlp
    obtain ⟨n0, hn0, hex, l', p', m, e', hm, _, he', hfl, hfp⟩ := computeCutset_frontier 0 _ lp hlp
    obtain ⟨_, hlT, hlive⟩ := hf.inv.arc_src hm he'
    rw [hfl] at hlT
    rw [hfl, hfp] at hlive
    obtain ⟨dp, ly, hl, hnp⟩ := getNode_LS_lt hn0 hlT
    have hdepth := hf.dep lp.1 dp ly hl n0 (List.mem_of_getElem? hnp) hex
    obtain ⟨n0', hn0', hs⟩ := (layers3P_xEq cfg pd e).getNode_some hn3
    rw [hn0] at hn0'; cases hn0'
    obtain ⟨e1, e2, _, e4, e5, _⟩ := stripB_fields hs
    simp only [subOf] at hΦ ⊢
    rw [← e5, hdepth, ← e1, ← e2] at hΦ
    obtain ⟨h, hH, hxh⟩ := addI_some hΦ
    obtain ⟨r, nx, hpath⟩ := path_of_liveP cfg H B t hy.P Live pd k hf.inv hf.none pd.layers.length lp.1 lp.2 dp ly n0 h
      (by omega) hl hlive hnp hH (by omega)
    obtain ⟨bv', hbv', hle, hsm⟩ := hf.path_best hy.B hpath hn0
    rw [hbv] at hbv'; cases hbv'
    obtain ⟨n3', hn3', _, hvb⟩ := finalizeP_good cfg pd e H (depOf pd) B hy.rel hief hcs (hf.small hy.B) lp.1 lp.2 h r nx hpath
    rw [hn3] at hn3'; cases hn3'
    have hrub := hf.inv.rub lp.1 lp.2 dp ly n0 hl hlive hnp
    have hrle := hy.R _ _ _ hH
    have h1 : x ≤ satAdd n3.value n3.rub := by
      rw [← e2, ← e4, hrub]
      unfold satAdd clamp; unfold InI at hlb
      simp only [iMin, iMax] at *
      omega
    have h2 : x ≤ satAdd n3.value n3.vbot := by
      rw [← e2]
      unfold satAdd clamp; unfold InI at hlb
      simp only [iMin, iMax] at *
      omega
    omega

/-- **C08 (iv)** for `finalizeP`: if the potential of the root reaches the threshold `t` and every exact terminal
    value is below `t`, a sub-problem of the cut-set has potential `≥ t` -/
theorem FinP.cutset_cover (hf : FinP cfg H B t Live pd k) (hy : HypP cfg H B t) (e : Bool)
    (h0 : Int) (hH0 : H cfg.root.depth cfg.root.state = some h0) (ht : t ≤ cfg.root.value + h0)
    (hbe : ∀ be, (finalizePOld cfg pd e).bestExactValue = some be → be < t) :
    ∃ c ∈ (finalizePOld cfg pd e).cutset, ∃ y, (H c.depth c.state).addI c.value = some y ∧ t ≤ y := by
  -- no exact terminal node reaches `t`
  have noTerm : ∀ tn ∈ termsP pd, tn.isExact = true → t ≤ tn.value → False := by
    intro tn htmem hex hv
    rw [finalizePOld_bestExactValue] at hbe
    cases e with
    | true =>
      obtain ⟨bv, h1, h2⟩ := Cover.maxValue_ge _ tn htmem
      have := hbe bv (by simp only [if_true]; exact h1)
      omega
    | false =>
      have hmem : tn ∈ (termsP pd).filter (·.isExact) := List.mem_filter.2 ⟨htmem, hex⟩
      obtain ⟨bv, h1, h2⟩ := Cover.maxValue_ge _ tn hmem
      have := hbe bv (by simp only [Bool.false_eq_true, if_false]; exact h1)
      omega
  by_cases hemp : pd.layers = []
  · -- the root is still in the pool: it is an exact terminal node
    exfalso
    obtain ⟨n0, hn0, hs, hv, hex, hup⟩ := hf.inv.root0 hemp
    obtain ⟨h, hH, hle⟩ := hup h0 hH0
    have hmem : n0 ∈ pd.pool := by rw [hn0]; exact List.mem_cons_self
    have hterm := hy.P.term pd.depth _ n0.state hf.none (List.mem_map_of_mem hmem)
    rw [hs, hH] at hterm
    cases hterm
    refine noTerm { n0 with depth := pd.depth } ?_ hex (by dsimp only; omega)
    unfold termsP
    exact List.mem_map.2 ⟨n0, hmem, rfl⟩
  · obtain ⟨dp, ly, n0, hly, hn0, hs, hv, hex0, hlive, hup⟩ := hf.inv.root1 hemp
    obtain ⟨h, hH, hle⟩ := hup h0 hH0
    obtain ⟨r, nx, hpath0⟩ := path_of_liveP cfg H B t hy.P Live pd k hf.inv hf.none pd.layers.length 0 0 dp ly n0 h
      (by omega) hly hlive hn0 (by rw [hs]; exact hH) (by omega)
    have hn0LS := getNode_LS_layer hly hn0
    rcases hpath0.frontier t n0 hn0LS hex0 (by omega) with ⟨pt, tn, htn, hte, htv⟩ |
      ⟨l1, p1, n1, h1, r1, nx1, l2, p2, m, e', hp1, hn1, hex1, hv1, hm, hmex, he', hfl, hfp⟩
    · exfalso
      rw [LS_length, Nat.add_sub_cancel, ← plain_length, Cover.getNode_last] at htn
      exact noTerm tn (List.mem_of_getElem? htn) hte htv
    · have hief : pd.isExactField = false := by
        cases hx : pd.isExactField with
        | false => rfl
        | true => have := hf.inv.ex_LS hx hm; rw [hmex] at this; cases this
      have hcsmem := computeCutset_frontier_mem 0 (pd.plain ++ [termsP pd]) (fun l p n hn => hf.inv.cut_LS hn) l2 p2 m e' n1
        hm hmex he' (by rw [hfl, hfp]; exact hn1) hex1
      rw [hfl, hfp] at hcsmem
      have hcs : (computeCutset .frontier 0 (pd.plain ++ [termsP pd])).2 ≠ [] := List.ne_nil_of_mem hcsmem
      obtain ⟨_, hlT, _⟩ := hf.inv.arc_src hm he'
      rw [hfl] at hlT
      obtain ⟨dp1, ly1, hl1, hnp1⟩ := getNode_LS_lt hn1 hlT
      have hdepth := hf.dep l1 dp1 ly1 hl1 n1 (List.mem_of_getElem? hnp1) hex1
      obtain ⟨bv, hbv, _, _⟩ := hf.path_best hy.B hp1 hn1
      obtain ⟨n3, hn3, hmk, _⟩ := finalizeP_good cfg pd e H (depOf pd) B hy.rel hief hcs (hf.small hy.B) l1 p1 h1 r1 nx1 hp1
      obtain ⟨n1', hn1', hsn⟩ := (layers3P_xEq cfg pd e).getNode_some hn3
      rw [hn1] at hn1'; cases hn1'
      obtain ⟨e1, e2, _, _, e5, _⟩ := stripB_fields hsn
      refine ⟨subOf cfg (layers3P cfg pd e) bv n3, (finalizeP_cutset_iff cfg pd e _).2
        ⟨bv, (l1, p1), n3, hbv, ?_, hn3, hmk, rfl⟩, h1 + n1.value, ?_, by omega⟩
      · rw [hief, cs0P_relaxed cfg pd hy.rel]
        simp only [Bool.false_eq_true, if_false]
        exact hcsmem
      · simp only [subOf]
        rw [← e5, hdepth, ← e1, ← e2]
        obtain ⟨n', hn', hH'⟩ := hp1.node
        rw [hn1] at hn'; cases hn'
        rw [depOf_layer hl1] at hH'
        rw [hH']; rfl
end

/-! ## `compileP` -/

/-- **best value**: at the end of the top-down build, if the potential of the root sub-problem reaches the threshold of
    the invariant, the best value of the diagram dominates it (the analogue of `BInv.cover` + `Path.terminal`) -/
theorem finalizeP_bestValue_ge {cfg : Cfg S K} {H : Nat → S → EInt} {B t : Int} {Live : Nat → Nat → Prop} {pd : PD S K}
    {k : Nat} (hI : BInvP cfg H B t Live pd k) (hterm : TerminalP cfg pd) (hP : Potential cfg.P H) (e : Bool)
    (h0 : Int) (hH0 : H cfg.root.depth cfg.root.state = some h0) (ht : t ≤ cfg.root.value + h0) :
    ∃ bv, (finalizeP cfg pd e).bestValue = some bv ∧ cfg.root.value + h0 ≤ bv := by
  obtain ⟨m, hm, h', hH', hle⟩ := hI.cover_root h0 hH0 ht
  rcases hterm with hemp | hnone
  · rw [hemp] at hm; cases hm
  · have hz := hP.term pd.depth _ m.state hnone (List.mem_map_of_mem hm)
    rw [hH'] at hz
    cases hz
    have hmem : ({ m with depth := pd.depth } : Node S) ∈ termsP pd := by
      unfold termsP
      exact List.mem_map.2 ⟨m, hm, rfl⟩
    obtain ⟨bv, h1, h2⟩ := Cover.maxValue_ge _ _ hmem
    rw [finalizeP_bestValue]
    dsimp only at h2
    exact ⟨bv, h1, by omega⟩

/-- **best value of a relaxed pooled compilation in isolation** that ends normally: it dominates the potential of the
    root sub-problem, provided that potential survives the rough-upper-bound test (`hclamp`; e.g. it beats `lb < iMax`) -/
theorem compileP_bestValue_ge (cfg : Cfg S K) (H : Nat → S → EInt) (B : Int) (cache : Cache S)
    (store : DomStore S K) (polls : Nat) (stopAt : Option Nat)
    (hrel : cfg.ctype = .relaxed) (hcache : cfg.useCache = false) (hdom : cfg.dom = none) (hW : 1 ≤ cfg.width)
    (hP : Potential cfg.P H) (hS : SkipWf cfg.P H) (hR : RubOk cfg.R H) (hM : MergeOk cfg.R H)
    (hAM : Cover.AttMerge cfg.P cfg.R H) (hB : NoClamp cfg.P cfg.R cfg.root.value B)
    (h0 : Int) (hH0 : H cfg.root.depth cfg.root.state = some h0)
    (hclamp : ∀ y, cfg.root.value + h0 ≤ y → clamp y > cfg.lb)
    (hok : (compileP cfg cache store polls stopAt).1 = .ok) (r : Result S)
    (hr : r = (compileP cfg cache store polls stopAt).2.1 ∨ (compileP cfg cache store polls stopAt).2.2.1 = some r) :
    ∃ bv, r.bestValue = some bv ∧ cfg.root.value + h0 ≤ bv := by
  have hy : HypP cfg H B (cfg.root.value + h0) := ⟨hrel, hcache, hdom, hW, hP, hS, hR, hM, hAM, hB, hclamp⟩
  obtain ⟨e, rfl⟩ := C08.compileP_results_ok cfg cache store polls stopAt hok r hr
  obtain ⟨Live, k, hI, _, hterm⟩ := compileP_done cfg H B _ hy cache store polls stopAt hok
  exact finalizeP_bestValue_ge hI hterm hP e h0 hH0 (Int.le_refl _)

theorem finalizeP_cutset_of_empty (cfg : Cfg S K) (pd : PD S K) (e : Bool) (hn : pd.pool = []) :
    (finalizePOld cfg pd e).cutset = [] := by
  rw [List.eq_nil_iff_forall_not_mem]
  intro c hc
  obtain ⟨bv, _, _, hbv, _⟩ := (finalizeP_cutset_iff cfg pd e c).1 hc
  unfold termsP at hbv
  rw [hn] at hbv
  cases hbv

/-! ## the degenerate incumbent `lb = isize::MAX`: everything is pruned, the diagram stays exact, the cut-set is empty -/

theorem expandOne_lbmax' (cfg : Cfg S K) (hlb : cfg.lb = iMax) (var lidx : Nat)
    (acc : List (Node S) × List (Node S) × List (Call S)) (p : Nat) :
    (expandOne cfg var lidx acc p).2.1 = acc.2.1 := by
  obtain ⟨ly, nx, lg⟩ := acc
  cases hp : ly[p]? with
  | none => rw [Cover.expandOne_none _ _ _ _ _ _ _ hp]
  | some n =>
    rw [Cover.expandOne_some _ _ _ _ _ _ _ n hp]
    have : ¬ satAdd (cfg.R.rub n.state) n.value > cfg.lb := by
      have := (clamp_in (cfg.R.rub n.state + n.value)).2
      rw [hlb]; unfold satAdd; omega
    rw [if_neg this]

theorem expF_lbmax (cfg : Cfg S K) (hlb : cfg.lb = iMax) (var lidx : Nat) (layer rest : List (Node S)) (cur : List Nat)
    (log : List (Call S)) : (expF cfg var lidx layer rest cur log).2.1 = rest := by
  unfold expF
  exact Ddo.foldl_inv (β := List (Node S) × List (Node S) × List (Call S)) (fun acc => acc.2.1 = rest) _ cur _ rfl
    (fun b p _ hb => by rw [expandOne_lbmax' cfg hlb]; exact hb)

/-- with `lb = isize::MAX` no child is ever created: the pool never holds more than the root, nothing is relaxed -/
theorem stepLayerP_lbmax (cfg : Cfg S K) (hlb : cfg.lb = iMax) (hrel : cfg.ctype = .relaxed) (hW : 1 ≤ cfg.width)
    (hc : cfg.useCache = false) (hd : cfg.dom = none) (pd pd' : PD S K) (var : Nat)
    (hJ : pd.isExactField = true ∧ pd.pool.length ≤ 1) (hst : stepLayerP cfg pd var = some pd') :
    pd'.isExactField = true ∧ pd'.pool.length ≤ 1 := by
  obtain ⟨layer, cur, ief, log, hs⟩ := stepLayerP_elim cfg pd pd' var hst
  have hsq := hs.sq
  rw [fdOf_iso cfg pd var hc hd] at hsq
  have hcn : (curNodes cfg pd var).length ≤ 1 := by
    unfold curNodes
    rw [List.length_map]
    exact Nat.le_trans (List.length_filter_le _ _) hJ.2
  refine ⟨?_, ?_⟩
  · rw [hs.ief]
    cases hsq with
    | restrict h _ _ _ _ _ => rw [hrel] at h; cases h
    | relax _ hlen _ _ _ _ _ _ =>
      dsimp only at hlen
      rw [List.length_range] at hlen
      omega
    | keep _ _ _ _ _ hief => rw [hief]; exact hJ.1
  · rw [hs.pool, expF_lbmax cfg hlb]
    unfold restNodes
    exact Nat.le_trans (List.length_filter_le _ _) hJ.2

theorem buildLoopP_lbmax (cfg : Cfg S K) (hlb : cfg.lb = iMax) (hrel : cfg.ctype = .relaxed) (hW : 1 ≤ cfg.width)
    (hc : cfg.useCache = false) (hd : cfg.dom = none) (stopAt : Option Nat) :
    ∀ (fuel : Nat) (pd : PD S K), pd.isExactField = true ∧ pd.pool.length ≤ 1 →
      (buildLoopP cfg stopAt fuel pd).1.isExactField = true ∧ (buildLoopP cfg stopAt fuel pd).1.pool.length ≤ 1 := by
  intro fuel
  induction fuel with
  | zero => intro pd h; exact h
  | succ fuel ih =>
    intro pd hJ
    cases buildLoopP_cases cfg stopAt fuel pd with
    | none _ hb => rw [hb]; exact hJ
    | cutoff _ _ hb => rw [hb]; exact hJ
    | empty _ _ _ hb => rw [hb]; exact hJ
    | crash _ _ _ hb => rw [hb]; exact hJ
    | step var pd' _ _ hst hb =>
      rw [hb]
      exact ih pd' (stepLayerP_lbmax cfg hlb hrel hW hc hd (polled cfg pd) pd' var hJ hst)

theorem finalizeP_cutset_of_exact (cfg : Cfg S K) (pd : PD S K) (e : Bool) (hx : pd.isExactField = true) :
    (finalizePOld cfg pd e).cutset = [] := by
  rw [List.eq_nil_iff_forall_not_mem]
  intro c hc
  obtain ⟨_, _, _, _, hlp, _⟩ := (finalizeP_cutset_iff cfg pd e c).1 hc
  rw [hx] at hlp
  cases hlp

/-- with `lb = isize::MAX` the cut-set of a relaxed pooled compilation in isolation is empty -/
theorem compileP_lbmax_cutset (cfg : Cfg S K) (hlb : cfg.lb = iMax) (hrel : cfg.ctype = .relaxed) (hW : 1 ≤ cfg.width)
    (hc : cfg.useCache = false) (hd : cfg.dom = none) (cache : Cache S) (store : DomStore S K) (polls : Nat)
    (stopAt : Option Nat) (e : Bool) :
    (finalizePOld cfg (buildLoopP cfg stopAt (cfg.P.nbVars + 2) (initPD cfg cache store polls)).1 e).cutset = [] :=
  finalizeP_cutset_of_exact cfg _ e
    (buildLoopP_lbmax cfg hlb hrel hW hc hd stopAt _ (initPD cfg cache store polls) ⟨rfl, Nat.le_refl _⟩).1

end Ddo.PBounds

/-! ## non-vacuity: a tiny model **with a long arc** -/
namespace Ddo.PBounds.TinyLong
open Ddo Ddo.Pooled

/-- four variables; variables 0, 2, 3 are binary (state = number of ones, cost of a decision = its value); variable 1 is
    neutral (one decision, same state, cost 0) and declared not to impact state `0` -/
def prob : Problem Int :=
  { nbVars := 4, init := 0, initVal := 0,
    trans := fun s d => if d.var = 1 then s else s + d.val,
    cost := fun _ _ d => if d.var = 1 then 0 else if d.val = 1 then 1 else 0,
    nextVar := fun k _ => if k < 4 then some k else none,
    domain := fun v _ => if v = 1 then [0] else [0, 1],
    impacted := fun v s => !(v == 1 && s == 0) }

def rlx : Relax Int :=
  { merge := fun X => X.foldl max 0, relax := fun _ _ _ _ c => c, rub := fun _ => 3 }

def cfg : Cfg Int Unit :=
  { P := prob, R := rlx, rank := ⟨fun a b => icmp a b⟩, dom := none, useCache := false, kind := .frontier,
    ctype := .relaxed, width := 1, root := ⟨0, 0, [], iMax, 0⟩, lb := 0 }

/-- number of binary variables still to be decided at depth `k` -/
def rem (k : Nat) : Int := if k = 0 then 3 else if k ≤ 2 then 2 else if k = 3 then 1 else 0
def H (k : Nat) (_ : Int) : EInt := some (rem k)

theorem nv_some {k : Nat} {L : List Int} {x : Nat} (h : prob.nextVar k L = some x) : k < 4 ∧ x = k := by
  simp only [prob] at h
  split at h
  · next hk => cases h; exact ⟨hk, rfl⟩
  · cases h

theorem potential : Potential prob H := by
  constructor
  · intro k L x s h hnv _ hH
    obtain ⟨hk, hx⟩ := nv_some hnv; subst x
    simp only [H, Option.some.injEq] at hH
    subst hH
    have : k = 0 ∨ k = 1 ∨ k = 2 ∨ k = 3 := by omega
    rcases this with rfl | rfl | rfl | rfl
    · exact ⟨1, by simp [prob], _, rfl, by simp [prob, rem]⟩
    · exact ⟨0, by simp [prob], _, rfl, by simp [prob, rem]⟩
    · exact ⟨1, by simp [prob], _, rfl, by simp [prob, rem]⟩
    · exact ⟨1, by simp [prob], _, rfl, by simp [prob, rem]⟩
  · intro k L x s v p d _ hnv _ hd
    obtain ⟨hk, hx⟩ := nv_some hnv; subst x
    have : k = 0 ∨ k = 1 ∨ k = 2 ∨ k = 3 := by omega
    rcases this with rfl | rfl | rfl | rfl <;>
      (simp only [prob] at hd; simp only [H, EInt.addI, Option.map_some, EInt.some_le_some, prob, rem]
       simp at hd ⊢; try (rcases hd with rfl | rfl <;> decide))
  · intro k L s hnv _
    simp only [prob] at hnv
    split at hnv
    · cases hnv
    · next hk =>
      simp only [H, rem]
      congr 1
      rw [if_neg (by omega), if_neg (by omega), if_neg (by omega)]

theorem neutral : NeutralSkip prob := by
  intro x s hi
  simp only [prob, Bool.not_eq_false', Bool.and_eq_true, beq_iff_eq] at hi
  obtain ⟨rfl, rfl⟩ := hi
  exact ⟨by decide, by decide⟩

theorem skipWf : SkipWf prob H := skipWf_of_neutral potential neutral

theorem rubOk : RubOk rlx H := by
  intro k s h hH
  simp only [H, Option.some.injEq] at hH
  subst hH
  simp only [rlx, rem]
  split
  · decide
  · split
    · decide
    · split <;> decide

theorem mergeOk : MergeOk rlx H := by
  intro k X u src d c h _ hH
  exact ⟨h, hH, Int.le_refl _⟩

theorem attMerge : Cover.AttMerge prob rlx H := Cover.attMerge_of_static potential (fun _ _ _ _ _ => rfl)

theorem noClamp : NoClamp prob rlx cfg.root.value 1 := by
  constructor
  · decide
  · decide
  · intro s s' d; simp only [prob]; split
    · omega
    · split <;> omega
  · intro s u m d c hc; exact hc
  · decide

/-- the diagram: the node of state `0` of the third layer (depth 2) hangs from the root by a **long arc** `(0, 0)` that
    skips the layer of depth 1; it is merged there, so the root is a frontier cut-set node -/
example : (compileP cfg (Cache.init 4) (DomStore.init 4) 0 none).2.2.2.layers.map
    (fun l => (l.1, l.2.map (fun n => (n.state, n.isExact, n.inb.map (·.fromL))))) =
    [(0, [(0, true, [])]),
     (1, [(1, true, [0])]),
     (2, [(0, true, [0]), (1, true, [1]), (1, false, [0, 1])]),
     (3, [(1, false, [2]), (2, false, [2]), (2, false, [2, 2])])] := by decide

end Ddo.PBounds.TinyLong

#print axioms Ddo.PBounds.compileP_bestValue_ge
