import DdoModel.Proofs.ParDomOpReach
import DdoModel.Proofs.ParDomOpSpec
import DdoModel.Props.C10b
/-! # Relaxed operation-wise compilation (oracle stores): upper bound and cut-set of the protected family

The oracle versions of `relaxed_ub_dom` / `relaxed_cutset_dom` of `Proofs/DomRelax.lean`: the invariant `DInv` of
`Proofs/DomRelaxB.lean` is kept by `stepLayerO` whatever stores of exactly reached items answer the operations. -/
namespace Ddo.ParDom
open Ddo Ddo.Truth Ddo.Closed Ddo.C10
open Ddo.C01 (SolverCfg WellFormed toOut SolOf)
variable {S K : Type} [DecidableEq S] [DecidableEq K]
set_option linter.unusedSectionVars false
set_option linter.unusedVariables false

/-- `sqpost_filtered` for any filtered layer that differs from `dd.next` in `theta` only and keeps the inexact / protected nodes -/
theorem rx_sqpost_filtered (cfg : Cfg S K) (D : DomRule S K) (H : Nat → S → EInt) (opt : Int) (Prot : Nat → S → Int → Prop)
    (B : Int) (hy : DomHyp cfg D H opt Prot B) (Live : Nat → Nat → Prop) (dd : DD S K) (var : Nat)
    (fl : List (Node S)) (fc : List Nat) (f1 : ThEq fl dd.next)
    (f6 : ∀ p n, dd.next[p]? = some n → (n.isExact = true → Prot dd.depth n.state n.value) → p ∈ fc)
    (hdepth : dd.depth = cfg.root.depth + dd.layers.length)
    (hnv : cfg.P.nextVar dd.depth (dd.next.map (·.state)) = some var)
    (hprot : Prot cfg.root.depth cfg.root.state cfg.root.value)
    (hI : DInv cfg H Prot B opt Live dd) :
    SqPostD cfg H Prot B opt Live dd var fl fc (LiveOf Prot dd.depth fl fc) ∧
    (∀ n ∈ fl, n.state ∈ dd.next.map (·.state)) ∧
    (dd.layers ≠ [] → ∀ n ∈ fl, ∃ a ∈ n.inb, ∃ p, getNode dd.layers a.fromL a.fromP = some p) := by
  have hF : ∀ (q : Nat) n, fl[q]? = some n → ∃ n0, dd.next[q]? = some n0 ∧ n.state = n0.state ∧
      n.value = n0.value ∧ n.isExact = n0.isExact ∧ n.inb = n0.inb ∧ n.cutset = n0.cutset := by
    intro q n hq
    obtain ⟨n0, h0, hs⟩ := f1.get hq
    obtain ⟨e1, e2, _, e4, e5, _⟩ := stripT_all hs
    exact ⟨n0, h0, e1, e2, e4, e5, stripT_cutset hs⟩
  have hF' : ∀ (q : Nat) n0, dd.next[q]? = some n0 → ∃ n, fl[q]? = some n ∧ n.state = n0.state ∧
      n.value = n0.value ∧ n.isExact = n0.isExact ∧ n.inb = n0.inb ∧ n.cutset = n0.cutset := by
    intro q n0 hq
    obtain ⟨n, h0, hs⟩ := f1.symm.get hq
    obtain ⟨e1, e2, _, e4, e5, _⟩ := stripT_all hs
    exact ⟨n, h0, e1.symm, e2.symm, e4.symm, e5.symm, (stripT_cutset hs).symm⟩
  have hFm : ∀ n ∈ fl, ∃ n0 ∈ dd.next, n.state = n0.state ∧
      n.value = n0.value ∧ n.isExact = n0.isExact ∧ n.inb = n0.inb ∧ n.cutset = n0.cutset := by
    intro n hn
    obtain ⟨q, hq⟩ := List.mem_iff_getElem?.mp hn
    obtain ⟨n0, h0, r⟩ := hF q n hq
    exact ⟨n0, List.mem_of_getElem? h0, r⟩
  have hsts : ∀ n ∈ fl, n.state ∈ dd.next.map (·.state) := by
    intro n hn
    obtain ⟨n0, h0, e1, _⟩ := hFm n hn
    rw [e1]; exact List.mem_map_of_mem h0
  refine ⟨⟨fun q hq => hq.1, fun q n hq hn he => hq.2 n hn he, ?_, ?_, ?_, ?_, fun n hn _ => hsts n hn, ?_, ?_⟩, hsts, ?_⟩
  · intro q _ n hn h1 hH1
    exact hy.P.att dd.depth _ var n.state h1 hnv (hsts n (List.mem_of_getElem? hn)) hH1
  · intro n hn
    obtain ⟨n0, h0, _, e2, _⟩ := hFm n hn
    rw [e2]; exact hI.rngN n0 h0
  · intro n hn a ha
    obtain ⟨n0, h0, _, _, _, e5, _⟩ := hFm n hn
    exact hI.arcsN n0 h0 a (e5 ▸ ha)
  · intro n hn
    obtain ⟨n0, h0, _, _, _, _, e6⟩ := hFm n hn
    rw [e6]; exact hI.cutN n0 h0
  · -- step
    intro l p ly n hl hly hlive hn h hH ht
    obtain ⟨p', m, e, h', _, hm, he, r1, r2, r3, r4, r5, r6, r7⟩ := hI.stepN l p ly n hl hly hlive hn h hH ht
    obtain ⟨m1, hm1, e1, e2, e4, e5, _⟩ := hF' p' m hm
    have hk : cfg.root.depth + l + 1 = dd.depth := by rw [hdepth]; omega
    have hkeep : p' ∈ fc := f6 p' m hm (fun hex => hk ▸ r7 hex)
    refine ⟨p', m1, e, h', ⟨hkeep, fun n' hn' hex' => ?_⟩, hm1, e5 ▸ he, r1, r2, r3, e1 ▸ r4, r5, e2 ▸ r6, ?_⟩
    · rw [hm1] at hn'; cases hn'
      rw [e1, e2, ← hk]; exact r7 (e4 ▸ hex')
    · intro hex'
      rw [e1, e2]; exact r7 (e4 ▸ hex')
  · -- root
    intro hemp
    obtain ⟨n0, hn0, hs0, hv0⟩ := hI.root0 hemp
    have h0 : dd.next[0]? = some n0 := by rw [hn0]; rfl
    obtain ⟨n, hn, e1, e2, e4, _⟩ := hF' 0 n0 h0
    have hd0 : dd.depth = cfg.root.depth := by rw [hdepth, hemp]; rfl
    have hpr : Prot dd.depth n0.state n0.value := by rw [hd0, hs0, hv0]; exact hprot
    refine ⟨n, hn, e1 ▸ hs0, e2 ▸ hv0, f6 0 n0 h0 (fun _ => hpr), fun n' hn' _ => ?_⟩
    rw [hn] at hn'; cases hn'
    rw [e1, e2]; exact hpr
  · intro hne n hn
    obtain ⟨n0, h0, _, _, _, e5, _⟩ := hFm n hn
    obtain ⟨a, ha, p, hp⟩ := hI.att hne n0 h0
    exact ⟨a, e5 ▸ ha, p, hp⟩

/-- the oracle form of `fdOf_facts` -/
theorem rx_facts (cfg : Cfg S K) (D : DomRule S K) (H : Nat → S → EInt) (opt : Int) (Prot : Nat → S → Int → Prop)
    (B : Int) (hy : DomHyp cfg D H opt Prot B) (p0 : List Dec) (τ : Nat → DomStore S K)
    (hτ : ∀ k, StoreReach D cfg.P (τ k) ∧ (τ k).layers.length = cfg.P.nbVars + 1) (k : Nat)
    (dd : DD S K) (var : Nat) (hM : MInv cfg B p0 dd)
    (hdepth : dd.depth = cfg.root.depth + dd.layers.length)
    (hnv : cfg.P.nextVar dd.depth (dd.next.map (·.state)) = some var) :
    ThEq (filterDomO cfg τ k dd.next (List.range dd.next.length)).1 dd.next ∧
    (∀ p ∈ (filterDomO cfg τ k dd.next (List.range dd.next.length)).2.1, p < dd.next.length) ∧
    (filterDomO cfg τ k dd.next (List.range dd.next.length)).2.2.2.1 = true ∧
    ∀ p n, dd.next[p]? = some n → (n.isExact = true → Prot dd.depth n.state n.value) →
      p ∈ (filterDomO cfg τ k dd.next (List.range dd.next.length)).2.1 := by
  have hlt := nv_depth_lt hy.nv hnv
  have hcur : ∀ p ∈ List.range dd.next.length, p < dd.next.length := fun p hp => List.mem_range.mp hp
  have hdep : ∀ n ∈ dd.next, n.isExact = true → n.depth ≤ cfg.P.nbVars := by
    intro n hn he
    obtain ⟨_, _, _, hd, _⟩ := hM.next n hn he
    rw [hd, ← hdepth]; omega
  obtain ⟨h1, h2, h3, _, _⟩ := filterDomO_spec cfg D hy.dom cfg.P τ (fun j => (hτ j).1) cfg.P.nbVars (fun j => (hτ j).2)
    k dd.next _ hcur hdep
  refine ⟨h1, fun p hp => hcur p (h2 p hp), h3, fun p n hp hpr => ?_⟩
  refine filterDomO_protected cfg D hy.dom cfg.P H opt Prot hy.prot τ (fun j => (hτ j).1) k dd.next _ p
    (List.mem_range.mpr (Cover.lt_of_getElem?_some hp)) n hp (fun he => ?_)
  obtain ⟨_, _, _, hd, _⟩ := hM.next n (List.mem_of_getElem? hp) he
  rw [hd, ← hdepth]; exact hpr he

theorem rx_fcOf (cfg : Cfg S K) (dd : DD S K) (hc : cfg.useCache = false) :
    fcOf cfg dd = (dd.next, List.range dd.next.length) := by
  unfold fcOf
  split
  · rfl
  · exact Cover.filterCache_id cfg dd.cache dd.next _ hc (fun p hp => List.mem_range.mp hp)

/-- **one layer** (the oracle version of `stepLayer_dinv`; the store part `SInv` of `JInv` is gone) -/
theorem rx_stepLayerO_dinv (cfg : Cfg S K) (D : DomRule S K) (H : Nat → S → EInt) (opt : Int) (Prot : Nat → S → Int → Prop)
    (B : Int) (hy : RHyp cfg D H opt Prot B) (p0 : List Dec) (τ : Nat → DomStore S K)
    (hτ : ∀ k, StoreReach D cfg.P (τ k) ∧ (τ k).layers.length = cfg.P.nbVars + 1)
    (dd dd' : DD S K) (k k' : Nat) (ops ops' : List (Op S)) (var : Nat) (oc : Outcome)
    (hprot : Prot cfg.root.depth cfg.root.state cfg.root.value)
    (hJ : ∃ Live, DInv cfg H Prot B opt Live dd) (hM : MInv cfg B p0 dd)
    (hdepth : dd.depth = cfg.root.depth + dd.layers.length)
    (hnv : cfg.P.nextVar dd.depth (dd.next.map (·.state)) = some var)
    (hlen : dd.layers.length ≤ cfg.P.nbVars + 1) (hne : dd.next ≠ [])
    (hst : stepLayerO cfg τ dd k ops var = (some (dd', k', ops'), oc)) :
    oc = .ok ∧ ∃ Live, DInv cfg H Prot B opt Live dd' := by
  obtain ⟨Live, hI⟩ := hJ
  obtain ⟨hM', _, _⟩ := stepLayerO_inv cfg B p0 hy.B τ dd k ops var hM hdepth hnv hlen dd' k' ops' oc hst
  have hltd := nv_depth_lt hy.nv hnv
  have hlen2 : dd.layers.length ≤ cfg.P.nbVars := by omega
  have hne' : dd.next.isEmpty = false := by
    cases h : dd.next with
    | nil => exact absurd h hne
    | cons _ _ => rfl
  rw [stepLayerO_unfold cfg τ dd k ops var hne', rx_fcOf cfg dd hy.cache] at hst
  dsimp only at hst
  obtain ⟨f1, f2, f4, f6⟩ := rx_facts cfg D H opt Prot B hy.toDomHyp p0 τ hτ k dd var hM hdepth hnv
  generalize filterDomO cfg τ k dd.next (List.range dd.next.length) = fd at hst f1 f2 f4 f6
  obtain ⟨hsqF, hsts, hattF⟩ := rx_sqpost_filtered cfg D H opt Prot B hy.toDomHyp Live dd var fd.1 fd.2.1 f1 f6 hdepth hnv
    hprot hI
  have hcur : ∀ p ∈ fd.2.1, p < fd.1.length := by
    intro p hp; rw [f1.length]; exact f2 p hp
  unfold stepTailO at hst
  rw [f4] at hst
  simp only [Bool.not_true, Bool.false_eq_true, if_false] at hst
  rcases Bounds.squash_cases cfg dd fd.1 fd.2.1 hy.rel hy.W with ⟨_, hsq⟩ | ⟨c1, c2, hsq⟩
  · rw [hsq] at hst
    simp only [Prod.mk.injEq, Option.some.injEq] at hst
    obtain ⟨⟨hdd, _, _⟩, hoc⟩ := hst
    subst hdd
    subst hoc
    exact ⟨rfl, _, expand_dinv cfg D H opt Prot B hy.toDomHyp p0 Live dd _ var _ _ _ _ hlen2 hdepth hnv hI hsqF hM' rfl rfl⟩
  · rw [hsq] at hst
    simp only [Prod.mk.injEq, Option.some.injEq] at hst
    obtain ⟨⟨hdd, _, _⟩, hoc⟩ := hst
    subst hdd
    subst hoc
    have hne2 : dd.layers ≠ [] := by intro h; rw [h] at c2; simp at c2
    have hsqR := sqpost_relaxD cfg D H opt Prot B hy Live dd var _ _ dd.log hdepth hnv hlen2 c1 c2 hcur hI hsqF hsts
      (hattF hne2)
    exact ⟨rfl, _, expand_dinv cfg D H opt Prot B hy.toDomHyp p0 Live dd _ var _ _ _ _ hlen2 hdepth hnv hI hsqR hM' rfl rfl⟩

/-- **one layer**: the second invariant `Inv2` of `Proofs/MddCutset.lean` is kept (the oracle version of `stepLayer_inv2`) -/
theorem rx_stepLayerO_inv2 (cfg : Cfg S K) (D : DomRule S K) (H : Nat → S → EInt) (opt : Int) (Prot : Nat → S → Int → Prop)
    (B : Int) (hy : DomHyp cfg D H opt Prot B) (p0 : List Dec) (τ : Nat → DomStore S K)
    (hτ : ∀ k, StoreReach D cfg.P (τ k) ∧ (τ k).layers.length = cfg.P.nbVars + 1)
    (dd dd' : DD S K) (k k' : Nat) (ops ops' : List (Op S)) (var : Nat) (oc : Outcome)
    (hM : MInv cfg B p0 dd) (hinv2 : Inv2 cfg dd)
    (hdepth : dd.depth = cfg.root.depth + dd.layers.length)
    (hnv : cfg.P.nextVar dd.depth (dd.next.map (·.state)) = some var)
    (hlen : dd.layers.length ≤ cfg.P.nbVars + 1) (hne : dd.next ≠ [])
    (hst : stepLayerO cfg τ dd k ops var = (some (dd', k', ops'), oc)) : Inv2 cfg dd' := by
  have hne' : dd.next.isEmpty = false := by
    cases h : dd.next with
    | nil => exact absurd h hne
    | cons _ _ => rfl
  rw [stepLayerO_unfold cfg τ dd k ops var hne', rx_fcOf cfg dd hy.cache] at hst
  dsimp only at hst
  obtain ⟨f1, _, _, _⟩ := rx_facts cfg D H opt Prot B hy p0 τ hτ k dd var hM hdepth hnv
  have hfd := filterDomO_subS cfg τ k dd.next (List.range dd.next.length)
  generalize filterDomO cfg τ k dd.next (List.range dd.next.length) = fd at hst f1 hfd
  have hfdA : ∀ n ∈ fd.1, ArcOk dd.layers.length n := by
    intro n hn
    obtain ⟨q, hq⟩ := List.mem_iff_getElem?.mp hn
    obtain ⟨n0, h0, hs⟩ := f1.get hq
    obtain ⟨_, _, _, _, e5, _⟩ := stripT_all hs
    intro e he
    exact hinv2.arcsN n0 (List.mem_of_getElem? h0) e (e5 ▸ he)
  unfold stepTailO at hst
  split at hst
  · cases hst
  · split at hst
    · cases hst
    · rename_i lsq csq lgsq lel hsq
      simp only [Prod.mk.injEq, Option.some.injEq] at hst
      obtain ⟨⟨rfl, rfl, rfl⟩, rfl⟩ := hst
      obtain ⟨hsub, _⟩ := squash_sub cfg dd fd.1 fd.2.1 lsq csq lgsq lel hsq
      obtain ⟨hlelN, hlelS, hsqA⟩ := squash_lel cfg dd fd.1 fd.2.1 lsq csq lgsq lel hsq
      have hsub0 : SubE lsq dd.next := hsub.trans hfd.toSub
      have hpar0 : ∀ n ∈ dd.next, ParOk cfg B p0 dd.layers (dd.next.map (·.state)) n := fun n hn =>
        ⟨hM.next n hn, fun _ => List.mem_map.2 ⟨n, hn, rfl⟩⟩
      have hpar : ∀ n ∈ lsq, ParOk cfg B p0 dd.layers (dd.next.map (·.state)) n := ParOk.of_sub hsub0 hpar0
      have hE := expandAll_inv cfg B p0 hy.B dd.layers hlen lsq (dd.next.map (·.state)) var (hdepth ▸ hnv) hpar csq lgsq
      have hEA := expandAll_arcs cfg var dd.layers.length lsq csq lgsq
      generalize expandAll cfg var dd.layers.length lsq csq lgsq = ex at hE hEA
      obtain ⟨hrub, _, hallEx⟩ := hE
      have hlsqA : ∀ n ∈ lsq, ArcOk dd.layers.length n := hsqA _ hfdA
      have hFA : ∀ n ∈ ex.1, ArcOk dd.layers.length n := by
        intro n hn
        obtain ⟨i, hi⟩ := List.mem_iff_getElem?.1 hn
        obtain ⟨n0, h0, hs⟩ := hrub.get hi
        have : n0.inb = n.inb := by have := congrArg Node.inb hs; simpa only [stripRub] using this
        intro e he
        exact hlsqA n0 (List.mem_of_getElem? h0) e (this ▸ he)
      have hFE : (∀ n ∈ lsq, n.isExact = true) → ∀ n ∈ ex.1, n.isExact = true := by
        intro hall n hn
        obtain ⟨n0, h0, he0, _⟩ := hrub.subS n hn
        rw [← he0]; exact hall n0 h0
      refine ⟨?_, ?_, ?_, ?_⟩
      · intro l ly hl
        dsimp only at hl
        rcases getElem?_append_singleton_cases hl with hl | ⟨rfl, rfl⟩
        · exact hinv2.arcsL l ly hl
        · exact hFA
      · dsimp only
        rw [List.length_append, List.length_singleton]
        exact hEA
      · dsimp only
        intro hnone
        obtain ⟨rfl, hdn⟩ := hlelN hnone
        obtain ⟨hLs, hNx⟩ := hinv2.lelNone hdn
        have hall : ∀ n ∈ fd.1, n.isExact = true := by
          intro n hn
          obtain ⟨n0, h0, he0, _⟩ := hfd n hn
          rw [← he0]; exact hNx n0 h0
        refine ⟨fun ly hly n hn => ?_, hallEx hall⟩
        rcases List.mem_append.1 hly with hly | hly
        · exact hLs ly hly n hn
        · rw [List.mem_singleton] at hly; subst hly; exact hFE hall n hn
      · dsimp only
        intro k hk
        rw [List.length_append, List.length_singleton]
        rcases hlelS k hk with hold | ⟨hdn, hkL, hrel⟩
        · obtain ⟨h1, h2, h3⟩ := hinv2.lelSome k hold
          refine ⟨by omega, h2, fun l ly hlk hl n hn => ?_⟩
          rcases getElem?_append_singleton_cases hl with hl | ⟨rfl, _⟩
          · exact h3 l ly hlk hl n hn
          · omega
        · obtain ⟨hLs, _⟩ := hinv2.lelNone hdn
          refine ⟨by omega, fun hr => by have := hrel hr; omega, fun l ly hlk hl n hn => ?_⟩
          rcases getElem?_append_singleton_cases hl with hl | ⟨rfl, _⟩
          · exact hLs ly (List.mem_of_getElem? hl) n hn
          · omega

/-- **the loop**: the invariant holds at the end of an operation-wise loop that ends normally -/
theorem rx_buildLoopO_dinv (cfg : Cfg S K) (D : DomRule S K) (H : Nat → S → EInt) (opt : Int) (Prot : Nat → S → Int → Prop)
    (B : Int) (hy : RHyp cfg D H opt Prot B) (p0 : List Dec) (τ : Nat → DomStore S K)
    (hτ : ∀ k, StoreReach D cfg.P (τ k) ∧ (τ k).layers.length = cfg.P.nbVars + 1)
    (hprot : Prot cfg.root.depth cfg.root.state cfg.root.value) :
    ∀ (fuel : Nat) (dd : DD S K) (k : Nat) (ops : List (Op S)), (∃ Live, DInv cfg H Prot B opt Live dd) →
      MInv cfg B p0 dd → Inv2 cfg dd → dd.depth = cfg.root.depth + dd.layers.length →
      dd.layers.length + fuel ≤ cfg.P.nbVars + 2 → (buildLoopO cfg τ fuel dd k ops).2 = .ok →
      TEnd cfg H opt Prot B (buildLoopO cfg τ fuel dd k ops).1.1 ∧ MInv cfg B p0 (buildLoopO cfg τ fuel dd k ops).1.1 ∧
        Inv2 cfg (buildLoopO cfg τ fuel dd k ops).1.1 := by
  obtain ⟨h0, hH0, ho0⟩ := root_potential cfg D H opt Prot B hy.toDomHyp hprot
  intro fuel
  induction fuel with
  | zero => intro dd k ops _ _ _ _ _ hok; cases hok
  | succ fuel ih =>
    intro dd k ops hJ hM hI2 hdepth hfuel hok
    cases hnv : cfg.P.nextVar dd.depth (dd.next.map (·.state)) with
    | none =>
      rw [buildLoopO_stop cfg τ fuel dd k ops hnv]
      obtain ⟨Live, hI⟩ := hJ
      exact ⟨⟨Live, hI.congr rfl rfl, hnv, hdepth⟩, hM.congr rfl rfl, hI2.congr rfl rfl rfl⟩
    | some var =>
      rw [buildLoopO_step cfg τ fuel dd k ops var hnv] at hok ⊢
      have hM' : MInv cfg B p0 (tick dd var) := hM.congr rfl rfl
      cases hs : stepLayerO cfg τ (tick dd var) k ops var with
      | mk o oc =>
        rw [hs] at hok
        cases o with
        | none => cases hok
        | some x =>
          obtain ⟨dd', k', ops'⟩ := x
          obtain ⟨Live, hI⟩ := hJ
          have hI' : DInv cfg H Prot B opt Live (tick dd var) := hI.congr rfl rfl
          have hne := hI'.next_ne h0 hH0 (by omega)
          obtain ⟨hoc, hJ'⟩ := rx_stepLayerO_dinv cfg D H opt Prot B hy p0 τ hτ (tick dd var) dd' k k' ops ops' var oc hprot
            ⟨Live, hI'⟩ hM' hdepth hnv (by show dd.layers.length ≤ _; omega) hne hs
          subst hoc
          have hI2' := rx_stepLayerO_inv2 cfg D H opt Prot B hy.toDomHyp p0 τ hτ (tick dd var) dd' k k' ops ops' var .ok hM'
            (hI2.congr rfl rfl rfl) hdepth hnv (by show dd.layers.length ≤ _; omega) hne hs
          obtain ⟨m1, m2, _⟩ := stepLayerO_inv cfg B p0 hy.B τ (tick dd var) k ops var hM' hdepth hnv
            (by show dd.layers.length ≤ _; omega) dd' k' ops' .ok hs
          obtain ⟨m2a, m2b⟩ := m2 rfl
          exact ih dd' k' ops' hJ' m1 hI2' m2a (by rw [m2b]; show dd.layers.length + 1 + fuel ≤ _; omega) hok

/-- **the invariant holds at the end of a relaxed operation-wise compilation** -/
theorem compileOp_dinv (cfg : Cfg S K) (D : DomRule S K) (H : Nat → S → EInt) (opt : Int) (Prot : Nat → S → Int → Prop)
    (B : Int) (hy : RHyp cfg D H opt Prot B) (p0 : List Dec) (cache : Cache S) (τ : Nat → DomStore S K) (polls : Nat)
    (hroot : Reach cfg.P cfg.root.depth cfg.root.state cfg.root.value p0)
    (hprot : Prot cfg.root.depth cfg.root.state cfg.root.value)
    (hτ : ∀ k, StoreReach D cfg.P (τ k) ∧ (τ k).layers.length = cfg.P.nbVars + 1)
    (hok : (compileOp cfg cache τ polls).1 = .ok) :
    TEnd cfg H opt Prot B (buildLoopO cfg τ (cfg.P.nbVars + 2) (initDD cfg cache (τ 0) polls) 0 []).1.1 ∧
    MInv cfg B p0 (buildLoopO cfg τ (cfg.P.nbVars + 2) (initDD cfg cache (τ 0) polls) 0 []).1.1 ∧
    Inv2 cfg (buildLoopO cfg τ (cfg.P.nbVars + 2) (initDD cfg cache (τ 0) polls) 0 []).1.1 := by
  refine rx_buildLoopO_dinv cfg D H opt Prot B hy p0 τ hτ hprot (cfg.P.nbVars + 2) (initDD cfg cache (τ 0) polls) 0 []
    ⟨_, Ddo.C10.init_dinv cfg H Prot B opt cache (τ 0) polls hy.B⟩ (initDD_inv cfg B p0 hy.B hroot cache (τ 0) polls) (initDD_inv2 cfg cache (τ 0) polls) ?_ ?_ hok
  · show cfg.root.depth = cfg.root.depth + 0
    rfl
  · show 0 + (cfg.P.nbVars + 2) ≤ cfg.P.nbVars + 2
    omega

/-- **relaxed upper bound, oracle stores** -/
theorem relaxedOp_ub (cfg : Cfg S K) (D : DomRule S K) (H : Nat → S → EInt) (opt : Int) (Prot : Nat → S → Int → Prop)
    (B : Int) (hy : DomHyp cfg D H opt Prot B) (hrel : cfg.ctype = .relaxed) (hW : 1 ≤ cfg.width)
    (hM : MergeOk cfg.R H) (hAM : Cover.AttMerge cfg.P cfg.R H)
    (p0 : List Dec) (cache : Cache S) (τ : Nat → DomStore S K) (polls : Nat)
    (hroot : Reach cfg.P cfg.root.depth cfg.root.state cfg.root.value p0)
    (hprot : Prot cfg.root.depth cfg.root.state cfg.root.value)
    (hτ : ∀ k, StoreReach D cfg.P (τ k) ∧ (τ k).layers.length = cfg.P.nbVars + 1)
    (hok : (compileOp cfg cache τ polls).1 = .ok) :
    ∃ bv, (compileOp cfg cache τ polls).2.1.bestValue = some bv ∧ opt ≤ bv := by
  have hyR := RHyp.mk' hy hrel hW hM hAM
  obtain ⟨hT, _, _⟩ := compileOp_dinv cfg D H opt Prot B hyR p0 cache τ polls hroot hprot hτ hok
  obtain ⟨h0, hH0, ho0⟩ := root_potential cfg D H opt Prot B hy hprot
  show ∃ bv, (resultOf cfg (buildLoopO cfg τ (cfg.P.nbVars + 2) (initDD cfg cache (τ 0) polls) 0 []).1.1).bestValue = some bv ∧
    opt ≤ bv
  generalize (buildLoopO cfg τ (cfg.P.nbVars + 2) (initDD cfg cache (τ 0) polls) 0 []).1.1 = fin at hT
  unfold resultOf
  rw [Ddo.finalize_bestValue]
  obtain ⟨n0, hn0, hv0, hpath⟩ := hT.root_path hy.P h0 hH0 (by omega)
  obtain ⟨pt, tn, htn, hv⟩ := hpath.toPath.terminal n0 hn0
  rw [Nat.zero_add, Bounds.getNode_full_last] at htn
  obtain ⟨bv, h1, h2⟩ := Cover.maxValue_ge _ tn (List.mem_of_getElem? htn)
  refine ⟨bv, ?_, by omega⟩
  unfold Built.bestValue
  rw [terminals_finalizeLayers]; exact h1

/-- **cut-set coverage and bound for the protected family, oracle stores** -/
theorem relaxedOp_cutset (cfg : Cfg S K) (D : DomRule S K) (H : Nat → S → EInt) (opt : Int) (Prot : Nat → S → Int → Prop)
    (B : Int) (hy : DomHyp cfg D H opt Prot B) (hrel : cfg.ctype = .relaxed) (hW : 1 ≤ cfg.width)
    (hM : MergeOk cfg.R H) (hAM : Cover.AttMerge cfg.P cfg.R H)
    (p0 : List Dec) (cache : Cache S) (τ : Nat → DomStore S K) (polls : Nat)
    (hroot : Reach cfg.P cfg.root.depth cfg.root.state cfg.root.value p0)
    (hprot : Prot cfg.root.depth cfg.root.state cfg.root.value)
    (hτ : ∀ k, StoreReach D cfg.P (τ k) ∧ (τ k).layers.length = cfg.P.nbVars + 1)
    (hok : (compileOp cfg cache τ polls).1 = .ok)
    (hbe : ∀ w, (compileOp cfg cache τ polls).2.1.bestExactValue = some w → w < opt) :
    ∃ c ∈ (compileOp cfg cache τ polls).2.1.cutset, Prot c.depth c.state c.value ∧ opt ≤ c.ub := by
  have hyR := RHyp.mk' hy hrel hW hM hAM
  obtain ⟨hT, hMf, hI2⟩ := compileOp_dinv cfg D H opt Prot B hyR p0 cache τ polls hroot hprot hτ hok
  have hwf := finalizeLayers_wf cfg B p0 _ hMf hI2
  exact cutset_dom_fin cfg D H opt Prot B hyR p0 _ hprot hT hI2 hwf _ hbe

#print axioms relaxedOp_ub
#print axioms relaxedOp_cutset

end Ddo.ParDom
