import DdoModel.Pooled
import DdoModel.Proofs.MddWidth
import DdoModel.Proofs.MddProtocol
import DdoModel.Proofs.MddExact
/-! # Invariants of the pooled diagram (`DdoModel/Pooled.lean`)

Helper lemmas for the pooled versions of C13 (width), C12 (protocol) and C07 (exact nodes); the
user-facing statements are in `Props/C13p.lean`, `Props/C12p.lean`, `Props/C07p.lean`.

* §1 `prepLayerP_eq` / `prepCore_elim` / `stepLayerP_elim`: one layer step of the pooled diagram in terms of
  the shared building blocks (`filterCache`, `filterDom`, `restrictLayer`, `relaxLayer`, `expandOne`).
* §2 width: the list handed to the expansion, the growth of the log, the loop invariant `WInv`.
* §3 protocol: `BlocksP`, the log of an expansion that starts from a non-empty pool (`expandOne_logP`),
  the loop invariant `LoopInvP`, `buildLoopP_blocks`.
* §4 exact nodes: `ReachSkip`, `BestChainP`, the loop invariant `MInvP`, `buildLoopP_inv`, finalisation.
* §5 without long arcs (`AllImpacted`) every iteration materialises a layer (`FullInv`).
* §6 the cut-set of `finalizeP`: `finalizeP_cutset_mem`, `layers3P_xEq`, `finalizeP_cutset_exact` (C08 (i)).
* §7 cut-set progress without long arcs: `CInv`, `finalizeP_cutset_progress` (C08 (ii) under `AllImpacted`). -/
set_option linter.unusedSectionVars false
set_option linter.unusedVariables false
namespace Ddo.Pooled
open Ddo
variable {S K : Type} [DecidableEq S] [DecidableEq K]

/-! ## 1. one layer step, structurally -/

def impLog (pd : PD S K) (var : Nat) : List (Call S) :=
  pd.pool.foldl (fun lg n => Call.impacted var n.state :: lg) pd.log
def curNodes (cfg : Cfg S K) (pd : PD S K) (var : Nat) : List (Node S) :=
  (pd.pool.filter (fun n => cfg.P.impacted var n.state)).map (fun n => { n with depth := pd.depth })
def fcOf (cfg : Cfg S K) (pd : PD S K) (var : Nat) : List (Node S) × List Nat :=
  if pd.layers.isEmpty then (curNodes cfg pd var, List.range (curNodes cfg pd var).length)
  else filterCache cfg pd.cache (curNodes cfg pd var) (List.range (curNodes cfg pd var).length)
def fdOf (cfg : Cfg S K) (pd : PD S K) (var : Nat) : List (Node S) × List Nat × DomStore S K × Bool :=
  filterDom cfg pd.store (fcOf cfg pd var).1 (fcOf cfg pd var).2

/-- `prepLayerP` after the filters, the filtered layer `fd` being a parameter -/
def prepCore (cfg : Cfg S K) (plain : List (List (Node S))) (nlayers : Nat) (ief0 : Bool) (ndom : Nat)
    (fd : List (Node S) × List Nat × DomStore S K × Bool) (log : List (Call S)) :
    Option (List (Node S) × List Nat × DomStore S K × Nat × Bool × List (Call S)) :=
  let (layer, cur, store, okDom) := fd
  if !okDom then none else
  let needRestrict := cfg.ctype == .restricted && cur.length > cfg.width
  let needRelax := cfg.ctype == .relaxed && cur.length > cfg.width && nlayers ≥ 2
  if needRelax && cfg.width == 0 then none else
  let isExactField := ief0 && !(needRestrict || needRelax)
  let (layer, cur, log) :=
    if needRestrict then let (l, c) := restrictLayer cfg layer cur; (l, c, log)
    else if needRelax then relaxLayer cfg plain layer cur log
    else (layer, cur, log)
  some (layer, cur, store, ndom, isExactField, log)

theorem prepLayerP_eq (cfg : Cfg S K) (pd : PD S K) (var : Nat) :
    prepLayerP cfg pd var =
      prepCore cfg pd.plain pd.layers.length pd.isExactField
        (pd.ndom + ((fcOf cfg pd var).2.length - (fdOf cfg pd var).2.1.length)) (fdOf cfg pd var) (impLog pd var) := by
  rfl

inductive SquashCase (cfg : Cfg S K) (plain : List (List (Node S))) (nlayers : Nat) (ief0 : Bool)
    (fd : List (Node S) × List Nat × DomStore S K × Bool) (log0 : List (Call S))
    (layer : List (Node S)) (cur : List Nat) (ief : Bool) (log : List (Call S)) : Prop
  | restrict :
      cfg.ctype = .restricted → fd.2.1.length > cfg.width →
      layer = (restrictLayer cfg fd.1 fd.2.1).1 → cur = (restrictLayer cfg fd.1 fd.2.1).2 →
      log = log0 → ief = false → SquashCase cfg plain nlayers ief0 fd log0 layer cur ief log
  | relax :
      cfg.ctype = .relaxed → fd.2.1.length > cfg.width → nlayers ≥ 2 → 1 ≤ cfg.width →
      layer = (relaxLayer cfg plain fd.1 fd.2.1 log0).1 → cur = (relaxLayer cfg plain fd.1 fd.2.1 log0).2.1 →
      log = (relaxLayer cfg plain fd.1 fd.2.1 log0).2.2 → ief = false →
      SquashCase cfg plain nlayers ief0 fd log0 layer cur ief log
  | keep :
      ¬ (cfg.ctype = .restricted ∧ fd.2.1.length > cfg.width) →
      ¬ (cfg.ctype = .relaxed ∧ fd.2.1.length > cfg.width ∧ nlayers ≥ 2) →
      layer = fd.1 → cur = fd.2.1 → log = log0 → ief = ief0 →
      SquashCase cfg plain nlayers ief0 fd log0 layer cur ief log

theorem prepCore_elim (cfg : Cfg S K) (plain : List (List (Node S))) (nlayers : Nat) (ief0 : Bool) (ndom0 : Nat)
    (fd : List (Node S) × List Nat × DomStore S K × Bool) (log0 : List (Call S))
    (layer : List (Node S)) (cur : List Nat) (store : DomStore S K) (ndom : Nat) (ief : Bool) (log : List (Call S))
    (h : prepCore cfg plain nlayers ief0 ndom0 fd log0 = some (layer, cur, store, ndom, ief, log)) :
    store = fd.2.2.1 ∧ fd.2.2.2 = true ∧ SquashCase cfg plain nlayers ief0 fd log0 layer cur ief log := by
  obtain ⟨l0, c0, st0, ok0⟩ := fd
  unfold prepCore at h
  dsimp only at h ⊢
  split at h
  · cases h
  · rename_i hok
    split at h
    · cases h
    · rename_i hW
      by_cases hR : cfg.ctype = .restricted ∧ c0.length > cfg.width
      · have e1 : (cfg.ctype == CompType.restricted && decide (c0.length > cfg.width)) = true := by
          simp [hR.1, hR.2]
        simp only [e1, if_true, Bool.true_or, Bool.not_true, Bool.and_false, Option.some.injEq, Prod.mk.injEq] at h
        obtain ⟨h1, h2, h3, _, h5, h6⟩ := h
        exact ⟨h3.symm, by simpa using hok, .restrict hR.1 hR.2 h1.symm h2.symm h6.symm h5.symm⟩
      · have e1 : (cfg.ctype == CompType.restricted && decide (c0.length > cfg.width)) = false := by
          simpa using hR
        by_cases hX : cfg.ctype = .relaxed ∧ c0.length > cfg.width ∧ nlayers ≥ 2
        · have e2 : (cfg.ctype == CompType.relaxed && decide (c0.length > cfg.width) && decide (nlayers ≥ 2)) = true := by
            simp [hX.1, hX.2.1, hX.2.2]
          simp only [e2, Bool.true_and, beq_iff_eq] at hW
          simp only [e1, e2, Bool.false_eq_true, if_false, if_true, Bool.false_or, Bool.not_true, Bool.and_false,
            Option.some.injEq, Prod.mk.injEq] at h
          obtain ⟨h1, h2, h3, _, h5, h6⟩ := h
          exact ⟨h3.symm, by simpa using hok, .relax hX.1 hX.2.1 hX.2.2 (by omega) h1.symm h2.symm h6.symm h5.symm⟩
        · have e2 : (cfg.ctype == CompType.relaxed && decide (c0.length > cfg.width) && decide (nlayers ≥ 2)) = false := by
            simp only [Bool.and_eq_false_iff, beq_eq_false_iff_ne, decide_eq_false_iff_not]
            by_cases a : cfg.ctype = .relaxed
            · by_cases b : c0.length > cfg.width
              · exact .inr (fun c => hX ⟨a, b, c⟩)
              · exact .inl (.inr b)
            · exact .inl (.inl a)
          simp only [e1, e2, Bool.false_eq_true, if_false, Bool.or_false, Bool.not_false, Bool.and_true,
            Option.some.injEq, Prod.mk.injEq] at h
          obtain ⟨h1, h2, h3, _, h5, h6⟩ := h
          exact ⟨h3.symm, by simpa using hok, .keep hR hX h1.symm h2.symm h6.symm h5.symm⟩

/-- the pool nodes that are skipped past the layer (long arcs) -/
def restNodes (cfg : Cfg S K) (pd : PD S K) (var : Nat) : List (Node S) :=
  pd.pool.filter (fun n => !cfg.P.impacted var n.state)

/-- the expansion of the positions `cur` of `layer`, the children joining the nodes `rest` in the pool -/
def expF (cfg : Cfg S K) (var lidx : Nat) (layer rest : List (Node S)) (cur : List Nat) (log : List (Call S)) :
    List (Node S) × List (Node S) × List (Call S) :=
  cur.foldl (expandOne cfg var lidx) (layer, rest, log)

/-- a successful `stepLayerP cfg pd var = some pd'`, in terms of the squashed layer `(layer, cur, ief, log)` -/
structure StepP (cfg : Cfg S K) (pd pd' : PD S K) (var : Nat) (layer : List (Node S)) (cur : List Nat) (ief : Bool)
    (log : List (Call S)) : Prop where
  okDom : (fdOf cfg pd var).2.2.2 = true
  sq : SquashCase cfg pd.plain pd.layers.length pd.isExactField (fdOf cfg pd var) (impLog pd var) layer cur ief log
  layers : pd'.layers =
    if (expF cfg var pd.layers.length layer (restNodes cfg pd var) cur log).1.isEmpty then pd.layers
    else pd.layers ++ [(pd.depth, (expF cfg var pd.layers.length layer (restNodes cfg pd var) cur log).1)]
  pool : pd'.pool = (expF cfg var pd.layers.length layer (restNodes cfg pd var) cur log).2.1
  kids : pd'.rootKids = if pd.layers.isEmpty then
      kidsOf (expF cfg var pd.layers.length layer (restNodes cfg pd var) cur log).2.1 else pd.rootKids
  log : pd'.log = (expF cfg var pd.layers.length layer (restNodes cfg pd var) cur log).2.2
  depth : pd'.depth = pd.depth + 1
  ief : pd'.isExactField = ief
  polls : pd'.polls = pd.polls

theorem stepLayerP_elim (cfg : Cfg S K) (pd pd' : PD S K) (var : Nat) (h : stepLayerP cfg pd var = some pd') :
    ∃ layer cur ief log, StepP cfg pd pd' var layer cur ief log := by
  unfold stepLayerP at h
  rw [prepLayerP_eq] at h
  cases hp : prepCore cfg pd.plain pd.layers.length pd.isExactField
      (pd.ndom + ((fcOf cfg pd var).2.length - (fdOf cfg pd var).2.1.length)) (fdOf cfg pd var) (impLog pd var) with
  | none => rw [hp] at h; cases h
  | some t =>
    obtain ⟨layer, cur, store, ndom, ief, log⟩ := t
    rw [hp] at h
    obtain ⟨_, hok, hsq⟩ := prepCore_elim cfg _ _ _ _ _ _ _ _ _ _ _ _ hp
    simp only [Option.some.injEq] at h
    subst h
    exact ⟨layer, cur, ief, log, hok, hsq, rfl, rfl, rfl, rfl, rfl, rfl, rfl⟩

/-- the plain layers after a step -/
theorem StepP.plain {cfg : Cfg S K} {pd pd' : PD S K} {var : Nat} {layer : List (Node S)} {cur : List Nat} {ief : Bool}
    {log : List (Call S)} (h : StepP cfg pd pd' var layer cur ief log) :
    pd'.plain =
      if (expF cfg var pd.layers.length layer (restNodes cfg pd var) cur log).1.isEmpty then pd.plain
      else pd.plain ++ [(expF cfg var pd.layers.length layer (restNodes cfg pd var) cur log).1] := by
  unfold PD.plain
  rw [h.layers]
  split
  · rfl
  · rw [List.map_append]; rfl

theorem plain_length (pd : PD S K) : pd.plain.length = pd.layers.length := by
  unfold PD.plain; rw [List.length_map]

theorem impLog_eq (pd : PD S K) (var : Nat) :
    impLog pd var = (pd.pool.map (fun n => Call.impacted var n.state)).reverse ++ pd.log := by
  unfold impLog
  generalize pd.log = lg
  induction pd.pool generalizing lg with
  | nil => rfl
  | cons n r ih =>
    rw [List.foldl_cons, ih, List.map_cons, List.reverse_cons, List.append_assoc]
    rfl

/-- `pd` after the `next_variable` call of a loop iteration has been logged -/
def logNV (cfg : Cfg S K) (pd : PD S K) : PD S K :=
  { pd with log := Call.nextVar pd.depth (pd.pool.map (·.state)) (cfg.P.nextVar pd.depth (pd.pool.map (·.state))) :: pd.log }
/-- … and the cutoff polled -/
def polled (cfg : Cfg S K) (pd : PD S K) : PD S K := { logNV cfg pd with polls := pd.polls + 1 }

/-- the five ways one iteration of `buildLoopP` can go -/
inductive LoopCase (cfg : Cfg S K) (stopAt : Option Nat) (fuel : Nat) (pd : PD S K) : Prop
  | none : cfg.P.nextVar pd.depth (pd.pool.map (·.state)) = none →
      buildLoopP cfg stopAt (fuel + 1) pd = (logNV cfg pd, .ok) → LoopCase cfg stopAt fuel pd
  | cutoff (var : Nat) : cfg.P.nextVar pd.depth (pd.pool.map (·.state)) = some var →
      buildLoopP cfg stopAt (fuel + 1) pd = (polled cfg pd, .cutoff) → LoopCase cfg stopAt fuel pd
  | empty (var : Nat) : cfg.P.nextVar pd.depth (pd.pool.map (·.state)) = some var → pd.pool = [] →
      buildLoopP cfg stopAt (fuel + 1) pd = (polled cfg pd, .ok) → LoopCase cfg stopAt fuel pd
  | crash (var : Nat) : cfg.P.nextVar pd.depth (pd.pool.map (·.state)) = some var →
      stepLayerP cfg (polled cfg pd) var = none →
      buildLoopP cfg stopAt (fuel + 1) pd = (polled cfg pd, .crash) → LoopCase cfg stopAt fuel pd
  | step (var : Nat) (pd' : PD S K) : cfg.P.nextVar pd.depth (pd.pool.map (·.state)) = some var → pd.pool ≠ [] →
      stepLayerP cfg (polled cfg pd) var = some pd' →
      buildLoopP cfg stopAt (fuel + 1) pd = buildLoopP cfg stopAt fuel pd' → LoopCase cfg stopAt fuel pd

/-- the loop body once the cutoff has answered "go on" -/
theorem buildLoopP_tail (cfg : Cfg S K) (stopAt : Option Nat) (fuel : Nat) (pd : PD S K) (var : Nat)
    (hnv : cfg.P.nextVar pd.depth (pd.pool.map (·.state)) = some var)
    (X : PD S K × Outcome)
    (hX : X = if pd.pool.isEmpty = true then (polled cfg pd, Outcome.ok)
      else match stepLayerP cfg (polled cfg pd) var with
        | none => (polled cfg pd, Outcome.crash)
        | some pd' => buildLoopP cfg stopAt fuel pd')
    (hb : buildLoopP cfg stopAt (fuel + 1) pd = X) : LoopCase cfg stopAt fuel pd := by
  subst hX
  by_cases hemp : pd.pool.isEmpty = true
  · rw [if_pos hemp] at hb
    exact .empty var hnv (List.isEmpty_iff.1 hemp) hb
  · have hne : pd.pool ≠ [] := fun h => hemp (List.isEmpty_iff.2 h)
    rw [if_neg hemp] at hb
    cases hst : stepLayerP cfg (polled cfg pd) var with
    | none => rw [hst] at hb; exact .crash var hnv hst hb
    | some pd' => rw [hst] at hb; exact .step var pd' hnv hne hst hb

theorem buildLoopP_cases (cfg : Cfg S K) (stopAt : Option Nat) (fuel : Nat) (pd : PD S K) : LoopCase cfg stopAt fuel pd := by
  cases hnv : cfg.P.nextVar pd.depth (pd.pool.map (·.state)) with
  | none =>
    refine .none hnv ?_
    unfold buildLoopP
    simp only [hnv, logNV]
  | some var =>
    cases stopAt with
    | none =>
      refine buildLoopP_tail cfg none fuel pd var hnv _ rfl ?_
      conv => lhs; unfold buildLoopP
      simp only [hnv, logNV, polled, Bool.false_eq_true, if_false]
      rfl
    | some k =>
      by_cases hcut : pd.polls + 1 ≥ k
      · refine .cutoff var hnv ?_
        unfold buildLoopP
        simp only [hnv, logNV, polled, hcut, decide_true, if_true]
      · refine buildLoopP_tail cfg (some k) fuel pd var hnv _ rfl ?_
        conv => lhs; unfold buildLoopP
        simp only [hnv, logNV, polled, hcut, decide_false, Bool.false_eq_true, if_false]
        rfl

/-! ### `compileP` in terms of `buildLoopP` and `finalizeP` -/

theorem compileP_pd (cfg : Cfg S K) (cache : Cache S) (store : DomStore S K) (polls : Nat) (stopAt : Option Nat) :
    (compileP cfg cache store polls stopAt).2.2.2 =
      (buildLoopP cfg stopAt (cfg.P.nbVars + 2) (initPD cfg cache store polls)).1 := by
  unfold compileP
  generalize buildLoopP cfg stopAt (cfg.P.nbVars + 2) (initPD cfg cache store polls) = bl
  obtain ⟨pd, oc⟩ := bl
  cases oc <;> rfl

/-- the results of a compilation that ends normally are `finalizeP` of the final diagram -/
theorem compileP_ok_results (cfg : Cfg S K) (cache : Cache S) (store : DomStore S K) (polls : Nat) (stopAt : Option Nat)
    (hok : (buildLoopP cfg stopAt (cfg.P.nbVars + 2) (initPD cfg cache store polls)).2 = .ok) :
    ∃ must may, (compileP cfg cache store polls stopAt).2.1 =
        finalizeP cfg (buildLoopP cfg stopAt (cfg.P.nbVars + 2) (initPD cfg cache store polls)).1 must ∧
      (compileP cfg cache store polls stopAt).2.2.1 =
        if may != must then
          some (finalizeP cfg (buildLoopP cfg stopAt (cfg.P.nbVars + 2) (initPD cfg cache store polls)).1 may)
        else none := by
  unfold compileP
  generalize buildLoopP cfg stopAt (cfg.P.nbVars + 2) (initPD cfg cache store polls) = bl at hok ⊢
  obtain ⟨pd, oc⟩ := bl
  dsimp only at hok
  subst hok
  exact ⟨_, _, rfl, rfl⟩

/-- a compilation that does not end normally reports no counts and no second result -/
theorem compileP_notok_results (cfg : Cfg S K) (cache : Cache S) (store : DomStore S K) (polls : Nat) (stopAt : Option Nat)
    (hok : (buildLoopP cfg stopAt (cfg.P.nbVars + 2) (initPD cfg cache store polls)).2 ≠ .ok) :
    (compileP cfg cache store polls stopAt).2.1.expanded = [] ∧ (compileP cfg cache store polls stopAt).2.2.1 = none := by
  unfold compileP
  generalize buildLoopP cfg stopAt (cfg.P.nbVars + 2) (initPD cfg cache store polls) = bl at hok ⊢
  obtain ⟨pd, oc⟩ := bl
  dsimp only at hok
  cases oc with
  | ok => exact absurd rfl hok
  | cutoff => exact ⟨rfl, rfl⟩
  | crash => exact ⟨rfl, rfl⟩

/-- the two admissible results of `compileP` are `finalizeP` of the final diagram (outcome `.ok`) or carry no counts -/
theorem compileP_results (cfg : Cfg S K) (cache : Cache S) (store : DomStore S K) (polls : Nat) (stopAt : Option Nat)
    (r : Result S)
    (hr : r = (compileP cfg cache store polls stopAt).2.1 ∨ some r = (compileP cfg cache store polls stopAt).2.2.1) :
    r.expanded = [] ∨ ∃ e, r = finalizeP cfg (compileP cfg cache store polls stopAt).2.2.2 e := by
  rw [compileP_pd]
  by_cases hok : (buildLoopP cfg stopAt (cfg.P.nbVars + 2) (initPD cfg cache store polls)).2 = .ok
  · obtain ⟨must, may, h1, h2⟩ := compileP_ok_results cfg cache store polls stopAt hok
    rcases hr with hr | hr
    · exact .inr ⟨must, hr.trans h1⟩
    · rw [h2] at hr
      split at hr
      · injection hr with hr; exact .inr ⟨may, hr⟩
      · cases hr
  · obtain ⟨h1, h2⟩ := compileP_notok_results cfg cache store polls stopAt hok
    rcases hr with hr | hr
    · exact .inl (by rw [hr]; exact h1)
    · rw [h2] at hr; cases hr

/-! ## 2. width -/

open Ddo.Width (Grows expandedRev expandedRev_cons expandedRev_grows isNextVar isDomain domCount)

theorem impLog_grows (pd : PD S K) (var : Nat) : Grows 0 pd.log (impLog pd var) := by
  rw [impLog_eq]
  refine ⟨_, rfl, fun c hc => ?_, ?_⟩
  · obtain ⟨n, _, rfl⟩ := List.mem_map.1 (List.mem_reverse.1 hc)
    rfl
  · unfold domCount
    rw [Nat.le_zero, List.countP_eq_zero]
    intro c hc
    obtain ⟨n, _, rfl⟩ := List.mem_map.1 (List.mem_reverse.1 hc)
    simp [isDomain]

/-- the layers C13 speaks about in the pooled diagram, in terms of the number `nl` of layers materialised so far -/
def BoundedNow (cfg : Cfg S K) (nl : Nat) : Prop := cfg.ctype = .restricted ∨ (cfg.ctype = .relaxed ∧ 2 ≤ nl)

theorem squashCase_cur_le (cfg : Cfg S K) (plain : List (List (Node S))) (nl : Nat) (ief0 : Bool)
    (fd : List (Node S) × List Nat × DomStore S K × Bool) (log0 : List (Call S))
    (layer : List (Node S)) (cur : List Nat) (ief : Bool) (log : List (Call S))
    (h : SquashCase cfg plain nl ief0 fd log0 layer cur ief log) (hb : BoundedNow cfg nl) : cur.length ≤ cfg.width := by
  cases h with
  | restrict _ _ _ hc _ _ => rw [hc]; exact Width.restrict_cur_le_width cfg _ _
  | relax _ hlen _ hW _ hc _ _ => rw [hc]; exact Width.relax_cur_le_width cfg _ _ _ _ hW hlen
  | keep h1 h2 _ hc _ _ =>
    rw [hc]
    rcases hb with hb | ⟨hb, hn⟩
    · rcases Nat.lt_or_ge cfg.width fd.2.1.length with h' | h'
      · exact absurd ⟨hb, h'⟩ h1
      · exact h'
    · rcases Nat.lt_or_ge cfg.width fd.2.1.length with h' | h'
      · exact absurd ⟨hb, h', hn⟩ h2
      · exact h'

theorem squashCase_grows (cfg : Cfg S K) (plain : List (List (Node S))) (nl : Nat) (ief0 : Bool)
    (fd : List (Node S) × List Nat × DomStore S K × Bool) (log0 : List (Call S))
    (layer : List (Node S)) (cur : List Nat) (ief : Bool) (log : List (Call S))
    (h : SquashCase cfg plain nl ief0 fd log0 layer cur ief log) : Grows 0 log0 log := by
  cases h with
  | restrict _ _ _ _ hl _ => rw [hl]; exact Grows.refl _
  | relax _ _ _ _ _ _ hl _ => rw [hl]; exact Width.relaxLayer_grows cfg _ _ _ _
  | keep _ _ _ _ hl _ => rw [hl]; exact Grows.refl _

/-- one layer step of the pooled diagram only prepends calls to the log, none of them `next_variable`, and the
    number of `for_each_in_domain` calls among them is at most the width when the layer is one C13 speaks about -/
theorem stepLayerP_log (cfg : Cfg S K) (pd pd' : PD S K) (var : Nat) (h : stepLayerP cfg pd var = some pd') :
    ∃ k, Grows k pd.log pd'.log ∧ (BoundedNow cfg pd.layers.length → k ≤ cfg.width) := by
  obtain ⟨layer, cur, ief, log, hs⟩ := stepLayerP_elim cfg pd pd' var h
  refine ⟨cur.length, ?_, fun hb => squashCase_cur_le cfg _ _ _ _ _ _ _ _ _ hs.sq hb⟩
  rw [hs.log]
  have h1 := impLog_grows pd var
  have h2 := squashCase_grows cfg _ _ _ _ _ _ _ _ _ hs.sq
  have h3 := Width.fold_grows cfg var pd.layers.length cur (layer, restNodes cfg pd var, log)
  exact ((h1.trans h2).trans h3).mono (by omega)

/-- number of layers materialised at a depth smaller than `d` -/
def matBefore (layers : List (Nat × List (Node S))) (d : Nat) : Nat :=
  (layers.filter (fun l => decide (l.1 < d))).length

/-- the layers (blocks) C13 speaks about in a pooled compilation: all of them when restricted; when relaxed, block `i`
    (the one opened by the `i`-th `next_variable` call, at depth `root.depth + i`) provided at least two layers were
    materialised before it -/
def BoundedP (cfg : Cfg S K) (layers : List (Nat × List (Node S))) (i : Nat) : Prop :=
  cfg.ctype = .restricted ∨ (cfg.ctype = .relaxed ∧ 2 ≤ matBefore layers (cfg.root.depth + i))

theorem matBefore_append_ge (layers : List (Nat × List (Node S))) (dp : Nat) (ly : List (Node S)) (d : Nat) (h : d ≤ dp) :
    matBefore (layers ++ [(dp, ly)]) d = matBefore layers d := by
  unfold matBefore
  rw [List.filter_append, List.length_append]
  have : decide (dp < d) = false := by simpa using h
  simp [this]

theorem matBefore_all (layers : List (Nat × List (Node S))) (d : Nat) (h : ∀ l ∈ layers, l.1 < d) :
    matBefore layers d = layers.length := by
  unfold matBefore
  rw [List.filter_eq_self.2]
  intro l hl
  simpa using h l hl

theorem matBefore_le (layers : List (Nat × List (Node S))) (d : Nat) : matBefore layers d ≤ layers.length :=
  List.length_filter_le _ _

theorem ok_extend (cfg : Cfg S K) (E : List Nat) (layers layers' : List (Nat × List (Node S))) (d : Nat)
    (hold : ∀ i x, E.reverse[i]? = some x → BoundedP cfg layers i → x ≤ cfg.width)
    (hmat : ∀ i, i < E.length → BoundedP cfg layers' i → BoundedP cfg layers i)
    (hnew : BoundedP cfg layers' E.length → d ≤ cfg.width) :
    ∀ i x, (d :: E).reverse[i]? = some x → BoundedP cfg layers' i → x ≤ cfg.width := by
  intro i x hi hb
  rw [List.reverse_cons] at hi
  by_cases hlt : i < E.length
  · rw [List.getElem?_append_left (by simpa using hlt)] at hi
    exact hold i x hi (hmat i hlt hb)
  · rw [List.getElem?_append_right (by simpa using hlt)] at hi
    simp only [List.length_reverse] at hi
    have h0 : i - E.length = 0 := by
      rcases Nat.eq_zero_or_pos (i - E.length) with h0 | h0
      · exact h0
      · rw [List.getElem?_eq_none (by simp only [List.length_singleton]; omega)] at hi; cases hi
    rw [h0] at hi
    simp only [List.getElem?_cons_zero, Option.some.injEq] at hi
    subst hi
    have : i = E.length := by omega
    subst this
    exact hnew hb

/-- invariant of the pooled compilation loop for the width bound -/
structure WInv (cfg : Cfg S K) (pd : PD S K) : Prop where
  depth : pd.depth = cfg.root.depth + (expandedRev pd.log).length
  lay : ∀ l ∈ pd.layers, l.1 < pd.depth
  ok : ∀ i x, (expandedRev pd.log).reverse[i]? = some x → BoundedP cfg pd.layers i → x ≤ cfg.width

/-- what the loop guarantees at its exit (the depth is not advanced by the last, incomplete, iteration) -/
structure WPost (cfg : Cfg S K) (pd : PD S K) : Prop where
  len : (expandedRev pd.log).length ≤ (pd.depth - cfg.root.depth) + 1
  ok : ∀ i x, (expandedRev pd.log).reverse[i]? = some x → BoundedP cfg pd.layers i → x ≤ cfg.width

theorem WInv.post {cfg : Cfg S K} {pd : PD S K} (h : WInv cfg pd) : WPost cfg pd :=
  ⟨by rw [h.depth]; omega, h.ok⟩

theorem WInv.stop {cfg : Cfg S K} {pd pd2 : PD S K} (h : WInv cfg pd) (dp : Nat) (sts : List S) (ans : Option Nat)
    (hl : pd2.layers = pd.layers) (hd : pd2.depth = pd.depth) (hlog : pd2.log = Call.nextVar dp sts ans :: pd.log) :
    WPost cfg pd2 := by
  refine ⟨?_, ?_⟩
  · rw [hlog, expandedRev_cons, hd, h.depth]
    show (0 :: expandedRev pd.log).length ≤ _
    rw [List.length_cons]; omega
  · rw [hlog, expandedRev_cons, hl]
    exact ok_extend cfg _ pd.layers pd.layers 0 h.ok (fun _ _ hb => hb) (fun _ => Nat.zero_le _)

theorem WInv.step {cfg : Cfg S K} {pd pd2 pd' : PD S K} (hI : WInv cfg pd) (var dp : Nat) (sts : List S) (ans : Option Nat)
    (hl : pd2.layers = pd.layers) (hd : pd2.depth = pd.depth) (hlog : pd2.log = Call.nextVar dp sts ans :: pd.log)
    (h : stepLayerP cfg pd2 var = some pd') : WInv cfg pd' := by
  obtain ⟨k, hg, hk⟩ := stepLayerP_log cfg pd2 pd' var h
  obtain ⟨layer, cur, ief, log, hs⟩ := stepLayerP_elim cfg pd2 pd' var h
  have hx : expandedRev pd2.log = 0 :: expandedRev pd.log := by rw [hlog, expandedRev_cons]; rfl
  obtain ⟨d, hdk, he⟩ := expandedRev_grows hg hx
  have hlay' : pd'.layers = pd.layers ∨ ∃ ly, pd'.layers = pd.layers ++ [(pd.depth, ly)] := by
    rw [hs.layers, hl, hd]
    split
    · exact .inl rfl
    · exact .inr ⟨_, rfl⟩
  refine ⟨?_, ?_, ?_⟩
  · rw [hs.depth, hd, hI.depth, he, List.length_cons]; omega
  · intro l hlm
    rw [hs.depth, hd]
    rcases hlay' with e | ⟨ly, e⟩
    · rw [e] at hlm; exact Nat.lt_succ_of_lt (hI.lay l hlm)
    · rw [e] at hlm
      rcases List.mem_append.1 hlm with hlm | hlm
      · exact Nat.lt_succ_of_lt (hI.lay l hlm)
      · rw [List.mem_singleton] at hlm; subst hlm; exact Nat.lt_succ_self _
  · rw [he]
    refine ok_extend cfg _ pd.layers pd'.layers _ hI.ok (fun i hi hb => ?_) (fun hb => ?_)
    · rcases hlay' with e | ⟨ly, e⟩
      · rw [e] at hb; exact hb
      · rcases hb with hb | ⟨hb, hm⟩
        · exact .inl hb
        · refine .inr ⟨hb, ?_⟩
          rw [e, matBefore_append_ge _ _ _ _ (by rw [hI.depth]; omega)] at hm
          exact hm
    · have : d ≤ k := hdk
      refine Nat.le_trans (by omega) (hk ?_)
      rcases hb with hb | ⟨hb, hm⟩
      · exact .inl hb
      · refine .inr ⟨hb, ?_⟩
        rw [hl]
        rw [← hI.depth] at hm
        rcases hlay' with e | ⟨ly, e⟩
        · rw [e] at hm; exact Nat.le_trans hm (matBefore_le _ _)
        · rw [e, matBefore_append_ge _ _ _ _ (Nat.le_refl _)] at hm
          exact Nat.le_trans hm (matBefore_le _ _)

theorem buildLoopP_wpost (cfg : Cfg S K) (stopAt : Option Nat) :
    ∀ (fuel : Nat) (pd : PD S K), WInv cfg pd → WPost cfg (buildLoopP cfg stopAt fuel pd).1 := by
  intro fuel
  induction fuel with
  | zero => intro pd hI; unfold buildLoopP; exact hI.post
  | succ fuel ih =>
    intro pd hI
    cases buildLoopP_cases cfg stopAt fuel pd with
    | none _ hb => rw [hb]; exact hI.stop _ _ _ rfl rfl rfl
    | cutoff _ _ hb => rw [hb]; exact hI.stop _ _ _ rfl rfl rfl
    | empty _ _ _ hb => rw [hb]; exact hI.stop _ _ _ rfl rfl rfl
    | crash _ _ _ hb => rw [hb]; exact hI.stop _ _ _ rfl rfl rfl
    | step var pd' _ _ hst hb => rw [hb]; exact ih pd' (hI.step (pd2 := polled cfg pd) var _ _ _ rfl rfl rfl hst)

theorem initPD_winv (cfg : Cfg S K) (cache : Cache S) (store : DomStore S K) (polls : Nat) :
    WInv cfg (initPD cfg cache store polls) :=
  ⟨rfl, (fun l hl => by cases hl), (fun i x hi => by
    have : (expandedRev (initPD cfg cache store polls).log).reverse = [] := rfl
    rw [this] at hi; cases hi)⟩

theorem finalizeP_expanded (cfg : Cfg S K) (pd : PD S K) (e : Bool) :
    (finalizeP cfg pd e).expanded = (expandedRev pd.log).reverse := rfl

/-! ## 3. protocol -/

open Ddo.C12 (LogOk ArcFrom ExpQ)

/-- an earlier layer block: its variable, the states handed to its `next_variable` call (the pool), its body -/
abbrev Blk (S : Type) := Nat × List S × List (Call S)

/-- the arc `src —d,c→ dst` is available to the block that follows the blocks `prevs` (most recent first): it was created
    by the most recent block (`ArcFrom`), or `dst` was in the pool of that block, not impacted by its variable (so it
    stayed in the pool with its arcs: a long arc) and the arc was already available to that block -/
def ArcAvail (P : Problem S) : List (Blk S) → S → S → Dec → Int → Prop
  | [], _, _, _, _ => False
  | b :: more, src, dst, d, c =>
      ArcFrom P b.2.2 src dst d c ∨ (dst ∈ b.2.1 ∧ P.impacted b.1 dst = false ∧ ArcAvail P more src dst d c)

/-- `s` is a state of the layer of the block: a pool state impacted by the variable of the block, or the result of a
    `merge` call issued earlier in the same block -/
def InLayerP (P : Problem S) (var : Nat) (states : List S) (pre : List (Call S)) (s : S) : Prop :=
  (s ∈ states ∧ P.impacted var s = true) ∨ ∃ sts, Call.merge sts s ∈ pre

/-- one call of the body of a pooled layer block (`var` = answer of `next_variable` on the pool `states`; `prevs` = the
    earlier blocks, most recent first; `pre` = the calls that precede it in the body).  The `is_impacted_by` calls are
    not part of the body: they form the prefix of the block (`BlocksP.block`). -/
def CallOkP (P : Problem S) (R : Relax S) (var : Nat) (states : List S) (prevs : List (Blk S))
    (pre : List (Call S)) : Call S → Prop
  | .nextVar _ _ _ => False
  | .rub s => InLayerP P var states pre s
  | .domain v s => v = var ∧ InLayerP P var states pre s
  | .trans s d => d.var = var ∧ d.val ∈ P.domain var s ∧ InLayerP P var states pre s ∧ Call.domain var s ∈ pre
  | .cost s t d => d.var = var ∧ d.val ∈ P.domain var s ∧ t = P.trans s d ∧ InLayerP P var states pre s ∧
      ∃ pre', pre = pre' ++ [Call.trans s d]
  | .merge sts res => pre = [] ∧ res = R.merge sts ∧ 2 ≤ sts.length ∧ ∀ s ∈ sts, s ∈ states ∧ P.impacted var s = true
  | .relax src dst merged d c =>
      (∃ sts, Call.merge sts merged ∈ pre ∧ dst ∈ sts) ∧ ArcAvail P prevs src dst d c
  | .impacted _ _ => False

def BodyOkP (P : Problem S) (R : Relax S) (var : Nat) (states : List S) (prevs : List (Blk S))
    (body : List (Call S)) : Prop :=
  LogOk (CallOkP P R var states prevs) [] body

/-- the pool handed to `next_variable`: every state is the destination of a transition of the previous block, or was
    already in the pool of the previous block and is not impacted by its variable -/
def StatesOkP (P : Problem S) : List (Blk S) → List S → Prop
  | [], _ => True
  | b :: _, states => ∀ s ∈ states, (∃ src d, Call.cost src s d ∈ b.2.2) ∨ (s ∈ b.2.1 ∧ P.impacted b.1 s = false)

/-- `BlocksP P R k prevs log`: `log` (chronological) is a sequence of pooled layer blocks, the first of which is at depth
    `k` and is preceded by the blocks `prevs`.  A complete block is the `next_variable` call, one `is_impacted_by` call
    per pool state (in pool order, for the selected variable), then the body.  `cut`: the compilation stops right after
    the `next_variable` call (cutoff, empty pool, or crash). -/
inductive BlocksP (P : Problem S) (R : Relax S) : Nat → List (Blk S) → List (Call S) → Prop
  | done (k : Nat) (prevs : List (Blk S)) : BlocksP P R k prevs []
  | last (k : Nat) (prevs : List (Blk S)) (states : List S) :
      P.nextVar k states = none → StatesOkP P prevs states →
      BlocksP P R k prevs [Call.nextVar k states none]
  | cut (k : Nat) (prevs : List (Blk S)) (states : List S) (var : Nat) :
      P.nextVar k states = some var → StatesOkP P prevs states →
      BlocksP P R k prevs [Call.nextVar k states (some var)]
  | block (k : Nat) (prevs : List (Blk S)) (states : List S) (var : Nat) (body rest : List (Call S)) :
      P.nextVar k states = some var → StatesOkP P prevs states →
      BodyOkP P R var states prevs body → BlocksP P R (k + 1) ((var, states, body) :: prevs) rest →
      BlocksP P R k prevs (Call.nextVar k states (some var) :: (states.map (Call.impacted var) ++ (body ++ rest)))

/-- **the callback protocol of the pooled diagram** on the chronological log of a compilation rooted at depth `rootDepth` -/
def ProtocolOkP (P : Problem S) (R : Relax S) (rootDepth : Nat) (log : List (Call S)) : Prop :=
  BlocksP P R rootDepth [] log

/-! ### the log of an expansion that starts from a non-empty pool -/

/-- a pool node after (part of) the expansion of the layer `L` (index `lidx`); `rest` = the nodes that were skipped,
    `delta` = the calls logged so far: it is the destination of a logged `transition_cost` or continues a skipped node;
    each inbound arc is one a skipped node with the same state already had, or comes from the expanded layer with a
    logged `transition_cost` as cost -/
def NxOkP (P : Problem S) (L : List S) (lidx : Nat) (rest : List (Node S)) (delta : List (Call S)) (n : Node S) : Prop :=
  ((∃ src d, Call.cost src n.state d ∈ delta) ∨ ∃ n0 ∈ rest, n0.state = n.state) ∧
  ∀ e ∈ n.inb, (∃ n0 ∈ rest, n0.state = n.state ∧ e ∈ n0.inb) ∨
    (e.fromL = lidx ∧ ∃ src, L[e.fromP]? = some src ∧ ArcFrom P delta src n.state e.dec e.cost)

theorem NxOkP.mono {P : Problem S} {L : List S} {lidx : Nat} {rest : List (Node S)} {delta delta' : List (Call S)}
    {n : Node S} (h : NxOkP P L lidx rest delta n) (hsub : ∀ x ∈ delta, x ∈ delta') : NxOkP P L lidx rest delta' n := by
  obtain ⟨h1, h2⟩ := h
  refine ⟨h1.imp (fun ⟨src, d, h⟩ => ⟨src, d, hsub _ h⟩) id, fun e he => ?_⟩
  rcases h2 e he with h3 | ⟨h3, s, h4, h5⟩
  · exact .inl h3
  · exact .inr ⟨h3, s, h4, h5.mono hsub⟩

def ExpInvP (P : Problem S) (var : Nat) (L : List S) (lidx : Nat) (rest : List (Node S)) (log : List (Call S))
    (acc : List (Node S) × List (Node S) × List (Call S)) : Prop :=
  acc.1.map (·.state) = L ∧ ∃ delta, acc.2.2 = delta ++ log ∧ LogOk (ExpQ P var L) [] delta.reverse ∧
    ∀ n ∈ acc.2.1, NxOkP P L lidx rest delta n

theorem expandOne_logP (cfg : Cfg S K) (var lidx : Nat) (L : List S) (rest : List (Node S)) (log : List (Call S))
    (acc : List (Node S) × List (Node S) × List (Call S)) (p : Nat) (h : ExpInvP cfg.P var L lidx rest log acc) :
    ExpInvP cfg.P var L lidx rest log (expandOne cfg var lidx acc p) := by
  obtain ⟨ly, nx, lg⟩ := acc
  obtain ⟨hst, delta, hlg, hok, hnx⟩ := h
  dsimp only at hst hlg hnx
  unfold expandOne
  dsimp only
  split
  · exact ⟨hst, delta, hlg, hok, hnx⟩
  · rename_i n hn
    have hLp : L[p]? = some n.state := by rw [← hst, List.getElem?_map, hn]; rfl
    have hmem : n.state ∈ L := List.mem_of_getElem? hLp
    have hst' : (ly.set p { n with rub := cfg.R.rub n.state }).map (·.state) = L :=
      (C12.map_set_same (·.state) ly p n _ hn (by rfl)).trans hst
    have hrub : LogOk (ExpQ cfg.P var L) [] (Call.rub n.state :: delta).reverse := by
      rw [List.reverse_cons]; exact hok.snoc hmem
    split
    · generalize hfold : List.foldl _ _ (cfg.P.domain var n.state) = r
      have hJ : ∃ delta', r.2 = delta' ++ log ∧ LogOk (ExpQ cfg.P var L) [] delta'.reverse ∧
          Call.domain var n.state ∈ delta' ∧ ∀ m ∈ r.1, NxOkP cfg.P L lidx rest delta' m := by
        rw [← hfold]
        refine Cover.foldl_inv (β := List (Node S) × List (Call S)) (fun r => ∃ delta', r.2 = delta' ++ log ∧
          LogOk (ExpQ cfg.P var L) [] delta'.reverse ∧
          Call.domain var n.state ∈ delta' ∧ ∀ m ∈ r.1, NxOkP cfg.P L lidx rest delta' m) _ _ _ ?_ ?_
        · refine ⟨Call.domain var n.state :: Call.rub n.state :: delta, by rw [hlg]; rfl, ?_, List.mem_cons_self, ?_⟩
          · rw [List.reverse_cons]; exact hrub.snoc ⟨rfl, hmem⟩
          · intro m hm
            exact (hnx m hm).mono (fun x hx => List.mem_cons_of_mem _ (List.mem_cons_of_mem _ hx))
        · rintro ⟨nx', lg'⟩ d hd ⟨delta', h1, h2, h3, h4⟩
          dsimp only at h1 h4 ⊢
          refine ⟨Call.cost n.state (cfg.P.trans n.state ⟨var, d⟩) ⟨var, d⟩ :: Call.trans n.state ⟨var, d⟩ :: delta',
            by rw [h1]; rfl, ?_, List.mem_cons_of_mem _ (List.mem_cons_of_mem _ h3), ?_⟩
          · rw [List.reverse_cons, List.reverse_cons]
            refine (h2.snoc ?_).snoc ?_
            · exact ⟨rfl, hd, hmem, by rw [List.nil_append]; exact List.mem_reverse.2 h3⟩
            · exact ⟨rfl, hd, rfl, hmem, delta'.reverse, by rw [List.nil_append]⟩
          · intro c hc
            have hmono : ∀ x ∈ delta', x ∈ Call.cost n.state (cfg.P.trans n.state ⟨var, d⟩) ⟨var, d⟩ ::
                Call.trans n.state ⟨var, d⟩ :: delta' :=
              fun x hx => List.mem_cons_of_mem _ (List.mem_cons_of_mem _ hx)
            rcases branchOn_mem cfg _ lidx p ⟨var, d⟩ nx' c hc with hc | ⟨m, hm, hms, hceq⟩
            · exact (h4 c hc).mono hmono
            · rw [hceq]
              have hcs : (appendEdge { n with rub := cfg.R.rub n.state } m
                  ⟨lidx, p, ⟨var, d⟩, cfg.P.cost n.state (cfg.P.trans n.state ⟨var, d⟩) ⟨var, d⟩⟩).state =
                  cfg.P.trans n.state ⟨var, d⟩ := by rw [Ddo.appendEdge_state]; exact hms
              refine ⟨.inl ⟨n.state, ⟨var, d⟩, by rw [hcs]; exact List.mem_cons_self⟩, ?_⟩
              intro e he
              rw [Ddo.appendEdge_inb] at he
              rw [hcs]
              rcases List.mem_cons.1 he with he | he
              · subst he
                exact .inr ⟨rfl, n.state, hLp, List.mem_cons_self, rfl, hd, rfl⟩
              · rcases hm with hm | hm
                · rcases (h4 m hm).2 e he with ⟨n0, hn0, hs0, he0⟩ | ⟨h5, s, h6, h7⟩
                  · exact .inl ⟨n0, hn0, hs0.trans hms, he0⟩
                  · rw [hms] at h7
                    exact .inr ⟨h5, s, h6, h7.mono hmono⟩
                · rw [hm] at he; simp only [freshNode] at he; cases he
      obtain ⟨delta', h1, h2, _, h4⟩ := hJ
      exact ⟨hst', delta', h1, h2, h4⟩
    · exact ⟨hst', Call.rub n.state :: delta, by rw [hlg]; rfl, hrub,
        fun m hm => (hnx m hm).mono (fun x hx => List.mem_cons_of_mem _ hx)⟩

/-- **the log of the pooled expansion** -/
theorem expF_logP (cfg : Cfg S K) (var lidx : Nat) (layer rest : List (Node S)) (cur : List Nat) (log : List (Call S)) :
    (expF cfg var lidx layer rest cur log).1.map (·.state) = layer.map (·.state) ∧
    ∃ delta, (expF cfg var lidx layer rest cur log).2.2 = delta ++ log ∧
      LogOk (ExpQ cfg.P var (layer.map (·.state))) [] delta.reverse ∧
      ∀ n ∈ (expF cfg var lidx layer rest cur log).2.1, NxOkP cfg.P (layer.map (·.state)) lidx rest delta n := by
  unfold expF
  refine Cover.foldl_inv (ExpInvP cfg.P var (layer.map (·.state)) lidx rest log) _ _ _ ?_ ?_
  · exact ⟨rfl, [], rfl, LogOk.nil _ _, fun n hn => ⟨.inr ⟨n, hn, rfl⟩, fun e he => .inl ⟨n, hn, rfl, he⟩⟩⟩
  · intro acc p _ h
    exact expandOne_logP cfg var lidx _ rest log acc p h

/-! ### the loop invariant, one layer step -/

/-- invariant of `buildLoopP` for the protocol (`prevs` = the earlier blocks, most recent first): every inbound arc of a
    pool node is available (`ArcAvail`: created by an earlier block, its destination skipped by all the blocks in
    between), its parent is where the arc says; the pool states satisfy `StatesOkP` -/
structure LoopInvP (cfg : Cfg S K) (pd : PD S K) (prevs : List (Blk S)) : Prop where
  arcs : ∀ n ∈ pd.pool, ∀ e ∈ n.inb, ∃ src, getNode pd.plain e.fromL e.fromP = some src ∧
    ArcAvail cfg.P prevs src.state n.state e.dec e.cost
  origin : StatesOkP cfg.P prevs (pd.pool.map (·.state))

theorem LoopInvP.congr {cfg : Cfg S K} {pd pd' : PD S K} {prevs : List (Blk S)} (h : LoopInvP cfg pd prevs)
    (hl : pd'.layers = pd.layers) (hn : pd'.pool = pd.pool) : LoopInvP cfg pd' prevs := by
  obtain ⟨h1, h2⟩ := h
  have hp : pd'.plain = pd.plain := by unfold PD.plain; rw [hl]
  exact ⟨hp ▸ hn ▸ h1, hn ▸ h2⟩

theorem CallOkP.of_expQ {P : Problem S} {R : Relax S} {var : Nat} {states : List S} {prevs : List (Blk S)}
    {L : List S} {pfx pre : List (Call S)} {c : Call S} (hL : ∀ s ∈ L, InLayerP P var states pfx s)
    (h : ExpQ P var L pre c) : CallOkP P R var states prevs (pfx ++ pre) c := by
  have hin : ∀ s ∈ L, InLayerP P var states (pfx ++ pre) s := fun s hs =>
    (hL s hs).imp id (fun ⟨sts, h⟩ => ⟨sts, List.mem_append_left _ h⟩)
  cases c with
  | rub s => exact hin s h
  | domain v s => exact ⟨h.1, hin s h.2⟩
  | trans s d => exact ⟨h.1, h.2.1, hin s h.2.2.1, List.mem_append_right _ h.2.2.2⟩
  | cost s t d =>
    obtain ⟨h1, h2, h3, h4, pre', h5⟩ := h
    exact ⟨h1, h2, h3, hin s h4, pfx ++ pre', by rw [h5, List.append_assoc]⟩
  | nextVar _ _ _ => exact h
  | merge _ _ => exact False.elim h
  | relax _ _ _ _ _ => exact False.elim h
  | impacted _ _ => exact h

theorem mem_curNodes {cfg : Cfg S K} {pd : PD S K} {var : Nat} {n : Node S} (h : n ∈ curNodes cfg pd var) :
    ∃ m ∈ pd.pool, cfg.P.impacted var m.state = true ∧ n.state = m.state ∧ n.inb = m.inb := by
  unfold curNodes at h
  obtain ⟨m, hm, rfl⟩ := List.mem_map.1 h
  obtain ⟨hm1, hm2⟩ := List.mem_filter.1 hm
  exact ⟨m, hm1, hm2, rfl, rfl⟩

theorem mem_restNodes {cfg : Cfg S K} {pd : PD S K} {var : Nat} {n : Node S} (h : n ∈ restNodes cfg pd var) :
    n ∈ pd.pool ∧ cfg.P.impacted var n.state = false := by
  unfold restNodes at h
  obtain ⟨h1, h2⟩ := List.mem_filter.1 h
  exact ⟨h1, by simpa using h2⟩

/-- the filters keep the states / values / arcs of the layer; the surviving positions are distinct and in range -/
theorem fdOf_keep (cfg : Cfg S K) (pd : PD S K) (var : Nat) :
    (fdOf cfg pd var).1.map Cover.sig = (curNodes cfg pd var).map Cover.sig ∧
    (fdOf cfg pd var).2.1.Nodup ∧ ∀ p ∈ (fdOf cfg pd var).2.1, p < (fdOf cfg pd var).1.length := by
  have hfc : (fcOf cfg pd var).1.map Cover.sig = (curNodes cfg pd var).map Cover.sig ∧
      (fcOf cfg pd var).2.Nodup ∧ ∀ p ∈ (fcOf cfg pd var).2, p < (curNodes cfg pd var).length := by
    unfold fcOf
    split
    · exact ⟨rfl, List.nodup_range, fun p hp => List.mem_range.1 hp⟩
    · obtain ⟨h1, h2⟩ := C12.filterCache_keep cfg pd.cache (curNodes cfg pd var) (List.range (curNodes cfg pd var).length)
      exact ⟨h1, List.Nodup.sublist h2 List.nodup_range, fun p hp => List.mem_range.1 (h2.subset hp)⟩
  obtain ⟨hfc1, hfc2, hfc3⟩ := hfc
  obtain ⟨hfd1, hfd2, hfd3⟩ := C12.filterDom_keep cfg pd.store (fcOf cfg pd var).1 (fcOf cfg pd var).2
  have hsig : (fdOf cfg pd var).1.map Cover.sig = (curNodes cfg pd var).map Cover.sig := hfd1.trans hfc1
  refine ⟨hsig, hfd2 hfc2, fun p hp => ?_⟩
  have hlen : (fdOf cfg pd var).1.length = (curNodes cfg pd var).length := by
    have := congrArg List.length hsig
    simpa only [List.length_map] using this
  rw [hlen]
  exact hfc3 p (hfd3 p hp)

/-- **one layer step of the pooled diagram**: the log grows by the `is_impacted_by` calls (one per pool node) followed by
    a coherent block body, the depth by one, the invariant is re-established -/
theorem stepLayerP_protocol (cfg : Cfg S K) (pd pd' : PD S K) (var : Nat) (prevs : List (Blk S))
    (hinv : LoopInvP cfg pd prevs) (h : stepLayerP cfg pd var = some pd') :
    ∃ body, pd'.log.reverse = pd.log.reverse ++ ((pd.pool.map (·.state)).map (Call.impacted var) ++ body) ∧
      BodyOkP cfg.P cfg.R var (pd.pool.map (·.state)) prevs body ∧ pd'.depth = pd.depth + 1 ∧
      LoopInvP cfg pd' ((var, pd.pool.map (·.state), body) :: prevs) := by
  obtain ⟨layer, cur, ief, log, hs⟩ := stepLayerP_elim cfg pd pd' var h
  obtain ⟨hsig, hnd, hcur⟩ := fdOf_keep cfg pd var
  have hstates : (fdOf cfg pd var).1.map (·.state) = (curNodes cfg pd var).map (·.state) := C12.states_of_sig hsig
  have hcn : ∀ s ∈ (curNodes cfg pd var).map (·.state), s ∈ pd.pool.map (·.state) ∧ cfg.P.impacted var s = true := by
    intro s hs'
    obtain ⟨n, hn, rfl⟩ := List.mem_map.1 hs'
    obtain ⟨m, hm, himp, hst, _⟩ := mem_curNodes hn
    exact ⟨List.mem_map.2 ⟨m, hm, hst.symm⟩, hst ▸ himp⟩
  -- what the squash logged (`pfx`, chronological) and the states of the squashed layer
  have hsqz : ∃ pfx, log = pfx.reverse ++ impLog pd var ∧
      LogOk (CallOkP cfg.P cfg.R var (pd.pool.map (·.state)) prevs) [] pfx ∧
      ∀ s ∈ layer.map (·.state), InLayerP cfg.P var (pd.pool.map (·.state)) pfx s := by
    cases hs.sq with
    | restrict _ _ hl _ hlg _ =>
      refine ⟨[], by rw [hlg]; rfl, LogOk.nil _ _, fun s hs' => .inl ?_⟩
      rw [hl, C12.restrictLayer_states, hstates] at hs'
      exact hcn s hs'
    | keep _ _ hl _ hlg _ =>
      refine ⟨[], by rw [hlg]; rfl, LogOk.nil _ _, fun s hs' => .inl ?_⟩
      rw [hl, hstates] at hs'
      exact hcn s hs'
    | relax _ hwide _ hW hl _ hlg _ =>
      obtain ⟨hR1, rel, hR2, hR3⟩ :=
        C12.relaxLayer_log cfg pd.plain (fdOf cfg pd var).1 (fdOf cfg pd var).2.1 (impLog pd var) hcur hnd
      obtain ⟨hF1, hF2, hF3⟩ := C12.restStates_facts cfg (fdOf cfg pd var).1 (fdOf cfg pd var).2.1 hcur
      rw [← hl] at hR1
      rw [← hlg] at hR2
      generalize hfd : fdOf cfg pd var = fd at *
      have hmem : ∀ pre : List (Call S),
          Call.merge (Cover.restStatesOf cfg fd.1 fd.2.1) (Cover.mergedOf cfg fd.1 fd.2.1) ∈
            ([] ++ [Call.merge (Cover.restStatesOf cfg fd.1 fd.2.1) (Cover.mergedOf cfg fd.1 fd.2.1)]) ++ pre :=
        fun pre => List.mem_append_left _ List.mem_cons_self
      refine ⟨Call.merge (Cover.restStatesOf cfg fd.1 fd.2.1) (Cover.mergedOf cfg fd.1 fd.2.1) :: rel.reverse, ?_, ?_, ?_⟩
      · rw [hR2, List.reverse_cons, List.reverse_reverse, List.append_assoc]; rfl
      · refine LogOk.cons_iff.2 ⟨⟨rfl, rfl, hF1 hW hwide, fun s hs' => hcn s (hstates ▸ hF2 s hs')⟩, LogOk.of_forall ?_⟩
        intro c hc pre
        obtain ⟨p, hp, n, hn, e, he, src, hsrc, rfl⟩ := hR3 c (List.mem_reverse.1 hc)
        refine ⟨⟨Cover.restStatesOf cfg fd.1 fd.2.1, hmem pre, hF3 p hp n hn⟩, ?_⟩
        obtain ⟨n0, hn0, hs0, hi0⟩ := C12.mem_of_sig hsig (List.mem_of_getElem? hn)
        obtain ⟨m, hm, _, hst, hinb⟩ := mem_curNodes hn0
        obtain ⟨src', hsrc', harc⟩ := hinv.arcs m hm e (hinb ▸ hi0 ▸ he)
        rw [hsrc] at hsrc'
        cases hsrc'
        rw [← hs0, hst]
        exact harc
      · intro s hs'
        rcases hR1 with hR1 | hR1
        · rw [hR1, hstates] at hs'; exact .inl (hcn s hs')
        · rw [hR1, hstates] at hs'
          rcases List.mem_append.1 hs' with hs' | hs'
          · exact .inl (hcn s hs')
          · rw [List.mem_singleton] at hs'
            exact .inr ⟨Cover.restStatesOf cfg fd.1 fd.2.1, hs' ▸ List.mem_cons_self⟩
  obtain ⟨pfx, hp1, hp2, hp3⟩ := hsqz
  obtain ⟨hE1, delta, hE2, hE3, hE4⟩ := expF_logP cfg var pd.layers.length layer (restNodes cfg pd var) cur log
  have hplain := hs.plain
  have hpool := hs.pool
  have hlog := hs.log
  generalize expF cfg var pd.layers.length layer (restNodes cfg pd var) cur log = r at hE1 hE2 hE4 hplain hpool hlog
  have hsub : ∀ x ∈ delta, x ∈ pfx ++ delta.reverse := fun x hx =>
    List.mem_append_right _ (List.mem_reverse.2 hx)
  refine ⟨pfx ++ delta.reverse, ?_, ?_, hs.depth, ⟨?_, ?_⟩⟩
  · rw [hlog, hE2, hp1, impLog_eq, List.map_map]
    simp only [List.reverse_append, List.reverse_reverse, List.append_assoc]
    rfl
  · refine LogOk.append_iff.2 ⟨hp2, ?_⟩
    exact hE3.mono (fun pre c _ hq => CallOkP.of_expQ hp3 hq)
  · intro n hn e he
    rw [hpool] at hn
    rcases (hE4 n hn).2 e he with ⟨n0, hn0, hs0, he0⟩ | ⟨hfrom, s, hsL, harc⟩
    · obtain ⟨hn0p, himp⟩ := mem_restNodes hn0
      obtain ⟨src, hsrc, havail⟩ := hinv.arcs n0 hn0p e he0
      refine ⟨src, ?_, .inr ⟨?_, ?_, ?_⟩⟩
      · rw [hplain]
        split
        · exact hsrc
        · exact getNode_append_left _ _ _ _ _ hsrc
      · exact List.mem_map.2 ⟨n0, hn0p, hs0⟩
      · rw [← hs0]; exact himp
      · rw [← hs0]; exact havail
    · obtain ⟨srcN, hsrcN, hst⟩ := C12.getElem?_of_map_state hE1 hsL
      have hne : r.1.isEmpty = false := by
        cases hr : r.1 with
        | nil => rw [hr] at hsrcN; cases hsrcN
        | cons _ _ => rfl
      refine ⟨srcN, ?_, .inl ?_⟩
      · rw [hplain, hne, hfrom, ← plain_length]
        simp only [Bool.false_eq_true, if_false]
        rw [Cover.getNode_last]
        exact hsrcN
      · rw [hst]; exact harc.mono hsub
  · intro s hs'
    rw [hpool] at hs'
    obtain ⟨n, hn, rfl⟩ := List.mem_map.1 hs'
    rcases (hE4 n hn).1 with ⟨src, d, hmem⟩ | ⟨n0, hn0, hs0⟩
    · exact .inl ⟨src, d, hsub _ hmem⟩
    · obtain ⟨hn0p, himp⟩ := mem_restNodes hn0
      exact .inr ⟨List.mem_map.2 ⟨n0, hn0p, hs0⟩, hs0 ▸ himp⟩

/-! ### the whole loop -/

theorem logNV_log_reverse (cfg : Cfg S K) (pd : PD S K) :
    (logNV cfg pd).log.reverse = pd.log.reverse ++
      [Call.nextVar pd.depth (pd.pool.map (·.state)) (cfg.P.nextVar pd.depth (pd.pool.map (·.state)))] := by
  unfold logNV
  dsimp only
  rw [List.reverse_cons]

theorem polled_log_reverse (cfg : Cfg S K) (pd : PD S K) :
    (polled cfg pd).log.reverse = pd.log.reverse ++
      [Call.nextVar pd.depth (pd.pool.map (·.state)) (cfg.P.nextVar pd.depth (pd.pool.map (·.state)))] :=
  logNV_log_reverse cfg pd

/-- **the loop**: from any pooled diagram satisfying the invariant, the calls logged by `buildLoopP` form a sequence of
    pooled layer blocks starting at depth `pd.depth`; unless `fuel = 0` the first of them is the `next_variable` call on
    the states of the pool -/
theorem buildLoopP_blocks (cfg : Cfg S K) (stopAt : Option Nat) :
    ∀ (fuel : Nat) (pd : PD S K) (prevs : List (Blk S)), LoopInvP cfg pd prevs →
      ∃ tail, (buildLoopP cfg stopAt fuel pd).1.log.reverse = pd.log.reverse ++ tail ∧
        BlocksP cfg.P cfg.R pd.depth prevs tail ∧
        (fuel ≠ 0 → ∃ ans rest, tail = Call.nextVar pd.depth (pd.pool.map (·.state)) ans :: rest) := by
  intro fuel
  induction fuel with
  | zero =>
    intro pd prevs _
    exact ⟨[], by unfold buildLoopP; rw [List.append_nil], BlocksP.done _ _, fun h => absurd rfl h⟩
  | succ fuel ih =>
    intro pd prevs hinv
    have hst := hinv.origin
    have hcut : ∀ var, cfg.P.nextVar pd.depth (pd.pool.map (·.state)) = some var →
        ∃ tail, (polled cfg pd).log.reverse = pd.log.reverse ++ tail ∧ BlocksP cfg.P cfg.R pd.depth prevs tail ∧
          (fuel + 1 ≠ 0 → ∃ ans rest, tail = Call.nextVar pd.depth (pd.pool.map (·.state)) ans :: rest) := by
      intro var hnv
      refine ⟨_, polled_log_reverse cfg pd, ?_, fun _ => ⟨_, _, rfl⟩⟩
      rw [hnv]
      exact BlocksP.cut _ _ _ var hnv hst
    cases buildLoopP_cases cfg stopAt fuel pd with
    | none hnv hb =>
      rw [hb]
      refine ⟨_, logNV_log_reverse cfg pd, ?_, fun _ => ⟨_, _, rfl⟩⟩
      rw [hnv]
      exact BlocksP.last _ _ _ hnv hst
    | cutoff var hnv hb => rw [hb]; exact hcut var hnv
    | empty var hnv _ hb => rw [hb]; exact hcut var hnv
    | crash var hnv _ hb => rw [hb]; exact hcut var hnv
    | step var pd' hnv _ hstep hb =>
      rw [hb]
      obtain ⟨body, hb1, hb2, hd, hinv'⟩ :=
        stepLayerP_protocol cfg (polled cfg pd) pd' var prevs (hinv.congr rfl rfl) hstep
      obtain ⟨tail, ht1, ht2, _⟩ := ih pd' _ hinv'
      have hd' : pd'.depth = pd.depth + 1 := hd
      rw [hd'] at ht2
      have hpool : (polled cfg pd).pool = pd.pool := rfl
      rw [hpool] at hb1 ht2
      refine ⟨Call.nextVar pd.depth (pd.pool.map (·.state)) (some var) ::
          ((pd.pool.map (·.state)).map (Call.impacted var) ++ (body ++ tail)), ?_,
        BlocksP.block _ _ _ var body tail hnv hst hb2 ht2, fun _ => ⟨_, _, rfl⟩⟩
      rw [ht1, hb1, polled_log_reverse, hnv]
      simp only [List.append_assoc, List.cons_append, List.nil_append]

theorem initPD_loopInvP (cfg : Cfg S K) (cache : Cache S) (store : DomStore S K) (polls : Nat) :
    LoopInvP cfg (initPD cfg cache store polls) [] := by
  refine ⟨fun n hn e he => ?_, trivial⟩
  simp only [initPD, List.mem_singleton] at hn
  subst hn
  cases he

end Ddo.Pooled

/-! ## 4. exact nodes -/

namespace Ddo
variable {S : Type}

/-- `Reach` with skipped variables (long arcs): `(s, v)` is reached at depth `k` by the decisions `p` (in order) from the
    problem root, where a layer whose variable does not impact the state reached so far may contribute **no decision**
    (`skip`: state and value unchanged, depth + 1).  `p.length ≤ k` (`ReachSkip.length_le`), with equality iff no layer
    was skipped.  This is the relational form of `evalSkip` (`Dp.lean`). -/
inductive ReachSkip (P : Problem S) : Nat → S → Int → List Dec → Prop
  | root : ReachSkip P 0 P.init P.initVal []
  | step (k : Nat) (s : S) (v : Int) (p : List Dec) (L : List S) (x : Nat) (d : Int) :
      ReachSkip P k s v p → P.nextVar k L = some x → s ∈ L → d ∈ P.domain x s →
      ReachSkip P (k + 1) (P.trans s ⟨x, d⟩) (v + P.cost s (P.trans s ⟨x, d⟩) ⟨x, d⟩) (p ++ [⟨x, d⟩])
  | skip (k : Nat) (s : S) (v : Int) (p : List Dec) (L : List S) (x : Nat) :
      ReachSkip P k s v p → P.nextVar k L = some x → s ∈ L → P.impacted x s = false →
      ReachSkip P (k + 1) s v p

/-- every variable impacts every state: no long arcs -/
def AllImpacted (P : Problem S) : Prop := ∀ x s, P.impacted x s = true

theorem Reach.toSkip {P : Problem S} {k : Nat} {s : S} {v : Int} {p : List Dec} (h : Reach P k s v p) :
    ReachSkip P k s v p := by
  induction h with
  | root => exact .root
  | step k s v p L x d _ h2 h3 h4 ih => exact .step k s v p L x d ih h2 h3 h4

theorem ReachSkip.toReach {P : Problem S} (hall : AllImpacted P) {k : Nat} {s : S} {v : Int} {p : List Dec}
    (h : ReachSkip P k s v p) : Reach P k s v p := by
  induction h with
  | root => exact .root
  | step k s v p L x d _ h2 h3 h4 ih => exact .step k s v p L x d ih h2 h3 h4
  | skip k s v p L x _ _ _ h4 _ => rw [hall x s] at h4; cases h4

/-- with long arcs the path has at most as many decisions as the depth -/
theorem ReachSkip.length_le {P : Problem S} {k : Nat} {s : S} {v : Int} {p : List Dec} (h : ReachSkip P k s v p) :
    p.length ≤ k := by
  induction h with
  | root => exact Nat.le_refl _
  | step k s v p L x d _ _ _ _ ih => rw [List.length_append, List.length_singleton]; omega
  | skip k s v p L x _ _ _ _ ih => omega

/-- `BestChain` for diagrams with long arcs: starting from a node whose `best` field is `b`, all of whose ancestors live
    in layers of index `< l`, and following the `best` arcs up to a node without `best` arc (the root), the decisions
    met are `q` (listed from the root down); an arc may come from **any** earlier layer -/
inductive BestChainP (layers : List (List (Node S))) : Nat → Option Arc → List Dec → Prop
  | root (l : Nat) : BestChainP layers l none []
  | step (l : Nat) (a : Arc) (p : Node S) (q : List Dec) :
      a.fromL < l → getNode layers a.fromL a.fromP = some p → BestChainP layers a.fromL p.best q →
      BestChainP layers l (some a) (q ++ [a.dec])

theorem BestChainP.mono {layers : List (List (Node S))} (more : List (List (Node S))) {l : Nat} {b : Option Arc}
    {q : List Dec} (h : BestChainP layers l b q) : BestChainP (layers ++ more) l b q := by
  induction h with
  | root l => exact .root l
  | step l a p q hl hg _ ih => exact .step l a p q hl (getNode_append_left _ _ _ _ _ hg) ih

variable [DecidableEq S]

theorem getNode_index_lt {layers : List (List (Node S))} {l p : Nat} {x : Node S} (h : getNode layers l p = some x) :
    l < layers.length := by
  obtain ⟨ly, h1, _⟩ := Cover.getNode_lt h
  exact Cover.lt_of_getElem?_some h1

/-- the index of a chain is only an upper bound on the layers it visits -/
theorem BestChainP.of_le {layers : List (List (Node S))} {l l' : Nat} {b : Option Arc} {q : List Dec}
    (h : BestChainP layers l b q) (hl : l ≤ l' ∨ layers.length ≤ l') : BestChainP layers l' b q := by
  cases h with
  | root l => exact .root l'
  | step l a p q hlt hg hch =>
    refine .step l' a p q ?_ hg hch
    rcases hl with hl | hl
    · omega
    · have := getNode_index_lt hg; omega

theorem BestChainP.bestPath_eq {layers : List (List (Node S))} {l : Nat} {b : Option Arc} {q : List Dec}
    (h : BestChainP layers l b q) : ∀ (n : Node S), n.best = b → ∀ fuel, l ≤ fuel →
      (bestPath layers fuel n).reverse = q := by
  induction h with
  | root l =>
    intro n hn fuel _
    cases fuel with
    | zero => rfl
    | succ f => simp only [bestPath, hn, List.reverse_nil]
  | step l a p q hl hg _ ih =>
    intro n hn fuel hf
    cases fuel with
    | zero => omega
    | succ f =>
      simp only [bestPath, hn, hg, List.reverse_cons]
      rw [ih p rfl f (by omega)]

theorem BestChainP.of_keyEq {ls ls' : List (List (Node S))} {l : Nat} {b : Option Arc} {q : List Dec}
    (h : BestChainP ls l b q) (hk : KeyEq ls' ls) : BestChainP ls' l b q := by
  induction h with
  | root l => exact .root l
  | step l a p q hl hg _ ih =>
    have := hk.getNode a.fromL a.fromP
    rw [hg] at this
    cases hg' : getNode ls' a.fromL a.fromP with
    | none => rw [hg'] at this; cases this
    | some p' =>
      rw [hg'] at this
      simp only [Option.map_some, Option.some.injEq, bv, Prod.mk.injEq] at this
      exact .step l a p' q hl hg' (this.2 ▸ ih)

/-- an empty last layer holds no ancestor -/
theorem BestChainP.drop_nil {layers : List (List (Node S))} {l : Nat} {b : Option Arc} {q : List Dec}
    (h : BestChainP (layers ++ [[]]) l b q) : BestChainP layers l b q := by
  generalize hL : layers ++ [[]] = L at h
  induction h with
  | root l => exact .root l
  | step l a p q hl hg _ ih =>
    subst hL
    have hg' : getNode layers a.fromL a.fromP = some p := by
      obtain ⟨ly, h1, h2⟩ := Cover.getNode_lt hg
      rw [List.getElem?_append] at h1
      split at h1
      · unfold getNode; rw [h1]; exact h2
      · rename_i hge
        have hlt := Cover.lt_of_getElem?_some h1
        simp only [List.length_singleton] at hlt
        have h0 : a.fromL - layers.length = 0 := by omega
        rw [h0] at h1
        simp only [List.getElem?_cons_zero, Option.some.injEq] at h1
        subst h1
        cases h2
    exact .step l a p q hl hg' ih

theorem Bnd.mono {B : Int} (hB : 0 ≤ B) {k k' : Nat} {v : Int} (h : Bnd B k v) (hk : k ≤ k') : Bnd B k' v := by
  unfold Bnd at *
  have h1 : ((k : Int) + 1) * B ≤ ((k' : Int) + 1) * B := Int.mul_le_mul_of_nonneg_right (by omega) hB
  omega

/-- position-wise equality up to `rub` implies equal `value` / `best` -/
theorem keyEq_of_rubEq (plain : List (List (Node S))) {ly ly0 : List (Node S)} (h : RubEq ly ly0) :
    KeyEq (plain ++ [ly]) (plain ++ [ly0]) := by
  unfold KeyEq
  rw [List.map_append, List.map_append]
  congr 1
  simp only [List.map_cons, List.map_nil, List.cons.injEq, and_true]
  apply List.ext_getElem?
  intro j
  rw [List.getElem?_map, List.getElem?_map]
  have := h j
  cases h1 : ly[j]? <;> cases h2 : ly0[j]? <;> rw [h1, h2] at this <;>
    simp only [Option.map_none, Option.map_some, Option.some.injEq, reduceCtorEq] at this ⊢
  have hc := stripRub_core this
  simp only [bv, Prod.mk.injEq]
  exact ⟨hc.2.2.1, hc.2.2.2.1⟩

theorem RubEq.length {ly ly0 : List (Node S)} (h : RubEq ly ly0) : ly.length = ly0.length := by
  rcases Nat.lt_trichotomy ly.length ly0.length with hlt | heq | hgt
  · have := h ly.length
    rw [List.getElem?_eq_none (Nat.le_refl _), List.getElem?_eq_getElem hlt] at this
    cases this
  · exact heq
  · have := h ly0.length
    rw [List.getElem?_eq_none (Nat.le_refl _), List.getElem?_eq_getElem hgt] at this
    cases this

end Ddo

namespace Ddo.Pooled
open Ddo
variable {S K : Type} [DecidableEq S] [DecidableEq K]

/-! ### the per-node invariant -/

/-- an exact node `n`, all of whose ancestors live in layers of index `< l`, sitting `k` iterations below the root of the
    compilation: it is reached (with skips) at depth `root.depth + k` by `p0` followed by the decisions of its `best`
    chain, with exactly its value -/
def NodeOkP (cfg : Cfg S K) (B : Int) (p0 : List Dec) (layers : List (List (Node S))) (l k : Nat) (n : Node S) : Prop :=
  n.isExact = true → ∃ q, BestChainP layers l n.best q ∧
    ReachSkip cfg.P (cfg.root.depth + k) n.state n.value (p0 ++ q) ∧ Bnd B k n.value

theorem NodeOkP.of_core {cfg : Cfg S K} {B : Int} {p0 : List Dec} {layers : List (List (Node S))} {l k : Nat}
    {n0 n : Node S} (h : NodeOkP cfg B p0 layers l k n0) (he : n.isExact = true → n0.isExact = true)
    (hs : n0.state = n.state) (hv : n0.value = n.value) (hb : n0.best = n.best) : NodeOkP cfg B p0 layers l k n := by
  intro hn
  obtain ⟨q, h1, h2, h3⟩ := h (he hn)
  exact ⟨q, hb ▸ h1, hs ▸ hv ▸ h2, hv ▸ h3⟩

theorem NodeOkP.mono {cfg : Cfg S K} {B : Int} {p0 : List Dec} {layers : List (List (Node S))} {l k : Nat} {n : Node S}
    (h : NodeOkP cfg B p0 layers l k n) (more : List (List (Node S))) : NodeOkP cfg B p0 (layers ++ more) l k n := by
  intro hn
  obtain ⟨q, h1, h2⟩ := h hn
  exact ⟨q, h1.mono more, h2⟩

/-- a node of the layer being expanded (index `layers.length`, depth `dp`); `L` = the pool states handed to `nextVar` -/
def ParOkP (cfg : Cfg S K) (B : Int) (p0 : List Dec) (layers : List (List (Node S))) (k dp : Nat) (L : List S)
    (n : Node S) : Prop :=
  NodeOkP cfg B p0 layers layers.length k n ∧ (n.isExact = true → n.state ∈ L ∧ n.depth = dp)

theorem ParOkP.of_sub {cfg : Cfg S K} {B : Int} {p0 : List Dec} {layers : List (List (Node S))} {k dp : Nat} {L : List S}
    {ly ly0 : List (Node S)} (hs : SubE ly ly0) (h : ∀ n ∈ ly0, ParOkP cfg B p0 layers k dp L n) :
    ∀ n ∈ ly, ParOkP cfg B p0 layers k dp L n := by
  intro n hn
  refine ⟨fun he => ?_, fun he => ?_⟩
  · obtain ⟨n0, h0, he0, hc⟩ := hs n hn he
    exact (h n0 h0).1.of_core (fun _ => he0) hc.1 hc.2.1 hc.2.2.1 he
  · obtain ⟨n0, h0, he0, hc⟩ := hs n hn he
    obtain ⟨h1, h2⟩ := (h n0 h0).2 he0
    exact ⟨hc.1 ▸ h1, hc.2.2.2 ▸ h2⟩

/-! ### expansion of a layer, the children joining the skipped nodes -/

/-- the child obtained by `appendEdge` from an (exact) parent of the layer satisfies the invariant one iteration further -/
theorem childOkP_appendEdge (cfg : Cfg S K) (B : Int) (p0 : List Dec) (hB : NoClamp cfg.P cfg.R cfg.root.value B)
    (layers : List (List (Node S))) (k : Nat) (hk : k ≤ cfg.P.nbVars + 1)
    (ly0 : List (Node S)) (dp : Nat) (L : List S) (var : Nat)
    (hnv : cfg.P.nextVar (cfg.root.depth + k) L = some var)
    (p : Nat) (n0 par : Node S) (h0 : ly0[p]? = some n0) (hpar0 : ParOkP cfg B p0 layers k dp L n0)
    (hs : stripRub n0 = stripRub par) (d : Int) (hd : d ∈ cfg.P.domain var par.state)
    (m : Node S)
    (hm : NodeOkP cfg B p0 (layers ++ [ly0]) (layers.length + 1) (k + 1) m ∨ m = freshNode cfg par ⟨var, d⟩)
    (hms : m.state = cfg.P.trans par.state ⟨var, d⟩) :
    NodeOkP cfg B p0 (layers ++ [ly0]) (layers.length + 1) (k + 1) (appendEdge par m
      ⟨layers.length, p, ⟨var, d⟩, cfg.P.cost par.state (cfg.P.trans par.state ⟨var, d⟩) ⟨var, d⟩⟩) := by
  intro hex
  rw [appendEdge_isExact, Bool.and_eq_true] at hex
  obtain ⟨hpe, hme⟩ := hex
  obtain ⟨hie, hst, hv, hb, hdp⟩ := stripRub_core hs
  obtain ⟨q, hq, hreach, hbnd⟩ := hpar0.1 (hie.trans hpe)
  have hinL := (hpar0.2 (hie.trans hpe)).1
  rw [Ddo.appendEdge_state]
  have hcost := hB.cost par.state (cfg.P.trans par.state ⟨var, d⟩) ⟨var, d⟩
  have hbnd' : Bnd B (k + 1) (par.value + cfg.P.cost par.state (cfg.P.trans par.state ⟨var, d⟩) ⟨var, d⟩) :=
    (hv ▸ hbnd).step hcost
  have hsat : satAdd par.value (cfg.P.cost par.state (cfg.P.trans par.state ⟨var, d⟩) ⟨var, d⟩) =
      par.value + cfg.P.cost par.state (cfg.P.trans par.state ⟨var, d⟩) ⟨var, d⟩ :=
    clamp_of_in (satAdd_of_bnd hB (by omega) hbnd')
  have hstep := ReachSkip.step _ _ _ _ L var d hreach hnv hinL (hst ▸ hd)
  rw [hst, hv] at hstep
  rcases appendEdge_best_value par m
    ⟨layers.length, p, ⟨var, d⟩, cfg.P.cost par.state (cfg.P.trans par.state ⟨var, d⟩) ⟨var, d⟩⟩ with
      ⟨_, hbest, hval⟩ | ⟨hlt, hbest, hval⟩
  · refine ⟨q ++ [⟨var, d⟩], ?_, ?_, ?_⟩
    · rw [hbest]
      refine BestChainP.step _ ⟨layers.length, p, ⟨var, d⟩, _⟩ n0 q (Nat.lt_succ_self _) ?_ (hq.mono _)
      dsimp only
      rw [Cover.getNode_last]
      exact h0
    · rw [hval, hms]
      dsimp only
      rw [hsat, ← List.append_assoc, ← Nat.add_assoc]
      exact hstep
    · rw [hval]; dsimp only; rw [hsat]; exact hbnd'
  · rw [hbest, hval]
    rcases hm with hm | hm
    · obtain ⟨q', h1, h2, h3⟩ := hm hme
      exact ⟨q', h1, hms ▸ h2, h3⟩
    · exfalso
      apply hlt
      rw [hm]
      simp only [freshNode]
      exact Int.le_refl _

/-- invariant of the pooled expansion: the layer changes in the `rub` fields only, the pool nodes are fine -/
structure EInvP (cfg : Cfg S K) (B : Int) (p0 : List Dec) (layers : List (List (Node S))) (ly0 : List (Node S)) (k : Nat)
    (rest : List (Node S)) (acc : List (Node S) × List (Node S) × List (Call S)) : Prop where
  rub : RubEq acc.1 ly0
  child : ∀ c ∈ acc.2.1, NodeOkP cfg B p0 (layers ++ [ly0]) (layers.length + 1) (k + 1) c
  allEx : (∀ n ∈ ly0, n.isExact = true) → (∀ n ∈ rest, n.isExact = true) → ∀ c ∈ acc.2.1, c.isExact = true

theorem expandOneP_inv (cfg : Cfg S K) (B : Int) (p0 : List Dec) (hB : NoClamp cfg.P cfg.R cfg.root.value B)
    (layers : List (List (Node S))) (k : Nat) (hk : k ≤ cfg.P.nbVars + 1)
    (ly0 : List (Node S)) (dp : Nat) (L : List S) (var : Nat) (rest : List (Node S))
    (hnv : cfg.P.nextVar (cfg.root.depth + k) L = some var)
    (hpar : ∀ n ∈ ly0, ParOkP cfg B p0 layers k dp L n)
    (acc : List (Node S) × List (Node S) × List (Call S)) (p : Nat) (h : EInvP cfg B p0 layers ly0 k rest acc) :
    EInvP cfg B p0 layers ly0 k rest (expandOne cfg var layers.length acc p) := by
  obtain ⟨ly, nx, lg⟩ := acc
  unfold expandOne
  dsimp only
  split
  · exact h
  · rename_i n hn
    obtain ⟨n0, h0, hs⟩ := h.rub.get hn
    have hrub : RubEq (ly.set p { n with rub := cfg.R.rub n.state }) ly0 := h.rub.set hn rfl
    split
    · have hs' : stripRub n0 = stripRub { n with rub := cfg.R.rub n.state } := hs
      generalize hpar' : ({ n with rub := cfg.R.rub n.state } : Node S) = par at hs' hrub ⊢
      have hst : n.state = par.state := by rw [← hpar']
      simp only [hst]
      have key : (∀ c ∈ (List.foldl (fun (x : List (Node S) × List (Call S)) (d : Int) =>
            (branchOn cfg par layers.length p ⟨var, d⟩ x.1,
              Call.cost par.state (cfg.P.trans par.state ⟨var, d⟩) ⟨var, d⟩ :: Call.trans par.state ⟨var, d⟩ :: x.2))
            (nx, Call.domain var par.state :: Call.rub par.state :: lg) (cfg.P.domain var par.state)).1,
              NodeOkP cfg B p0 (layers ++ [ly0]) (layers.length + 1) (k + 1) c) ∧
          ((∀ n ∈ ly0, n.isExact = true) → (∀ n ∈ rest, n.isExact = true) →
            ∀ c ∈ (List.foldl (fun (x : List (Node S) × List (Call S)) (d : Int) =>
            (branchOn cfg par layers.length p ⟨var, d⟩ x.1,
              Call.cost par.state (cfg.P.trans par.state ⟨var, d⟩) ⟨var, d⟩ :: Call.trans par.state ⟨var, d⟩ :: x.2))
            (nx, Call.domain var par.state :: Call.rub par.state :: lg) (cfg.P.domain var par.state)).1,
              c.isExact = true) := by
        refine foldl_inv (β := List (Node S) × List (Call S))
          (fun acc => (∀ c ∈ acc.1, NodeOkP cfg B p0 (layers ++ [ly0]) (layers.length + 1) (k + 1) c) ∧
            ((∀ n ∈ ly0, n.isExact = true) → (∀ n ∈ rest, n.isExact = true) → ∀ c ∈ acc.1, c.isExact = true))
          _ _ _ ⟨h.child, h.allEx⟩ ?_
        rintro ⟨nx', lg'⟩ d hd ⟨ih1, ih2⟩
        dsimp only at ih1 ih2 ⊢
        refine ⟨fun c hc => ?_, fun hall hrest c hc => ?_⟩
        · rcases branchOn_mem cfg par layers.length p ⟨var, d⟩ nx' c hc with hc | ⟨m, hm, hms, rfl⟩
          · exact ih1 c hc
          · refine childOkP_appendEdge cfg B p0 hB layers k hk ly0 dp L var hnv p n0 par h0
              (hpar n0 (List.mem_of_getElem? h0)) hs' d hd m ?_ hms
            rcases hm with hm | hm
            · exact .inl (ih1 m hm)
            · exact .inr hm
        · rcases branchOn_mem cfg par layers.length p ⟨var, d⟩ nx' c hc with hc | ⟨m, hm, hms, rfl⟩
          · exact ih2 hall hrest c hc
          · have hpe : par.isExact = true :=
              (stripRub_core hs').1 ▸ hall n0 (List.mem_of_getElem? h0)
            rw [appendEdge_isExact, hpe, Bool.true_and]
            rcases hm with hm | hm
            · exact ih2 hall hrest m hm
            · rw [hm, freshNode_isExact]; exact hpe
      exact ⟨hrub, key.1, key.2⟩
    · exact ⟨hrub, h.child, h.allEx⟩

theorem expFP_inv (cfg : Cfg S K) (B : Int) (p0 : List Dec) (hB : NoClamp cfg.P cfg.R cfg.root.value B)
    (layers : List (List (Node S))) (k : Nat) (hk : k ≤ cfg.P.nbVars + 1)
    (ly0 : List (Node S)) (dp : Nat) (L : List S) (var : Nat) (rest : List (Node S))
    (hnv : cfg.P.nextVar (cfg.root.depth + k) L = some var)
    (hpar : ∀ n ∈ ly0, ParOkP cfg B p0 layers k dp L n)
    (hrest : ∀ c ∈ rest, NodeOkP cfg B p0 (layers ++ [ly0]) (layers.length + 1) (k + 1) c)
    (cur : List Nat) (log : List (Call S)) :
    EInvP cfg B p0 layers ly0 k rest (expF cfg var layers.length ly0 rest cur log) := by
  unfold expF
  refine foldl_inv (EInvP cfg B p0 layers ly0 k rest) _ _ _ ⟨RubEq.refl _, hrest, fun _ hr => hr⟩ ?_
  intro acc p _ h
  exact expandOneP_inv cfg B p0 hB layers k hk ly0 dp L var rest hnv hpar acc p h

/-! ### the loop invariant -/

/-- the invariant of the top-down build of the pooled diagram, `k` = number of completed iterations -/
structure MInvP (cfg : Cfg S K) (B : Int) (p0 : List Dec) (pd : PD S K) (k : Nat) : Prop where
  depth : pd.depth = cfg.root.depth + k
  layers : ∀ (l dp : Nat) (ly : List (Node S)), pd.layers[l]? = some (dp, ly) →
    ∃ k', k' < k ∧ dp = cfg.root.depth + k' ∧
      ∀ n ∈ ly, NodeOkP cfg B p0 pd.plain l k' n ∧ (n.isExact = true → n.depth = dp)
  pool : ∀ n ∈ pd.pool, NodeOkP cfg B p0 pd.plain pd.layers.length k n
  allEx : cfg.ctype ≠ .relaxed → ∀ n ∈ pd.pool, n.isExact = true

theorem MInvP.congr {cfg : Cfg S K} {B : Int} {p0 : List Dec} {pd pd' : PD S K} {k : Nat} (h : MInvP cfg B p0 pd k)
    (hl : pd'.layers = pd.layers) (hn : pd'.pool = pd.pool) (hd : pd'.depth = pd.depth) : MInvP cfg B p0 pd' k := by
  obtain ⟨h0, h1, h2, h3⟩ := h
  have hp : pd'.plain = pd.plain := by unfold PD.plain; rw [hl]
  exact ⟨hd ▸ h0, hp ▸ hl ▸ h1, hp ▸ hl ▸ hn ▸ h2, hn ▸ h3⟩

theorem fdOf_subS (cfg : Cfg S K) (pd : PD S K) (var : Nat) : SubS (fdOf cfg pd var).1 (curNodes cfg pd var) := by
  have hfc : SubS (fcOf cfg pd var).1 (curNodes cfg pd var) := by
    unfold fcOf
    split
    · exact SubS.refl _
    · exact filterCache_subS _ _ _ _
  exact (filterDom_subS cfg pd.store (fcOf cfg pd var).1 (fcOf cfg pd var).2).trans hfc

theorem squashCase_sub (cfg : Cfg S K) (plain : List (List (Node S))) (nl : Nat) (ief0 : Bool)
    (fd : List (Node S) × List Nat × DomStore S K × Bool) (log0 : List (Call S))
    (layer : List (Node S)) (cur : List Nat) (ief : Bool) (log : List (Call S))
    (h : SquashCase cfg plain nl ief0 fd log0 layer cur ief log) :
    SubE layer fd.1 ∧ (cfg.ctype ≠ .relaxed → SubS layer fd.1) := by
  cases h with
  | restrict _ _ hl _ _ _ =>
    rw [hl]; exact ⟨(restrictLayer_subS cfg _ _).toSub, fun _ => restrictLayer_subS cfg _ _⟩
  | relax hc _ _ _ hl _ _ _ =>
    rw [hl]; exact ⟨relaxLayer_sub cfg _ _ _ _, fun hne => absurd hc hne⟩
  | keep _ _ hl _ _ _ =>
    rw [hl]; exact ⟨SubE.refl _, fun _ => SubS.refl _⟩

theorem stepLayerP_inv (cfg : Cfg S K) (B : Int) (p0 : List Dec) (hB : NoClamp cfg.P cfg.R cfg.root.value B)
    (pd pd' : PD S K) (var k : Nat) (hinv : MInvP cfg B p0 pd k)
    (hnv : cfg.P.nextVar pd.depth (pd.pool.map (·.state)) = some var) (hk : k ≤ cfg.P.nbVars + 1)
    (h : stepLayerP cfg pd var = some pd') : MInvP cfg B p0 pd' (k + 1) := by
  obtain ⟨layer, cur, ief, log, hs⟩ := stepLayerP_elim cfg pd pd' var h
  have hnv' : cfg.P.nextVar (cfg.root.depth + k) (pd.pool.map (·.state)) = some var := hinv.depth ▸ hnv
  -- the impacted pool nodes
  have hcn : ∀ n ∈ curNodes cfg pd var, ParOkP cfg B p0 pd.plain k pd.depth (pd.pool.map (·.state)) n := by
    intro n hn
    unfold curNodes at hn
    obtain ⟨m, hm, rfl⟩ := List.mem_map.1 hn
    have hm' := (List.mem_filter.1 hm).1
    refine ⟨?_, fun _ => ⟨List.mem_map.2 ⟨m, hm', rfl⟩, rfl⟩⟩
    rw [plain_length]
    exact (hinv.pool m hm').of_core (fun h => h) rfl rfl rfl
  have hcnEx : (∀ m ∈ pd.pool, m.isExact = true) → ∀ n ∈ curNodes cfg pd var, n.isExact = true := by
    intro hall n hn
    unfold curNodes at hn
    obtain ⟨m, hm, rfl⟩ := List.mem_map.1 hn
    exact hall m (List.mem_filter.1 hm).1
  have hfd := fdOf_subS cfg pd var
  obtain ⟨hsq1, hsq2⟩ := squashCase_sub cfg _ _ _ _ _ _ _ _ _ hs.sq
  have hpar : ∀ n ∈ layer, ParOkP cfg B p0 pd.plain k pd.depth (pd.pool.map (·.state)) n :=
    ParOkP.of_sub (hsq1.trans hfd.toSub) hcn
  -- the skipped pool nodes
  have hrest : ∀ c ∈ restNodes cfg pd var,
      NodeOkP cfg B p0 (pd.plain ++ [layer]) (pd.plain.length + 1) (k + 1) c := by
    intro c hc hex
    obtain ⟨hcp, himp⟩ := mem_restNodes hc
    obtain ⟨q, h1, h2, h3⟩ := hinv.pool c hcp hex
    refine ⟨q, (h1.mono _).of_le (.inl (by rw [plain_length]; omega)), ?_, h3.mono hB.nonneg (by omega)⟩
    exact ReachSkip.skip _ _ _ _ _ var h2 hnv' (List.mem_map.2 ⟨c, hcp, rfl⟩) himp
  have hE := expFP_inv cfg B p0 hB pd.plain k hk layer pd.depth (pd.pool.map (·.state)) var (restNodes cfg pd var)
    hnv' hpar hrest cur log
  have hlayers := hs.layers
  have hplain := hs.plain
  have hpool := hs.pool
  rw [← plain_length pd] at hlayers hplain hpool
  generalize expF cfg var pd.plain.length layer (restNodes cfg pd var) cur log = r at hE hlayers hplain hpool
  obtain ⟨hrub, hchild, hallEx⟩ := hE
  have hlen' : pd'.layers.length = if r.1.isEmpty then pd.layers.length else pd.layers.length + 1 := by
    rw [hlayers]; split
    · rfl
    · rw [List.length_append, List.length_singleton]
  refine ⟨?_, ?_, ?_, ?_⟩
  · rw [hs.depth, hinv.depth]; omega
  · intro l dp ly hl
    rw [hlayers] at hl
    rw [hplain]
    by_cases hemp : r.1.isEmpty = true
    · rw [if_pos hemp] at hl ⊢
      obtain ⟨k', hk', hdp, hn⟩ := hinv.layers l dp ly hl
      exact ⟨k', by omega, hdp, hn⟩
    · rw [if_neg hemp] at hl ⊢
      rw [List.getElem?_append] at hl
      split at hl
      · obtain ⟨k', hk', hdp, hn⟩ := hinv.layers l dp ly hl
        exact ⟨k', by omega, hdp, fun n hnm => ⟨((hn n hnm).1).mono _, (hn n hnm).2⟩⟩
      · rename_i hge
        have hlt := Cover.lt_of_getElem?_some hl
        simp only [List.length_singleton] at hlt
        have h0 : l - pd.layers.length = 0 := by omega
        rw [h0] at hl
        simp only [List.getElem?_cons_zero, Option.some.injEq, Prod.mk.injEq] at hl
        obtain ⟨rfl, rfl⟩ := hl
        have hl' : l = pd.plain.length := by rw [plain_length]; omega
        refine ⟨k, Nat.lt_succ_self _, hinv.depth, fun n hnm => ?_⟩
        obtain ⟨h1, h2⟩ := ParOkP.of_sub hrub.subS.toSub hpar n hnm
        exact ⟨hl' ▸ h1.mono _, fun he => (h2 he).2⟩
  · intro c hc hex
    rw [hpool] at hc
    obtain ⟨q, h1, h2, h3⟩ := hchild c hc hex
    refine ⟨q, ?_, h2, h3⟩
    rw [hplain, hlen']
    by_cases hemp : r.1.isEmpty = true
    · rw [if_pos hemp, if_pos hemp]
      have hnil : layer = [] := by
        have h4 := hrub.length
        rw [List.isEmpty_iff.1 hemp] at h4
        exact List.eq_nil_of_length_eq_zero h4.symm
      rw [hnil] at h1
      exact h1.drop_nil.of_le (.inr (by rw [plain_length]; exact Nat.le_refl _))
    · rw [if_neg hemp, if_neg hemp, ← plain_length]
      exact h1.of_keyEq (keyEq_of_rubEq pd.plain hrub)
  · intro hne c hc
    rw [hpool] at hc
    refine hallEx ?_ ?_ c hc
    · intro n hn
      obtain ⟨n0, h0, he0, _⟩ := (hsq2 hne).trans hfd n hn
      rw [← he0]
      exact hcnEx (hinv.allEx hne) n0 h0
    · intro n hn
      exact hinv.allEx hne n (mem_restNodes hn).1

/-- what holds of the pooled diagram when the loop ends normally: the pool is empty (the `break`), or `nextVar` answered
    `none` on the states of the pool, which is then the terminal layer -/
def TerminalP (cfg : Cfg S K) (pd : PD S K) : Prop :=
  pd.pool = [] ∨ cfg.P.nextVar pd.depth (pd.pool.map (·.state)) = none

theorem buildLoopP_inv (cfg : Cfg S K) (B : Int) (p0 : List Dec) (hB : NoClamp cfg.P cfg.R cfg.root.value B)
    (stopAt : Option Nat) :
    ∀ (fuel : Nat) (pd : PD S K) (k : Nat), MInvP cfg B p0 pd k → k + fuel ≤ cfg.P.nbVars + 2 →
      ∃ k', MInvP cfg B p0 (buildLoopP cfg stopAt fuel pd).1 k' ∧
        ((buildLoopP cfg stopAt fuel pd).2 = .ok → TerminalP cfg (buildLoopP cfg stopAt fuel pd).1) := by
  intro fuel
  induction fuel with
  | zero =>
    intro pd k hinv _
    exact ⟨k, hinv, fun h => by cases h⟩
  | succ fuel ih =>
    intro pd k hinv hfuel
    cases buildLoopP_cases cfg stopAt fuel pd with
    | none hnv hb => rw [hb]; exact ⟨k, hinv.congr rfl rfl rfl, fun _ => .inr hnv⟩
    | cutoff var _ hb => rw [hb]; exact ⟨k, hinv.congr rfl rfl rfl, fun h => by cases h⟩
    | empty var _ hemp hb => rw [hb]; exact ⟨k, hinv.congr rfl rfl rfl, fun _ => .inl hemp⟩
    | crash var _ _ hb => rw [hb]; exact ⟨k, hinv.congr rfl rfl rfl, fun h => by cases h⟩
    | step var pd' hnv _ hst hb =>
      rw [hb]
      have hinv2 : MInvP cfg B p0 (polled cfg pd) k := hinv.congr rfl rfl rfl
      exact ih pd' (k + 1) (stepLayerP_inv cfg B p0 hB (polled cfg pd) pd' var k hinv2 hnv (by omega) hst) (by omega)

theorem initPD_inv (cfg : Cfg S K) (B : Int) (p0 : List Dec) (hB : NoClamp cfg.P cfg.R cfg.root.value B)
    (hroot : ReachSkip cfg.P cfg.root.depth cfg.root.state cfg.root.value p0)
    (cache : Cache S) (store : DomStore S K) (polls : Nat) : MInvP cfg B p0 (initPD cfg cache store polls) 0 := by
  refine ⟨rfl, ?_, ?_, ?_⟩
  · intro l dp ly hl
    simp only [initPD, List.getElem?_nil] at hl
    cases hl
  · intro n hn
    simp only [initPD, List.mem_singleton] at hn
    subst hn
    intro _
    refine ⟨[], .root _, ?_, ?_⟩
    · rw [List.append_nil]; exact hroot
    · have := hB.root
      show -((((0 : Nat) : Int) + 1) * B) ≤ cfg.root.value ∧ cfg.root.value ≤ (((0 : Nat) : Int) + 1) * B
      rw [show (((0 : Nat) : Int) + 1) = 1 by rfl, Int.one_mul]
      exact this
  · intro _ n hn
    simp only [initPD, List.mem_singleton] at hn
    subst hn
    rfl

/-! ### (A), user-facing form -/

/-- **(A) for the pooled diagram.**  Every node flagged exact is reached — `ReachSkip`: layers whose variable does not
    impact the state contribute no decision — from the problem root by `p0` (a decision list reaching the root
    sub-problem) followed by the decisions of its `best` chain, with exactly its value, at the depth of the layer it was
    placed in (`dp`, which is also its `depth` field) for a node of a materialised layer, at the current depth `pd.depth`
    for a node still in the pool (the depth `_finalize_layers` gives it if the compilation stops there; its `depth` field
    is stale: parent depth + 1). -/
def ExactReachP (cfg : Cfg S K) (p0 : List Dec) (pd : PD S K) : Prop :=
  (∀ (l dp : Nat) (ly : List (Node S)), pd.layers[l]? = some (dp, ly) → ∀ n ∈ ly, n.isExact = true →
    n.depth = dp ∧ cfg.root.depth ≤ dp ∧ dp < pd.depth ∧ ∀ fuel, l ≤ fuel →
      ReachSkip cfg.P dp n.state n.value (p0 ++ (bestPath pd.plain fuel n).reverse)) ∧
  (∀ n ∈ pd.pool, n.isExact = true → ∀ fuel, pd.layers.length ≤ fuel →
      ReachSkip cfg.P pd.depth n.state n.value (p0 ++ (bestPath pd.plain fuel n).reverse))

theorem MInvP.exactReach {cfg : Cfg S K} {B : Int} {p0 : List Dec} {pd : PD S K} {k : Nat} (h : MInvP cfg B p0 pd k) :
    ExactReachP cfg p0 pd := by
  refine ⟨fun l dp ly hl n hn he => ?_, fun n hn he fuel hf => ?_⟩
  · obtain ⟨k', hk', hdp, hok⟩ := h.layers l dp ly hl
    obtain ⟨h1, h2⟩ := hok n hn
    obtain ⟨q, hq, hr, _⟩ := h1 he
    refine ⟨h2 he, by omega, by rw [h.depth]; omega, fun fuel hf => ?_⟩
    rw [hq.bestPath_eq n rfl fuel hf, hdp]
    exact hr
  · obtain ⟨q, hq, hr, _⟩ := h.pool n hn he
    rw [hq.bestPath_eq n rfl fuel hf, h.depth]
    exact hr

/-- **(A)** for a whole pooled compilation, any compilation type, any cache / dominance configuration -/
theorem buildLoopP_exact_reach (cfg : Cfg S K) (B : Int) (p0 : List Dec) (hB : NoClamp cfg.P cfg.R cfg.root.value B)
    (hroot : ReachSkip cfg.P cfg.root.depth cfg.root.state cfg.root.value p0)
    (cache : Cache S) (store : DomStore S K) (polls : Nat) (stopAt : Option Nat) (fuel : Nat)
    (hfuel : fuel ≤ cfg.P.nbVars + 2) :
    ExactReachP cfg p0 (buildLoopP cfg stopAt fuel (initPD cfg cache store polls)).1 := by
  obtain ⟨k', h, _⟩ := buildLoopP_inv cfg B p0 hB stopAt fuel _ 0 (initPD_inv cfg B p0 hB hroot cache store polls)
    (by omega)
  exact h.exactReach

/-! ### finalisation -/

/-- the terminal layer `_finalize_layers` builds from the pool -/
def termsP (pd : PD S K) : List (Node S) := pd.pool.map (fun n => { n with depth := pd.depth })

/-- the layers after the bottom-up passes of `finalizeP` (which does not return them) -/
def layers3P (cfg : Cfg S K) (pd : PD S K) (hasEBP : Bool) : List (List (Node S)) :=
  let relaxed := cfg.ctype == .relaxed
  let terms := pd.pool.map (fun n => { n with depth := pd.depth })
  let layers0 := pd.plain ++ [terms]
  let termL := layers0.length - 1
  let bestValue := maxValue terms
  let bestExactValue := if hasEBP then bestValue else maxValue (terms.filter (·.isExact))
  let doCut := relaxed || pd.isExactField
  let (layers1, cs0) := if doCut then computeCutset .frontier 0 layers0 else (layers0, [])
  let cs := if pd.isExactField then [] else cs0
  let layers2 := if !cs.isEmpty && relaxed then computeLocalBounds layers1 else layers1
  let (layers3, _) := if doCut then computeThresholds .frontier pd.isExactField cfg.lb bestExactValue (some termL) layers2 else (layers2, [])
  layers3

theorem finalizeP_bestValue (cfg : Cfg S K) (pd : PD S K) (e : Bool) :
    (finalizeP cfg pd e).bestValue = maxValue (termsP pd) := rfl

theorem finalizeP_bestSol (cfg : Cfg S K) (pd : PD S K) (e : Bool) :
    (finalizeP cfg pd e).bestSol =
      (match maxValue (termsP pd) with
        | none => none
        | some v => ((layers3P cfg pd e)[(pd.plain ++ [termsP pd]).length - 1]?.getD []).find?
            (fun (n : Node S) => decide (n.value = v))).map
        (fun n => cfg.root.path ++ bestPath (layers3P cfg pd e) ((layers3P cfg pd e).length + 1) n) := rfl

theorem layers3P_keyEq (cfg : Cfg S K) (pd : PD S K) (e : Bool) (hrel : (cfg.ctype == .relaxed) = false) :
    KeyEq (layers3P cfg pd e) (pd.plain ++ [termsP pd]) := by
  unfold layers3P termsP
  simp only [hrel, Bool.and_false, Bool.false_eq_true, if_false, Bool.false_or]
  by_cases hx : pd.isExactField = true
  · simp only [hx, if_true]
    exact (computeThresholds_keyEq _ _ _ _ _ _).trans (computeCutset_keyEq _ _ _)
  · simp only [hx]
    exact KeyEq.refl _

theorem mem_termsP {pd : PD S K} {n' : Node S} (h : n' ∈ termsP pd) :
    ∃ n ∈ pd.pool, n' = { n with depth := pd.depth } := by
  unfold termsP at h
  obtain ⟨n, hn, rfl⟩ := List.mem_map.1 h
  exact ⟨n, hn, rfl⟩

/-- the reported best solution of a non-relaxed pooled compilation: the root path followed by the `best` chain (last arc
    first) of a pool node attaining the best value -/
theorem finalizeP_bestSol_eq (cfg : Cfg S K) (pd : PD S K) (e : Bool) (hrel : (cfg.ctype == .relaxed) = false)
    (w : Int) (hw : (finalizeP cfg pd e).bestValue = some w) :
    ∃ n, n ∈ pd.pool ∧ n.value = w ∧ ∀ q, BestChainP pd.plain pd.layers.length n.best q →
      (finalizeP cfg pd e).bestSol = some (cfg.root.path ++ q.reverse) := by
  rw [finalizeP_bestValue] at hw
  obtain ⟨n', hfind, hn', hv⟩ := find?_of_maxValue hw
  obtain ⟨n, hn, rfl⟩ := mem_termsP hn'
  refine ⟨n, hn, hv, fun q hq => ?_⟩
  have hk := layers3P_keyEq cfg pd e hrel
  rw [finalizeP_bestSol, hw]
  dsimp only
  generalize layers3P cfg pd e = L3 at hk ⊢
  have hlen : (pd.plain ++ [termsP pd]).length - 1 = pd.plain.length := by
    rw [List.length_append, List.length_singleton]; omega
  rw [hlen]
  have hlayer := hk.layer pd.plain.length
  rw [List.getElem?_concat_length, Option.getD_some] at hlayer
  have hf := find?_map_bv w _ _ hlayer
  rw [hfind] at hf
  cases hf3 : (L3[pd.plain.length]?.getD []).find? (fun n => decide (n.value = w)) with
  | none => rw [hf3] at hf; cases hf
  | some n3 =>
    rw [hf3] at hf
    simp only [Option.map_some, Option.some.injEq, bv, Prod.mk.injEq] at hf
    have hchain : BestChainP L3 pd.layers.length n3.best q := by
      rw [hf.2]; exact (hq.mono [termsP pd]).of_keyEq hk
    have := hchain.bestPath_eq n3 rfl (L3.length + 1) (by
      rw [hk.length, List.length_append, List.length_singleton, plain_length]; omega)
    simp only [Option.map_some, Option.some.injEq, List.append_cancel_left_eq]
    rw [← this, List.reverse_reverse]

theorem compileP_outcome (cfg : Cfg S K) (cache : Cache S) (store : DomStore S K) (polls : Nat) (stopAt : Option Nat) :
    (compileP cfg cache store polls stopAt).1 =
      (buildLoopP cfg stopAt (cfg.P.nbVars + 2) (initPD cfg cache store polls)).2 := by
  unfold compileP
  generalize buildLoopP cfg stopAt (cfg.P.nbVars + 2) (initPD cfg cache store polls) = bl
  obtain ⟨pd, oc⟩ := bl
  cases oc <;> rfl

/-! ## 5. without long arcs every iteration materialises a layer -/

theorem matBefore_eq (layers : List (Nat × List (Node S))) (d : Nat) :
    matBefore layers d = ((layers.map (·.1)).filter (fun x => decide (x < d))).length := by
  unfold matBefore
  rw [List.filter_map, List.length_map]
  rfl

theorem countLt_range' (a k i : Nat) :
    ((List.range' a k).filter (fun x => decide (x < a + i))).length = min i k := by
  induction k with
  | zero => simp
  | succ k ih =>
    rw [List.range'_1_concat, List.filter_append, List.length_append, ih]
    by_cases h : k < i
    · have : decide (a + k < a + i) = true := by simpa using h
      simp only [List.filter_cons, this, if_true, List.filter_nil, List.length_singleton]; omega
    · have : decide (a + k < a + i) = false := by simpa using h
      simp only [List.filter_cons, this, Bool.false_eq_true, if_false, List.filter_nil, List.length_nil]; omega

/-- the depths of the materialised layers are consecutive: `k` iterations, `k` layers -/
structure FullInv (cfg : Cfg S K) (pd : PD S K) (k : Nat) : Prop where
  depth : pd.depth = cfg.root.depth + k
  depths : pd.layers.map (·.1) = List.range' cfg.root.depth k

theorem FullInv.congr {cfg : Cfg S K} {pd pd' : PD S K} {k : Nat} (h : FullInv cfg pd k)
    (hl : pd'.layers = pd.layers) (hd : pd'.depth = pd.depth) : FullInv cfg pd' k :=
  ⟨hd ▸ h.depth, hl ▸ h.depths⟩

theorem FullInv.matBefore {cfg : Cfg S K} {pd : PD S K} {k : Nat} (h : FullInv cfg pd k) (i : Nat) :
    matBefore pd.layers (cfg.root.depth + i) = min i k := by
  rw [matBefore_eq, h.depths, countLt_range']

/-- the layer that leaves `_squash_if_needed` is at least as long as the list of impacted pool nodes -/
theorem squashCase_length (cfg : Cfg S K) (pd : PD S K) (var : Nat) (layer : List (Node S)) (cur : List Nat) (ief : Bool)
    (log : List (Call S))
    (h : SquashCase cfg pd.plain pd.layers.length pd.isExactField (fdOf cfg pd var) (impLog pd var) layer cur ief log) :
    (curNodes cfg pd var).length ≤ layer.length := by
  obtain ⟨hsig, hnd, hcur⟩ := fdOf_keep cfg pd var
  have hstates : (fdOf cfg pd var).1.map (·.state) = (curNodes cfg pd var).map (·.state) := C12.states_of_sig hsig
  have hlen : (fdOf cfg pd var).1.length = (curNodes cfg pd var).length := by
    have := congrArg List.length hstates
    simpa only [List.length_map] using this
  rw [← hlen]
  cases h with
  | restrict _ _ hl _ _ _ =>
    have := congrArg List.length (C12.restrictLayer_states cfg (fdOf cfg pd var).1 (fdOf cfg pd var).2.1)
    rw [hl]
    simp only [List.length_map] at this
    omega
  | keep _ _ hl _ _ _ => rw [hl]; exact Nat.le_refl _
  | relax _ _ _ _ hl _ _ _ =>
    obtain ⟨hR1, _⟩ :=
      C12.relaxLayer_log cfg pd.plain (fdOf cfg pd var).1 (fdOf cfg pd var).2.1 (impLog pd var) hcur hnd
    rw [hl]
    rcases hR1 with hR1 | hR1
    · have := congrArg List.length hR1
      simp only [List.length_map] at this
      omega
    · have := congrArg List.length hR1
      simp only [List.length_map, List.length_append, List.length_singleton] at this
      omega

theorem stepLayerP_full (cfg : Cfg S K) (hall : AllImpacted cfg.P) (pd pd' : PD S K) (var k : Nat)
    (hne : pd.pool ≠ []) (hinv : FullInv cfg pd k) (h : stepLayerP cfg pd var = some pd') : FullInv cfg pd' (k + 1) := by
  obtain ⟨layer, cur, ief, log, hs⟩ := stepLayerP_elim cfg pd pd' var h
  have hcn : (curNodes cfg pd var).length = pd.pool.length := by
    unfold curNodes
    rw [List.length_map, List.filter_eq_self.2 (fun n _ => hall var n.state)]
  have hlay := squashCase_length cfg pd var layer cur ief log hs.sq
  obtain ⟨hE1, _⟩ := expF_logP cfg var pd.layers.length layer (restNodes cfg pd var) cur log
  have hlayers := hs.layers
  generalize expF cfg var pd.layers.length layer (restNodes cfg pd var) cur log = r at hE1 hlayers
  have hrlen : r.1.length = layer.length := by
    have := congrArg List.length hE1
    simpa only [List.length_map] using this
  have hpos : 0 < pd.pool.length := List.length_pos_iff.2 hne
  have hnemp : r.1.isEmpty = false := by
    cases hr : r.1 with
    | nil => rw [hr] at hrlen; simp only [List.length_nil] at hrlen; omega
    | cons _ _ => rfl
  rw [hnemp] at hlayers
  simp only [Bool.false_eq_true, if_false] at hlayers
  refine ⟨by rw [hs.depth, hinv.depth]; omega, ?_⟩
  rw [hlayers, List.map_append, hinv.depths, List.range'_1_concat, hinv.depth]
  rfl

theorem buildLoopP_full (cfg : Cfg S K) (hall : AllImpacted cfg.P) (stopAt : Option Nat) :
    ∀ (fuel : Nat) (pd : PD S K) (k : Nat), FullInv cfg pd k → ∃ k', FullInv cfg (buildLoopP cfg stopAt fuel pd).1 k' := by
  intro fuel
  induction fuel with
  | zero => intro pd k h; exact ⟨k, h⟩
  | succ fuel ih =>
    intro pd k hinv
    cases buildLoopP_cases cfg stopAt fuel pd with
    | none _ hb => rw [hb]; exact ⟨k, hinv.congr rfl rfl⟩
    | cutoff _ _ hb => rw [hb]; exact ⟨k, hinv.congr rfl rfl⟩
    | empty _ _ _ hb => rw [hb]; exact ⟨k, hinv.congr rfl rfl⟩
    | crash _ _ _ hb => rw [hb]; exact ⟨k, hinv.congr rfl rfl⟩
    | step var pd' _ hne hst hb =>
      rw [hb]
      exact ih pd' (k + 1) (stepLayerP_full cfg hall (polled cfg pd) pd' var k hne (hinv.congr rfl rfl) hst)

theorem initPD_full (cfg : Cfg S K) (cache : Cache S) (store : DomStore S K) (polls : Nat) :
    FullInv cfg (initPD cfg cache store polls) 0 := ⟨rfl, rfl⟩

/-! ## 6. the cut-set of the pooled diagram -/

/-- the positions `_compute_frontier_cutset` collects (before the `is_exact` test and the `marked` filter) -/
def cs0P (cfg : Cfg S K) (pd : PD S K) : List (Nat × Nat) :=
  (if ((cfg.ctype == .relaxed) || pd.isExactField) = true then
      computeCutset .frontier 0 (pd.plain ++ [termsP pd])
    else (pd.plain ++ [termsP pd], [])).2

theorem finalizeP_cutset (cfg : Cfg S K) (pd : PD S K) (e : Bool) :
    (finalizePOld cfg pd e).cutset =
      match maxValue (termsP pd) with
      | none => []
      | some bv =>
        (if pd.isExactField then [] else cs0P cfg pd).filterMap (fun (lp : Nat × Nat) =>
          match getNode (layers3P cfg pd e) lp.1 lp.2 with
          | some n => if n.marked then
              some { state := n.state, value := n.value,
                     path := cfg.root.path ++ bestPath (layers3P cfg pd e) ((layers3P cfg pd e).length + 1) n,
                     ub := min (min (satAdd n.value n.rub) (satAdd n.value n.vbot)) bv, depth := n.depth }
            else none
          | none => none) := rfl

/-- what the repaired `finalizeP` hands out for a child `kid` of the root, `c0` being what `finalizePOld` hands out for the
    root itself: the exact child, one level deeper, with the bound of the root -/
def kidSub (cfg : Cfg S K) (c0 : SubP S) (kid : S × Dec × Int) : SubP S :=
  { state := kid.1, value := satAdd c0.value kid.2.2, path := cfg.root.path ++ [kid.2.1], ub := c0.ub, depth := c0.depth + 1 }

/-- the sub-problem `finalizePOld` builds from a node of the final layers -/
def subP (cfg : Cfg S K) (L3 : List (List (Node S))) (bv : Int) (n : Node S) : SubP S :=
  { state := n.state, value := n.value, path := cfg.root.path ++ bestPath L3 (L3.length + 1) n,
    ub := min (min (satAdd n.value n.rub) (satAdd n.value n.vbot)) bv, depth := n.depth }

/-- the cut-set of the repaired `finalizeP`: as `finalizePOld`, the positions of the layer of index 0 (the root) being
    replaced by the children of the root -/
theorem finalizeP_cutset_new (cfg : Cfg S K) (pd : PD S K) (e : Bool) :
    (finalizeP cfg pd e).cutset =
      match maxValue (termsP pd) with
      | none => []
      | some bv =>
        (if pd.isExactField then [] else cs0P cfg pd).flatMap (fun (lp : Nat × Nat) =>
          match getNode (layers3P cfg pd e) lp.1 lp.2 with
          | some n => if n.marked then
              (if lp.1 = 0 then pd.rootKids.map (kidSub cfg (subP cfg (layers3P cfg pd e) bv n))
               else [subP cfg (layers3P cfg pd e) bv n])
            else []
          | none => []) := rfl

/-- every sub-problem of the cut-set comes from a frontier position of the diagram `pd.plain ++ [terminals]`; the node
    found there in the final layers gives its state, value, depth and path -/
theorem finalizeP_cutset_mem (cfg : Cfg S K) (pd : PD S K) (e : Bool) (c : SubP S)
    (hc : c ∈ (finalizePOld cfg pd e).cutset) :
    ∃ (lp : Nat × Nat) (n : Node S), lp ∈ (computeCutset .frontier 0 (pd.plain ++ [termsP pd])).2 ∧
      getNode (layers3P cfg pd e) lp.1 lp.2 = some n ∧
      c.state = n.state ∧ c.value = n.value ∧ c.depth = n.depth ∧
      c.path = cfg.root.path ++ bestPath (layers3P cfg pd e) ((layers3P cfg pd e).length + 1) n := by
  rw [finalizeP_cutset] at hc
  split at hc
  · cases hc
  · obtain ⟨lp, hlp, hsome⟩ := List.mem_filterMap.1 hc
    have hlp' : lp ∈ (computeCutset .frontier 0 (pd.plain ++ [termsP pd])).2 := by
      split at hlp
      · cases hlp
      · unfold cs0P at hlp
        split at hlp
        · exact hlp
        · cases hlp
    split at hsome
    · rename_i n hn
      split at hsome
      · simp only [Option.some.injEq] at hsome
        subst hsome
        exact ⟨lp, n, hlp', hn, rfl, rfl, rfl, rfl⟩
      · cases hsome
    · cases hsome

theorem layers3P_xEq (cfg : Cfg S K) (pd : PD S K) (e : Bool) : XEq (layers3P cfg pd e) (pd.plain ++ [termsP pd]) := by
  unfold layers3P termsP
  extract_lets relaxed terms layers0 termL bestValue bestExactValue doCut
  have h1 : XEq (if doCut = true then computeCutset .frontier 0 layers0 else (layers0, [])).1 layers0 := by
    split
    · exact computeCutset_xEq _ _ _
    · exact XEq.refl _
  generalize (if doCut = true then computeCutset .frontier 0 layers0 else (layers0, [])) = r1 at h1 ⊢
  obtain ⟨layers1, cs0⟩ := r1
  dsimp only at h1 ⊢
  have h2 : ∀ b : Bool, XEq (if b = true then computeLocalBounds layers1 else layers1) layers0 := by
    intro b
    cases b
    · exact h1
    · exact (computeLocalBounds_xEq _).trans h1
  generalize hl2 : (if (!(if pd.isExactField = true then [] else cs0).isEmpty && relaxed) = true
      then computeLocalBounds layers1 else layers1) = layers2
  have h2 : XEq layers2 layers0 := hl2 ▸ h2 _
  split
  · exact (computeThresholds_xEq _ _ _ _ _ _).trans h2
  · exact h2

/-- the nodes of `pd.plain ++ [terminals]` -/
theorem getNode_layers0 (pd : PD S K) {l p : Nat} {n : Node S} (h : getNode (pd.plain ++ [termsP pd]) l p = some n) :
    (∃ dp ly, pd.layers[l]? = some (dp, ly) ∧ n ∈ ly ∧ getNode pd.plain l p = some n) ∨
    (l = pd.layers.length ∧ ∃ m ∈ pd.pool, n = { m with depth := pd.depth }) := by
  obtain ⟨ly, h1, h2⟩ := Cover.getNode_lt h
  rw [List.getElem?_append] at h1
  split at h1
  · rename_i hlt
    left
    unfold PD.plain at h1
    rw [List.getElem?_map] at h1
    cases hl : pd.layers[l]? with
    | none => rw [hl] at h1; cases h1
    | some dl =>
      rw [hl] at h1
      simp only [Option.map_some, Option.some.injEq] at h1
      refine ⟨dl.1, dl.2, rfl, h1 ▸ List.mem_of_getElem? h2, ?_⟩
      unfold getNode PD.plain
      rw [List.getElem?_map, hl]
      simp only [Option.map_some]
      rw [h1]; exact h2
  · rename_i hge
    right
    have hlt := Cover.lt_of_getElem?_some h1
    simp only [List.length_singleton] at hlt
    have h0 : l - pd.plain.length = 0 := by omega
    rw [h0] at h1
    simp only [List.getElem?_cons_zero, Option.some.injEq] at h1
    subst h1
    refine ⟨by rw [← plain_length]; omega, ?_⟩
    exact mem_termsP (List.mem_of_getElem? h2)

theorem _root_.Ddo.BestChainP.of_xEq {ls ls' : List (List (Node S))} {l : Nat} {b : Option Arc} {q : List Dec}
    (h : BestChainP ls l b q) (hk : XEq ls' ls) : BestChainP ls' l b q := by
  induction h with
  | root l => exact .root l
  | step l a p q hl hg _ ih =>
    obtain ⟨p', hp', hs⟩ := hk.symm.getNode_some hg
    have hb : p'.best = p.best := by
      have := congrArg Node.best hs
      simpa only [stripB] using this
    exact .step l a p' q hl hp' (hb ▸ ih)

/-- **C08 (i) for `finalizeP`**, any `hasEBP` bit, from the invariant of the top-down build -/
theorem finalizeP_cutset_exact (cfg : Cfg S K) (B : Int) (p0 : List Dec) (pd : PD S K) (k : Nat) (e : Bool)
    (hinv : MInvP cfg B p0 pd k) (c : SubP S) (hc : c ∈ (finalizePOld cfg pd e).cutset) :
    ∃ q, ReachSkip cfg.P c.depth c.state c.value (p0 ++ q) ∧ c.path = cfg.root.path ++ q.reverse := by
  obtain ⟨lp, n, hlp, hn, hs, hv, hd, hpath⟩ := finalizeP_cutset_mem cfg pd e c hc
  obtain ⟨n0, hn0, hex, _⟩ := computeCutset_frontier 0 _ lp hlp
  have hx := layers3P_xEq cfg pd e
  obtain ⟨n0', hn0', hsn⟩ := hx.getNode_some hn
  rw [hn0] at hn0'
  cases hn0'
  have e1 : n0.state = n.state := by have := congrArg Node.state hsn; simpa only [stripB] using this
  have e2 : n0.value = n.value := by have := congrArg Node.value hsn; simpa only [stripB] using this
  have e3 : n0.best = n.best := by have := congrArg Node.best hsn; simpa only [stripB] using this
  have e4 : n0.depth = n.depth := by have := congrArg Node.depth hsn; simpa only [stripB] using this
  have hlt : lp.1 < (layers3P cfg pd e).length := getNode_index_lt hn
  -- the chain and the path, in `pd.plain`
  have key : ∃ q l, l ≤ lp.1 ∧ BestChainP pd.plain l n0.best q ∧ ReachSkip cfg.P n0.depth n0.state n0.value (p0 ++ q) := by
    rcases getNode_layers0 pd hn0 with ⟨dp, ly, hl, hmem, _⟩ | ⟨hl, m, hm, rfl⟩
    · obtain ⟨k', _, hdp, hok⟩ := hinv.layers lp.1 dp ly hl
      obtain ⟨h1, h2⟩ := hok n0 hmem
      obtain ⟨q, hq, hr, _⟩ := h1 hex
      exact ⟨q, lp.1, Nat.le_refl _, hq, by rw [h2 hex, hdp]; exact hr⟩
    · obtain ⟨q, hq, hr, _⟩ := hinv.pool m hm hex
      exact ⟨q, pd.layers.length, by omega, hq, by dsimp only; rw [hinv.depth]; exact hr⟩
  obtain ⟨q, l, hl, hq, hr⟩ := key
  refine ⟨q, ?_, ?_⟩
  · rw [hs, hv, hd, ← e1, ← e2, ← e4]; exact hr
  · have hchain : BestChainP (layers3P cfg pd e) l n.best q := e3 ▸ (hq.mono [termsP pd]).of_xEq hx
    have := hchain.bestPath_eq n rfl ((layers3P cfg pd e).length + 1) (by omega)
    rw [hpath, ← this, List.reverse_reverse]

/-! ## 7. cut-set progress without long arcs -/

theorem expF_rubEq (cfg : Cfg S K) (var lidx : Nat) (layer rest : List (Node S)) (cur : List Nat) (log : List (Call S)) :
    RubEq (expF cfg var lidx layer rest cur log).1 layer := by
  unfold expF
  refine foldl_inv (β := List (Node S) × List (Node S) × List (Call S)) (fun acc => RubEq acc.1 layer) _ _ _
    (RubEq.refl _) ?_
  rintro ⟨ly, nx, lg⟩ p _ h
  unfold expandOne
  dsimp only at h ⊢
  split
  · exact h
  · rename_i n hn
    split
    · exact h.set hn rfl
    · exact h.set hn rfl

theorem expandOne_allEx (cfg : Cfg S K) (var lidx : Nat) (acc : List (Node S) × List (Node S) × List (Call S)) (p : Nat)
    (h1 : ∀ n ∈ acc.1, n.isExact = true) (h2 : ∀ c ∈ acc.2.1, c.isExact = true) :
    (∀ n ∈ (expandOne cfg var lidx acc p).1, n.isExact = true) ∧
    (∀ c ∈ (expandOne cfg var lidx acc p).2.1, c.isExact = true) := by
  obtain ⟨ly, nx, lg⟩ := acc
  unfold expandOne
  dsimp only at h1 h2 ⊢
  split
  · exact ⟨h1, h2⟩
  · rename_i n hn
    have hnex : n.isExact = true := h1 n (List.mem_of_getElem? hn)
    have hly : ∀ m ∈ ly.set p { n with rub := cfg.R.rub n.state }, m.isExact = true :=
      forall_mem_set h1 p hnex
    split
    · refine ⟨hly, ?_⟩
      refine foldl_inv (β := List (Node S) × List (Call S)) (fun acc => ∀ c ∈ acc.1, c.isExact = true) _ _ _ h2 ?_
      rintro ⟨nx', lg'⟩ d _ ih
      dsimp only at ih ⊢
      intro c hc
      rcases branchOn_mem cfg _ lidx p ⟨var, d⟩ nx' c hc with hc | ⟨m, hm, _, hceq⟩
      · exact ih c hc
      · rw [hceq, appendEdge_isExact]
        have hpar : ({ n with rub := cfg.R.rub n.state } : Node S).isExact = true := hnex
        rw [hpar, Bool.true_and]
        rcases hm with hm | hm
        · exact ih m hm
        · rw [hm, freshNode_isExact]; exact hpar
    · exact ⟨hly, h2⟩

/-- (relaxed compilations without long arcs) every inbound arc comes from the layer just above; the layers of index
    `≤ 1` and — while at most one layer is materialised — the pool hold exact nodes only -/
structure CInv (cfg : Cfg S K) (pd : PD S K) : Prop where
  arcsL : ∀ (l dp : Nat) (ly : List (Node S)), pd.layers[l]? = some (dp, ly) → ∀ n ∈ ly, ArcOk l n
  arcsP : ∀ n ∈ pd.pool, ArcOk pd.layers.length n
  exL : ∀ (l dp : Nat) (ly : List (Node S)), pd.layers[l]? = some (dp, ly) → l ≤ 1 → ∀ n ∈ ly, n.isExact = true
  exP : pd.layers.length ≤ 1 → ∀ n ∈ pd.pool, n.isExact = true

theorem CInv.congr {cfg : Cfg S K} {pd pd' : PD S K} (h : CInv cfg pd)
    (hl : pd'.layers = pd.layers) (hn : pd'.pool = pd.pool) : CInv cfg pd' := by
  obtain ⟨h1, h2, h3, h4⟩ := h
  exact ⟨hl ▸ h1, hl ▸ hn ▸ h2, hl ▸ h3, hl ▸ hn ▸ h4⟩

theorem stepLayerP_cinv (cfg : Cfg S K) (hall : AllImpacted cfg.P) (hrel : cfg.ctype = .relaxed) (pd pd' : PD S K)
    (var : Nat) (hne : pd.pool ≠ []) (hinv : CInv cfg pd) (h : stepLayerP cfg pd var = some pd') : CInv cfg pd' := by
  obtain ⟨layer, cur, ief, log, hs⟩ := stepLayerP_elim cfg pd pd' var h
  have hrest : restNodes cfg pd var = [] := by
    unfold restNodes
    rw [List.filter_eq_nil_iff]
    intro n _
    simp [hall var n.state]
  -- arcs and exactness of the layer
  have hcnA : ∀ n ∈ curNodes cfg pd var, ArcOk pd.layers.length n := by
    intro n hn
    obtain ⟨m, hm, _, _, hinb⟩ := mem_curNodes hn
    intro e he
    exact hinv.arcsP m hm e (hinb ▸ he)
  have hfdA : ∀ n ∈ (fdOf cfg pd var).1, ArcOk pd.layers.length n := by
    apply filterDom_arcs
    unfold fcOf
    split
    · exact hcnA
    · exact filterCache_arcs _ _ _ _ _ hcnA
  have hlayerA : ∀ n ∈ layer, ArcOk pd.layers.length n := by
    cases hs.sq with
    | restrict hc _ _ _ _ _ => rw [hrel] at hc; cases hc
    | relax _ _ _ _ hl _ _ _ => rw [hl]; exact relaxLayer_arcs _ _ _ _ _ _ hfdA
    | keep _ _ hl _ _ _ => rw [hl]; exact hfdA
  have hlayerE : pd.layers.length ≤ 1 → ∀ n ∈ layer, n.isExact = true := by
    intro hlen n hn
    have hpool := hinv.exP hlen
    cases hs.sq with
    | restrict hc _ _ _ _ _ => rw [hrel] at hc; cases hc
    | relax _ _ h2 _ _ _ _ _ => omega
    | keep _ _ hl _ _ _ =>
      rw [hl] at hn
      obtain ⟨n0, h0, he0, _⟩ := fdOf_subS cfg pd var n hn
      rw [← he0]
      unfold curNodes at h0
      obtain ⟨m, hm, rfl⟩ := List.mem_map.1 h0
      exact hpool m (List.mem_filter.1 hm).1
  -- the layer is materialised
  have hcn : (curNodes cfg pd var).length = pd.pool.length := by
    unfold curNodes
    rw [List.length_map, List.filter_eq_self.2 (fun n _ => hall var n.state)]
  have hlay := squashCase_length cfg pd var layer cur ief log hs.sq
  have hrub := expF_rubEq cfg var pd.layers.length layer (restNodes cfg pd var) cur log
  -- the children
  have hkidsA : ∀ c ∈ (expF cfg var pd.layers.length layer (restNodes cfg pd var) cur log).2.1,
      ArcOk (pd.layers.length + 1) c := by
    unfold expF
    refine foldl_inv (β := List (Node S) × List (Node S) × List (Call S))
      (fun acc => ∀ c ∈ acc.2.1, ArcOk (pd.layers.length + 1) c) _ _ _ ?_ ?_
    · rw [hrest]; intro c hc; cases hc
    · intro acc p _ h
      exact expandOne_arcs cfg var pd.layers.length acc p h
  have hkidsE : (∀ n ∈ layer, n.isExact = true) →
      ∀ c ∈ (expF cfg var pd.layers.length layer (restNodes cfg pd var) cur log).2.1, c.isExact = true := by
    intro hl
    unfold expF
    refine (foldl_inv (β := List (Node S) × List (Node S) × List (Call S))
      (fun acc => (∀ n ∈ acc.1, n.isExact = true) ∧ ∀ c ∈ acc.2.1, c.isExact = true) _ _ _ ⟨hl, ?_⟩ ?_).2
    · rw [hrest]; intro c hc; cases hc
    · intro acc p _ h
      exact expandOne_allEx cfg var pd.layers.length acc p h.1 h.2
  have hlayers := hs.layers
  have hpool := hs.pool
  generalize expF cfg var pd.layers.length layer (restNodes cfg pd var) cur log = r at hrub hkidsA hkidsE hlayers hpool
  have hpos : 0 < pd.pool.length := List.length_pos_iff.2 hne
  have hnemp : r.1.isEmpty = false := by
    have h4 := hrub.length
    cases hr : r.1 with
    | nil => rw [hr] at h4; simp only [List.length_nil] at h4; omega
    | cons _ _ => rfl
  rw [hnemp] at hlayers
  simp only [Bool.false_eq_true, if_false] at hlayers
  have hlen' : pd'.layers.length = pd.layers.length + 1 := by
    rw [hlayers, List.length_append, List.length_singleton]
  have hnew : ∀ n ∈ r.1, ∃ n0 ∈ layer, n0.inb = n.inb ∧ n0.isExact = n.isExact := by
    intro n hn
    obtain ⟨p, hp⟩ := List.mem_iff_getElem?.1 hn
    obtain ⟨n0, h0, hsr⟩ := hrub.get hp
    have hinb : n0.inb = n.inb := by
      have := congrArg Node.inb hsr
      simpa only [stripRub] using this
    exact ⟨n0, List.mem_of_getElem? h0, hinb, (stripRub_core hsr).1⟩
  -- the layers of `pd'`
  have hcases : ∀ (l dp : Nat) (ly : List (Node S)), pd'.layers[l]? = some (dp, ly) →
      pd.layers[l]? = some (dp, ly) ∨ (l = pd.layers.length ∧ ly = r.1) := by
    intro l dp ly hl
    rw [hlayers, List.getElem?_append] at hl
    split at hl
    · exact .inl hl
    · have hlt := Cover.lt_of_getElem?_some hl
      simp only [List.length_singleton] at hlt
      have h0 : l - pd.layers.length = 0 := by omega
      rw [h0] at hl
      simp only [List.getElem?_cons_zero, Option.some.injEq, Prod.mk.injEq] at hl
      exact .inr ⟨by omega, hl.2.symm⟩
  refine ⟨?_, ?_, ?_, ?_⟩
  · intro l dp ly hl n hn
    rcases hcases l dp ly hl with h1 | ⟨h1, h2⟩
    · exact hinv.arcsL l dp ly h1 n hn
    · subst h2
      obtain ⟨n0, h0, hinb, _⟩ := hnew n hn
      intro e he
      rw [h1]
      exact hlayerA n0 h0 e (hinb ▸ he)
  · intro c hc
    rw [hpool] at hc
    rw [hlen']
    exact hkidsA c hc
  · intro l dp ly hl hl1 n hn
    rcases hcases l dp ly hl with h1 | ⟨h1, h2⟩
    · exact hinv.exL l dp ly h1 hl1 n hn
    · subst h2
      obtain ⟨n0, h0, _, hex⟩ := hnew n hn
      rw [← hex]
      exact hlayerE (by omega) n0 h0
  · intro hl1 c hc
    rw [hpool] at hc
    exact hkidsE (hlayerE (by omega)) c hc

theorem buildLoopP_cinv (cfg : Cfg S K) (hall : AllImpacted cfg.P) (hrel : cfg.ctype = .relaxed) (stopAt : Option Nat) :
    ∀ (fuel : Nat) (pd : PD S K), CInv cfg pd → CInv cfg (buildLoopP cfg stopAt fuel pd).1 := by
  intro fuel
  induction fuel with
  | zero => intro pd h; exact h
  | succ fuel ih =>
    intro pd hinv
    cases buildLoopP_cases cfg stopAt fuel pd with
    | none _ hb => rw [hb]; exact hinv.congr rfl rfl
    | cutoff _ _ hb => rw [hb]; exact hinv.congr rfl rfl
    | empty _ _ _ hb => rw [hb]; exact hinv.congr rfl rfl
    | crash _ _ _ hb => rw [hb]; exact hinv.congr rfl rfl
    | step var pd' _ hne hst hb =>
      rw [hb]
      exact ih pd' (stepLayerP_cinv cfg hall hrel (polled cfg pd) pd' var hne (hinv.congr rfl rfl) hst)

theorem initPD_cinv (cfg : Cfg S K) (cache : Cache S) (store : DomStore S K) (polls : Nat) :
    CInv cfg (initPD cfg cache store polls) := by
  refine ⟨fun l dp ly hl => ?_, fun n hn e he => ?_, fun l dp ly hl => ?_, fun _ n hn => ?_⟩
  · simp only [initPD, List.getElem?_nil] at hl; cases hl
  · simp only [initPD, List.mem_singleton] at hn; subst hn; cases he
  · simp only [initPD, List.getElem?_nil] at hl; cases hl
  · simp only [initPD, List.mem_singleton] at hn; subst hn; rfl

/-- **C08 (ii) for `finalizeP` without long arcs**, any `hasEBP` bit -/
theorem finalizeP_cutset_progress (cfg : Cfg S K) (B : Int) (p0 : List Dec) (pd : PD S K) (k kf : Nat) (e : Bool)
    (hinv : MInvP cfg B p0 pd k) (hc : CInv cfg pd) (hf : FullInv cfg pd kf) (c : SubP S)
    (hmem : c ∈ (finalizePOld cfg pd e).cutset) : cfg.root.depth < c.depth := by
  obtain ⟨lp, n, hlp, hn, _, _, hd, _⟩ := finalizeP_cutset_mem cfg pd e c hmem
  obtain ⟨n0, hn0, hex, l', p', m, a, hm, hmex, ha, hal, _⟩ := computeCutset_frontier 0 _ lp hlp
  have hx := layers3P_xEq cfg pd e
  obtain ⟨n0', hn0', hsn⟩ := hx.getNode_some hn
  rw [hn0] at hn0'
  cases hn0'
  have e4 : n0.depth = n.depth := by have := congrArg Node.depth hsn; simpa only [stripB] using this
  have hkf : pd.layers.length = kf := by
    have := congrArg List.length hf.depths
    simpa only [List.length_map, List.length_range'] using this
  have hk : k = kf := by have h1 := hinv.depth; have h2 := hf.depth; omega
  -- the inexact child lives in a layer of index ≥ 2, hence its parent in a layer of index ≥ 1
  have hpos : 1 ≤ lp.1 := by
    rcases getNode_layers0 pd hm with ⟨dp, ly, hl, hmem', _⟩ | ⟨hl, m0, hm0, rfl⟩
    · have h1 := hc.arcsL l' dp ly hl m hmem' a ha
      rcases Nat.lt_or_ge 1 l' with h2 | h2
      · omega
      · have := hc.exL l' dp ly hl h2 m hmem'; rw [hmex] at this; cases this
    · have h1 := hc.arcsP m0 hm0 a ha
      rcases Nat.lt_or_ge 1 pd.layers.length with h2 | h2
      · omega
      · have := hc.exP h2 m0 hm0
        have hmex' : m0.isExact = false := hmex
        rw [hmex'] at this; cases this
  rw [hd, ← e4]
  rcases getNode_layers0 pd hn0 with ⟨dp, ly, hl, hmem', _⟩ | ⟨hl, m0, hm0, rfl⟩
  · obtain ⟨k', _, hdp, hok⟩ := hinv.layers lp.1 dp ly hl
    rw [(hok n0 hmem').2 hex]
    -- `dp` is the `lp.1`-th entry of the consecutive depths
    have h1 : (pd.layers.map (·.1))[lp.1]? = some dp := by rw [List.getElem?_map, hl]; rfl
    rw [hf.depths] at h1
    have hlt := Cover.lt_of_getElem?_some h1
    rw [List.length_range'] at hlt
    rw [List.getElem?_range' hlt] at h1
    simp only [Option.some.injEq] at h1
    omega
  · dsimp only
    rw [hinv.depth]
    omega

/-! ### the same two facts for the code before the repair of D5 -/

/-- the results of a compilation that ends normally are `finalizePOld` of the final diagram -/
theorem compilePOld_ok_results (cfg : Cfg S K) (cache : Cache S) (store : DomStore S K) (polls : Nat) (stopAt : Option Nat)
    (hok : (buildLoopP cfg stopAt (cfg.P.nbVars + 2) (initPD cfg cache store polls)).2 = .ok) :
    ∃ must may, (compilePOld cfg cache store polls stopAt).2.1 =
        finalizePOld cfg (buildLoopP cfg stopAt (cfg.P.nbVars + 2) (initPD cfg cache store polls)).1 must ∧
      (compilePOld cfg cache store polls stopAt).2.2.1 =
        if may != must then
          some (finalizePOld cfg (buildLoopP cfg stopAt (cfg.P.nbVars + 2) (initPD cfg cache store polls)).1 may)
        else none := by
  unfold compilePOld
  generalize buildLoopP cfg stopAt (cfg.P.nbVars + 2) (initPD cfg cache store polls) = bl at hok ⊢
  obtain ⟨pd, oc⟩ := bl
  dsimp only at hok
  subst hok
  exact ⟨_, _, rfl, rfl⟩

theorem compilePOld_outcome (cfg : Cfg S K) (cache : Cache S) (store : DomStore S K) (polls : Nat) (stopAt : Option Nat) :
    (compilePOld cfg cache store polls stopAt).1 =
      (buildLoopP cfg stopAt (cfg.P.nbVars + 2) (initPD cfg cache store polls)).2 := by
  unfold compilePOld
  generalize buildLoopP cfg stopAt (cfg.P.nbVars + 2) (initPD cfg cache store polls) = bl
  obtain ⟨pd, oc⟩ := bl
  cases oc <;> rfl


end Ddo.Pooled
