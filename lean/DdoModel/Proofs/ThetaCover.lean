import DdoModel.Proofs.Theta
/-! C06 / C07b / C08 (iv) for relaxed compilations that **consult the cache**: the diagram bounds / solves / covers its root
    *unless the cache cut it* — then the potential of the root is carried by a sub-problem that the consulted cache prunes,
    strictly deeper than the root (`CacheAlt`).  This is the soundness of the pruning by `_filter_with_cache` inside a
    compilation, relative to the invariant `CacheOk` of the solver (`Proofs/SeqCache.lean`), which discharges `CacheAlt`.
    Core: `Ddo.Theta.np_all` (`ThetaCore.lean`). -/
set_option linter.unusedSectionVars false
set_option linter.unusedVariables false
namespace Ddo.Theta
open Ddo Ddo.Bounds
variable {S K : Type} [DecidableEq S] [DecidableEq K]

/-- the cache consulted by the compilation prunes, strictly deeper than `d`, a sub-problem whose potential is `≥ x` -/
def CacheAlt (cfg : Cfg S K) (H : Nat → S → EInt) (B M : Int) (cache : Cache S) (d : Nat) (x : Int) : Prop :=
  cfg.useCache = true ∧ ∃ (s' : S) (d' : Nat) (t : Thr) (v' h' : Int), cache.get s' d' = some (some t) ∧ d < d' ∧
    Cover.Within (M + Cover.Bd B (d' - cfg.root.depth)) v' ∧ v' ≤ t.value ∧ H d' s' = some h' ∧ x ≤ v' + h'

section
variable {cfg : Cfg S K} {H : Nat → S → EInt} {B : Int} {cache : Cache S} {p0 : List Dec} {fin : DD S K}
  {Live : Nat → Nat → Prop} {dd : DD S K}

/-- the root: its potential is `≤ lb`, or carried by what the cache prunes, or a potential-preserving path of the built
    diagram leads from the root to the terminal layer -/
theorem Ctx.root_np (hx : Ctx cfg H B cache p0 fin Live dd) (hR : RubOk cfg.R H) (hlb : cfg.lb < iMax)
    (M : Int) (hM0 : 0 ≤ M) (hMs : M + Cover.Bd B (cfg.P.nbVars + 1) ≤ big) (e : Bool)
    (h0 : Int) (hH0 : H cfg.root.depth cfg.root.state = some h0) :
    cfg.root.value + h0 ≤ cfg.lb ∨ CacheAlt cfg H B M cache cfg.root.depth (cfg.root.value + h0) ∨
    ∃ n0, getNode (finalizeLayers fin).layers 0 0 = some n0 ∧ n0.state = cfg.root.state ∧ n0.value = cfg.root.value ∧
      Path (finalizeLayers fin).layers H cfg.root.depth B 0 0 h0 dd.layers.length := by
  -- the root in the built diagram
  have hroot : ∃ n0, getNode (finalizeLayers fin).layers 0 0 = some n0 ∧ n0.state = cfg.root.state ∧
      n0.value = cfg.root.value ∧ n0.cache = false ∧ n0.deleted = false := by
    by_cases hemp : dd.layers = []
    · obtain ⟨n0, hn0, hs, hv⟩ := hx.bo.inv.root0 hemp
      have hmem : n0 ∈ dd.next := by rw [hn0]; exact List.mem_singleton.mpr rfl
      obtain ⟨_, hc, hd⟩ := hx.bo.inv.baseN n0 hmem
      have h1 := hx.bo.ofN 0 n0 (by rw [hn0]; rfl)
      simp only [hemp, List.length_nil] at h1
      exact ⟨n0, h1, hs, hv, hc, hd⟩
    · obtain ⟨ly, n0, hly, hn0, hs, hv, hc, hd, _⟩ := hx.bo.inv.root1 hemp
      exact ⟨n0, hx.bo.ofL 0 ly 0 n0 hly hn0, hs, hv, hc, hd⟩
  obtain ⟨n0, hn0, hs, hv, hc, hd⟩ := hroot
  obtain ⟨n1, n2, n3, _, _, hn3, hco⟩ := corr_of_L0 cfg (finalizeLayers fin) e hn0
  have hy : HypF cfg H B M dd.layers.length (bkOf cfg.lb (finalize cfg (finalizeLayers fin) e).1.bestExactValue) := by
    refine ⟨hR, hlb, bkOf_ge _ _, hx.hy.B.nonneg, hM0, ?_⟩
    have := Cover.Bd_mono hx.hy.B.nonneg hx.bo.len
    omega
  have hnp := np_all (hx.ff e) hy dd.layers.length 0 0 n3 (by omega) hn3 (by rw [hco.deleted]; exact hd) h0
    (by rw [Nat.add_zero, hco.state, hs]; exact hH0)
  rw [hco.value, hv] at hnp
  rcases hnp with g | g | g
  · exact .inl g
  · right; left
    obtain ⟨l', p', m3, t', v', h', hll, hpp, hm3, _, hcm, hlook, hv't, hw', hH', hxle⟩ := g
    have hlt : 0 < l' := by
      rcases Nat.lt_or_ge 0 l' with h1 | h1
      · exact h1
      · have hl' : l' = 0 := by omega
        subst hl'
        rw [hpp rfl, hn3] at hm3
        cases hm3
        rw [hco.cache, hc] at hcm; cases hcm
    obtain ⟨hu1, hget⟩ := lookup_some hlook
    have hdm := hx.depth e l' p' m3 hm3
    refine ⟨hu1, m3.state, m3.depth, t', v', h', hget, by rw [hdm]; omega, ?_, hv't, by rw [hdm]; exact hH', hxle⟩
    rw [hdm, Nat.add_sub_cancel_left]
    exact hw'
  · right; right
    refine ⟨n0, hn0, hs, hv, ?_⟩
    rw [Nat.sub_zero] at g
    exact g.of_xEq (finalize_layers_xEq cfg (finalizeLayers fin) e).symm


/-- a potential-preserving path that reaches the layer under construction ends on a node of `dd.next` -/
theorem Ctx.path_end (hx : Ctx cfg H B cache p0 fin Live dd) {l p : Nat} {h : Int} {r : Nat}
    (hp : Path (finalizeLayers fin).layers H cfg.root.depth B l p h r) (hlr : l + r = dd.layers.length)
    (n0 : Node S) (hn0 : getNode (finalizeLayers fin).layers l p = some n0) :
    ∃ pt tn, getNode (finalizeLayers fin).layers dd.layers.length pt = some tn ∧ tn ∈ dd.next ∧
      n0.value + h ≤ tn.value := by
  obtain ⟨pt, tn, htn, hv⟩ := hp.terminal n0 hn0
  rw [hlr] at htn
  rcases hx.bo.at_ _ pt tn htn with ⟨ly, hly, _⟩ | ⟨_, hpt⟩
  · have := Cover.lt_of_getElem?_some hly; omega
  · exact ⟨pt, tn, htn, List.mem_of_getElem? hpt, hv⟩

/-- the best value dominates every terminal node -/
theorem Ctx.best_ge (hx : Ctx cfg H B cache p0 fin Live dd) (e : Bool) (tn : Node S) (hmem : tn ∈ dd.next) :
    ∃ bv, (finalize cfg (finalizeLayers fin) e).1.bestValue = some bv ∧ tn.value ≤ bv := by
  have hterm : tn ∈ (finalizeLayers fin).terminals := by rw [hx.bo.terms]; exact hmem
  obtain ⟨bv, hbv, hle⟩ := Cover.maxValue_ge _ tn hterm
  exact ⟨bv, hbv, hle⟩

/-- the best exact value dominates every exact terminal node (every terminal node when an exact best path is claimed) -/
theorem Ctx.bestExact_ge (hx : Ctx cfg H B cache p0 fin Live dd) (e : Bool) (tn : Node S) (hmem : tn ∈ dd.next)
    (hex : e = true ∨ tn.isExact = true) :
    ∃ w, (finalize cfg (finalizeLayers fin) e).1.bestExactValue = some w ∧ tn.value ≤ w := by
  rw [finalize_bestExactValue]
  have hterm : tn ∈ (finalizeLayers fin).terminals := by rw [hx.bo.terms]; exact hmem
  cases e with
  | true =>
    obtain ⟨bv, hbv, hle⟩ := Cover.maxValue_ge _ tn hterm
    exact ⟨bv, by simp only [if_true]; exact hbv, hle⟩
  | false =>
    rcases hex with h | h
    · cases h
    · obtain ⟨bv, hbv, hle⟩ := Cover.maxValue_ge _ tn (List.mem_filter.mpr ⟨hterm, h⟩)
      exact ⟨bv, by simp only [Bool.false_eq_true, if_false]; exact hbv, hle⟩

theorem finalizeLayers_isExactField (dd : DD S K) : (finalizeLayers dd).isExactField = dd.lel.isNone := by
  unfold finalizeLayers
  split <;> rfl

/-- an exact node of the built diagram that starts a potential-preserving path to the terminal layer and sits at a
    position of the cut-set is handed out, with its potential -/
theorem Ctx.cut_handed (hx : Ctx cfg H B cache p0 fin Live dd) (e : Bool)
    (l p : Nat) (n0 : Node S) (h : Int) (r : Nat)
    (hpath : Path (finalizeLayers fin).layers H cfg.root.depth B l p h r) (hlr : l + r = dd.layers.length)
    (hn0 : getNode (finalizeLayers fin).layers l p = some n0) (hex : n0.isExact = true)
    (hcs : (l, p) ∈ (computeCutset cfg.kind (finalizeLayers fin).lel (finalizeLayers fin).layers).2) :
    ∃ c ∈ (finalize cfg (finalizeLayers fin) e).1.cutset,
      (H c.depth c.state).addI c.value = some (h + n0.value) := by
  have hlel : (finalizeLayers fin).lel < (finalizeLayers fin).layers.length := by
    rcases Nat.lt_or_ge (finalizeLayers fin).lel (finalizeLayers fin).layers.length with h | h
    · exact h
    · rw [hx.wf.cutset_nil h] at hcs
      exact absurd hcs List.not_mem_nil
  have hlenB : (finalizeLayers fin).layers.length ≤ cfg.P.nbVars + 2 := by
    have := hx.bo.lenB; have := hx.bo.len; omega
  obtain ⟨n3, hn3, hmk, _⟩ := finalize_good cfg (finalizeLayers fin) e H cfg.root.depth B hx.hy.rel hlel
    (small_of_noClamp hx.hy.B hlenB) l p h r hpath
  obtain ⟨n0', hn0', hs⟩ := (finalize_layers_xEq cfg (finalizeLayers fin) e).getNode_some hn3
  rw [hn0] at hn0'
  cases hn0'
  obtain ⟨e1, e2, _, _, e5, _⟩ := stripB_fields hs
  obtain ⟨pt, tn, _, htmem, _⟩ := hx.path_end hpath hlr n0 hn0
  obtain ⟨bv, hbv, _⟩ := hx.best_ge e tn htmem
  obtain ⟨_, _, _, hdepth⟩ := hx.wf.node _ _ n0 hn0 hex
  refine ⟨subOf cfg (finalize cfg (finalizeLayers fin) e).2 bv n3,
    (finalize_cutset_iff cfg _ e _).2 ⟨bv, (l, p), n3, hbv, by rw [fCs_of_relaxed cfg _ hx.hy.rel]; exact hcs, hn3, hmk, rfl⟩, ?_⟩
  simp only [subOf]
  obtain ⟨n', hn', hH'⟩ := hpath.node
  rw [hn0] at hn'; cases hn'
  rw [← e5, hdepth, ← e1, ← e2, hH']; rfl

/-- **C08 (iv) with cache, on `finalize`**: from a potential-preserving path of the root -/
theorem Ctx.cover_of_path (hx : Ctx cfg H B cache p0 fin Live dd) (e : Bool) (o : Int)
    (n0 : Node S) (h0 : Int) (hn0 : getNode (finalizeLayers fin).layers 0 0 = some n0) (ho : o ≤ n0.value + h0)
    (hpath0 : Path (finalizeLayers fin).layers H cfg.root.depth B 0 0 h0 dd.layers.length)
    (hbe : ∀ be, (finalize cfg (finalizeLayers fin) e).1.bestExactValue = some be → be < o) :
    ∃ c ∈ (finalize cfg (finalizeLayers fin) e).1.cutset, ∃ y, (H c.depth c.state).addI c.value = some y ∧ o ≤ y := by
  have hlenLS : (finalizeLayers fin).layers.length = dd.layers.length + 1 := by
    have := hpath0.len; omega
  -- no exact terminal node reaches `o`
  have noTerm : ∀ pt tn, getNode (finalizeLayers fin).layers dd.layers.length pt = some tn → tn.isExact = true →
      o ≤ tn.value → False := by
    intro pt tn htn hex hv
    rcases hx.bo.at_ _ pt tn htn with ⟨ly, hly, _⟩ | ⟨_, hpt⟩
    · have := Cover.lt_of_getElem?_some hly; omega
    · obtain ⟨w, hw, hle⟩ := hx.bestExact_ge e tn (List.mem_of_getElem? hpt) (.inr hex)
      have := hbe w hw
      omega
  obtain ⟨pt0, tn0, htn0, htmem0, hv0⟩ := hx.path_end hpath0 (Nat.zero_add _) n0 hn0
  have hne : dd.next ≠ [] := List.ne_nil_of_mem htmem0
  have hex0 : n0.isExact = true := hx.wf.exactUpTo 0 0 n0 hn0 (Nat.zero_le _)
  cases hk : cfg.kind with
  | lel =>
    rcases hx.lel_ne hne with ⟨_, hlel⟩ | hlel
    · exfalso
      exact noTerm pt0 tn0 htn0 (hx.wf.exactUpTo _ pt0 tn0 htn0 (by omega)) (by omega)
    · obtain ⟨p', n', h', hn', hpath', hv'⟩ := hpath0.descend n0 hn0 (finalizeLayers fin).lel (by omega)
      rw [Nat.zero_add] at hn' hpath'
      have hex' : n'.isExact = true := hx.wf.exactUpTo _ p' n' hn' (Nat.le_refl _)
      have hcs : ((finalizeLayers fin).lel, p') ∈
          (computeCutset cfg.kind (finalizeLayers fin).lel (finalizeLayers fin).layers).2 := by
        rw [hk]; exact computeCutset_lel_mem _ _ p' n' hn'
      obtain ⟨c, hc, hΦ⟩ := hx.cut_handed e _ p' n' h' _ hpath' (by omega) hn' hex' hcs
      exact ⟨c, hc, _, hΦ, by omega⟩
  | frontier =>
    have hcut : ∀ (l p : Nat) (n : Node S), getNode (finalizeLayers fin).layers l p = some n → n.cutset = false :=
      fun l p n hn => (hx.flags0 l p n hn).1
    rcases hpath0.frontier o n0 hn0 hex0 ho with ⟨pt, tn, htn, hte, htv⟩ |
      ⟨l1, p1, n1, h1, r1, p2, m, e', hp1, hn1, hex1, hv1, hm, hmex, he', hfl, hfp⟩
    · exfalso
      rw [Nat.zero_add] at htn
      exact noTerm pt tn htn hte htv
    · have hcs := computeCutset_frontier_mem (finalizeLayers fin).lel (finalizeLayers fin).layers hcut (l1 + 1) p2 m e' n1
        hm hmex he' (by rw [hfl, hfp]; exact hn1) hex1
      rw [hfl, hfp, ← hk] at hcs
      have hl1 := hp1.len
      obtain ⟨c, hc, hΦ⟩ := hx.cut_handed e l1 p1 n1 h1 r1 hp1 (by omega) hn1 hex1 hcs
      exact ⟨c, hc, _, hΦ, by omega⟩

end

/-- everything known about the diagram built by a relaxed compilation that ends normally -/
theorem compile_ctx (cfg : Cfg S K) (H : Nat → S → EInt) (B : Int) (p0 : List Dec) (cache : Cache S)
    (store : DomStore S K) (polls : Nat) (stopAt : Option Nat)
    (hrel : cfg.ctype = .relaxed) (hdom : cfg.dom = none) (hW : 1 ≤ cfg.width)
    (hP : Potential cfg.P H) (hM : MergeOk cfg.R H) (hAM : Cover.AttMerge cfg.P cfg.R H)
    (hB : NoClamp cfg.P cfg.R cfg.root.value B)
    (hroot : Reach cfg.P cfg.root.depth cfg.root.state cfg.root.value p0)
    (hok : (compile cfg cache store polls stopAt).1 = .ok) (r : Result S)
    (hr : r = (compile cfg cache store polls stopAt).2.1 ∨ (compile cfg cache store polls stopAt).2.2.1 = some r) :
    ∃ (fin : DD S K) (Live : Nat → Nat → Prop) (dd : DD S K) (e : Bool), Ctx cfg H B cache p0 fin Live dd ∧
      r = (finalize cfg (finalizeLayers fin) e).1 := by
  have hy : HypT cfg H B := ⟨hrel, hdom, hW, hP, hM, hAM, hB⟩
  obtain ⟨_, e, he⟩ := compile_results cfg cache store polls stopAt hok r hr
  have hdone := compile_doneT cfg H B hy cache store polls stopAt hok
  have hwf := compile_wf cfg B p0 hB hroot cache store polls stopAt
  have hinv2 := (buildLoop_inv2 cfg B p0 hB stopAt (cfg.P.nbVars + 2) (initDD cfg cache store polls)
    (initDD_inv cfg B p0 hB hroot cache store polls) (initDD_inv2 cfg cache store polls) rfl
    (by simp only [initDD, List.length_nil]; omega)).2
  generalize (buildLoop cfg stopAt (cfg.P.nbVars + 2) (initDD cfg cache store polls)).1 = fin at hdone hwf hinv2 he
  obtain ⟨Live, dd, hbo⟩ := builtOk_of_done cfg H B cache fin hdone
  exact ⟨fin, Live, dd, e, ⟨hy, hbo, hwf, hinv2⟩, he⟩

/-- the root of a compilation whose potential beats `lb`: cut by the cache, or a potential-preserving path -/
theorem compile_root (cfg : Cfg S K) (H : Nat → S → EInt) (B M : Int) (p0 : List Dec) (cache : Cache S)
    {fin : DD S K} {Live : Nat → Nat → Prop} {dd : DD S K}
    (hx : Ctx cfg H B cache p0 fin Live dd) (hR : RubOk cfg.R H) (hlb : cfg.lb < iMax)
    (hM0 : 0 ≤ M) (hMs : M + Cover.Bd B (cfg.P.nbVars + 1) ≤ big) (e : Bool)
    (o : Int) (ho : optOf H cfg.root = some o) (hgt : o > cfg.lb) :
    CacheAlt cfg H B M cache cfg.root.depth o ∨
    ∃ n0 h0, getNode (finalizeLayers fin).layers 0 0 = some n0 ∧ o = n0.value + h0 ∧
      Path (finalizeLayers fin).layers H cfg.root.depth B 0 0 h0 dd.layers.length := by
  unfold optOf at ho
  obtain ⟨h0, hH0, ho0⟩ := addI_some ho
  have hov : o = cfg.root.value + h0 := by omega
  rcases hx.root_np hR hlb M hM0 hMs e h0 hH0 with g | g | ⟨n0, hn0, _, hv, hp⟩
  · omega
  · left; rw [hov]; exact g
  · right; exact ⟨n0, h0, hn0, by rw [hv]; exact hov, hp⟩

/-- **C06 with cache**: the best value of a relaxed diagram bounds the potential of its root, unless the cache cut it -/
theorem cached_relaxed_ub (cfg : Cfg S K) (H : Nat → S → EInt) (B M : Int) (p0 : List Dec) (cache : Cache S)
    (store : DomStore S K) (polls : Nat) (stopAt : Option Nat)
    (hrel : cfg.ctype = .relaxed) (hdom : cfg.dom = none) (hW : 1 ≤ cfg.width)
    (hP : Potential cfg.P H) (hR : RubOk cfg.R H) (hM : MergeOk cfg.R H) (hAM : Cover.AttMerge cfg.P cfg.R H)
    (hB : NoClamp cfg.P cfg.R cfg.root.value B) (hlb : cfg.lb < iMax)
    (hroot : Reach cfg.P cfg.root.depth cfg.root.state cfg.root.value p0)
    (hM0 : 0 ≤ M) (hMs : M + Cover.Bd B (cfg.P.nbVars + 1) ≤ big)
    (hok : (compile cfg cache store polls stopAt).1 = .ok) (r : Result S)
    (hr : r = (compile cfg cache store polls stopAt).2.1 ∨ (compile cfg cache store polls stopAt).2.2.1 = some r)
    (o : Int) (ho : optOf H cfg.root = some o) (hgt : o > cfg.lb) :
    (∃ bv, r.bestValue = some bv ∧ o ≤ bv) ∨ CacheAlt cfg H B M cache cfg.root.depth o := by
  obtain ⟨fin, Live, dd, e, hx, rfl⟩ := compile_ctx cfg H B p0 cache store polls stopAt hrel hdom hW hP hM hAM hB hroot hok r hr
  rcases compile_root cfg H B M p0 cache hx hR hlb hM0 hMs e o ho hgt with g | ⟨n0, h0, hn0, hov, hp⟩
  · exact .inr g
  · left
    obtain ⟨pt, tn, _, htmem, hv⟩ := hx.path_end hp (Nat.zero_add _) n0 hn0
    obtain ⟨bv, hbv, hle⟩ := hx.best_ge e tn htmem
    exact ⟨bv, hbv, by omega⟩

/-- **C07b / C06b with cache**: a relaxed diagram that claims exactness reports an exact value `≥` the potential of its
    root, unless the cache cut it -/
theorem cached_exact (cfg : Cfg S K) (H : Nat → S → EInt) (B M : Int) (p0 : List Dec) (cache : Cache S)
    (store : DomStore S K) (polls : Nat) (stopAt : Option Nat)
    (hrel : cfg.ctype = .relaxed) (hdom : cfg.dom = none) (hW : 1 ≤ cfg.width)
    (hP : Potential cfg.P H) (hR : RubOk cfg.R H) (hM : MergeOk cfg.R H) (hAM : Cover.AttMerge cfg.P cfg.R H)
    (hB : NoClamp cfg.P cfg.R cfg.root.value B) (hlb : cfg.lb < iMax)
    (hroot : Reach cfg.P cfg.root.depth cfg.root.state cfg.root.value p0)
    (hM0 : 0 ≤ M) (hMs : M + Cover.Bd B (cfg.P.nbVars + 1) ≤ big)
    (hok : (compile cfg cache store polls stopAt).1 = .ok) (r : Result S)
    (hr : r = (compile cfg cache store polls stopAt).2.1 ∨ (compile cfg cache store polls stopAt).2.2.1 = some r)
    (hex : r.isExact = true) (o : Int) (ho : optOf H cfg.root = some o) (hgt : o > cfg.lb) :
    (∃ w, r.bestExactValue = some w ∧ o ≤ w) ∨ CacheAlt cfg H B M cache cfg.root.depth o := by
  obtain ⟨fin, Live, dd, e, hx, rfl⟩ := compile_ctx cfg H B p0 cache store polls stopAt hrel hdom hW hP hM hAM hB hroot hok r hr
  rcases compile_root cfg H B M p0 cache hx hR hlb hM0 hMs e o ho hgt with g | ⟨n0, h0, hn0, hov, hp⟩
  · exact .inr g
  · left
    obtain ⟨pt, tn, _, htmem, hv⟩ := hx.path_end hp (Nat.zero_add _) n0 hn0
    have hex' : ((finalizeLayers fin).isExactField || e) = true := hex
    have hcase : e = true ∨ tn.isExact = true := by
      cases he : e with
      | true => exact .inl rfl
      | false =>
        right
        rw [he, Bool.or_false, finalizeLayers_isExactField] at hex'
        have hnone : fin.lel = none := by
          cases hl : fin.lel with
          | none => rfl
          | some k => rw [hl] at hex'; cases hex'
        have hsame := hx.bo.same (List.ne_nil_of_mem htmem)
        exact (hx.inv2.lelNone hnone).2 tn (by rw [hsame]; exact htmem)
    obtain ⟨w, hw, hle⟩ := hx.bestExact_ge e tn htmem hcase
    exact ⟨w, hw, by omega⟩

/-- **C08 (iv) with cache**: if the potential of the root beats `lb` and every reported exact value, a sub-problem of the
    cut-set has a potential at least as good, unless the cache cut the diagram -/
theorem cached_cover (cfg : Cfg S K) (H : Nat → S → EInt) (B M : Int) (p0 : List Dec) (cache : Cache S)
    (store : DomStore S K) (polls : Nat) (stopAt : Option Nat)
    (hrel : cfg.ctype = .relaxed) (hdom : cfg.dom = none) (hW : 1 ≤ cfg.width)
    (hP : Potential cfg.P H) (hR : RubOk cfg.R H) (hM : MergeOk cfg.R H) (hAM : Cover.AttMerge cfg.P cfg.R H)
    (hB : NoClamp cfg.P cfg.R cfg.root.value B) (hlb : cfg.lb < iMax)
    (hroot : Reach cfg.P cfg.root.depth cfg.root.state cfg.root.value p0)
    (hM0 : 0 ≤ M) (hMs : M + Cover.Bd B (cfg.P.nbVars + 1) ≤ big)
    (hok : (compile cfg cache store polls stopAt).1 = .ok) (r : Result S)
    (hr : r = (compile cfg cache store polls stopAt).2.1 ∨ (compile cfg cache store polls stopAt).2.2.1 = some r)
    (o : Int) (ho : optOf H cfg.root = some o) (hgt : o > cfg.lb)
    (hbe : ∀ be, r.bestExactValue = some be → be < o) :
    (∃ c ∈ r.cutset, ∃ y, (H c.depth c.state).addI c.value = some y ∧ o ≤ y) ∨
    CacheAlt cfg H B M cache cfg.root.depth o := by
  obtain ⟨fin, Live, dd, e, hx, rfl⟩ := compile_ctx cfg H B p0 cache store polls stopAt hrel hdom hW hP hM hAM hB hroot hok r hr
  rcases compile_root cfg H B M p0 cache hx hR hlb hM0 hMs e o ho hgt with g | ⟨n0, h0, hn0, hov, hp⟩
  · exact .inr g
  · exact .inl (hx.cover_of_path e o n0 h0 hn0 (by omega) hp hbe)

end Ddo.Theta

#print axioms Ddo.Theta.Ctx.root_np
#print axioms Ddo.Theta.cached_relaxed_ub
#print axioms Ddo.Theta.cached_exact
#print axioms Ddo.Theta.cached_cover
