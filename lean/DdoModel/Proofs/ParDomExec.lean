import DdoModel.Proofs.ParDomLSysDefs
/-! # The layer-interleaved parallel system with the shared dominance checker: a deterministic scheduler and an evaluated run

* `nextL`: the next step of worker `i` of `LSys`, as a function (a critical section of `ParSys` through `ParClosed.next`, one
  layer of its compilation on the shared store, or the end of the loop of its compilation); `nextL_step`: it only takes steps
  of `LStep`;
* `runSchedL` / `runSchedL_run`: the run along a list of worker indices;
* `Kp2`: the knapsack instance with 2 workers: an evaluated run on which both workers are inside compilations at the same
  time, their layers interleave on the shared store, and which ends with `(true, some 6)`. -/
set_option linter.unusedSectionVars false
set_option linter.unusedVariables false
namespace Ddo.ParDom
open Ddo Ddo.Truth Ddo.Closed Ddo.ParSys Ddo.ParClosed Ddo.C10
open Ddo.C01 (SolverCfg WellFormed toOut SolOf)
variable {S K : Type} [DecidableEq S] [DecidableEq K]

/-! ## 1. the sections of `ParClosed.next` that are not compilations are steps under any contracts -/

/-- a section of `ParClosed.next` at a worker that is not about to compile is a step of `ParSys` whatever the contracts -/
theorem next_step_nc {sv : SolverCfg S} {okR okX : SubP S → Int → DDOut S → Prop} {s t : Sys S} {i : Nat}
    (h : ParClosed.next sv s i = some t)
    (hR : ∀ n lb, s.ws[i]? ≠ some (WSt.compR n lb)) (hX : ∀ n lb, s.ws[i]? ≠ some (WSt.compX n lb)) :
    Step sv.dedup okR okX s t := by
  unfold ParClosed.next at h
  split at h
  · cases h
  · next hw =>
    split at h
    · next ha => injection h with h; subst h; exact .gwAborted s i hw ha
    · next ha =>
      have ha : s.crit.base.abort = false := by simpa using ha
      split at h
      · next hp =>
        have hf := popMax_none hp
        split at h
        · next ho => injection h with h; subst h; exact .gwComplete s i hw ha ho hf
        · next ho => injection h with h; subst h; exact .gwWait s i hw ha ho hf
      · next N rest hp =>
        have hpm := popMax_popMax hp
        split at h
        · next hle =>
          injection h with h; subst h
          refine .gwStarve s i N rest _ 1 hw ha hpm ?_
          rw [popLoop_single]
          exact if_pos hle
        · next hgt =>
          have hl : popLoop (setFringe s.crit rest) [(N, true)] 0 = (setFringe s.crit rest, some (some N), 1) := by
            rw [popLoop_single]; exact if_neg hgt
          split at h
          · next c'' ht => injection h with h; subst h; exact .gwItem s i N rest _ N 1 c'' hw ha hpm hl ht
          · cases h
  · cases h
  · cases h
  · cases h
  · next n hw => injection h with h; subst h; exact .readLbR s i n hw
  · next n lb hw => exact absurd hw (hR n lb)
  · next n lb o hw => injection h with h; subst h; exact .updateR s i n lb o hw
  · next n hw => injection h with h; subst h; exact .readLbX s i n hw
  · next n lb hw => exact absurd hw (hX n lb)
  · next n lb o hw => injection h with h; subst h; exact .updateX s i n lb o hw
  · next n lb o hw => injection h with h; subst h; exact .enqueue s i n lb o hw
  · next n hw => injection h with h; subst h; exact .abort s i n _ hw (topOf_abortTop _)
  · next n te hw =>
    split at h
    · next c' hn => injection h with h; subst h; exact .notify s i n te c' hw hn
    · cases h

/-- no worker has just been cut off, as a test -/
def noAbortB (t : Sys S) : Bool := t.ws.all (fun w => match w with | .abortS _ => false | _ => true)

theorem noAbortB_sound {t : Sys S} (h : noAbortB t = true) : NoAbortS t := by
  intro w hw n e
  have := List.all_eq_true.mp h w hw
  subst e
  simp at this

/-! ## 2. the scheduler -/

/-- the state after the loop of the compilation of worker `i` (in `w`) has ended with the diagram `fin` -/
def finishL (s : LSys S K) (i : Nat) (w : WSt S) (cfg : Cfg S K) (fin : DD S K) : LSys S K :=
  ⟨{ crit := s.sys.crit, ws := s.sys.ws.set i (afterComp (toOut (resultOf cfg fin)) w) }, s.store, s.prog.set i none⟩

/-- **the next step of worker `i`**, as a function: a worker inside a compilation performs ONE layer of it on the shared store
    as it is now (or ends its loop); every other worker performs its next critical section (`ParClosed.next`).  `none`: the
    worker cannot move (parked, gone, absent) or the step panics. -/
def nextL (dv : DSolverCfg S K) (s : LSys S K) (i : Nat) : Option (LSys S K) :=
  match s.sys.ws[i]? with
  | none => none
  | some w =>
    match cfgOf dv w with
    | some cfg =>
      match s.prog[i]? with
      | none => none
      | some pr =>
        match cfg.P.nextVar (ddOf dv cfg pr).depth ((ddOf dv cfg pr).next.map (·.state)) with
        | none =>
          some (finishL s i w cfg { ddOf dv cfg pr with
            log := Call.nextVar (ddOf dv cfg pr).depth ((ddOf dv cfg pr).next.map (·.state)) none :: (ddOf dv cfg pr).log })
        | some var =>
          match stepLayer cfg (tick (withStore (ddOf dv cfg pr) s.store) var) var with
          | (some dd', .ok) => some ⟨s.sys, dd'.store, s.prog.set i (some dd')⟩
          | (some fin, .cutoff) => some (finishL s i w cfg fin)
          | _ => none
    | none =>
      match ParClosed.next dv.sv s.sys i with
      | none => none
      | some t => if noAbortB t then some ⟨t, s.store, s.prog⟩ else none

/-- **the scheduler only takes steps of the system** -/
theorem nextL_step {dv : DSolverCfg S K} {s t : LSys S K} {i : Nat} (h : nextL dv s i = some t) : LStep dv s t := by
  unfold nextL at h
  split at h
  · cases h
  · next w hw =>
    split at h
    · next cfg hc =>
      split at h
      · cases h
      · next pr hp =>
        split at h
        · next hnv =>
          injection h with h; subst h
          exact .finish s i w cfg pr _ hw hc hp (Or.inl ⟨hnv, rfl⟩)
        · next var hnv =>
          split at h
          · next dd' hst =>
            injection h with h; subst h
            exact .layer s i w cfg pr var dd' hw hc hp hnv hst
          · next fin hst =>
            injection h with h; subst h
            exact .finish s i w cfg pr fin hw hc hp (Or.inr ⟨var, hnv, hst⟩)
          · cases h
    · next hc =>
      split at h
      · cases h
      · next t' hn =>
        split at h
        · next hna =>
          injection h with h; subst h
          refine .sec s t' (next_step_nc hn ?_ ?_) (noAbortB_sound hna)
          · intro n lb e
            rw [hw] at e; injection e with e; rw [e] at hc
            cases hc
          · intro n lb e
            rw [hw] at e; injection e with e; rw [e] at hc
            cases hc
        · cases h

/-- the scheduler run along a list of worker indices (a worker that cannot move is skipped) -/
def runSchedL (dv : DSolverCfg S K) : LSys S K → List Nat → LSys S K
  | s, [] => s
  | s, i :: is =>
    match nextL dv s i with
    | some t => runSchedL dv t is
    | none => runSchedL dv s is

theorem lrun_head {dv : DSolverCfg S K} {s t u : LSys S K} (h : LStep dv s t) (r : LRun dv t u) : LRun dv s u := by
  induction r with
  | refl => exact LRun.tail (LRun.refl _) h
  | tail _ hst ih => exact LRun.tail ih hst

theorem lrun_trans {dv : DSolverCfg S K} {s t u : LSys S K} (h1 : LRun dv s t) (h2 : LRun dv t u) : LRun dv s u := by
  induction h2 with
  | refl => exact h1
  | tail _ hst ih => exact LRun.tail ih hst

theorem runSchedL_run' (dv : DSolverCfg S K) : ∀ (is : List Nat) (s : LSys S K), LRun dv s (runSchedL dv s is) := by
  intro is
  induction is with
  | nil => intro s; exact LRun.refl s
  | cons i is ih =>
    intro s
    unfold runSchedL
    cases h : nextL dv s i with
    | none => exact ih s
    | some t => exact lrun_head (nextL_step h) (ih t)

theorem runSchedL_run {dv : DSolverCfg S K} {s : LSys S K} {is : List Nat} : LRun dv s (runSchedL dv s is) :=
  runSchedL_run' dv is s

/-! ## 3. observations -/

/-- the number of entries of the shared store -/
def storeSize (st : DomStore S K) : Nat :=
  st.layers.foldl (fun a l => l.foldl (fun b kb => b + kb.2.length) a) 0

/-- what is observed of a state: `((tags, ongoing, fringe length), bestLb, per worker [ndom, number of layers] of the diagram
    in progress ([] = none), number of entries of the shared store)` -/
def obsL (t : LSys S K) : (List Nat × Nat × Nat) × (Int × List (List Nat) × Nat) :=
  ((t.sys.ws.map tag, t.sys.crit.ongoing, t.sys.crit.base.fringe.length),
   t.sys.crit.base.bestLb,
   t.prog.map (fun pr => match pr with | none => [] | some dd => [dd.ndom, dd.layers.length]),
   storeSize t.store)

def allDoneB (s : Sys S) : Bool := s.ws.all (fun w => tag w == 2)

theorem allDoneB_sound {s : Sys S} (h : allDoneB s = true) : AllDone s := by
  intro w hw
  have := List.all_eq_true.mp h w hw
  exact tag_done (by simpa using this)

end Ddo.ParDom

/-! ## 4. the knapsack instance of C10 (`Kp`, width 1, last exact layer), two workers: a complete evaluated run

On `Kp` (widths 1, 2, either cut-set kind, as evaluated) the fringe holds at most one node at a time (the first restricted
compilation already finds the optimum 6), so the two workers never compile at the same time: worker 0 processes the root (15
steps: `get_workload`, read, 3 layers + end of the restricted compilation, update, read, 3 layers + end of the relaxed
compilation, update, enqueue, notify), then worker 1 the node of the cut-set.  The overlap is shown on `Kq` below. -/
namespace Ddo.ParDom.Kp2
open Ddo Ddo.Truth Ddo.Closed Ddo.ParSys Ddo.ParClosed Ddo.C10 Ddo.ParDom

def dv : DSolverCfg Int Unit := Kp.dv 1 false .lel
def s0 : LSys Int Unit := LSys.init dv 2

def sched : List Nat := List.replicate 15 0 ++ [1, 0] ++ List.replicate 11 1 ++ [0, 1]
def at_ (k : Nat) : LSys Int Unit := runSchedL dv s0 (sched.take k)

theorem reach (k : Nat) : LRun dv s0 (at_ k) := runSchedL_run

set_option maxRecDepth 100000 in
/-- worker 0 is inside the relaxed compilation of the root (3 layers built, one `dominated` verdict: an entry of its own
    restricted compilation), worker 1 has not moved yet -/
theorem root_obs : obsL (at_ 11) = (([8, 0], 1, 0), 6, [[1, 3], []], 6) := by decide

set_option maxRecDepth 100000 in
/-- the root is done: one node in the fringe, both workers idle, the incumbent is 6 -/
theorem handover_obs : obsL (at_ 15) = (([0, 0], 0, 1), 6, [[], []], 6) := by decide

set_option maxRecDepth 100000 in
theorem end_obs : obsL (at_ 30) = (([2, 2], 0, 0), 6, [[], []], 6) ∧ allDoneB (at_ 30).sys = true ∧
    (at_ 30).sys.crit.base.completion = (true, some 6) := by decide

/-- **non-vacuity**: a run of the layer-interleaved system with the shared checker, two workers, that ends (`AllDone`) with
    `is_exact = true`, `best_value = Some(6)` -/
theorem complete_run :
    ∃ t, LRun (Kp.dv 1 false .lel) (LSys.init (Kp.dv 1 false .lel) 2) t ∧ AllDone t.sys ∧
      t.sys.crit.base.completion = (true, some 6) :=
  ⟨at_ 30, reach 30, allDoneB_sound end_obs.2.1, end_obs.2.2⟩

end Ddo.ParDom.Kp2

/-! ## 5. a knapsack on which the two workers compile AT THE SAME TIME and one prunes a node of the other

Capacity 6, items (weight, profit) = (2,3), (4,6), (1,3), (1,2), optimum 11; the rule of `Kp`; width 1, last exact layer.  After
the root (17 steps of worker 0) the fringe holds the two nodes of depth 1; both workers take one and read the incumbent 9: both
are in `compR`.  Their layers then alternate on the shared store.  If the layer of depth 3 of worker 1 runs BEFORE the layer of
depth 3 of worker 0 (`schedB`), the latter receives a `dominated` verdict (`ndom` 0 → 1) from the entry the former has just
inserted; in the other order (`schedA`) it receives none.  (Evaluation only: no well-formedness proof of this instance is
needed for a run of `LStep`.) -/
namespace Ddo.ParDom.Kq
open Ddo Ddo.Truth Ddo.Closed Ddo.ParSys Ddo.ParClosed Ddo.C10 Ddo.ParDom

def items : List (Int × Int) := [(2, 3), (4, 6), (1, 3), (1, 2)]
def prob : Problem Int :=
  { nbVars := 4, init := 6, initVal := 0,
    trans := fun s d => if d.val = 1 then s - (items.getD d.var (0, 0)).1 else s,
    cost := fun _ _ d => if d.val = 1 then (items.getD d.var (0, 0)).2 else 0,
    nextVar := fun k _ => if k < 4 then some k else none,
    domain := fun x s => if (items.getD x (0, 0)).1 ≤ s then [1, 0] else [0],
    impacted := fun _ _ => true }
def rlx : Relax Int := { merge := Kp.maxL, relax := fun _ _ _ _ c => c, rub := fun _ => 14 }
def dv : DSolverCfg Int Unit :=
  ⟨{ P := prob, R := rlx, rank := ⟨fun a b => icmp a b⟩, width := fun _ => 1, kind := .lel, dedup := false }, Kp.rule⟩
def s0 : LSys Int Unit := LSys.init dv 2

/-- worker 0 processes the root alone (17 steps), then both take a node and read the incumbent -/
def pre : List Nat := List.replicate 17 0 ++ [0, 1, 0, 1]
/-- from there strict alternation, worker 1 first -/
def alt1 (n : Nat) : List Nat := (List.range n).map (fun k => (k + 1) % 2)
/-- from there strict alternation, worker 0 first -/
def alt0 (n : Nat) : List Nat := (List.range n).map (fun k => k % 2)
def atB (k : Nat) : LSys Int Unit := runSchedL dv s0 (pre ++ alt1 k)
def atA (k : Nat) : LSys Int Unit := runSchedL dv s0 (pre ++ alt0 k)

theorem reachB (k : Nat) : LRun dv s0 (atB k) := runSchedL_run
theorem reachA (k : Nat) : LRun dv s0 (atA k) := runSchedL_run

set_option maxRecDepth 100000 in
/-- the root is done: two nodes in the fringe, both workers idle, incumbent 9, 8 entries in the shared store -/
theorem fork_obs : obsL (runSchedL dv s0 (List.replicate 17 0)) = (([0, 0], 0, 2), 9, [[], []], 8) := by decide

set_option maxRecDepth 100000 in
/-- both workers are about to start their restricted compilations -/
theorem both_obs : obsL (atB 0) = (([5, 5], 2, 0), 9, [[], []], 8) := by decide

set_option maxRecDepth 100000 in
/-- **the layers interleave and worker 1 prunes a node of worker 0**: both workers are inside their restricted compilations
    (`compR`, tag 5); after worker 1's third layer (`atB 5`: diagrams of 2 and 3 layers, 9 entries: it has inserted one) worker
    0's third layer (`atB 6`) receives one `dominated` verdict -/
theorem mid_obs :
    obsL (atB 4) = (([5, 5], 2, 0), 9, [[0, 2], [0, 2]], 8) ∧
    obsL (atB 5) = (([5, 5], 2, 0), 9, [[0, 2], [0, 3]], 9) ∧
    obsL (atB 6) = (([5, 5], 2, 0), 9, [[1, 3], [0, 3]], 9) := by decide

set_option maxRecDepth 100000 in
/-- in the other order the same layer of worker 0 runs before worker 1's entry is there: no verdict -/
theorem mid_obs_other :
    obsL (atA 4) = (([5, 5], 2, 0), 9, [[0, 2], [0, 2]], 8) ∧
    obsL (atA 5) = (([5, 5], 2, 0), 9, [[0, 3], [0, 2]], 8) ∧
    obsL (atA 6) = (([5, 5], 2, 0), 9, [[0, 3], [0, 3]], 9) := by decide

set_option maxRecDepth 100000 in
/-- the interleaved run ends with the optimum 11 -/
theorem end_obs : obsL (atB 27) = (([2, 2], 0, 0), 11, [[], []], 11) ∧ allDoneB (atB 27).sys = true ∧
    (atB 27).sys.crit.base.completion = (true, some 11) := by decide

theorem complete_run : ∃ t, LRun dv (LSys.init dv 2) t ∧ AllDone t.sys ∧ t.sys.crit.base.completion = (true, some 11) :=
  ⟨atB 27, reachB 27, allDoneB_sound end_obs.2.1, end_obs.2.2⟩

set_option maxRecDepth 100000 in
/-- the moment of `mid_obs` is reachable: a state with BOTH workers inside compilations whose diagrams are both under way -/
theorem overlap_run : ∃ t, LRun dv (LSys.init dv 2) t ∧ t.sys.ws.map tag = [5, 5] ∧
    t.prog.map (fun pr => pr.isSome) = [true, true] :=
  ⟨atB 6, reachB 6, by decide, by decide⟩

end Ddo.ParDom.Kq

#print axioms Ddo.ParDom.nextL_step
#print axioms Ddo.ParDom.runSchedL_run
#print axioms Ddo.ParDom.Kp2.complete_run
#print axioms Ddo.ParDom.Kq.mid_obs
#print axioms Ddo.ParDom.Kq.complete_run
