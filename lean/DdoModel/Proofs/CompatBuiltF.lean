import DdoModel.Proofs.CompatBuiltB0
/-! C10e — the two filters of a joint layer step: `sqpostJ_fc` (`_filter_with_cache`, = `Ddo.Theta.sqpostT_fc` for `TInvJ`) and
`sqpostJ_drop` (`_filter_with_dominance`, from a position-wise description of what it does). -/
set_option linter.unusedSectionVars false
set_option linter.unusedVariables false
namespace Ddo.C10d
open Ddo Ddo.C01 Ddo.Closed Ddo.C09 Ddo.C10 Ddo.C10c Ddo.Truth Ddo.Theta Ddo.Bounds
variable {S K : Type} [DecidableEq S] [DecidableEq K]

theorem sqpostJ_fc (cfg : Cfg S K) (H : Nat → S → EInt) (B : Int) (cache : Cache S) (O : Int) (Live Drop : Nat → Nat → Prop)
    (dd : DD S K) (var : Nat) (hy : HypJ cfg H B) (hnv : cfg.P.nextVar dd.depth (dd.next.map (·.state)) = some var)
    (hI : TInvJ cfg H B cache O Live Drop dd) (layer : List (Node S)) (cur : List Nat) (hfc : FcDesc cfg cache dd layer cur) :
    SqPostJ cfg H B cache O Live dd var (fun _ => False) layer cur ∧ SqPre cfg dd layer cur ∧ ∀ n ∈ layer, n.rub = iMax := by
  obtain ⟨g, keep, hlay, hcur, hnd, hg, hfirst⟩ := hfc
  have hget : ∀ (q : Nat) n, layer[q]? = some n → ∃ m, dd.next[q]? = some m ∧ n = g m := by
    intro q n hn
    rw [hlay, List.getElem?_map] at hn
    cases h1 : dd.next[q]? with
    | none => rw [h1] at hn; cases hn
    | some m =>
      rw [h1] at hn
      simp only [Option.map_some, Option.some.injEq] at hn
      exact ⟨m, rfl, hn.symm⟩
  have hmem : ∀ n ∈ layer, ∃ m ∈ dd.next, n = g m := by
    intro n hn
    obtain ⟨q, hq⟩ := List.mem_iff_getElem?.mp hn
    obtain ⟨m, hm, he⟩ := hget q n hq
    exact ⟨m, List.mem_of_getElem? hm, he⟩
  have hsame : ∀ m, (g m).state = m.state ∧ (g m).value = m.value ∧ (g m).inb = m.inb ∧ (g m).depth = m.depth ∧
      (g m).cutset = m.cutset ∧ (g m).above = m.above ∧ (g m).deleted = m.deleted ∧ (g m).rub = m.rub := by
    intro m
    rcases hg m with ⟨_, h⟩ | ⟨_, t, _, _, h⟩
    · rw [h]; exact ⟨rfl, rfl, rfl, rfl, rfl, rfl, rfl, rfl⟩
    · rw [h]; exact ⟨rfl, rfl, rfl, rfl, rfl, rfl, rfl, rfl⟩
  have hlen : layer.length = dd.next.length := by rw [hlay, List.length_map]
  refine ⟨⟨?_, ?_, ?_, ?_, ?_, ?_, ?_, ?_, ?_⟩, ⟨hnd, ?_, ?_, ?_⟩, ?_⟩
  · -- att
    intro q _ n hn h1 hH1
    obtain ⟨m, hm, rfl⟩ := hget q n hn
    rw [(hsame m).1] at hH1 ⊢
    exact hy.att dd.depth _ var m.state h1 hnv (List.mem_map_of_mem (List.mem_of_getElem? hm)) hH1
  · -- rng
    intro n hn
    obtain ⟨m, hm, rfl⟩ := hmem n hn
    rw [(hsame m).2.1]; exact hI.rngN m hm
  · -- base
    intro n hn
    obtain ⟨m, hm, rfl⟩ := hmem n hn
    obtain ⟨hb, hc, hd⟩ := hI.baseN m hm
    obtain ⟨s1, s2, s3, s4, s5, s6, s7, _⟩ := hsame m
    exact ⟨by rw [s4]; exact hb.depth, by rw [s5]; exact hb.cutset, by rw [s6]; exact hb.above,
      by rw [s3]; exact hb.arcs, fun _ h => absurd True.intro h⟩
  · -- thN
    intro q n hn hcn _
    obtain ⟨m, hm, rfl⟩ := hget q n hn
    obtain ⟨hb, hc, hd⟩ := hI.baseN m (List.mem_of_getElem? hm)
    rcases hg m with ⟨_, h⟩ | ⟨_, t, _, _, h⟩
    · rw [h]; exact hb.thetaNone hc (fun h => h)
    · rw [h] at hcn; cases hcn
  · -- cls
    intro q n hn
    obtain ⟨m, hm, rfl⟩ := hget q n hn
    obtain ⟨hb, hc, hd⟩ := hI.baseN m (List.mem_of_getElem? hm)
    rcases hg m with ⟨hk, h⟩ | ⟨hk, t, ht, hv, h⟩
    · have hq : q ∈ cur := (hcur q).mpr ⟨m, hm, hk⟩
      rw [h]
      exact ⟨fun h' => (by rw [hc] at h'; cases h'), fun _ _ _ => hq, fun _ => ⟨hc, hd, fun h => h⟩, fun h => absurd h id⟩
    · have hq : q ∉ cur := by
        intro hq
        obtain ⟨m', hm', hk'⟩ := (hcur q).mp hq
        rw [hm] at hm'; cases hm'
        rw [hk] at hk'; cases hk'
      rw [h]
      exact ⟨fun _ => ⟨hd, t, ht, rfl, hv⟩, fun h' => (by cases h'), fun h' => absurd h' hq, fun h => absurd h id⟩
  · -- drLt
    intro q h; exact absurd h id
  · -- step
    intro l p ly n hl hly hlive hn htest h hH
    obtain ⟨p', m, e, h', hm, _, he, r1, r2, r3, r4, r5, r6⟩ := hI.stepN l p ly n hl hly hlive hn htest h hH
    obtain ⟨s1, s2, s3, _⟩ := hsame m
    have hm' : layer[p']? = some (g m) := by rw [hlay, List.getElem?_map, hm]; rfl
    refine ⟨p', g m, e, h', hm', ?_, by rw [s3]; exact he, r1, r2, r3, by rw [s1]; exact r4, r5, by rw [s2]; exact r6⟩
    rcases hg m with ⟨hk, _⟩ | ⟨_, t, _, _, h2⟩
    · exact .inl ((hcur p').mpr ⟨m, hm, hk⟩)
    · right; left; rw [h2]
  · -- first
    intro hemp n hn
    obtain ⟨m, hm, rfl⟩ := hmem n hn
    rw [hfirst hemp m]
    exact (hI.baseN m hm).2.1
  · -- root
    intro hemp
    obtain ⟨n0, hn0, hs0, hv0⟩ := hI.root0 hemp
    have h0 : dd.next[0]? = some n0 := by rw [hn0]; rfl
    have hk : keep n0 = true := by
      rcases hg n0 with ⟨hk, _⟩ | ⟨_, t, _, _, h2⟩
      · exact hk
      · exfalso
        have hc := (hI.baseN n0 (List.mem_of_getElem? h0)).2.1
        have h3 := congrArg Node.cache h2
        rw [hfirst hemp n0, hc] at h3
        cases h3
    refine ⟨n0, ?_, hs0, hv0, .inl ((hcur 0).mpr ⟨n0, h0, hk⟩)⟩
    rw [hlay, List.getElem?_map, h0, Option.map_some, hfirst hemp n0]
  · -- lt
    intro p hp
    obtain ⟨n, hn, _⟩ := (hcur p).mp hp
    rw [hlen]; exact Cover.lt_of_getElem?_some hn
  · -- states
    intro u hu
    obtain ⟨m, hm, rfl⟩ := hmem u hu
    rw [(hsame m).1]; exact List.mem_map_of_mem hm
  · -- attL
    intro hne q _ u hu
    obtain ⟨m, hm, rfl⟩ := hget q u hu
    rw [(hsame m).2.2.1]
    exact hI.att hne m (List.mem_of_getElem? hm)
  · -- rub
    intro n hn
    obtain ⟨m, hm, rfl⟩ := hmem n hn
    rw [(hsame m).2.2.2.2.2.2.2]; exact hI.rubN m hm

/-- position-wise description of `_filter_with_dominance` on `(layer, cur)` with result `(layer2, cur2)`, as the invariant needs
    it: kept and unprocessed positions are untouched; a dropped position holds the same node with `theta := some thr`, exact,
    and neither `(state, value)` nor any `(state, v)`, `v ≤ thr`, is hot for `H` at the level `O` -/
structure FdDesc (H : Nat → S → EInt) (O : Int) (k : Nat) (layer layer2 : List (Node S)) (cur cur2 : List Nat) : Prop where
  len : layer2.length = layer.length
  sub : ∀ p ∈ cur2, p ∈ cur
  nodup : cur2.Nodup
  same : ∀ p, (p ∈ cur2 ∨ p ∉ cur) → layer2[p]? = layer[p]?
  drop : ∀ p ∈ cur, p ∉ cur2 → ∃ n thr, layer[p]? = some n ∧ layer2[p]? = some { n with theta := some thr } ∧
    n.isExact = true ∧ (∀ h, H k n.state = some h → n.value + h ≤ O) ∧ DomOkAt H O k n.state thr

theorem sqpostJ_drop (cfg : Cfg S K) (H : Nat → S → EInt) (B : Int) (cache : Cache S) (O : Int) (Live : Nat → Nat → Prop)
    (dd : DD S K) (var : Nat) (layer layer2 : List (Node S)) (cur cur2 : List Nat)
    (hsq : SqPostJ cfg H B cache O Live dd var (fun _ => False) layer cur) (hpre : SqPre cfg dd layer cur)
    (hrub : ∀ n ∈ layer, n.rub = iMax) (hfd : FdDesc H O dd.depth layer layer2 cur cur2) :
    SqPostJ cfg H B cache O Live dd var (fun q => q ∈ cur ∧ q ∉ cur2) layer2 cur2 ∧ SqPre cfg dd layer2 cur2 := by
  -- every node of `layer2` comes from the node of `layer` at the same position
  have hget : ∀ (q : Nat) n2, layer2[q]? = some n2 → ∃ n, layer[q]? = some n ∧
      ((n2 = n ∧ ¬ (q ∈ cur ∧ q ∉ cur2)) ∨ ((q ∈ cur ∧ q ∉ cur2) ∧ ∃ thr, n2 = { n with theta := some thr } ∧ n.isExact = true ∧
        (∀ h, H dd.depth n.state = some h → n.value + h ≤ O) ∧ DomOkAt H O dd.depth n.state thr)) := by
    intro q n2 hn2
    by_cases hd : q ∈ cur ∧ q ∉ cur2
    · obtain ⟨n, thr, h1, h2, h3, h4, h5⟩ := hfd.drop q hd.1 hd.2
      rw [hn2] at h2; cases h2
      exact ⟨n, h1, .inr ⟨hd, thr, rfl, h3, h4, h5⟩⟩
    · have : q ∈ cur2 ∨ q ∉ cur := by
        by_cases h1 : q ∈ cur
        · left; exact Classical.byContradiction (fun h2 => hd ⟨h1, h2⟩)
        · exact .inr h1
      rw [hfd.same q this] at hn2
      exact ⟨n2, hn2, .inl ⟨rfl, hd⟩⟩
  have hget' : ∀ (q : Nat) n, layer[q]? = some n → ∃ n2, layer2[q]? = some n2 := by
    intro q n hn
    have := Cover.lt_of_getElem?_some hn
    rw [← hfd.len] at this
    exact ⟨_, List.getElem?_eq_getElem this⟩
  have hflds : ∀ (q : Nat) n2, layer2[q]? = some n2 → ∃ n, layer[q]? = some n ∧ n2.state = n.state ∧ n2.value = n.value ∧
      n2.inb = n.inb ∧ n2.cache = n.cache ∧ n2.deleted = n.deleted ∧ n2.depth = n.depth ∧ n2.cutset = n.cutset ∧
      n2.above = n.above ∧ n2.rub = n.rub ∧ n2.isExact = n.isExact := by
    intro q n2 hn2
    obtain ⟨n, hn, h⟩ := hget q n2 hn2
    refine ⟨n, hn, ?_⟩
    rcases h with ⟨rfl, _⟩ | ⟨_, thr, rfl, _⟩
    · exact ⟨rfl, rfl, rfl, rfl, rfl, rfl, rfl, rfl, rfl, rfl⟩
    · exact ⟨rfl, rfl, rfl, rfl, rfl, rfl, rfl, rfl, rfl, rfl⟩
  have hmem : ∀ n2 ∈ layer2, ∃ n ∈ layer, n2.state = n.state ∧ n2.value = n.value ∧
      n2.inb = n.inb ∧ n2.cache = n.cache ∧ n2.deleted = n.deleted ∧ n2.depth = n.depth ∧ n2.cutset = n.cutset ∧
      n2.above = n.above ∧ n2.rub = n.rub ∧ n2.isExact = n.isExact := by
    intro n2 hn2
    obtain ⟨q, hq⟩ := List.mem_iff_getElem?.mp hn2
    obtain ⟨n, hn, h⟩ := hflds q n2 hq
    exact ⟨n, List.mem_of_getElem? hn, h⟩
  refine ⟨⟨?_, ?_, ?_, ?_, ?_, ?_, ?_, ?_, ?_⟩, ⟨hfd.nodup, ?_, ?_, ?_⟩⟩
  · -- att
    intro q hq n hn
    rw [hfd.same q (.inl hq)] at hn
    exact hsq.att q (hfd.sub q hq) n hn
  · -- rng
    intro n2 hn2
    obtain ⟨n, hn, _, e, _⟩ := hmem n2 hn2
    rw [e]; exact hsq.rng n hn
  · -- base
    intro n2 hn2
    obtain ⟨n, hn, _, _, e3, _, _, e6, e7, e8, _⟩ := hmem n2 hn2
    have hb := hsq.base n hn
    exact ⟨by rw [e6]; exact hb.depth, by rw [e7]; exact hb.cutset, by rw [e8]; exact hb.above, by rw [e3]; exact hb.arcs,
      fun _ h => absurd True.intro h⟩
  · -- thN
    intro q n2 hn2 hc hnd
    obtain ⟨n, hn, h⟩ := hget q n2 hn2
    rcases h with ⟨rfl, _⟩ | ⟨hd, _⟩
    · exact hsq.thN q n2 hn hc (fun h => h)
    · exact absurd hd hnd
  · -- cls
    intro q n2 hn2
    obtain ⟨n, hn, h⟩ := hget q n2 hn2
    have hold := hsq.cls q n hn
    rcases h with ⟨rfl, hnd⟩ | ⟨hd, thr, rfl, hex, hv, hthr⟩
    · refine ⟨hold.pruned, fun hc hdl _ => ?_, fun hq => ?_, fun h => absurd h hnd⟩
      · have h1 := hold.alive hc hdl (fun h => h)
        exact Classical.byContradiction (fun h2 => hnd ⟨h1, h2⟩)
      · obtain ⟨c1, c2, _⟩ := hold.cur (hfd.sub q hq)
        exact ⟨c1, c2, fun h => h.2 hq⟩
    · obtain ⟨c1, c2, _⟩ := hold.cur hd.1
      refine ⟨fun hc => ?_, fun _ _ h => absurd hd h, fun hq => absurd hq hd.2, fun _ => ?_⟩
      · have : n.cache = true := hc
        rw [c1] at this; cases this
      · exact ⟨c1, c2, hex, hrub n (List.mem_of_getElem? hn), hv, thr, rfl, hthr⟩
  · -- drLt
    intro q h
    rw [hfd.len]; exact hpre.lt q h.1
  · -- step
    intro l p ly n hl hly hlive hn htest h hH
    obtain ⟨p', m, e, h', hm, hok, he, r1, r2, r3, r4, r5, r6⟩ := hsq.step l p ly n hl hly hlive hn htest h hH
    obtain ⟨m2, hm2⟩ := hget' p' m hm
    obtain ⟨m', hm', e1, e2, e3, e4, _⟩ := hflds p' m2 hm2
    rw [hm] at hm'; cases hm'
    refine ⟨p', m2, e, h', hm2, ?_, by rw [e3]; exact he, r1, r2, r3, by rw [e1]; exact r4, r5, by rw [e2]; exact r6⟩
    rcases hok with hq | hc | hf
    · by_cases hq2 : p' ∈ cur2
      · exact .inl hq2
      · exact .inr (.inr ⟨hq, hq2⟩)
    · exact .inr (.inl (by rw [e4]; exact hc))
    · exact absurd hf id
  · -- first
    intro hemp n2 hn2
    obtain ⟨n, hn, _, _, _, e4, _⟩ := hmem n2 hn2
    rw [e4]; exact hsq.first hemp n hn
  · -- root
    intro hemp
    obtain ⟨n0, h0, hs0, hv0, hc0⟩ := hsq.root hemp
    obtain ⟨m2, hm2⟩ := hget' 0 n0 h0
    obtain ⟨m', hm', e1, e2, _⟩ := hflds 0 m2 hm2
    rw [h0] at hm'; cases hm'
    refine ⟨m2, hm2, by rw [e1]; exact hs0, by rw [e2]; exact hv0, ?_⟩
    rcases hc0 with hq | hf
    · by_cases hq2 : 0 ∈ cur2
      · exact .inl hq2
      · exact .inr ⟨hq, hq2⟩
    · exact absurd hf id
  · -- lt
    intro p hp
    rw [hfd.len]; exact hpre.lt p (hfd.sub p hp)
  · -- states
    intro u hu
    obtain ⟨n, hn, e1, _⟩ := hmem u hu
    rw [e1]; exact hpre.states n hn
  · -- attL
    intro hne q hq u hu
    rw [hfd.same q (.inl hq)] at hu
    exact hpre.attL hne q (hfd.sub q hq) u hu

end Ddo.C10d
