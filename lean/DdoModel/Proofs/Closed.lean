import DdoModel.Props.C01c
import DdoModel.Props.C01t
import DdoModel.Props.C08
import DdoModel.Props.C08b
/-! Helpers for `Props/C01d.lean`: closing the composition "diagram model ∘ sequential solver model".

* model level: `NvBound` (`next_variable` answers `None` from depth `nb_variables` on), `reach_depth_le`,
  `reach_value_bound`, `RunBound` (the magnitudes hypothesis of a whole run), `RunBound.noClamp_at` (the `NoClamp`
  hypothesis of the diagram theorems at every reached sub-problem), `exists_complete` / `opt_attained` (the optimum is
  the value of a complete path, hence within the bound), `reach_dead` (infeasible problem: no reached sub-problem has a
  completion);
* diagram level: `compile_no_crash` (a compilation in isolation, width ≥ 1, of a sub-problem not deeper than
  `nb_variables` ends normally), `isSol_restricted` / `isSol_relaxed` (a reported exact value is the value of the reported
  solution, *no* reference to an optimum of the whole problem), the four fields of `CutsetOk`;
* solver level: what `process_one_node` does to the fringe (`process_fringe_mem`), to `abort`, to the incumbent. -/
set_option linter.unusedSectionVars false
set_option linter.unusedVariables false
namespace Ddo.Closed
open Ddo Ddo.Truth
variable {S K : Type} [DecidableEq S] [DecidableEq K]

/-! ## the model: depth and magnitude of reached sub-problems -/

/-- `next_variable` answers `None` from depth `nb_variables` on: a path assigns at most `nb_variables` variables.
    (The Rust solver indexes `open_by_layer : vec![0; nb_variables + 1]` by the depth of the sub-problems.) -/
def NvBound (P : Problem S) : Prop := ∀ k L, P.nbVars ≤ k → P.nextVar k L = none

omit [DecidableEq S] in
theorem reach_depth_le {P : Problem S} (hNV : NvBound P) {k : Nat} {s : S} {v : Int} {p : List Dec}
    (h : Reach P k s v p) : k ≤ P.nbVars := by
  cases h with
  | root => omega
  | step k s v p L x d hr hnv hs hd =>
    by_cases hk : P.nbVars ≤ k
    · rw [hNV k L hk] at hnv; cases hnv
    · omega

/-- the transition costs and the initial value are bounded by `B0` -/
structure CostBound (P : Problem S) (B0 : Int) : Prop where
  init : -B0 ≤ P.initVal ∧ P.initVal ≤ B0
  cost : ∀ s s' d, -B0 ≤ P.cost s s' d ∧ P.cost s s' d ≤ B0

omit [DecidableEq S] in
theorem reach_value_bound {P : Problem S} {B0 : Int} (hC : CostBound P B0) {k : Nat} {s : S} {v : Int} {p : List Dec}
    (h : Reach P k s v p) : -(((k : Int) + 1) * B0) ≤ v ∧ v ≤ ((k : Int) + 1) * B0 := by
  induction h with
  | root =>
    have := hC.init
    have e : (((0 : Nat) : Int) + 1) * B0 = B0 := by simp
    rw [e]; exact this
  | step k s v p L x d hr hnv hs hd ih =>
    have hc := hC.cost s (P.trans s ⟨x, d⟩) ⟨x, d⟩
    have e : (((k + 1 : Nat) : Int) + 1) * B0 = ((k : Int) + 1) * B0 + B0 := by
      rw [Int.natCast_add, Int.add_mul (((k : Int) + ((1 : Nat) : Int))) 1 B0]; simp
    rw [e]
    omega

/-- the magnitudes hypothesis of a whole run: `NoClamp` at the root with bound `B`, and a finer bound `B0` on the single
    costs such that `nb_variables + 1` of them still fit into `B` -/
structure RunBound (P : Problem S) (R : Relax S) (B0 B : Int) : Prop where
  clamp : NoClamp P R P.initVal B
  cost : CostBound P B0
  fit : ((P.nbVars : Int) + 1) * B0 ≤ B

omit [DecidableEq S] in
theorem RunBound.B0_nonneg {P : Problem S} {R : Relax S} {B0 B : Int} (h : RunBound P R B0 B) : 0 ≤ B0 := by
  have := h.cost.init; omega

omit [DecidableEq S] in
/-- `B ≤ 2^62`, far inside the `isize` range -/
theorem RunBound.B_small {P : Problem S} {R : Relax S} {B0 B : Int} (h : RunBound P R B0 B) :
    B ≤ 4611686018427387904 := by
  have h1 := h.clamp.small
  have h0 := h.clamp.nonneg
  have : 0 ≤ (P.nbVars : Int) * B := Int.mul_nonneg (by omega) h0
  have e : ((P.nbVars : Int) + 2) * B = (P.nbVars : Int) * B + 2 * B := by rw [Int.add_mul]
  rw [e] at h1
  omega

omit [DecidableEq S] in
/-- the value of a reached sub-problem is within `B` -/
theorem RunBound.value_le {P : Problem S} {R : Relax S} {B0 B : Int} (h : RunBound P R B0 B) (hNV : NvBound P)
    {k : Nat} {s : S} {v : Int} {p : List Dec} (hr : Reach P k s v p) : -B ≤ v ∧ v ≤ B := by
  have h1 := reach_value_bound h.cost hr
  have hk := reach_depth_le hNV hr
  have h2 : ((k : Int) + 1) * B0 ≤ ((P.nbVars : Int) + 1) * B0 :=
    Int.mul_le_mul_of_nonneg_right (by omega) h.B0_nonneg
  have := h.fit
  omega

omit [DecidableEq S] in
/-- **the `NoClamp` hypothesis of the diagram theorems holds at every reached sub-problem** -/
theorem RunBound.noClamp_at {P : Problem S} {R : Relax S} {B0 B : Int} (h : RunBound P R B0 B) (hNV : NvBound P)
    {k : Nat} {s : S} {v : Int} {p : List Dec} (hr : Reach P k s v p) : NoClamp P R v B :=
  ⟨h.clamp.nonneg, h.value_le hNV hr, h.clamp.cost, h.clamp.relax, h.clamp.small⟩

omit [DecidableEq S] in
/-- from a reached state with potential `h` some complete path gains at least `h` (`Potential.att` all the way down) -/
theorem exists_complete {P : Problem S} {H : Nat → S → EInt} (hP : Potential P H) (hNV : NvBound P) :
    ∀ (n k : Nat) (s : S) (v : Int) (p : List Dec) (h : Int), P.nbVars ≤ k + n → Reach P k s v p → H k s = some h →
      ∃ (k' : Nat) (s' : S) (v' : Int) (q : List Dec) (L : List S),
        Reach P k' s' v' (p ++ q) ∧ s' ∈ L ∧ P.nextVar k' L = none ∧ v + h ≤ v' := by
  intro n
  induction n with
  | zero =>
    intro k s v p h hk hr hH
    have hnv := hNV k [s] (by omega)
    have h0 := hP.term k [s] s hnv List.mem_cons_self
    rw [hH] at h0
    have : h = 0 := Option.some.inj h0
    exact ⟨k, s, v, [], [s], by rw [List.append_nil]; exact hr, List.mem_cons_self, hnv, by omega⟩
  | succ n ih =>
    intro k s v p h hk hr hH
    cases hnv : P.nextVar k [s] with
    | none =>
      have h0 := hP.term k [s] s hnv List.mem_cons_self
      rw [hH] at h0
      have : h = 0 := Option.some.inj h0
      exact ⟨k, s, v, [], [s], by rw [List.append_nil]; exact hr, List.mem_cons_self, hnv, by omega⟩
    | some x =>
      obtain ⟨d, hd, h', hH', hle⟩ := hP.att k [s] x s h hnv List.mem_cons_self hH
      have hr' := Reach.step k s v p [s] x d hr hnv List.mem_cons_self hd
      obtain ⟨k', s', v', q, L, c1, c2, c3, c4⟩ := ih (k + 1) _ _ _ h' (by omega) hr' hH'
      exact ⟨k', s', v', (⟨x, d⟩ : Dec) :: q, L, by rw [List.append_assoc] at c1; exact c1, c2, c3, by omega⟩

omit [DecidableEq S] in
/-- **the optimum is attained**: it is the value of a complete path of the model -/
theorem opt_attained {P : Problem S} {H : Nat → S → EInt} (hP : Potential P H) (hNV : NvBound P) {opt : Int}
    (hopt : (H 0 P.init).addI P.initVal = some opt) :
    ∃ (k : Nat) (s : S) (q : List Dec) (L : List S), Reach P k s opt q ∧ s ∈ L ∧ P.nextVar k L = none := by
  obtain ⟨h0, hH0, ho⟩ := Bounds.addI_some hopt
  obtain ⟨k, s, v, q, L, c1, c2, c3, c4⟩ := exists_complete hP hNV P.nbVars 0 P.init P.initVal [] h0 (by omega) .root hH0
  obtain ⟨x, hx, hle⟩ := complete_le_opt (N := ⟨P.init, P.initVal, [], 0, 0⟩) (lowRel_of_potential hP) Reach.root trivial
    (q := q) c1 c2 c3
  have : x = opt := by
    unfold optOf at hx
    rw [hopt] at hx
    exact (Option.some.inj hx).symm
  have hv : v = opt := by omega
  subst hv
  exact ⟨k, s, q, L, by simpa using c1, c2, c3⟩

omit [DecidableEq S] in
theorem opt_bound {P : Problem S} {R : Relax S} {H : Nat → S → EInt} {B0 B : Int} (hP : Potential P H) (hNV : NvBound P)
    (hRB : RunBound P R B0 B) {opt : Int} (hopt : (H 0 P.init).addI P.initVal = some opt) : -B ≤ opt ∧ opt ≤ B := by
  obtain ⟨k, s, q, L, hr, _, _⟩ := opt_attained hP hNV hopt
  exact hRB.value_le hNV hr

omit [DecidableEq S] in
/-- the potential of a reached sub-problem is at most that of the problem root -/
theorem reach_le_root {P : Problem S} {H : Nat → S → EInt} (hP : Potential P H) {k : Nat} {s : S} {v : Int} {p : List Dec}
    (hr : Reach P k s v p) : (H k s).addI v ≤ (H 0 P.init).addI P.initVal :=
  (reach_le (lowRel_of_potential hP) Reach.root trivial hr p (by simp)).2

omit [DecidableEq S] in
/-- infeasible problem: no reached sub-problem has a completion -/
theorem reach_dead {P : Problem S} {H : Nat → S → EInt} (hP : Potential P H)
    (hinf : (H 0 P.init).addI P.initVal = none) {k : Nat} {s : S} {v : Int} {p : List Dec}
    (hr : Reach P k s v p) : (H k s).addI v = none := by
  have := reach_le_root hP hr
  rw [hinf] at this
  cases h : (H k s).addI v with
  | none => rfl
  | some x => rw [h] at this; exact absurd this (by simp)

/-! ## the diagram: no crash -/

theorem compile_fst (cfg : Cfg S K) (cache : Cache S) (store : DomStore S K) (polls : Nat) (stopAt : Option Nat) :
    (compile cfg cache store polls stopAt).1 = (buildLoop cfg stopAt (cfg.P.nbVars + 2) (initDD cfg cache store polls)).2 := by
  unfold compile
  generalize buildLoop cfg stopAt (cfg.P.nbVars + 2) (initDD cfg cache store polls) = bl
  obtain ⟨dd, oc⟩ := bl
  cases oc <;> rfl

theorem squash_ne_none (cfg : Cfg S K) (dd : DD S K) (hW : 1 ≤ cfg.width)
    (hJ : dd.layers = [] → dd.next.length ≤ 1) :
    squash cfg dd dd.next (List.range dd.next.length) ≠ none := by
  unfold squash
  have h1 : (cfg.width == 0) = false := by
    cases h : cfg.width with
    | zero => omega
    | succ n => rfl
  have h2 : ((cfg.ctype == .restricted && decide ((List.range dd.next.length).length > cfg.width)) && dd.layers.isEmpty) = false := by
    cases hl : dd.layers with
    | nil =>
      have := hJ hl
      have h3 : decide ((List.range dd.next.length).length > cfg.width) = false := by
        rw [List.length_range]; exact decide_eq_false (by omega)
      rw [h3]; simp
    | cons _ _ => simp
  simp only [h1, h2, Bool.and_false, Bool.false_eq_true, if_false]
  split
  · simp
  · split <;> simp

/-- the loop does not crash: it stops at the latest when `next_variable` answers `None` at depth `nb_variables` -/
theorem buildLoop_no_crash (cfg : Cfg S K) (hc : cfg.useCache = false) (hd : cfg.dom = none) (hW : 1 ≤ cfg.width)
    (hNV : NvBound cfg.P) :
    ∀ (fuel : Nat) (dd : DD S K), (dd.layers = [] → dd.next.length ≤ 1) → dd.depth ≤ cfg.P.nbVars →
      cfg.P.nbVars + 1 ≤ dd.depth + fuel → (buildLoop cfg none fuel dd).2 = .ok := by
  intro fuel
  induction fuel with
  | zero => intro dd _ h1 h2; omega
  | succ fuel ih =>
    intro dd hJ h1 h2
    cases hnv : cfg.P.nextVar dd.depth (dd.next.map (·.state)) with
    | none =>
      unfold buildLoop
      simp only [hnv]
    | some var =>
      have hlt : dd.depth < cfg.P.nbVars := by
        by_cases hk : cfg.P.nbVars ≤ dd.depth
        · rw [hNV _ _ hk] at hnv; cases hnv
        · omega
      rw [buildLoop_step cfg fuel dd var hnv]
      by_cases hne : dd.next = []
      · rw [stepLayer_empty cfg (tick dd var) var hne]
      · have hJ' : (tick dd var).layers = [] → (tick dd var).next.length ≤ 1 := hJ
        cases hsq : squash cfg (tick dd var) (tick dd var).next (List.range (tick dd var).next.length) with
        | none => exact absurd hsq (squash_ne_none cfg (tick dd var) hW hJ')
        | some sq =>
          obtain ⟨dd', e, hl, _, hdep, _⟩ := stepLayer_iso_some cfg (tick dd var) var hne hc hd sq hsq
          rw [e]
          refine ih dd' ?_ ?_ ?_
          · intro h; rw [hl] at h; simp at h
          · rw [hdep]; show dd.depth + 1 ≤ _; omega
          · rw [hdep]; show _ ≤ dd.depth + 1 + fuel; omega

/-- **no crash**: a compilation in isolation, of width ≥ 1, of a sub-problem that is not deeper than `nb_variables`
    ends normally (no cutoff) -/
theorem compile_no_crash (cfg : Cfg S K) (cache : Cache S) (store : DomStore S K) (polls : Nat)
    (hc : cfg.useCache = false) (hd : cfg.dom = none) (hW : 1 ≤ cfg.width) (hNV : NvBound cfg.P)
    (hdepth : cfg.root.depth ≤ cfg.P.nbVars) : (compile cfg cache store polls none).1 = .ok := by
  rw [compile_fst]
  refine buildLoop_no_crash cfg hc hd hW hNV _ _ ?_ hdepth ?_
  · intro _; simp [initDD]
  · show cfg.P.nbVars + 1 ≤ cfg.root.depth + (cfg.P.nbVars + 2); omega

/-! ## the diagram: reported solutions, without reference to the optimum of the whole problem -/

/-- restricted compilation, any cache / dominance configuration, any cutoff: a reported exact value is the value of the
    reported solution, a complete feasible path through the root sub-problem -/
theorem isSol_restricted (cfg : Cfg S K) (B : Int) (p0 : List Dec)
    (cache : Cache S) (store : DomStore S K) (polls : Nat) (stopAt : Option Nat)
    (hres : cfg.ctype = .restricted) (hB : NoClamp cfg.P cfg.R cfg.root.value B)
    (hroot : Reach cfg.P cfg.root.depth cfg.root.state cfg.root.value p0)
    (hok : (compile cfg cache store polls stopAt).1 = .ok) (w : Int)
    (hw : (compile cfg cache store polls stopAt).2.1.bestExactValue = some w) :
    IsSol cfg p0 w (compile cfg cache store polls stopAt).2.1.bestExactSol := by
  obtain ⟨hbl, _, hres'⟩ := Ddo.compile_ok cfg cache store polls stopAt hok
  have e2 : (cfg.ctype == CompType.relaxed) = false := by rw [hres]; decide
  rw [e2] at hres'
  have e3 : ∀ b : Built S K, b.ebpMust false = false := fun _ => rfl
  rw [e3] at hres'
  rw [hres'] at hw ⊢
  exact bestExact_sol_false cfg B p0 hB hroot cache store polls stopAt hbl w hw

/-- relaxed compilation in isolation, the `must` result: the same -/
theorem isSol_relaxed (cfg : Cfg S K) (B : Int) (p0 : List Dec)
    (cache : Cache S) (store : DomStore S K) (polls : Nat)
    (hrel : cfg.ctype = .relaxed) (hcache : cfg.useCache = false) (hdom : cfg.dom = none) (hW : 1 ≤ cfg.width)
    (hB : NoClamp cfg.P cfg.R cfg.root.value B)
    (hroot : Reach cfg.P cfg.root.depth cfg.root.state cfg.root.value p0)
    (hok : (compile cfg cache store polls none).1 = .ok) (w : Int)
    (hw : (compile cfg cache store polls none).2.1.bestExactValue = some w) :
    IsSol cfg p0 w (compile cfg cache store polls none).2.1.bestExactSol := by
  obtain ⟨hbl, _, hres'⟩ := Ddo.compile_ok cfg cache store polls none hok
  have e2 : (cfg.ctype == CompType.relaxed) = true := by rw [hrel]; decide
  rw [e2] at hres'
  rw [hres'] at hw ⊢
  cases hm : (finalizeLayers (buildLoop cfg none (cfg.P.nbVars + 2) (initDD cfg cache store polls)).1).ebpMust true with
  | false =>
    rw [hm] at hw
    exact bestExact_sol_false cfg B p0 hB hroot cache store polls none hbl w hw
  | true =>
    rw [hm] at hw
    exact (ebpMust_sound cfg B p0 hrel hW hcache hdom hB hroot cache store polls hbl hm w hw).exactSol

omit [DecidableEq S] [DecidableEq K] in
/-- the value of a reported solution is at most the optimum of the root sub-problem (which is therefore not `−∞`) -/
theorem within_of_isSol (cfg : Cfg S K) (H : Nat → S → EInt) (p0 : List Dec) (hP : Potential cfg.P H)
    (hroot : Reach cfg.P cfg.root.depth cfg.root.state cfg.root.value p0) (w : Int) (sol : Option (List Dec))
    (h : IsSol cfg p0 w sol) : ∃ x, optOf H cfg.root = some x ∧ w ≤ x := by
  obtain ⟨k, s, q, L, hr, hs, hnv, _⟩ := h
  exact complete_le_opt (lowRel_of_potential hP) hroot trivial hr hs hnv

/-! ## the diagram: the cut-set contract -/

/-- `CutsetOk.sub`: a sub-problem of the cut-set cannot be completed to more than the root sub-problem
    (C08 (i) + `Potential.le` along the extension).  Any compilation type, cache, dominance, cutoff; both results. -/
theorem cutset_sub (cfg : Cfg S K) (H : Nat → S → EInt) (B : Int) (p0 : List Dec)
    (cache : Cache S) (store : DomStore S K) (polls : Nat) (stopAt : Option Nat)
    (hP : Potential cfg.P H) (hB : NoClamp cfg.P cfg.R cfg.root.value B)
    (hroot : Reach cfg.P cfg.root.depth cfg.root.state cfg.root.value p0)
    (hok : (compile cfg cache store polls stopAt).1 = .ok) (r : Result S)
    (hr : r = (compile cfg cache store polls stopAt).2.1 ∨ (compile cfg cache store polls stopAt).2.2.1 = some r) :
    ∀ c ∈ r.cutset, ∀ y, optOf H c = some y → ∃ x, optOf H cfg.root = some x ∧ y ≤ x := by
  intro c hc y hy
  obtain ⟨q, hq, _⟩ := C08.cutset_exact cfg B p0 cache store polls stopAt hroot hB hok r hr c hc
  have hle := (reach_le (lowRel_of_potential hP) hroot trivial hq q rfl).2
  unfold optOf at hy ⊢
  rw [hy] at hle
  cases hN : (H cfg.root.depth cfg.root.state).addI cfg.root.value with
  | none => rw [hN] at hle; exact absurd hle (by simp)
  | some x => rw [hN] at hle; exact ⟨x, rfl, by simpa using hle⟩

/-- `CutsetOk.good`: whatever a sub-problem of the cut-set can be completed to is at most the optimum of the whole
    problem (C08 (i): it is reached exactly) -/
theorem cutset_good (cfg : Cfg S K) (H : Nat → S → EInt) (B opt : Int) (p0 : List Dec)
    (cache : Cache S) (store : DomStore S K) (polls : Nat) (stopAt : Option Nat)
    (hP : Potential cfg.P H) (hB : NoClamp cfg.P cfg.R cfg.root.value B)
    (hroot : Reach cfg.P cfg.root.depth cfg.root.state cfg.root.value p0)
    (hopt : (H 0 cfg.P.init).addI cfg.P.initVal = some opt)
    (hok : (compile cfg cache store polls stopAt).1 = .ok) (r : Result S)
    (hr : r = (compile cfg cache store polls stopAt).2.1 ∨ (compile cfg cache store polls stopAt).2.2.1 = some r) :
    ∀ c ∈ r.cutset, Good (optOf H) opt c := by
  intro c hc y hy
  obtain ⟨q, hq, _⟩ := C08.cutset_exact cfg B p0 cache store polls stopAt hroot hB hok r hr c hc
  have hle := reach_le_root hP hq
  unfold optOf at hy
  rw [hy, hopt] at hle
  simpa using hle

/-- **the cut-set contract of a relaxed compilation** (in isolation; either result; any cutoff): all four fields of
    `Ddo.CutsetOk` — `good` and `sub` from C08 (i), `ub` is C08 (iii), `cover` is C08 (iv) -/
theorem cutsetOk_of_model (cfg : Cfg S K) (H : Nat → S → EInt) (B opt : Int) (p0 : List Dec)
    (cache : Cache S) (store : DomStore S K) (polls : Nat) (stopAt : Option Nat)
    (hrel : cfg.ctype = .relaxed) (hcache : cfg.useCache = false) (hdom : cfg.dom = none) (hW : 1 ≤ cfg.width)
    (hP : Potential cfg.P H) (hR : RubOk cfg.R H) (hM : MergeOk cfg.R H) (hAM : Cover.AttMerge cfg.P cfg.R H)
    (hB : NoClamp cfg.P cfg.R cfg.root.value B) (hlb : InI cfg.lb) (hlb' : cfg.lb < iMax)
    (hroot : Reach cfg.P cfg.root.depth cfg.root.state cfg.root.value p0)
    (hopt : (H 0 cfg.P.init).addI cfg.P.initVal = some opt)
    (hok : (compile cfg cache store polls stopAt).1 = .ok) (r : Result S)
    (hr : r = (compile cfg cache store polls stopAt).2.1 ∨ (compile cfg cache store polls stopAt).2.2.1 = some r) :
    CutsetOk (optOf H) opt cfg.root cfg.lb (C01.toOut r) := by
  refine ⟨?_, ?_, ?_, ?_⟩
  · exact cutset_good cfg H B opt p0 cache store polls stopAt hP hB hroot hopt hok r hr
  · intro c hc x hx hgt
    exact C08.cutset_ub_valid cfg H B p0 cache store polls stopAt hrel hcache hdom hW hP hR hM hAM hB hlb hroot hok r hr
      c hc x hx hgt
  · intro x hx hgt hbe
    exact C08.cutset_cover cfg H B p0 cache store polls stopAt hrel hcache hdom hW hP hR hM hAM hB hlb hroot x hx hgt
      (Or.inr hlb') hok r hr hbe
  · exact cutset_sub cfg H B p0 cache store polls stopAt hP hB hroot hok r hr

/-! ## the solver: what `process_one_node` does to the fringe, the abort flag and the incumbent -/

/-- plain multiset fringe: an entry after `process_one_node` was there before or is a node of the cut-set -/
theorem process_false_mem (st : SeqSt S) (N : SubP S) (me : Bool) (r x : DDRes S) (c : SubP S)
    (hc : c ∈ (st.process false N me r x).1.fringe) :
    c ∈ st.fringe ∨ ∃ o, x = .ok o ∧ ∃ c0 ∈ o.cutset, c = c0 := by
  unfold SeqSt.process at hc
  split at hc
  · exact Or.inl hc
  · split at hc
    · exact Or.inl hc
    · cases r with
      | cutoff => simp [SeqSt.abortSearch] at hc
      | ok r =>
        simp only at hc
        have f1 := (updateBest_fringe st r).1
        split at hc
        · rw [f1] at hc; exact Or.inl hc
        · cases x with
          | cutoff => simp [SeqSt.abortSearch] at hc
          | ok x =>
            simp only at hc
            have f2 := (updateBest_fringe (st.updateBest r) x).1
            split at hc
            · rw [f2, f1] at hc; exact Or.inl hc
            · obtain ⟨_, _, _, _, e5⟩ := enqueue_false_spec ((st.updateBest r).updateBest x) x.cutset
              rcases (e5 c).mp hc with h | ⟨c0, hc0, e, _⟩
              · rw [f2, f1] at h; exact Or.inl h
              · exact Or.inr ⟨x, rfl, c0, hc0, e⟩

/-- either fringe: a property of sub-problems that does not look at the bound passes from the old fringe and the cut-set
    to the new fringe -/
theorem process_forall (Q : SubP S → Prop) (hQ : ∀ (c : SubP S) (u : Int), Q c → Q { c with ub := u })
    (dedup : Bool) (st : SeqSt S) (N : SubP S) (me : Bool) (r x : DDRes S)
    (h1 : ∀ c ∈ st.fringe, Q c) (h2 : ∀ o, x = .ok o → ∀ c ∈ o.cutset, Q c) :
    ∀ c ∈ (st.process dedup N me r x).1.fringe, Q c := by
  have hf : ∀ c ∈ (st.process false N me r x).1.fringe, Q c := by
    intro c hc
    rcases process_false_mem st N me r x c hc with h | ⟨o, ho, c0, hc0, e⟩
    · exact h1 c h
    · rw [e]; exact h2 o ho c0 hc0
  cases dedup with
  | false => exact hf
  | true =>
    intro c hc
    obtain ⟨_, _, _, _, _, _, hco⟩ := C01b.process_dedup_rel st N me r x
    obtain ⟨a, b, ha, _, rfl, _⟩ := hco.1 c hc
    exact hQ a _ (hf a ha)

/-- without a cutoff the search is not aborted -/
theorem process_abort (dedup : Bool) (st : SeqSt S) (N : SubP S) (me : Bool) (r x : DDOut S) :
    (st.process dedup N me (.ok r) (.ok x)).1.abort = st.abort := by
  have hf : (st.process false N me (.ok r) (.ok x)).1.abort = st.abort := by
    unfold SeqSt.process
    split
    · rfl
    · split
      · rfl
      · simp only
        split
        · exact (updateBest_fringe st r).2.2.1
        · split
          · exact (updateBest_fringe _ x).2.2.1.trans (updateBest_fringe st r).2.2.1
          · exact (enqueue_false_spec _ x.cutset).2.2.2.1.trans
              ((updateBest_fringe _ x).2.2.1.trans (updateBest_fringe st r).2.2.1)
  cases dedup with
  | false => exact hf
  | true => exact (C01b.process_dedup_rel st N me (.ok r) (.ok x)).2.2.2.1.trans hf

/-- the incumbent after `process_one_node`: untouched, or updated by the restricted, or by both compilations -/
theorem process_lb_sol (dedup : Bool) (st : SeqSt S) (N : SubP S) (me : Bool) (r x : DDOut S) :
    ((st.process dedup N me (.ok r) (.ok x)).1.bestLb = st.bestLb ∧
      (st.process dedup N me (.ok r) (.ok x)).1.bestSol = st.bestSol) ∨
    ((st.process dedup N me (.ok r) (.ok x)).1.bestLb = (st.updateBest r).bestLb ∧
      (st.process dedup N me (.ok r) (.ok x)).1.bestSol = (st.updateBest r).bestSol) ∨
    ((st.process dedup N me (.ok r) (.ok x)).1.bestLb = ((st.updateBest r).updateBest x).bestLb ∧
      (st.process dedup N me (.ok r) (.ok x)).1.bestSol = ((st.updateBest r).updateBest x).bestSol) := by
  have hf : ((st.process false N me (.ok r) (.ok x)).1.bestLb = st.bestLb ∧
      (st.process false N me (.ok r) (.ok x)).1.bestSol = st.bestSol) ∨
    ((st.process false N me (.ok r) (.ok x)).1.bestLb = (st.updateBest r).bestLb ∧
      (st.process false N me (.ok r) (.ok x)).1.bestSol = (st.updateBest r).bestSol) ∨
    ((st.process false N me (.ok r) (.ok x)).1.bestLb = ((st.updateBest r).updateBest x).bestLb ∧
      (st.process false N me (.ok r) (.ok x)).1.bestSol = ((st.updateBest r).updateBest x).bestSol) := by
    unfold SeqSt.process
    split
    · exact Or.inl ⟨rfl, rfl⟩
    · split
      · exact Or.inl ⟨rfl, rfl⟩
      · simp only
        split
        · exact Or.inr (Or.inl ⟨rfl, rfl⟩)
        · split
          · exact Or.inr (Or.inr ⟨rfl, rfl⟩)
          · obtain ⟨e1, e2, _⟩ := enqueue_false_spec ((st.updateBest r).updateBest x) x.cutset
            exact Or.inr (Or.inr ⟨e1, e2⟩)
  cases dedup with
  | false => exact hf
  | true =>
    obtain ⟨e1, e2, _⟩ := C01b.process_dedup_rel st N me (.ok r) (.ok x)
    rw [e1, e2]; exact hf

/-- an incumbent update that reports a solution with every value keeps "no solution stored ⇒ the incumbent is
    `isize::MIN`" -/
theorem updateBest_solLb (st : SeqSt S) (o : DDOut S)
    (hs : ∀ w, o.bestExact = some w → ∃ p, o.bestExactSol = some p)
    (h : st.bestSol = none → st.bestLb = iMin) :
    (st.updateBest o).bestSol = none → (st.updateBest o).bestLb = iMin := by
  unfold SeqSt.updateBest
  cases hb : o.bestExact with
  | none => exact h
  | some w =>
    obtain ⟨p, hp⟩ := hs w hb
    simp only
    split
    · intro hn; simp only at hn; rw [hp] at hn; cases hn
    · exact h

/-- no exact value reported: the incumbent is untouched -/
theorem updateBest_none (st : SeqSt S) (o : DDOut S) (h : o.bestExact = none) : st.updateBest o = st := by
  unfold SeqSt.updateBest; rw [h]

theorem afterPop_abort (st : SeqSt S) (N : SubP S) : (st.afterPop N).abort = st.abort := by
  unfold SeqSt.afterPop
  split <;> rfl

/-! ## popping a maximal element -/

/-- `a` is at least as good as `b` for the fringe order (bound, then value) -/
def better (a b : SubP S) : Bool := decide (b.ub < a.ub) || (decide (b.ub = a.ub) && decide (b.value ≤ a.value))

/-- a maximal element and the rest -/
def popMax : List (SubP S) → Option (SubP S × List (SubP S))
  | [] => none
  | c :: l =>
    match popMax l with
    | none => some (c, [])
    | some (m, rest) => if better c m then some (c, m :: rest) else some (m, c :: rest)

omit [DecidableEq S] in
theorem popMax_spec : ∀ (l : List (SubP S)) (N : SubP S) (rest : List (SubP S)), popMax l = some (N, rest) →
    l.Perm (N :: rest) ∧ ∀ c ∈ rest, c.ub < N.ub ∨ (c.ub = N.ub ∧ c.value ≤ N.value) := by
  intro l
  induction l with
  | nil => intro N rest h; cases h
  | cons c l ih =>
    intro N rest h
    unfold popMax at h
    cases hp : popMax l with
    | none =>
      rw [hp] at h
      simp only [Option.some.injEq, Prod.mk.injEq] at h
      obtain ⟨rfl, rfl⟩ := h
      have hl : l = [] := by
        cases l with
        | nil => rfl
        | cons a l' =>
          unfold popMax at hp
          cases hq : popMax l' with
          | none => rw [hq] at hp; cases hp
          | some mr => rw [hq] at hp; obtain ⟨m, r⟩ := mr; simp only at hp; split at hp <;> cases hp
      subst hl
      exact ⟨List.Perm.refl _, fun c hc => by cases hc⟩
    | some mr =>
      obtain ⟨m, rest'⟩ := mr
      rw [hp] at h
      obtain ⟨hperm, hmax⟩ := ih m rest' hp
      simp only at h
      split at h
      · next hb =>
        simp only [Option.some.injEq, Prod.mk.injEq] at h
        obtain ⟨rfl, rfl⟩ := h
        refine ⟨List.Perm.cons _ hperm, fun x hx => ?_⟩
        simp only [better, Bool.or_eq_true, Bool.and_eq_true, decide_eq_true_eq] at hb
        rcases List.mem_cons.mp hx with e | e
        · subst e; omega
        · have := hmax x e; omega
      · next hb =>
        simp only [Option.some.injEq, Prod.mk.injEq] at h
        obtain ⟨rfl, rfl⟩ := h
        refine ⟨(List.Perm.cons _ hperm).trans (List.Perm.swap _ _ _), fun x hx => ?_⟩
        simp only [better, Bool.or_eq_true, Bool.and_eq_true, decide_eq_true_eq] at hb
        rcases List.mem_cons.mp hx with e | e
        · subst e; omega
        · exact hmax x e

omit [DecidableEq S] in
theorem popMax_some (l : List (SubP S)) (h : l ≠ []) : ∃ N rest, popMax l = some (N, rest) := by
  cases l with
  | nil => exact absurd rfl h
  | cons c l =>
    unfold popMax
    cases popMax l with
    | none => exact ⟨_, _, rfl⟩
    | some mr =>
      obtain ⟨m, r⟩ := mr
      simp only
      split
      · exact ⟨_, _, rfl⟩
      · exact ⟨_, _, rfl⟩

/-! ## the solver: `open_by_layer` bookkeeping (no index out of range, no underflow) -/

/-- number of fringe entries of depth `d` -/
def cntD (fr : List (SubP S)) (d : Nat) : Nat := fr.countP (fun c => c.depth == d)

omit [DecidableEq S] in
theorem cntD_cons (c : SubP S) (fr : List (SubP S)) (d : Nat) :
    cntD (c :: fr) d = cntD fr d + if c.depth = d then 1 else 0 := by
  unfold cntD
  rw [List.countP_cons]
  simp

omit [DecidableEq S] in
theorem cntD_perm {l1 l2 : List (SubP S)} (h : l1.Perm l2) (d : Nat) : cntD l1 d = cntD l2 d := h.countP_eq _

/-- `open_by_layer` has `n + 1` cells and cell `d` counts the fringe entries of depth `d` -/
def LayersOk (n : Nat) (l : List Nat) (fr : List (SubP S)) : Prop :=
  l.length = n + 1 ∧ ∀ d, d ≤ n → l[d]? = some (cntD fr d)

/-- a push grows the fringe by `δ ∈ {0, 1}` entries, all of them at the depth of the pushed node -/
theorem pushSpec_cnt (dedup : Bool) (q : List (SubP S)) (x : SubP S) :
    ∃ δ, (pushSpec dedup q x).length = q.length + δ ∧
      ∀ d, cntD (pushSpec dedup q x) d = cntD q d + if x.depth = d then δ else 0 := by
  cases dedup with
  | false => exact ⟨1, by rw [pushSpec_false]; rfl, fun d => by rw [pushSpec_false, cntD_cons]⟩
  | true =>
    induction q with
    | nil => exact ⟨1, by rw [pushSpec_true_nil]; rfl, fun d => by rw [pushSpec_true_nil, cntD_cons]⟩
    | cons y r ih =>
      rw [pushSpec_true_cons]
      split
      · next hk =>
        refine ⟨0, rfl, fun d => ?_⟩
        rw [cntD_cons, cntD_cons, (coal_key x y hk).2]
        have : (if x.depth = d then 0 else 0) = 0 := by split <;> rfl
        rw [this]; rfl
      · obtain ⟨δ, h1, h2⟩ := ih
        refine ⟨δ, by simp only [List.length_cons]; omega, fun d => ?_⟩
        rw [cntD_cons, cntD_cons, h2 d]; omega

theorem enqOne_layers (n : Nat) (dedup : Bool) (st : SeqSt S) (c : SubP S) (hc : c.depth ≤ n)
    (hL : LayersOk n st.openByLayer st.fringe) :
    LayersOk n (enqOne dedup st c).openByLayer (enqOne dedup st c).fringe ∧
    (enqOne dedup st c).crashed = st.crashed := by
  unfold enqOne
  simp only
  split
  · obtain ⟨δ, h1, h2⟩ := pushSpec_cnt dedup st.fringe c
    have hδ : (pushSpec dedup st.fringe c).length - st.fringe.length = δ := by omega
    rw [hδ]
    unfold bumpLayer
    rw [hL.2 c.depth hc]
    simp only
    refine ⟨⟨by rw [List.length_set]; exact hL.1, fun d hd => ?_⟩, by first | rfl | trivial⟩
    rw [List.getElem?_set, h2 d]
    have hlen : c.depth < st.openByLayer.length := by rw [hL.1]; omega
    by_cases hcd : c.depth = d
    · simp only [hcd, if_true]
      rw [if_pos (by rw [← hcd]; exact hlen)]
    · simp only [hcd, if_false]
      rw [hL.2 d hd]; simp
  · exact ⟨hL, rfl⟩

theorem enqueue_layers (n : Nat) (dedup : Bool) (cs : List (SubP S)) (hcs : ∀ c ∈ cs, c.depth ≤ n) :
    ∀ (st : SeqSt S), LayersOk n st.openByLayer st.fringe →
      LayersOk n (st.enqueue dedup cs).openByLayer (st.enqueue dedup cs).fringe ∧
      (st.enqueue dedup cs).crashed = st.crashed := by
  induction cs with
  | nil => intro st hL; exact ⟨hL, rfl⟩
  | cons c cs ih =>
    intro st hL
    rw [enqueue_eq_foldl, List.foldl_cons, ← enqueue_eq_foldl]
    obtain ⟨h1, h2⟩ := enqOne_layers n dedup st c (hcs c List.mem_cons_self) hL
    obtain ⟨h3, h4⟩ := ih (fun c hc => hcs c (List.mem_cons_of_mem _ hc)) _ h1
    exact ⟨h3, h4.trans h2⟩

theorem updateBest_crashed (st : SeqSt S) (o : DDOut S) : (st.updateBest o).crashed = st.crashed := by
  unfold SeqSt.updateBest
  split
  · split <;> rfl
  · rfl

/-- `process_one_node` (no cutoff) keeps the bookkeeping exact and does not panic, provided the cut-set nodes are not
    deeper than `n = nb_variables` -/
theorem process_layers (n : Nat) (dedup : Bool) (st : SeqSt S) (N : SubP S) (me : Bool) (r x : DDOut S)
    (hcs : ∀ c ∈ x.cutset, c.depth ≤ n) (hL : LayersOk n st.openByLayer st.fringe) :
    LayersOk n (st.process dedup N me (.ok r) (.ok x)).1.openByLayer (st.process dedup N me (.ok r) (.ok x)).1.fringe ∧
    (st.process dedup N me (.ok r) (.ok x)).1.crashed = st.crashed := by
  have u1 := updateBest_fringe st r
  have u2 := updateBest_fringe (st.updateBest r) x
  have hL1 : LayersOk n (st.updateBest r).openByLayer (st.updateBest r).fringe := by
    rw [u1.1, u1.2.2.2.1]; exact hL
  have hL2 : LayersOk n ((st.updateBest r).updateBest x).openByLayer ((st.updateBest r).updateBest x).fringe := by
    rw [u2.1, u2.2.2.2.1]; exact hL1
  have c1 := updateBest_crashed st r
  have c2 := updateBest_crashed (st.updateBest r) x
  unfold SeqSt.process
  split
  · exact ⟨hL, rfl⟩
  · split
    · exact ⟨hL, rfl⟩
    · simp only
      split
      · exact ⟨hL1, c1⟩
      · split
        · exact ⟨hL2, c2.trans c1⟩
        · obtain ⟨h3, h4⟩ := enqueue_layers n dedup x.cutset hcs _ hL2
          exact ⟨h3, h4.trans (c2.trans c1)⟩

omit [DecidableEq S] in
/-- the pop: the cell of the popped node is positive (no underflow), the bookkeeping stays exact -/
theorem afterPop_layers (n : Nat) (s : SeqSt S) (N : SubP S) (rest : List (SubP S)) (fa : Nat) (hN : N.depth ≤ n)
    (hpop : s.fringe.Perm (N :: rest)) (hL : LayersOk n s.openByLayer s.fringe) :
    LayersOk n (({ s with fringe := rest, firstActive := fa } : SeqSt S).afterPop N).openByLayer
      (({ s with fringe := rest, firstActive := fa } : SeqSt S).afterPop N).fringe ∧
    (({ s with fringe := rest, firstActive := fa } : SeqSt S).afterPop N).crashed = s.crashed := by
  have hc : s.openByLayer[N.depth]? = some (cntD rest N.depth + 1) := by
    rw [hL.2 N.depth hN, cntD_perm hpop, cntD_cons, if_pos rfl]
  unfold SeqSt.afterPop decLayer
  simp only [hc]
  rw [if_neg (by omega)]
  simp only
  refine ⟨⟨by rw [List.length_set]; exact hL.1, fun d hd => ?_⟩, by first | rfl | trivial⟩
  rw [List.getElem?_set]
  have hlen : N.depth < s.openByLayer.length := by rw [hL.1]; omega
  by_cases hcd : N.depth = d
  · simp only [hcd, if_true]
    rw [if_pos (by rw [← hcd]; exact hlen)]
    subst hcd; simp
  · simp only [hcd, if_false]
    rw [hL.2 d hd, cntD_perm hpop, cntD_cons, if_neg hcd]; rfl

theorem init_layers (P : Problem S) (dedup : Bool) :
    LayersOk P.nbVars (SeqSt.init P none dedup).openByLayer (SeqSt.init P none dedup).fringe ∧
    (SeqSt.init P none dedup).crashed = false := by
  have hfr : (SeqSt.init P none dedup).fringe = [⟨P.init, P.initVal, [], iMax, 0⟩] := by
    cases dedup <;> rfl
  have hl : (SeqSt.init P none dedup).openByLayer = (List.replicate (P.nbVars + 1) 0).set 0 1 := by
    unfold SeqSt.init bumpLayer
    simp
  rw [hfr, hl]
  refine ⟨⟨by simp, fun d hd => ?_⟩, rfl⟩
  rw [List.getElem?_set, cntD_cons]
  by_cases h0 : 0 = d
  · subst h0; simp [cntD]
  · have : ¬ ((⟨P.init, P.initVal, [], iMax, 0⟩ : SubP S).depth = d) := h0
    simp only [h0, if_false]
    rw [List.getElem?_replicate, if_pos (by omega)]; rfl

end Ddo.Closed
