import DdoModel.Proofs.CompatTheta
import DdoModel.Proofs.CompatProcessRel
/-! C10e — **`JCTheta` from the top-down invariant with both filters** (`BuiltOkJoint`).

`BuiltOkJoint`: the one remaining obligation about the compilation *loop* — every relaxed compilation with cache and checker that
satisfies `CompPre` ends on a diagram satisfying `BuiltOkJ` (`Proofs/CompatTheta.lean`: `Ddo.Theta.BuiltOk` / `TInv` with the class
`Drop` of the nodes dropped by `_filter_with_dominance`), for the pseudo-potential `gpot` and the level `opt - 1`.
`jcThetaX_of : BuiltOkJoint → JCThetaX`, `jcTheta_of : BuiltOkJoint → JCTheta` (restricted exact compilations:
`jcTheta_of_relaxed`, `Proofs/CompatProcessRel.lean`). -/
set_option linter.unusedSectionVars false
set_option linter.unusedVariables false
namespace Ddo.C10d
open Ddo Ddo.C01 Ddo.Closed Ddo.C09 Ddo.C10 Ddo.C10c Ddo.Truth Ddo.Theta Ddo.Bounds

/-- **the top-down obligation**: for every relaxed compilation with cache and checker of an exactly reached sub-problem `N`, from a
    checker holding exactly reached items, that ends normally with an incumbent below `opt` (`CompPre`), the diagram the loop ends
    on is — seen through some classification `Live` (handed to the expansion) / `Drop` (dropped by the checker) of the positions and
    some state `dd` of the loop — a diagram satisfying the invariant `TInvJ` for the pseudo-potential `gpot` at the level `opt - 1`:
    every node of every layer is deleted, or pruned by the cache with the cached threshold (`CacheFacts`), or dropped by the
    checker with a threshold `thr` such that no `(state, v)`, `v ≤ thr`, nor `(state, value)` is hot (`ClsJ.drop`), or alive with
    the step fact `StepU` for `gpot`.  (Single-mechanism version: `Ddo.Theta.compile_doneT` + `builtOk_of_done`, from
    `HypT` with `dom = none` and `Potential`.) -/
def BuiltOkJoint : Prop :=
  ∀ (S K : Type) [DecidableEq S] [DecidableEq K] (dv : DSolverCfg S K) (H : Nat → S → EInt) (B0 B opt : Int) (n : Nat),
    MonoHyp dv H B0 B opt n →
    ∀ (N : SubP S) (lb : Int) (cache : Cache S) (store : DomStore S K) (p0 : List Dec),
      CompPre dv opt .relaxed N lb cache store p0 →
      ∃ (Live Drop : Nat → Nat → Prop) (dd : DD S K),
        BuiltOkJ (dv.kdcfg .relaxed N lb) (gpot dv.D dv.sv.P n opt B) B cache (opt - 1)
          (buildLoop (dv.kdcfg .relaxed N lb) none (dv.sv.P.nbVars + 2) (initDD (dv.kdcfg .relaxed N lb) cache store 0)).1
          Live Drop dd

section
variable {S K : Type} [DecidableEq S] [DecidableEq K]

/-- `B ≤ 2^61`: twice `B` fits -/
theorem noClamp_two {P : Problem S} {R : Relax S} {rv B : Int} (h : NoClamp P R rv B) : 2 * B ≤ 4611686018427387904 := by
  have h1 := h.small
  have h0 := h.nonneg
  have : 0 ≤ (P.nbVars : Int) * B := Int.mul_nonneg (by omega) h0
  have e : ((P.nbVars : Int) + 2) * B = (P.nbVars : Int) * B + 2 * B := by rw [Int.add_mul]
  rw [e] at h1
  omega

/-- the hypotheses of the reading hold of the pseudo-potential -/
theorem hypTJ_gpot {dv : DSolverCfg S K} {H : Nat → S → EInt} {B0 B opt : Int} {n : Nat} (hM : MonoHyp dv H B0 B opt n)
    {N : SubP S} {lb : Int} {p0 : List Dec} (hroot : Reach dv.sv.P N.depth N.state N.value p0) :
    HypTJ (dv.kdcfg .relaxed N lb) (gpot dv.D dv.sv.P n opt B) B := by
  have hBN : NoClamp dv.sv.P dv.sv.R N.value B := hM.wf.bound.noClamp_at hM.wf.nv hroot
  refine ⟨rfl, hBN, ?_, ?_⟩
  · intro k L s h hnv hs hg
    exact gpot_term_L hM.ghyp k L s h hnv hs hg
  · intro k s h hg
    have h1 := gpot_within hM.ghyp hg
    have h2 := (opt_bound hM.wf.pot hM.wf.nv hM.wf.bound hM.opt).2
    have h3 := noClamp_two hBN
    unfold iMax
    omega

end

/-- **`JCThetaX` from the top-down obligation** -/
theorem jcThetaX_of (hB : BuiltOkJoint) : JCThetaX := by
  intro S K _ _ dv H B0 B opt n hM N lb cache store p0 hpre u hu v hrg hvt hot
  have hu' : u ∈ (compile (dv.kdcfg .relaxed N lb) cache store 0 none).2.1.cacheUpdates := List.mem_reverse.mp hu
  obtain ⟨Live, Drop, dd, hbo⟩ := hB S K dv H B0 B opt n hM N lb cache store p0 hpre
  have hBN : NoClamp dv.sv.P dv.sv.R N.value B := hM.wf.bound.noClamp_at hM.wf.nv hpre.root
  have hk0 : N.depth ≤ dv.sv.P.nbVars := reach_depth_le hM.wf.nv hpre.root
  have hbk := hpre.bk
  obtain ⟨_, e, hre⟩ := compile_results (dv.kdcfg .relaxed N lb) cache store 0 none hpre.ok _ (.inl rfl)
  have hwf := compile_wf (dv.kdcfg .relaxed N lb) B p0 hBN hpre.root cache store 0 none
  have hinv2 := (buildLoop_inv2 (dv.kdcfg .relaxed N lb) B p0 hBN none ((dv.kdcfg .relaxed N lb).P.nbVars + 2)
    (initDD (dv.kdcfg .relaxed N lb) cache store 0)
    (initDD_inv (dv.kdcfg .relaxed N lb) B p0 hBN hpre.root cache store 0) (initDD_inv2 (dv.kdcfg .relaxed N lb) cache store 0) rfl
    (by simp only [initDD, List.length_nil]; omega)).2
  rw [hre] at hbk hu' ⊢
  have hx : CtxJ (dv.kdcfg .relaxed N lb) (gpot dv.D dv.sv.P n opt B) B cache (opt - 1) p0 _ Live Drop dd :=
    ⟨hypTJ_gpot hM hpre.root, hbo, hwf, hinv2⟩
  have hoptB := (opt_bound hM.wf.pot hM.wf.nv hM.wf.bound hM.opt).2
  have h2B := noClamp_two hBN
  have hlb : (dv.kdcfg .relaxed N lb).lb < iMax := by
    have := bkOf_ge lb (finalize (dv.kdcfg .relaxed N lb) (finalizeLayers
      (buildLoop (dv.kdcfg .relaxed N lb) none ((dv.kdcfg .relaxed N lb).P.nbVars + 2)
        (initDD (dv.kdcfg .relaxed N lb) cache store 0)).1) e).1.bestExactValue
    have h0 := hBN.nonneg
    show lb < iMax
    unfold iMax
    omega
  obtain ⟨h1, h2⟩ := hx.theta_sound (gpot_RubOk hM.ghyp hM.mono hM.wf.rub) hlb ((N.depth : Int) * B)
    (Int.mul_nonneg (by omega) hBN.nonneg) (bd_shift_small hBN _ hk0) e (Int.le_sub_one_of_lt hbk) u hu'
  obtain ⟨h, hH, hge⟩ := hot
  have h1' : N.depth ≤ u.2.1 := h1
  rcases h2 v h (by
      show Cover.Within ((N.depth : Int) * B + Cover.Bd B (u.2.1 - N.depth)) v
      rw [bd_shift B _ _ h1']; exact hrg) hvt hH with a | ⟨c, hc, hdc, y, hy, hle⟩ | ⟨_, s', d', t, v', h', a1, a2, a3, a4, a5, a6⟩
  · omega
  · left
    refine ⟨c, hc, hdc, ?_⟩
    cases hg : gpot dv.D dv.sv.P n opt B c.depth c.state with
    | none => rw [hg] at hy; cases hy
    | some hc' =>
      rw [hg] at hy
      simp only [EInt.addI, Option.map_some] at hy
      cases hy
      exact ⟨hc', hg, by omega⟩
  · right
    refine ⟨s', d', t, v', ?_, a2, ?_, a4, h', a5, by omega⟩
    · unfold viewOf; rw [a1]; rfl
    · unfold RgB
      have : N.depth ≤ d' := by omega
      have a3' : Cover.Within ((N.depth : Int) * B + Cover.Bd B (d' - N.depth)) v' := a3
      rw [bd_shift B N.depth d' this] at a3'
      exact a3'

/-- **`JCTheta` from the top-down obligation** -/
theorem jcTheta_of (hB : BuiltOkJoint) : JCTheta := jcTheta_of_relaxed (jcThetaX_of hB)

end Ddo.C10d

#print axioms Ddo.C10d.jcThetaX_of
#print axioms Ddo.C10d.jcTheta_of
