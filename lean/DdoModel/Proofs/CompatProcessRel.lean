import DdoModel.Proofs.CompatProcess
/-! C10e — **the contract is needed for relaxed compilations only**.  A restricted compilation that is exact squashed no layer: it *is*
the relaxed compilation of the same input (`Ddo.CacheClosed.restricted_exact_as_relaxed`, any cache and checker): same diagram, same
best exact value, same cache updates, both cut-sets empty.  So a field of the contract that reads the output only through `isExact`
and `cutset` holds of every compilation that counts as soon as it holds of the relaxed ones: `fieldHolds_of_relaxed`, and the four
remaining statements restricted to relaxed compilations — `JCThetaX`, `JCRootX`, `JCUbX`, `JCFreshX` — imply `JCTheta`, `JCRoot`,
`JCUb`, `JCFresh`. -/
set_option linter.unusedSectionVars false
set_option linter.unusedVariables false
namespace Ddo.C10d
open Ddo Ddo.C01 Ddo.Closed Ddo.C09 Ddo.C10 Ddo.C10c Ddo.Truth

section
variable (F : ∀ {S K : Type} [DecidableEq S] [DecidableEq K] (dv : DSolverCfg S K) (B opt : Int) (n : Nat) (N : SubP S) (T : CView S)
  (o : DDOut S) (ups : List (S × Nat × Int × Bool)), Prop)

/-- "the field `F` holds of every **relaxed** compilation with cache and checker" -/
def FieldHoldsX : Prop :=
  ∀ (S K : Type) [DecidableEq S] [DecidableEq K] (dv : DSolverCfg S K) (H : Nat → S → EInt) (B0 B opt : Int) (n : Nat),
    MonoHyp dv H B0 B opt n →
    ∀ (N : SubP S) (lb : Int) (cache : Cache S) (store : DomStore S K) (p0 : List Dec),
      CompPre dv opt .relaxed N lb cache store p0 →
      F dv B opt n N (viewOf cache) (toOut (compile (dv.kdcfg .relaxed N lb) cache store 0 none).2.1)
        (compile (dv.kdcfg .relaxed N lb) cache store 0 none).2.1.cacheUpdates.reverse

/-- a field that reads the output through `isExact` and `cutset` only holds of every compilation that counts as soon as it holds of
    the relaxed ones -/
theorem fieldHolds_of_relaxed
    (hF : ∀ {S K : Type} [DecidableEq S] [DecidableEq K] (dv : DSolverCfg S K) (B opt : Int) (n : Nat) (N : SubP S) (T : CView S)
      (o o' : DDOut S) (ups : List (S × Nat × Int × Bool)), o.isExact = o'.isExact → o.cutset = o'.cutset →
      F dv B opt n N T o ups → F dv B opt n N T o' ups)
    (h : FieldHoldsX F) : FieldHolds F := by
  intro S K _ _ dv H B0 B opt n hM ct N lb cache store p0 hpre
  rcases hpre.counts with rfl | ⟨rfl, hex⟩
  · exact h S K dv H B0 B opt n hM N lb cache store p0 hpre
  · have hBN : NoClamp dv.sv.P dv.sv.R N.value B := hM.wf.bound.noClamp_at hM.wf.nv hpre.root
    obtain ⟨h1, h2, h3, h4, h5, h6⟩ := Ddo.CacheClosed.restricted_exact_as_relaxed (dv.kdcfg .restricted N lb) B p0 cache store 0 none rfl
      hBN hpre.root hpre.ok hex
    have ecfg : ({ (dv.kdcfg .restricted N lb) with ctype := .relaxed } : Cfg S K) = dv.kdcfg .relaxed N lb := rfl
    rw [ecfg] at h1 h2 h3 h4 h6
    have hpreX : CompPre dv opt .relaxed N lb cache store p0 :=
      ⟨hpre.root, hpre.sreach, hpre.slen, hpre.clen, h1, by rw [h3]; exact hpre.bk, Or.inl rfl⟩
    have := h S K dv H B0 B opt n hM N lb cache store p0 hpreX
    rw [h4] at this
    exact hF dv B opt n N (viewOf cache) _ _ _ (by show (compile _ _ _ _ _).2.1.isExact = (compile _ _ _ _ _).2.1.isExact; rw [h2, hex])
      (by show (compile _ _ _ _ _).2.1.cutset = (compile _ _ _ _ _).2.1.cutset; rw [h6, h5]) this

end

/-- `JCTheta` for relaxed compilations -/
def JCThetaX : Prop :=
  FieldHoldsX (fun {S K} _ _ dv B opt n N T o ups =>
    ∀ u ∈ ups, ∀ v, RgB B u.2.1 v → v ≤ u.2.2.1 → Hot (gpot dv.D dv.sv.P n opt B) opt u.2.1 u.1 v →
      (∃ c ∈ o.cutset, u.2.1 ≤ c.depth ∧ HotN (gpot dv.D dv.sv.P n opt B) opt c) ∨
      HitO (gpot dv.D dv.sv.P n opt B) opt (RgB B) T u.2.1)

/-- `JCRoot` for relaxed compilations -/
def JCRootX : Prop :=
  FieldHoldsX (fun {S K} _ _ dv B opt n N T o ups =>
    HotN (gpot dv.D dv.sv.P n opt B) opt N →
      (o.isExact = true → HitO (gpot dv.D dv.sv.P n opt B) opt (RgB B) T N.depth) ∧
      (o.isExact = false → (∃ c ∈ o.cutset, HotN (gpot dv.D dv.sv.P n opt B) opt c) ∨
        HitO (gpot dv.D dv.sv.P n opt B) opt (RgB B) T N.depth))

/-- `JCUb` for relaxed compilations -/
def JCUbX : Prop :=
  FieldHoldsX (fun {S K} _ _ dv B opt n N T o ups =>
    ∀ c ∈ o.cutset, HotN (gpot dv.D dv.sv.P n opt B) opt c → opt ≤ c.ub ∨ HitO (gpot dv.D dv.sv.P n opt B) opt (RgB B) T c.depth)

/-- `JCFresh` for relaxed compilations -/
def JCFreshX : Prop :=
  FieldHoldsX (fun {S K} _ _ dv B opt n N T o ups => ∀ c ∈ o.cutset, opt ≤ c.ub → ¬ prunM (T.upds ups) c)

theorem jcTheta_of_relaxed (h : JCThetaX) : JCTheta :=
  fieldHolds_of_relaxed _ (fun dv B opt n N T o o' ups _ hc hf => by rw [← hc]; exact hf) h

theorem jcRoot_of_relaxed (h : JCRootX) : JCRoot :=
  fieldHolds_of_relaxed _ (fun dv B opt n N T o o' ups he hc hf => by rw [← hc, ← he]; exact hf) h

theorem jcUb_of_relaxed (h : JCUbX) : JCUb :=
  fieldHolds_of_relaxed _ (fun dv B opt n N T o o' ups _ hc hf => by rw [← hc]; exact hf) h

theorem jcFresh_of_relaxed (h : JCFreshX) : JCFresh :=
  fieldHolds_of_relaxed _ (fun dv B opt n N T o o' ups _ hc hf => by rw [← hc]; exact hf) h

end Ddo.C10d

#print axioms Ddo.C10d.fieldHolds_of_relaxed
#print axioms Ddo.C10d.jcTheta_of_relaxed
#print axioms Ddo.C10d.jcRoot_of_relaxed
#print axioms Ddo.C10d.jcUb_of_relaxed
#print axioms Ddo.C10d.jcFresh_of_relaxed
