import DdoModel.Proofs.ParDomOpReach
import DdoModel.Proofs.ParDomOpSpec
import DdoModel.Proofs.ParDomLSysDefs
/-! # The parallel solver with the shared dominance checker — compilations that interleave ONE `is_dominated_or_insert` AT A TIME

`OSys`: the shared `Critical` record and the workers (`ParSys.Sys`), **the shared store**, and per worker the progress of its current
compilation (`OProg`): between two layers (`between dd k ops`: the diagram, the number of operations performed so far, the
operations), or inside the `_filter_with_dominance` loop of a layer (`inLayer …`: the positions still to be presented, in the order
of the sort, and the accumulator of the loop).  `OStep`:
* `sec`: a critical section of `ParSys` (they do not touch the checker);
* `enter`: worker `i` starts the next layer of its compilation (`next_variable`, sort of the layer; no access to the store);
* `op`: worker `i` presents the NEXT node of its layer to the shared store: **one atomic `is_dominated_or_insert` on the shared store
  as it is now** (`DomStore.query`), which leaves it updated (an inexact node is skipped without touching the store);
* `leave`: the layer is filtered: restrict / relax, expansion (`stepTailO`); no access to the store;
* `finish`: the loop of the compilation ends (no next variable, or the layer is empty); the worker goes on with `resultOf`.
Between two `op` steps of a worker any number of steps of the other workers take place. -/
set_option linter.unusedSectionVars false
set_option linter.unusedVariables false
namespace Ddo.ParDom
open Ddo Ddo.Truth Ddo.Closed Ddo.ParSys Ddo.ParClosed Ddo.C10
open Ddo.C01 (SolverCfg WellFormed toOut SolOf)
variable {S K : Type} [DecidableEq S] [DecidableEq K]

/-- progress of a compilation -/
inductive OProg (S K : Type)
  /-- between two layers: the diagram, the operation counter, the operations performed so far -/
  | between (dd : DD S K) (k : Nat) (ops : List (Op S))
  /-- inside the filter loop of the layer of `dd` (already ticked) for the variable `var`: positions still to be presented, the
      accumulator `(layer, survivors, counter, flag, operations of this layer)` -/
  | inLayer (dd : DD S K) (var : Nat) (ops : List (Op S)) (rest : List Nat)
      (acc : List (Node S) × List Nat × Nat × Bool × List (Op S))

structure OSys (S K : Type) where
  sys : Sys S
  store : DomStore S K
  prog : List (Option (OProg S K))

def OSys.init (dv : DSolverCfg S K) (U : Nat) : OSys S K :=
  ⟨Sys.init dv.sv.P none dv.sv.dedup U, DomStore.init dv.sv.P.nbVars, List.replicate U none⟩

/-- the progress of a compilation that has not started -/
def oprogOf (dv : DSolverCfg S K) (cfg : Cfg S K) (pr : Option (OProg S K)) : OProg S K :=
  pr.getD (.between (initDD cfg (Cache.init dv.sv.P.nbVars) (DomStore.init dv.sv.P.nbVars) 0) 0 [])

/-- the shared store after the node at position `p` of the accumulator's layer has been presented to it -/
def storeAfter (D : DomRule S K) (st : DomStore S K) (ly : List (Node S)) (p : Nat) : DomStore S K :=
  match ly[p]? with
  | none => st
  | some n =>
    if n.isExact then
      match DomStore.query D st n.state n.depth n.value with
      | none => st
      | some (st', _, _) => st'
    else st

inductive OStep (dv : DSolverCfg S K) : OSys S K → OSys S K → Prop
  | sec (s : OSys S K) (t : Sys S)
      (h : Step dv.sv.dedup (fun _ _ _ => False) (fun _ _ _ => False) s.sys t) (hna : NoAbortS t) :
      OStep dv s ⟨t, s.store, s.prog⟩
  | enter (s : OSys S K) (i : Nat) (w : WSt S) (cfg : Cfg S K) (pr : Option (OProg S K)) (dd : DD S K) (k : Nat)
      (ops : List (Op S)) (var : Nat)
      (hw : s.sys.ws[i]? = some w) (hc : cfgOf dv w = some cfg) (hp : s.prog[i]? = some pr)
      (hb : oprogOf dv cfg pr = .between dd k ops)
      (hnv : cfg.P.nextVar dd.depth (dd.next.map (·.state)) = some var) (hne : dd.next.isEmpty = false) :
      OStep dv s ⟨s.sys, s.store, s.prog.set i (some (.inLayer (tick dd var) var ops
        (fdSorted dv.D (fcOf cfg (tick dd var)).1 (fcOf cfg (tick dd var)).2)
        ((fcOf cfg (tick dd var)).1, [], k, true, [])))⟩
  | op (s : OSys S K) (i : Nat) (w : WSt S) (cfg : Cfg S K) (dd : DD S K) (var : Nat) (ops : List (Op S)) (p : Nat)
      (rest : List Nat) (acc : List (Node S) × List Nat × Nat × Bool × List (Op S))
      (hw : s.sys.ws[i]? = some w) (hc : cfgOf dv w = some cfg)
      (hp : s.prog[i]? = some (some (.inLayer dd var ops (p :: rest) acc))) :
      OStep dv s ⟨s.sys, storeAfter dv.D s.store acc.1 p,
        s.prog.set i (some (.inLayer dd var ops rest (fdStepO dv.D (fun _ => s.store) acc p)))⟩
  | leave (s : OSys S K) (i : Nat) (w : WSt S) (cfg : Cfg S K) (dd : DD S K) (var : Nat) (ops : List (Op S))
      (acc : List (Node S) × List Nat × Nat × Bool × List (Op S)) (dd' : DD S K) (k' : Nat) (ops' : List (Op S))
      (hw : s.sys.ws[i]? = some w) (hc : cfgOf dv w = some cfg)
      (hp : s.prog[i]? = some (some (.inLayer dd var ops [] acc)))
      (hst : stepTailO cfg dd ops var (fcOf cfg dd) acc = (some (dd', k', ops'), .ok)) :
      OStep dv s ⟨s.sys, s.store, s.prog.set i (some (.between dd' k' ops'))⟩
  | finish (s : OSys S K) (i : Nat) (w : WSt S) (cfg : Cfg S K) (pr : Option (OProg S K)) (dd : DD S K) (k : Nat)
      (ops : List (Op S)) (fin : DD S K)
      (hw : s.sys.ws[i]? = some w) (hc : cfgOf dv w = some cfg) (hp : s.prog[i]? = some pr)
      (hb : oprogOf dv cfg pr = .between dd k ops)
      (hfin : (cfg.P.nextVar dd.depth (dd.next.map (·.state)) = none ∧
          fin = { dd with log := Call.nextVar dd.depth (dd.next.map (·.state)) none :: dd.log }) ∨
        (∃ var, cfg.P.nextVar dd.depth (dd.next.map (·.state)) = some var ∧ dd.next.isEmpty = true ∧
          fin = { tick dd var with layers := dd.layers ++ [[]] })) :
      OStep dv s ⟨{ crit := s.sys.crit, ws := s.sys.ws.set i (afterComp (toOut (resultOf cfg fin)) w) }, s.store,
        s.prog.set i none⟩

inductive ORun (dv : DSolverCfg S K) : OSys S K → OSys S K → Prop
  | refl (s : OSys S K) : ORun dv s s
  | tail {s t u : OSys S K} : ORun dv s t → OStep dv t u → ORun dv s u

end Ddo.ParDom
