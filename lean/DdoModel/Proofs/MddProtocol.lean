import DdoModel.Props.C12
import DdoModel.Proofs.MddCover
import DdoModel.Proofs.MddCutset
/-! # C12 over whole compilations: the callback protocol of the diagram compiler

`Props/C12.lean` proves two *local* facts (the calls logged by `expandAll` and by `relaxLayer` are coherent).
This file proves the protocol for the whole top-down compilation `buildLoop` (any compilation type, any
cache / dominance configuration, any width, any cutoff, any fuel):

* the chronological log (`dd.log.reverse`) is a sequence of *layer blocks* (`Blocks`); block number `j`
  starts with `Call.nextVar (rootDepth + j) states ans` — the depth handed to `next_variable` is the
  number of completed layers below the root of the compilation — and `ans = P.nextVar _ states`;
* inside the block of a layer whose variable is `var` every call satisfies `CallOk` *relative to the
  calls that precede it in the block* (`BodyOk`): domains / transitions / costs only for `var`, only on
  states of the layer (`InLayer`: a state handed to `next_variable` or the result of a `merge` of the
  block), `dst = transition (src, d)`, `d ∈ domain`, `transition` after the domain enumeration of its
  state, `transition_cost` right after its `transition`; `merge` — the first call of its block, hence at
  most one per layer — over at least two states of the layer; every `relax` after the `merge` that produced its `merged` argument, with `dst` among the merged
  states **and** `(src, dst, d, cost)` an arc created by the previous block: `transition_cost src dst d`
  was called in the previous block, `dst = transition (src, d)`, `d ∈ domain`, `cost = P.cost src dst d`;
* the states handed to `next_variable` in block `j + 1` are destinations of `transition_cost` calls of
  block `j` (`StatesOk`).

Structure of the proof: `LogOk` (a predicate on a chronological list of calls in which every call is
judged against its predecessors) with `cons` / `append` rules; the log *delta* of every piece of
`stepLayer` (`expandAll_log`, `relaxLayer_log`, the filters do not log and only shrink `cur`:
`filterCache_keep`, `filterDom_keep`); the loop invariant `LoopInv` (every inbound arc of a node of
`dd.next` was created by `branchOn` during the previous block, with the cost of the model);
`stepLayer_log`, `buildLoop_blocks`.  The user-facing statements are in `Props/C12b.lean`. -/
set_option linter.unusedSectionVars false
set_option linter.unusedVariables false
namespace Ddo.C12
open Ddo
variable {S K : Type} [DecidableEq S] [DecidableEq K]

/-! ## the protocol predicate -/

/-- `s` is a state of the layer being processed: one of the states handed to `next_variable`, or the
    result of a `merge` call issued earlier in the same block (`pre` = the calls of the block so far) -/
def InLayer (states : List S) (pre : List (Call S)) (s : S) : Prop :=
  s ∈ states ∨ ∃ sts, Call.merge sts s ∈ pre

/-- the arc `src —d,c→ dst` was created by the block `pb`: its `transition_cost` was computed there and
    `c` is that cost -/
def ArcFrom (P : Problem S) (pb : List (Call S)) (src dst : S) (d : Dec) (c : Int) : Prop :=
  Call.cost src dst d ∈ pb ∧ dst = P.trans src d ∧ d.val ∈ P.domain d.var src ∧ c = P.cost src dst d

/-- one call of the block of a layer (`var` = answer of `next_variable` on `states`; `prev` = the calls of the
    previous block, `none` for the first block of the compilation; `pre` = the calls that precede it in its block) -/
def CallOk (P : Problem S) (R : Relax S) (var : Nat) (states : List S) (prev : Option (List (Call S)))
    (pre : List (Call S)) : Call S → Prop
  | .nextVar _ _ _ => False
  | .rub s => InLayer states pre s
  | .domain v s => v = var ∧ InLayer states pre s
  | .trans s d => d.var = var ∧ d.val ∈ P.domain var s ∧ InLayer states pre s ∧ Call.domain var s ∈ pre
  | .cost s t d => d.var = var ∧ d.val ∈ P.domain var s ∧ t = P.trans s d ∧ InLayer states pre s ∧
      ∃ pre', pre = pre' ++ [Call.trans s d]
  | .merge sts res => pre = [] ∧ res = R.merge sts ∧ 2 ≤ sts.length ∧ ∀ s ∈ sts, s ∈ states
  | .relax src dst merged d c =>
      (∃ sts, Call.merge sts merged ∈ pre ∧ dst ∈ sts) ∧
      ∃ pb, prev = some pb ∧ ArcFrom P pb src dst d c
  | .impacted _ _ => False

/-- a chronological list of calls in which every call satisfies `Q` relative to its predecessors
    (`pre0` = what precedes the whole list) -/
def LogOk (Q : List (Call S) → Call S → Prop) (pre0 body : List (Call S)) : Prop :=
  ∀ pre c post, body = pre ++ c :: post → Q (pre0 ++ pre) c

/-- the calls of one layer block (everything between two `next_variable` calls) -/
def BodyOk (P : Problem S) (R : Relax S) (var : Nat) (states : List S) (prev : Option (List (Call S)))
    (body : List (Call S)) : Prop :=
  LogOk (CallOk P R var states prev) [] body

/-- the states handed to `next_variable` are destinations of transitions of the previous block -/
def StatesOk (prev : Option (List (Call S))) (states : List S) : Prop :=
  ∀ pb, prev = some pb → ∀ s ∈ states, ∃ src d, Call.cost src s d ∈ pb

/-- `Blocks P R k prev log`: `log` (chronological) is a sequence of layer blocks, the first of which is at depth `k`
    and is preceded by the block `prev` -/
inductive Blocks (P : Problem S) (R : Relax S) : Nat → Option (List (Call S)) → List (Call S) → Prop
  | done (k : Nat) (prev : Option (List (Call S))) : Blocks P R k prev []
  | last (k : Nat) (prev : Option (List (Call S))) (states : List S) :
      P.nextVar k states = none → StatesOk prev states →
      Blocks P R k prev [Call.nextVar k states none]
  | block (k : Nat) (prev : Option (List (Call S))) (states : List S) (var : Nat) (body rest : List (Call S)) :
      P.nextVar k states = some var → StatesOk prev states →
      BodyOk P R var states prev body → Blocks P R (k + 1) (some body) rest →
      Blocks P R k prev (Call.nextVar k states (some var) :: (body ++ rest))

/-- **the callback protocol** on the chronological log of a compilation whose root is at depth `rootDepth` -/
def ProtocolOk (P : Problem S) (R : Relax S) (rootDepth : Nat) (log : List (Call S)) : Prop :=
  Blocks P R rootDepth none log

/-! ## rules for `LogOk` -/

theorem LogOk.nil (Q : List (Call S) → Call S → Prop) (pre0 : List (Call S)) : LogOk Q pre0 [] := by
  intro pre c post h
  cases pre <;> cases h

theorem LogOk.cons_iff {Q : List (Call S) → Call S → Prop} {pre0 : List (Call S)} {x : Call S} {body : List (Call S)} :
    LogOk Q pre0 (x :: body) ↔ Q pre0 x ∧ LogOk Q (pre0 ++ [x]) body := by
  constructor
  · intro h
    refine ⟨?_, ?_⟩
    · have := h [] x body rfl
      rwa [List.append_nil] at this
    · intro pre c post hb
      have := h (x :: pre) c post (by rw [hb]; rfl)
      rwa [List.append_assoc, List.singleton_append]
  · rintro ⟨h1, h2⟩ pre c post hb
    cases pre with
    | nil =>
      simp only [List.nil_append, List.cons.injEq] at hb
      rw [List.append_nil, ← hb.1]; exact h1
    | cons y pre' =>
      simp only [List.cons_append, List.cons.injEq] at hb
      have := h2 pre' c post hb.2
      rw [List.append_assoc, List.singleton_append] at this
      rw [← hb.1]; exact this

theorem LogOk.append_iff {Q : List (Call S) → Call S → Prop} {A B : List (Call S)} :
    ∀ {pre0 : List (Call S)}, LogOk Q pre0 (A ++ B) ↔ LogOk Q pre0 A ∧ LogOk Q (pre0 ++ A) B := by
  induction A with
  | nil =>
    intro pre0
    simp only [List.nil_append, List.append_nil]
    exact ⟨fun h => ⟨LogOk.nil _ _, h⟩, fun h => h.2⟩
  | cons x A ih =>
    intro pre0
    rw [List.cons_append, LogOk.cons_iff, LogOk.cons_iff, ih, List.append_assoc, List.singleton_append]
    exact ⟨fun ⟨a, b, c⟩ => ⟨⟨a, b⟩, c⟩, fun ⟨⟨a, b⟩, c⟩ => ⟨a, b, c⟩⟩

theorem LogOk.snoc {Q : List (Call S) → Call S → Prop} {pre0 body : List (Call S)} {c : Call S}
    (h : LogOk Q pre0 body) (hc : Q (pre0 ++ body) c) : LogOk Q pre0 (body ++ [c]) :=
  LogOk.append_iff.2 ⟨h, LogOk.cons_iff.2 ⟨hc, LogOk.nil _ _⟩⟩

theorem LogOk.mono {Q Q' : List (Call S) → Call S → Prop} {pre0 pre1 body : List (Call S)}
    (h : LogOk Q pre0 body) (hq : ∀ pre c, c ∈ body → Q (pre0 ++ pre) c → Q' (pre1 ++ pre) c) : LogOk Q' pre1 body := by
  intro pre c post hb
  exact hq pre c (by rw [hb]; exact List.mem_append_right _ List.mem_cons_self) (h pre c post hb)

theorem LogOk.of_forall {Q : List (Call S) → Call S → Prop} {pre0 body : List (Call S)}
    (h : ∀ c ∈ body, ∀ pre, Q (pre0 ++ pre) c) : LogOk Q pre0 body := by
  intro pre c post hb
  exact h c (by rw [hb]; exact List.mem_append_right _ List.mem_cons_self) pre

theorem LogOk.mem {Q : List (Call S) → Call S → Prop} {pre0 body : List (Call S)} (h : LogOk Q pre0 body)
    {c : Call S} (hc : c ∈ body) : ∃ pre post, body = pre ++ c :: post ∧ Q (pre0 ++ pre) c := by
  obtain ⟨pre, post, hb⟩ := List.append_of_mem hc
  exact ⟨pre, post, hb, h pre c post hb⟩

/-! ## generic list facts -/

theorem map_set_same {α β : Type} (f : α → β) (ly : List α) (p : Nat) (n n' : α) (h : ly[p]? = some n)
    (hs : f n' = f n) : (ly.set p n').map f = ly.map f := by
  rw [List.map_set, hs]
  exact Cover.set_same _ _ _ (by rw [List.getElem?_map, h]; rfl)

theorem nodup_insertBy {α : Type} (before : α → α → Bool) (x : α) (l : List α) (hx : x ∉ l) (hl : l.Nodup) :
    (insertBy before x l).Nodup := by
  induction l with
  | nil => simp [insertBy]
  | cons y r ih =>
    have hy := List.nodup_cons.1 hl
    have hxy : x ≠ y := fun h => hx (h ▸ List.mem_cons_self)
    have hxr : x ∉ r := fun h => hx (List.mem_cons_of_mem _ h)
    simp only [insertBy]
    split
    · refine List.nodup_cons.2 ⟨?_, ih hxr hy.2⟩
      rw [mem_insertBy]
      rintro (h | h)
      · exact hxy h.symm
      · exact hy.1 h
    · exact List.nodup_cons.2 ⟨hx, hl⟩

theorem nodup_sortBy {α : Type} (before : α → α → Bool) (l : List α) (hl : l.Nodup) : (sortBy before l).Nodup := by
  unfold sortBy
  have : ∀ (l acc : List α), l.Nodup → acc.Nodup → (∀ a ∈ l, a ∉ acc) →
      (l.foldl (fun acc x => insertBy before x acc) acc).Nodup := by
    intro l
    induction l with
    | nil => intro acc _ h _; exact h
    | cons x xs ih =>
      intro acc hl hacc hdis
      have hx := List.nodup_cons.1 hl
      simp only [List.foldl_cons]
      refine ih _ hx.2 (nodup_insertBy before x acc (hdis x List.mem_cons_self) hacc) ?_
      intro a ha
      rw [mem_insertBy]
      rintro (h | h)
      · exact hx.1 (h ▸ ha)
      · exact hdis a (List.mem_cons_of_mem _ ha) h
  exact this l [] hl List.nodup_nil (fun _ _ h => by cases h)

/-- a fold that only ever appends the current element to a `keep` list yields a sub-list of the list folded over -/
theorem foldl_keep_sublist {β : Type} (f : β → Nat → β) (k : β → List Nat)
    (h : ∀ b p, k (f b p) = k b ∨ k (f b p) = k b ++ [p]) :
    ∀ (cur : List Nat) (b : β), ∃ sub, List.Sublist sub cur ∧ k (cur.foldl f b) = k b ++ sub := by
  intro cur
  induction cur with
  | nil => intro b; exact ⟨[], List.Sublist.refl _, by simp⟩
  | cons p ps ih =>
    intro b
    obtain ⟨sub, hsub, hk⟩ := ih (f b p)
    rw [List.foldl_cons, hk]
    rcases h b p with h1 | h1
    · exact ⟨sub, hsub.cons p, by rw [h1]⟩
    · exact ⟨p :: sub, hsub.cons_cons p, by rw [h1, List.append_assoc, List.singleton_append]⟩

/-! ## the filters do not log; they only flag nodes and shrink `cur` -/

theorem filterCache_keep (cfg : Cfg S K) (cache : Cache S) (layer : List (Node S)) (cur : List Nat) :
    (filterCache cfg cache layer cur).1.map Cover.sig = layer.map Cover.sig ∧
    List.Sublist (filterCache cfg cache layer cur).2 cur := by
  unfold filterCache
  refine ⟨?_, ?_⟩
  · refine Cover.foldl_inv (β := List (Node S) × List Nat) (fun acc => acc.1.map Cover.sig = layer.map Cover.sig) _ _ _ rfl ?_
    rintro ⟨ly, keep⟩ p _ h
    dsimp only at h ⊢
    split
    · exact h
    · rename_i n hn
      split
      · split
        · exact h
        · (dsimp only; refine (map_set_same Cover.sig ly p n _ hn ?_).trans h; rfl)
      · exact h
  · have key : ∀ f : List (Node S) × List Nat → Nat → List (Node S) × List Nat,
        (∀ b p, (f b p).2 = b.2 ∨ (f b p).2 = b.2 ++ [p]) → List.Sublist (cur.foldl f (layer, [])).2 cur := by
      intro f hf
      obtain ⟨sub, hsub, hk⟩ := foldl_keep_sublist f Prod.snd hf cur (layer, [])
      rw [hk]; simpa using hsub
    apply key
    rintro ⟨ly, keep⟩ p
    dsimp only
    split
    · exact .inl rfl
    · split
      · split
        · exact .inr rfl
        · exact .inl rfl
      · exact .inr rfl

theorem filterDom_keep (cfg : Cfg S K) (store : DomStore S K) (layer : List (Node S)) (cur : List Nat) :
    (filterDom cfg store layer cur).1.map Cover.sig = layer.map Cover.sig ∧
    (cur.Nodup → (filterDom cfg store layer cur).2.1.Nodup) ∧
    ∀ p ∈ (filterDom cfg store layer cur).2.1, p ∈ cur := by
  unfold filterDom
  split
  · exact ⟨rfl, fun h => h, fun _ h => h⟩
  · rename_i D _
    dsimp only
    refine ⟨?_, ?_⟩
    · refine Cover.foldl_inv (β := List (Node S) × List Nat × DomStore S K × Bool)
        (fun acc => acc.1.map Cover.sig = layer.map Cover.sig) _ _ _ rfl ?_
      rintro ⟨ly, keep, st, ok⟩ p _ h
      dsimp only at h ⊢
      split
      · exact h
      · rename_i n hn
        split
        · split
          · exact h
          · split
            · (dsimp only; refine (map_set_same Cover.sig ly p n _ hn ?_).trans h; rfl)
            · exact h
        · exact h
    · generalize hsorted : sortBy _ cur = sorted
      have key : ∀ f : List (Node S) × List Nat × DomStore S K × Bool → Nat → List (Node S) × List Nat × DomStore S K × Bool,
          (∀ b p, (f b p).2.1 = b.2.1 ∨ (f b p).2.1 = b.2.1 ++ [p]) →
          (cur.Nodup → (sorted.foldl f (layer, [], store, true)).2.1.Nodup) ∧
          ∀ p ∈ (sorted.foldl f (layer, [], store, true)).2.1, p ∈ cur := by
        intro f hf
        obtain ⟨sub, hsub, hk⟩ := foldl_keep_sublist f (fun acc => acc.2.1) hf sorted (layer, [], store, true)
        dsimp only at hk
        rw [List.nil_append] at hk
        rw [hk]
        refine ⟨fun hnd => ?_, fun p hp => ?_⟩
        · exact List.Nodup.sublist hsub (hsorted ▸ nodup_sortBy _ cur hnd)
        · have := hsub.subset hp
          rw [← hsorted] at this
          exact (mem_sortBy _ p cur).1 this
      apply key
      rintro ⟨ly, keep, st, ok⟩ p
      dsimp only
      split
      · exact .inl rfl
      · split
        · split
          · exact .inr rfl
          · split
            · exact .inl rfl
            · exact .inr rfl
        · exact .inr rfl

/-! ## the log of the expansion of a layer -/

/-- a call logged by the expansion of a layer whose states are `L`, for the variable `var`
    (`pre` = the calls of the expansion that precede it) -/
def ExpQ (P : Problem S) (var : Nat) (L : List S) (pre : List (Call S)) : Call S → Prop
  | .rub s => s ∈ L
  | .domain v s => v = var ∧ s ∈ L
  | .trans s d => d.var = var ∧ d.val ∈ P.domain var s ∧ s ∈ L ∧ Call.domain var s ∈ pre
  | .cost s t d => d.var = var ∧ d.val ∈ P.domain var s ∧ t = P.trans s d ∧ s ∈ L ∧
      ∃ pre', pre = pre' ++ [Call.trans s d]
  | _ => False

/-- a node of the layer under construction; `delta` = the calls logged by the expansion so far:
    its state is the destination of a logged `transition_cost`, and every inbound arc comes from a node
    of the expanded layer (index `lidx`, states `L`) with a logged `transition_cost` as cost -/
def NxOk (P : Problem S) (L : List S) (lidx : Nat) (delta : List (Call S)) (n : Node S) : Prop :=
  (∃ src d, Call.cost src n.state d ∈ delta) ∧
  ∀ e ∈ n.inb, e.fromL = lidx ∧ ∃ src, L[e.fromP]? = some src ∧ ArcFrom P delta src n.state e.dec e.cost

theorem ArcFrom.mono {P : Problem S} {pb pb' : List (Call S)} {src dst : S} {d : Dec} {c : Int}
    (h : ArcFrom P pb src dst d c) (hsub : ∀ x ∈ pb, x ∈ pb') : ArcFrom P pb' src dst d c :=
  ⟨hsub _ h.1, h.2⟩

theorem NxOk.mono {P : Problem S} {L : List S} {lidx : Nat} {delta delta' : List (Call S)} {n : Node S}
    (h : NxOk P L lidx delta n) (hsub : ∀ x ∈ delta, x ∈ delta') : NxOk P L lidx delta' n := by
  obtain ⟨⟨src, d, h1⟩, h2⟩ := h
  refine ⟨⟨src, d, hsub _ h1⟩, fun e he => ?_⟩
  obtain ⟨h3, s, h4, h5⟩ := h2 e he
  exact ⟨h3, s, h4, h5.mono hsub⟩

/-- invariant of the expansion fold: states unchanged, the log grows by a coherent `delta`, the children are fine -/
def ExpInv (P : Problem S) (var : Nat) (L : List S) (lidx : Nat) (log : List (Call S))
    (acc : List (Node S) × List (Node S) × List (Call S)) : Prop :=
  acc.1.map (·.state) = L ∧ ∃ delta, acc.2.2 = delta ++ log ∧ LogOk (ExpQ P var L) [] delta.reverse ∧
    ∀ n ∈ acc.2.1, NxOk P L lidx delta n

theorem expandOne_log (cfg : Cfg S K) (var lidx : Nat) (L : List S) (log : List (Call S))
    (acc : List (Node S) × List (Node S) × List (Call S)) (p : Nat) (h : ExpInv cfg.P var L lidx log acc) :
    ExpInv cfg.P var L lidx log (expandOne cfg var lidx acc p) := by
  obtain ⟨ly, nx, lg⟩ := acc
  obtain ⟨hst, delta, hlg, hok, hnx⟩ := h
  dsimp only at hst hlg hnx
  unfold expandOne
  dsimp only
  split
  · exact ⟨hst, delta, hlg, hok, hnx⟩
  · rename_i n hn
    have hLp : L[p]? = some n.state := by rw [← hst, List.getElem?_map, hn]; rfl
    have hmem : n.state ∈ L := List.mem_of_getElem? hLp
    have hst' : (ly.set p { n with rub := cfg.R.rub n.state }).map (·.state) = L :=
      (map_set_same (·.state) ly p n _ hn (by rfl)).trans hst
    have hrub : LogOk (ExpQ cfg.P var L) [] (Call.rub n.state :: delta).reverse := by
      rw [List.reverse_cons]; exact hok.snoc hmem
    split
    · generalize hfold : List.foldl _ _ (cfg.P.domain var n.state) = r
      have hJ : ∃ delta', r.2 = delta' ++ log ∧ LogOk (ExpQ cfg.P var L) [] delta'.reverse ∧
          Call.domain var n.state ∈ delta' ∧ ∀ m ∈ r.1, NxOk cfg.P L lidx delta' m := by
        rw [← hfold]
        refine Cover.foldl_inv (β := List (Node S) × List (Call S)) (fun r => ∃ delta', r.2 = delta' ++ log ∧
          LogOk (ExpQ cfg.P var L) [] delta'.reverse ∧
          Call.domain var n.state ∈ delta' ∧ ∀ m ∈ r.1, NxOk cfg.P L lidx delta' m) _ _ _ ?_ ?_
        · refine ⟨Call.domain var n.state :: Call.rub n.state :: delta, by rw [hlg]; rfl, ?_, List.mem_cons_self, ?_⟩
          · rw [List.reverse_cons]; exact hrub.snoc ⟨rfl, hmem⟩
          · intro m hm
            exact (hnx m hm).mono (fun x hx => List.mem_cons_of_mem _ (List.mem_cons_of_mem _ hx))
        · rintro ⟨nx', lg'⟩ d hd ⟨delta', h1, h2, h3, h4⟩
          dsimp only at h1 h4 ⊢
          refine ⟨Call.cost n.state (cfg.P.trans n.state ⟨var, d⟩) ⟨var, d⟩ :: Call.trans n.state ⟨var, d⟩ :: delta',
            by rw [h1]; rfl, ?_, List.mem_cons_of_mem _ (List.mem_cons_of_mem _ h3), ?_⟩
          · rw [List.reverse_cons, List.reverse_cons]
            refine (h2.snoc ?_).snoc ?_
            · exact ⟨rfl, hd, hmem, by rw [List.nil_append]; exact List.mem_reverse.2 h3⟩
            · exact ⟨rfl, hd, rfl, hmem, delta'.reverse, by rw [List.nil_append]⟩
          · intro c hc
            have hmono : ∀ x ∈ delta', x ∈ Call.cost n.state (cfg.P.trans n.state ⟨var, d⟩) ⟨var, d⟩ ::
                Call.trans n.state ⟨var, d⟩ :: delta' :=
              fun x hx => List.mem_cons_of_mem _ (List.mem_cons_of_mem _ hx)
            rcases branchOn_mem cfg _ lidx p ⟨var, d⟩ nx' c hc with hc | ⟨m, hm, hms, hceq⟩
            · exact (h4 c hc).mono hmono
            · rw [hceq]
              have hcs : (appendEdge { n with rub := cfg.R.rub n.state } m
                  ⟨lidx, p, ⟨var, d⟩, cfg.P.cost n.state (cfg.P.trans n.state ⟨var, d⟩) ⟨var, d⟩⟩).state =
                  cfg.P.trans n.state ⟨var, d⟩ := by rw [Ddo.appendEdge_state]; exact hms
              refine ⟨⟨n.state, ⟨var, d⟩, by rw [hcs]; exact List.mem_cons_self⟩, ?_⟩
              intro e he
              rw [Ddo.appendEdge_inb] at he
              rw [hcs]
              rcases List.mem_cons.1 he with he | he
              · subst he
                exact ⟨rfl, n.state, hLp, List.mem_cons_self, rfl, hd, rfl⟩
              · rcases hm with hm | hm
                · obtain ⟨h5, s, h6, h7⟩ := (h4 m hm).2 e he
                  rw [hms] at h7
                  exact ⟨h5, s, h6, h7.mono hmono⟩
                · rw [hm] at he; simp only [freshNode] at he; cases he
      obtain ⟨delta', h1, h2, _, h4⟩ := hJ
      exact ⟨hst', delta', h1, h2, h4⟩
    · exact ⟨hst', Call.rub n.state :: delta, by rw [hlg]; rfl, hrub,
        fun m hm => (hnx m hm).mono (fun x hx => List.mem_cons_of_mem _ hx)⟩

/-- **the log of `expandAll`**: the states of the layer are unchanged, the log grows by a `delta` (newest first)
    whose calls are coherent (`ExpQ`, order included), and every node of the next layer has all its arcs
    created — and their costs computed — by calls of `delta` -/
theorem expandAll_log (cfg : Cfg S K) (var lidx : Nat) (layer : List (Node S)) (cur : List Nat) (log : List (Call S)) :
    (expandAll cfg var lidx layer cur log).1.map (·.state) = layer.map (·.state) ∧
    ∃ delta, (expandAll cfg var lidx layer cur log).2.2 = delta ++ log ∧
      LogOk (ExpQ cfg.P var (layer.map (·.state))) [] delta.reverse ∧
      ∀ n ∈ (expandAll cfg var lidx layer cur log).2.1, NxOk cfg.P (layer.map (·.state)) lidx delta n := by
  unfold expandAll
  refine Cover.foldl_inv (ExpInv cfg.P var (layer.map (·.state)) lidx log) _ _ _ ?_ ?_
  · exact ⟨rfl, [], rfl, LogOk.nil _ _, fun n hn => by cases hn⟩
  · intro acc p _ h
    exact expandOne_log cfg var lidx _ log acc p h

/-! ## the log of `relaxLayer` -/

open Ddo.Cover (redirStep dropStep keepOf restOf restStatesOf mergedOf recycledOf markRelaxed undelete freshMerged)

theorem inner_log (cfg : Cfg S K) (layers : List (List (Node S))) (merged : S) (mpos : Nat) (dropN : Node S)
    (inb : List Arc) (acc : List (Node S) × List (Call S)) :
    ∃ rel, (inb.foldl (redirStep cfg layers merged mpos dropN) acc).2 = rel ++ acc.2 ∧
      ∀ c ∈ rel, ∃ e ∈ inb, ∃ src, getNode layers e.fromL e.fromP = some src ∧
        c = Call.relax src.state dropN.state merged e.dec e.cost := by
  induction inb generalizing acc with
  | nil => exact ⟨[], rfl, fun c hc => by cases hc⟩
  | cons e es ih =>
    rw [List.foldl_cons]
    obtain ⟨rel, h1, h2⟩ := ih (redirStep cfg layers merged mpos dropN acc e)
    have hstep : (redirStep cfg layers merged mpos dropN acc e).2 = acc.2 ∨
        ∃ src, getNode layers e.fromL e.fromP = some src ∧
          (redirStep cfg layers merged mpos dropN acc e).2 =
            Call.relax src.state dropN.state merged e.dec e.cost :: acc.2 := by
      unfold redirStep
      cases hg : getNode layers e.fromL e.fromP with
      | none => exact .inl rfl
      | some src =>
        cases hm : acc.1[mpos]? with
        | none => exact .inl rfl
        | some m => exact .inr ⟨src, rfl, rfl⟩
    rcases hstep with hs | ⟨src, hsrc, hs⟩
    · refine ⟨rel, by rw [h1, hs], fun c hc => ?_⟩
      obtain ⟨e', he', hrest⟩ := h2 c hc
      exact ⟨e', List.mem_cons_of_mem _ he', hrest⟩
    · refine ⟨rel ++ [Call.relax src.state dropN.state merged e.dec e.cost], by rw [h1, hs, List.append_assoc]; rfl, fun c hc => ?_⟩
      rcases List.mem_append.1 hc with hc | hc
      · obtain ⟨e', he', hrest⟩ := h2 c hc
        exact ⟨e', List.mem_cons_of_mem _ he', hrest⟩
      · rw [List.mem_singleton] at hc
        exact ⟨e, List.mem_cons_self, src, hsrc, hc⟩

theorem dropStep_log (cfg : Cfg S K) (layers : List (List (Node S))) (merged : S) (mpos : Nat)
    (acc : List (Node S) × List (Call S)) (p : Nat) :
    ∃ rel, (dropStep cfg layers merged mpos acc p).2 = rel ++ acc.2 ∧
      ∀ c ∈ rel, ∃ dropN, acc.1[p]? = some dropN ∧ ∃ e ∈ dropN.inb, ∃ src, getNode layers e.fromL e.fromP = some src ∧
        c = Call.relax src.state dropN.state merged e.dec e.cost := by
  unfold dropStep
  cases h : acc.1[p]? with
  | none => exact ⟨[], rfl, fun c hc => by cases hc⟩
  | some dropN =>
    dsimp only
    obtain ⟨rel, h1, h2⟩ := inner_log cfg layers merged mpos dropN dropN.inb (acc.1.set p { dropN with deleted := true }, acc.2)
    exact ⟨rel, h1, fun c hc => ⟨dropN, rfl, h2 c hc⟩⟩

/-- a `relax` call issued for an inbound arc of the node of `L2` at a position of `rest` -/
def RelaxFrom (layers : List (List (Node S))) (merged : S) (L2 : List (Node S)) (rest : List Nat) (c : Call S) : Prop :=
  ∃ p ∈ rest, ∃ st v inb, (L2[p]?).map Cover.sig = some (st, v, inb) ∧ ∃ e ∈ inb, ∃ src,
    getNode layers e.fromL e.fromP = some src ∧ c = Call.relax src.state st merged e.dec e.cost

theorem outer_log (cfg : Cfg S K) (layers : List (List (Node S))) (merged : S) (mpos : Nat) (L2 : List (Node S))
    (rest : List Nat) (acc : List (Node S) × List (Call S)) (hext : Cover.Ext mpos L2 acc.1)
    (hne : ∀ p ∈ rest, p ≠ mpos) :
    ∃ rel, (rest.foldl (dropStep cfg layers merged mpos) acc).2 = rel ++ acc.2 ∧
      ∀ c ∈ rel, RelaxFrom layers merged L2 rest c := by
  induction rest generalizing acc with
  | nil => exact ⟨[], rfl, fun c hc => by cases hc⟩
  | cons p ps ih =>
    rw [List.foldl_cons]
    obtain ⟨rel1, h1, h2⟩ := dropStep_log cfg layers merged mpos acc p
    obtain ⟨rel2, h3, h4⟩ := ih (dropStep cfg layers merged mpos acc p)
      (hext.trans (Cover.dropStep_ext cfg layers merged mpos acc p)) (fun q hq => hne q (List.mem_cons_of_mem _ hq))
    refine ⟨rel2 ++ rel1, by rw [h3, h1, List.append_assoc], fun c hc => ?_⟩
    rcases List.mem_append.1 hc with hc | hc
    · obtain ⟨q, hq, rest'⟩ := h4 c hc
      exact ⟨q, List.mem_cons_of_mem _ hq, rest'⟩
    · obtain ⟨dropN, hd, e, he, src, hsrc, hc'⟩ := h2 c hc
      refine ⟨p, List.mem_cons_self, dropN.state, dropN.value, dropN.inb, ?_, e, he, src, hsrc, hc'⟩
      rw [← hext.other p (hne p List.mem_cons_self), hd]
      rfl

theorem Ext.map_state {mpos : Nat} {a b : List (Node S)} (h : Cover.Ext mpos a b) :
    b.map (·.state) = a.map (·.state) := by
  apply List.ext_getElem?
  intro q
  rw [List.getElem?_map, List.getElem?_map]
  by_cases hq : q = mpos
  · subst hq
    cases ha : a[q]? with
    | none =>
      have : b[q]? = none := by
        rw [List.getElem?_eq_none_iff] at ha ⊢
        rw [h.len]; exact ha
      rw [this]
    | some m =>
      obtain ⟨m', hm', hs, _⟩ := h.at_m m ha
      rw [hm', Option.map_some, Option.map_some, hs]
  · have := h.other q hq
    cases ha : a[q]? with
    | none =>
      rw [ha] at this
      cases hb : b[q]? with
      | none => rfl
      | some n => rw [hb] at this; cases this
    | some m =>
      rw [ha] at this
      cases hb : b[q]? with
      | none => rw [hb] at this; cases this
      | some n =>
        rw [hb] at this
        simp only [Option.map_some, Cover.sig, Option.some.injEq, Prod.mk.injEq] at this
        rw [Option.map_some, Option.map_some, this.1]

/-- `relaxLayer` with the initial log of the redirection loop made explicit (cf. `Cover.relaxLayer_elim`) -/
theorem relaxLayer_elim' (cfg : Cfg S K) (layers : List (List (Node S))) (layer : List (Node S)) (cur : List Nat)
    (log : List (Call S)) (P : List (Node S) × List Nat × List (Call S) → Prop)
    (hnone : recycledOf cfg layer cur = none → ∀ d0,
      P (((restOf cfg layer cur).foldl (dropStep cfg layers (mergedOf cfg layer cur) layer.length)
            (markRelaxed (layer ++ [freshMerged (mergedOf cfg layer cur) d0]) layer.length,
             Call.merge (restStatesOf cfg layer cur) (mergedOf cfg layer cur) :: log)).1,
         keepOf cfg layer cur ++ [layer.length],
         ((restOf cfg layer cur).foldl (dropStep cfg layers (mergedOf cfg layer cur) layer.length)
            (markRelaxed (layer ++ [freshMerged (mergedOf cfg layer cur) d0]) layer.length,
             Call.merge (restStatesOf cfg layer cur) (mergedOf cfg layer cur) :: log)).2))
    (hsome : ∀ mp, recycledOf cfg layer cur = some mp →
      P (undelete ((restOf cfg layer cur).foldl (dropStep cfg layers (mergedOf cfg layer cur) mp)
            (markRelaxed layer mp, Call.merge (restStatesOf cfg layer cur) (mergedOf cfg layer cur) :: log)).1
              ((sortSquash cfg layer cur).take cfg.width),
         (sortSquash cfg layer cur).take cfg.width,
         ((restOf cfg layer cur).foldl (dropStep cfg layers (mergedOf cfg layer cur) mp)
            (markRelaxed layer mp, Call.merge (restStatesOf cfg layer cur) (mergedOf cfg layer cur) :: log)).2)) :
    P (relaxLayer cfg layers layer cur log) := by
  unfold relaxLayer
  dsimp only
  generalize hrec : List.find? _ (List.take (cfg.width - 1) (sortSquash cfg layer cur)) = recycled
  have hrec' : recycledOf cfg layer cur = recycled := hrec
  cases recycled with
  | none =>
    dsimp only
    exact hnone hrec' _
  | some mp =>
    dsimp only
    exact hsome mp hrec'

theorem length_filterMap_all {α β : Type} (f : α → Option β) (l : List α) (h : ∀ a ∈ l, ∃ b, f a = some b) :
    (l.filterMap f).length = l.length := by
  induction l with
  | nil => rfl
  | cons a r ih =>
    obtain ⟨b, hb⟩ := h a List.mem_cons_self
    rw [List.filterMap_cons, hb]
    simp only [List.length_cons]
    rw [ih (fun x hx => h x (List.mem_cons_of_mem _ hx))]

/-- the merged-away states: at least two (when the layer is wider than `width ≥ 1`), all of them states of the layer -/
theorem restStates_facts (cfg : Cfg S K) (layer : List (Node S)) (cur : List Nat) (hcur : ∀ p ∈ cur, p < layer.length) :
    (1 ≤ cfg.width → cur.length > cfg.width → 2 ≤ (restStatesOf cfg layer cur).length) ∧
    (∀ s ∈ restStatesOf cfg layer cur, s ∈ layer.map (·.state)) ∧
    (∀ p ∈ restOf cfg layer cur, ∀ n, layer[p]? = some n → n.state ∈ restStatesOf cfg layer cur) := by
  have hrest : ∀ p ∈ restOf cfg layer cur, p < layer.length := fun p hp => by
    unfold restOf sortSquash at hp
    exact hcur p ((mem_sortBy _ p cur).1 (List.mem_of_mem_drop hp))
  refine ⟨fun hW hlen => ?_, fun s hs => ?_, fun p hp n hn => ?_⟩
  · unfold restStatesOf
    rw [length_filterMap_all]
    · unfold restOf sortSquash
      rw [List.length_drop, Cover.length_sortBy]
      omega
    · intro p hp
      exact ⟨(layer[p]'(hrest p hp)).state, by rw [List.getElem?_eq_getElem (hrest p hp)]; rfl⟩
  · unfold restStatesOf at hs
    obtain ⟨p, _, hp⟩ := List.mem_filterMap.1 hs
    obtain ⟨n, hn, hns⟩ := Option.map_eq_some_iff.1 hp
    exact List.mem_map.2 ⟨n, List.mem_of_getElem? hn, hns⟩
  · unfold restStatesOf
    exact List.mem_filterMap.2 ⟨p, hp, by rw [hn]; rfl⟩

/-- **the log of `relaxLayer`**: the states of the layer are unchanged up to the merged node appended;
    the log grows by the `merge` over the merged-away states followed by `relax` calls, each of them
    for an inbound arc (`src` = its parent, decision and cost as stored) of a merged-away node -/
theorem relaxLayer_log (cfg : Cfg S K) (layers : List (List (Node S))) (layer : List (Node S)) (cur : List Nat)
    (log : List (Call S)) (hcur : ∀ p ∈ cur, p < layer.length) (hnd : cur.Nodup) :
    ((relaxLayer cfg layers layer cur log).1.map (·.state) = layer.map (·.state) ∨
     (relaxLayer cfg layers layer cur log).1.map (·.state) = layer.map (·.state) ++ [mergedOf cfg layer cur]) ∧
    ∃ rel, (relaxLayer cfg layers layer cur log).2.2 =
        rel ++ Call.merge (restStatesOf cfg layer cur) (mergedOf cfg layer cur) :: log ∧
      ∀ c ∈ rel, ∃ p ∈ restOf cfg layer cur, ∃ n, layer[p]? = some n ∧ ∃ e ∈ n.inb, ∃ src,
        getNode layers e.fromL e.fromP = some src ∧
        c = Call.relax src.state n.state (mergedOf cfg layer cur) e.dec e.cost := by
  have hrest : ∀ p ∈ restOf cfg layer cur, p < layer.length := fun p hp => by
    unfold restOf sortSquash at hp
    exact hcur p ((mem_sortBy _ p cur).1 (List.mem_of_mem_drop hp))
  have hdisj : ∀ a ∈ keepOf cfg layer cur, ∀ b ∈ restOf cfg layer cur, a ≠ b := by
    have hs : (sortSquash cfg layer cur).Nodup := by unfold sortSquash; exact nodup_sortBy _ cur hnd
    rw [← List.take_append_drop (cfg.width - 1) (sortSquash cfg layer cur)] at hs
    exact (List.nodup_append.1 hs).2.2
  -- from `RelaxFrom` w.r.t. a layer that agrees with `layer` on the positions of `rest` to the statement
  have hfin : ∀ (L2 : List (Node S)) (c : Call S),
      (∀ p ∈ restOf cfg layer cur, (L2[p]?).map Cover.sig = (layer[p]?).map Cover.sig) →
      RelaxFrom layers (mergedOf cfg layer cur) L2 (restOf cfg layer cur) c →
      ∃ p ∈ restOf cfg layer cur, ∃ n, layer[p]? = some n ∧ ∃ e ∈ n.inb, ∃ src,
        getNode layers e.fromL e.fromP = some src ∧
        c = Call.relax src.state n.state (mergedOf cfg layer cur) e.dec e.cost := by
    rintro L2 c hL2 ⟨p, hp, st, v, inb, hsig, e, he, src, hsrc, hc⟩
    rw [hL2 p hp] at hsig
    obtain ⟨n, hn, hns⟩ := Option.map_eq_some_iff.1 hsig
    simp only [Cover.sig, Prod.mk.injEq] at hns
    obtain ⟨rfl, _, rfl⟩ := hns
    exact ⟨p, hp, n, hn, e, he, src, hsrc, hc⟩
  refine relaxLayer_elim' cfg layers layer cur log (fun r =>
    (r.1.map (·.state) = layer.map (·.state) ∨ r.1.map (·.state) = layer.map (·.state) ++ [mergedOf cfg layer cur]) ∧
    ∃ rel, r.2.2 = rel ++ Call.merge (restStatesOf cfg layer cur) (mergedOf cfg layer cur) :: log ∧
      ∀ c ∈ rel, ∃ p ∈ restOf cfg layer cur, ∃ n, layer[p]? = some n ∧ ∃ e ∈ n.inb, ∃ src,
        getNode layers e.fromL e.fromP = some src ∧
        c = Call.relax src.state n.state (mergedOf cfg layer cur) e.dec e.cost) ?_ ?_
  · -- fresh merged node, at position `layer.length`
    intro hrec d0
    dsimp only
    have hne : ∀ p ∈ restOf cfg layer cur, p ≠ layer.length := fun p hp => Nat.ne_of_lt (hrest p hp)
    have E1 := Cover.markRelaxed_ext layer.length (layer ++ [freshMerged (mergedOf cfg layer cur) d0]) layer.length
    have E2 := Cover.outer_ext cfg layers (mergedOf cfg layer cur) layer.length (restOf cfg layer cur)
      (markRelaxed (layer ++ [freshMerged (mergedOf cfg layer cur) d0]) layer.length,
       Call.merge (restStatesOf cfg layer cur) (mergedOf cfg layer cur) :: log)
    obtain ⟨rel, h1, h2⟩ := outer_log cfg layers (mergedOf cfg layer cur) layer.length
      (markRelaxed (layer ++ [freshMerged (mergedOf cfg layer cur) d0]) layer.length) (restOf cfg layer cur)
      (markRelaxed (layer ++ [freshMerged (mergedOf cfg layer cur) d0]) layer.length,
       Call.merge (restStatesOf cfg layer cur) (mergedOf cfg layer cur) :: log) (Cover.Ext.refl _ _) hne
    refine ⟨.inr ?_, rel, h1, fun c hc => hfin _ c (fun p hp => ?_) (h2 c hc)⟩
    · rw [Ext.map_state (E1.trans E2), List.map_append]
      rfl
    · rw [E1.other p (hne p hp), List.getElem?_append_left (hrest p hp)]
  · -- recycled node, at a kept position
    intro mp hrec
    dsimp only
    have hmk : mp ∈ keepOf cfg layer cur := List.mem_of_find?_eq_some hrec
    have hne : ∀ p ∈ restOf cfg layer cur, p ≠ mp := fun p hp h => hdisj mp hmk p hp h.symm
    have E1 := Cover.markRelaxed_ext mp layer mp
    have E2 := Cover.outer_ext cfg layers (mergedOf cfg layer cur) mp (restOf cfg layer cur)
      (markRelaxed layer mp, Call.merge (restStatesOf cfg layer cur) (mergedOf cfg layer cur) :: log)
    have E3 := Cover.undelete_ext mp ((restOf cfg layer cur).foldl (dropStep cfg layers (mergedOf cfg layer cur) mp)
      (markRelaxed layer mp, Call.merge (restStatesOf cfg layer cur) (mergedOf cfg layer cur) :: log)).1
      ((sortSquash cfg layer cur).take cfg.width)
    obtain ⟨rel, h1, h2⟩ := outer_log cfg layers (mergedOf cfg layer cur) mp
      (markRelaxed layer mp) (restOf cfg layer cur)
      (markRelaxed layer mp, Call.merge (restStatesOf cfg layer cur) (mergedOf cfg layer cur) :: log)
      (Cover.Ext.refl _ _) hne
    refine ⟨.inl ?_, rel, h1, fun c hc => hfin _ c (fun p hp => ?_) (h2 c hc)⟩
    · exact Ext.map_state (E1.trans (E2.trans E3))
    · rw [E1.other p (hne p hp)]

/-! ## `squash` -/

theorem restrictLayer_states (cfg : Cfg S K) (layer : List (Node S)) (cur : List Nat) :
    (restrictLayer cfg layer cur).1.map (·.state) = layer.map (·.state) := by
  unfold restrictLayer
  dsimp only
  refine Cover.foldl_inv (β := List (Node S)) (fun acc => acc.map (·.state) = layer.map (·.state)) _ _ _ rfl ?_
  intro ly p _ h
  split
  · rename_i n hn
    refine (map_set_same (·.state) ly p n _ hn ?_).trans h
    rfl
  · exact h

/-- `squash` either does not log and keeps the states of the layer (nothing to do, or `restrictLayer`),
    or it is `relaxLayer` — then `1 ≤ width < cur.length` -/
theorem squash_cases (cfg : Cfg S K) (dd : DD S K) (layer : List (Node S)) (cur : List Nat)
    (l : List (Node S)) (c : List Nat) (lg : List (Call S)) (lel : Option Nat)
    (h : squash cfg dd layer cur = some (l, c, lg, lel)) :
    (lg = dd.log ∧ l.map (·.state) = layer.map (·.state)) ∨
    (1 ≤ cfg.width ∧ cur.length > cfg.width ∧ l = (relaxLayer cfg dd.layers layer cur dd.log).1 ∧
      lg = (relaxLayer cfg dd.layers layer cur dd.log).2.2) := by
  unfold squash at h
  dsimp only at h
  split at h
  · cases h
  · rename_i hW
    split at h
    · cases h
    · split at h
      · simp only [Option.some.injEq, Prod.mk.injEq] at h
        obtain ⟨rfl, _, rfl, _⟩ := h
        exact .inl ⟨rfl, restrictLayer_states cfg layer cur⟩
      · split at h
        · rename_i hrel
          simp only [Option.some.injEq, Prod.mk.injEq] at h
          obtain ⟨rfl, _, rfl, _⟩ := h
          simp only [hrel, Bool.true_and, beq_iff_eq] at hW
          simp only [Bool.and_eq_true, beq_iff_eq, decide_eq_true_eq] at hrel
          exact .inr ⟨by omega, hrel.1.2, rfl, rfl⟩
        · simp only [Option.some.injEq, Prod.mk.injEq] at h
          obtain ⟨rfl, _, rfl, _⟩ := h
          exact .inl ⟨rfl, rfl⟩

/-! ## the loop invariant, one layer step -/

/-- invariant of `buildLoop` for the protocol (`prev` = calls of the previous layer block, `none` before the first):
    every inbound arc of a node of the layer under construction was created by the previous block — its parent is
    where the arc says, its `transition_cost` was computed there and is the stored cost — and every such node is the
    destination of a `transition_cost` call of that block -/
structure LoopInv (cfg : Cfg S K) (dd : DD S K) (prev : Option (List (Call S))) : Prop where
  arcs : ∀ n ∈ dd.next, ∀ e ∈ n.inb, ∃ pb, prev = some pb ∧ ∃ src, getNode dd.layers e.fromL e.fromP = some src ∧
    ArcFrom cfg.P pb src.state n.state e.dec e.cost
  origin : ∀ pb, prev = some pb → ∀ n ∈ dd.next, ∃ src d, Call.cost src n.state d ∈ pb

theorem LoopInv.congr {cfg : Cfg S K} {dd dd' : DD S K} {prev : Option (List (Call S))} (h : LoopInv cfg dd prev)
    (hl : dd'.layers = dd.layers) (hn : dd'.next = dd.next) : LoopInv cfg dd' prev := by
  obtain ⟨h1, h2⟩ := h
  exact ⟨hl ▸ hn ▸ h1, hn ▸ h2⟩

theorem CallOk.of_expQ {P : Problem S} {R : Relax S} {var : Nat} {states : List S} {prev : Option (List (Call S))}
    {L : List S} {pfx pre : List (Call S)} {c : Call S} (hL : ∀ s ∈ L, InLayer states pfx s)
    (h : ExpQ P var L pre c) : CallOk P R var states prev (pfx ++ pre) c := by
  have hin : ∀ s ∈ L, InLayer states (pfx ++ pre) s := fun s hs =>
    (hL s hs).imp id (fun ⟨sts, h⟩ => ⟨sts, List.mem_append_left _ h⟩)
  cases c with
  | rub s => exact hin s h
  | domain v s => exact ⟨h.1, hin s h.2⟩
  | trans s d => exact ⟨h.1, h.2.1, hin s h.2.2.1, List.mem_append_right _ h.2.2.2⟩
  | cost s t d =>
    obtain ⟨h1, h2, h3, h4, pre', h5⟩ := h
    exact ⟨h1, h2, h3, hin s h4, pfx ++ pre', by rw [h5, List.append_assoc]⟩
  | nextVar _ _ _ => exact h
  | merge _ _ => exact False.elim h
  | relax _ _ _ _ _ => exact False.elim h
  | impacted _ _ => exact h

theorem getElem?_of_map_state {ly : List (Node S)} {L : List S} (h : ly.map (·.state) = L) {p : Nat} {s : S}
    (hp : L[p]? = some s) : ∃ n, ly[p]? = some n ∧ n.state = s := by
  rw [← h, List.getElem?_map] at hp
  exact Option.map_eq_some_iff.1 hp

/-- the expansion, after a squash that logged `pfx` (chronological) and left a layer whose states are in the layer -/
theorem expand_finish (cfg : Cfg S K) (dd : DD S K) (var : Nat) (prev : Option (List (Call S))) (states : List S)
    (pfx : List (Call S)) (lsq : List (Node S)) (csq : List Nat) (lgsq : List (Call S))
    (hlg : lgsq = pfx.reverse ++ dd.log)
    (hpfx : LogOk (CallOk cfg.P cfg.R var states prev) [] pfx)
    (hL : ∀ s ∈ lsq.map (·.state), InLayer states pfx s) :
    ∃ body, (expandAll cfg var dd.layers.length lsq csq lgsq).2.2.reverse = dd.log.reverse ++ body ∧
      BodyOk cfg.P cfg.R var states prev body ∧
      (∀ n ∈ (expandAll cfg var dd.layers.length lsq csq lgsq).2.1, ∀ e ∈ n.inb, ∃ src,
        getNode (dd.layers ++ [(expandAll cfg var dd.layers.length lsq csq lgsq).1]) e.fromL e.fromP = some src ∧
        ArcFrom cfg.P body src.state n.state e.dec e.cost) ∧
      (∀ n ∈ (expandAll cfg var dd.layers.length lsq csq lgsq).2.1, ∃ src d, Call.cost src n.state d ∈ body) := by
  obtain ⟨hE1, delta, hE2, hE3, hE4⟩ := expandAll_log cfg var dd.layers.length lsq csq lgsq
  generalize expandAll cfg var dd.layers.length lsq csq lgsq = r at hE1 hE2 hE4 ⊢
  have hsub : ∀ x ∈ delta, x ∈ pfx ++ delta.reverse := fun x hx =>
    List.mem_append_right _ (List.mem_reverse.2 hx)
  refine ⟨pfx ++ delta.reverse, ?_, ?_, ?_, ?_⟩
  · rw [hE2, hlg, List.reverse_append, List.reverse_append, List.reverse_reverse, List.append_assoc]
  · refine LogOk.append_iff.2 ⟨hpfx, ?_⟩
    exact hE3.mono (fun pre c _ hq => CallOk.of_expQ hL hq)
  · intro n hn e he
    obtain ⟨hfrom, s, hs, harc⟩ := (hE4 n hn).2 e he
    obtain ⟨srcN, hsrcN, hst⟩ := getElem?_of_map_state hE1 hs
    refine ⟨srcN, ?_, ?_⟩
    · rw [hfrom, Cover.getNode_last]; exact hsrcN
    · rw [hst]; exact harc.mono hsub
  · intro n hn
    obtain ⟨src, d, h⟩ := (hE4 n hn).1
    exact ⟨src, d, hsub _ h⟩

theorem states_of_sig {a b : List (Node S)} (h : a.map Cover.sig = b.map Cover.sig) :
    a.map (·.state) = b.map (·.state) := by
  have e : ∀ l : List (Node S), l.map (·.state) = (l.map Cover.sig).map Prod.fst := by
    intro l; rw [List.map_map]; rfl
  rw [e, e, h]

theorem mem_of_sig {a b : List (Node S)} (h : a.map Cover.sig = b.map Cover.sig) {n : Node S} (hn : n ∈ a) :
    ∃ n0 ∈ b, n0.state = n.state ∧ n0.inb = n.inb := by
  have : Cover.sig n ∈ b.map Cover.sig := h ▸ List.mem_map_of_mem hn
  obtain ⟨n0, h0, hs⟩ := List.mem_map.1 this
  simp only [Cover.sig, Prod.mk.injEq] at hs
  exact ⟨n0, h0, hs.1, hs.2.2⟩

/-- **one layer step**: the log grows by a coherent block body, the depth by one, the invariant is re-established -/
theorem stepLayer_log (cfg : Cfg S K) (dd : DD S K) (var : Nat) (prev : Option (List (Call S)))
    (hinv : LoopInv cfg dd prev) (dd' : DD S K) (oc : Outcome) (h : stepLayer cfg dd var = (some dd', oc)) :
    ∃ body, dd'.log.reverse = dd.log.reverse ++ body ∧
      BodyOk cfg.P cfg.R var (dd.next.map (·.state)) prev body ∧
      (oc = .ok → dd'.depth = dd.depth + 1 ∧ LoopInv cfg dd' (some body)) := by
  unfold stepLayer at h
  split at h
  · simp only [Prod.mk.injEq, Option.some.injEq] at h
    obtain ⟨rfl, rfl⟩ := h
    exact ⟨[], by rw [List.append_nil], LogOk.nil _ _, fun h => by cases h⟩
  · have hfc : (if dd.layers.isEmpty = true then (dd.next, List.range dd.next.length)
          else filterCache cfg dd.cache dd.next (List.range dd.next.length)).1.map Cover.sig = dd.next.map Cover.sig ∧
        (if dd.layers.isEmpty = true then (dd.next, List.range dd.next.length)
          else filterCache cfg dd.cache dd.next (List.range dd.next.length)).2.Nodup ∧
        ∀ p ∈ (if dd.layers.isEmpty = true then (dd.next, List.range dd.next.length)
          else filterCache cfg dd.cache dd.next (List.range dd.next.length)).2, p < dd.next.length := by
      split
      · exact ⟨rfl, List.nodup_range, fun p hp => List.mem_range.1 hp⟩
      · obtain ⟨h1, h2⟩ := filterCache_keep cfg dd.cache dd.next (List.range dd.next.length)
        exact ⟨h1, List.Nodup.sublist h2 List.nodup_range, fun p hp => List.mem_range.1 (h2.subset hp)⟩
    dsimp only at h
    generalize (if dd.layers.isEmpty = true then (dd.next, List.range dd.next.length)
        else filterCache cfg dd.cache dd.next (List.range dd.next.length)) = fc at h hfc
    obtain ⟨hfc1, hfc2, hfc3⟩ := hfc
    obtain ⟨hfd1, hfd2, hfd3⟩ := filterDom_keep cfg dd.store fc.1 fc.2
    generalize filterDom cfg dd.store fc.1 fc.2 = fd at h hfd1 hfd2 hfd3
    have hsig : fd.1.map Cover.sig = dd.next.map Cover.sig := hfd1.trans hfc1
    have hstates : fd.1.map (·.state) = dd.next.map (·.state) := states_of_sig hsig
    have hlen : fd.1.length = dd.next.length := by
      have := congrArg List.length hstates
      simpa only [List.length_map] using this
    have hcur : ∀ p ∈ fd.2.1, p < fd.1.length := fun p hp => by rw [hlen]; exact hfc3 p (hfd3 p hp)
    have hnd : fd.2.1.Nodup := hfd2 hfc2
    split at h
    · cases h
    · split at h
      · cases h
      · rename_i lsq csq lgsq lel hsq
        simp only [Prod.mk.injEq, Option.some.injEq] at h
        obtain ⟨rfl, rfl⟩ := h
        -- what `squash` logged (`pfx`, chronological) and the states of the squashed layer
        have hsqz : ∃ pfx, lgsq = pfx.reverse ++ dd.log ∧
            LogOk (CallOk cfg.P cfg.R var (dd.next.map (·.state)) prev) [] pfx ∧
            ∀ s ∈ lsq.map (·.state), InLayer (dd.next.map (·.state)) pfx s := by
          rcases squash_cases cfg dd fd.1 fd.2.1 lsq csq lgsq lel hsq with ⟨hlg, hl⟩ | ⟨hW, hwide, hl, hlg⟩
          · refine ⟨[], by rw [hlg]; rfl, LogOk.nil _ _, fun s hs => .inl ?_⟩
            rw [hl, hstates] at hs; exact hs
          · obtain ⟨hR1, rel, hR2, hR3⟩ := relaxLayer_log cfg dd.layers fd.1 fd.2.1 dd.log hcur hnd
            obtain ⟨hF1, hF2, hF3⟩ := restStates_facts cfg fd.1 fd.2.1 hcur
            rw [← hl] at hR1
            rw [← hlg] at hR2
            have hmem : ∀ pre : List (Call S),
                Call.merge (restStatesOf cfg fd.1 fd.2.1) (mergedOf cfg fd.1 fd.2.1) ∈
                  ([] ++ [Call.merge (restStatesOf cfg fd.1 fd.2.1) (mergedOf cfg fd.1 fd.2.1)]) ++ pre :=
              fun pre => List.mem_append_left _ List.mem_cons_self
            refine ⟨Call.merge (restStatesOf cfg fd.1 fd.2.1) (mergedOf cfg fd.1 fd.2.1) :: rel.reverse, ?_, ?_, ?_⟩
            · rw [hR2, List.reverse_cons, List.reverse_reverse, List.append_assoc]; rfl
            · refine LogOk.cons_iff.2 ⟨⟨rfl, rfl, hF1 hW hwide, fun s hs => hstates ▸ hF2 s hs⟩, LogOk.of_forall ?_⟩
              intro c hc pre
              obtain ⟨p, hp, n, hn, e, he, src, hsrc, rfl⟩ := hR3 c (List.mem_reverse.1 hc)
              refine ⟨⟨restStatesOf cfg fd.1 fd.2.1, hmem pre, hF3 p hp n hn⟩, ?_⟩
              obtain ⟨n0, hn0, hs0, hi0⟩ := mem_of_sig hsig (List.mem_of_getElem? hn)
              obtain ⟨pb, hpb, src', hsrc', harc⟩ := hinv.arcs n0 hn0 e (hi0 ▸ he)
              rw [hsrc] at hsrc'
              cases hsrc'
              exact ⟨pb, hpb, hs0 ▸ harc⟩
            · intro s hs
              rcases hR1 with hR1 | hR1
              · rw [hR1, hstates] at hs; exact .inl hs
              · rw [hR1, hstates] at hs
                rcases List.mem_append.1 hs with hs | hs
                · exact .inl hs
                · rw [List.mem_singleton] at hs
                  exact .inr ⟨restStatesOf cfg fd.1 fd.2.1, hs ▸ List.mem_cons_self⟩
        obtain ⟨pfx, hp1, hp2, hp3⟩ := hsqz
        obtain ⟨body, hb1, hb2, hb3, hb4⟩ :=
          expand_finish cfg dd var prev (dd.next.map (·.state)) pfx lsq csq lgsq hp1 hp2 hp3
        refine ⟨body, hb1, hb2, fun _ => ⟨rfl, ⟨fun n hn e he => ?_, fun pb hpb n hn => ?_⟩⟩⟩
        · obtain ⟨src, h1, h2⟩ := hb3 n hn e he
          exact ⟨body, rfl, src, h1, h2⟩
        · cases hpb
          exact hb4 n hn

/-! ## the whole loop -/

theorem LoopInv.statesOk {cfg : Cfg S K} {dd : DD S K} {prev : Option (List (Call S))} (h : LoopInv cfg dd prev) :
    StatesOk prev (dd.next.map (·.state)) := by
  intro pb hpb s hs
  obtain ⟨n, hn, rfl⟩ := List.mem_map.1 hs
  exact h.origin pb hpb n hn

/-- **the loop**: from any diagram satisfying the invariant, the calls logged by `buildLoop` form a sequence of
    layer blocks starting at depth `dd.depth`; unless `fuel = 0` the first of them is the `next_variable` call on the
    states of `dd.next` -/
theorem buildLoop_blocks (cfg : Cfg S K) (stopAt : Option Nat) :
    ∀ (fuel : Nat) (dd : DD S K) (prev : Option (List (Call S))), LoopInv cfg dd prev →
      ∃ tail, (buildLoop cfg stopAt fuel dd).1.log.reverse = dd.log.reverse ++ tail ∧
        Blocks cfg.P cfg.R dd.depth prev tail ∧
        (fuel ≠ 0 → ∃ ans rest, tail = Call.nextVar dd.depth (dd.next.map (·.state)) ans :: rest) := by
  cases stopAt <;> intro fuel <;> induction fuel with
  | zero =>
    intro dd prev _
    exact ⟨[], by unfold buildLoop; rw [List.append_nil], Blocks.done _ _, fun h => absurd rfl h⟩
  | succ fuel ih =>
    intro dd prev hinv
    have hst := hinv.statesOk
    unfold buildLoop
    dsimp only
    split
    · rename_i hnone
      refine ⟨[Call.nextVar dd.depth (dd.next.map (·.state)) none], ?_, Blocks.last _ _ _ hnone hst, fun _ => ⟨_, _, rfl⟩⟩
      dsimp only
      rw [List.reverse_cons, hnone]
    · rename_i var hvar
      rw [hvar]
      have hcut : Blocks cfg.P cfg.R dd.depth prev [Call.nextVar dd.depth (dd.next.map (·.state)) (some var)] :=
        Blocks.block _ _ _ var [] [] hvar hst (LogOk.nil _ _) (Blocks.done _ _)
      have hcut' : ∃ tail, (Call.nextVar dd.depth (dd.next.map (·.state)) (some var) :: dd.log).reverse =
          dd.log.reverse ++ tail ∧ Blocks cfg.P cfg.R dd.depth prev tail ∧
          (fuel + 1 ≠ 0 → ∃ ans rest, tail = Call.nextVar dd.depth (dd.next.map (·.state)) ans :: rest) :=
        ⟨_, List.reverse_cons, hcut, fun _ => ⟨_, _, rfl⟩⟩
      split
      · exact hcut'
      · have hstep := stepLayer_log cfg
          { dd with log := Call.nextVar dd.depth (dd.next.map (·.state)) (some var) :: dd.log, polls := dd.polls + 1 }
          var prev (hinv.congr rfl rfl)
        have hfin : ∀ (dd' : DD S K) (oc : Outcome),
            stepLayer cfg { dd with log := Call.nextVar dd.depth (dd.next.map (·.state)) (some var) :: dd.log,
                                    polls := dd.polls + 1 } var = (some dd', oc) →
            ∃ tail, dd'.log.reverse = dd.log.reverse ++ tail ∧ Blocks cfg.P cfg.R dd.depth prev tail ∧
              (fuel + 1 ≠ 0 → ∃ ans rest, tail = Call.nextVar dd.depth (dd.next.map (·.state)) ans :: rest) := by
          intro dd' oc heq
          obtain ⟨body, hb1, hb2, _⟩ := hstep dd' oc heq
          refine ⟨Call.nextVar dd.depth (dd.next.map (·.state)) (some var) :: (body ++ []), ?_,
            Blocks.block _ _ _ var body [] hvar hst hb2 (Blocks.done _ _), fun _ => ⟨_, _, rfl⟩⟩
          rw [hb1]
          dsimp only
          rw [List.reverse_cons, List.append_nil, List.append_assoc]
          rfl
        split
        · exact hcut'
        · rename_i dd' heq
          exact hfin dd' _ heq
        · rename_i dd' heq
          exact hfin dd' _ heq
        · rename_i dd' heq
          obtain ⟨body, hb1, hb2, hb3⟩ := hstep dd' _ heq
          obtain ⟨hd, hinv'⟩ := hb3 rfl
          obtain ⟨tail, ht1, ht2, _⟩ := ih dd' (some body) hinv'
          rw [hd] at ht2
          refine ⟨Call.nextVar dd.depth (dd.next.map (·.state)) (some var) :: (body ++ tail), ?_,
            Blocks.block _ _ _ var body tail hvar hst hb2 ht2, fun _ => ⟨_, _, rfl⟩⟩
          rw [ht1, hb1]
          dsimp only
          rw [List.reverse_cons, List.append_assoc, List.append_assoc]
          rfl

theorem initDD_loopInv (cfg : Cfg S K) (cache : Cache S) (store : DomStore S K) (polls : Nat) :
    LoopInv cfg (initDD cfg cache store polls) none := by
  refine ⟨fun n hn e he => ?_, fun pb hpb => by cases hpb⟩
  simp only [initDD, List.mem_singleton] at hn
  subst hn
  cases he

end Ddo.C12
