import DdoModel.Proofs.Theta
/-! The converse of `computeLocalBounds_good`: a node marked by `computeLocalBounds` sits in the last layer or is the
    source of an inbound arc of some node of the diagram (`computeLocalBounds_marked`), and the same read on the layers
    returned by `finalize` (`finalize_marked`). -/
set_option linter.unusedSectionVars false
set_option linter.unusedVariables false
namespace Ddo.CacheClosed
open Ddo Ddo.Bounds Ddo.Theta
variable {S K : Type} [DecidableEq S] [DecidableEq K]

/-- the position `(l, p)` is in the last layer of `LS`, or is the source of an inbound arc of a node of `LS` -/
def Src (LS : List (List (Node S))) (l p : Nat) : Prop :=
  l + 1 = LS.length ∨
  ∃ (l' p' : Nat) (m : Node S) (e : Arc), getNode LS l' p' = some m ∧ e ∈ m.inb ∧ e.fromL = l ∧ e.fromP = p

/-- every marked node of `ls` is at a `Src` position of `LS` -/
def MarkOk (LS ls : List (List (Node S))) : Prop :=
  ∀ (l p : Nat) (n : Node S), getNode ls l p = some n → n.marked = true → Src LS l p

theorem lbArc_markOk {LS ls : List (List (Node S))} (h : MarkOk LS ls) (n : Node S) (e : Arc)
    (he : ∃ (l' p' : Nat) (m : Node S), getNode LS l' p' = some m ∧ e ∈ m.inb) : MarkOk LS (lbArc n ls e) := by
  intro l p x hx hmk
  unfold lbArc at hx
  rw [getNode_modNode] at hx
  split at hx
  · rename_i hlp
    obtain ⟨l', p', m, hm, hem⟩ := he
    exact .inr ⟨l', p', m, e, hm, hem, hlp.1.symm, hlp.2.symm⟩
  · exact h l p x hx hmk

theorem lbPos_markOk {LS ls : List (List (Node S))} (hx : XEq ls LS) (h : MarkOk LS ls) (l p : Nat) :
    MarkOk LS (lbPos l ls p) := by
  unfold lbPos
  split
  · exact h
  · rename_i n hn
    split
    · obtain ⟨m, hm, hs⟩ := hx.getNode_some hn
      have hinb : m.inb = n.inb := stripB_inb hs
      exact Ddo.foldl_inv (fun b => MarkOk LS b) _ _ _ h
        (fun b e he hb => lbArc_markOk hb n e ⟨l, p, m, hm, by rw [hinb]; exact he⟩)
    · exact h

theorem lbLayer_markOk {LS ls : List (List (Node S))} (hx : XEq ls LS) (h : MarkOk LS ls) (l : Nat) :
    MarkOk LS (lbLayer ls l) :=
  (Ddo.foldl_inv (fun b => XEq b LS ∧ MarkOk LS b) _ _ _ ⟨hx, h⟩
    (fun b p _ hb => ⟨lbPos_xEq hb.1 l p, lbPos_markOk hb.1 hb.2 l p⟩)).2

/-- **marked nodes**: a node marked by `computeLocalBounds` (run on an unmarked diagram) sits in the last layer or is the
    source of an inbound arc of some node -/
theorem computeLocalBounds_marked (LS : List (List (Node S)))
    (hun : ∀ (l p : Nat) (n : Node S), getNode LS l p = some n → n.marked = false) :
    ∀ (l p : Nat) (n : Node S), getNode (computeLocalBounds LS) l p = some n → n.marked = true →
      l + 1 = LS.length ∨
      ∃ (l' p' : Nat) (m : Node S) (e : Arc), getNode LS l' p' = some m ∧ e ∈ m.inb ∧ e.fromL = l ∧ e.fromP = p := by
  rw [computeLocalBounds_eq]
  generalize hL0 : LS.set (LS.length - 1)
    ((LS[LS.length - 1]?.getD []).map (fun n => { n with vbot := 0, marked := true })) = L0
  have hx0 : XEq L0 LS := by rw [← hL0]; exact (XEq.refl LS).set_map _ _ (fun _ => rfl)
  have hm0 : MarkOk LS L0 := by
    intro l p n hn hmk
    have hlt : l < L0.length := Ddo.getNode_lt hn
    rw [hx0.length] at hlt
    by_cases hl : l = LS.length - 1
    · exact .inl (by omega)
    · rw [← hL0, getNode_set_other _ _ _ _ _ hl] at hn
      rw [hun l p n hn] at hmk
      cases hmk
  exact (Ddo.foldl_inv (fun b => XEq b LS ∧ MarkOk LS b) _ _ _ ⟨hx0, hm0⟩
    (fun b l _ hb => ⟨lbLayer_xEq hb.1 l, lbLayer_markOk hb.1 hb.2 l⟩)).2

/-- **marked nodes of `finalize`**: in the layers returned by `finalize` (any compilation type, any resolution of the
    exact-best-path bit), a marked node sits in the last layer or is the source of an inbound arc of some node of the built
    diagram -/
theorem finalize_marked (cfg : Cfg S K) (b : Built S K) (e : Bool)
    (hun : ∀ (l p : Nat) (n : Node S), getNode b.layers l p = some n → n.marked = false)
    (l p : Nat) (n3 : Node S) (h : getNode (finalize cfg b e).2 l p = some n3) (hm : n3.marked = true) :
    l + 1 = b.layers.length ∨
    ∃ (l' p' : Nat) (m : Node S) (a : Arc), getNode b.layers l' p' = some m ∧ a ∈ m.inb ∧ a.fromL = l ∧ a.fromP = p := by
  obtain ⟨n0, n1, n2, h0, h1, h2, hc⟩ := corr_of_L3 cfg b e h
  have hm2 : n2.marked = true := by rw [(stripT_fields hc.c23).2.2.2.2.1]; exact hm
  have hc1 := fLayers1_eqC cfg b
  -- the diagram after the cut-set is unmarked
  have hun1 : ∀ (l p : Nat) (n : Node S), getNode (fLayers1 cfg b) l p = some n → n.marked = false := by
    intro l' p' n hn
    obtain ⟨m0, hm0, hs⟩ := hc1.getNode_some hn
    rw [← (stripC_fields hs).2.2.2.2.2.2.2.2.2.1]
    exact hun l' p' m0 hm0
  unfold fLayers2 at h2
  split at h2
  · rcases computeLocalBounds_marked (fLayers1 cfg b) hun1 l p n2 h2 hm2 with hl | ⟨l', p', m, a, hma, ha, hfl, hfp⟩
    · exact .inl (by rw [← hc1.length]; exact hl)
    · obtain ⟨m0, hm0, hs⟩ := hc1.getNode_some hma
      exact .inr ⟨l', p', m0, a, hm0, by rw [(stripC_fields hs).2.2.2.2.1]; exact ha, hfl, hfp⟩
  · rw [hun1 l p n2 h2] at hm2
    cases hm2

end Ddo.CacheClosed

#print axioms Ddo.CacheClosed.computeLocalBounds_marked
#print axioms Ddo.CacheClosed.finalize_marked
