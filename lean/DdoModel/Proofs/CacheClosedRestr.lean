import DdoModel.Proofs.Closed
import DdoModel.Proofs.Theta
/-! Two closing lemmas for the composition "diagram model ∘ solver model" when a cache is in use.

* `restricted_exact_as_relaxed` — a restricted compilation that ends normally and declares itself exact (no layer was
  squashed: `lel` is still unset) *is* a relaxed compilation: with `ctype := .relaxed` and everything else unchanged the
  loop builds the very same diagram (`buildLoop_relaxed_eq`), the result is exact again, reports the same best exact value
  and the same cache updates, and both cut-sets are empty.
* `compile_no_crash_cached` — `Ddo.Closed.compile_no_crash` for any cache (`cfg.useCache` arbitrary, any cache content),
  any compilation type: a compilation of width ≥ 1, without dominance rule and without cutoff, of a sub-problem that is not
  deeper than `nb_variables` ends normally. -/
set_option linter.unusedSectionVars false
set_option linter.unusedVariables false
namespace Ddo.CacheClosed
open Ddo Ddo.Truth Ddo.Closed
variable {S K : Type} [DecidableEq S] [DecidableEq K]

/-! ## Task 2: no crash, with a cache -/

/-- `squash` does not panic: width ≥ 1 and at most one node in the first layer -/
theorem squash_ne_none' (cfg : Cfg S K) (dd : DD S K) (layer : List (Node S)) (cur : List Nat) (hW : 1 ≤ cfg.width)
    (hJ : dd.layers = [] → cur.length ≤ 1) : squash cfg dd layer cur ≠ none := by
  unfold squash
  have h1 : (cfg.width == 0) = false := by
    cases h : cfg.width with
    | zero => omega
    | succ n => rfl
  have h2 : ((cfg.ctype == .restricted && decide (cur.length > cfg.width)) && dd.layers.isEmpty) = false := by
    cases hl : dd.layers with
    | nil =>
      have := hJ hl
      have h3 : decide (cur.length > cfg.width) = false := decide_eq_false (by omega)
      rw [h3]; simp
    | cons _ _ => simp
  simp only [h1, h2, Bool.and_false, Bool.false_eq_true, if_false]
  split
  · simp
  · split <;> simp

theorem fcOf_first (cfg : Cfg S K) (dd : DD S K) (h : dd.layers = []) :
    (Theta.fcOf cfg dd).2.length = dd.next.length := by
  unfold Theta.fcOf
  rw [h]
  simp only [List.isEmpty_nil, if_true, List.length_range]

/-- the loop does not crash (any cache, any compilation type) -/
theorem buildLoop_no_crash_cached (cfg : Cfg S K) (hd : cfg.dom = none) (hW : 1 ≤ cfg.width) (hNV : NvBound cfg.P) :
    ∀ (fuel : Nat) (dd : DD S K), (dd.layers = [] → dd.next.length ≤ 1) → dd.depth ≤ cfg.P.nbVars →
      cfg.P.nbVars + 1 ≤ dd.depth + fuel → (buildLoop cfg none fuel dd).2 = .ok := by
  intro fuel
  induction fuel with
  | zero => intro dd _ h1 h2; omega
  | succ fuel ih =>
    intro dd hJ h1 h2
    cases hnv : cfg.P.nextVar dd.depth (dd.next.map (·.state)) with
    | none =>
      unfold buildLoop
      simp only [hnv]
    | some var =>
      have hlt : dd.depth < cfg.P.nbVars := by
        by_cases hk : cfg.P.nbVars ≤ dd.depth
        · rw [hNV _ _ hk] at hnv; cases hnv
        · omega
      rw [buildLoop_step cfg fuel dd var hnv]
      by_cases hne : dd.next = []
      · rw [stepLayer_empty cfg (tick dd var) var hne]
      · have hJ' : (tick dd var).layers = [] → (Theta.fcOf cfg (tick dd var)).2.length ≤ 1 := by
          intro h
          rw [fcOf_first cfg _ h]
          exact hJ h
        cases hsq : squash cfg (tick dd var) (Theta.fcOf cfg (tick dd var)).1 (Theta.fcOf cfg (tick dd var)).2 with
        | none => exact absurd hsq (squash_ne_none' cfg (tick dd var) _ _ hW hJ')
        | some sq =>
          obtain ⟨dd', e, hl, _, hdep, _⟩ := Theta.stepLayer_okT cfg (tick dd var) var hne hd sq hsq
          rw [e]
          refine ih dd' ?_ ?_ ?_
          · intro h; rw [hl] at h; simp at h
          · rw [hdep]; show dd.depth + 1 ≤ _; omega
          · rw [hdep]; show _ ≤ dd.depth + 1 + fuel; omega

/-- **no crash, with a cache**: a compilation in isolation from the dominance store (`cfg.dom = none`), of width ≥ 1, of
    a sub-problem that is not deeper than `nb_variables` ends normally (no cutoff) — any `cfg.useCache`, any cache
    content, any compilation type -/
theorem compile_no_crash_cached (cfg : Cfg S K) (cache : Cache S) (store : DomStore S K) (polls : Nat)
    (hd : cfg.dom = none) (hW : 1 ≤ cfg.width) (hNV : NvBound cfg.P)
    (hdepth : cfg.root.depth ≤ cfg.P.nbVars) : (compile cfg cache store polls none).1 = .ok := by
  rw [compile_fst]
  refine buildLoop_no_crash_cached cfg hd hW hNV _ _ ?_ hdepth ?_
  · intro _; simp [initDD]
  · show cfg.P.nbVars + 1 ≤ cfg.root.depth + (cfg.P.nbVars + 2); omega

/-! ## Task 1: an exact restricted compilation is a relaxed compilation -/

/-- the layer, the positions, the store and the verdict after both filters -/
def fdOf (cfg : Cfg S K) (dd : DD S K) : List (Node S) × List Nat × DomStore S K × Bool :=
  filterDom cfg dd.store (Theta.fcOf cfg dd).1 (Theta.fcOf cfg dd).2

/-- a layer that fits into the width is not squashed, whatever the compilation type -/
theorem squash_small (cfg : Cfg S K) (dd : DD S K) (layer : List (Node S)) (cur : List Nat)
    (h : cur.length ≤ cfg.width) : squash cfg dd layer cur = some (layer, cur, dd.log, dd.lel) := by
  unfold squash
  have h3 : decide (cur.length > cfg.width) = false := decide_eq_false (by omega)
  simp only [h3, Bool.and_false, Bool.false_and, Bool.or_self, Bool.false_eq_true, if_false]

/-- a restricted compilation that leaves `lel` unset met a layer that fits into the width -/
theorem squash_restricted_small (cfg : Cfg S K) (hres : cfg.ctype = .restricted) (dd : DD S K) (layer : List (Node S))
    (cur : List Nat) (sq : List (Node S) × List Nat × List (Call S) × Option Nat)
    (h : squash cfg dd layer cur = some sq) (hn : sq.2.2.2 = none) : cur.length ≤ cfg.width := by
  by_cases hle : cur.length ≤ cfg.width
  · exact hle
  · exfalso
    unfold squash at h
    have e1 : (cfg.ctype == CompType.restricted) = true := by rw [hres]; decide
    have e2 : (cfg.ctype == CompType.relaxed) = false := by rw [hres]; decide
    have e3 : decide (cur.length > cfg.width) = true := decide_eq_true (by omega)
    simp only [e1, e2, e3, Bool.and_self, Bool.false_and, Bool.true_and, Bool.true_or, Bool.false_eq_true, if_false,
      if_true] at h
    split at h
    · cases h
    · simp only [Option.some.injEq] at h
      subst h
      dsimp only at hn
      split at hn
      · cases hn
      · rename_i hx
        simp only [Bool.not_eq_true, Option.isNone_eq_false_iff, Option.isSome_iff_exists] at hx
        obtain ⟨k, hk⟩ := hx; rw [hk] at hn; cases hn

/-- the `squash` call of a successful step on a non-empty layer -/
theorem stepLayer_sq (cfg : Cfg S K) (dd dd' : DD S K) (var : Nat) (oc : Outcome) (hne : dd.next.isEmpty = false)
    (h : stepLayer cfg dd var = (some dd', oc)) :
    ∃ sq, squash cfg dd (fdOf cfg dd).1 (fdOf cfg dd).2.1 = some sq ∧ dd'.lel = sq.2.2.2 := by
  unfold stepLayer at h
  simp only [hne, Bool.false_eq_true, if_false] at h
  unfold fdOf Theta.fcOf
  generalize (if dd.layers.isEmpty = true then (dd.next, List.range dd.next.length)
      else filterCache cfg dd.cache dd.next (List.range dd.next.length)) = fc at h ⊢
  generalize filterDom cfg dd.store fc.1 fc.2 = fd at h ⊢
  split at h
  · cases h
  · split at h
    · cases h
    · rename_i lsq csq lgsq lel hsq
      simp only [Prod.mk.injEq, Option.some.injEq] at h
      obtain ⟨rfl, _⟩ := h
      exact ⟨_, hsq, rfl⟩

/-- two configurations whose filters and expansion agree, and whose `squash` agrees on the filtered layer, make the same
    step -/
theorem stepLayer_congr (cfg1 cfg2 : Cfg S K) (dd : DD S K) (var : Nat)
    (hfc : ∀ c l cur, filterCache cfg1 c l cur = filterCache cfg2 c l cur)
    (hfd : ∀ s l cur, filterDom cfg1 s l cur = filterDom cfg2 s l cur)
    (hex : ∀ v i l cur lg, expandAll cfg1 v i l cur lg = expandAll cfg2 v i l cur lg)
    (hsq : dd.next.isEmpty = false →
      squash cfg1 dd (fdOf cfg2 dd).1 (fdOf cfg2 dd).2.1 = squash cfg2 dd (fdOf cfg2 dd).1 (fdOf cfg2 dd).2.1) :
    stepLayer cfg1 dd var = stepLayer cfg2 dd var := by
  unfold stepLayer
  cases hne : dd.next.isEmpty with
  | true => simp only [if_true]
  | false =>
    have hsq' := hsq hne
    unfold fdOf Theta.fcOf at hsq'
    simp only [Bool.false_eq_true, if_false, hfc, hfd, hex]
    generalize (if dd.layers.isEmpty = true then (dd.next, List.range dd.next.length)
        else filterCache cfg2 dd.cache dd.next (List.range dd.next.length)) = fc at hsq' ⊢
    generalize filterDom cfg2 dd.store fc.1 fc.2 = fd at hsq' ⊢
    rw [hsq']

/-- a step of a restricted compilation that leaves `lel` unset is a step of the relaxed compilation -/
theorem stepLayer_relaxed_eq (cfg : Cfg S K) (hres : cfg.ctype = .restricted) (dd dd' : DD S K) (var : Nat) (oc : Outcome)
    (h : stepLayer cfg dd var = (some dd', oc)) (hn : dd'.lel = none) :
    stepLayer { cfg with ctype := .relaxed } dd var = stepLayer cfg dd var := by
  refine stepLayer_congr _ cfg dd var (fun _ _ _ => rfl) (fun _ _ _ => rfl) (fun _ _ _ _ _ => rfl) (fun hne => ?_)
  obtain ⟨sq, hsq, hl⟩ := stepLayer_sq cfg dd dd' var oc hne h
  have hle := squash_restricted_small cfg hres dd _ _ sq hsq (hl ▸ hn)
  rw [squash_small cfg dd _ _ hle]
  exact squash_small { cfg with ctype := .relaxed } dd _ _ hle

theorem buildLoop_none (cfg : Cfg S K) (stopAt : Option Nat) (fuel : Nat) (dd : DD S K)
    (h : cfg.P.nextVar dd.depth (dd.next.map (·.state)) = none) :
    buildLoop cfg stopAt (fuel + 1) dd =
      ({ dd with log := Call.nextVar dd.depth (dd.next.map (·.state)) none :: dd.log }, .ok) := by
  conv => lhs; unfold buildLoop
  simp only [h]

theorem buildLoop_some (cfg : Cfg S K) (stopAt : Option Nat) (fuel : Nat) (dd : DD S K) (var : Nat)
    (h : cfg.P.nextVar dd.depth (dd.next.map (·.state)) = some var) :
    buildLoop cfg stopAt (fuel + 1) dd =
      if (match stopAt with | some k => decide ((tick dd var).polls ≥ k) | none => false) = true then (tick dd var, .cutoff)
      else
        match stepLayer cfg (tick dd var) var with
        | (none, _) => (tick dd var, .crash)
        | (some dd', .cutoff) => (dd', .ok)
        | (some dd', .crash) => (dd', .crash)
        | (some dd', .ok) => buildLoop cfg stopAt fuel dd' := by
  conv => lhs; unfold buildLoop
  simp only [h]
  rfl

/-- **the loop of an exact restricted compilation is the loop of the relaxed compilation** -/
theorem buildLoop_relaxed_eq (cfg : Cfg S K) (hres : cfg.ctype = .restricted) (stopAt : Option Nat) :
    ∀ (fuel : Nat) (dd : DD S K), (buildLoop cfg stopAt fuel dd).2 = .ok → (buildLoop cfg stopAt fuel dd).1.lel = none →
      buildLoop { cfg with ctype := .relaxed } stopAt fuel dd = buildLoop cfg stopAt fuel dd := by
  intro fuel
  induction fuel with
  | zero => intro dd _ _; rfl
  | succ fuel ih =>
    intro dd hok hn
    cases hnv : cfg.P.nextVar dd.depth (dd.next.map (·.state)) with
    | none =>
      rw [buildLoop_none cfg stopAt fuel dd hnv, buildLoop_none { cfg with ctype := .relaxed } stopAt fuel dd hnv]
    | some var =>
      rw [buildLoop_some cfg stopAt fuel dd var hnv] at hok hn ⊢
      rw [buildLoop_some { cfg with ctype := .relaxed } stopAt fuel dd var hnv]
      generalize (match stopAt with | some k => decide ((tick dd var).polls ≥ k) | none => false) = stop at hok hn ⊢
      cases stop with
      | true => rfl
      | false =>
        simp only [Bool.false_eq_true, if_false] at hok hn ⊢
        cases hst : stepLayer cfg (tick dd var) var with
        | mk o oc =>
          rw [hst] at hok hn
          cases o with
          | none => cases hok
          | some dd' =>
            cases oc with
            | crash => cases hok
            | cutoff =>
              rw [stepLayer_relaxed_eq cfg hres _ dd' var _ hst hn, hst]
            | ok =>
              dsimp only at hok hn
              have hn' := buildLoop_lel cfg stopAt fuel dd' hn
              rw [stepLayer_relaxed_eq cfg hres _ dd' var _ hst hn', hst]
              exact ih dd' hok hn

/-! ### `finalize` -/

/-- on a built diagram whose `lel` is unset and whose terminal nodes are all exact, the relaxed `finalize` (either value
    of the exact-best-path bit) reports what the restricted one reports -/
theorem finalize_exact_relaxed (cfg : Cfg S K) (hres : cfg.ctype = .restricted) (b : Built S K) (e : Bool)
    (hx : b.isExactField = true) (hlel : b.layers.length ≤ b.lel) (hall : ∀ n ∈ b.terminals, n.isExact = true) :
    (finalize { cfg with ctype := .relaxed } b e).1.isExact = true ∧
    (finalize { cfg with ctype := .relaxed } b e).1.bestExactValue = (finalize cfg b false).1.bestExactValue ∧
    (finalize { cfg with ctype := .relaxed } b e).1.cacheUpdates = (finalize cfg b false).1.cacheUpdates := by
  have hbev : (if e = true then b.bestValue else maxValue (b.terminals.filter (·.isExact))) =
      maxValue (b.terminals.filter (·.isExact)) := by
    cases e
    · rfl
    · simp only [if_true]; unfold Built.bestValue; rw [List.filter_eq_self.2 hall]
  refine ⟨?_, ?_, ?_⟩
  · rw [finalize_isExact, hx]; rfl
  · rw [finalize_bestExactValue, finalize_bestExactValue, hbev]; rfl
  · have e1 : (cfg.ctype == CompType.relaxed) = false := by rw [hres]; decide
    have e2 : decide (b.lel < b.layers.length) = false := decide_eq_false (by omega)
    unfold finalize
    simp only [e1, e2, hx, hbev, Bool.false_and, Bool.or_true, Bool.false_eq_true, if_false, if_true]

theorem isExactField_finalizeLayers (dd : DD S K) : (finalizeLayers dd).isExactField = dd.lel.isNone := by
  unfold finalizeLayers
  split <;> rfl

/-! ### `compile` -/

/-- **an exact restricted compilation is a relaxed compilation**: a restricted compilation that ends normally and
    declares itself exact squashed no layer; the compilation with `ctype := .relaxed` (everything else unchanged: same
    cache, same store, same cutoff) builds the same diagram, ends normally, is exact, reports the same best exact value and
    emits the same cache updates; both cut-sets are empty.  (`must` results; any cache / dominance configuration.) -/
theorem restricted_exact_as_relaxed (cfg : Cfg S K) (B : Int) (p0 : List Dec)
    (cache : Cache S) (store : DomStore S K) (polls : Nat) (stopAt : Option Nat)
    (hres : cfg.ctype = .restricted)
    (hB : NoClamp cfg.P cfg.R cfg.root.value B)
    (hroot : Reach cfg.P cfg.root.depth cfg.root.state cfg.root.value p0)
    (hok : (compile cfg cache store polls stopAt).1 = .ok)
    (hex : (compile cfg cache store polls stopAt).2.1.isExact = true) :
    (compile { cfg with ctype := .relaxed } cache store polls stopAt).1 = .ok ∧
    (compile { cfg with ctype := .relaxed } cache store polls stopAt).2.1.isExact = true ∧
    (compile { cfg with ctype := .relaxed } cache store polls stopAt).2.1.bestExactValue =
      (compile cfg cache store polls stopAt).2.1.bestExactValue ∧
    (compile { cfg with ctype := .relaxed } cache store polls stopAt).2.1.cacheUpdates =
      (compile cfg cache store polls stopAt).2.1.cacheUpdates ∧
    (compile cfg cache store polls stopAt).2.1.cutset = [] ∧
    (compile { cfg with ctype := .relaxed } cache store polls stopAt).2.1.cutset = [] := by
  obtain ⟨hbl, hdd, hr⟩ := Ddo.compile_ok cfg cache store polls stopAt hok
  have e2 : (cfg.ctype == CompType.relaxed) = false := by rw [hres]; decide
  rw [e2] at hr
  have e3 : ∀ b : Built S K, b.ebpMust false = false := fun _ => rfl
  rw [e3] at hr
  -- no layer was squashed
  have hlel : (buildLoop cfg stopAt (cfg.P.nbVars + 2) (initDD cfg cache store polls)).1.lel = none := by
    rw [hr, finalize_isExact, Bool.or_false, isExactField_finalizeLayers] at hex
    exact Option.isNone_iff_eq_none.mp hex
  -- the relaxed loop is the same loop
  have hloop : buildLoop { cfg with ctype := .relaxed } stopAt
      (({ cfg with ctype := .relaxed } : Cfg S K).P.nbVars + 2) (initDD { cfg with ctype := .relaxed } cache store polls) =
      buildLoop cfg stopAt (cfg.P.nbVars + 2) (initDD cfg cache store polls) :=
    buildLoop_relaxed_eq cfg hres stopAt (cfg.P.nbVars + 2) (initDD cfg cache store polls) hbl hlel
  have hokX : (compile { cfg with ctype := .relaxed } cache store polls stopAt).1 = .ok := by
    rw [compile_fst, hloop]; exact hbl
  obtain ⟨_, hddX, hrX⟩ := Ddo.compile_ok { cfg with ctype := .relaxed } cache store polls stopAt hokX
  rw [hloop] at hrX hddX
  -- the common built diagram
  obtain ⟨_, hinv2⟩ := buildLoop_inv2 cfg B p0 hB stopAt (cfg.P.nbVars + 2) (initDD cfg cache store polls)
    (initDD_inv cfg B p0 hB hroot cache store polls) (initDD_inv2 cfg cache store polls) rfl
    (by simp only [initDD, List.length_nil]; omega)
  generalize (buildLoop cfg stopAt (cfg.P.nbVars + 2) (initDD cfg cache store polls)).1 = fin at hr hrX hlel hinv2 hdd hddX
  have hx : (finalizeLayers fin).isExactField = true := by rw [isExactField_finalizeLayers, hlel]; rfl
  have hle : (finalizeLayers fin).layers.length ≤ (finalizeLayers fin).lel := by
    rw [finalizeLayers_lel, hlel, Option.getD_none]; exact Nat.le_refl _
  have hall : ∀ n ∈ (finalizeLayers fin).terminals, n.isExact = true := by
    rw [terminals_finalizeLayers]; exact (hinv2.lelNone hlel).2
  obtain ⟨f1, f2, f3⟩ := finalize_exact_relaxed cfg hres (finalizeLayers fin)
    ((finalizeLayers fin).ebpMust (({ cfg with ctype := .relaxed } : Cfg S K).ctype == .relaxed)) hx hle hall
  refine ⟨hokX, ?_, ?_, ?_, ?_, ?_⟩
  · rw [hrX]; exact f1
  · rw [hrX, hr]; exact f2
  · rw [hrX, hr]; exact f3
  · exact C08.cutset_empty_of_exact cfg B p0 cache store polls stopAt hroot hB hok _ (.inl rfl) (by rw [hdd]; exact hlel)
  · refine C08.cutset_empty_of_exact { cfg with ctype := .relaxed } B p0 cache store polls stopAt hroot hB hokX _ (.inl rfl)
      (by rw [hddX]; exact hlel)

end Ddo.CacheClosed

#print axioms Ddo.CacheClosed.compile_no_crash_cached
#print axioms Ddo.CacheClosed.buildLoop_relaxed_eq
#print axioms Ddo.CacheClosed.restricted_exact_as_relaxed
