import DdoModel.Proofs.PooledInv
import DdoModel.Proofs.MddTruth
import DdoModel.WfRel
/-! Shared definitions for the pooled diagram as an implementation of the solver's diagram contracts
    (`Proofs/PooledCover.lean`, `PooledBounds.lean`, `PooledTruth.lean`, `Props/C15b.lean`).

* `SkipWf P H` — the contract of `is_impacted_by`, in potential form (see the docstring).
* `SkipRel P H V` — the part needed by the upper-bound direction, relative to a layer-validity predicate `V`.
* `NeutralSkip P` — the contract of `is_impacted_by` as the documentation of `ddo` words it (a decision on a variable that
  does not impact a state changes neither the state nor the value) and `skipWf_of_neutral`.
* `PathRel P R` — a relation on (depth, state, value, decisions from the root of a compilation) closed under a transition
  of the model and under a skip; `ReachSkip` (shifted by a prefix) and the potential bound are instances.
* `IsSolP` — what a pooled compilation reports as a solution: a complete `ReachSkip` path through the root sub-problem. -/
namespace Ddo
variable {S : Type}

/-- **The contract of `Problem::is_impacted_by`, in potential form.**  `H k s` is the value-to-go of state `s` at depth `k`
    (`Potential`).  When the variable `x` selected for the layer of depth `k` does not impact `s`, the pooled diagram
    leaves the node where it is: same state, same value, depth `k + 1`, no decision.  This is sound iff skipping the variable
    changes nothing to what can still be gained:

    * `up`   — `H k s ≤ H (k+1) s` on **every** state handed to `nextVar` (children of merged nodes included): skipping loses
      no potential.  It is the clause the *upper bound* direction needs (C06, C08 (iii), (iv)); it plays for a skipped node the
      role `Potential.att` plays for an expanded one.
    * `down` — `H (k+1) s ≤ H k s` on states reached exactly (`ReachSkip`): skipping gains nothing.  *Lower bound* direction
      (C07, `CompileOk.sound` / `within`, `CutsetOk.sub` / `good`); the counterpart of `Potential.le`.
    * `le`   — `Potential.le` on the states reached with skips (`Potential.le` only speaks of `Reach`, one decision per layer;
      `Reach ⊆ ReachSkip`, so this clause extends it).

    With `AllImpacted` the first two clauses are void and the third is `Potential.le` (`skipWf_of_allImpacted`); it follows
    from `Potential` and the documented meaning of `is_impacted_by` (`NeutralSkip`, `skipWf_of_neutral`). -/
structure SkipWf (P : Problem S) (H : Nat → S → EInt) : Prop where
  up : ∀ k L x s, P.nextVar k L = some x → s ∈ L → P.impacted x s = false → H k s ≤ H (k + 1) s
  down : ∀ k L x s v p, ReachSkip P k s v p → P.nextVar k L = some x → s ∈ L → P.impacted x s = false →
      H (k + 1) s ≤ H k s
  le : ∀ k L x s v p d, ReachSkip P k s v p → P.nextVar k L = some x → s ∈ L → d ∈ P.domain x s →
      (H (k + 1) (P.trans s ⟨x, d⟩)).addI (P.cost s (P.trans s ⟨x, d⟩) ⟨x, d⟩) ≤ H k s

/-- the upper-bound half of `SkipWf`, relative to a layer-validity predicate (as `WfRel`) -/
structure SkipRel (P : Problem S) (H : Nat → S → EInt) (V : Nat → S → Prop) : Prop where
  vskip : ∀ k L x s, P.nextVar k L = some x → s ∈ L → V k s → P.impacted x s = false → V (k + 1) s
  up : ∀ k L x s, P.nextVar k L = some x → s ∈ L → V k s → P.impacted x s = false → H k s ≤ H (k + 1) s

theorem SkipWf.toRel {P : Problem S} {H : Nat → S → EInt} (h : SkipWf P H) : SkipRel P H (fun _ _ => True) :=
  ⟨fun _ _ _ _ _ _ _ _ => trivial, fun k L x s hnv hs _ hi => h.up k L x s hnv hs hi⟩

theorem skipRel_of_allImpacted {P : Problem S} (H : Nat → S → EInt) (V : Nat → S → Prop) (hall : AllImpacted P) :
    SkipRel P H V :=
  ⟨fun _ _ x s _ _ _ hi => (by rw [hall x s] at hi; cases hi), fun _ _ x s _ _ _ hi => (by rw [hall x s] at hi; cases hi)⟩

/-- without long arcs `SkipWf` is `Potential.le` -/
theorem skipWf_of_allImpacted {P : Problem S} {H : Nat → S → EInt} (hP : Potential P H) (hall : AllImpacted P) :
    SkipWf P H :=
  ⟨fun _ _ x s _ _ hi => (by rw [hall x s] at hi; cases hi),
   fun _ _ x s _ _ _ _ _ hi => (by rw [hall x s] at hi; cases hi),
   fun k L x s v p d hr hnv hs hd => hP.le k L x s v p d (hr.toReach hall) hnv hs hd⟩

/-- **the documented meaning of `is_impacted_by`**: when `x` does not impact `s`, the domain of `x` in `s` is not empty and
    every decision on `x` leaves the state where it is and costs nothing -/
def NeutralSkip (P : Problem S) : Prop :=
  ∀ x s, P.impacted x s = false → P.domain x s ≠ [] ∧
    ∀ d ∈ P.domain x s, P.trans s ⟨x, d⟩ = s ∧ P.cost s s ⟨x, d⟩ = 0

/-- with `NeutralSkip` a path with skips can be completed into a plain path: same depth, state and value -/
theorem ReachSkip.complete {P : Problem S} (hN : NeutralSkip P) {k : Nat} {s : S} {v : Int} {p : List Dec}
    (h : ReachSkip P k s v p) : ∃ p', Reach P k s v p' := by
  induction h with
  | root => exact ⟨[], .root⟩
  | step k s v p L x d _ hnv hs hd ih =>
    obtain ⟨p', hp'⟩ := ih
    exact ⟨_, .step k s v p' L x d hp' hnv hs hd⟩
  | skip k s v p L x _ hnv hs hi ih =>
    obtain ⟨p', hp'⟩ := ih
    obtain ⟨hne, hall⟩ := hN x s hi
    cases hdm : P.domain x s with
    | nil => exact absurd hdm hne
    | cons d ds =>
      have hd : d ∈ P.domain x s := by rw [hdm]; exact List.mem_cons_self
      obtain ⟨e1, e2⟩ := hall d hd
      have := Reach.step k s v p' L x d hp' hnv hs hd
      rw [e1, e2, Int.add_zero] at this
      exact ⟨_, this⟩

/-- `Potential` + the documented meaning of `is_impacted_by` ⟹ `SkipWf`: `up` from `Potential.att` (which holds on every
    state: the decision that loses no potential is neutral), `down` / `le` from `Potential.le` on the completed path -/
theorem skipWf_of_neutral {P : Problem S} {H : Nat → S → EInt} (hP : Potential P H) (hN : NeutralSkip P) :
    SkipWf P H := by
  refine ⟨?_, ?_, ?_⟩
  · intro k L x s hnv hs hi
    cases hH : H k s with
    | none => exact EInt.none_le _
    | some h =>
      obtain ⟨d, hd, h', hH', hle⟩ := hP.att k L x s h hnv hs hH
      obtain ⟨e1, e2⟩ := (hN x s hi).2 d hd
      rw [e1] at hH' hle
      rw [e2] at hle
      rw [hH']
      show h ≤ h'
      omega
  · intro k L x s v p hr hnv hs hi
    obtain ⟨p', hp'⟩ := hr.complete hN
    obtain ⟨hne, hall⟩ := hN x s hi
    cases hdm : P.domain x s with
    | nil => exact absurd hdm hne
    | cons d ds =>
      have hd : d ∈ P.domain x s := by rw [hdm]; exact List.mem_cons_self
      obtain ⟨e1, e2⟩ := hall d hd
      have := hP.le k L x s v p' d hp' hnv hs hd
      rw [e1, e2] at this
      cases hH : H (k + 1) s with
      | none => exact EInt.none_le _
      | some h =>
        rw [hH] at this
        simpa [EInt.addI] using this
  · intro k L x s v p d hr hnv hs hd
    obtain ⟨p', hp'⟩ := hr.complete hN
    exact hP.le k L x s v p' d hp' hnv hs hd

/-- the potential never grows along a path with skips: a reached sub-problem cannot beat the problem root -/
theorem reachSkip_le_root {P : Problem S} {H : Nat → S → EInt} (hS : SkipWf P H) {k : Nat} {s : S} {v : Int} {p : List Dec}
    (h : ReachSkip P k s v p) : (H k s).addI v ≤ (H 0 P.init).addI P.initVal := by
  induction h with
  | root => exact EInt.le_refl _
  | step k s v p L x d hr hnv hs hd ih =>
    exact EInt.le_trans (Truth.addI_step (hS.le k L x s v p d hr hnv hs hd)) ih
  | skip k s v p L x hr hnv hs hi ih =>
    refine EInt.le_trans ?_ ih
    have := hS.down k L x s v p hr hnv hs hi
    cases h1 : H (k + 1) s with
    | none => exact EInt.none_le _
    | some a =>
      rw [h1] at this
      cases h2 : H k s with
      | none => rw [h2] at this; exact absurd this (by simp)
      | some b =>
        rw [h2] at this
        simp only [EInt.addI, Option.map_some, EInt.some_le_some] at this ⊢
        omega

/-- a relation on (depth, state, value, decisions) closed under a transition of the model and under a skip -/
structure PathRel (P : Problem S) (R : Nat → S → Int → List Dec → Prop) : Prop where
  step : ∀ k s v q L x d, R k s v q → P.nextVar k L = some x → s ∈ L → d ∈ P.domain x s →
    R (k + 1) (P.trans s ⟨x, d⟩) (v + P.cost s (P.trans s ⟨x, d⟩) ⟨x, d⟩) (q ++ [⟨x, d⟩])
  skip : ∀ k s v q L x, R k s v q → P.nextVar k L = some x → s ∈ L → P.impacted x s = false → R (k + 1) s v q

/-- `ReachSkip` after a fixed prefix is a `PathRel` -/
theorem pathRel_reachSkip (P : Problem S) (p0 : List Dec) : PathRel P (fun k s v q => ReachSkip P k s v (p0 ++ q)) :=
  ⟨fun k s v q L x d h hnv hs hd => (by rw [← List.append_assoc]; exact .step k s v _ L x d h hnv hs hd),
   fun k s v q L x h hnv hs hi => .skip k s v _ L x h hnv hs hi⟩

/-- being reached with skips after `p0` **and** not beating the potential `Φ0` is a `PathRel` -/
theorem pathRel_potLe {P : Problem S} {H : Nat → S → EInt} (hS : SkipWf P H) (p0 : List Dec) (Φ0 : EInt) :
    PathRel P (fun k s v q => ReachSkip P k s v (p0 ++ q) ∧ (H k s).addI v ≤ Φ0) := by
  refine ⟨?_, ?_⟩
  · intro k s v q L x d ⟨h, hle⟩ hnv hs hd
    refine ⟨by rw [← List.append_assoc]; exact .step k s v _ L x d h hnv hs hd, ?_⟩
    exact EInt.le_trans (Truth.addI_step (hS.le k L x s v _ d h hnv hs hd)) hle
  · intro k s v q L x ⟨h, hle⟩ hnv hs hi
    refine ⟨.skip k s v _ L x h hnv hs hi, EInt.le_trans ?_ hle⟩
    have := hS.down k L x s v _ h hnv hs hi
    cases h1 : H (k + 1) s with
    | none => exact EInt.none_le _
    | some a =>
      rw [h1] at this
      cases h2 : H k s with
      | none => rw [h2] at this; exact absurd this (by simp)
      | some b =>
        rw [h2] at this
        simp only [EInt.addI, Option.map_some, EInt.some_le_some] at this ⊢
        omega

variable {K : Type}

/-- a complete feasible path (with skips) of value `w` through the root sub-problem, reported as `sol` -/
def IsSolP (cfg : Cfg S K) (p0 : List Dec) (w : Int) (sol : Option (List Dec)) : Prop :=
  ∃ (k : Nat) (s : S) (q : List Dec) (L : List S), ReachSkip cfg.P k s w (p0 ++ q) ∧ s ∈ L ∧ cfg.P.nextVar k L = none ∧
    sol = some (cfg.root.path ++ q.reverse)

end Ddo
