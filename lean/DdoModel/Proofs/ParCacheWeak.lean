import DdoModel.Proofs.ParCacheExec
import DdoModel.Proofs.ParCacheInvE
/-! # `CompC` alone — the contract of the SEQUENTIAL caching solver — does not suffice for the PARALLEL system

`Proofs/ParCacheInvE.lean` proves the abstract parallel system with the threshold cache (`KStep`) correct under the
contracts `OkRc` / `OkXc` = `CompK` = the sequential contract `CompC` **plus** `ThetaStrict` plus `fresh1`.  This file shows
that the extra part is needed: there is a run of `KStep 3 false okRw okXw`, every compilation of which satisfies `CompC`
(relative to the virtual cache it presents and the incumbent it read) — i.e. everything the sequential proof asks — that
reaches `Complete` with the incumbent `iMin` although the optimum is `10`.

Scenario (`S = Nat`, 3 variables, potential `Hw` = 10 on the five cells used): the root `R` branches into `A` (state 1) and
`B` (state 2) of depth 1; two workers compile them concurrently; `A` hands out `CA` (state 3, depth 2), `B` hands out `CB`
(state 4, depth 2); **each records, besides the honest threshold `(own cell, 0, explored = false)`, the threshold
`(cell of the OTHER worker's cut-set node, 0, explored = true)`**, "justified" (field `CompC.theta`: `u.2.1 ≤ c.depth`) by
its own cut-set node, which sits at the same depth, has the same potential — and another state.  `ThetaStrict` forbids
exactly that.  After both have written, both cells hold `(0, true)`; `CA` and `CB` are refused by `must_explore` at pop;
the fringe is empty; `Complete`. -/
set_option linter.unusedSectionVars false
set_option linter.unusedVariables false
namespace Ddo.ParCache.Weak
open Ddo Ddo.C09 Ddo.ParSys Ddo.Closed Ddo.ParCache

/-! ## the scenario -/

def Hw : Nat → Nat → EInt
  | 0, 0 => some 10
  | 1, 1 => some 10
  | 1, 2 => some 10
  | 2, 3 => some 10
  | 2, 4 => some 10
  | _, _ => none

def Solw : List Dec → Int → Prop := fun _ _ => False
def Rgw : Nat → Int → Prop := fun _ _ => True

def prob : Problem Nat :=
  { nbVars := 3, init := 0, initVal := 0, trans := fun s _ => s, cost := fun _ _ _ => 0, nextVar := fun _ _ => none,
    domain := fun _ _ => [], impacted := fun _ _ => false }

def nA : SubP Nat := ⟨1, 0, [], 10, 1⟩
def nB : SubP Nat := ⟨2, 0, [], 10, 1⟩
def nCA : SubP Nat := ⟨3, 0, [], 10, 2⟩
def nCB : SubP Nat := ⟨4, 0, [], 10, 2⟩

def r0 : DDOut Nat := ⟨false, none, none, []⟩
def xR : DDOut Nat := ⟨false, none, none, [nA, nB]⟩
def xA : DDOut Nat := ⟨false, none, none, [nCA]⟩
def xB : DDOut Nat := ⟨false, none, none, [nCB]⟩
def upsA : List (Up Nat) := [(3, 2, 0, false), (4, 2, 0, true)]
def upsB : List (Up Nat) := [(4, 2, 0, false), (3, 2, 0, true)]

/-- the contract of a restricted compilation, as `OkRc` with `CompC` in the place of `CompK` -/
def okRw (n : SubP Nat) (lb : Int) (cv : Cache Nat) (o : DDOut Nat) (ups : List (Up Nat)) : Prop :=
  (∀ w, o.bestExact = some w → ∃ p, o.bestExactSol = some p ∧ Solw p w ∧ w ≤ 10) ∧
  (o.isExact = true → CompC Hw 10 Solw Rgw n lb (viewOf cv) o ups (Theta.bkOf lb o.bestExact)) ∧
  (o.isExact = false → ups = [])

/-- the contract of a relaxed compilation: **exactly the sequential contract `CompC`** -/
def okXw (n : SubP Nat) (lb : Int) (cv : Cache Nat) (o : DDOut Nat) (ups : List (Up Nat)) : Prop :=
  CompC Hw 10 Solw Rgw n lb (viewOf cv) o ups (Theta.bkOf lb o.bestExact)

theorem okRw_r0 (n : SubP Nat) (lb : Int) (cv : Cache Nat) : okRw n lb cv r0 [] :=
  ⟨(fun w h => by cases h), (fun h => by cases h), fun _ => rfl⟩

/-! ## `CompC` for the three relaxed answers -/

theorem compC_xR (n : SubP Nat) (hs : n.state = 0) (hd : n.depth = 0) (hv : n.value = 0) (lb : Int) (T : CView Nat)
    (h1 : T 1 1 = none) (h2 : T 2 1 = none) : CompC Hw 10 Solw Rgw n lb T xR [] lb := by
  obtain ⟨st, v, p, ub, d⟩ := n
  simp only at hs hd hv
  subst hs hd hv
  have hmem : ∀ c ∈ xR.cutset, c = nA ∨ c = nB := by
    intro c hc
    simpa [xR] using hc
  have hopt : ∀ c ∈ xR.cutset, optOf Hw c = some 10 := by
    intro c hc
    rcases hmem c hc with rfl | rfl <;> rfl
  refine ⟨(fun w h => by cases h), (fun h => by cases h), (fun h => by cases h), ?_, ?_, ?_, fun _ _ => True.intro, ?_, ?_, ?_, ?_⟩
  · intro _ x hx hgt
    have e : (10 : Int) = x := Option.some.inj hx
    exact .inl ⟨nA, by simp [xR], 10, rfl, by omega⟩
  · intro u hu; cases hu
  · intro c hc x hx
    rw [hopt c hc] at hx
    have e : (10 : Int) = x := Option.some.inj hx
    omega
  · intro c hc y hy
    rw [hopt c hc] at hy
    have e : (10 : Int) = y := Option.some.inj hy
    exact ⟨10, rfl, by omega⟩
  · intro c hc
    rcases hmem c hc with rfl | rfl <;> exact Nat.zero_lt_one
  · intro c hc y hy hgt
    rw [hopt c hc] at hy
    have e : (10 : Int) = y := Option.some.inj hy
    refine .inl ?_
    rcases hmem c hc with rfl | rfl <;> (subst e; decide)
  · intro c hc _ hp
    obtain ⟨t, ht, _⟩ := hp
    have ht : T c.state c.depth = some t := ht
    rcases hmem c hc with rfl | rfl
    · rw [show T nA.state nA.depth = T 1 1 from rfl, h1] at ht; cases ht
    · rw [show T nB.state nB.depth = T 2 1 from rfl, h2] at ht; cases ht

/-- the relaxed answer for a node of state `sn`, depth 1, value 0 whose cut-set is the single node `cn` of state `sc`, depth
    2, and which records `(sc, 2, 0, false)` and `(so, 2, 0, true)` for ANOTHER state `so` of the same potential -/
theorem compC_mid (n : SubP Nat) (sn sc so : Nat) (hn : Hw 1 sn = some 10) (hc : Hw 2 sc = some 10) (ho : Hw 2 so = some 10)
    (hne : so ≠ sc) (hs : n.state = sn) (hd : n.depth = 1) (hv : n.value = 0) (lb : Int) (T : CView Nat)
    (h3 : T sc 2 = none) :
    CompC Hw 10 Solw Rgw n lb T ⟨false, none, none, [⟨sc, 0, [], 10, 2⟩]⟩ [(sc, 2, 0, false), (so, 2, 0, true)] lb := by
  obtain ⟨st, v, p, ub, d⟩ := n
  simp only at hs hd hv
  subst hs hd hv
  have hoN : optOf Hw (⟨st, 0, p, ub, 1⟩ : SubP Nat) = some 10 := by
    show (Hw 1 st).addI 0 = some 10
    rw [hn]; rfl
  have hoC : optOf Hw (⟨sc, 0, [], 10, 2⟩ : SubP Nat) = some 10 := by
    show (Hw 2 sc).addI 0 = some 10
    rw [hc]; rfl
  have hmem : ∀ c ∈ [(⟨sc, 0, [], 10, 2⟩ : SubP Nat)], c = ⟨sc, 0, [], 10, 2⟩ := by
    intro c hc
    simpa using hc
  refine ⟨(fun w h => by cases h), (fun h => by cases h), (fun h => by cases h), ?_, ?_, ?_, fun _ _ => True.intro, ?_, ?_, ?_, ?_⟩
  · intro _ x hx hgt
    rw [hoN] at hx
    have e : (10 : Int) = x := Option.some.inj hx
    exact .inl ⟨_, List.mem_cons_self, 10, hoC, by omega⟩
  · intro u hu w h hr hw hH
    have hu' : u = (sc, 2, 0, false) ∨ u = (so, 2, 0, true) := by simpa using hu
    refine .inr (.inl ⟨_, List.mem_cons_self, ?_, 10, hoC, ?_⟩)
    · rcases hu' with rfl | rfl <;> exact Nat.le_refl 2
    · rcases hu' with rfl | rfl
      · have hw : w ≤ 0 := hw
        have hH : Hw 2 sc = some h := hH
        rw [hc] at hH
        have e : (10 : Int) = h := Option.some.inj hH
        omega
      · have hw : w ≤ 0 := hw
        have hH : Hw 2 so = some h := hH
        rw [ho] at hH
        have e : (10 : Int) = h := Option.some.inj hH
        omega
  · intro c hc x hx
    rw [hmem c hc, hoC] at hx
    have e : (10 : Int) = x := Option.some.inj hx
    omega
  · intro c hc y hy
    rw [hmem c hc, hoC] at hy
    have e : (10 : Int) = y := Option.some.inj hy
    exact ⟨10, hoN, by omega⟩
  · intro c hc
    rw [hmem c hc]; exact Nat.lt_succ_self 1
  · intro c hc y hy hgt
    rw [hmem c hc, hoC] at hy
    have e : (10 : Int) = y := Option.some.inj hy
    refine .inl ?_
    rw [hmem c hc]
    show y ≤ 10
    omega
  · intro c hc _ hp
    rw [hmem c hc] at hp
    obtain ⟨t, ht, hcond⟩ := hp
    have ht : (T.upds [(sc, 2, 0, false), (so, 2, 0, true)]) sc 2 = some t := ht
    have hcond : (0 : Int) < t.value ∨ ((0 : Int) = t.value ∧ t.explored = true) := hcond
    rcases upds_get _ T sc 2 t ht with h | ⟨u, hu, hus, hud, rfl⟩
    · rw [h3] at h; cases h
    · have hu' : u = (sc, 2, 0, false) ∨ u = (so, 2, 0, true) := by simpa using hu
      rcases hu' with rfl | rfl
      · rcases hcond with h | ⟨_, h⟩
        · have h : (0 : Int) < 0 := h
          omega
        · cases h
      · exact hne hus

theorem compC_xA (n : SubP Nat) (hs : n.state = 1) (hd : n.depth = 1) (hv : n.value = 0) (lb : Int) (T : CView Nat)
    (h3 : T 3 2 = none) : CompC Hw 10 Solw Rgw n lb T xA upsA lb :=
  compC_mid n 1 3 4 rfl rfl rfl (by decide) hs hd hv lb T h3

theorem compC_xB (n : SubP Nat) (hs : n.state = 2) (hd : n.depth = 1) (hv : n.value = 0) (lb : Int) (T : CView Nat)
    (h4 : T 4 2 = none) : CompC Hw 10 Solw Rgw n lb T xB upsB lb :=
  compC_mid n 2 4 3 rfl rfl rfl (by decide) hs hd hv lb T h4

/-- **the answer of `A` violates the strict threshold contract** (for every virtual cache without deeper entries — in
    particular the empty one — and every incumbent below the optimum) -/
theorem not_thetaStrict_xA (lb : Int) (hlb : lb < 10) : ¬ ThetaStrict Hw Rgw (fun _ _ => none) xA upsA (Theta.bkOf lb xA.bestExact) := by
  intro h
  rcases h (4, 2, 0, true) (by simp [upsA]) 0 10 True.intro (Int.le_refl _) rfl with a | ⟨c, hc, hd, _⟩ | ⟨s, d', t, v, hh, hT, _⟩
  · have a : (0 : Int) + 10 ≤ lb := a
    omega
  · have hc : c = nCA := by simpa [xA] using hc
    subst hc
    rcases hd with hd | ⟨_, hd⟩
    · exact absurd hd (by decide)
    · exact absurd hd (by decide)
  · cases hT

/-! ## the stepper: `nextK` of `Proofs/ParCacheExec.lean` with canned answers -/

/-- the canned relaxed answer -/
def ansX (n : SubP Nat) : Option (DDOut Nat × List (Up Nat)) :=
  if n.state = 0 ∧ n.depth = 0 ∧ n.value = 0 then some (xR, [])
  else if n.state = 1 ∧ n.depth = 1 ∧ n.value = 0 then some (xA, upsA)
  else if n.state = 2 ∧ n.depth = 1 ∧ n.value = 0 then some (xB, upsB)
  else none

/-- the virtual cache has no entry on the cells of the cut-set nodes handed out -/
def cellsFree (cv : Cache Nat) (o : DDOut Nat) : Bool := o.cutset.all (fun c => decide (viewOf cv c.state c.depth = none))

theorem ansX_ok (n : SubP Nat) (lb : Int) (cv : Cache Nat) (o : DDOut Nat) (ups : List (Up Nat))
    (ha : ansX n = some (o, ups)) (hf : cellsFree cv o = true) : okXw n lb cv o ups := by
  unfold ansX at ha
  unfold cellsFree at hf
  rw [List.all_eq_true] at hf
  have hf : ∀ c ∈ o.cutset, viewOf cv c.state c.depth = none := fun c hc => by simpa using hf c hc
  split at ha
  · next h =>
    injection ha with ha; injection ha with ha1 ha2; subst ha1 ha2
    exact compC_xR n h.1 h.2.1 h.2.2 lb _ (hf nA (by simp [xR])) (hf nB (by simp [xR]))
  · split at ha
    · next h =>
      injection ha with ha; injection ha with ha1 ha2; subst ha1 ha2
      exact compC_xA n h.1 h.2.1 h.2.2 lb _ (hf nCA (by simp [xA]))
    · split at ha
      · next h =>
        injection ha with ha; injection ha with ha1 ha2; subst ha1 ha2
        exact compC_xB n h.1 h.2.1 h.2.2 lb _ (hf nCB (by simp [xB]))
      · cases ha

/-- **the next step of worker `i`** (`pick`: which admissible snapshot of the shared cache a compilation presents) -/
def nextW (pick : Nat) (s : KSys Nat) (i : Nat) : Option (KSys Nat) :=
  match s.ws[i]? with
  | none => none
  | some .idle => if lockFreeB s then some { s with ws := s.ws.set i .gwC } else none
  | some .waiting => none
  | some .done => none
  | some .crashed => none
  | some .gwC =>
    if cleanCond 3 s.crit then
      match s.cache.clearLayer s.crit.base.firstActive with
      | some c' => some { s with crit := bumpFirst s.crit, cache := c', log := c' :: s.log }
      | none => none
    else
      match s.crit.base.fringe with
      | [] =>
        if s.crit.ongoing = 0 then some { s with crit := s.crit.complete, ws := s.ws.set i .done }
        else some { s with ws := s.ws.set i .waiting }
      | _ :: _ => some { s with ws := s.ws.set i .gwP }
  | some .gwP =>
    match popMax s.crit.base.fringe with
    | none => some { s with ws := s.ws.set i .idle }
    | some (N, rest) =>
      if N.ub ≤ s.crit.base.bestLb then some { s with crit := starve s.crit, ws := s.ws.set i .idle }
      else
        match s.cache.mustExplore N.state N.depth N.value with
        | none => none
        | some false =>
          match dropOne s.crit N rest with
          | some c' => some { s with crit := c' }
          | none => none
        | some true => some { s with crit := setFringe s.crit rest, ws := s.ws.set i (.gwW N) }
  | some (.gwW n) =>
    match s.cache.update n.state n.depth ⟨n.value, true⟩ with
    | none => none
    | some c' =>
      match s.crit.take i n with
      | none => none
      | some crit' => some { crit := crit', cache := c', log := c' :: s.log, ws := s.ws.set i (.readR n) }
  | some (.readR n) =>
    if lockFreeB s then
      some { s with ws := s.ws.set i (if n.ub ≤ s.crit.readLb then .fin n else .compR n s.crit.readLb s.log.length) }
    else none
  | some (.compR n lb k0) =>
    match snapshot s k0 pick with
    | none => none
    | some cv => some { s with ws := s.ws.set i (.wrR n lb r0 cv [] []) }
  | some (.wrR n lb o cv ups (u :: todo)) =>
    match s.cache.update u.1 u.2.1 (upThr u) with
    | none => none
    | some c' => some { s with cache := c', log := c' :: s.log, ws := s.ws.set i (.wrR n lb o cv ups todo) }
  | some (.wrR n lb o cv ups []) =>
    if lockFreeB s then
      some { s with crit := s.crit.updateBest o, ws := s.ws.set i (if o.isExact then .fin n else .readX n) }
    else none
  | some (.readX n) =>
    if lockFreeB s then some { s with ws := s.ws.set i (.compX n s.crit.readLb s.log.length) } else none
  | some (.compX n lb k0) =>
    match snapshot s k0 pick with
    | none => none
    | some cv =>
      match ansX n with
      | none => none
      | some (o, ups) => if cellsFree cv o then some { s with ws := s.ws.set i (.wrX n lb o cv ups ups) } else none
  | some (.wrX n lb o cv ups (u :: todo)) =>
    match s.cache.update u.1 u.2.1 (upThr u) with
    | none => none
    | some c' => some { s with cache := c', log := c' :: s.log, ws := s.ws.set i (.wrX n lb o cv ups todo) }
  | some (.wrX n lb o cv ups []) =>
    if lockFreeB s then
      some { s with crit := s.crit.updateBest o, ws := s.ws.set i (if o.isExact then .fin n else .enq n lb o cv ups) }
    else none
  | some (.enq n lb o cv ups) =>
    if lockFreeB s then some { s with crit := s.crit.enqueue false o.cutset, ws := s.ws.set i (.fin n) } else none
  | some (.fin n) =>
    if lockFreeB s then
      match s.crit.notifyFinished i n.depth with
      | some c' => some { s with crit := c', ws := (s.ws.map KW.wake).set i .idle }
      | none => none
    else none

/-- **the stepper only takes steps of the abstract system under the contracts `okRw` / `okXw`** -/
theorem nextW_step {pick : Nat} {s t : KSys Nat} {i : Nat} (h : nextW pick s i = some t) :
    KStep 3 false okRw okXw s t := by
  unfold nextW at h
  split at h
  · cases h
  · next hw =>
    split at h
    · next hl => injection h with h; subst h; exact .gwEnter s i hw ((lockFreeB_iff s).mp hl)
    · cases h
  · cases h
  · cases h
  · cases h
  · next hw =>
    split at h
    · next hc =>
      split at h
      · next c' hcl => injection h with h; subst h; exact .gwClear s i c' hw hc hcl
      · cases h
    · next hc =>
      split at h
      · next hf =>
        split at h
        · next ho => injection h with h; subst h; exact .gwComplete s i hw hc ho hf
        · next ho => injection h with h; subst h; exact .gwWait s i hw hc ho hf
      · next a l hf =>
        injection h with h; subst h
        exact .gwToPop s i hw hc (by rw [hf]; exact List.cons_ne_nil _ _)
  · next hw =>
    split at h
    · next hp =>
      injection h with h; subst h
      exact .gwEmpty s i hw (ParClosed.popMax_none hp)
    · next N rest hp =>
      have hpm := ParClosed.popMax_popMax hp
      split at h
      · next hub => injection h with h; subst h; exact .gwStarve s i N rest hw hpm hub
      · next hub =>
        split at h
        · cases h
        · next hme =>
          split at h
          · next c' hd => injection h with h; subst h; exact .gwDrop s i N rest c' hw hpm hub hme hd
          · cases h
        · next hme => injection h with h; subst h; exact .gwKeep s i N rest hw hpm hub hme
  · next n hw =>
    split at h
    · cases h
    · next c' hu =>
      split at h
      · cases h
      · next crit' ht => injection h with h; subst h; exact .gwTake s i n c' crit' hw hu ht
  · next n hw =>
    split at h
    · next hl => injection h with h; subst h; exact .readLbR s i n hw ((lockFreeB_iff s).mp hl)
    · cases h
  · next n lb k0 hw =>
    split at h
    · cases h
    · next cv hcv =>
      injection h with h; subst h
      exact .compileR s i n lb k0 cv _ _ hw (snapshot_fromLog hcv) (okRw_r0 n lb cv)
  · next n lb o cv ups u todo hw =>
    split at h
    · cases h
    · next c' hu => injection h with h; subst h; exact .writeR s i n lb o cv ups u todo c' hw hu
  · next n lb o cv ups hw =>
    split at h
    · next hl => injection h with h; subst h; exact .updateR s i n lb o cv ups hw ((lockFreeB_iff s).mp hl)
    · cases h
  · next n hw =>
    split at h
    · next hl => injection h with h; subst h; exact .readLbX s i n hw ((lockFreeB_iff s).mp hl)
    · cases h
  · next n lb k0 hw =>
    split at h
    · cases h
    · next cv hcv =>
      split at h
      · cases h
      · next o ups ha =>
        split at h
        · next hf =>
          injection h with h; subst h
          exact .compileX s i n lb k0 cv o ups hw (snapshot_fromLog hcv) (ansX_ok n lb cv o ups ha hf)
        · cases h
  · next n lb o cv ups u todo hw =>
    split at h
    · cases h
    · next c' hu => injection h with h; subst h; exact .writeX s i n lb o cv ups u todo c' hw hu
  · next n lb o cv ups hw =>
    split at h
    · next hl => injection h with h; subst h; exact .updateX s i n lb o cv ups hw ((lockFreeB_iff s).mp hl)
    · cases h
  · next n lb o cv ups hw =>
    split at h
    · next hl => injection h with h; subst h; exact .enqueue s i n lb o cv ups hw ((lockFreeB_iff s).mp hl)
    · cases h
  · next n hw =>
    split at h
    · next hl =>
      split at h
      · next c' hn => injection h with h; subst h; exact .notify s i n c' hw ((lockFreeB_iff s).mp hl) hn
      · cases h
    · cases h

/-- the stepper run along a list of `(worker, pick)` (a step that is not enabled is skipped) -/
def runW : KSys Nat → List (Nat × Nat) → KSys Nat
  | s, [] => s
  | s, (i, pick) :: is =>
    match nextW pick s i with
    | some t => runW t is
    | none => runW s is

theorem runW_run : ∀ (sched : List (Nat × Nat)) (s : KSys Nat), KRun 3 false okRw okXw s (runW s sched) := by
  intro sched
  induction sched with
  | nil => intro s; exact KRun.refl s
  | cons ip is ih =>
    intro s
    obtain ⟨i, pick⟩ := ip
    unfold runW
    cases h : nextW pick s i with
    | none => exact ih s
    | some t => exact KRun.head (nextW_step h) (ih t)

/-- the number of steps of the schedule that are actually taken -/
def takenW : KSys Nat → List (Nat × Nat) → Nat
  | _, [] => 0
  | s, (i, pick) :: is =>
    match nextW pick s i with
    | some t => takenW t is + 1
    | none => takenW s is

/-! ## the run -/

def s0 : KSys Nat := KSys.init prob false 2

/-- steps 1–12: worker 0 processes the root (`gwEnter`, `gwToPop`, `gwKeep`, `gwTake`, `readLbR`, `compileR`, `updateR`,
    `readLbX`, `compileX` answering `xR`, `updateX`, `enqueue`, `notify`): the fringe is `{A, B}`.  steps 13–21: worker 0
    enters `get_workload`, clears layer 0, pops and takes `B`, restricted compilation, `readLbX` (`compX`).  steps 22–29:
    worker 1 the same with `A`.  steps 30–31: **both relaxed compilations end** (virtual cache = the current content of the
    shared cache: entries at depth 1 only), answers `xB` / `xA`.  steps 32–35: the four `update_threshold` calls.  steps
    36–41: both `updateX`, `enqueue`, `notify`: the fringe is `{CA, CB}`.  steps 42–47: worker 0 enters `get_workload`,
    clears layer 1, `gwToPop`, **`gwDrop`, `gwDrop`** (`must_explore` refuses both), `gwEmpty`.  steps 48–49: worker 0
    enters `get_workload` again, clears layer 2: `Complete` -/
def sched : List (Nat × Nat) :=
  List.replicate 12 (0, 0) ++ List.replicate 9 (0, 0) ++ List.replicate 8 (1, 0) ++ [(0, 0), (1, 0)] ++
  [(0, 0), (0, 0), (1, 0), (1, 0)] ++ List.replicate 3 (0, 0) ++ List.replicate 3 (1, 0) ++ List.replicate 8 (0, 0)

def at_ (k : Nat) : KSys Nat := runW s0 (sched.take k)

theorem reach (k : Nat) : KRun 3 false okRw okXw s0 (at_ k) := runW_run _ _

/-- what is observed of a worker that has finished a relaxed compilation: the states of its pending cut-set and the
    `update_threshold` calls it still has to issue -/
def pendObs : KW Nat → List Nat × List (Up Nat)
  | .wrX _ _ o _ _ todo => (o.cutset.map (·.state), todo)
  | _ => ([], [])

/-- every one of the 49 steps of the schedule is taken -/
theorem all_taken : sched.length = 49 ∧ takenW s0 sched = 49 := by decide

/-- after step 12 worker 0 has branched on the root: `A` and `B` are in the fringe -/
theorem root_obs : obsK (at_ 12) = (([0, 0], 0, 2), iMin, 2, [1, 0, 0, 0]) ∧
    (at_ 12).crit.base.fringe.map (·.state) = [2, 1] := by decide

/-- after step 29 both workers are inside their relaxed compilation (`compX`); the shared cache has the two entries of
    depth 1 written by the `take`s and nothing at depth 2 -/
theorem both_compX_obs : obsK (at_ 29) = (([11, 11], 2, 0), iMin, 5, [0, 2, 0, 0]) ∧
    k0At (at_ 29) 0 = some 4 ∧ k0At (at_ 29) 1 = some 5 := by decide

/-- after step 31 both compilations have ended (`wrX`), nothing is written yet: worker 0 (it took `B`) hands out `CB`
    (state 4) and is about to record `(4, 2, 0, false)`, `(3, 2, 0, true)`; worker 1 (it took `A`) hands out `CA` (state 3)
    and is about to record `(3, 2, 0, false)`, `(4, 2, 0, true)` -/
theorem both_wrX_obs : obsK (at_ 31) = (([12, 12], 2, 0), iMin, 5, [0, 2, 0, 0]) ∧
    (at_ 31).ws.map pendObs = [([4], upsB), ([3], upsA)] := by decide

/-- after step 41 both nodes are acknowledged, `CA` and `CB` are in the fringe — and **both their cells hold `(0, explored =
    true)`**: `must_explore` will refuse both -/
theorem poisoned_obs : obsK (at_ 41) = (([0, 0], 0, 2), iMin, 9, [0, 2, 2, 0]) ∧
    (at_ 41).crit.base.fringe.map (·.state) = [3, 4] ∧
    viewOf (at_ 41).cache 3 2 = some ⟨0, true⟩ ∧ viewOf (at_ 41).cache 4 2 = some ⟨0, true⟩ ∧
    (at_ 41).cache.mustExplore 3 2 0 = some false ∧ (at_ 41).cache.mustExplore 4 2 0 = some false := by decide

/-- steps 45 and 46 are the two `gwDrop`s, step 47 is `gwEmpty` -/
theorem drop_obs : obsK (at_ 44) = (([5, 0], 0, 2), iMin, 10, [0, 0, 2, 0]) ∧ obsK (at_ 46) = (([5, 0], 0, 0), iMin, 10, [0, 0, 2, 0]) ∧
    obsK (at_ 47) = (([0, 0], 0, 0), iMin, 10, [0, 0, 2, 0]) := by decide

/-- after step 49 `get_workload` answers `Complete` to worker 0; the incumbent is still `iMin` -/
theorem completes : CompletesAt 3 (at_ 49) 0 ∧ (at_ 49).crit.base.bestLb = iMin :=
  ⟨completesAtB_sound (by decide), by decide⟩

/-! ## sanity: the optimum is 10, the initial state satisfies the invariant of the correctness proof -/

theorem root_opt : optOf Hw (rootOf prob) = some 10 := rfl

theorem init_inv : KPInv Hw 10 Solw Rgw s0 :=
  init_kpinv Hw 10 Solw Rgw prob false 2
    (fun x hx => by have e : (10 : Int) = x := Option.some.inj hx; omega) (by decide) (by decide) True.intro rfl

/-- the weak contracts are the strong ones (`OkRc` / `OkXc`, under which `kstep_kpinv` holds) minus `ThetaStrict` and
    `fresh1` -/
theorem okXw_of_OkXc {n : SubP Nat} {lb : Int} {cv : Cache Nat} {o : DDOut Nat} {ups : List (Up Nat)}
    (h : OkXc Hw 10 Solw Rgw n lb cv o ups) : okXw n lb cv o ups := h.c

theorem okRw_of_OkRc {n : SubP Nat} {lb : Int} {cv : Cache Nat} {o : DDOut Nat} {ups : List (Up Nat)}
    (h : OkRc Hw 10 Solw Rgw n lb cv o ups) : okRw n lb cv o ups := ⟨h.1, fun he => (h.2.1 he).c, h.2.2⟩

/-- `okXw` IS the sequential contract -/
theorem okXw_iff (n : SubP Nat) (lb : Int) (cv : Cache Nat) (o : DDOut Nat) (ups : List (Up Nat)) :
    okXw n lb cv o ups ↔ CompC Hw 10 Solw Rgw n lb (viewOf cv) o ups (Theta.bkOf lb o.bestExact) := Iff.rfl

theorem quiet_of_tag (w : KW Nat) (h : tagK w = 4 ∨ tagK w = 0) :
    w.openNode = none ∧ w.pendVal = none ∧ w.pendCut = [] := by
  cases w <;> simp_all [tagK, KW.openNode, KW.pendVal, KW.pendCut]

/-- **the invariant of the correctness proof is lost along the run** (it holds initially: `init_inv`) -/
theorem final_not_inv : ¬ KPInv Hw 10 Solw Rgw (at_ 49) := by
  intro hI
  have hq : ∀ w ∈ (at_ 49).ws, w.openNode = none ∧ w.pendVal = none ∧ w.pendCut = [] := by
    have hb : (at_ 49).ws.all (fun w => decide (tagK w = 4 ∨ tagK w = 0)) = true := by decide
    rw [List.all_eq_true] at hb
    intro w hw
    exact quiet_of_tag w (by simpa using hb w hw)
  have h := (complete_opt Hw 10 Solw Rgw hI completes.1 hq).1
  rw [completes.2] at h
  exact absurd h (by decide)

/-- the initial state only depends on `nbVars`, `init`, `initVal` -/
theorem init_eq (P : Problem Nat) (hn : P.nbVars = 3) (hi : P.init = 0) (hv : P.initVal = 0) : KSys.init P false 2 = s0 := by
  obtain ⟨nb, i0, v0, _, _, _, _, _⟩ := P
  simp only at hn hi hv
  subst hn hi hv
  rfl

theorem rootOf_eq (P : Problem Nat) (hi : P.init = 0) (hv : P.initVal = 0) : rootOf P = rootOf prob := by
  obtain ⟨nb, i0, v0, _, _, _, _, _⟩ := P
  simp only at hi hv
  subst hi hv
  rfl

/-- **`CompC` alone does not suffice for the parallel system.**  For every problem with 3 variables, initial state 0 and
    initial value 0: the potential `Hw` makes 10 the optimum (attained by the root), the initial state satisfies the
    invariant `KPInv` of the correctness proof — and a run of the abstract system in which every restricted compilation
    satisfies `okRw` (= `OkRc` with `CompC` for `CompK`) and every relaxed compilation satisfies `okXw` = `CompC` (relative
    to the virtual cache it presents, an admissible snapshot of the shared cache, and to the incumbent it read) reaches
    `Complete` with the incumbent `iMin < 10`; the final state does not satisfy `KPInv`. -/
theorem compC_alone_insufficient (P : Problem Nat) (hn : P.nbVars = 3) (hi : P.init = 0) (hv : P.initVal = 0) :
    optOf Hw (rootOf P) = some 10 ∧ KPInv Hw 10 Solw Rgw (KSys.init P false 2) ∧
    (∀ n lb cv o ups, okXw n lb cv o ups ↔ CompC Hw 10 Solw Rgw n lb (viewOf cv) o ups (Theta.bkOf lb o.bestExact)) ∧
    ∃ t : KSys Nat, KRun 3 false okRw okXw (KSys.init P false 2) t ∧ CompletesAt 3 t 0 ∧ t.crit.base.bestLb < 10 ∧
      ¬ KPInv Hw 10 Solw Rgw t := by
  rw [init_eq P hn hi hv, rootOf_eq P hi hv]
  refine ⟨root_opt, init_inv, okXw_iff, at_ 49, reach 49, completes.1, ?_, final_not_inv⟩
  rw [completes.2]; decide

end Ddo.ParCache.Weak

#print axioms Ddo.ParCache.Weak.compC_xR
#print axioms Ddo.ParCache.Weak.compC_xA
#print axioms Ddo.ParCache.Weak.compC_xB
#print axioms Ddo.ParCache.Weak.not_thetaStrict_xA
#print axioms Ddo.ParCache.Weak.nextW_step
#print axioms Ddo.ParCache.Weak.runW_run
#print axioms Ddo.ParCache.Weak.all_taken
#print axioms Ddo.ParCache.Weak.root_obs
#print axioms Ddo.ParCache.Weak.both_compX_obs
#print axioms Ddo.ParCache.Weak.both_wrX_obs
#print axioms Ddo.ParCache.Weak.poisoned_obs
#print axioms Ddo.ParCache.Weak.drop_obs
#print axioms Ddo.ParCache.Weak.completes
#print axioms Ddo.ParCache.Weak.root_opt
#print axioms Ddo.ParCache.Weak.init_inv
#print axioms Ddo.ParCache.Weak.okXw_of_OkXc
#print axioms Ddo.ParCache.Weak.okRw_of_OkRc
#print axioms Ddo.ParCache.Weak.final_not_inv
#print axioms Ddo.ParCache.Weak.compC_alone_insufficient
