import DdoModel.Proofs.ParCacheCutInv
/-! # The parallel caching solver with cut-off terminates

Lexicographic measure `(flag, stages left once the flag is up, measure of the system without cut-off)`:
* as long as `abort_proof` is `None` every step is a step of `KStep` (`KStepC.toBase`) and decreases the measure `muK` of
  `Proofs/ParCacheTerm.lean`; the first `abort_search` lowers the flag component;
* once the flag is up no worker can pop any more (`gwAborted` comes before the tests), so every worker only moves forward
  through `… → fin → idle → gwC → done`: `rkA` (sum over the workers of the stages left, `KW.rankA`) never increases, and strictly
  decreases at each of the four new steps (a later `abort_search` included); the steps of `KStep` that keep it decrease `muK`. -/
set_option linter.unusedSectionVars false
set_option linter.unusedVariables false
namespace Ddo.ParCache
open Ddo Ddo.ParSys Ddo.C09
variable {S : Type} [DecidableEq S]

/-- stages left once the flag is up -/
def KW.rankA : KW S → Nat
  | .done | .crashed => 0
  | .gwC => 1
  | .idle | .waiting => 2
  | .fin _ => 3
  | .gwP | .gwW _ => 5
  | _ => 4

def rkA (ws : List (KW S)) : Nat := (ws.map KW.rankA).sum

theorem rkA_set {ws : List (KW S)} {i : Nat} {w : KW S} (a : KW S) (hw : ws[i]? = some w) :
    rkA (ws.set i a) + w.rankA = rkA ws + a.rankA := sum_set KW.rankA a hw

theorem rkA_set_le {ws : List (KW S)} {i : Nat} {w a : KW S} (hw : ws[i]? = some w) (h : a.rankA ≤ w.rankA) :
    rkA (ws.set i a) ≤ rkA ws := by have := rkA_set a hw; omega

theorem rkA_set_lt {ws : List (KW S)} {i : Nat} {w a : KW S} (hw : ws[i]? = some w) (h : a.rankA < w.rankA) :
    rkA (ws.set i a) < rkA ws := by have := rkA_set a hw; omega

theorem rankA_wake (w : KW S) : w.wake.rankA = w.rankA := by cases w <;> rfl

theorem rkA_wake (ws : List (KW S)) : rkA (ws.map KW.wake) = rkA ws := by
  unfold rkA
  rw [List.map_map]
  congr 1
  exact List.map_congr_left (fun w _ => rankA_wake w)

theorem rkA_wake_set_lt {ws : List (KW S)} {i : Nat} {w a : KW S} (hw : ws[i]? = some w) (h : a.rankA < w.rankA) :
    rkA ((ws.map KW.wake).set i a) < rkA ws := by
  have := rkA_set_lt (a := a) (get_wake_of hw) (by rw [rankA_wake]; exact h)
  rw [rkA_wake] at this; exact this

/-- once the flag is up, no step increases `rkA` -/
theorem kstepC_rank_le {nbVars : Nat} {dedup : Bool} {okR okX : SubP S → Int → Cache S → DDOut S → List (Up S) → Prop}
    {s t : KSysC S} (h : KStepC nbVars dedup okR okX s t) (ha' : s.k.crit.base.abort = true) :
    rkA t.k.ws ≤ rkA s.k.ws := by
  cases h with
  | gwEnter s e i hw hl => exact rkA_set_le hw (by simp [KW.rankA])
  | gwClear s e i c' hw hc hcl => exact Nat.le_refl _
  | gwAborted s e i hw hc ha => exact rkA_set_le hw (by simp [KW.rankA])
  | gwComplete s e i hw hc ha ho hf => exact rkA_set_le hw (by simp [KW.rankA])
  | gwWait s e i hw hc ha ho hf => have ha' : s.crit.base.abort = true := ha'; rw [ha] at ha'; cases ha'
  | gwToPop s e i hw hc ha hf => have ha' : s.crit.base.abort = true := ha'; rw [ha] at ha'; cases ha'
  | gwEmpty s e i hw hf => exact rkA_set_le hw (by simp [KW.rankA])
  | gwStarve s e i N rest hw hp hub => exact rkA_set_le hw (by simp [KW.rankA])
  | gwDrop s e i N rest c' hw hp hub hme hd => exact Nat.le_refl _
  | gwKeep s e i N rest hw hp hub hme => exact rkA_set_le hw (by simp [KW.rankA])
  | gwTake s e i n c' crit' hw hu ht => exact rkA_set_le hw (by simp [KW.rankA])
  | readLbR s e i n hw hl => exact rkA_set_le hw (by split <;> simp [KW.rankA])
  | compileR s e i n lb k0 cv o ups hw hcv hok => exact rkA_set_le hw (by simp [KW.rankA])
  | writeR s e i n lb o cv ups u todo c' hw hu => exact rkA_set_le hw (by simp [KW.rankA])
  | updateR s e i n lb o cv ups hw hl => exact rkA_set_le hw (by split <;> simp [KW.rankA])
  | readLbX s e i n hw hl => exact rkA_set_le hw (by simp [KW.rankA])
  | compileX s e i n lb k0 cv o ups hw hcv hok => exact rkA_set_le hw (by simp [KW.rankA])
  | writeX s e i n lb o cv ups u todo c' hw hu => exact rkA_set_le hw (by simp [KW.rankA])
  | updateX s e i n lb o cv ups hw hl => exact rkA_set_le hw (by split <;> simp [KW.rankA])
  | enqueue s e i n lb o cv ups hw hl => exact rkA_set_le hw (by simp [KW.rankA])
  | abortR s e i n lb k0 top hw hl htop => exact rkA_set_le hw (by simp [KW.rankA])
  | abortX s e i n lb k0 top hw hl htop => exact rkA_set_le hw (by simp [KW.rankA])
  | notify s e i n c' hw hl hi hn => exact Nat.le_of_lt (rkA_wake_set_lt hw (by simp [KW.rankA]))
  | notifyExit s e i n c' hw hl hi hn => exact Nat.le_of_lt (rkA_wake_set_lt hw (by simp [KW.rankA]))
  | crash s e i w hw hp => exact rkA_set_le hw (Nat.zero_le _)

/-- … and the four new steps decrease it -/
theorem newstep_rank_lt {nbVars : Nat} {s t : KSysC S} (h : NewStep nbVars s t) : rkA t.k.ws < rkA s.k.ws := by
  cases h with
  | gwAborted s e i hw hc ha => exact rkA_set_lt hw (by simp [KW.rankA])
  | abortR s e i n lb k0 top hw hl htop => exact rkA_set_lt hw (by simp [KW.rankA])
  | abortX s e i n lb k0 top hw hl htop => exact rkA_set_lt hw (by simp [KW.rankA])
  | notifyExit s e i n c' hw hl hi hn => exact rkA_wake_set_lt hw (by simp [KW.rankA])

theorem lex3 {γ : Type} {r : γ → γ → Prop} {a a' b b' : Nat} {c c' : γ}
    (h : a' < a ∨ (a' = a ∧ (b' < b ∨ (b' = b ∧ r c' c)))) :
    Prod.Lex (· < ·) (Prod.Lex (· < ·) r) (a', b', c') (a, b, c) := by
  rcases h with h | ⟨rfl, h | ⟨rfl, h⟩⟩
  · exact .left _ _ h
  · exact .right _ (.left _ _ h)
  · exact .right _ (.right _ h)

/-- the measure -/
def fC (s : KSysC S) : Nat × Nat × KSys S :=
  (if s.k.crit.base.abort then 0 else 1, if s.k.crit.base.abort then rkA s.k.ws else 0, s.k)

/-- **`ksysC_terminates`**: the step relation of the parallel caching solver with cut-off, restricted to the states whose
    pending cut-sets make progress (`ProgOkK`) and in which `exits` is empty while the flag is down, is well-founded: any
    number of threads, any interleaving, any number of aborts at any position -/
theorem ksysC_terminates' (nbVars : Nat) (dedup : Bool) (okR okX : SubP S → Int → Cache S → DDOut S → List (Up S) → Prop) :
    WellFounded (fun t s : KSysC S => KStepC nbVars dedup okR okX s t ∧ ProgOkK nbVars s.k ∧
      ∀ i ∈ s.exits, s.k.crit.base.abort = true) := by
  have wfb := ksys_terminates' nbVars dedup okR okX
  have wfL : WellFounded (Prod.Lex (· < ·) (Prod.Lex (· < ·)
      (fun t s : KSys S => KStep nbVars dedup okR okX s t ∧ ProgOkK nbVars s))) :=
    (@Prod.lex _ _ ⟨_, Nat.lt_wfRel.wf⟩ (@Prod.lex _ _ ⟨_, Nat.lt_wfRel.wf⟩ ⟨_, wfb⟩)).wf
  refine Subrelation.wf ?_ (InvImage.wf fC wfL)
  intro t s ⟨h, hp, hex⟩
  show Prod.Lex _ _ (fC t) (fC s)
  unfold fC
  apply lex3
  by_cases ha : s.k.crit.base.abort = true
  · have hat : t.k.crit.base.abort = true := by
      rcases h.flag with ⟨h1, _⟩ | ⟨i, n, top, _, _, _, e⟩
      · rw [h1]; exact ha
      · rw [e]; rfl
    have hle := kstepC_rank_le h ha
    refine .inr ⟨by rw [ha, hat], ?_⟩
    rw [ha, hat]
    simp only [if_true]
    rcases h.toBase with ⟨hb, _⟩ | hn
    · rcases Nat.lt_or_eq_of_le hle with h1 | h1
      · exact .inl h1
      · exact .inr ⟨h1, hb, hp⟩
    · exact .inl (newstep_rank_lt hn)
  · have ha : s.k.crit.base.abort = false := by cases hb : s.k.crit.base.abort <;> simp_all
    rcases h.flag with ⟨h1, _⟩ | ⟨i, n, top, _, _, _, e⟩
    · have hat : t.k.crit.base.abort = false := by rw [h1]; exact ha
      refine .inr ⟨by rw [ha, hat], ?_⟩
      rw [ha, hat]
      refine .inr ⟨rfl, ?_⟩
      rcases h.toBase with ⟨hb, _⟩ | hn
      · exact ⟨hb, hp⟩
      · cases hn with
        | gwAborted s e i hw hc ha' => have ha : s.crit.base.abort = false := ha; rw [ha] at ha'; cases ha'
        | abortR s e i n lb k0 top hw hl htop => cases hat
        | abortX s e i n lb k0 top hw hl htop => cases hat
        | notifyExit s e i n c' hw hl hi hn' =>
          have ha : s.crit.base.abort = false := ha
          have := hex i hi
          have this : s.crit.base.abort = true := this
          rw [ha] at this; cases this
    · have hat : t.k.crit.base.abort = true := by rw [e]; rfl
      refine .inl ?_
      rw [ha, hat]
      decide

end Ddo.ParCache

#print axioms Ddo.ParCache.ksysC_terminates'
