import DdoModel.Proofs.CompatOrder
/-! C10d — **the pseudo-potential of `GAbove`**.

`GAbove D P n opt k s v` (`Proofs/CompatOrder.lean`) is upward closed in `v` and, under `SimAll` + `RunBound`, bounded below
(`GAbove.lb`: every `GAbove` value is `≥ -B`).  Hence, for every depth `k` and state `s` (reached or not), either no value is
`GAbove` or there is a LEAST one, `t`.  `gpot k s = some (opt - t)` resp. `none` encodes `GAbove` as a potential function:

  `(s, v)` is `GAbove`  ⟺  `v + gpot k s ≥ opt`        (`gpot_spec`)

and `gpot` has the shape of the hypotheses of the potential-based machinery of C09: `Potential.att` (`gpot_att`),
`Potential.term` (`gpot_term`), `MergeOk` (`gpot_mergeOk`), `RubOk` (`gpot_rub`), "a reached item is at most the optimum"
(`gpot_reach_le`), the root has pseudo-optimum `opt` (`gpot_root`), and a dominated item is strictly below (`gpot_dominated`). -/
set_option linter.unusedSectionVars false
set_option linter.unusedVariables false
namespace Ddo.C10d
open Ddo Ddo.C01 Ddo.Closed Ddo.C09 Ddo.C10 Ddo.C10c

section pot
variable {S K : Type}

/-- lowering the left value of `GeItem` down to (at least) the right value -/
theorem geItem_lower {D : DomRule S K} {n : Nat} {a b : S} {va va' vb : Int} (h : GeItem D n a va b vb) (h1 : vb ≤ va')
    (h2 : va' ≤ va) : GeItem D n a va' b vb := by
  rcases h with ⟨rfl, h⟩ | ⟨hk, hge⟩
  · exact Or.inl ⟨rfl, h1⟩
  · refine Or.inr ⟨hk, ?_⟩
    simp only [geEnt, DomRule.ent, Bool.and_eq_true, Bool.or_eq_true, Bool.not_eq_true'] at hge ⊢
    obtain ⟨hc, hv⟩ := hge
    refine ⟨hc, ?_⟩
    rcases hv with h | h
    · exact Or.inl h
    · right
      exact decide_eq_true h1

/-- a non-empty predicate on `Nat` has a least element (core has no `Nat.find`) -/
theorem exists_least (p : Nat → Prop) (h : ∃ m, p m) : ∃ m, p m ∧ ∀ m', p m' → m ≤ m' := by
  obtain ⟨m, hm⟩ := h
  induction m using Nat.strongRecOn with
  | _ m ih =>
    rcases Classical.em (∃ m', m' < m ∧ p m') with h | h
    · obtain ⟨m', hlt, hp⟩ := h
      exact ih m' hlt hp
    · exact ⟨m, hm, fun m' hp' => Nat.le_of_not_lt (fun hlt => h ⟨m', hlt, hp'⟩)⟩

open Classical in
/-- **the pseudo-potential of `GAbove`**: `some (opt - t)` for the least `GAbove` value `t` of `(k, s)`, `none` if there is none.
    `B` is the lower-bound device (every `GAbove` value is `≥ -B`: `GAbove.lb`). -/
noncomputable def gpot (D : DomRule S K) (P : Problem S) (n : Nat) (opt B : Int) (k : Nat) (s : S) : EInt :=
  if h : ∃ m : Nat, GAbove D P n opt k s ((m : Int) - B) then
    some (opt - (((Classical.choose (exists_least (fun m : Nat => GAbove D P n opt k s ((m : Int) - B)) h) : Nat) : Int) - B))
  else none

theorem gpot_raw (D : DomRule S K) (P : Problem S) (n : Nat) (opt B : Int) (k : Nat) (s : S) :
    (∃ m : Nat, gpot D P n opt B k s = some (opt - ((m : Int) - B)) ∧ GAbove D P n opt k s ((m : Int) - B) ∧
        ∀ m' : Nat, GAbove D P n opt k s ((m' : Int) - B) → m ≤ m') ∨
    (gpot D P n opt B k s = none ∧ ∀ m : Nat, ¬ GAbove D P n opt k s ((m : Int) - B)) := by
  unfold gpot
  split
  · rename_i hex
    have hs := Classical.choose_spec (exists_least (fun m : Nat => GAbove D P n opt k s ((m : Int) - B)) hex)
    exact Or.inl ⟨_, rfl, hs.1, hs.2⟩
  · rename_i hex
    exact Or.inr ⟨rfl, fun m hm => hex ⟨m, hm⟩⟩

/-- the common hypotheses -/
structure GHyp (D : DomRule S K) (P : Problem S) (R : Relax S) (H : Nat → S → EInt) (n : Nat) (opt B0 B : Int) : Prop where
  hdim : ∀ s, D.dims s = n
  hP : Potential P H
  hNV : NvBound P
  hstat : StaticOrder P
  hsim : SimAll D P n
  hopt : (H 0 P.init).addI P.initVal = some opt
  hRB : RunBound P R B0 B

variable {D : DomRule S K} {P : Problem S} {R : Relax S} {H : Nat → S → EInt} {n : Nat} {opt B0 B : Int}

/-- upward closed in the value -/
theorem GAbove.mono {k : Nat} {s : S} {v v' : Int} (h : GAbove D P n opt k s v) (hv : v ≤ v') : GAbove D P n opt k s v' :=
  h.up (Or.inl ⟨rfl, hv⟩)

/-- **every `GAbove` value is `≥ -B`** -/
theorem GAbove.lb (hNV : NvBound P) (hsim : SimAll D P n) (hRB : RunBound P R B0 B) {k : Nat} {s : S} {v : Int}
    (h : GAbove D P n opt k s v) : -B ≤ v := by
  obtain ⟨g, vg, hgood, hge⟩ := h
  obtain ⟨p, hr⟩ := hgood.reach
  have h1 := hsim.value s v g vg hge
  have h2 := (hRB.value_le hNV hr).1
  omega

/-- `gpot = some h`: `opt - h` is the least `GAbove` value -/
theorem gpot_some (hNV : NvBound P) (hsim : SimAll D P n) (hRB : RunBound P R B0 B) {k : Nat} {s : S} {h : Int}
    (hg : gpot D P n opt B k s = some h) :
    GAbove D P n opt k s (opt - h) ∧ ∀ v, GAbove D P n opt k s v → opt - h ≤ v := by
  rcases gpot_raw D P n opt B k s with ⟨m, heq, hm, hmin⟩ | ⟨hnone, _⟩
  · rw [heq] at hg
    have hh : opt - h = (m : Int) - B := by
      have := Option.some.inj hg
      omega
    rw [hh]
    refine ⟨hm, fun v hv => ?_⟩
    have hlb := hv.lb hNV hsim hRB
    have e : (((v + B).toNat : Nat) : Int) - B = v := by omega
    have := hmin (v + B).toNat (by rw [e]; exact hv)
    omega
  · rw [hnone] at hg
    cases hg

/-- a `GAbove` value: `gpot` is `some h`, `opt - h` is `GAbove` and below -/
theorem gpot_least (hNV : NvBound P) (hsim : SimAll D P n) (hRB : RunBound P R B0 B) {k : Nat} {s : S} {v : Int}
    (hv : GAbove D P n opt k s v) :
    ∃ h, gpot D P n opt B k s = some h ∧ GAbove D P n opt k s (opt - h) ∧ opt - h ≤ v := by
  rcases gpot_raw D P n opt B k s with ⟨m, heq, hm, hmin⟩ | ⟨_, hnone⟩
  · refine ⟨_, heq, ?_, ?_⟩
    · have e : opt - (opt - ((m : Int) - B)) = (m : Int) - B := by omega
      rw [e]; exact hm
    · have hlb := hv.lb hNV hsim hRB
      have e : (((v + B).toNat : Nat) : Int) - B = v := by omega
      have := hmin (v + B).toNat (by rw [e]; exact hv)
      omega
  · have hlb := hv.lb hNV hsim hRB
    have e : (((v + B).toNat : Nat) : Int) - B = v := by omega
    exact absurd hv (by rw [← e]; exact hnone _)

/-- **1. the specification of the pseudo-potential**: `(s, v)` is `GAbove` iff `v + gpot k s ≥ opt` -/
theorem gpot_spec (hyp : GHyp D P R H n opt B0 B) {k : Nat} {s : S} {v : Int} :
    GAbove D P n opt k s v ↔ ∃ h, gpot D P n opt B k s = some h ∧ opt ≤ v + h := by
  constructor
  · intro hv
    obtain ⟨h, hg, _, hle⟩ := gpot_least hyp.hNV hyp.hsim hyp.hRB hv
    exact ⟨h, hg, by omega⟩
  · rintro ⟨h, hg, hle⟩
    exact (gpot_some hyp.hNV hyp.hsim hyp.hRB hg).1.mono (by omega)

/-- `gpot = none` iff no value is `GAbove` -/
theorem gpot_none (hyp : GHyp D P R H n opt B0 B) {k : Nat} {s : S} :
    gpot D P n opt B k s = none ↔ ∀ v, ¬ GAbove D P n opt k s v := by
  constructor
  · intro hn v hv
    obtain ⟨h, hg, _⟩ := (gpot_spec hyp).mp hv
    rw [hn] at hg; cases hg
  · intro hall
    cases hg : gpot D P n opt B k s with
    | none => rfl
    | some h => exact absurd (gpot_some hyp.hNV hyp.hsim hyp.hRB hg).1 (hall _)

/-- **2. an exactly reached item is at most the (pseudo-)optimum** -/
theorem gpot_reach_le (hyp : GHyp D P R H n opt B0 B) (hmono : PotMono D n H) {k : Nat} {s : S} {v h : Int} {p : List Dec}
    (hr : Reach P k s v p) (hg : gpot D P n opt B k s = some h) : v + h ≤ opt := by
  have hga := (gpot_some hyp.hNV hyp.hsim hyp.hRB hg).1
  have h1 := hga.pot hyp.hP hyp.hstat hyp.hopt hmono
  have h2 := reach_le_root hyp.hP hr
  rw [hyp.hopt] at h2
  cases hH : H k s with
  | none => rw [hH] at h1; exact absurd h1 (by simp [EInt.addI])
  | some h0 =>
    rw [hH] at h1 h2
    simp only [EInt.addI, Option.map_some, EInt.some_le_some] at h1 h2
    omega

/-- **3. the `Potential.att` shape** -/
theorem gpot_att (hyp : GHyp D P R H n opt B0 B) {k x : Nat} {s : S} {h : Int} (hnv : nvar P k = some x)
    (hg : gpot D P n opt B k s = some h) :
    ∃ d ∈ P.domain x s, ∃ h', gpot D P n opt B (k + 1) (P.trans s ⟨x, d⟩) = some h' ∧
      h ≤ P.cost s (P.trans s ⟨x, d⟩) ⟨x, d⟩ + h' := by
  have hga := (gpot_some hyp.hNV hyp.hsim hyp.hRB hg).1
  obtain ⟨d, hd, hc⟩ := hga.step hyp.hstat hyp.hsim hnv
  obtain ⟨h', hg', _, hle⟩ := gpot_least hyp.hNV hyp.hsim hyp.hRB hc
  exact ⟨d, hd, h', hg', by omega⟩

/-- **4. the `MergeOk` shape** -/
theorem gpot_mergeOk (hyp : GHyp D P R H n opt B0 B) (hmc : MergeCompat D R n) {k : Nat} {X : List S} {u src : S} {d : Dec}
    {c h : Int} (hu : u ∈ X) (hg : gpot D P n opt B k u = some h) :
    ∃ h', gpot D P n opt B k (R.merge X) = some h' ∧ c + h ≤ R.relax src u (R.merge X) d c + h' := by
  have hga := (gpot_some hyp.hNV hyp.hsim hyp.hRB hg).1
  have hm := hga.merge hmc hu (Int.le_refl _)
  obtain ⟨h', hg', _, hle⟩ := gpot_least hyp.hNV hyp.hsim hyp.hRB hm
  have := hmc.relax src u (R.merge X) d c
  exact ⟨h', hg', by omega⟩

/-- `MergeOk` itself -/
theorem gpot_MergeOk (hyp : GHyp D P R H n opt B0 B) (hmc : MergeCompat D R n) : MergeOk R (gpot D P n opt B) :=
  fun k X u src d c h hu hg => gpot_mergeOk hyp hmc hu hg

/-- **5. the `RubOk` shape** -/
theorem gpot_rub (hyp : GHyp D P R H n opt B0 B) (hmono : PotMono D n H) (hrub : RubOk R H) {k : Nat} {s : S} {h : Int}
    (hg : gpot D P n opt B k s = some h) : h ≤ R.rub s := by
  have hga := (gpot_some hyp.hNV hyp.hsim hyp.hRB hg).1
  have := hga.rub hyp.hP hyp.hstat hyp.hopt hmono hrub
  omega

/-- `RubOk` itself -/
theorem gpot_RubOk (hyp : GHyp D P R H n opt B0 B) (hmono : PotMono D n H) (hrub : RubOk R H) : RubOk R (gpot D P n opt B) :=
  fun k s h hg => gpot_rub hyp hmono hrub hg

/-- **6. the `Potential.term` shape**: at the terminal depth the least `GAbove` value is exactly `opt` -/
theorem gpot_term (hyp : GHyp D P R H n opt B0 B) {k : Nat} {s : S} {h : Int} (hnv : nvar P k = none)
    (hg : gpot D P n opt B k s = some h) : h = 0 := by
  obtain ⟨hga, hmin⟩ := gpot_some hyp.hNV hyp.hsim hyp.hRB hg
  have hge := hga.term hyp.hsim hnv
  have hopt' : GAbove D P n opt k s opt := by
    obtain ⟨g, vg, hgood, hgi⟩ := hga
    cases hgood with
    | term _ _ _ p hr _ hvo hu =>
      subst hvo
      exact ⟨g, vg, Good.term k g vg p hr hnv rfl hu, geItem_lower hgi (Int.le_refl _) hge⟩
    | step _ _ _ p x' dg hr hnv' _ _ _ => rw [hnv'] at hnv; cases hnv
  have := hmin opt hopt'
  omega

/-- **7. a dominated item is strictly below the pseudo-optimum** -/
theorem gpot_dominated (hyp : GHyp D P R H n opt B0 B) {k : Nat} {a s : S} {va v h : Int} {pa : List Dec}
    (hr : Reach P k a va pa) (hd : Dominates D a va s v) (hg : gpot D P n opt B k s = some h) : v + h ≤ opt - 1 := by
  apply Classical.byContradiction
  intro hc
  have hga : GAbove D P n opt k s v := (gpot_spec hyp).mpr ⟨h, hg, by omega⟩
  exact hga.undom hyp.hdim a va pa hr hd

/-- **8. range**: `h ≤ opt + B` (the least `GAbove` value is `≥ -B`) -/
theorem gpot_within (hyp : GHyp D P R H n opt B0 B) {k : Nat} {s : S} {h : Int} (hg : gpot D P n opt B k s = some h) :
    h ≤ opt + B := by
  have := (gpot_some hyp.hNV hyp.hsim hyp.hRB hg).1.lb hyp.hNV hyp.hsim hyp.hRB
  omega

/-- the root is `Good` (model-level form of `good_root`) -/
theorem GHyp.good_root (hyp : GHyp D P R H n opt B0 B) : C10.Good D P opt 0 P.init P.initVal := by
  obtain ⟨s0, v0, hg0⟩ := exists_good hyp.hdim hyp.hP hyp.hNV hyp.hstat hyp.hsim.sim hyp.hopt P.nbVars 0 P.init P.initVal []
    (by omega) Reach.root hyp.hopt
  obtain ⟨p0, hr0⟩ := hg0.reach
  obtain ⟨rfl, rfl⟩ := reach_zero hr0
  exact hg0

/-- **the pseudo-optimum of the root is `opt`** (the `hopt` hypothesis of the potential-based machinery, for `gpot`) -/
theorem gpot_root (hyp : GHyp D P R H n opt B0 B) (hmono : PotMono D n H) :
    (gpot D P n opt B 0 P.init).addI P.initVal = some opt := by
  obtain ⟨h, hg, hle⟩ := (gpot_spec hyp).mp (GAbove.of_good (n := n) hyp.good_root)
  have hge := gpot_reach_le hyp hmono Reach.root hg
  rw [hg]
  have : h + P.initVal = opt := by omega
  simp [EInt.addI, this]

/-- `Potential.att`, literally (with the layer list `L`) -/
theorem gpot_att_L (hyp : GHyp D P R H n opt B0 B) (k : Nat) (L : List S) (x : Nat) (s : S) (h : Int)
    (hnv : P.nextVar k L = some x) (hs : s ∈ L) (hg : gpot D P n opt B k s = some h) :
    ∃ d ∈ P.domain x s, ∃ h', gpot D P n opt B (k + 1) (P.trans s ⟨x, d⟩) = some h' ∧
      h ≤ P.cost s (P.trans s ⟨x, d⟩) ⟨x, d⟩ + h' :=
  gpot_att hyp (by rw [← nv_eq hyp.hstat hs]; exact hnv) hg

/-- `Potential.term` shape, with the layer list `L`: a defined pseudo-potential is `0` at the terminal depth -/
theorem gpot_term_L (hyp : GHyp D P R H n opt B0 B) (k : Nat) (L : List S) (s : S) (h : Int)
    (hnv : P.nextVar k L = none) (hs : s ∈ L) (hg : gpot D P n opt B k s = some h) : h = 0 :=
  gpot_term hyp (by rw [← nv_eq hyp.hstat hs]; exact hnv) hg

end pot

end Ddo.C10d

#print axioms Ddo.C10d.geItem_lower
#print axioms Ddo.C10d.gpot_spec
#print axioms Ddo.C10d.gpot_none
#print axioms Ddo.C10d.gpot_reach_le
#print axioms Ddo.C10d.gpot_att
#print axioms Ddo.C10d.gpot_mergeOk
#print axioms Ddo.C10d.gpot_MergeOk
#print axioms Ddo.C10d.gpot_rub
#print axioms Ddo.C10d.gpot_RubOk
#print axioms Ddo.C10d.gpot_term
#print axioms Ddo.C10d.gpot_dominated
#print axioms Ddo.C10d.gpot_within
#print axioms Ddo.C10d.gpot_root
#print axioms Ddo.C10d.gpot_att_L
#print axioms Ddo.C10d.gpot_term_L
