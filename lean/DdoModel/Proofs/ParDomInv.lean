import DdoModel.Proofs.ParDomDefs
/-! # The PARALLEL solver with the shared dominance checker — the coverage invariant `DSysInv` is preserved

`DSysInv On opt Sol` (`Proofs/ParDomDefs.lean`) is the protected-family form of the coverage invariant `SysInv` of
`Proofs/ParSysInv.lean`: "some open sub-problem lies on the protected family `On` with a bound that does not cut the optimum
off, or the search was aborted, or the incumbent is optimal".  This file redoes the proof of `step_inv` for it: every section of
every worker (`ParSys.Step`, every interleaving, both fringes) preserves it, under the contracts `DCompileOk` / `DCutsetOk`
taken relative to the *stale* incumbent the worker read.  Core Lean only. -/
set_option linter.unusedSectionVars false
set_option linter.unusedVariables false
namespace Ddo.ParDom
open Ddo Ddo.ParSys Ddo.C10
variable {S : Type} [DecidableEq S]

section
variable (On : SubP S → Prop) (opt : Int) (Sol : List Dec → Int → Prop)

/-! ### stage facts -/

theorem DWOk.mono {lb lb' : Int} (h : lb ≤ lb') {w : WSt S} (hw : DWOk On opt Sol lb w) : DWOk On opt Sol lb' w := by
  cases w <;> simp only [DWOk] at hw ⊢
  case compR => omega
  case updR => exact ⟨by omega, hw.2⟩
  case compX => omega
  case updX => exact ⟨by omega, hw.2⟩
  case enq => exact ⟨by omega, hw.2.1, fun w hw' => by have := hw.2.2 w hw'; omega⟩

theorem wake_DWOk (lb : Int) (w : WSt S) : DWOk On opt Sol lb w.wake ↔ DWOk On opt Sol lb w := by
  cases w <;> exact Iff.rfl

/-! ### the generic step -/

/-- generic step: worker `i` goes from `w` to `w'`, the shared record from `s.crit` to `c'` -/
theorem dinv_set {s : Sys S} {i : Nat} {w : WSt S} (hi : DSysInv On opt Sol s) (hw : s.ws[i]? = some w)
    (c' : ParCrit S) (w' : WSt S)
    (hab : s.crit.base.abort = true → c'.base.abort = true)
    (hlble : s.crit.base.bestLb ≤ c'.base.bestLb)
    (hlb : c'.base.bestLb ≤ opt) (hsol : ∀ p, c'.base.bestSol = some p → Sol p c'.base.bestLb)
    (hloc : DWOk On opt Sol c'.base.bestLb w')
    (hcnt : c'.ongoing + (if w.holds then 1 else 0) = s.crit.ongoing + (if w'.holds then 1 else 0))
    (hdone : w' = .done → c'.base.abort = true ∨ c'.base.bestLb = opt)
    (hfin : ∀ n, w' = .fin n true → c'.base.abort = true)
    (hcov : opt > c'.base.bestLb → ∀ x, Open s x → On x → opt ≤ x.ub →
      (∃ y, (y ∈ c'.base.fringe ∨ w'.openNode = some y ∨ Others s.ws i y) ∧ On y ∧ opt ≤ y.ub) ∨
      c'.base.abort = true) :
    DSysInv On opt Sol { crit := c', ws := s.ws.set i w' } := by
  refine ⟨hlb, hsol, ?_, ?_, ?_, ?_, ?_⟩
  · intro j wj hj
    rcases get_set_split hj with ⟨rfl, rfl⟩ | ⟨hne, hj'⟩
    · exact hloc
    · exact DWOk.mono On opt Sol hlble (hi.loc j wj hj')
  · intro hgt
    have hgt : opt > c'.base.bestLb := hgt
    have hgt0 : opt > s.crit.base.bestLb := by omega
    rcases hi.cover hgt0 with ⟨x, hx, hP, hU⟩ | ha
    · rcases hcov hgt x hx hP hU with ⟨y, hy, hPy, hUy⟩ | h
      · exact Or.inl ⟨y, (open_set hw c' w' y).mpr hy, hPy, hUy⟩
      · exact Or.inr h
    · exact Or.inr (hab ha)
  · show c'.ongoing = (s.ws.set i w').countP WSt.holds
    have h1 := countP_set WSt.holds w' hw
    have h2 := hi.cnt
    omega
  · rintro ⟨j, hj⟩
    show c'.base.abort = true ∨ c'.base.bestLb = opt
    rcases get_set_split hj with ⟨_, e⟩ | ⟨hne, hj'⟩
    · exact hdone e.symm
    · rcases hi.doneOk ⟨j, hj'⟩ with h | h
      · exact Or.inl (hab h)
      · exact Or.inr (by omega)
  · intro j n hj
    show c'.base.abort = true
    rcases get_set_split hj with ⟨_, e⟩ | ⟨hne, hj'⟩
    · exact hfin n e.symm
    · exact hab (hi.finAb j n hj')

/-- the cover witness survives when the fringe and the node in hand are untouched -/
theorem dcov_same {s : Sys S} {i : Nat} {w : WSt S} (hw : s.ws[i]? = some w) (c' : ParCrit S) (w' : WSt S)
    (hfr : c'.base.fringe = s.crit.base.fringe) (hop : w'.openNode = w.openNode) :
    opt > c'.base.bestLb → ∀ x, Open s x → On x → opt ≤ x.ub →
      (∃ y, (y ∈ c'.base.fringe ∨ w'.openNode = some y ∨ Others s.ws i y) ∧ On y ∧ opt ≤ y.ub) ∨
      c'.base.abort = true := by
  intro _ x hx hP hU
  refine Or.inl ⟨x, ?_, hP, hU⟩
  rw [hfr, hop]
  exact (open_split hw x).mp hx

/-- a purely local step: only worker `i` changes -/
theorem dinv_local {s : Sys S} {i : Nat} {w : WSt S} (hi : DSysInv On opt Sol s) (hw : s.ws[i]? = some w) (w' : WSt S)
    (hh : w'.holds = w.holds)
    (hst : DWOk On opt Sol s.crit.base.bestLb w')
    (hdone : w' = .done → s.crit.base.abort = true ∨ s.crit.base.bestLb = opt)
    (hfin : ∀ n, w' = .fin n true → s.crit.base.abort = true)
    (hcov : opt > s.crit.base.bestLb → ∀ x, Open s x → On x → opt ≤ x.ub →
      (∃ y, (y ∈ s.crit.base.fringe ∨ w'.openNode = some y ∨ Others s.ws i y) ∧ On y ∧ opt ≤ y.ub) ∨
      s.crit.base.abort = true) :
    DSysInv On opt Sol { crit := s.crit, ws := s.ws.set i w' } :=
  dinv_set On opt Sol hi hw s.crit w' (fun h => h) (Int.le_refl _) hi.lbOk hi.solOk hst (by rw [hh]) hdone hfin hcov

/-! ### `notify_all` -/

theorem dinv_wake {s : Sys S} (hi : DSysInv On opt Sol s) :
    DSysInv On opt Sol { crit := s.crit, ws := s.ws.map WSt.wake } := by
  refine ⟨hi.lbOk, hi.solOk, ?_, ?_, ?_, ?_, ?_⟩
  · intro j wj' hj
    obtain ⟨wj, hj0, rfl⟩ := get_map_wake hj
    exact (wake_DWOk On opt Sol _ wj).mpr (hi.loc j wj hj0)
  · intro hgt
    rcases hi.cover hgt with ⟨x, hx, hP, hU⟩ | h
    · refine Or.inl ⟨x, ?_, hP, hU⟩
      rcases hx with hx | ⟨j, wj, hj, hx⟩
      · exact Or.inl hx
      · refine Or.inr ⟨j, wj.wake, ?_, by rw [wake_openNode]; exact hx⟩
        show (s.ws.map WSt.wake)[j]? = _
        rw [List.getElem?_map, hj]; rfl
    · exact Or.inr h
  · show s.crit.ongoing = (s.ws.map WSt.wake).countP WSt.holds
    rw [List.countP_map, hi.cnt]
    congr 1
    funext w; exact (wake_holds w).symm
  · rintro ⟨j, hj⟩
    obtain ⟨wj, hj0, e⟩ := get_map_wake hj
    exact hi.doneOk ⟨j, by rw [hj0, wake_eq_done e.symm]⟩
  · intro j n hj
    obtain ⟨wj, hj0, e⟩ := get_map_wake hj
    exact hi.finAb j n (by rw [hj0, wake_eq_fin e.symm])

/-! ### `get_workload` -/

theorem dinv_gwAborted {s : Sys S} {i : Nat} (hi : DSysInv On opt Sol s) (hw : s.ws[i]? = some .idle)
    (ha : s.crit.base.abort = true) :
    DSysInv On opt Sol { crit := s.crit, ws := s.ws.set i .done } :=
  dinv_local On opt Sol hi hw .done rfl trivial (fun _ => Or.inl ha) (fun _ h => by cases h)
    (dcov_same On opt hw s.crit .done rfl rfl)

theorem dinv_gwWait {s : Sys S} {i : Nat} (hi : DSysInv On opt Sol s) (hw : s.ws[i]? = some .idle) :
    DSysInv On opt Sol { crit := s.crit, ws := s.ws.set i .waiting } :=
  dinv_local On opt Sol hi hw .waiting rfl trivial (fun h => by cases h) (fun _ h => by cases h)
    (dcov_same On opt hw s.crit .waiting rfl rfl)

/-- nothing is open when `ongoing = 0` and the fringe is empty -/
theorem dnothing_open {s : Sys S} (hi : DSysInv On opt Sol s) (ho : s.crit.ongoing = 0) (hf : s.crit.base.fringe = [])
    (x : SubP S) : ¬ Open s x := by
  rintro (h | ⟨j, wj, hj, hx⟩)
  · rw [hf] at h; cases h
  · have h0 : s.ws.countP WSt.holds = 0 := by rw [← hi.cnt]; exact ho
    have := List.countP_eq_zero.mp h0 wj (List.mem_iff_getElem?.mpr ⟨j, hj⟩)
    exact this (holds_of_open hx)

/-- … and then, unless the search was aborted, the incumbent is the optimum -/
theorem dopt_of_closed {s : Sys S} (hi : DSysInv On opt Sol s) (ha : s.crit.base.abort = false)
    (ho : s.crit.ongoing = 0) (hf : s.crit.base.fringe = []) : s.crit.base.bestLb = opt := by
  have h1 : ¬ opt > s.crit.base.bestLb := by
    intro hgt
    rcases hi.cover hgt with ⟨x, hx, _⟩ | h
    · exact dnothing_open On opt Sol hi ho hf x hx
    · rw [ha] at h; cases h
  have h2 := hi.lbOk
  omega

theorem dinv_gwComplete {s : Sys S} {i : Nat} (hi : DSysInv On opt Sol s) (hw : s.ws[i]? = some .idle)
    (ha : s.crit.base.abort = false) (ho : s.crit.ongoing = 0) (hf : s.crit.base.fringe = []) :
    DSysInv On opt Sol { crit := s.crit.complete, ws := s.ws.set i .done } := by
  have he := dopt_of_closed On opt Sol hi ha ho hf
  exact dinv_set On opt Sol hi hw s.crit.complete .done (fun h => h) (Int.le_refl _) hi.lbOk hi.solOk trivial rfl
    (fun _ => Or.inr he) (fun _ h => by cases h)
    (fun _ x hx => absurd hx (dnothing_open On opt Sol hi ho hf x))

theorem dinv_gwStarve {s : Sys S} {i : Nat} {N : SubP S} {rest : List (SubP S)} {c' : ParCrit S} {k : Nat}
    (hi : DSysInv On opt Sol s) (hw : s.ws[i]? = some .idle) (hp : PopMax s.crit.base.fringe N rest)
    (hl : popLoop (setFringe s.crit rest) [(N, true)] 0 = (c', some none, k)) :
    DSysInv On opt Sol { crit := c', ws := s.ws } := by
  rw [popLoop_single] at hl
  split at hl
  · next hle =>
    have hle : N.ub ≤ s.crit.base.bestLb := hle
    injection hl with hc _
    subst hc
    rw [← set_idle_self hw]
    refine dinv_set On opt Sol hi hw _ .idle (fun h => h) (Int.le_refl _) hi.lbOk hi.solOk trivial rfl
      (fun h => by cases h) (fun _ h => by cases h) ?_
    intro hgt x hx hP hU
    have hgt : opt > s.crit.base.bestLb := hgt
    rcases (open_split hw x).mp hx with h | h | h
    · have : x.ub ≤ N.ub := by
        rcases (mem_of_popMax hp x).mp h with e | e
        · rw [e]; exact Int.le_refl _
        · exact hp.2 x e
      omega
    · cases h
    · exact Or.inl ⟨x, Or.inr (Or.inr h), hP, hU⟩
  · injection hl with _ hl; injection hl with hl; cases hl

theorem dinv_gwItem {s : Sys S} {i : Nat} {N : SubP S} {rest : List (SubP S)} {c' : ParCrit S} {nn : SubP S} {k : Nat}
    {c'' : ParCrit S}
    (hi : DSysInv On opt Sol s) (hw : s.ws[i]? = some .idle)
    (hp : PopMax s.crit.base.fringe N rest)
    (hl : popLoop (setFringe s.crit rest) [(N, true)] 0 = (c', some (some nn), k))
    (ht : c'.take i nn = some c'') :
    DSysInv On opt Sol { crit := c'', ws := s.ws.set i (.readR nn) } := by
  obtain ⟨rfl, rfl⟩ := popLoop_item hl
  obtain ⟨t1, t2, t3, t4, t5, t6, t7, t8⟩ := take_spec ht
  have t1 : c''.base.fringe = rest := t1
  have t2 : c''.base.bestLb = s.crit.base.bestLb := t2
  have t3 : c''.base.bestSol = s.crit.base.bestSol := t3
  have t5 : c''.base.abort = s.crit.base.abort := t5
  have t6 : c''.ongoing = s.crit.ongoing + 1 := t6
  refine dinv_set On opt Sol hi hw c'' (.readR nn) (fun h => by rw [t5]; exact h)
    (by rw [t2]; exact Int.le_refl _) (by rw [t2]; exact hi.lbOk)
    (by rw [t2, t3]; exact hi.solOk) trivial (by rw [t6]; rfl) (fun h => by cases h) (fun _ h => by cases h) ?_
  intro hgt x hx hP hU
  rcases (open_split hw x).mp hx with h | h | h
  · rcases (mem_of_popMax hp x).mp h with e | e
    · exact Or.inl ⟨x, Or.inr (Or.inl (by rw [e]; rfl)), hP, hU⟩
    · exact Or.inl ⟨x, Or.inl (by rw [t1]; exact e), hP, hU⟩
  · cases h
  · exact Or.inl ⟨x, Or.inr (Or.inr h), hP, hU⟩

theorem dinv_gwCrash {s : Sys S} {i : Nat} {N : SubP S} {rest : List (SubP S)} {c' : ParCrit S} {nn : SubP S} {k : Nat}
    (hi : DSysInv On opt Sol s) (hw : s.ws[i]? = some .idle) (hp : PopMax s.crit.base.fringe N rest)
    (hl : popLoop (setFringe s.crit rest) [(N, true)] 0 = (c', some (some nn), k)) :
    DSysInv On opt Sol { crit := c'.takeCrash, ws := s.ws.set i (.crashed nn) } := by
  obtain ⟨rfl, rfl⟩ := popLoop_item hl
  refine dinv_set On opt Sol hi hw _ (.crashed nn) (fun h => h) (Int.le_refl _) hi.lbOk hi.solOk trivial rfl
    (fun h => by cases h) (fun _ h => by cases h) ?_
  intro hgt x hx hP hU
  rcases (open_split hw x).mp hx with h | h | h
  · rcases (mem_of_popMax hp x).mp h with e | e
    · exact Or.inl ⟨x, Or.inr (Or.inl (by rw [e]; rfl)), hP, hU⟩
    · exact Or.inl ⟨x, Or.inl e, hP, hU⟩
  · cases h
  · exact Or.inl ⟨x, Or.inr (Or.inr h), hP, hU⟩

/-! ### `process_one_node` -/

theorem dinv_readLbR {s : Sys S} {i : Nat} {n : SubP S} (hi : DSysInv On opt Sol s) (hw : s.ws[i]? = some (.readR n)) :
    DSysInv On opt Sol
      { crit := s.crit, ws := s.ws.set i (if n.ub ≤ s.crit.readLb then .fin n false else .compR n s.crit.readLb) } := by
  by_cases hle : n.ub ≤ s.crit.readLb
  · rw [if_pos hle]
    have hle : n.ub ≤ s.crit.base.bestLb := hle
    refine dinv_local On opt Sol hi hw (.fin n false) rfl trivial (fun h => by cases h) (fun _ h => by cases h) ?_
    intro hgt x hx hP hU
    rcases (open_split hw x).mp hx with h | h | h
    · exact Or.inl ⟨x, Or.inl h, hP, hU⟩
    · injection h with h; subst h; omega
    · exact Or.inl ⟨x, Or.inr (Or.inr h), hP, hU⟩
  · rw [if_neg hle]
    exact dinv_local On opt Sol hi hw (.compR n s.crit.readLb) rfl (Int.le_refl _) (fun h => by cases h)
      (fun _ h => by cases h) (dcov_same On opt hw s.crit _ rfl rfl)

theorem dinv_compileR {s : Sys S} {i : Nat} {n : SubP S} {lb : Int} {r : DDRes S}
    (hi : DSysInv On opt Sol s) (hw : s.ws[i]? = some (.compR n lb))
    (hok : ∀ o, r = .ok o → lb ≤ opt → DCompileOk On opt Sol n lb o) :
    DSysInv On opt Sol { crit := s.crit, ws := s.ws.set i (WSt.afterR n lb r) } := by
  have hst : lb ≤ s.crit.base.bestLb := hi.loc i _ hw
  have hlo := hi.lbOk
  cases r with
  | ok o =>
    exact dinv_local On opt Sol hi hw (.updR n lb o) rfl ⟨hst, hok o rfl (by omega)⟩ (fun h => by cases h)
      (fun _ h => by cases h) (dcov_same On opt hw s.crit _ rfl rfl)
  | cutoff =>
    exact dinv_local On opt Sol hi hw (.abortS n) rfl trivial (fun h => by cases h)
      (fun _ h => by cases h) (dcov_same On opt hw s.crit _ rfl rfl)

theorem dinv_readLbX {s : Sys S} {i : Nat} {n : SubP S} (hi : DSysInv On opt Sol s) (hw : s.ws[i]? = some (.readX n)) :
    DSysInv On opt Sol { crit := s.crit, ws := s.ws.set i (.compX n s.crit.readLb) } :=
  dinv_local On opt Sol hi hw (.compX n s.crit.readLb) rfl (Int.le_refl _) (fun h => by cases h)
    (fun _ h => by cases h) (dcov_same On opt hw s.crit _ rfl rfl)

theorem dinv_compileX {s : Sys S} {i : Nat} {n : SubP S} {lb : Int} {r : DDRes S}
    (hi : DSysInv On opt Sol s) (hw : s.ws[i]? = some (.compX n lb))
    (hok : ∀ o, r = .ok o → lb ≤ opt →
      DCompileOk On opt Sol n lb o ∧ (o.isExact = false → DCutsetOk On opt n lb o)) :
    DSysInv On opt Sol { crit := s.crit, ws := s.ws.set i (WSt.afterX n lb r) } := by
  have hst : lb ≤ s.crit.base.bestLb := hi.loc i _ hw
  have hlo := hi.lbOk
  cases r with
  | ok o =>
    have h := hok o rfl (by omega)
    exact dinv_local On opt Sol hi hw (.updX n lb o) rfl ⟨hst, h.1, h.2⟩ (fun h => by cases h)
      (fun _ h => by cases h) (dcov_same On opt hw s.crit _ rfl rfl)
  | cutoff =>
    exact dinv_local On opt Sol hi hw (.abortS n) rfl trivial (fun h => by cases h)
      (fun _ h => by cases h) (dcov_same On opt hw s.crit _ rfl rfl)

/-- `maybe_update_best` with a compilation meeting the contract: everything global is preserved -/
theorem dupdate_glob {s : Sys S} {n : SubP S} {lb : Int} {o : DDOut S}
    (hi : DSysInv On opt Sol s) (hc : DCompileOk On opt Sol n lb o) :
    s.crit.base.bestLb ≤ (s.crit.updateBest o).base.bestLb ∧
    (s.crit.base.abort = true → (s.crit.updateBest o).base.abort = true) ∧
    (s.crit.updateBest o).base.bestLb ≤ opt ∧
    (∀ p, (s.crit.updateBest o).base.bestSol = some p → Sol p (s.crit.updateBest o).base.bestLb) ∧
    (s.crit.updateBest o).base.fringe = s.crit.base.fringe := by
  obtain ⟨f1, _, f3, _, _⟩ := updateBest_fringe s.crit.base o
  have hge := updateBest_lb_ge s.crit.base o
  obtain ⟨hlb, hsol⟩ := updateBest_ok' opt Sol s.crit.base o hi.lbOk hi.solOk hc.sound
  exact ⟨hge, fun h => by show (s.crit.base.updateBest o).abort = true; rw [f3]; exact h, hlb, hsol, f1⟩

/-- the node in hand is closed by an exact diagram: it no longer carries the optimum above the new incumbent -/
theorem dcov_exact {s : Sys S} {i : Nat} {w : WSt S} {n : SubP S} {lb : Int} {o : DDOut S}
    (hi : DSysInv On opt Sol s) (hw : s.ws[i]? = some w) (hop : w.openNode = some n)
    (hst : lb ≤ s.crit.base.bestLb) (hc : DCompileOk On opt Sol n lb o) (hex : o.isExact = true) :
    opt > (s.crit.updateBest o).base.bestLb → ∀ x, Open s x → On x → opt ≤ x.ub →
      (∃ y, (y ∈ (s.crit.updateBest o).base.fringe ∨ (WSt.fin n false).openNode = some y ∨ Others s.ws i y) ∧
        On y ∧ opt ≤ y.ub) ∨ (s.crit.updateBest o).base.abort = true := by
  intro hgt x hx hP hU
  have hfe : (s.crit.updateBest o).base.fringe = s.crit.base.fringe := (updateBest_fringe s.crit.base o).1
  have hge := updateBest_lb_ge s.crit.base o
  have hgt : opt > (s.crit.base.updateBest o).bestLb := hgt
  rcases (open_split hw x).mp hx with h | h | h
  · exact Or.inl ⟨x, Or.inl (by rw [hfe]; exact h), hP, hU⟩
  · rw [hop] at h
    injection h with h; subst h
    obtain ⟨v, hv, hov⟩ := hc.exact hex hP (by omega)
    have := updateBest_lb_ge_val s.crit.base o v hv
    omega
  · exact Or.inl ⟨x, Or.inr (Or.inr h), hP, hU⟩

theorem dinv_updateR {s : Sys S} {i : Nat} {n : SubP S} {lb : Int} {o : DDOut S}
    (hi : DSysInv On opt Sol s) (hw : s.ws[i]? = some (.updR n lb o)) :
    DSysInv On opt Sol
      { crit := s.crit.updateBest o, ws := s.ws.set i (if o.isExact then .fin n false else .readX n) } := by
  obtain ⟨hst, hc⟩ : lb ≤ s.crit.base.bestLb ∧ DCompileOk On opt Sol n lb o := hi.loc i _ hw
  obtain ⟨hle, hab, hlb, hsol, hfe⟩ := dupdate_glob On opt Sol hi hc
  by_cases hex : o.isExact = true
  · rw [if_pos hex]
    exact dinv_set On opt Sol hi hw _ (.fin n false) hab hle hlb hsol trivial rfl (fun h => by cases h)
      (fun _ h => by cases h) (dcov_exact On opt Sol hi hw rfl hst hc hex)
  · rw [if_neg hex]
    exact dinv_set On opt Sol hi hw _ (.readX n) hab hle hlb hsol trivial rfl (fun h => by cases h)
      (fun _ h => by cases h) (dcov_same On opt hw _ _ hfe rfl)

theorem dinv_updateX {s : Sys S} {i : Nat} {n : SubP S} {lb : Int} {o : DDOut S}
    (hi : DSysInv On opt Sol s) (hw : s.ws[i]? = some (.updX n lb o)) :
    DSysInv On opt Sol
      { crit := s.crit.updateBest o, ws := s.ws.set i (if o.isExact then .fin n false else .enq n lb o) } := by
  obtain ⟨hst, hc, hcut⟩ : lb ≤ s.crit.base.bestLb ∧ DCompileOk On opt Sol n lb o ∧
      (o.isExact = false → DCutsetOk On opt n lb o) := hi.loc i _ hw
  obtain ⟨hle, hab, hlb, hsol, hfe⟩ := dupdate_glob On opt Sol hi hc
  by_cases hex : o.isExact = true
  · rw [if_pos hex]
    exact dinv_set On opt Sol hi hw _ (.fin n false) hab hle hlb hsol trivial rfl (fun h => by cases h)
      (fun _ h => by cases h) (dcov_exact On opt Sol hi hw rfl hst hc hex)
  · rw [if_neg hex]
    have hex' : o.isExact = false := by simpa using hex
    refine dinv_set On opt Sol hi hw _ (.enq n lb o) hab hle hlb hsol ?_ rfl (fun h => by cases h)
      (fun _ h => by cases h) (dcov_same On opt hw _ _ hfe rfl)
    exact ⟨Int.le_trans hst hle, hcut hex', fun v hv => updateBest_lb_ge_val s.crit.base o v hv⟩

/-! ### `enqueue_cutset` on either fringe -/

/-- a protected member of (old fringe + cut-set nodes that beat the incumbent) is covered by a protected entry of the new
    fringe whose bound is not smaller -/
theorem enqueue_dcover (hOn : OnMono On) (dedup : Bool) (st : SeqSt S) (cs : List (SubP S)) :
    (st.enqueue dedup cs).bestLb = st.bestLb ∧ (st.enqueue dedup cs).bestSol = st.bestSol ∧
    (st.enqueue dedup cs).abort = st.abort ∧
    ∀ c, (c ∈ st.fringe ∨ ∃ c0 ∈ cs, c = c0 ∧ c0.ub > st.bestLb) → On c → ∀ u : Int, u ≤ c.ub →
      ∃ y, y ∈ (st.enqueue dedup cs).fringe ∧ On y ∧ u ≤ y.ub := by
  cases dedup
  · obtain ⟨e1, e2, _, e4, e5⟩ := enqueue_false_spec st cs
    exact ⟨e1, e2, e4, fun c hc h1 u h2 => ⟨c, (e5 c).mpr hc, h1, h2⟩⟩
  · obtain ⟨e1, e2, _, e4, _, hco⟩ := enqueue_true_spec st cs
    refine ⟨e1, e2, e4, fun c hc h1 u h2 => ?_⟩
    obtain ⟨y, hy, hd⟩ := hco.2 c hc
    exact ⟨y, hy, hOn c y hd.state.symm hd.depth.symm hd.value h1, by have := hd.ub; omega⟩

theorem dinv_enqueue (dedup : Bool) (hOn : OnMono On) {s : Sys S} {i : Nat} {n : SubP S} {lb : Int} {o : DDOut S}
    (hi : DSysInv On opt Sol s) (hw : s.ws[i]? = some (.enq n lb o)) :
    DSysInv On opt Sol { crit := s.crit.enqueue dedup o.cutset, ws := s.ws.set i (.fin n false) } := by
  obtain ⟨hst, hC, hbe⟩ : lb ≤ s.crit.base.bestLb ∧ DCutsetOk On opt n lb o ∧
      (∀ v, o.bestExact = some v → v ≤ s.crit.base.bestLb) := hi.loc i _ hw
  obtain ⟨e1, e2, e4, hF⟩ := enqueue_dcover On hOn dedup s.crit.base o.cutset
  have e1 : (s.crit.enqueue dedup o.cutset).base.bestLb = s.crit.base.bestLb := e1
  have e2 : (s.crit.enqueue dedup o.cutset).base.bestSol = s.crit.base.bestSol := e2
  have e4 : (s.crit.enqueue dedup o.cutset).base.abort = s.crit.base.abort := e4
  refine dinv_set On opt Sol hi hw _ (.fin n false) (fun h => by rw [e4]; exact h)
    (by rw [e1]; exact Int.le_refl _) (by rw [e1]; exact hi.lbOk) (by rw [e1, e2]; exact hi.solOk)
    trivial rfl (fun h => by cases h) (fun _ h => by cases h) ?_
  intro hgt x hx hP hU
  rw [e1] at hgt
  rcases (open_split hw x).mp hx with h | h | h
  · obtain ⟨y, hy, hPy, hUy⟩ := hF x (Or.inl h) hP opt hU
    exact Or.inl ⟨y, Or.inl hy, hPy, hUy⟩
  · injection h with h; subst h
    have hw' : ∀ v, o.bestExact = some v → v < opt := fun v hv => by have := hbe v hv; omega
    obtain ⟨c0, hc0, hOn0, hub0⟩ := hC hP (by omega) hw'
    obtain ⟨y, hy, hPy, hUy⟩ := hF c0 (Or.inr ⟨c0, hc0, rfl, by omega⟩) hOn0 opt hub0
    exact Or.inl ⟨y, Or.inl hy, hPy, hUy⟩
  · exact Or.inl ⟨x, Or.inr (Or.inr h), hP, hU⟩

/-! ### `abort_search`, `notify_node_finished` -/

theorem dinv_abort {s : Sys S} {i : Nat} {n : SubP S} {top : Option Int}
    (hi : DSysInv On opt Sol s) (hw : s.ws[i]? = some (.abortS n)) :
    DSysInv On opt Sol { crit := s.crit.abortSearch n.ub top, ws := s.ws.set i (.fin n true) } := by
  obtain ⟨a1, a2, _, a4, a5, _⟩ := abort_spec s.crit n.ub top
  exact dinv_set On opt Sol hi hw _ (.fin n true) (fun _ => a4) (by rw [a1]; exact Int.le_refl _)
    (by rw [a1]; exact hi.lbOk) (by rw [a1, a2]; exact hi.solOk) trivial (by rw [a5]; rfl)
    (fun h => by cases h) (fun _ _ => a4) (fun _ _ _ _ _ => Or.inr a4)

theorem dinv_notify {s : Sys S} {i : Nat} {n : SubP S} {te : Bool} {c' : ParCrit S}
    (hi : DSysInv On opt Sol s) (hw : s.ws[i]? = some (.fin n te)) (hn : s.crit.notifyFinished i n.depth = some c') :
    DSysInv On opt Sol { crit := c', ws := (s.ws.map WSt.wake).set i (if te then .done else .idle) } := by
  obtain ⟨n1, n2, _, _⟩ := notify_spec hn
  have hi' := dinv_wake On opt Sol hi
  have hw' : (s.ws.map WSt.wake)[i]? = some (.fin n te) := by rw [List.getElem?_map, hw]; rfl
  have key : ∀ w' : WSt S, w'.openNode = none → w'.holds = false → DWOk On opt Sol s.crit.base.bestLb w' →
      (w' = .done → te = true) → (∀ m, w' = .fin m true → False) →
      DSysInv On opt Sol { crit := c', ws := (s.ws.map WSt.wake).set i w' } := by
    intro w' ho hh hst hd hf
    refine dinv_set On opt Sol (s := { crit := s.crit, ws := s.ws.map WSt.wake }) hi' hw' c' w'
      (fun h => by rw [n1]; exact h) (by rw [n1]; exact Int.le_refl _) (by rw [n1]; exact hi.lbOk)
      (by rw [n1]; exact hi.solOk) (by rw [n1]; exact hst) ?_ ?_ ?_ ?_
    · rw [hh]
      show c'.ongoing + 1 = s.crit.ongoing + 0
      omega
    · intro e
      have hte := hd e
      subst hte
      exact Or.inl (by rw [n1]; exact hi.finAb i n hw)
    · intro m e; exact absurd e (fun e => hf m e)
    · intro hgt x hx hP hU
      rcases (open_split (s := { crit := s.crit, ws := s.ws.map WSt.wake }) hw' x).mp hx with h | h | h
      · exact Or.inl ⟨x, Or.inl (by rw [n1]; exact h), hP, hU⟩
      · cases h
      · exact Or.inl ⟨x, Or.inr (Or.inr h), hP, hU⟩
  cases te
  · exact key .idle rfl rfl trivial (fun h => by cases h) (fun _ h => by cases h)
  · exact key .done rfl rfl trivial (fun _ => rfl) (fun _ h => by cases h)

/-! ### the theorems -/

/-- every section of every worker preserves `DSysInv` -/
theorem step_dinv (dedup : Bool) (hOn : OnMono On) {okR okX : SubP S → Int → DDOut S → Prop}
    (hR : ∀ n lb o, okR n lb o → lb ≤ opt → DCompileOk On opt Sol n lb o)
    (hX : ∀ n lb o, okX n lb o → lb ≤ opt →
      DCompileOk On opt Sol n lb o ∧ (o.isExact = false → DCutsetOk On opt n lb o))
    {s t : Sys S} (h : Step dedup okR okX s t) (hi : DSysInv On opt Sol s) : DSysInv On opt Sol t := by
  cases h with
  | gwAborted i hw ha => exact dinv_gwAborted On opt Sol hi hw ha
  | gwComplete i hw ha ho hf => exact dinv_gwComplete On opt Sol hi hw ha ho hf
  | gwWait i hw ha ho hf => exact dinv_gwWait On opt Sol hi hw
  | gwStarve i N rest c' k hw ha hp hl => exact dinv_gwStarve On opt Sol hi hw hp hl
  | gwItem i N rest c' nn k c'' hw ha hp hl ht => exact dinv_gwItem On opt Sol hi hw hp hl ht
  | gwCrash i N rest c' nn k hw ha hp hl ht => exact dinv_gwCrash On opt Sol hi hw hp hl
  | readLbR i n hw => exact dinv_readLbR On opt Sol hi hw
  | compileR i n lb r hw hok => exact dinv_compileR On opt Sol hi hw (fun o ho => hR n lb o (hok o ho))
  | updateR i n lb o hw => exact dinv_updateR On opt Sol hi hw
  | readLbX i n hw => exact dinv_readLbX On opt Sol hi hw
  | compileX i n lb r hw hok => exact dinv_compileX On opt Sol hi hw (fun o ho => hX n lb o (hok o ho))
  | updateX i n lb o hw => exact dinv_updateX On opt Sol hi hw
  | enqueue i n lb o hw => exact dinv_enqueue On opt Sol dedup hOn hi hw
  | abort i n top hw htop => exact dinv_abort On opt Sol hi hw
  | notify i n te c' hw hn => exact dinv_notify On opt Sol hi hw hn

/-- the invariant holds initially -/
theorem init_dinv (P : Problem S) (dedup : Bool) (U : Nat) (hroot : On (rootOf P)) (hopt : opt ≤ iMax) (hmin : iMin ≤ opt) :
    DSysInv On opt Sol (Sys.init P none dedup U) := by
  obtain ⟨b1, b2, _, b4, b5⟩ := init_base P none dedup
  have b1 : (Sys.init P none dedup U).crit.base.fringe = [rootOf P] := b1
  have b2 : (Sys.init P none dedup U).crit.base.abort = false := b2
  have b4 : (Sys.init P none dedup U).crit.base.bestLb = iMin := b4
  have b5 : (Sys.init P none dedup U).crit.base.bestSol = none := b5
  have hws : ∀ (i : Nat) (w : WSt S), (Sys.init P none dedup U).ws[i]? = some w → w = .idle := by
    intro i w h
    have h : (List.replicate U (WSt.idle : WSt S))[i]? = some w := h
    rw [List.getElem?_replicate] at h
    split at h
    · injection h with h; exact h.symm
    · cases h
  refine ⟨by rw [b4]; exact hmin, fun p hp => (by rw [b5] at hp; cases hp), ?_, ?_, ?_, ?_, ?_⟩
  · intro i w hw
    rw [hws i w hw]; trivial
  · intro _
    exact Or.inl ⟨rootOf P, Or.inl (by rw [b1]; exact List.mem_cons_self), hroot, hopt⟩
  · show 0 = (List.replicate U (WSt.idle : WSt S)).countP WSt.holds
    rw [List.countP_replicate]; rfl
  · rintro ⟨i, hi⟩
    cases hws i _ hi
  · intro i n hi
    cases hws i _ hi

/-- when `get_workload` answers `Complete` the incumbent is the optimum -/
theorem dcomplete_optimal {s : Sys S} {i : Nat} (hi : DSysInv On opt Sol s) (hc : CompletesAt s i) :
    s.crit.base.bestLb = opt ∧ ∀ p, s.crit.base.bestSol = some p → Sol p opt := by
  obtain ⟨_, ha, ho, hf⟩ := hc
  have := dopt_of_closed On opt Sol hi ha ho hf
  exact ⟨this, fun p hp => this ▸ hi.solOk p hp⟩

/-- when every worker has left and the search was not aborted the incumbent is the optimum -/
theorem dfinal_optimal {s : Sys S} (hi : DSysInv On opt Sol s) (hd : AllDone s) (hne : s.ws ≠ [])
    (ha : s.crit.base.abort = false) : s.crit.base.bestLb = opt := by
  cases hws : s.ws with
  | nil => exact absurd hws hne
  | cons w0 rest =>
    have h0 : s.ws[0]? = some w0 := by rw [hws]; rfl
    have hw0 : w0 = .done := hd w0 (by rw [hws]; exact List.mem_cons_self)
    rcases hi.doneOk ⟨0, by rw [h0, hw0]⟩ with h | h
    · rw [ha] at h; cases h
    · exact h

end
end Ddo.ParDom
