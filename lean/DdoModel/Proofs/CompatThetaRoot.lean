import DdoModel.Proofs.CompatThetaX
import DdoModel.Proofs.ThetaCover
/-! C10e — **the dominance-aware cover / exact statements, read on `compile`** (`JCRoot` of `Proofs/CompatProcess.lean`):
`Proofs/ThetaCover.lean` re-read with both filters from `CtxJ` (`Proofs/CompatTheta.lean`); core: `npj_all`
(`Proofs/CompatThetaCore.lean`).  `jcRootX_of : BuiltOkJoint → JCRootX`, `jcRoot_of : BuiltOkJoint → JCRoot`. -/
set_option linter.unusedSectionVars false
set_option linter.unusedVariables false
namespace Ddo.C10d
open Ddo Ddo.C01 Ddo.Closed Ddo.C09 Ddo.C10 Ddo.C10c Ddo.Truth Ddo.Theta Ddo.Bounds
variable {S K : Type} [DecidableEq S] [DecidableEq K]

section
variable {cfg : Cfg S K} {H : Nat → S → EInt} {B : Int} {cache : Cache S} {p0 : List Dec} {fin : DD S K}
  {Live Drop : Nat → Nat → Prop} {dd : DD S K} {O : Int}

/-- the root: its potential is `≤ lb`, or carried by what the cache prunes, or a potential-preserving path of the built
    diagram leads from the root to the terminal layer -/
theorem CtxJ.root_np (hx : CtxJ cfg H B cache O p0 fin Live Drop dd) (hR : RubOk cfg.R H) (hlb : cfg.lb < iMax)
    (M : Int) (hM0 : 0 ≤ M) (hMs : M + Cover.Bd B (cfg.P.nbVars + 1) ≤ big) (e : Bool)
    (hbkO : bkOf cfg.lb (finalize cfg (finalizeLayers fin) e).1.bestExactValue ≤ O)
    (h0 : Int) (hH0 : H cfg.root.depth cfg.root.state = some h0) :
    cfg.root.value + h0 ≤ O ∨ CacheAlt cfg H B M cache cfg.root.depth (cfg.root.value + h0) ∨
    ∃ n0, getNode (finalizeLayers fin).layers 0 0 = some n0 ∧ n0.state = cfg.root.state ∧ n0.value = cfg.root.value ∧
      Path (finalizeLayers fin).layers H cfg.root.depth B 0 0 h0 dd.layers.length := by
  -- the root in the built diagram
  have hroot : ∃ n0, getNode (finalizeLayers fin).layers 0 0 = some n0 ∧ n0.state = cfg.root.state ∧
      n0.value = cfg.root.value ∧ n0.cache = false ∧ n0.deleted = false := by
    by_cases hemp : dd.layers = []
    · obtain ⟨n0, hn0, hs, hv⟩ := hx.bo.inv.root0 hemp
      have hmem : n0 ∈ dd.next := by rw [hn0]; exact List.mem_singleton.mpr rfl
      obtain ⟨_, hc, hd⟩ := hx.bo.inv.baseN n0 hmem
      have h1 := hx.bo.ofN 0 n0 (by rw [hn0]; rfl)
      simp only [hemp, List.length_nil] at h1
      exact ⟨n0, h1, hs, hv, hc, hd⟩
    · obtain ⟨ly, n0, hly, hn0, hs, hv, hc, hd, _⟩ := hx.bo.inv.root1 hemp
      exact ⟨n0, hx.bo.ofL 0 ly 0 n0 hly hn0, hs, hv, hc, hd⟩
  obtain ⟨n0, hn0, hs, hv, hc, hd⟩ := hroot
  obtain ⟨n1, n2, n3, _, _, hn3, hco⟩ := corr_of_L0 cfg (finalizeLayers fin) e hn0
  have hy : HypFJ cfg H B M dd.layers.length (bkOf cfg.lb (finalize cfg (finalizeLayers fin) e).1.bestExactValue) O := by
    refine ⟨hR, hlb, bkOf_ge _ _, hbkO, hx.hy.B.nonneg, hM0, ?_⟩
    have := Cover.Bd_mono hx.hy.B.nonneg hx.bo.len
    omega
  have hnp := npj_all (hx.ffj e) hy dd.layers.length 0 0 n3 (by omega) hn3 (by rw [hco.deleted]; exact hd) h0
    (by rw [Nat.add_zero, hco.state, hs]; exact hH0)
  rw [hco.value, hv] at hnp
  rcases hnp with g | g | g
  · exact .inl g
  · right; left
    obtain ⟨l', p', m3, t', v', h', hll, hpp, hm3, _, hcm, hlook, hv't, hw', hH', hxle⟩ := g
    have hlt : 0 < l' := by
      rcases Nat.lt_or_ge 0 l' with h1 | h1
      · exact h1
      · have hl' : l' = 0 := by omega
        subst hl'
        rw [hpp rfl, hn3] at hm3
        cases hm3
        rw [hco.cache, hc] at hcm; cases hcm
    obtain ⟨hu1, hget⟩ := lookup_some hlook
    have hdm := hx.depth e l' p' m3 hm3
    refine ⟨hu1, m3.state, m3.depth, t', v', h', hget, by rw [hdm]; omega, ?_, hv't, by rw [hdm]; exact hH', hxle⟩
    rw [hdm, Nat.add_sub_cancel_left]
    exact hw'
  · right; right
    refine ⟨n0, hn0, hs, hv, ?_⟩
    rw [Nat.sub_zero] at g
    exact g.of_xEq (finalize_layers_xEq cfg (finalizeLayers fin) e).symm


/-- a potential-preserving path that reaches the layer under construction ends on a node of `dd.next` -/
theorem CtxJ.path_end (hx : CtxJ cfg H B cache O p0 fin Live Drop dd) {l p : Nat} {h : Int} {r : Nat}
    (hp : Path (finalizeLayers fin).layers H cfg.root.depth B l p h r) (hlr : l + r = dd.layers.length)
    (n0 : Node S) (hn0 : getNode (finalizeLayers fin).layers l p = some n0) :
    ∃ pt tn, getNode (finalizeLayers fin).layers dd.layers.length pt = some tn ∧ tn ∈ dd.next ∧
      n0.value + h ≤ tn.value := by
  obtain ⟨pt, tn, htn, hv⟩ := hp.terminal n0 hn0
  rw [hlr] at htn
  rcases hx.bo.at_ _ pt tn htn with ⟨ly, hly, _⟩ | ⟨_, hpt⟩
  · have := Cover.lt_of_getElem?_some hly; omega
  · exact ⟨pt, tn, htn, List.mem_of_getElem? hpt, hv⟩

/-- the best value dominates every terminal node -/
theorem CtxJ.best_ge (hx : CtxJ cfg H B cache O p0 fin Live Drop dd) (e : Bool) (tn : Node S) (hmem : tn ∈ dd.next) :
    ∃ bv, (finalize cfg (finalizeLayers fin) e).1.bestValue = some bv ∧ tn.value ≤ bv := by
  have hterm : tn ∈ (finalizeLayers fin).terminals := by rw [hx.bo.terms]; exact hmem
  obtain ⟨bv, hbv, hle⟩ := Cover.maxValue_ge _ tn hterm
  exact ⟨bv, hbv, hle⟩

/-- the best exact value dominates every exact terminal node (every terminal node when an exact best path is claimed) -/
theorem CtxJ.bestExact_ge (hx : CtxJ cfg H B cache O p0 fin Live Drop dd) (e : Bool) (tn : Node S) (hmem : tn ∈ dd.next)
    (hex : e = true ∨ tn.isExact = true) :
    ∃ w, (finalize cfg (finalizeLayers fin) e).1.bestExactValue = some w ∧ tn.value ≤ w := by
  rw [Bounds.finalize_bestExactValue]
  have hterm : tn ∈ (finalizeLayers fin).terminals := by rw [hx.bo.terms]; exact hmem
  cases e with
  | true =>
    obtain ⟨bv, hbv, hle⟩ := Cover.maxValue_ge _ tn hterm
    exact ⟨bv, by simp only [if_true]; exact hbv, hle⟩
  | false =>
    rcases hex with h | h
    · cases h
    · obtain ⟨bv, hbv, hle⟩ := Cover.maxValue_ge _ tn (List.mem_filter.mpr ⟨hterm, h⟩)
      exact ⟨bv, by simp only [Bool.false_eq_true, if_false]; exact hbv, hle⟩

theorem finalizeLayers_isExactField (dd : DD S K) : (finalizeLayers dd).isExactField = dd.lel.isNone := by
  unfold finalizeLayers
  split <;> rfl

/-- an exact node of the built diagram that starts a potential-preserving path to the terminal layer and sits at a
    position of the cut-set is handed out, with its potential -/
theorem CtxJ.cut_handed (hx : CtxJ cfg H B cache O p0 fin Live Drop dd) (e : Bool)
    (l p : Nat) (n0 : Node S) (h : Int) (r : Nat)
    (hpath : Path (finalizeLayers fin).layers H cfg.root.depth B l p h r) (hlr : l + r = dd.layers.length)
    (hn0 : getNode (finalizeLayers fin).layers l p = some n0) (hex : n0.isExact = true)
    (hcs : (l, p) ∈ (computeCutset cfg.kind (finalizeLayers fin).lel (finalizeLayers fin).layers).2) :
    ∃ c ∈ (finalize cfg (finalizeLayers fin) e).1.cutset,
      (H c.depth c.state).addI c.value = some (h + n0.value) := by
  have hlel : (finalizeLayers fin).lel < (finalizeLayers fin).layers.length := by
    rcases Nat.lt_or_ge (finalizeLayers fin).lel (finalizeLayers fin).layers.length with h | h
    · exact h
    · rw [hx.wf.cutset_nil h] at hcs
      exact absurd hcs List.not_mem_nil
  have hlenB : (finalizeLayers fin).layers.length ≤ cfg.P.nbVars + 2 := by
    have := hx.bo.lenB; have := hx.bo.len; omega
  obtain ⟨n3, hn3, hmk, _⟩ := finalize_good cfg (finalizeLayers fin) e H cfg.root.depth B hx.hy.rel hlel
    (small_of_noClamp hx.hy.B hlenB) l p h r hpath
  obtain ⟨n0', hn0', hs⟩ := (finalize_layers_xEq cfg (finalizeLayers fin) e).getNode_some hn3
  rw [hn0] at hn0'
  cases hn0'
  obtain ⟨e1, e2, _, _, e5, _⟩ := stripB_fields hs
  obtain ⟨pt, tn, _, htmem, _⟩ := hx.path_end hpath hlr n0 hn0
  obtain ⟨bv, hbv, _⟩ := hx.best_ge e tn htmem
  obtain ⟨_, _, _, hdepth⟩ := hx.wf.node _ _ n0 hn0 hex
  refine ⟨subOf cfg (finalize cfg (finalizeLayers fin) e).2 bv n3,
    (finalize_cutset_iff cfg _ e _).2 ⟨bv, (l, p), n3, hbv, by rw [fCs_of_relaxed cfg _ hx.hy.rel]; exact hcs, hn3, hmk, rfl⟩, ?_⟩
  simp only [subOf]
  obtain ⟨n', hn', hH'⟩ := hpath.node
  rw [hn0] at hn'; cases hn'
  rw [← e5, hdepth, ← e1, ← e2, hH']; rfl

/-- **C08 (iv) with cache, on `finalize`**: from a potential-preserving path of the root -/
theorem CtxJ.cover_of_path (hx : CtxJ cfg H B cache O p0 fin Live Drop dd) (e : Bool) (o : Int)
    (n0 : Node S) (h0 : Int) (hn0 : getNode (finalizeLayers fin).layers 0 0 = some n0) (ho : o ≤ n0.value + h0)
    (hpath0 : Path (finalizeLayers fin).layers H cfg.root.depth B 0 0 h0 dd.layers.length)
    (hbe : ∀ be, (finalize cfg (finalizeLayers fin) e).1.bestExactValue = some be → be < o) :
    ∃ c ∈ (finalize cfg (finalizeLayers fin) e).1.cutset, ∃ y, (H c.depth c.state).addI c.value = some y ∧ o ≤ y := by
  have hlenLS : (finalizeLayers fin).layers.length = dd.layers.length + 1 := by
    have := hpath0.len; omega
  -- no exact terminal node reaches `o`
  have noTerm : ∀ pt tn, getNode (finalizeLayers fin).layers dd.layers.length pt = some tn → tn.isExact = true →
      o ≤ tn.value → False := by
    intro pt tn htn hex hv
    rcases hx.bo.at_ _ pt tn htn with ⟨ly, hly, _⟩ | ⟨_, hpt⟩
    · have := Cover.lt_of_getElem?_some hly; omega
    · obtain ⟨w, hw, hle⟩ := hx.bestExact_ge e tn (List.mem_of_getElem? hpt) (.inr hex)
      have := hbe w hw
      omega
  obtain ⟨pt0, tn0, htn0, htmem0, hv0⟩ := hx.path_end hpath0 (Nat.zero_add _) n0 hn0
  have hne : dd.next ≠ [] := List.ne_nil_of_mem htmem0
  have hex0 : n0.isExact = true := hx.wf.exactUpTo 0 0 n0 hn0 (Nat.zero_le _)
  cases hk : cfg.kind with
  | lel =>
    rcases hx.lel_ne hne with ⟨_, hlel⟩ | hlel
    · exfalso
      exact noTerm pt0 tn0 htn0 (hx.wf.exactUpTo _ pt0 tn0 htn0 (by omega)) (by omega)
    · obtain ⟨p', n', h', hn', hpath', hv'⟩ := hpath0.descend n0 hn0 (finalizeLayers fin).lel (by omega)
      rw [Nat.zero_add] at hn' hpath'
      have hex' : n'.isExact = true := hx.wf.exactUpTo _ p' n' hn' (Nat.le_refl _)
      have hcs : ((finalizeLayers fin).lel, p') ∈
          (computeCutset cfg.kind (finalizeLayers fin).lel (finalizeLayers fin).layers).2 := by
        rw [hk]; exact computeCutset_lel_mem _ _ p' n' hn'
      obtain ⟨c, hc, hΦ⟩ := hx.cut_handed e _ p' n' h' _ hpath' (by omega) hn' hex' hcs
      exact ⟨c, hc, _, hΦ, by omega⟩
  | frontier =>
    have hcut : ∀ (l p : Nat) (n : Node S), getNode (finalizeLayers fin).layers l p = some n → n.cutset = false :=
      fun l p n hn => (hx.flags0 l p n hn).1
    rcases hpath0.frontier o n0 hn0 hex0 ho with ⟨pt, tn, htn, hte, htv⟩ |
      ⟨l1, p1, n1, h1, r1, p2, m, e', hp1, hn1, hex1, hv1, hm, hmex, he', hfl, hfp⟩
    · exfalso
      rw [Nat.zero_add] at htn
      exact noTerm pt tn htn hte htv
    · have hcs := computeCutset_frontier_mem (finalizeLayers fin).lel (finalizeLayers fin).layers hcut (l1 + 1) p2 m e' n1
        hm hmex he' (by rw [hfl, hfp]; exact hn1) hex1
      rw [hfl, hfp, ← hk] at hcs
      have hl1 := hp1.len
      obtain ⟨c, hc, hΦ⟩ := hx.cut_handed e l1 p1 n1 h1 r1 hp1 (by omega) hn1 hex1 hcs
      exact ⟨c, hc, _, hΦ, by omega⟩

end

/-- everything known about the diagram built by a relaxed compilation with both filters, from the top-down obligation; with the
    magnitudes the reading needs -/
theorem compile_ctxJ' {dv : DSolverCfg S K} {H : Nat → S → EInt} {B0 B opt : Int} {n : Nat}
    (hM : MonoHyp dv H B0 B opt n) {N : SubP S} {lb : Int} {cache : Cache S} {store : DomStore S K} {p0 : List Dec}
    (hpre : CompPre dv opt .relaxed N lb cache store p0) {Live Drop : Nat → Nat → Prop} {dd : DD S K}
    (hbo : BuiltOkJ (dv.kdcfg .relaxed N lb) (gpot dv.D dv.sv.P n opt B) B cache (opt - 1)
      (buildLoop (dv.kdcfg .relaxed N lb) none (dv.sv.P.nbVars + 2) (initDD (dv.kdcfg .relaxed N lb) cache store 0)).1 Live Drop dd) :
    ∃ (e : Bool),
      CtxJ (dv.kdcfg .relaxed N lb) (gpot dv.D dv.sv.P n opt B) B cache (opt - 1) p0
        (buildLoop (dv.kdcfg .relaxed N lb) none (dv.sv.P.nbVars + 2) (initDD (dv.kdcfg .relaxed N lb) cache store 0)).1
        Live Drop dd ∧
      (compile (dv.kdcfg .relaxed N lb) cache store 0 none).2.1 = (finalize (dv.kdcfg .relaxed N lb) (finalizeLayers
        (buildLoop (dv.kdcfg .relaxed N lb) none (dv.sv.P.nbVars + 2) (initDD (dv.kdcfg .relaxed N lb) cache store 0)).1) e).1 ∧
      (dv.kdcfg .relaxed N lb).lb < iMax ∧ 0 ≤ (N.depth : Int) * B ∧
      (N.depth : Int) * B + Cover.Bd B ((dv.kdcfg .relaxed N lb).P.nbVars + 1) ≤ big := by
  have hBN : NoClamp dv.sv.P dv.sv.R N.value B := hM.wf.bound.noClamp_at hM.wf.nv hpre.root
  have hk0 : N.depth ≤ dv.sv.P.nbVars := reach_depth_le hM.wf.nv hpre.root
  have hbk := hpre.bk
  obtain ⟨_, e, hre⟩ := compile_results (dv.kdcfg .relaxed N lb) cache store 0 none hpre.ok _ (.inl rfl)
  have hwf := compile_wf (dv.kdcfg .relaxed N lb) B p0 hBN hpre.root cache store 0 none
  have hinv2 := (buildLoop_inv2 (dv.kdcfg .relaxed N lb) B p0 hBN none ((dv.kdcfg .relaxed N lb).P.nbVars + 2)
    (initDD (dv.kdcfg .relaxed N lb) cache store 0)
    (initDD_inv (dv.kdcfg .relaxed N lb) B p0 hBN hpre.root cache store 0) (initDD_inv2 (dv.kdcfg .relaxed N lb) cache store 0) rfl
    (by simp only [initDD, List.length_nil]; omega)).2
  refine ⟨e, ⟨hypTJ_gpot hM hpre.root, hbo, hwf, hinv2⟩, hre, ?_, Int.mul_nonneg (by omega) hBN.nonneg,
    bd_shift_small hBN _ hk0⟩
  have hoptB := (opt_bound hM.wf.pot hM.wf.nv hM.wf.bound hM.opt).2
  have h2B := noClamp_two hBN
  have := bkOf_ge lb (compile (dv.kdcfg .relaxed N lb) cache store 0 none).2.1.bestExactValue
  have h0 := hBN.nonneg
  show lb < iMax
  unfold iMax
  omega

theorem compile_ctxJ (hB : BuiltOkJoint) {dv : DSolverCfg S K} {H : Nat → S → EInt} {B0 B opt : Int} {n : Nat}
    (hM : MonoHyp dv H B0 B opt n) {N : SubP S} {lb : Int} {cache : Cache S} {store : DomStore S K} {p0 : List Dec}
    (hpre : CompPre dv opt .relaxed N lb cache store p0) :
    ∃ (fin : DD S K) (Live Drop : Nat → Nat → Prop) (dd : DD S K) (e : Bool),
      CtxJ (dv.kdcfg .relaxed N lb) (gpot dv.D dv.sv.P n opt B) B cache (opt - 1) p0 fin Live Drop dd ∧
      (compile (dv.kdcfg .relaxed N lb) cache store 0 none).2.1 = (finalize (dv.kdcfg .relaxed N lb) (finalizeLayers fin) e).1 ∧
      (dv.kdcfg .relaxed N lb).lb < iMax ∧ 0 ≤ (N.depth : Int) * B ∧
      (N.depth : Int) * B + Cover.Bd B ((dv.kdcfg .relaxed N lb).P.nbVars + 1) ≤ big := by
  obtain ⟨Live, Drop, dd, hbo⟩ := hB S K dv H B0 B opt n hM N lb cache store p0 hpre
  obtain ⟨e, h⟩ := compile_ctxJ' hM hpre hbo
  exact ⟨_, Live, Drop, dd, e, h⟩

/-- the cache alternative of the diagram theorems, at the level `opt`, is `HitO` -/
theorem hitO_of_cacheAlt {cfg : Cfg S K} {H : Nat → S → EInt} {B opt : Int} {cache : Cache S} {d : Nat} {x : Int}
    (hd : cfg.root.depth ≤ d) (hx : opt ≤ x) (h : CacheAlt cfg H B ((cfg.root.depth : Int) * B) cache d x) :
    HitO H opt (RgB B) (viewOf cache) d := by
  obtain ⟨_, s', d', t, v', h', a1, a2, a3, a4, a5, a6⟩ := h
  refine ⟨s', d', t, v', ?_, a2, ?_, a4, h', a5, by omega⟩
  · unfold viewOf; rw [a1]; rfl
  · unfold RgB; rw [← bd_shift B cfg.root.depth d' (by omega)]; exact a3

theorem bkOf_ge_best (lb w : Int) : w ≤ bkOf lb (some w) := by
  unfold bkOf; dsimp only; omega

/-- **`JCRootX` from the top-down obligation** -/
theorem jcRootX_of (hB : BuiltOkJoint) : JCRootX := by
  intro S K _ _ dv H B0 B opt n hM N lb cache store p0 hpre hot
  obtain ⟨fin, Live, Drop, dd, e, hx, hre, hlb, hM0, hMs⟩ := compile_ctxJ hB hM hpre
  have hbk := hpre.bk
  obtain ⟨h0, hH0, hge⟩ := hot
  rw [hre] at hbk ⊢
  have hroot := hx.root_np (gpot_RubOk hM.ghyp hM.mono hM.wf.rub) hlb ((N.depth : Int) * B) hM0 hMs e
    (Int.le_sub_one_of_lt hbk) h0 hH0
  have hcache : CacheAlt (dv.kdcfg .relaxed N lb) (gpot dv.D dv.sv.P n opt B) B ((N.depth : Int) * B) cache N.depth (N.value + h0) →
      HitO (gpot dv.D dv.sv.P n opt B) opt (RgB B) (viewOf cache) N.depth :=
    fun g => hitO_of_cacheAlt (cfg := dv.kdcfg .relaxed N lb) (Nat.le_refl _) hge g
  rcases hroot with g | g | ⟨n0, hn0, hs, hv, hp⟩
  · exfalso
    have g' : N.value + h0 ≤ opt - 1 := g
    omega
  · exact ⟨fun _ => hcache g, fun _ => .inr (hcache g)⟩
  · have hv' : n0.value = N.value := hv
    refine ⟨fun hex => ?_, fun hex => ?_⟩
    · -- exact: an exact terminal node carries the value `≥ opt`, the incumbent would reach `opt`
      exfalso
      obtain ⟨pt, tn, _, htmem, hvt⟩ := hx.path_end hp (Nat.zero_add _) n0 hn0
      have hex' : ((finalizeLayers fin).isExactField || e) = true := hex
      have hcase : e = true ∨ tn.isExact = true := by
        cases he : e with
        | true => exact .inl rfl
        | false =>
          right
          rw [he, Bool.or_false, finalizeLayers_isExactField] at hex'
          have hnone : fin.lel = none := by
            cases hl : fin.lel with
            | none => rfl
            | some k => rw [hl] at hex'; cases hex'
          have hsame := hx.bo.same (List.ne_nil_of_mem htmem)
          exact (hx.inv2.lelNone hnone).2 tn (by rw [hsame]; exact htmem)
      obtain ⟨w, hw, hle⟩ := hx.bestExact_ge e tn htmem hcase
      rw [hw] at hbk
      have := bkOf_ge_best lb w
      omega
    · left
      obtain ⟨c, hc, y, hy, hle⟩ := hx.cover_of_path e opt n0 h0 hn0 (by omega) hp (by
        intro be hbe
        rw [hbe] at hbk
        have := bkOf_ge_best lb be
        omega)
      refine ⟨c, hc, ?_⟩
      obtain ⟨hc', hg, rfl⟩ := addI_some hy
      exact ⟨hc', hg, by omega⟩

/-- **`JCRoot` from the top-down obligation** -/
theorem jcRoot_of (hB : BuiltOkJoint) : JCRoot := jcRoot_of_relaxed (jcRootX_of hB)

end Ddo.C10d

#print axioms Ddo.C10d.jcRootX_of
#print axioms Ddo.C10d.jcRoot_of
