import DdoModel.Proofs.MddCover
/-! Helper lemmas for C13 (sentence 1): the list of positions `cur` that `stepLayer` hands to `expandAll`
    (the nodes on which `for_each_in_domain` may be called) is no longer than `cfg.width` after
    `_squash_if_needed`, and the expansion of a layer logs at most one `Call.domain` per position. -/
set_option linter.unusedSectionVars false
set_option linter.unusedVariables false
namespace Ddo.Width
open Ddo
variable {S K : Type} [DecidableEq S] [DecidableEq K]

/-! ## `_restrict` / `_relax` -/

theorem length_sortSquash (cfg : Cfg S K) (layer : List (Node S)) (cur : List Nat) :
    (sortSquash cfg layer cur).length = cur.length := by
  unfold sortSquash
  exact Cover.length_sortBy _ _

/-- `_restrict` keeps the `width` best nodes -/
theorem restrict_cur_le_width (cfg : Cfg S K) (layer : List (Node S)) (cur : List Nat) :
    (restrictLayer cfg layer cur).2.length ≤ cfg.width := by
  unfold restrictLayer
  dsimp only
  rw [List.length_take]
  exact Nat.min_le_left _ _

/-- exact length after `_restrict` -/
theorem restrict_cur_length (cfg : Cfg S K) (layer : List (Node S)) (cur : List Nat) :
    (restrictLayer cfg layer cur).2.length = min cfg.width cur.length := by
  unfold restrictLayer
  dsimp only
  rw [List.length_take, length_sortSquash]

/-- `_relax` keeps `width - 1` nodes plus the merged node (fresh), or the `width` best ones (recycled) -/
theorem relax_cur_le_width (cfg : Cfg S K) (layers : List (List (Node S))) (layer : List (Node S)) (cur : List Nat)
    (log : List (Call S)) (hW : 1 ≤ cfg.width) (hlen : cfg.width < cur.length) :
    (relaxLayer cfg layers layer cur log).2.1.length ≤ cfg.width := by
  refine Cover.relaxLayer_elim cfg layers layer cur log (fun r => r.2.1.length ≤ cfg.width) ?_ ?_
  · intro _ _ _
    show (Cover.keepOf cfg layer cur ++ [layer.length]).length ≤ cfg.width
    unfold Cover.keepOf
    rw [List.length_append, List.length_take, length_sortSquash, List.length_singleton]
    omega
  · intro _ _ _
    show ((sortSquash cfg layer cur).take cfg.width).length ≤ cfg.width
    rw [List.length_take]
    exact Nat.min_le_left _ _

/-- under the conditions in which `_relax` is called it hands over exactly `width` positions -/
theorem relax_cur_length (cfg : Cfg S K) (layers : List (List (Node S))) (layer : List (Node S)) (cur : List Nat)
    (log : List (Call S)) (hW : 1 ≤ cfg.width) (hlen : cfg.width < cur.length) :
    (relaxLayer cfg layers layer cur log).2.1.length = cfg.width := by
  refine Cover.relaxLayer_elim cfg layers layer cur log (fun r => r.2.1.length = cfg.width) ?_ ?_
  · intro _ _ _
    show (Cover.keepOf cfg layer cur ++ [layer.length]).length = cfg.width
    unfold Cover.keepOf
    rw [List.length_append, List.length_take, length_sortSquash, List.length_singleton]
    omega
  · intro _ _ _
    show ((sortSquash cfg layer cur).take cfg.width).length = cfg.width
    rw [List.length_take, length_sortSquash]
    omega

/-! ## `_squash_if_needed` -/

theorem squash_restricted_le (cfg : Cfg S K) (dd : DD S K) (layer : List (Node S)) (cur : List Nat)
    (layer' : List (Node S)) (cur' : List Nat) (log' : List (Call S)) (lel' : Option Nat)
    (hctype : cfg.ctype = .restricted)
    (h : squash cfg dd layer cur = some (layer', cur', log', lel')) : cur'.length ≤ cfg.width := by
  unfold squash at h
  have e1 : (cfg.ctype == CompType.restricted) = true := by rw [hctype]; decide
  have e2 : (cfg.ctype == CompType.relaxed) = false := by rw [hctype]; decide
  simp only [e1, e2, Bool.false_and, Bool.true_and, Bool.or_false] at h
  by_cases c1 : cur.length > cfg.width
  · simp only [c1, decide_true, Bool.true_and] at h
    by_cases c2 : dd.layers.isEmpty = true
    · simp [c2] at h
    · simp [c2] at h
      obtain ⟨_, rfl, _, _⟩ := h
      exact restrict_cur_le_width cfg layer cur
  · simp only [c1, decide_false, Bool.false_and] at h
    simp at h
    obtain ⟨_, rfl, _, _⟩ := h
    omega

/-- relaxed compilation, below the first two layers.  (`1 ≤ width` is not needed: for `width = 0` the model
    answers `none`, the Rust code panics on `max_width - 1`.) -/
theorem squash_relaxed_le (cfg : Cfg S K) (dd : DD S K) (layer : List (Node S)) (cur : List Nat)
    (layer' : List (Node S)) (cur' : List Nat) (log' : List (Call S)) (lel' : Option Nat)
    (hctype : cfg.ctype = .relaxed) (hdeep : dd.layers.length > 1)
    (h : squash cfg dd layer cur = some (layer', cur', log', lel')) : cur'.length ≤ cfg.width := by
  unfold squash at h
  have e1 : (cfg.ctype == CompType.restricted) = false := by rw [hctype]; decide
  have e2 : (cfg.ctype == CompType.relaxed) = true := by rw [hctype]; decide
  simp only [e1, e2, Bool.false_and, Bool.true_and, Bool.false_or, hdeep, decide_true, Bool.and_true] at h
  by_cases c1 : cur.length > cfg.width
  · simp only [c1, decide_true, Bool.true_and] at h
    by_cases c0 : cfg.width = 0
    · simp [c0] at h
    · have hW : 1 ≤ cfg.width := by omega
      have e3 : (cfg.width == 0) = false := by simpa using c0
      simp only [e3] at h
      simp at h
      obtain ⟨_, rfl, _, _⟩ := h
      exact relax_cur_le_width cfg dd.layers layer cur dd.log hW c1
  · simp only [c1, decide_false, Bool.false_and] at h
    simp at h
    obtain ⟨_, rfl, _, _⟩ := h
    omega


/-! ## `stepLayer`: what is handed to `expandAll` -/

/-- `_filter_with_cache` + `_filter_with_dominance`: the prefix of `stepLayer` before `_squash_if_needed` -/
def preSquash (cfg : Cfg S K) (dd : DD S K) : List (Node S) × List Nat × DomStore S K × Bool :=
  let fc := if dd.layers.isEmpty then (dd.next, List.range dd.next.length)
            else filterCache cfg dd.cache dd.next (List.range dd.next.length)
  filterDom cfg dd.store fc.1 fc.2

/-- the result of `_squash_if_needed` inside `stepLayer` (`none`: the loop breaks or the step crashes) -/
def squashOf (cfg : Cfg S K) (dd : DD S K) : Option (List (Node S) × List Nat × List (Call S) × Option Nat) :=
  if dd.next.isEmpty then none
  else if !(preSquash cfg dd).2.2.2 then none
  else squash cfg dd (preSquash cfg dd).1 (preSquash cfg dd).2.1

/-- the list of positions that `stepLayer` hands to `expandAll` -/
def curOf (cfg : Cfg S K) (dd : DD S K) : Option (List Nat) := (squashOf cfg dd).map (·.2.1)

/-- `stepLayer` in terms of `squash` and `expandAll` -/
theorem stepLayer_eq (cfg : Cfg S K) (dd : DD S K) (var : Nat) :
    stepLayer cfg dd var =
      if dd.next.isEmpty then (some { dd with layers := dd.layers ++ [[]] }, .cutoff)
      else match squashOf cfg dd with
        | none => (none, .crash)
        | some sq =>
          let e := expandAll cfg var dd.layers.length sq.1 sq.2.1 sq.2.2.1
          (some { dd with layers := dd.layers ++ [e.1], next := e.2.1, depth := dd.depth + 1, lel := sq.2.2.2,
                          store := (preSquash cfg dd).2.2.1, log := e.2.2,
                          ndom := dd.ndom + ((if dd.layers.isEmpty then (dd.next, List.range dd.next.length)
                              else filterCache cfg dd.cache dd.next (List.range dd.next.length)).2.length
                            - (preSquash cfg dd).2.1.length) }, .ok) := by
  unfold stepLayer squashOf
  by_cases h1 : dd.next.isEmpty = true
  · simp only [h1, if_true]
  · simp only [h1, Bool.false_eq_true, if_false]
    dsimp only [preSquash]
    have tail : ∀ (fc : List (Node S) × List Nat),
        (if (!(filterDom cfg dd.store fc.1 fc.2).2.2.2) = true then ((none : Option (DD S K)), Outcome.crash)
         else match squash cfg dd (filterDom cfg dd.store fc.1 fc.2).1 (filterDom cfg dd.store fc.1 fc.2).2.1 with
          | none => (none, Outcome.crash)
          | some (layer, cur, log, lel) =>
            (some { dd with layers := dd.layers ++ [(expandAll cfg var dd.layers.length layer cur log).1],
                            next := (expandAll cfg var dd.layers.length layer cur log).2.1, depth := dd.depth + 1,
                            lel := lel, store := (filterDom cfg dd.store fc.1 fc.2).2.2.1,
                            log := (expandAll cfg var dd.layers.length layer cur log).2.2,
                            ndom := dd.ndom + (fc.2.length - (filterDom cfg dd.store fc.1 fc.2).2.1.length) }, Outcome.ok)) =
        match (if (!(filterDom cfg dd.store fc.1 fc.2).2.2.2) = true then none
               else squash cfg dd (filterDom cfg dd.store fc.1 fc.2).1 (filterDom cfg dd.store fc.1 fc.2).2.1) with
          | none => (none, Outcome.crash)
          | some sq =>
            (some { dd with layers := dd.layers ++ [(expandAll cfg var dd.layers.length sq.1 sq.2.1 sq.2.2.1).1],
                            next := (expandAll cfg var dd.layers.length sq.1 sq.2.1 sq.2.2.1).2.1, depth := dd.depth + 1,
                            lel := sq.2.2.2, store := (filterDom cfg dd.store fc.1 fc.2).2.2.1,
                            log := (expandAll cfg var dd.layers.length sq.1 sq.2.1 sq.2.2.1).2.2,
                            ndom := dd.ndom + (fc.2.length - (filterDom cfg dd.store fc.1 fc.2).2.1.length) }, Outcome.ok) := by
      intro fc
      split
      · next hok => rfl
      · next hok =>
        split
        · next hsq => rw [hsq]
        · next l2 c2 lg lel hsq => rw [hsq]
    exact tail _

/-- a successful step appends the layer produced by `expandAll` on `curOf`, and its log -/
theorem stepLayer_ok_elim (cfg : Cfg S K) (dd dd' : DD S K) (var : Nat)
    (h : stepLayer cfg dd var = (some dd', .ok)) :
    ∃ sq, squashOf cfg dd = some sq ∧ curOf cfg dd = some sq.2.1 ∧
      dd'.layers = dd.layers ++ [(expandAll cfg var dd.layers.length sq.1 sq.2.1 sq.2.2.1).1] ∧
      dd'.next = (expandAll cfg var dd.layers.length sq.1 sq.2.1 sq.2.2.1).2.1 ∧
      dd'.log = (expandAll cfg var dd.layers.length sq.1 sq.2.1 sq.2.2.1).2.2 := by
  rw [stepLayer_eq] at h
  split at h
  · cases h
  · cases hsq : squashOf cfg dd with
    | none => rw [hsq] at h; cases h
    | some sq =>
      rw [hsq] at h
      dsimp only at h
      injection h with h _
      injection h with h
      subst h
      exact ⟨sq, rfl, by simp [curOf, hsq], rfl, rfl, rfl⟩

theorem squashOf_elim (cfg : Cfg S K) (dd : DD S K) (sq : List (Node S) × List Nat × List (Call S) × Option Nat)
    (h : squashOf cfg dd = some sq) :
    squash cfg dd (preSquash cfg dd).1 (preSquash cfg dd).2.1 = some (sq.1, sq.2.1, sq.2.2.1, sq.2.2.2) := by
  unfold squashOf at h
  split at h
  · cases h
  · split at h
    · cases h
    · exact h

/-- **width bound on the expanded positions of one layer** -/
theorem curOf_le_width (cfg : Cfg S K) (dd : DD S K) (cur : List Nat) (h : curOf cfg dd = some cur)
    (hc : cfg.ctype = .restricted ∨ (cfg.ctype = .relaxed ∧ dd.layers.length > 1)) :
    cur.length ≤ cfg.width := by
  unfold curOf at h
  cases hsq : squashOf cfg dd with
  | none => rw [hsq] at h; cases h
  | some sq =>
    rw [hsq] at h
    simp only [Option.map_some, Option.some.injEq] at h
    subst h
    have := squashOf_elim cfg dd sq hsq
    rcases hc with hc | ⟨hc, hd⟩
    · exact squash_restricted_le cfg dd _ _ _ _ _ _ hc this
    · exact squash_relaxed_le cfg dd _ _ _ _ _ _ hc hd this


/-! ## the call log: at most one `for_each_in_domain` per expanded position -/

def isDomain : Call S → Bool
  | .domain _ _ => true
  | _ => false

def isNextVar : Call S → Bool
  | .nextVar _ _ _ => true
  | _ => false

/-- number of `for_each_in_domain` calls in a log -/
def domCount (log : List (Call S)) : Nat := log.countP isDomain

/-- `lg'` extends `lg` (newest first) by calls none of which is `next_variable` and at most `k` of which are
    `for_each_in_domain` -/
def Grows (k : Nat) (lg lg' : List (Call S)) : Prop :=
  ∃ ext, lg' = ext ++ lg ∧ (∀ c ∈ ext, isNextVar c = false) ∧ domCount ext ≤ k

theorem Grows.refl (lg : List (Call S)) : Grows 0 lg lg :=
  ⟨[], rfl, (fun c hc => by cases hc), Nat.le_refl _⟩

theorem Grows.trans {a b : Nat} {l1 l2 l3 : List (Call S)} (h1 : Grows a l1 l2) (h2 : Grows b l2 l3) :
    Grows (a + b) l1 l3 := by
  obtain ⟨e1, rfl, n1, d1⟩ := h1
  obtain ⟨e2, rfl, n2, d2⟩ := h2
  refine ⟨e2 ++ e1, by simp, fun c hc => ?_, ?_⟩
  · rcases List.mem_append.mp hc with h | h
    · exact n2 c h
    · exact n1 c h
  · unfold domCount at *
    rw [List.countP_append]
    omega

theorem Grows.mono {a b : Nat} {l1 l2 : List (Call S)} (h : Grows a l1 l2) (hab : a ≤ b) : Grows b l1 l2 := by
  obtain ⟨e, he, n, d⟩ := h
  exact ⟨e, he, n, Nat.le_trans d hab⟩

theorem Grows.cons_other {lg : List (Call S)} (c : Call S) (h1 : isNextVar c = false) (h2 : isDomain c = false) :
    Grows 0 lg (c :: lg) := by
  refine ⟨[c], rfl, fun c' hc' => ?_, ?_⟩
  · simp only [List.mem_singleton] at hc'; subst hc'; exact h1
  · simp [domCount, h2]

theorem Grows.cons_domain {lg : List (Call S)} (v : Nat) (s : S) : Grows 1 lg (Call.domain v s :: lg) := by
  refine ⟨[Call.domain v s], rfl, fun c' hc' => ?_, ?_⟩
  · simp only [List.mem_singleton] at hc'; subst hc'; rfl
  · simp [domCount, List.countP_cons, isDomain]

theorem Grows.domCount_le {k : Nat} {lg lg' : List (Call S)} (h : Grows k lg lg') : domCount lg' ≤ domCount lg + k := by
  obtain ⟨e, rfl, _, d⟩ := h
  unfold domCount at *
  rw [List.countP_append]
  omega

theorem branchAll_grows (cfg : Cfg S K) (var lidx p : Nat) (n' : Node S) (ds : List Int)
    (acc : List (Node S) × List (Call S)) : Grows 0 acc.2 (Cover.branchAll cfg var lidx p n' ds acc).2 := by
  induction ds generalizing acc with
  | nil => exact Grows.refl _
  | cons d ds ih =>
    obtain ⟨nx, lg⟩ := acc
    rw [Cover.branchAll_cons]
    have h1 : Grows 0 lg (Call.trans n'.state ⟨var, d⟩ :: lg) := Grows.cons_other _ rfl rfl
    have h2 : Grows 0 (Call.trans n'.state ⟨var, d⟩ :: lg)
        (Call.cost n'.state (cfg.P.trans n'.state ⟨var, d⟩) ⟨var, d⟩ :: Call.trans n'.state ⟨var, d⟩ :: lg) :=
      Grows.cons_other _ rfl rfl
    exact (h1.trans h2).trans (ih (branchOn cfg n' lidx p ⟨var, d⟩ nx,
      Call.cost n'.state (cfg.P.trans n'.state ⟨var, d⟩) ⟨var, d⟩ :: Call.trans n'.state ⟨var, d⟩ :: lg))

/-- each `expandOne` adds at most one `Call.domain` -/
theorem expandOne_grows (cfg : Cfg S K) (var lidx : Nat) (acc : List (Node S) × List (Node S) × List (Call S)) (p : Nat) :
    Grows 1 acc.2.2 (expandOne cfg var lidx acc p).2.2 := by
  obtain ⟨ly, nx, lg⟩ := acc
  cases h : ly[p]? with
  | none => rw [Cover.expandOne_none _ _ _ _ _ _ _ h]; exact (Grows.refl _).mono (by omega)
  | some n =>
    rw [Cover.expandOne_some _ _ _ _ _ _ _ n h]
    split
    · have h1 : Grows 0 lg (Call.rub n.state :: lg) := Grows.cons_other _ rfl rfl
      have h2 : Grows 1 (Call.rub n.state :: lg) (Call.domain var n.state :: Call.rub n.state :: lg) :=
        Grows.cons_domain var n.state
      exact (h1.trans h2).trans (branchAll_grows cfg var lidx p { n with rub := cfg.R.rub n.state }
        (cfg.P.domain var n.state) (nx, Call.domain var n.state :: Call.rub n.state :: lg))
    · exact (Grows.cons_other (lg := lg) (Call.rub n.state) rfl rfl).mono (by omega)

theorem fold_grows (cfg : Cfg S K) (var lidx : Nat) (cur : List Nat) (acc : List (Node S) × List (Node S) × List (Call S)) :
    Grows cur.length acc.2.2 (cur.foldl (expandOne cfg var lidx) acc).2.2 := by
  induction cur generalizing acc with
  | nil => exact Grows.refl _
  | cons p ps ih =>
    rw [List.foldl_cons, List.length_cons]
    exact ((expandOne_grows cfg var lidx acc p).trans (ih _)).mono (by omega)

/-- the expansion of a layer only prepends calls, none of them `next_variable`, at most `cur.length` of them
    `for_each_in_domain` -/
theorem expandAll_grows (cfg : Cfg S K) (var lidx : Nat) (layer : List (Node S)) (cur : List Nat) (log : List (Call S)) :
    Grows cur.length log (expandAll cfg var lidx layer cur log).2.2 :=
  fold_grows cfg var lidx cur (layer, [], log)

/-- **`expandAll_domain_calls_le`** -/
theorem expandAll_domain_calls_le (cfg : Cfg S K) (var lidx : Nat) (layer : List (Node S)) (cur : List Nat)
    (log : List (Call S)) :
    domCount (expandAll cfg var lidx layer cur log).2.2 ≤ domCount log + cur.length :=
  (expandAll_grows cfg var lidx layer cur log).domCount_le

/-! ### `_relax` logs only `merge` / `relax` calls -/

theorem redirStep_grows (cfg : Cfg S K) (layers : List (List (Node S))) (merged : S) (mpos : Nat) (dropN : Node S)
    (acc : List (Node S) × List (Call S)) (e : Arc) :
    Grows 0 acc.2 (Cover.redirStep cfg layers merged mpos dropN acc e).2 := by
  unfold Cover.redirStep
  split
  · exact Grows.cons_other _ rfl rfl
  · exact Grows.refl _

theorem inner_grows (cfg : Cfg S K) (layers : List (List (Node S))) (merged : S) (mpos : Nat) (dropN : Node S)
    (es : List Arc) (acc : List (Node S) × List (Call S)) :
    Grows 0 acc.2 (es.foldl (Cover.redirStep cfg layers merged mpos dropN) acc).2 := by
  induction es generalizing acc with
  | nil => exact Grows.refl _
  | cons e es ih =>
    rw [List.foldl_cons]
    exact (redirStep_grows cfg layers merged mpos dropN acc e).trans (ih _)

theorem dropStep_grows (cfg : Cfg S K) (layers : List (List (Node S))) (merged : S) (mpos : Nat)
    (acc : List (Node S) × List (Call S)) (p : Nat) :
    Grows 0 acc.2 (Cover.dropStep cfg layers merged mpos acc p).2 := by
  unfold Cover.dropStep
  split
  · exact Grows.refl _
  · exact inner_grows cfg layers merged mpos _ _ _

theorem outer_grows (cfg : Cfg S K) (layers : List (List (Node S))) (merged : S) (mpos : Nat)
    (ps : List Nat) (acc : List (Node S) × List (Call S)) :
    Grows 0 acc.2 (ps.foldl (Cover.dropStep cfg layers merged mpos) acc).2 := by
  induction ps generalizing acc with
  | nil => exact Grows.refl _
  | cons p ps ih =>
    rw [List.foldl_cons]
    exact (dropStep_grows cfg layers merged mpos acc p).trans (ih _)

/-- the log produced by `_relax`: the `merge` call, then the redirections -/
theorem relaxLayer_log (cfg : Cfg S K) (layers : List (List (Node S))) (layer : List (Node S)) (cur : List Nat)
    (log : List (Call S)) :
    ∃ mpos ly2, (relaxLayer cfg layers layer cur log).2.2 =
      ((Cover.restOf cfg layer cur).foldl (Cover.dropStep cfg layers (Cover.mergedOf cfg layer cur) mpos)
        (ly2, Call.merge (Cover.restStatesOf cfg layer cur) (Cover.mergedOf cfg layer cur) :: log)).2 := by
  unfold relaxLayer
  dsimp only
  generalize List.find? _ (List.take (cfg.width - 1) (sortSquash cfg layer cur)) = recycled
  cases recycled with
  | none => exact ⟨_, _, rfl⟩
  | some mp => exact ⟨_, _, rfl⟩

theorem relaxLayer_grows (cfg : Cfg S K) (layers : List (List (Node S))) (layer : List (Node S)) (cur : List Nat)
    (log : List (Call S)) : Grows 0 log (relaxLayer cfg layers layer cur log).2.2 := by
  obtain ⟨mpos, ly2, h⟩ := relaxLayer_log cfg layers layer cur log
  rw [h]
  have h1 : Grows 0 log (Call.merge (Cover.restStatesOf cfg layer cur) (Cover.mergedOf cfg layer cur) :: log) :=
    Grows.cons_other _ rfl rfl
  exact h1.trans (outer_grows cfg layers _ mpos _
    (ly2, Call.merge (Cover.restStatesOf cfg layer cur) (Cover.mergedOf cfg layer cur) :: log))

theorem squash_grows (cfg : Cfg S K) (dd : DD S K) (layer : List (Node S)) (cur : List Nat)
    (sq : List (Node S) × List Nat × List (Call S) × Option Nat)
    (h : squash cfg dd layer cur = some sq) : Grows 0 dd.log sq.2.2.1 := by
  unfold squash at h
  dsimp only at h
  split at h
  · cases h
  · split at h
    · cases h
    · split at h
      · injection h with h; subst h; exact Grows.refl _
      · split at h
        · injection h with h; subst h; exact relaxLayer_grows cfg dd.layers layer cur dd.log
        · injection h with h; subst h; exact Grows.refl _


/-! ## whole compilation: the per-layer counts `Result.expanded` -/

/-- the step of the fold by which `finalize` computes `Result.expanded` from the chronological log -/
def expStep (acc : List Nat) : Call S → List Nat
  | .nextVar _ _ _ => 0 :: acc
  | .domain _ _ => (match acc with | x :: r => (x + 1) :: r | [] => [1])
  | _ => acc

/-- number of `for_each_in_domain` calls per layer, newest layer first (`log` is newest first) -/
def expandedRev (log : List (Call S)) : List Nat := log.reverse.foldl expStep []

theorem finalize_expanded (cfg : Cfg S K) (b : Built S K) (e : Bool) :
    (finalize cfg b e).1.expanded = (expandedRev b.dd.log).reverse := rfl

theorem expandedRev_nil : expandedRev ([] : List (Call S)) = [] := rfl

theorem expandedRev_cons (c : Call S) (log : List (Call S)) :
    expandedRev (c :: log) = expStep (expandedRev log) c := by
  simp [expandedRev, List.foldl_append]

/-- calls that are neither `next_variable` nor `for_each_in_domain` leave the counts alone; a
    `for_each_in_domain` call increments the count of the layer in progress -/
theorem expandedRev_grows {k : Nat} {lg lg' : List (Call S)} (h : Grows k lg lg') {x : Nat} {r : List Nat}
    (hx : expandedRev lg = x :: r) : ∃ d, d ≤ k ∧ expandedRev lg' = (x + d) :: r := by
  obtain ⟨ext, rfl, hn, hd⟩ := h
  induction ext generalizing k with
  | nil => exact ⟨0, Nat.zero_le _, by simpa using hx⟩
  | cons c e ih =>
    obtain ⟨d, hdk, he⟩ := ih (k := domCount e) (fun c' hc' => hn c' (List.mem_cons_of_mem _ hc')) (Nat.le_refl _)
    have hc := hn c List.mem_cons_self
    rw [List.cons_append, expandedRev_cons, he]
    unfold domCount at hd hdk
    rw [List.countP_cons] at hd
    cases c with
    | nextVar _ _ _ => cases hc
    | domain v s =>
      refine ⟨d + 1, ?_, rfl⟩
      simp only [isDomain, if_true] at hd
      omega
    | trans _ _ => exact ⟨d, by omega, rfl⟩
    | cost _ _ _ => exact ⟨d, by omega, rfl⟩
    | merge _ _ => exact ⟨d, by omega, rfl⟩
    | relax _ _ _ _ _ => exact ⟨d, by omega, rfl⟩
    | rub _ => exact ⟨d, by omega, rfl⟩
    | impacted _ _ => exact ⟨d, by omega, rfl⟩

/-- the layers C13 speaks about: all of them in a restricted compilation, those from index 2 on in a relaxed one -/
def Bounded (cfg : Cfg S K) (i : Nat) : Prop := cfg.ctype = .restricted ∨ (cfg.ctype = .relaxed ∧ 2 ≤ i)

/-- every count (newest layer first) of a layer C13 speaks about is at most the width -/
def WOk (cfg : Cfg S K) : List Nat → Prop
  | [] => True
  | x :: r => (Bounded cfg r.length → x ≤ cfg.width) ∧ WOk cfg r

theorem WOk_index (cfg : Cfg S K) (acc : List Nat) (h : WOk cfg acc) (i x : Nat)
    (hi : acc.reverse[i]? = some x) (hb : Bounded cfg i) : x ≤ cfg.width := by
  induction acc with
  | nil => simp at hi
  | cons y r ih =>
    rw [List.reverse_cons] at hi
    by_cases hlt : i < r.length
    · rw [List.getElem?_append_left (by simpa using hlt)] at hi
      exact ih h.2 hi
    · rw [List.getElem?_append_right (by simpa using hlt)] at hi
      simp only [List.length_reverse] at hi
      have h0 : i - r.length = 0 := by
        rcases Nat.eq_zero_or_pos (i - r.length) with h0 | h0
        · exact h0
        · rw [List.getElem?_eq_none (by simp only [List.length_singleton]; omega)] at hi; cases hi
      rw [h0] at hi
      simp only [List.getElem?_cons_zero, Option.some.injEq] at hi
      subst hi
      have : i = r.length := by omega
      subst this
      exact h.1 hb

/-- one layer step only prepends calls to the log, none of them `next_variable`, and the number of
    `for_each_in_domain` calls among them is bounded by the width for the layers C13 speaks about -/
theorem stepLayer_log (cfg : Cfg S K) (dd dd' : DD S K) (var : Nat) (oc : Outcome)
    (h : stepLayer cfg dd var = (some dd', oc)) :
    dd'.layers.length = dd.layers.length + 1 ∧
    ∃ k, Grows k dd.log dd'.log ∧ (Bounded cfg dd.layers.length → k ≤ cfg.width) := by
  rw [stepLayer_eq] at h
  split at h
  · injection h with h _
    injection h with h
    subst h
    exact ⟨by simp, 0, Grows.refl _, fun _ => Nat.zero_le _⟩
  · cases hsq : squashOf cfg dd with
    | none => rw [hsq] at h; cases h
    | some sq =>
      rw [hsq] at h
      dsimp only at h
      injection h with h _
      injection h with h
      subst h
      refine ⟨by simp, sq.2.1.length, ?_, fun hb => ?_⟩
      · have h1 := squash_grows cfg dd _ _ _ (squashOf_elim cfg dd sq hsq)
        exact (h1.trans (expandAll_grows cfg var dd.layers.length sq.1 sq.2.1 sq.2.2.1)).mono (by omega)
      · apply curOf_le_width cfg dd sq.2.1 (by simp [curOf, hsq])
        rcases hb with hb | ⟨hb, hi⟩
        · exact Or.inl hb
        · exact Or.inr ⟨hb, by omega⟩

/-- invariant of the compilation loop -/
structure LInv (cfg : Cfg S K) (dd : DD S K) : Prop where
  len : (expandedRev dd.log).length = dd.layers.length
  ok : WOk cfg (expandedRev dd.log)

theorem stepLayer_linv (cfg : Cfg S K) (dd dd2 dd' : DD S K) (var : Nat) (oc : Outcome)
    (dp : Nat) (sts : List S) (ans : Option Nat) (hI : LInv cfg dd)
    (h : stepLayer cfg dd2 var = (some dd', oc))
    (hl : dd2.layers = dd.layers) (hlog : dd2.log = Call.nextVar dp sts ans :: dd.log) : LInv cfg dd' := by
  obtain ⟨hlen, k, hg, hk⟩ := stepLayer_log cfg dd2 dd' var oc h
  have hx : expandedRev dd2.log = 0 :: expandedRev dd.log := by rw [hlog, expandedRev_cons]; rfl
  obtain ⟨d, hdk, he⟩ := expandedRev_grows hg hx
  constructor
  · rw [he, hlen, hl, List.length_cons, hI.len]
  · rw [he]
    refine ⟨fun hb => ?_, hI.ok⟩
    rw [hI.len, ← hl] at hb
    have := hk hb
    omega

theorem buildLoop_wok (cfg : Cfg S K) (stopAt : Option Nat) :
    ∀ (fuel : Nat) (dd : DD S K), LInv cfg dd → WOk cfg (expandedRev (buildLoop cfg stopAt fuel dd).1.log) := by
  intro fuel
  induction fuel with
  | zero => intro dd hI; unfold buildLoop; exact hI.ok
  | succ fuel ih =>
    intro dd hI
    have h1 : ∀ ans, WOk cfg (expandedRev (Call.nextVar dd.depth (dd.next.map (·.state)) ans :: dd.log)) := by
      intro ans
      rw [expandedRev_cons]
      exact ⟨fun _ => Nat.zero_le _, hI.ok⟩
    unfold buildLoop
    dsimp only
    split
    · exact h1 _
    · next var hnv =>
      split
      all_goals
        split
        · exact h1 _
        · split
          · exact h1 _
          · next dd' hst => exact (stepLayer_linv cfg dd _ dd' var _ _ _ _ hI hst rfl rfl).ok
          · next dd' hst => exact (stepLayer_linv cfg dd _ dd' var _ _ _ _ hI hst rfl rfl).ok
          · next dd' hst => exact ih dd' (stepLayer_linv cfg dd _ dd' var _ _ _ _ hI hst rfl rfl)

theorem initDD_linv (cfg : Cfg S K) (cache : Cache S) (store : DomStore S K) (polls : Nat) :
    LInv cfg (initDD cfg cache store polls) :=
  ⟨rfl, trivial⟩

/-- **C13, sentence 1, on the observable of a whole compilation**: in the per-layer counts of
    `for_each_in_domain` calls reported by `compile` (`Result.expanded`, the quantity the correspondence check compares
    with the implementation), every layer of a restricted compilation and every layer of index ≥ 2 of a relaxed
    compilation counts at most `width` calls — for both admissible results -/
theorem compile_expanded_le_width (cfg : Cfg S K) (cache : Cache S) (store : DomStore S K) (polls : Nat)
    (stopAt : Option Nat) (i x : Nat) (hb : Bounded cfg i) :
    ((compile cfg cache store polls stopAt).2.1.expanded[i]? = some x → x ≤ cfg.width) ∧
    (∀ r2, (compile cfg cache store polls stopAt).2.2.1 = some r2 → r2.expanded[i]? = some x → x ≤ cfg.width) := by
  have hw := buildLoop_wok cfg stopAt (cfg.P.nbVars + 2) _ (initDD_linv cfg cache store polls)
  unfold compile
  generalize buildLoop cfg stopAt (cfg.P.nbVars + 2) (initDD cfg cache store polls) = bl at hw ⊢
  obtain ⟨dd, oc⟩ := bl
  dsimp only at hw ⊢
  have key : ∀ e, (finalize cfg (finalizeLayers dd) e).1.expanded[i]? = some x → x ≤ cfg.width := by
    intro e he
    rw [finalize_expanded] at he
    exact WOk_index cfg _ hw i x he hb
  cases oc with
  | ok =>
    dsimp only
    refine ⟨key _, fun r2 h2 => ?_⟩
    split at h2
    · injection h2 with h2; subst h2; exact key _
    · cases h2
  | cutoff =>
    dsimp only
    exact ⟨fun h => by simp at h, fun r2 h2 => by cases h2⟩
  | crash =>
    dsimp only
    exact ⟨fun h => by simp at h, fun r2 h2 => by cases h2⟩

end Ddo.Width
