import DdoModel.Dominance
/-! Meaning of `partial_cmp` / `cmp` / the `retain` pass in terms of the componentwise order. -/
set_option linter.unusedSectionVars false
namespace Ddo
variable {S K : Type}

/-- pointwise `≤` on lists (compared up to the shorter length; equal lengths in all uses) -/
def leB : List Int → List Int → Bool
  | a :: as, b :: bs => decide (a ≤ b) && leB as bs
  | _, _ => true

theorem leB_refl (a : List Int) : leB a a = true := by
  induction a with
  | nil => rfl
  | cons x xs ih => simp [leB, ih]

theorem leB_trans {a b c : List Int} (hab : a.length = b.length) (h1 : leB a b = true) (h2 : leB b c = true) :
    leB a c = true := by
  induction a generalizing b c with
  | nil => cases c <;> simp [leB]
  | cons x xs ih =>
    cases b with
    | nil => simp at hab
    | cons y ys =>
      cases c with
      | nil => simp [leB]
      | cons z zs =>
        simp only [leB, Bool.and_eq_true, decide_eq_true_eq, List.length_cons, Nat.add_right_cancel_iff] at *
        exact ⟨by omega, ih hab h1.2 h2.2⟩

theorem leB_antisymm {a b : List Int} (hab : a.length = b.length) (h1 : leB a b = true) (h2 : leB b a = true) : a = b := by
  induction a generalizing b with
  | nil => cases b with | nil => rfl | cons => simp at hab
  | cons x xs ih =>
    cases b with
    | nil => simp at hab
    | cons y ys =>
      simp only [leB, Bool.and_eq_true, decide_eq_true_eq, List.length_cons, Nat.add_right_cancel_iff] at *
      rw [ih hab h1.2 h2.2]; congr 1; omega

theorem icompare_lt {a b : Int} (h : a < b) : icompare a b = .lt := by simp [icompare, h]
theorem icompare_eq {a b : Int} (h : a = b) : icompare a b = .eq := by simp [icompare, h]
theorem icompare_gt {a b : Int} (h : b < a) : icompare a b = .gt := by
  have h1 : ¬ a < b := by omega
  have h2 : ¬ a = b := by omega
  simp [icompare, h1, h2]

theorem coordLoop_lt_char (as bs : List Int) (h : as.length = bs.length) :
    coordLoop .lt as bs = if leB as bs then some .lt else none := by
  induction as generalizing bs with
  | nil => cases bs <;> simp [coordLoop, leB]
  | cons a as ih =>
    cases bs with
    | nil => simp at h
    | cons b bs =>
      simp only [List.length_cons, Nat.add_right_cancel_iff] at h
      rcases Int.lt_trichotomy a b with hab | hab | hab
      · have : a ≤ b := by omega
        simp only [coordLoop, icompare_lt hab, leB, this, decide_true, Bool.true_and]; exact ih bs h
      · have : a ≤ b := by omega
        simp only [coordLoop, icompare_eq hab, leB, this, decide_true, Bool.true_and]; exact ih bs h
      · have : ¬ a ≤ b := by omega
        simp [coordLoop, icompare_gt hab, leB, this]

theorem coordLoop_gt_char (as bs : List Int) (h : as.length = bs.length) :
    coordLoop .gt as bs = if leB bs as then some .gt else none := by
  induction as generalizing bs with
  | nil => cases bs <;> simp [coordLoop, leB]
  | cons a as ih =>
    cases bs with
    | nil => simp at h
    | cons b bs =>
      simp only [List.length_cons, Nat.add_right_cancel_iff] at h
      rcases Int.lt_trichotomy a b with hab | hab | hab
      · have : ¬ b ≤ a := by omega
        simp [coordLoop, icompare_lt hab, leB, this]
      · have : b ≤ a := by omega
        simp only [coordLoop, icompare_eq hab, leB, this, decide_true, Bool.true_and]; exact ih bs h
      · have : b ≤ a := by omega
        simp only [coordLoop, icompare_gt hab, leB, this, decide_true, Bool.true_and]; exact ih bs h

/-- the coordinate loop started at `Equal` decides the componentwise order -/
theorem coordLoop_eq_char (as bs : List Int) (h : as.length = bs.length) :
    coordLoop .eq as bs =
      if leB as bs then (if leB bs as then some .eq else some .lt)
      else if leB bs as then some .gt else none := by
  induction as generalizing bs with
  | nil => cases bs <;> simp [coordLoop, leB]
  | cons a as ih =>
    cases bs with
    | nil => simp at h
    | cons b bs =>
      simp only [List.length_cons, Nat.add_right_cancel_iff] at h
      rcases Int.lt_trichotomy a b with hab | hab | hab
      · have h1 : a ≤ b := by omega
        have h2 : ¬ b ≤ a := by omega
        simp only [coordLoop, icompare_lt hab, leB, h1, h2, decide_true, decide_false, Bool.true_and, Bool.false_and]
        rw [coordLoop_lt_char as bs h]; simp
      · have h1 : a ≤ b := by omega
        have h2 : b ≤ a := by omega
        simp only [coordLoop, icompare_eq hab, leB, h1, h2, decide_true, Bool.true_and]
        exact ih bs h
      · have h1 : ¬ a ≤ b := by omega
        have h2 : b ≤ a := by omega
        simp only [coordLoop, icompare_gt hab, leB, h1, h2, decide_true, decide_false, Bool.true_and, Bool.false_and]
        rw [coordLoop_gt_char as bs h]; simp

/-- an entry as the order sees it: coordinate vector and value -/
structure Ent where
  coords : List Int
  value : Int

/-- `a` is at least as good as `b` on every coordinate (and on the value when it is used) -/
def geEnt (uv : Bool) (a b : Ent) : Bool := leB b.coords a.coords && (!uv || decide (b.value ≤ a.value))
/-- strict dominance: at least as good everywhere and not the other way round -/
def domEnt (uv : Bool) (a b : Ent) : Bool := geEnt uv a b && !geEnt uv b a

theorem geEnt_refl (uv : Bool) (a : Ent) : geEnt uv a a = true := by simp [geEnt, leB_refl]

theorem geEnt_trans {uv : Bool} {a b c : Ent} (h1l : a.coords.length = b.coords.length) (h2l : b.coords.length = c.coords.length)
    (h1 : geEnt uv a b = true) (h2 : geEnt uv b c = true) : geEnt uv a c = true := by
  simp only [geEnt, Bool.and_eq_true, Bool.or_eq_true, Bool.not_eq_true', decide_eq_true_eq] at *
  refine ⟨leB_trans h2l.symm h2.1 h1.1, ?_⟩
  rcases h1.2 with h | h
  · exact Or.inl h
  · rcases h2.2 with h' | h'
    · exact Or.inl h'
    · exact Or.inr (by omega)

theorem dom_ge_trans {uv : Bool} {a b c : Ent} (h1l : a.coords.length = b.coords.length) (h2l : b.coords.length = c.coords.length)
    (h1 : domEnt uv a b = true) (h2 : geEnt uv b c = true) : domEnt uv a c = true := by
  simp only [domEnt, Bool.and_eq_true, Bool.not_eq_true'] at *
  refine ⟨geEnt_trans h1l h2l h1.1 h2, ?_⟩
  cases hca : geEnt uv c a with
  | false => rfl
  | true => have := geEnt_trans h2l (h1l.trans h2l).symm h2 hca; simp_all

theorem ge_dom_trans {uv : Bool} {a b c : Ent} (h1l : a.coords.length = b.coords.length) (h2l : b.coords.length = c.coords.length)
    (h1 : geEnt uv a b = true) (h2 : domEnt uv b c = true) : domEnt uv a c = true := by
  simp only [domEnt, Bool.and_eq_true, Bool.not_eq_true'] at *
  refine ⟨geEnt_trans h1l h2l h1 h2.1, ?_⟩
  cases hca : geEnt uv c a with
  | false => rfl
  | true => have := geEnt_trans (h1l.trans h2l).symm h1l hca h1; simp_all

theorem domEnt_irrefl (uv : Bool) (a : Ent) : domEnt uv a a = false := by simp [domEnt]

/-- the entry the order sees for state `s` with value `v` (coordinates read with the dimension `n`) -/
def DomRule.ent (D : DomRule S K) (n : Nat) (s : S) (v : Int) : Ent := ⟨D.coordsN n s, v⟩

theorem DomRule.coordsN_len (D : DomRule S K) (n : Nat) (s : S) : (D.coordsN n s).length = n := by
  simp [DomRule.coordsN]

/-- **Meaning of `partial_cmp`** (all four outcomes and the `only_val_diff` flag). -/
theorem DomRule.partialCmp_char (D : DomRule S K) (a : S) (va : Int) (b : S) (vb : Int) :
    let ea := D.ent (D.dims a) a va
    let eb := D.ent (D.dims a) b vb
    D.partialCmp a va b vb =
      if geEnt D.useValue eb ea then
        (if geEnt D.useValue ea eb then some (.eq, false)
         else some (.lt, D.useValue && leB eb.coords ea.coords))
      else if geEnt D.useValue ea eb then some (.gt, D.useValue && leB ea.coords eb.coords)
      else none := by
  intro ea eb
  have hlen : (D.coordsN (D.dims a) a).length = (D.coordsN (D.dims a) b).length := by
    simp [DomRule.coordsN_len]
  simp only [DomRule.partialCmp, coordLoop_eq_char _ _ hlen, geEnt, ea, eb, DomRule.ent]
  cases h1 : leB (D.coordsN (D.dims a) a) (D.coordsN (D.dims a) b) <;>
  cases h2 : leB (D.coordsN (D.dims a) b) (D.coordsN (D.dims a) a) <;>
  cases huv : D.useValue <;>
  simp only [valueStep, if_true, if_false, Bool.true_and, Bool.false_and, Bool.not_true, Bool.not_false,
    Bool.false_or, Bool.true_or, Bool.and_true, Bool.and_false] <;>
  (try rfl) <;>
  (rcases Int.lt_trichotomy va vb with hv | hv | hv
   · have e1 : va ≤ vb := by omega
     have e2 : ¬ vb ≤ va := by omega
     simp [icompare_lt hv, e1, e2]
   · have e1 : va ≤ vb := by omega
     have e2 : vb ≤ va := by omega
     simp [icompare_eq hv, e1, e2]
   · have e1 : ¬ va ≤ vb := by omega
     have e2 : vb ≤ va := by omega
     simp [icompare_gt hv, e1, e2])

end Ddo

namespace Ddo
variable {S K : Type}

/-- what the `retain` pass keeps: dominators of the query and entries incomparable with it -/
def keepPred (uv : Bool) (q o : Ent) : Bool := domEnt uv o q || !geEnt uv q o

section retain
variable (D : DomRule S K) (s : S) (v : Int)

/-- the entry of a stored pair, read with the dimension of the query state (as `partial_cmp` does) -/
def DomRule.entQ (o : S × Int) : Ent := D.ent (D.dims s) o.1 o.2

theorem DomRule.retain_char (b : Bucket S) :
    (D.retain s v b).1 = b.any (fun o => domEnt D.useValue (D.entQ s o) (D.entQ s (s, v))) ∧
    (D.retain s v b).2.2 = b.filter (fun o => keepPred D.useValue (D.entQ s (s, v)) (D.entQ s o)) := by
  induction b with
  | nil => simp [DomRule.retain]
  | cons o r ih =>
    have hc := D.partialCmp_char s v o.1 o.2
    simp only at hc
    simp only [DomRule.retain, List.any_cons, List.filter_cons, keepPred, domEnt, DomRule.entQ] at ih ⊢
    rw [hc]
    cases h1 : geEnt D.useValue (D.ent (D.dims s) o.1 o.2) (D.ent (D.dims s) s v) <;>
    cases h2 : geEnt D.useValue (D.ent (D.dims s) s v) (D.ent (D.dims s) o.1 o.2) <;>
    simp [ih.1, ih.2]

/-- every threshold term of a dominator is sound: the query value is below it, and any value
    below it is still dominated by the same entry -/
theorem DomRule.retain_thr (b : Bucket S) (hv : InI v) (hvals : ∀ o ∈ b, InI o.2) :
    ∃ t, (D.retain s v b).2.1 = some t ∧ v ≤ t ∧ t ≤ iMax ∧
      ((D.retain s v b).1 = true → D.useValue = true →
        ∃ o ∈ b, ∀ v', v' ≤ t → domEnt true (D.entQ s o) (D.entQ s (s, v')) = true) := by
  induction b with
  | nil => exact ⟨iMax, rfl, hv.2, Int.le_refl _, by simp [DomRule.retain]⟩
  | cons o r ih =>
    obtain ⟨t, ht, hvt, htm, hsound⟩ := ih (fun o' ho' => hvals o' (List.mem_cons_of_mem _ ho'))
    have hc := D.partialCmp_char s v o.1 o.2
    simp only at hc
    have hchar := (D.retain_char s v r).1
    simp only [DomRule.retain]
    rw [hc]
    cases h1 : geEnt D.useValue (D.ent (D.dims s) o.1 o.2) (D.ent (D.dims s) s v) <;>
    cases h2 : geEnt D.useValue (D.ent (D.dims s) s v) (D.ent (D.dims s) o.1 o.2)
    · -- incomparable: kept, nothing changes
      simp only [Bool.false_eq_true, if_false]
      refine ⟨t, ht, hvt, htm, fun hd huv => ?_⟩
      obtain ⟨o', ho', h'⟩ := hsound hd huv
      exact ⟨o', List.mem_cons_of_mem _ ho', h'⟩
    · simp only [Bool.false_eq_true, if_false, if_true]
      refine ⟨t, ht, hvt, htm, fun hd huv => ?_⟩
      obtain ⟨o', ho', h'⟩ := hsound hd huv
      exact ⟨o', List.mem_cons_of_mem _ ho', h'⟩
    · -- `o` dominates the query
      simp only [if_true, Bool.false_eq_true, if_false]
      cases huv : D.useValue with
      | false =>
        simp only [Bool.false_and, Bool.false_eq_true, if_false]
        exact ⟨t, ht, hvt, htm, fun _ h => by cases h⟩
      | true =>
        simp only [Bool.true_and, if_true]
        have ho2 : InI o.2 := hvals o List.mem_cons_self
        rw [huv] at h1 h2
        simp only [geEnt, DomRule.ent, Bool.not_true, Bool.false_or, Bool.and_eq_true, decide_eq_true_eq,
          Bool.and_eq_false_iff, decide_eq_false_iff_not] at h1 h2
        simp only [DomRule.ent]
        have hvo : v ≤ o.2 := of_decide_eq_true h1.2
        -- the term
        by_cases hce : leB (D.coordsN (D.dims s) o.1) (D.coordsN (D.dims s) s) = true
        · -- coordinates equal: only the value differs, term = o.value − 1
          have hlt : v < o.2 := by
            rcases h2 with h2 | h2
            · rw [hce] at h2; cases h2
            · have : ¬ o.2 ≤ v := of_decide_eq_false h2
              omega
          have hsat : satSub o.2 1 = o.2 - 1 := by
            unfold satSub; apply clamp_of_in; unfold InI iMin iMax at *; omega
          simp only [ht, thrMin, hce, if_true, hsat]
          refine ⟨min t (o.2 - 1), rfl, by omega, by omega, fun _ _ => ⟨o, List.mem_cons_self, fun v' hv' => ?_⟩⟩
          simp only [domEnt, geEnt, DomRule.entQ, DomRule.ent, Bool.not_true, Bool.false_or, Bool.and_eq_true,
            Bool.not_eq_true', Bool.and_eq_false_iff]
          have e1 : v' ≤ o.2 := by omega
          have e2 : ¬ o.2 ≤ v' := by omega
          exact ⟨⟨h1.1, decide_eq_true e1⟩, Or.inr (decide_eq_false e2)⟩
        · have hce' : leB (D.coordsN (D.dims s) o.1) (D.coordsN (D.dims s) s) = false := by simpa using hce
          simp only [ht, thrMin, hce', Bool.false_eq_true, if_false]
          refine ⟨min t o.2, rfl, by omega, by omega, fun _ _ => ⟨o, List.mem_cons_self, fun v' hv' => ?_⟩⟩
          simp only [domEnt, geEnt, DomRule.entQ, DomRule.ent, Bool.not_true, Bool.false_or, Bool.and_eq_true,
            Bool.not_eq_true', Bool.and_eq_false_iff]
          have e1 : v' ≤ o.2 := by omega
          exact ⟨⟨h1.1, decide_eq_true e1⟩, Or.inl hce'⟩
    · -- equal: dropped
      simp only [if_true]
      refine ⟨t, ht, hvt, htm, fun hd huv => ?_⟩
      obtain ⟨o', ho', h'⟩ := hsound hd huv
      exact ⟨o', List.mem_cons_of_mem _ ho', h'⟩
end retain

end Ddo

namespace Ddo
variable {S K : Type}

/-! ## History level: one bucket (one depth, one key) under a rule of uniform dimension `n` -/
section history
variable (D : DomRule S K) (n : Nat) (hdim : ∀ s, D.dims s = n)

/-- entry of a pair under the uniform dimension -/
def DomRule.entU (o : S × Int) : Ent := D.ent n o.1 o.2

theorem DomRule.entU_len (o : S × Int) : (D.entU n o).coords.length = n := by
  simp [DomRule.entU, DomRule.ent, DomRule.coordsN_len]

theorem DomRule.entQ_eq_entU (hdim : ∀ s, D.dims s = n) (s : S) (o : S × Int) : D.entQ s o = D.entU n o := by
  simp [DomRule.entQ, DomRule.entU, hdim s]

/-- bucket after a history of presented pairs (oldest first), starting from the empty bucket
    (`Entry::Vacant` = `bucketQuery` on the empty vector) -/
def DomRule.bucketAfter : List (S × Int) → Bucket S
  | [] => []
  | q :: hist => (D.bucketQuery q.1 q.2 (DomRule.bucketAfter hist)).1
-- NB: `hist` is given latest first

def Covers (uv : Bool) (ents hist : List Ent) : Prop := ∀ p ∈ hist, ∃ f ∈ ents, geEnt uv f p = true

theorem DomRule.bucketQuery_fst (s : S) (v : Int) (b : Bucket S) :
    (D.bucketQuery s v b).1 =
      if (D.retain s v b).1 then (D.retain s v b).2.2 else (D.retain s v b).2.2 ++ [(s, v)] := by
  simp only [DomRule.bucketQuery]; split <;> rfl

theorem DomRule.bucketQuery_dom (s : S) (v : Int) (b : Bucket S) :
    (D.bucketQuery s v b).2.1 = (D.retain s v b).1 := by
  simp only [DomRule.bucketQuery]; split <;> simp_all

theorem DomRule.bucketQuery_thr (s : S) (v : Int) (b : Bucket S) :
    (D.bucketQuery s v b).2.2 = if (D.retain s v b).1 then (D.retain s v b).2.1 else none := by
  simp only [DomRule.bucketQuery]; split <;> rfl

end history
end Ddo
