import DdoModel.Proofs.CompatThetaX
import DdoModel.Proofs.CompatStore
import DdoModel.Proofs.CompatProcessFreshA
/-! C10e — **`BuiltOkJoint` from the one-step preservation of `TInvJ`** (second, independent attempt).

`StepTInvJ cfg D H B p0 cache O`: one successful layer step with both filters preserves `TInvJ` (given the store invariant `SInv` and
the exactness invariant `MInv`).  From it: `buildLoop_tinvJ` (the loop ends on `DoneJ`), `builtOkJ_of_done`, `init_tinvJ`,
`builtOkJoint_of_step : StepTInvJoint → BuiltOkJoint`. -/
set_option linter.unusedSectionVars false
set_option linter.unusedVariables false
namespace Ddo.C10d
open Ddo Ddo.C01 Ddo.Closed Ddo.C09 Ddo.C10 Ddo.C10c Ddo.Truth Ddo.Theta Ddo.Bounds
variable {S K : Type} [DecidableEq S] [DecidableEq K]

theorem TInvJ.congr {cfg : Cfg S K} {H : Nat → S → EInt} {B : Int} {cache : Cache S} {O : Int} {Live Drop : Nat → Nat → Prop}
    {dd dd' : DD S K} (h : TInvJ cfg H B cache O Live Drop dd) (h1 : dd'.layers = dd.layers) (h2 : dd'.next = dd.next)
    (h3 : dd'.depth = dd.depth) (h4 : dd'.cache = dd.cache) : TInvJ cfg H B cache O Live Drop dd' := by
  obtain ⟨a1, a2, a3, a4, a5, a6, a7, a8, a9, a10, a11, a12, a13, a14, a15, a16⟩ := h
  exact ⟨by rw [h3, h1]; exact a1, by rw [h4]; exact a2, by rw [h1, h2]; exact a3, by rw [h1]; exact a4,
    by rw [h1, h2, h3]; exact a5, by rw [h1]; exact a6, by rw [h1, h2]; exact a7, by rw [h1]; exact a8,
    by rw [h1]; exact a9, by rw [h1]; exact a10, by rw [h1]; exact a11, by rw [h1, h2]; exact a12, by rw [h2]; exact a13,
    by rw [h1, h2]; exact a14, by rw [h1]; exact a15, by rw [h1]; exact a16⟩

/-- **the one-step obligation**: a successful layer step with cache and checker (the layer after both filters, `fdOf`, is
    squashed to `sq` and expanded into `dd'`) preserves the invariant `TInvJ`, for some new classification -/
def StepTInvJ (cfg : Cfg S K) (D : DomRule S K) (H : Nat → S → EInt) (B : Int) (p0 : List Dec) (cache : Cache S) (O : Int) : Prop :=
  ∀ (Live Drop : Nat → Nat → Prop) (dd dd' : DD S K) (var : Nat) (sq : List (Node S) × List Nat × List (Call S) × Option Nat),
    TInvJ cfg H B cache O Live Drop dd → SInv cfg D dd → MInv cfg B p0 dd → dd.next ≠ [] →
    cfg.P.nextVar dd.depth (dd.next.map (·.state)) = some var → dd.layers.length ≤ cfg.P.nbVars →
    squash cfg dd (CacheClosed.fdOf cfg dd).1 (CacheClosed.fdOf cfg dd).2.1 = some sq →
    dd'.layers = dd.layers ++ [(expandAll cfg var dd.layers.length sq.1 sq.2.1 sq.2.2.1).1] →
    dd'.next = (expandAll cfg var dd.layers.length sq.1 sq.2.1 sq.2.2.1).2.1 →
    dd'.depth = dd.depth + 1 → dd'.cache = dd.cache →
    ∃ Live' Drop', TInvJ cfg H B cache O Live' Drop' dd'

/-- `Ddo.Theta.DoneT` with both filters -/
inductive DoneJ (cfg : Cfg S K) (H : Nat → S → EInt) (B : Int) (cache : Cache S) (O : Int) (fin : DD S K) : Prop
  | brk (Live Drop : Nat → Nat → Prop) (dd0 : DD S K) : TInvJ cfg H B cache O Live Drop dd0 → dd0.next = [] →
      dd0.layers.length ≤ cfg.P.nbVars + 1 →
      fin.layers = dd0.layers ++ [[]] → fin.next = [] → fin.lel = dd0.lel → DoneJ cfg H B cache O fin
  | term (Live Drop : Nat → Nat → Prop) : TInvJ cfg H B cache O Live Drop fin →
      cfg.P.nextVar fin.depth (fin.next.map (·.state)) = none → fin.layers.length ≤ cfg.P.nbVars + 1 →
      DoneJ cfg H B cache O fin

theorem buildLoop_tinvJ (cfg : Cfg S K) (D : DomRule S K) (hD : cfg.dom = some D) (hNV : NvBound cfg.P)
    (H : Nat → S → EInt) (B : Int) (hB : NoClamp cfg.P cfg.R cfg.root.value B) (p0 : List Dec) (cache : Cache S) (O : Int)
    (hstep : StepTInvJ cfg D H B p0 cache O) :
    ∀ (fuel : Nat) (dd : DD S K) (Live Drop : Nat → Nat → Prop), TInvJ cfg H B cache O Live Drop dd → SInv cfg D dd →
      MInv cfg B p0 dd → dd.layers.length + fuel ≤ cfg.P.nbVars + 2 → (buildLoop cfg none fuel dd).2 = .ok →
      DoneJ cfg H B cache O (buildLoop cfg none fuel dd).1 := by
  intro fuel
  induction fuel with
  | zero => intro dd Live Drop _ _ _ _ h; simp [buildLoop] at h
  | succ fuel ih =>
    intro dd Live Drop hI hS hM hlen hok
    cases hnv : cfg.P.nextVar dd.depth (dd.next.map (·.state)) with
    | none =>
      rw [CacheClosed.buildLoop_none cfg none fuel dd hnv]
      exact .term Live Drop (hI.congr rfl rfl rfl rfl) hnv (by dsimp only; omega)
    | some var =>
      have hI1 : TInvJ cfg H B cache O Live Drop (tick dd var) := hI.congr rfl rfl rfl rfl
      have hS1 : SInv cfg D (tick dd var) := ⟨hS.store, hS.len⟩
      have hM1 : MInv cfg B p0 (tick dd var) := hM.congr rfl rfl
      have hnv1 : cfg.P.nextVar (tick dd var).depth ((tick dd var).next.map (·.state)) = some var := hnv
      have hdep1 : (tick dd var).depth = cfg.root.depth + (tick dd var).layers.length := hI1.depth
      rw [buildLoop_step cfg fuel dd var hnv] at hok ⊢
      by_cases hne : (tick dd var).next = []
      · rw [Truth.stepLayer_empty cfg _ var hne] at hok ⊢
        exact .brk Live Drop (tick dd var) hI1 hne (by show dd.layers.length ≤ _; omega) rfl hne rfl
      · obtain ⟨f3, f4, f5⟩ := fdOf_sinv_joint cfg D hD hNV B p0 (tick dd var) var hS1 hM1 hdep1 hnv1
        obtain ⟨_, s2⟩ := stepLayer_joint cfg (tick dd var) var hne
        obtain ⟨s1, s2⟩ := s2 f4
        cases hsq : squash cfg (tick dd var) (CacheClosed.fdOf cfg (tick dd var)).1
            (CacheClosed.fdOf cfg (tick dd var)).2.1 with
        | none =>
          rw [s1 hsq] at hok
          cases hok
        | some sq =>
          obtain ⟨dd', hst, hl, hn, hdd, _, _, hca⟩ := s2 sq hsq
          rw [hst] at hok ⊢
          have hlt := nv_depth_lt hNV hnv1
          have hlen1 : (tick dd var).layers.length ≤ cfg.P.nbVars := by omega
          obtain ⟨Live', Drop', hI'⟩ := hstep Live Drop (tick dd var) dd' var sq hI1 hS1 hM1 hne hnv1 hlen1 hsq hl hn hdd hca
          obtain ⟨m1, _, _⟩ := Ddo.stepLayer_inv cfg B p0 hB (tick dd var) var hM1 hdep1 hnv1 (by omega) dd' .ok hst
          refine ih dd' Live' Drop' hI' (stepLayer_sinv_joint cfg D hD hNV B p0 (tick dd var) dd' var .ok hS1 hM1 hdep1 hnv1 hst)
            m1 ?_ hok
          rw [hl, List.length_append, List.length_singleton]
          show dd.layers.length + 1 + fuel ≤ _
          omega

theorem init_tinvJ (cfg : Cfg S K) (H : Nat → S → EInt) (B : Int) (cache : Cache S) (O : Int) (store : DomStore S K) (polls : Nat)
    (hB : NoClamp cfg.P cfg.R cfg.root.value B) :
    TInvJ cfg H B cache O (fun _ _ => False) (fun _ _ => False) (initDD cfg cache store polls) := by
  have hnext : (initDD cfg cache store polls).next =
      [{ state := cfg.root.state, value := cfg.root.value, depth := cfg.root.depth }] := rfl
  have hlay : (initDD cfg cache store polls).layers = [] := rfl
  refine ⟨rfl, rfl, ?_, ?_, ?_, ?_, ?_, ?_, ?_, ?_, ?_, ?_, ?_, ?_, ?_, ?_⟩
  · intro n hn
    rw [hnext, List.mem_singleton] at hn
    subst hn
    have := hB.root
    simp only [hlay, List.length_nil, Cover.Bd, Cover.Within]
    omega
  · intro i ly hi; rw [hlay] at hi; simp at hi
  · intro n hn
    rw [hnext, List.mem_singleton] at hn
    subst hn
    exact ⟨⟨rfl, rfl, rfl, fun a ha => absurd ha List.not_mem_nil, fun _ _ => rfl⟩, rfl, rfl⟩
  · intro i q ly n hi; rw [hlay] at hi; simp at hi
  · intro h; exact absurd hlay h
  · intro i q ly n hi; rw [hlay] at hi; simp at hi
  · intro i q h; exact absurd h id
  · intro l p ly n hi; rw [hlay] at hi; simp at hi
  · intro l p ly ly' n hi; rw [hlay] at hi; simp at hi
  · intro l p ly n _ hi; rw [hlay] at hi; simp at hi
  · intro n hn
    rw [hnext, List.mem_singleton] at hn
    subst hn; rfl
  · intro _; exact ⟨_, hnext, rfl, rfl⟩
  · intro ly hi; rw [hlay] at hi; simp at hi
  · intro h; exact absurd hlay h

theorem builtOkJ_of_done (cfg : Cfg S K) (H : Nat → S → EInt) (B : Int) (cache : Cache S) (O : Int) (fin : DD S K)
    (h : DoneJ cfg H B cache O fin) : ∃ Live Drop dd, BuiltOkJ cfg H B cache O fin Live Drop dd := by
  cases h with
  | brk Live Drop dd0 hI hn0 hlen hL hN hlel =>
    have hlay : (finalizeLayers fin).layers = fin.layers := by
      unfold finalizeLayers; simp only [hN, List.isEmpty_nil, if_true]
    have hs : (finalizeLayers fin).layers = dd0.layers ++ [dd0.next] ∨ ((finalizeLayers fin).layers = dd0.layers ∧ dd0.next = []) := by
      left; rw [hlay, hL, hn0]
    refine ⟨Live, Drop, dd0, hI, view_at hs, view_ofL hs, view_ofN hs, ?_, ?_, fun h => absurd hn0 h, hlen, fun h => absurd hn0 h, hlel,
      fun h => absurd hn0 h, ?_⟩
    · rw [hn0]
      unfold finalizeLayers; simp only [hN, List.isEmpty_nil, if_true]
    · rw [terminals_finalizeLayers, hN, hn0]
    · rw [hlay, hL, List.length_append, List.length_singleton]; exact Nat.le_refl _
  | term Live Drop hI hnone hlen =>
    by_cases hne : fin.next = []
    · have hlay : (finalizeLayers fin).layers = fin.layers := by
        unfold finalizeLayers; simp only [hne, List.isEmpty_nil, if_true]
      have hs : (finalizeLayers fin).layers = fin.layers ++ [fin.next] ∨ ((finalizeLayers fin).layers = fin.layers ∧ fin.next = []) :=
        .inr ⟨hlay, hne⟩
      refine ⟨Live, Drop, fin, hI, view_at hs, view_ofL hs, view_ofN hs, ?_, terminals_finalizeLayers fin, fun _ => hnone, hlen,
        fun h => absurd hne h, rfl, fun _ => rfl, ?_⟩
      · unfold finalizeLayers; simp only [hne, List.isEmpty_nil, if_true]
      · rw [hlay]; omega
    · obtain ⟨h1, h2⟩ := finalizeLayers_nonempty fin hne
      have hs : (finalizeLayers fin).layers = fin.layers ++ [fin.next] ∨ ((finalizeLayers fin).layers = fin.layers ∧ fin.next = []) :=
        .inl h1
      have hemp : fin.next.isEmpty = false := by
        cases hn : fin.next with
        | nil => exact absurd hn hne
        | cons _ _ => rfl
      refine ⟨Live, Drop, fin, hI, view_at hs, view_ofL hs, view_ofN hs, ?_, terminals_finalizeLayers fin, fun _ => hnone, hlen,
        fun _ => ?_, rfl, fun _ => rfl, ?_⟩
      · rw [h2, hemp]; rfl
      · rw [h1, List.length_append, List.length_singleton]
      · rw [h1, List.length_append, List.length_singleton]; omega

/-- **the one-step obligation, for the pseudo-potential of every relaxed compilation with cache and checker** -/
def StepTInvJoint : Prop :=
  ∀ (S K : Type) [DecidableEq S] [DecidableEq K] (dv : DSolverCfg S K) (H : Nat → S → EInt) (B0 B opt : Int) (n : Nat),
    MonoHyp dv H B0 B opt n →
    ∀ (N : SubP S) (lb : Int) (cache : Cache S) (p0 : List Dec), Reach dv.sv.P N.depth N.state N.value p0 →
      StepTInvJ (dv.kdcfg .relaxed N lb) dv.D (gpot dv.D dv.sv.P n opt B) B p0 cache (opt - 1)

theorem builtOkJoint_of_step (h : StepTInvJoint) : BuiltOkJoint := by
  intro S K _ _ dv H B0 B opt n hM N lb cache store p0 hpre
  have hBN : NoClamp dv.sv.P dv.sv.R N.value B := hM.wf.bound.noClamp_at hM.wf.nv hpre.root
  have hdone := buildLoop_tinvJ (dv.kdcfg .relaxed N lb) dv.D rfl hM.wf.nv (gpot dv.D dv.sv.P n opt B) B hBN p0 cache (opt - 1)
    (h S K dv H B0 B opt n hM N lb cache p0 hpre.root) (dv.sv.P.nbVars + 2) (initDD (dv.kdcfg .relaxed N lb) cache store 0) _ _
    (init_tinvJ (dv.kdcfg .relaxed N lb) _ B cache (opt - 1) store 0 hBN) ⟨hpre.sreach, hpre.slen⟩
    (initDD_inv (dv.kdcfg .relaxed N lb) B p0 hBN hpre.root cache store 0)
    (by show 0 + (dv.sv.P.nbVars + 2) ≤ dv.sv.P.nbVars + 2; omega)
    (Ddo.compile_ok (dv.kdcfg .relaxed N lb) cache store 0 none hpre.ok).1
  exact builtOkJ_of_done _ _ _ _ _ _ hdone

end Ddo.C10d

#print axioms Ddo.C10d.builtOkJoint_of_step
