import DdoModel.Props.C09b
import DdoModel.Proofs.CacheClosedCut
import DdoModel.Proofs.CacheClosedInvA
import DdoModel.Proofs.CacheClosedInvB
import DdoModel.Proofs.CacheClosedG2
import DdoModel.Proofs.CacheClosedRestr
/-! C09 (closing the caching solver) — **the whole contract `CompC` from the diagram model**, for the two compilations of
`process_one_node` when they consult a cache (`cfg.useCache = true`, any content):

* `ub_contract_of_model`, `fresh_contract_of_model`, `exactCut_contract_of_model` — the three fields that were only stated
  in `Props/C09b.lean` ("what is not proved in this file"), from `Proofs/CacheClosedCut.lean`;
* `compC_relaxed_of_model` — all eleven fields for the `must` result of a relaxed compilation (`sound` from
  `isSol_relaxed_cached`: the exact-best-path argument `G2` survives `_filter_with_cache`; `good`, `sub`, `deeper`, `rng` from
  C08 (i)/(ii), which never depended on the cache);
* `compC_restricted_of_model` — a restricted compilation that is **exact** (nothing was dropped, `lel` unset) is, step by
  step, the relaxed compilation of the same input (`restricted_exact_as_relaxed`): same thresholds, same exact value, empty
  cut-set; so its contract is the one of the relaxed compilation.  A restricted compilation that is not exact records
  nothing (`restricted_inexact_no_ups`) and only has to be sound (`Ddo.C01.restricted_sound_within`). -/
set_option linter.unusedSectionVars false
set_option linter.unusedVariables false
namespace Ddo.C09
open Ddo Ddo.Theta Ddo.CacheClosed Ddo.CacheClosedB
variable {S K : Type} [DecidableEq S] [DecidableEq K]

/-- everything known about the diagram built by a relaxed compilation that ends normally, `KFacts` included -/
theorem compile_ctx_k (cfg : Cfg S K) (H : Nat → S → EInt) (B : Int) (p0 : List Dec) (cache : Cache S)
    (store : DomStore S K) (polls : Nat) (stopAt : Option Nat)
    (hrel : cfg.ctype = .relaxed) (hdom : cfg.dom = none) (hW : 1 ≤ cfg.width)
    (hP : Potential cfg.P H) (hM : MergeOk cfg.R H) (hAM : Cover.AttMerge cfg.P cfg.R H)
    (hB : NoClamp cfg.P cfg.R cfg.root.value B)
    (hroot : Reach cfg.P cfg.root.depth cfg.root.state cfg.root.value p0)
    (hok : (compile cfg cache store polls stopAt).1 = .ok) (r : Result S)
    (hr : r = (compile cfg cache store polls stopAt).2.1 ∨ (compile cfg cache store polls stopAt).2.2.1 = some r) :
    ∃ (fin : DD S K) (Live : Nat → Nat → Prop) (dd : DD S K) (e : Bool), Ctx cfg H B cache p0 fin Live dd ∧
      KFacts cfg cache (finalizeLayers fin).layers ∧ r = (finalize cfg (finalizeLayers fin) e).1 := by
  have hy : HypT cfg H B := ⟨hrel, hdom, hW, hP, hM, hAM, hB⟩
  obtain ⟨_, e, he⟩ := compile_results cfg cache store polls stopAt hok r hr
  have hbl := (Ddo.compile_ok cfg cache store polls stopAt hok).1
  have hdone := compile_doneT cfg H B hy cache store polls stopAt hok
  have hwf := compile_wf cfg B p0 hB hroot cache store polls stopAt
  have hinv2 := (buildLoop_inv2 cfg B p0 hB stopAt (cfg.P.nbVars + 2) (initDD cfg cache store polls)
    (initDD_inv cfg B p0 hB hroot cache store polls) (initDD_inv2 cfg cache store polls) rfl
    (by simp only [initDD, List.length_nil]; omega)).2
  have hk : KFacts cfg cache (finalizeLayers (buildLoop cfg stopAt (cfg.P.nbVars + 2) (initDD cfg cache store polls)).1).layers :=
    ⟨built_unmarked cfg cache store polls stopAt hrel hdom hW hbl, built_arcs_live cfg cache store polls stopAt hrel hdom hW hbl,
     built_distinct cfg cache store polls stopAt hrel hdom hW hbl, built_filtered cfg cache store polls stopAt hrel hdom hW hbl⟩
  generalize (buildLoop cfg stopAt (cfg.P.nbVars + 2) (initDD cfg cache store polls)).1 = fin at hdone hwf hinv2 he hk
  obtain ⟨Live, dd, hbo⟩ := builtOk_of_done cfg H B cache fin hdone
  exact ⟨fin, Live, dd, e, ⟨hy, hbo, hwf, hinv2⟩, hk, he⟩

/-- **the field `ub` of `CompC`** for a relaxed compilation of the diagram model that consults `cache`: the bound of a
    sub-problem of the cut-set dominates its potential, unless the cache cut the diagram strictly below it -/
theorem ub_contract_of_model (cfg : Cfg S K) (H : Nat → S → EInt) (B : Int) (p0 : List Dec) (cache : Cache S)
    (store : DomStore S K) (polls : Nat) (stopAt : Option Nat)
    (hrel : cfg.ctype = .relaxed) (hdom : cfg.dom = none) (hW : 1 ≤ cfg.width)
    (hP : Potential cfg.P H) (hR : RubOk cfg.R H) (hM : MergeOk cfg.R H) (hAM : Cover.AttMerge cfg.P cfg.R H)
    (hB : NoClamp cfg.P cfg.R cfg.root.value B) (hlb : cfg.lb < iMax)
    (hroot : Reach cfg.P cfg.root.depth cfg.root.state cfg.root.value p0) (hk0 : cfg.root.depth ≤ cfg.P.nbVars)
    (hok : (compile cfg cache store polls stopAt).1 = .ok) (r : Result S)
    (hr : r = (compile cfg cache store polls stopAt).2.1 ∨ (compile cfg cache store polls stopAt).2.2.1 = some r) :
    ∀ c ∈ (C01.toOut r).cutset, ∀ y, optOf H c = some y → y > bkOf cfg.lb r.bestExactValue →
      y ≤ c.ub ∨ CacheCov H (RgB B) (viewOf cache) c.depth y := by
  intro c hc y hy hgt
  have hdeep := C08.cutset_progress cfg B p0 cache store polls stopAt hrel hroot hB hok r hr c hc
  obtain ⟨fin, Live, dd, e, hx, hk, rfl⟩ := compile_ctx_k cfg H B p0 cache store polls stopAt hrel hdom hW hP hM hAM hB hroot hok r hr
  have h1 := Ddo.Theta.bkOf_ge cfg.lb (finalize cfg (finalizeLayers fin) e).1.bestExactValue
  rcases hx.cut_ub hk hR hlb ((cfg.root.depth : Int) * B) (Int.mul_nonneg (by omega) hB.nonneg) (bd_shift_small hB _ hk0) e
    c hc y hy (by omega) with a | a
  · exact .inl a
  · exact .inr (cacheAlt_cov (by omega) a)

/-- **the field `exactCut` of `CompC`** -/
theorem exactCut_contract_of_model (cfg : Cfg S K) (H : Nat → S → EInt) (B : Int) (p0 : List Dec) (cache : Cache S)
    (store : DomStore S K) (polls : Nat) (stopAt : Option Nat)
    (hrel : cfg.ctype = .relaxed) (hdom : cfg.dom = none) (hW : 1 ≤ cfg.width)
    (hP : Potential cfg.P H) (hM : MergeOk cfg.R H) (hAM : Cover.AttMerge cfg.P cfg.R H)
    (hB : NoClamp cfg.P cfg.R cfg.root.value B)
    (hroot : Reach cfg.P cfg.root.depth cfg.root.state cfg.root.value p0)
    (hok : (compile cfg cache store polls stopAt).1 = .ok) (r : Result S)
    (hr : r = (compile cfg cache store polls stopAt).2.1 ∨ (compile cfg cache store polls stopAt).2.2.1 = some r) :
    (C01.toOut r).isExact = true → ∀ c ∈ (C01.toOut r).cutset, c.ub ≤ bkOf cfg.lb r.bestExactValue := by
  intro hex c hc
  obtain ⟨fin, Live, dd, e, hx, rfl⟩ := compile_ctx cfg H B p0 cache store polls stopAt hrel hdom hW hP hM hAM hB hroot hok r hr
  exact hx.cut_exact_le e hex c hc

/-- **the field `fresh` of `CompC`**: a sub-problem of the cut-set whose bound beats the incumbent is not refused by the
    cache once the updates of its own compilation (`ups`: any list of them) are applied -/
theorem fresh_contract_of_model (cfg : Cfg S K) (H : Nat → S → EInt) (B : Int) (p0 : List Dec) (cache : Cache S)
    (store : DomStore S K) (polls : Nat) (stopAt : Option Nat)
    (hrel : cfg.ctype = .relaxed) (huse : cfg.useCache = true) (hdom : cfg.dom = none) (hW : 1 ≤ cfg.width)
    (hP : Potential cfg.P H) (hM : MergeOk cfg.R H) (hAM : Cover.AttMerge cfg.P cfg.R H)
    (hB : NoClamp cfg.P cfg.R cfg.root.value B)
    (hroot : Reach cfg.P cfg.root.depth cfg.root.state cfg.root.value p0)
    (hok : (compile cfg cache store polls stopAt).1 = .ok) (r : Result S)
    (hr : r = (compile cfg cache store polls stopAt).2.1 ∨ (compile cfg cache store polls stopAt).2.2.1 = some r)
    (ups : List (S × Nat × Int × Bool)) (hups : ∀ u ∈ ups, u ∈ r.cacheUpdates) :
    ∀ c ∈ (C01.toOut r).cutset, c.ub > bkOf cfg.lb r.bestExactValue → ¬ prunM ((viewOf cache).upds ups) c := by
  intro c hc hub
  obtain ⟨fin, Live, dd, e, hx, hk, rfl⟩ := compile_ctx_k cfg H B p0 cache store polls stopAt hrel hdom hW hP hM hAM hB hroot hok r hr
  rintro ⟨t, ht, hcond⟩
  rcases upds_get ups (viewOf cache) c.state c.depth t ht with h1 | ⟨u, hu, hus, hud, rfl⟩
  · have hget : cache.get c.state c.depth = some (some t) := by
      unfold viewOf at h1
      cases hg : cache.get c.state c.depth with
      | none => rw [hg] at h1; cases h1
      | some x => rw [hg, Option.getD_some] at h1; rw [h1]
    have := hx.cut_fresh_cache hk e c hc huse t hget
    omega
  · obtain ⟨h1, h2⟩ := hx.cut_fresh_ups hk e c hc hub u (hups u hu) hus hud
    dsimp only at hcond
    rw [h2] at hcond
    rcases hcond with h | ⟨_, h⟩
    · omega
    · cases h

section
variable (H : Nat → S → EInt) (opt : Int)

/-- **the whole contract `CompC` for a relaxed compilation of the diagram model that consults a cache** (the `must`
    result; `ups`: the recorded thresholds, in any order).  `hval`: the values of the reached sub-problems are within `B`
    (`RunBound.value_le`). -/
theorem compC_relaxed_of_model (cfg : Cfg S K) (B : Int) (p0 : List Dec) (cache : Cache S)
    (store : DomStore S K) (polls : Nat)
    (hrel : cfg.ctype = .relaxed) (huse : cfg.useCache = true) (hdom : cfg.dom = none) (hW : 1 ≤ cfg.width)
    (hP : Potential cfg.P H) (hR : RubOk cfg.R H) (hM : MergeOk cfg.R H) (hAM : Cover.AttMerge cfg.P cfg.R H)
    (hB : NoClamp cfg.P cfg.R cfg.root.value B) (hlb : cfg.lb < iMax)
    (hroot : Reach cfg.P cfg.root.depth cfg.root.state cfg.root.value p0) (hperm : cfg.root.path.Perm p0)
    (hk0 : cfg.root.depth ≤ cfg.P.nbVars)
    (hopt : (H 0 cfg.P.init).addI cfg.P.initVal = some opt)
    (hval : ∀ (k : Nat) (s : S) (v : Int) (p : List Dec), Reach cfg.P k s v p → -B ≤ v ∧ v ≤ B)
    (hok : (compile cfg cache store polls none).1 = .ok)
    (ups : List (S × Nat × Int × Bool)) (hups : ∀ u ∈ ups, u ∈ (compile cfg cache store polls none).2.1.cacheUpdates) :
    CompC H opt (C01.SolOf cfg.P) (RgB B) cfg.root cfg.lb (viewOf cache)
      (C01.toOut (compile cfg cache store polls none).2.1) ups
      (bkOf cfg.lb (compile cfg cache store polls none).2.1.bestExactValue) := by
  refine ⟨?_, ?_, ?_, ?_, ?_, ?_, ?_, ?_, ?_, ?_, ?_⟩
  · -- sound
    intro w hw
    exact (C01.isSol_facts cfg H opt p0 hP hroot hperm hopt w _
      (isSol_relaxed_cached cfg B p0 cache store polls hrel hdom hW hB hroot hok w hw)).1
  · exact exact_contract_of_model cfg H B p0 cache store polls none hrel hdom hW hP hR hM hAM hB hlb hroot hk0 hok _ (.inl rfl)
  · exact exactCut_contract_of_model cfg H B p0 cache store polls none hrel hdom hW hP hM hAM hB hroot hok _ (.inl rfl)
  · intro _
    exact cover_contract_of_model cfg H B p0 cache store polls none hrel hdom hW hP hR hM hAM hB hlb hroot hk0 hok _ (.inl rfl)
  · intro u hu
    exact theta_contract_of_model cfg H B p0 cache store polls none hrel hdom hW hP hR hM hAM hB hlb hroot hk0 hok _ (.inl rfl)
      u (hups u hu)
  · exact Closed.cutset_good cfg H B opt p0 cache store polls none hP hB hroot hopt hok _ (.inl rfl)
  · -- rng
    intro c hc
    obtain ⟨q, hq, _⟩ := C08.cutset_exact cfg B p0 cache store polls none hroot hB hok _ (.inl rfl) c hc
    have hv := hval _ _ _ _ hq
    have h0 := hB.nonneg
    have hm : (0 : Int) ≤ (c.depth : Int) * B := Int.mul_nonneg (by omega) h0
    unfold RgB Cover.Within Cover.Bd
    rw [Int.add_mul, Int.one_mul]
    omega
  · exact Closed.cutset_sub cfg H B p0 cache store polls none hP hB hroot hok _ (.inl rfl)
  · exact C08.cutset_progress cfg B p0 cache store polls none hrel hroot hB hok _ (.inl rfl)
  · exact ub_contract_of_model cfg H B p0 cache store polls none hrel hdom hW hP hR hM hAM hB hlb hroot hk0 hok _ (.inl rfl)
  · exact fresh_contract_of_model cfg H B p0 cache store polls none hrel huse hdom hW hP hM hAM hB hroot hok _ (.inl rfl) ups hups

/-- a restricted compilation that is not exact records no threshold -/
theorem restricted_inexact_no_ups (cfg : Cfg S K) (cache : Cache S) (store : DomStore S K) (polls : Nat) (stopAt : Option Nat)
    (hres : cfg.ctype = .restricted)
    (hex : (compile cfg cache store polls stopAt).2.1.isExact = false) :
    (compile cfg cache store polls stopAt).2.1.cacheUpdates = [] := by
  cases hoc : (compile cfg cache store polls stopAt).1 with
  | ok =>
    obtain ⟨_, _, hres'⟩ := Ddo.compile_ok cfg cache store polls stopAt hoc
    have e2 : (cfg.ctype == CompType.relaxed) = false := by rw [hres]; decide
    rw [e2] at hres'
    have e3 : ∀ b : Built S K, b.ebpMust false = false := fun _ => rfl
    rw [e3] at hres'
    rw [hres'] at hex ⊢
    rw [Ddo.Truth.finalize_isExact, Bool.or_false] at hex
    unfold finalize
    simp only [e2, hex, Bool.or_false, Bool.false_eq_true, if_false]
  | cutoff =>
    unfold compile at hoc ⊢
    generalize buildLoop cfg stopAt (cfg.P.nbVars + 2) (initDD cfg cache store polls) = bl at hoc ⊢
    obtain ⟨dd, oc⟩ := bl
    cases oc <;> first | rfl | cases hoc
  | crash =>
    unfold compile at hoc ⊢
    generalize buildLoop cfg stopAt (cfg.P.nbVars + 2) (initDD cfg cache store polls) = bl at hoc ⊢
    obtain ⟨dd, oc⟩ := bl
    cases oc <;> first | rfl | cases hoc

/-- **the contract `CompC` of an exact restricted compilation that consults a cache** -/
theorem compC_restricted_of_model (cfg : Cfg S K) (B : Int) (p0 : List Dec) (cache : Cache S)
    (store : DomStore S K) (polls : Nat)
    (hres : cfg.ctype = .restricted) (huse : cfg.useCache = true) (hdom : cfg.dom = none) (hW : 1 ≤ cfg.width)
    (hP : Potential cfg.P H) (hR : RubOk cfg.R H) (hM : MergeOk cfg.R H) (hAM : Cover.AttMerge cfg.P cfg.R H)
    (hB : NoClamp cfg.P cfg.R cfg.root.value B) (hlb : cfg.lb < iMax)
    (hroot : Reach cfg.P cfg.root.depth cfg.root.state cfg.root.value p0) (hperm : cfg.root.path.Perm p0)
    (hk0 : cfg.root.depth ≤ cfg.P.nbVars)
    (hopt : (H 0 cfg.P.init).addI cfg.P.initVal = some opt)
    (hok : (compile cfg cache store polls none).1 = .ok)
    (hex : (compile cfg cache store polls none).2.1.isExact = true)
    (ups : List (S × Nat × Int × Bool)) (hups : ∀ u ∈ ups, u ∈ (compile cfg cache store polls none).2.1.cacheUpdates) :
    CompC H opt (C01.SolOf cfg.P) (RgB B) cfg.root cfg.lb (viewOf cache)
      (C01.toOut (compile cfg cache store polls none).2.1) ups
      (bkOf cfg.lb (compile cfg cache store polls none).2.1.bestExactValue) := by
  obtain ⟨xok, xex, xbe, xups, hcs, _⟩ := restricted_exact_as_relaxed cfg B p0 cache store polls none hres hB hroot hok hex
  have hcs' : (C01.toOut (compile cfg cache store polls none).2.1).cutset = [] := hcs
  have nomem : ∀ c, c ∈ (C01.toOut (compile cfg cache store polls none).2.1).cutset → False := by
    intro c hc; rw [hcs'] at hc; cases hc
  refine ⟨?_, ?_, ?_, ?_, ?_, ?_, ?_, ?_, ?_, ?_, ?_⟩
  · intro w hw
    exact (C01.restricted_sound_within cfg H B opt p0 cache store polls none hres hP hB hroot hperm hopt hok w hw).1
  · -- exact: the relaxed twin finds the optimum of the root, unless the cache cut it
    intro _ x hx hgt
    have := exact_contract_of_model { cfg with ctype := .relaxed } H B p0 cache store polls none rfl hdom hW hP hR hM hAM hB hlb
      hroot hk0 xok _ (.inl rfl) xex x hx hgt
    rw [show (C01.toOut (compile { cfg with ctype := .relaxed } cache store polls none).2.1).bestExact =
      (C01.toOut (compile cfg cache store polls none).2.1).bestExact from xbe] at this
    exact this
  · intro _ c hc; exact (nomem c hc).elim
  · intro hf; rw [show (C01.toOut (compile cfg cache store polls none).2.1).isExact = true from hex] at hf; cases hf
  · -- theta: the thresholds are those of the relaxed twin, whose cut-set is empty too
    intro u hu v h hv hvt hH
    have hu' : u ∈ (compile { cfg with ctype := .relaxed } cache store polls none).2.1.cacheUpdates := by
      rw [xups]; exact hups u hu
    have := theta_contract_of_model { cfg with ctype := .relaxed } H B p0 cache store polls none rfl hdom hW hP hR hM hAM hB hlb
      hroot hk0 xok _ (.inl rfl) u hu' v h hv hvt hH
    rw [xbe] at this
    rcases this with a | ⟨c, hc, _⟩ | a
    · exact .inl a
    · exfalso
      have : (C01.toOut (compile { cfg with ctype := .relaxed } cache store polls none).2.1).cutset = [] := by
        assumption
      rw [this] at hc; cases hc
    · exact .inr (.inr a)
  · intro c hc; exact (nomem c hc).elim
  · intro c hc; exact (nomem c hc).elim
  · intro c hc; exact (nomem c hc).elim
  · intro c hc; exact (nomem c hc).elim
  · intro c hc; exact (nomem c hc).elim
  · intro c hc; exact (nomem c hc).elim

/-- the thresholds recorded by a relaxed compilation sit at depths `≤ nb_variables` (they belong to exact nodes), so
    `update_threshold` never indexes `thresholds_by_layer` out of range -/
theorem ups_depth_relaxed (cfg : Cfg S K) (H : Nat → S → EInt) (B : Int) (p0 : List Dec) (cache : Cache S)
    (store : DomStore S K) (polls : Nat) (stopAt : Option Nat)
    (hrel : cfg.ctype = .relaxed) (hdom : cfg.dom = none) (hW : 1 ≤ cfg.width)
    (hP : Potential cfg.P H) (hM : MergeOk cfg.R H) (hAM : Cover.AttMerge cfg.P cfg.R H)
    (hB : NoClamp cfg.P cfg.R cfg.root.value B) (hNV : Closed.NvBound cfg.P)
    (hroot : Reach cfg.P cfg.root.depth cfg.root.state cfg.root.value p0)
    (hok : (compile cfg cache store polls stopAt).1 = .ok) (r : Result S)
    (hr : r = (compile cfg cache store polls stopAt).2.1 ∨ (compile cfg cache store polls stopAt).2.2.1 = some r) :
    ∀ u ∈ r.cacheUpdates, u.2.1 ≤ cfg.P.nbVars := by
  intro u hu
  obtain ⟨fin, Live, dd, e, hx, rfl⟩ := compile_ctx cfg H B p0 cache store polls stopAt hrel hdom hW hP hM hAM hB hroot hok r hr
  obtain ⟨v, q, hq⟩ := hx.ups_reach e u hu
  exact Closed.reach_depth_le hNV hq

/-- the same for a restricted compilation (exact: the thresholds of its relaxed twin; not exact: none) -/
theorem ups_depth_restricted (cfg : Cfg S K) (H : Nat → S → EInt) (B : Int) (p0 : List Dec) (cache : Cache S)
    (store : DomStore S K) (polls : Nat)
    (hres : cfg.ctype = .restricted) (hdom : cfg.dom = none) (hW : 1 ≤ cfg.width)
    (hP : Potential cfg.P H) (hM : MergeOk cfg.R H) (hAM : Cover.AttMerge cfg.P cfg.R H)
    (hB : NoClamp cfg.P cfg.R cfg.root.value B) (hNV : Closed.NvBound cfg.P)
    (hroot : Reach cfg.P cfg.root.depth cfg.root.state cfg.root.value p0)
    (hok : (compile cfg cache store polls none).1 = .ok) :
    ∀ u ∈ (compile cfg cache store polls none).2.1.cacheUpdates, u.2.1 ≤ cfg.P.nbVars := by
  intro u hu
  cases hex : (compile cfg cache store polls none).2.1.isExact with
  | false =>
    rw [restricted_inexact_no_ups cfg cache store polls none hres hex] at hu
    cases hu
  | true =>
    obtain ⟨xok, _, _, xups, _, _⟩ := restricted_exact_as_relaxed cfg B p0 cache store polls none hres hB hroot hok hex
    rw [← xups] at hu
    exact ups_depth_relaxed { cfg with ctype := .relaxed } H B p0 cache store polls none rfl hdom hW hP hM hAM hB hNV hroot xok
      _ (.inl rfl) u hu

end
end Ddo.C09

#print axioms Ddo.C09.ub_contract_of_model
#print axioms Ddo.C09.fresh_contract_of_model
#print axioms Ddo.C09.exactCut_contract_of_model
#print axioms Ddo.C09.compC_relaxed_of_model
#print axioms Ddo.C09.compC_restricted_of_model
#print axioms Ddo.C09.ups_depth_relaxed
#print axioms Ddo.C09.ups_depth_restricted
