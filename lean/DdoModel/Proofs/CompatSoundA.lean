import DdoModel.Proofs.CacheDomDefs
/-! # C09 + C10 together, diagram level — one compilation with the threshold cache **and** the dominance checker

Facts about a single compilation that hold for **every** cache content, every store content and every rule
(`cfg.useCache` and `cfg.dom` arbitrary):

* `stepLayer_joint` — the general unfolding of one layer step (`_filter_with_cache` then `_filter_with_dominance`);
* `compile_no_crash_joint` — a compilation of width ≥ 1 of an exactly reached root from a store with `nb_variables + 1` layers
  ends normally and leaves a store with `nb_variables + 1` layers;
* `isSol_relaxed_joint` — soundness of the reported exact value of a relaxed compilation;
* `ups_depth_joint` — every `update_threshold` emitted is in range (`depth ≤ nb_variables`). -/
set_option linter.unusedSectionVars false
set_option linter.unusedVariables false
namespace Ddo.C10c
open Ddo Ddo.C01 Ddo.Closed Ddo.C09 Ddo.C10 Ddo.Truth
variable {S K : Type} [DecidableEq S] [DecidableEq K]

/-! ## 1. one layer step, both filters -/

theorem stepLayer_joint (cfg : Cfg S K) (dd : DD S K) (var : Nat) (hne : dd.next ≠ []) :
    ((CacheClosed.fdOf cfg dd).2.2.2 = false → stepLayer cfg dd var = (none, .crash)) ∧
    ((CacheClosed.fdOf cfg dd).2.2.2 = true →
      (squash cfg dd (CacheClosed.fdOf cfg dd).1 (CacheClosed.fdOf cfg dd).2.1 = none →
        stepLayer cfg dd var = (none, .crash)) ∧
      ∀ sq, squash cfg dd (CacheClosed.fdOf cfg dd).1 (CacheClosed.fdOf cfg dd).2.1 = some sq →
        ∃ dd', stepLayer cfg dd var = (some dd', .ok) ∧
          dd'.layers = dd.layers ++ [(expandAll cfg var dd.layers.length sq.1 sq.2.1 sq.2.2.1).1] ∧
          dd'.next = (expandAll cfg var dd.layers.length sq.1 sq.2.1 sq.2.2.1).2.1 ∧
          dd'.depth = dd.depth + 1 ∧ dd'.lel = sq.2.2.2 ∧ dd'.store = (CacheClosed.fdOf cfg dd).2.2.1 ∧
          dd'.cache = dd.cache) := by
  have h1 : dd.next.isEmpty = false := by
    cases h : dd.next with
    | nil => exact absurd h hne
    | cons _ _ => rfl
  unfold stepLayer CacheClosed.fdOf Theta.fcOf
  simp only [h1, Bool.false_eq_true, if_false]
  generalize (if dd.layers.isEmpty = true then (dd.next, List.range dd.next.length)
      else filterCache cfg dd.cache dd.next (List.range dd.next.length)) = fc
  generalize filterDom cfg dd.store fc.1 fc.2 = fd
  obtain ⟨l, c, st, ok⟩ := fd
  refine ⟨fun h => ?_, fun h => ⟨fun hsq => ?_, fun sq hsq => ?_⟩⟩
  · dsimp only at h
    subst h
    rfl
  · dsimp only at h hsq
    subst h
    simp only [hsq]
    rfl
  · dsimp only at h hsq
    subst h
    simp only [hsq]
    exact ⟨_, rfl, rfl, rfl, rfl, rfl, rfl, rfl⟩

/-! ## 2. the two filters, node by node -/

/-- a node of the cache-filtered layer is a node of `dd.next` up to the fields `cache` / `theta` -/
theorem fcOf_node (cfg : Cfg S K) (dd : DD S K) :
    ∀ m ∈ (Theta.fcOf cfg dd).1, ∃ n00 ∈ dd.next, Ess n00 m ∧ m.depth = n00.depth ∧ m.cutset = n00.cutset ∧
      m.above = n00.above := by
  obtain ⟨g, keep, hl, _, _, hg, _⟩ := Theta.fcOf_desc cfg dd
  intro m hm
  rw [hl] at hm
  obtain ⟨n00, h00, rfl⟩ := List.mem_map.1 hm
  refine ⟨n00, h00, ?_⟩
  rcases hg n00 with ⟨_, e⟩ | ⟨_, t, _, _, e⟩
  · rw [e]; exact ⟨⟨rfl, rfl, rfl, rfl, rfl, rfl⟩, rfl, rfl, rfl⟩
  · rw [e]; exact ⟨⟨rfl, rfl, rfl, rfl, rfl, rfl⟩, rfl, rfl, rfl⟩

theorem ess_isExact {a b : Node S} (h : Ess a b) : a.isExact = b.isExact := by
  unfold Node.isExact
  rw [h.2.2.2.2.2, h.2.2.2.2.1]

/-- `filterDom_weak` for any `cfg.dom` -/
theorem filterDom_weak' (cfg : Cfg S K) (store : DomStore S K) (layer : List (Node S)) (cur : List Nat) :
    ThEq (filterDom cfg store layer cur).1 layer ∧
    (filterDom cfg store layer cur).2.1.length ≤ cur.length ∧
    ((∀ n ∈ layer, n.isExact = true → n.depth < store.layers.length) →
      (filterDom cfg store layer cur).2.2.2 = true ∧
      (filterDom cfg store layer cur).2.2.1.layers.length = store.layers.length) := by
  cases hD : cfg.dom with
  | none =>
    have : filterDom cfg store layer cur = (layer, cur, store, true) := by
      unfold filterDom; simp only [hD]
    rw [this]
    exact ⟨ThEq.refl _, Nat.le_refl _, fun _ => ⟨rfl, rfl⟩⟩
  | some D => exact filterDom_weak cfg D hD store layer cur

/-- a node of the layer after both filters is a node of `dd.next` up to `cache` / `theta` -/
theorem fdOf_node (cfg : Cfg S K) (dd : DD S K) :
    ∀ m ∈ (CacheClosed.fdOf cfg dd).1, ∃ n00 ∈ dd.next, Ess n00 m ∧ m.depth = n00.depth ∧ m.cutset = n00.cutset ∧
      m.above = n00.above := by
  intro m hm
  obtain ⟨i, hi⟩ := List.mem_iff_getElem?.1 hm
  obtain ⟨n0, h0, hs⟩ := (filterDom_weak' cfg dd.store (Theta.fcOf cfg dd).1 (Theta.fcOf cfg dd).2).1.get hi
  obtain ⟨n00, h00, e00, d00, c00, a00⟩ := fcOf_node cfg dd n0 (List.mem_of_getElem? h0)
  obtain ⟨_, _, _, hd, _, _⟩ := Bounds.stripT_fields hs
  obtain ⟨_, hc, _, _, ha, _, _⟩ := Theta.stripT_more hs
  exact ⟨n00, h00, e00.trans (ess_of_stripT hs.symm), by rw [hd, d00], by rw [hc, c00], by rw [ha, a00]⟩

/-! ## 3. no crash -/

/-- the loop does not crash with cache and checker: the checker is queried at depths `< nb_variables` only, its store keeps
    its `nb_variables + 1` layers -/
theorem buildLoop_no_crash_joint (cfg : Cfg S K) (B : Int) (p0 : List Dec)
    (hW : 1 ≤ cfg.width) (hNV : NvBound cfg.P) (hB : NoClamp cfg.P cfg.R cfg.root.value B) :
    ∀ (fuel : Nat) (dd : DD S K), MInv cfg B p0 dd → dd.depth = cfg.root.depth + dd.layers.length →
      dd.store.layers.length = cfg.P.nbVars + 1 → (dd.layers = [] → dd.next.length ≤ 1) → dd.depth ≤ cfg.P.nbVars →
      cfg.P.nbVars + 1 ≤ dd.depth + fuel →
      (buildLoop cfg none fuel dd).2 = .ok ∧ (buildLoop cfg none fuel dd).1.store.layers.length = cfg.P.nbVars + 1 := by
  intro fuel
  induction fuel with
  | zero => intro dd _ _ _ _ h1 h2; omega
  | succ fuel ih =>
    intro dd hM hdepth hS hJ h1 h2
    cases hnv : cfg.P.nextVar dd.depth (dd.next.map (·.state)) with
    | none =>
      rw [CacheClosed.buildLoop_none cfg none fuel dd hnv]
      exact ⟨rfl, hS⟩
    | some var =>
      have hlt : dd.depth < cfg.P.nbVars := nv_depth_lt hNV hnv
      rw [buildLoop_step cfg fuel dd var hnv]
      by_cases hne : dd.next = []
      · rw [stepLayer_empty cfg (tick dd var) var hne]
        exact ⟨rfl, hS⟩
      · have hM' : MInv cfg B p0 (tick dd var) := hM.congr rfl rfl
        have hdep : ∀ n ∈ (Theta.fcOf cfg (tick dd var)).1, n.isExact = true →
            n.depth < (tick dd var).store.layers.length := by
          intro n hn he
          obtain ⟨n00, h00, e00, d00, _⟩ := fcOf_node cfg (tick dd var) n hn
          obtain ⟨_, _, _, hd, _⟩ := hM.next n00 h00 (by rw [ess_isExact e00]; exact he)
          show n.depth < dd.store.layers.length
          rw [hS, d00, hd, ← hdepth]; omega
        obtain ⟨_, f2, f3⟩ := filterDom_weak' cfg (tick dd var).store (Theta.fcOf cfg (tick dd var)).1
          (Theta.fcOf cfg (tick dd var)).2
        obtain ⟨f4, f5⟩ := f3 hdep
        obtain ⟨_, s2⟩ := stepLayer_joint cfg (tick dd var) var hne
        obtain ⟨s1, s2⟩ := s2 f4
        have hJ' : (tick dd var).layers = [] → (CacheClosed.fdOf cfg (tick dd var)).2.1.length ≤ 1 := by
          intro hl
          have := hJ hl
          rw [CacheClosed.fcOf_first cfg _ hl] at f2
          exact Nat.le_trans f2 this
        cases hsq : squash cfg (tick dd var) (CacheClosed.fdOf cfg (tick dd var)).1 (CacheClosed.fdOf cfg (tick dd var)).2.1 with
        | none => exact absurd hsq (squash_ne_none_gen cfg (tick dd var) _ _ hW hJ')
        | some sq =>
          obtain ⟨dd', e, hl, _, hdp, _, hst, _⟩ := s2 sq hsq
          obtain ⟨m1, m2, _⟩ := Ddo.stepLayer_inv cfg B p0 hB (tick dd var) var hM' hdepth hnv
            (by show dd.layers.length ≤ _; omega) dd' .ok e
          obtain ⟨m2a, _⟩ := m2 rfl
          rw [e]
          refine ih dd' m1 m2a ?_ ?_ ?_ ?_
          · rw [hst]; exact f5.trans hS
          · intro h; rw [hl] at h; simp at h
          · rw [hdp]; show dd.depth + 1 ≤ _; omega
          · rw [hdp]; show _ ≤ dd.depth + 1 + fuel; omega

theorem compile_store (cfg : Cfg S K) (cache : Cache S) (store : DomStore S K) (polls : Nat) (stopAt : Option Nat) :
    (compile cfg cache store polls stopAt).2.2.2 =
      (buildLoop cfg stopAt (cfg.P.nbVars + 2) (initDD cfg cache store polls)).1 := by
  unfold compile
  generalize buildLoop cfg stopAt (cfg.P.nbVars + 2) (initDD cfg cache store polls) = bl
  obtain ⟨dd, oc⟩ := bl
  cases oc <;> rfl

/-- **no crash, cache and checker enabled**: a compilation of width ≥ 1 of a sub-problem reached exactly, from any cache and
    from a checker with `nb_variables + 1` layers (whatever they hold), ends normally, and the checker it leaves still has
    `nb_variables + 1` layers -/
theorem compile_no_crash_joint (cfg : Cfg S K) (B : Int) (p0 : List Dec)
    (cache : Cache S) (store : DomStore S K) (polls : Nat)
    (hW : 1 ≤ cfg.width) (hNV : NvBound cfg.P)
    (hB : NoClamp cfg.P cfg.R cfg.root.value B)
    (hroot : Reach cfg.P cfg.root.depth cfg.root.state cfg.root.value p0)
    (hlen : store.layers.length = cfg.P.nbVars + 1) :
    (compile cfg cache store polls none).1 = .ok ∧
    (compile cfg cache store polls none).2.2.2.store.layers.length = cfg.P.nbVars + 1 := by
  rw [compile_fst, compile_store]
  have hdepth := reach_depth_le hNV hroot
  refine buildLoop_no_crash_joint cfg B p0 hW hNV hB _ _ (initDD_inv cfg B p0 hB hroot cache store polls) rfl hlen
    ?_ hdepth ?_
  · intro _; simp [initDD]
  · show cfg.P.nbVars + 1 ≤ cfg.root.depth + (cfg.P.nbVars + 2); omega

/-! ## 4. an induction principle for the loop, both filters -/

/-- `J` is kept by every successful layer step (and is insensitive to the log / the poll counter); `T` is what is wanted of
    the diagram the loop returns, whatever its outcome -/
theorem buildLoop_ind_joint (cfg : Cfg S K) (J : Nat → DD S K → Prop) (T : DD S K → Prop)
    (htick : ∀ f dd var, J f dd → J f (tick dd var))
    (hJT : ∀ f dd, J f dd → T dd)
    (hnone : ∀ f dd, J (f + 1) dd → T { dd with log := Call.nextVar dd.depth (dd.next.map (·.state)) none :: dd.log })
    (hempty : ∀ f (dd : DD S K), J (f + 1) dd → dd.next = [] → T { dd with layers := dd.layers ++ [[]] })
    (hstep : ∀ f dd var sq dd', J (f + 1) dd → cfg.P.nextVar dd.depth (dd.next.map (·.state)) = some var → dd.next ≠ [] →
      squash cfg dd (CacheClosed.fdOf cfg dd).1 (CacheClosed.fdOf cfg dd).2.1 = some sq →
      stepLayer cfg dd var = (some dd', .ok) →
      dd'.layers = dd.layers ++ [(expandAll cfg var dd.layers.length sq.1 sq.2.1 sq.2.2.1).1] →
      dd'.next = (expandAll cfg var dd.layers.length sq.1 sq.2.1 sq.2.2.1).2.1 →
      dd'.depth = dd.depth + 1 → J f dd') :
    ∀ (fuel : Nat) (dd : DD S K), J fuel dd → T (buildLoop cfg none fuel dd).1 := by
  intro fuel
  induction fuel with
  | zero => intro dd hJ; exact hJT 0 dd hJ
  | succ fuel ih =>
    intro dd hJ
    cases hnv : cfg.P.nextVar dd.depth (dd.next.map (·.state)) with
    | none =>
      rw [CacheClosed.buildLoop_none cfg none fuel dd hnv]
      exact hnone fuel dd hJ
    | some var =>
      have hJ1 : J (fuel + 1) (tick dd var) := htick _ dd var hJ
      rw [buildLoop_step cfg fuel dd var hnv]
      by_cases hne : (tick dd var).next = []
      · rw [stepLayer_empty cfg _ var hne]
        exact hempty fuel _ hJ1 hne
      · obtain ⟨s0, s2⟩ := stepLayer_joint cfg (tick dd var) var hne
        cases hokd : (CacheClosed.fdOf cfg (tick dd var)).2.2.2 with
        | false =>
          rw [s0 hokd]
          exact hJT _ _ hJ1
        | true =>
          obtain ⟨s1, s2⟩ := s2 hokd
          cases hsq : squash cfg (tick dd var) (CacheClosed.fdOf cfg (tick dd var)).1
              (CacheClosed.fdOf cfg (tick dd var)).2.1 with
          | none =>
            rw [s1 hsq]
            exact hJT _ _ hJ1
          | some sq =>
            obtain ⟨dd', hst, hl, hn, hdd, _⟩ := s2 sq hsq
            rw [hst]
            exact ih dd' (hstep fuel (tick dd var) var sq dd' hJ1 hnv hne hsq hst hl hn hdd)

/-- the loop appends at most one layer per unit of fuel -/
theorem buildLoop_len_joint (cfg : Cfg S K) (N : Nat) :
    ∀ (fuel : Nat) (dd : DD S K), dd.layers.length + fuel ≤ N → (buildLoop cfg none fuel dd).1.layers.length ≤ N := by
  refine buildLoop_ind_joint cfg (fun f dd => dd.layers.length + f ≤ N) (fun dd => dd.layers.length ≤ N) ?_ ?_ ?_ ?_ ?_
  · intro f dd var h; exact h
  · intro f dd h; show dd.layers.length ≤ N; omega
  · intro f dd h; show dd.layers.length ≤ N; omega
  · intro f dd h _; show (dd.layers ++ [[]]).length ≤ N; rw [List.length_append, List.length_singleton]; omega
  · intro f dd var sq dd' h _ _ _ _ hl _ _
    show dd'.layers.length + f ≤ N
    rw [hl, List.length_append, List.length_singleton]; omega

/-! ## 5. the invariant `G2` with both filters -/

/-- `Truth.stepLayer_g2` for the squash of any layer whose nodes are nodes of `dd.next` up to the fields `G2` does not read -/
theorem stepLayer_g2_back (cfg : Cfg S K) (hrel : cfg.ctype = .relaxed) (hW : 1 ≤ cfg.width)
    (dd dd' : DD S K) (var : Nat) (layer : List (Node S)) (cur : List Nat)
    (hb : ∀ m ∈ layer, ∃ n00 ∈ dd.next, Ess n00 m)
    (hG : G2 cfg dd) (hdepth : dd.depth = cfg.root.depth + dd.layers.length)
    (hnv : cfg.P.nextVar dd.depth (dd.next.map (·.state)) = some var)
    (sq : List (Node S) × List Nat × List (Call S) × Option Nat)
    (hsq : squash cfg dd layer cur = some sq)
    (hl : dd'.layers = dd.layers ++ [(expandAll cfg var dd.layers.length sq.1 sq.2.1 sq.2.2.1).1])
    (hn : dd'.next = (expandAll cfg var dd.layers.length sq.1 sq.2.1 sq.2.2.1).2.1) : G2 cfg dd' := by
  have hsub := squash_subN cfg dd layer cur hrel hW sq hsq
  have hE := expandAll_ginv cfg dd.layers.length var sq.1 sq.2.1 sq.2.2.1
  generalize expandAll cfg var dd.layers.length sq.1 sq.2.1 sq.2.2.1 = ex at hE hl hn
  obtain ⟨hrub, hchild⟩ := hE
  have hback : ∀ m ∈ sq.1, m.fRelaxed = false → ∃ n00 ∈ dd.next, Ess n00 m := by
    intro m hm hr
    obtain ⟨n0, h0, hs⟩ := hsub m hm hr
    obtain ⟨n00, h00, e00⟩ := hb n0 h0
    exact ⟨n00, h00, e00.trans (ess_of_stripD hs)⟩
  have hlen' : dd'.layers.length = dd.layers.length + 1 := by rw [hl, List.length_append, List.length_singleton]
  refine ⟨?_, ?_⟩
  · rw [hl]
    refine gOk_append_layer hG.layers ?_
    intro n hn' hr
    obtain ⟨i, hi⟩ := List.mem_iff_getElem?.1 hn'
    obtain ⟨n0, h0, hs⟩ := hrub.get hi
    have e0 := ess_of_stripRub hs
    obtain ⟨n00, h00, e00⟩ := hback n0 (List.mem_of_getElem? h0) (e0.2.2.2.2.1.trans hr)
    exact ((hG.next n00 h00).of_ess (e00.trans e0)) hr
  · rw [hn, hlen', hl]
    intro c hc _
    right
    obtain ⟨_, ⟨a, par, hb', ha, hp, hv⟩, harcs⟩ := hchild c hc
    refine ⟨dd.layers.length, dd.next.map (·.state), var, rfl, hdepth ▸ hnv, ?_, ?_⟩
    · obtain ⟨parF, hpF, hsF⟩ := hrub.get' hp
      refine ⟨a, parF, hb', ha, ?_, ?_⟩
      · rw [Cover.getNode_last]; exact hpF
      · rw [hv, (ess_of_stripRub hsF).2.1]
    · intro a ha
      obtain ⟨hfl, par, hp, h1, h2, h3, h4⟩ := harcs a ha
      obtain ⟨parF, hpF, hsF⟩ := hrub.get' hp
      have eF := ess_of_stripRub hsF
      refine ⟨hfl, parF, by rw [Cover.getNode_last]; exact hpF, ?_, h1, ?_, ?_, ?_⟩
      · intro hr
        obtain ⟨n00, h00, e00⟩ := hback par (List.mem_of_getElem? hp) (eF.2.2.2.2.1.trans hr)
        rw [← eF.1, ← e00.1]
        exact List.mem_map_of_mem h00
      · rw [← eF.1]; exact h2
      · rw [← eF.1]; exact h3
      · rw [← eF.1]; exact h4

/-- `Truth.buildLoop_g2` with cache and checker (whatever the outcome of the loop) -/
theorem buildLoop_g2_joint (cfg : Cfg S K) (hrel : cfg.ctype = .relaxed) (hW : 1 ≤ cfg.width) :
    ∀ (fuel : Nat) (dd : DD S K), G2 cfg dd → dd.depth = cfg.root.depth + dd.layers.length →
      G2 cfg (buildLoop cfg none fuel dd).1 := by
  intro fuel dd hG hdepth
  refine buildLoop_ind_joint cfg (fun _ dd => G2 cfg dd ∧ dd.depth = cfg.root.depth + dd.layers.length) (G2 cfg)
    ?_ ?_ ?_ ?_ ?_ fuel dd ⟨hG, hdepth⟩
  · intro _ dd var h; exact ⟨h.1.congr rfl rfl, h.2⟩
  · intro _ dd h; exact h.1
  · intro _ dd h; exact h.1.congr rfl rfl
  · intro _ dd h hne
    refine ⟨?_, ?_⟩
    · exact gOk_append_layer h.1.layers (fun n hn => by cases hn)
    · intro n hn
      have : n ∈ dd.next := hn
      rw [hne] at this; cases this
  · intro _ dd var sq dd' h hnv hne hsq hst hl hn hdd
    refine ⟨stepLayer_g2_back cfg hrel hW dd dd' var _ _ (fun m hm => ?_) h.1 h.2 hnv sq hsq hl hn, ?_⟩
    · obtain ⟨n00, h00, e00, _⟩ := fdOf_node cfg dd m hm
      exact ⟨n00, h00, e00⟩
    · rw [hdd, hl, List.length_append, List.length_singleton, h.2]; omega

/-- `Truth.ebpMust_sound` with cache and checker -/
theorem ebpMust_sound_joint (cfg : Cfg S K) (B : Int) (p0 : List Dec)
    (hrel : cfg.ctype = .relaxed) (hW : 1 ≤ cfg.width)
    (hB : NoClamp cfg.P cfg.R cfg.root.value B)
    (hroot : Reach cfg.P cfg.root.depth cfg.root.state cfg.root.value p0)
    (cache : Cache S) (store : DomStore S K) (polls : Nat)
    (hok : (buildLoop cfg none (cfg.P.nbVars + 2) (initDD cfg cache store polls)).2 = .ok)
    (hmust : (finalizeLayers (buildLoop cfg none (cfg.P.nbVars + 2) (initDD cfg cache store polls)).1).ebpMust true = true)
    (w : Int)
    (hw : (finalize cfg (finalizeLayers (buildLoop cfg none (cfg.P.nbVars + 2) (initDD cfg cache store polls)).1) true).1.bestExactValue
      = some w) :
    Truthful cfg p0 w (finalize cfg (finalizeLayers (buildLoop cfg none (cfg.P.nbVars + 2) (initDD cfg cache store polls)).1) true).1 := by
  obtain ⟨hinv, hinv2⟩ := buildLoop_inv2 cfg B p0 hB none (cfg.P.nbVars + 2) (initDD cfg cache store polls)
    (initDD_inv cfg B p0 hB hroot cache store polls) (initDD_inv2 cfg cache store polls) rfl
    (by simp only [initDD, List.length_nil]; omega)
  have hterm := (buildLoop_inv cfg B p0 hB none (cfg.P.nbVars + 2) (initDD cfg cache store polls)
    (initDD_inv cfg B p0 hB hroot cache store polls) rfl (by simp only [initDD, List.length_nil]; omega)).2 hok
  have hlen := buildLoop_len_joint cfg (cfg.P.nbVars + 2) (cfg.P.nbVars + 2) (initDD cfg cache store polls)
    (by simp only [initDD, List.length_nil]; omega)
  have hG := buildLoop_g2_joint cfg hrel hW (cfg.P.nbVars + 2) (initDD cfg cache store polls)
    (initDD_g2 cfg cache store polls) rfl
  generalize (buildLoop cfg none (cfg.P.nbVars + 2) (initDD cfg cache store polls)).1 = dd at *
  rw [finalize_bestExactValue] at hw
  simp only [if_true] at hw
  have hbv : maxValue dd.next = some w := by
    unfold Built.bestValue at hw; rwa [terminals_finalizeLayers] at hw
  obtain ⟨n1, _, hn1, _⟩ := find?_of_maxValue hbv
  rcases hterm with hnil | ⟨hnv, hdepth⟩
  · rw [hnil] at hn1; cases hn1
  · have hne : dd.next ≠ [] := List.ne_nil_of_mem hn1
    obtain ⟨hlayers, _⟩ := finalizeLayers_nonempty dd hne
    have hbt := bestTerminals_finalizeLayers dd w hbv
    have hF : FinOk cfg B p0 (dd.layers ++ [dd.next]) :=
      ⟨MInv.append_layer hinv.layers hinv.next, gOk_append_layer hG.layers hG.next, by
        rw [List.length_append, List.length_singleton]; omega⟩
    have hlast : (dd.layers ++ [dd.next])[dd.layers.length]? = some dd.next := List.getElem?_concat_length
    simp only [Built.ebpMust, Bool.true_and, hbt, hlayers, List.all_eq_true, List.mem_filter, decide_eq_true_eq] at hmust
    refine finalize_truthful cfg p0 w dd true hbv hnv ?_ (fun h => by cases h)
    intro n hf
    have h1 := List.find?_some hf
    simp only [decide_eq_true_eq] at h1
    have hn := List.mem_of_find?_eq_some hf
    obtain ⟨q, c1, c2, _⟩ := ebpAll_reach cfg B p0 hB _ hF _ _ _ n hlast hn (hmust n ⟨hn, h1⟩)
    exact ⟨q, c1, hdepth ▸ c2⟩

/-- **soundness of the reported exact value of a relaxed compilation with cache and checker** (nothing is assumed of the
    cache, of the store or of the rule): the `must` result reports as best exact value the value of the reported best exact
    solution, a complete feasible path through the root sub-problem -/
theorem isSol_relaxed_joint (cfg : Cfg S K) (B : Int) (p0 : List Dec)
    (cache : Cache S) (store : DomStore S K) (polls : Nat)
    (hrel : cfg.ctype = .relaxed) (hW : 1 ≤ cfg.width)
    (hB : NoClamp cfg.P cfg.R cfg.root.value B)
    (hroot : Reach cfg.P cfg.root.depth cfg.root.state cfg.root.value p0)
    (hok : (compile cfg cache store polls none).1 = .ok) (w : Int)
    (hw : (compile cfg cache store polls none).2.1.bestExactValue = some w) :
    IsSol cfg p0 w (compile cfg cache store polls none).2.1.bestExactSol := by
  obtain ⟨hbl, _, hres'⟩ := Ddo.compile_ok cfg cache store polls none hok
  have e2 : (cfg.ctype == CompType.relaxed) = true := by rw [hrel]; decide
  rw [e2] at hres'
  rw [hres'] at hw ⊢
  cases hm : (finalizeLayers (buildLoop cfg none (cfg.P.nbVars + 2) (initDD cfg cache store polls)).1).ebpMust true with
  | false =>
    rw [hm] at hw
    exact bestExact_sol_false cfg B p0 hB hroot cache store polls none hbl w hw
  | true =>
    rw [hm] at hw
    exact (ebpMust_sound_joint cfg B p0 hrel hW hB hroot cache store polls hbl hm w hw).exactSol

/-! ## 6. no flag of the bottom-up passes is raised by the top-down build (any cache, any checker) -/

/-- the flags `cutset` / `above` are still down -/
def FlagOk (n : Node S) : Prop := n.cutset = false ∧ n.above = false

theorem restrictLayer_flag (cfg : Cfg S K) (layer : List (Node S)) (cur : List Nat)
    (h : ∀ n ∈ layer, FlagOk n) : ∀ n ∈ (restrictLayer cfg layer cur).1, FlagOk n := by
  unfold restrictLayer
  dsimp only
  refine Ddo.foldl_inv (β := List (Node S)) (fun acc => ∀ n ∈ acc, FlagOk n) _ _ _ h ?_
  intro ly p _ h
  split
  · rename_i n hn
    exact forall_mem_set h p (h n (List.mem_of_getElem? hn))
  · exact h

theorem relaxLayer_flag (cfg : Cfg S K) (layers : List (List (Node S))) (layer : List (Node S)) (cur : List Nat)
    (log : List (Call S)) (h : ∀ n ∈ layer, FlagOk n) : ∀ n ∈ (relaxLayer cfg layers layer cur log).1, FlagOk n :=
  Bounds.relaxLayer_forall FlagOk cfg layers layer cur log (fun _ => ⟨rfl, rfl⟩) (fun n hn => hn) (fun n b hn => hn)
    (fun dropN _ e _ src m hm => by
      obtain ⟨_, h2, h3, _⟩ := Theta.appendEdge_flds src m
        ⟨e.fromL, e.fromP, e.dec, cfg.R.relax src.state dropN.state (Cover.mergedOf cfg layer cur) e.dec e.cost⟩
      exact ⟨h2.trans hm.1, h3.trans hm.2⟩) h

theorem squash_flag (cfg : Cfg S K) (dd : DD S K) (layer : List (Node S)) (cur : List Nat)
    (sq : List (Node S) × List Nat × List (Call S) × Option Nat)
    (h : squash cfg dd layer cur = some sq) (hl : ∀ n ∈ layer, FlagOk n) : ∀ n ∈ sq.1, FlagOk n := by
  unfold squash at h
  dsimp only at h
  split at h
  · cases h
  · split at h
    · cases h
    · split at h
      · simp only [Option.some.injEq] at h
        subst h
        exact restrictLayer_flag cfg layer cur hl
      · split at h
        · simp only [Option.some.injEq] at h
          subst h
          exact relaxLayer_flag cfg dd.layers layer cur dd.log hl
        · simp only [Option.some.injEq] at h
          subst h
          exact hl

theorem expandAll_flag (cfg : Cfg S K) (var lidx : Nat) (layer : List (Node S)) (cur : List Nat) (log : List (Call S))
    (hl : ∀ n ∈ layer, FlagOk n) :
    (∀ n ∈ (expandAll cfg var lidx layer cur log).1, FlagOk n) ∧
    (∀ n ∈ (expandAll cfg var lidx layer cur log).2.1, FlagOk n) := by
  constructor
  · intro n hn
    obtain ⟨i, hi⟩ := List.mem_iff_getElem?.1 hn
    obtain ⟨n0, h0, hs⟩ := (expandAll_ginv cfg lidx var layer cur log).rub.get hi
    obtain ⟨_, _, _, _, hc, ha, _⟩ := Theta.stripRub_all hs
    have := hl n0 (List.mem_of_getElem? h0)
    exact ⟨hc ▸ this.1, ha ▸ this.2⟩
  · unfold expandAll
    refine Theta.fold_childrenP FlagOk (fun _ => True) cfg var lidx cur _ (fun _ _ _ => trivial) ?_ ?_
      (fun _ _ => trivial) (fun m hm => by cases hm)
    · intro q par d n _ hn
      obtain ⟨_, h2, h3, _⟩ := Theta.appendEdge_flds par n (Cover.arcOf cfg var lidx q par d)
      exact ⟨h2.trans hn.1, h3.trans hn.2⟩
    · intro q par d _
      obtain ⟨_, h2, h3, _⟩ := Theta.appendEdge_flds par (Cover.freshNode par (cfg.P.trans par.state ⟨var, d⟩)
        (cfg.P.cost par.state (cfg.P.trans par.state ⟨var, d⟩) ⟨var, d⟩)) (Cover.arcOf cfg var lidx q par d)
      exact ⟨h2.trans rfl, h3.trans rfl⟩

/-- the flags are down in the whole diagram under construction -/
def FInv (dd : DD S K) : Prop := (∀ ly ∈ dd.layers, ∀ n ∈ ly, FlagOk n) ∧ ∀ n ∈ dd.next, FlagOk n

theorem buildLoop_finv (cfg : Cfg S K) : ∀ (fuel : Nat) (dd : DD S K), FInv dd → FInv (buildLoop cfg none fuel dd).1 := by
  refine buildLoop_ind_joint cfg (fun _ dd => FInv dd) FInv ?_ ?_ ?_ ?_ ?_
  · intro _ dd var h; exact h
  · intro _ dd h; exact h
  · intro _ dd h; exact h
  · intro _ dd h hne
    refine ⟨fun ly hly n hn => ?_, h.2⟩
    rcases List.mem_append.1 hly with hly | hly
    · exact h.1 ly hly n hn
    · rw [List.mem_singleton] at hly; subst hly; cases hn
  · intro _ dd var sq dd' h _ _ hsq _ hl hn _
    have hfd : ∀ m ∈ (CacheClosed.fdOf cfg dd).1, FlagOk m := by
      intro m hm
      obtain ⟨n00, h00, _, _, c00, a00⟩ := fdOf_node cfg dd m hm
      have := h.2 n00 h00
      exact ⟨c00.trans this.1, a00.trans this.2⟩
    have hsqf := squash_flag cfg dd _ _ sq hsq hfd
    obtain ⟨e1, e2⟩ := expandAll_flag cfg var dd.layers.length sq.1 sq.2.1 sq.2.2.1 hsqf
    refine ⟨fun ly hly n hn' => ?_, fun n hn' => ?_⟩
    · rw [hl] at hly
      rcases List.mem_append.1 hly with hly | hly
      · exact h.1 ly hly n hn'
      · rw [List.mem_singleton] at hly; subst hly; exact e1 n hn'
    · rw [hn] at hn'; exact e2 n hn'

/-! ## 7. every `update_threshold` is in range -/

/-- the thresholds pass runs iff the cut-set pass ran -/
theorem finalize_ups_cases (cfg : Cfg S K) (b : Built S K) (e : Bool) :
    (finalize cfg b e).1.cacheUpdates = [] ∨
    (((cfg.ctype == .relaxed) || b.isExactField) = true ∧
      (finalize cfg b e).2 = (computeThresholds cfg.kind b.isExactField cfg.lb (finalize cfg b e).1.bestExactValue b.termL
        (Bounds.fLayers2 cfg b)).1 ∧
      (finalize cfg b e).1.cacheUpdates = (computeThresholds cfg.kind b.isExactField cfg.lb
        (finalize cfg b e).1.bestExactValue b.termL (Bounds.fLayers2 cfg b)).2) := by
  cases hdc : ((cfg.ctype == .relaxed) || b.isExactField) with
  | false =>
    left
    unfold finalize
    simp only [hdc, Bool.false_eq_true, if_false]
  | true =>
    right
    refine ⟨rfl, ?_⟩
    unfold finalize Bounds.fLayers2 Bounds.fLayers1
    simp only [hdc, if_true]
    trivial

/-- **a recorded threshold belongs to an exact node of the built diagram**, whatever the cache, the checker and the compilation
    type: its `(state, depth)` is reached exactly -/
theorem ups_reach_joint (cfg : Cfg S K) (p0 : List Dec) (dd : DD S K)
    (hwf : CutWF cfg p0 (finalizeLayers dd).layers (finalizeLayers dd).lel) (hF : FInv dd) (e : Bool)
    (u : S × Nat × Int × Bool) (hu : u ∈ (finalize cfg (finalizeLayers dd) e).1.cacheUpdates) :
    ∃ (v : Int) (q : List Dec), Reach cfg.P u.2.1 u.1 v (p0 ++ q) := by
  have h0 : ∀ (l p : Nat) (n : Node S), getNode (finalizeLayers dd).layers l p = some n →
      n.cutset = false ∧ n.above = false := by
    intro l p n hn
    rcases finalizeLayers_at dd hn with ⟨ly, hly, hm⟩ | ⟨_, hm⟩
    · exact hF.1 ly (List.mem_of_getElem? hly) n hm
    · exact hF.2 n hm
  rcases finalize_ups_cases cfg (finalizeLayers dd) e with hnil | ⟨hdc, e1, e2⟩
  · rw [hnil] at hu; cases hu
  · have hspec := (Theta.computeThresholds_spec cfg.kind (finalizeLayers dd).isExactField cfg.lb
      (finalize cfg (finalizeLayers dd) e).1.bestExactValue (finalizeLayers dd).termL (Bounds.fLayers2 cfg (finalizeLayers dd))
      (Theta.fLayers2_arcs cfg p0 (finalizeLayers dd) hwf)).2
    rw [← e1, ← e2] at hspec
    obtain ⟨l, p, n3, hn, _, _, hab, t, _, rfl⟩ := hspec u hu
    obtain ⟨n0, n1, n2, hn0, hn1, _, hco⟩ := Theta.corr_of_L3 cfg (finalizeLayers dd) e hn
    rw [hco.above] at hab
    have hf1 : Bounds.fLayers1 cfg (finalizeLayers dd) =
        (computeCutset cfg.kind (finalizeLayers dd).lel (finalizeLayers dd).layers).1 := by
      unfold Bounds.fLayers1
      rw [if_pos hdc]
    rw [hf1] at hn1
    have hex : n0.isExact = true := by
      cases hkd : cfg.kind with
      | lel =>
        rw [hkd] at hn1
        exact hwf.exactUpTo l p n0 hn0 ((Theta.computeCutset_lel_flags _ _ h0 l p n1 hn1).1.mp hab)
      | frontier =>
        rw [hkd] at hn1
        rw [← hco.isExact1]
        exact ((Theta.computeCutset_frontier_flags (finalizeLayers dd).lel _ h0).1 l p n1 hn1).1.mp hab
    obtain ⟨q, _, hr, _⟩ := hwf.node l p n0 hn0 hex
    exact ⟨n0.value, q, by dsimp only; rw [hco.state, hco.depth]; exact hr⟩

/-- **every `update_threshold` emitted by a compilation that ended normally is in range** (`depth ≤ nb_variables`) — any
    compilation type, any cache, any checker -/
theorem ups_depth_joint (cfg : Cfg S K) (B : Int) (p0 : List Dec) (cache : Cache S) (store : DomStore S K) (polls : Nat)
    (hB : NoClamp cfg.P cfg.R cfg.root.value B) (hNV : NvBound cfg.P)
    (hroot : Reach cfg.P cfg.root.depth cfg.root.state cfg.root.value p0)
    (hok : (compile cfg cache store polls none).1 = .ok) :
    ∀ u ∈ (compile cfg cache store polls none).2.1.cacheUpdates, u.2.1 ≤ cfg.P.nbVars := by
  intro u hu
  obtain ⟨_, _, hres⟩ := Ddo.compile_ok cfg cache store polls none hok
  rw [hres] at hu
  have hwf := compile_wf cfg B p0 hB hroot cache store polls none
  have hF : FInv (buildLoop cfg none (cfg.P.nbVars + 2) (initDD cfg cache store polls)).1 := by
    refine buildLoop_finv cfg _ _ ⟨fun ly hly => (by cases hly), fun n hn => ?_⟩
    simp only [initDD, List.mem_singleton] at hn
    subst hn
    exact ⟨rfl, rfl⟩
  obtain ⟨v, q, hq⟩ := ups_reach_joint cfg p0 _ hwf hF _ u hu
  exact reach_depth_le hNV hq

#print axioms compile_no_crash_joint
#print axioms isSol_relaxed_joint
#print axioms ups_depth_joint

end Ddo.C10c
