import DdoModel.Proofs.CompatBuiltB0
/-! C10e — the expansion stage of a joint layer step keeps `TInvJ` (`Ddo.Theta.expand_tinv` with the class `Drop`). -/
set_option linter.unusedSectionVars false
set_option linter.unusedVariables false
namespace Ddo.C10d
open Ddo Ddo.C01 Ddo.Closed Ddo.C09 Ddo.C10 Ddo.C10c Ddo.Truth Ddo.Theta Ddo.Bounds
variable {S K : Type} [DecidableEq S] [DecidableEq K]

theorem expand_tinvJ (cfg : Cfg S K) (H : Nat → S → EInt) (B : Int) (cache : Cache S) (O : Int) (Live Drop : Nat → Nat → Prop)
    (dd dd' : DD S K) (var : Nat) (Dr : Nat → Prop) (layer' : List (Node S)) (cur' : List Nat) (lg : List (Call S)) (hy : HypJ cfg H B)
    (hlen : dd.layers.length ≤ cfg.P.nbVars)
    (hI : TInvJ cfg H B cache O Live Drop dd) (hsq : SqPostJ cfg H B cache O Live dd var Dr layer' cur')
    (hl : dd'.layers = dd.layers ++ [(expandAll cfg var dd.layers.length layer' cur' lg).1])
    (hn : dd'.next = (expandAll cfg var dd.layers.length layer' cur' lg).2.1)
    (hd : dd'.depth = dd.depth + 1) (hc : dd'.cache = dd.cache) :
    TInvJ cfg H B cache O (fun l p => if l = dd.layers.length then p ∈ cur' else Live l p)
      (fun l p => if l = dd.layers.length then Dr p else Drop l p) dd' := by
  unfold expandAll at hl hn
  generalize hlyF : (cur'.foldl (expandOne cfg var dd.layers.length) (layer', [], lg)).1 = lyF at hl
  generalize hnx : (cur'.foldl (expandOne cfg var dd.layers.length) (layer', [], lg)).2.1 = nx at hn
  have hrub : RubEq lyF layer' := by rw [← hlyF]; exact fold_rubEq cfg var dd.layers.length cur' (layer', [], lg)
  have hkeys : lyF.map Cover.key = layer'.map Cover.key := by
    rw [← hlyF]; exact Cover.fold_keys cfg var dd.layers.length cur' (layer', [], lg)
  have hcost : ∀ s s' d, Cover.Within B (cfg.P.cost s s' d) := fun s s' d => hy.B.cost s s' d
  have hok : ∀ m ∈ nx, Cover.NodeOk (layer'.map Cover.key) dd.layers.length B (Cover.Bd B dd.layers.length) m := by
    rw [← hnx]
    refine Cover.fold_ok cfg var dd.layers.length cur' (layer', [], lg) (layer'.map Cover.key) B (Cover.Bd B dd.layers.length)
      rfl ?_ (fun s d _ => hcost s _ _) ?_
    · intro sv hsv
      obtain ⟨n, hn, rfl⟩ := List.mem_map.mp hsv
      exact hsq.rng n hn
    · intro m hm; exact absurd hm List.not_mem_nil
  -- the per-child facts
  have hkid : ∀ m ∈ nx, m.depth = dd.depth + 1 ∧ m.cutset = false ∧ m.above = false ∧ m.theta = none ∧ m.cache = false ∧
      m.deleted = false ∧ m.rub = iMax ∧ ∀ a ∈ m.inb, a.fromL = dd.layers.length ∧ Cover.Within B a.cost := by
    rw [← hnx]
    refine fold_childrenP (fun m => m.depth = dd.depth + 1 ∧ m.cutset = false ∧ m.above = false ∧ m.theta = none ∧
        m.cache = false ∧ m.deleted = false ∧ m.rub = iMax ∧
        ∀ a ∈ m.inb, a.fromL = dd.layers.length ∧ Cover.Within B a.cost) (fun n => n.depth = dd.depth)
      cfg var dd.layers.length cur' (layer', [], lg) (fun n r h => h) ?_ ?_ (fun n hn => (hsq.base n hn).depth)
      (fun m hm => absurd hm List.not_mem_nil)
    · intro q par d n hp ⟨q1, q2, q3, q4, q5, q6, q7, q8⟩
      obtain ⟨f1, f2, f3, f4, f5, f6, f7⟩ := appendEdge_flds par n (Cover.arcOf cfg var dd.layers.length q par d)
      refine ⟨f1 ▸ q1, f2 ▸ q2, f3 ▸ q3, f4 ▸ q4, f5 ▸ q5, f6 ▸ q6, f7 ▸ q7, ?_⟩
      intro a ha
      rw [Cover.appendEdge_inb] at ha
      rcases List.mem_cons.mp ha with ha | ha
      · rw [ha]; exact ⟨rfl, hcost _ _ _⟩
      · exact q8 a ha
    · intro q par d hp
      obtain ⟨f1, f2, f3, f4, f5, f6, f7⟩ := appendEdge_flds par (Cover.freshNode par (cfg.P.trans par.state ⟨var, d⟩)
        (cfg.P.cost par.state (cfg.P.trans par.state ⟨var, d⟩) ⟨var, d⟩)) (Cover.arcOf cfg var dd.layers.length q par d)
      refine ⟨by rw [f1]; simp only [Cover.freshNode]; rw [hp], by rw [f2]; rfl, by rw [f3]; rfl, by rw [f4]; rfl,
        by rw [f5]; rfl, by rw [f6]; rfl, by rw [f7]; rfl, ?_⟩
      intro a ha
      rw [Cover.appendEdge_inb] at ha
      rcases List.mem_cons.mp ha with ha | ha
      · rw [ha]; exact ⟨rfl, hcost _ _ _⟩
      · simp only [Cover.freshNode] at ha; exact absurd ha List.not_mem_nil
  have hlen' : dd'.layers.length = dd.layers.length + 1 := by rw [hl, List.length_append, List.length_singleton]
  have hsmall : Cover.Bd B dd.layers.length + B ≤ 4611686018427387904 := by
    rw [← Cover.Bd_succ]; exact Cover.Bd_small hy.B.toDom (by omega)
  have hlay : ∀ (i : Nat) ly, dd'.layers[i]? = some ly → dd.layers[i]? = some ly ∨ (i = dd.layers.length ∧ ly = lyF) := by
    intro i ly hi; rw [hl] at hi; exact getElem?_append_singleton_cases hi
  have hnew : dd'.layers[dd.layers.length]? = some lyF := by rw [hl]; exact List.getElem?_concat_length
  have hF : ∀ (q : Nat) n, lyF[q]? = some n → ∃ n0, layer'[q]? = some n0 ∧ stripRub n0 = stripRub n :=
    fun q n hq => hrub.get hq
  have hF' : ∀ (q : Nat) n0, layer'[q]? = some n0 → ∃ n, lyF[q]? = some n ∧ stripRub n0 = stripRub n :=
    fun q n0 hq => hrub.get' hq
  have hdep : dd.depth = cfg.root.depth + dd.layers.length := hI.depth
  refine ⟨?_, ?_, ?_, ?_, ?_, ?_, ?_, ?_, ?_, ?_, ?_, ?_, ?_, ?_, ?_, ?_⟩
  · -- depth
    rw [hd, hI.depth, hlen']; omega
  · -- cacheEq
    rw [hc]; exact hI.cacheEq
  · -- rngN
    intro m hm
    rw [hn] at hm
    rw [hlen', Cover.Bd_succ]
    exact (hok m hm).rng
  · -- rngL
    intro i ly hi m hm
    rcases hlay i ly hi with hi | ⟨rfl, rfl⟩
    · exact hI.rngL i ly hi m hm
    · obtain ⟨q, hq⟩ := List.mem_iff_getElem?.mp hm
      obtain ⟨n0, h0, hs⟩ := hF q m hq
      rw [← (stripRub_all hs).2.1]; exact hsq.rng n0 (List.mem_of_getElem? h0)
  · -- baseN
    intro m hm
    rw [hn] at hm
    obtain ⟨k1, k2, k3, k4, k5, k6, _, k8⟩ := hkid m hm
    refine ⟨⟨by rw [hd]; exact k1, k2, k3, fun a ha => ?_, fun _ _ => k4⟩, k5, k6⟩
    obtain ⟨a1, a2⟩ := k8 a ha
    exact ⟨by rw [hlen', a1], a2⟩
  · -- baseL
    intro i q ly n hi hq
    rcases hlay i ly hi with hi | ⟨rfl, rfl⟩
    · have := Cover.lt_of_getElem?_some hi
      rw [if_neg (by omega)]
      exact hI.baseL i q ly n hi hq
    · rw [if_pos rfl]
      obtain ⟨n0, h0, hs⟩ := hF q n hq
      obtain ⟨_, _, h3, h4, h5, h6, h7, h8, _⟩ := stripRub_all hs
      have hb := hsq.base n0 (List.mem_of_getElem? h0)
      have ht := hsq.thN q n0 h0
      rw [← hdep]
      exact ⟨h4 ▸ hb.depth, h5 ▸ hb.cutset, h6 ▸ hb.above, h3 ▸ hb.arcs, h7 ▸ h8 ▸ ht⟩
  · -- att
    intro _ m hm
    rw [hn] at hm
    obtain ⟨a, ha, hal, sv, hsv, hv⟩ := (hok m hm).att
    rw [← hkeys, List.getElem?_map] at hsv
    cases hp : lyF[a.fromP]? with
    | none => rw [hp] at hsv; cases hsv
    | some p =>
      refine ⟨a, ha, p, ?_⟩
      rw [hal]; exact getNode_of hnew hp
  · -- clsL
    intro i q ly n hi hq
    rcases hlay i ly hi with hi | ⟨rfl, rfl⟩
    · have := Cover.lt_of_getElem?_some hi
      rw [if_neg (by omega), if_neg (by omega)]
      exact hI.clsL i q ly n hi hq
    · rw [if_pos rfl, if_pos rfl]
      obtain ⟨n0, h0, hs⟩ := hF q n hq
      have ha := hsq.cls q n0 h0
      rw [← hdep]
      obtain ⟨h1, h2, _, h4, _, _, h7, h8, h9⟩ := stripRub_all hs
      have hlk : lookup cfg cache n0 = lookup cfg cache n := by unfold lookup; rw [h1, h4]
      refine ⟨fun hc => ?_, fun hc hd => ha.alive (h8 ▸ hc) (h9 ▸ hd), fun hi => ?_, fun hdr => ?_⟩
      · obtain ⟨c1, t, c2, c3, c4⟩ := ha.pruned (h8 ▸ hc)
        exact ⟨h9 ▸ c1, t, hlk ▸ c2, h7 ▸ c3, h2 ▸ c4⟩
      · obtain ⟨c1, c2, c3⟩ := ha.cur hi
        exact ⟨h8 ▸ c1, h9 ▸ c2, c3⟩
      · have hnc : q ∉ cur' := fun hq' => (ha.cur hq').2.2 hdr
        have hsame := fold_other cfg var dd.layers.length cur' (layer', [], lg) q hnc
        rw [hlyF] at hsame
        dsimp only at hsame
        rw [hq, h0] at hsame
        cases hsame
        exact ha.drop hdr
  · -- dropLt
    intro i q hdq
    by_cases hi : i = dd.layers.length
    · rw [hlen']; omega
    · rw [if_neg hi] at hdq
      have := hI.dropLt i q hdq
      rw [hlen']; omega
  · -- rub
    intro l p ly n hly hlive hnp
    rcases hlay l ly hly with hly0 | ⟨rfl, rfl⟩
    · have := Cover.lt_of_getElem?_some hly0
      rw [if_neg (by omega)] at hlive
      exact hI.rub l p ly n hly0 hlive hnp
    · rw [if_pos rfl] at hlive
      have := fold_rubSet cfg var dd.layers.length cur' (layer', [], lg) p (.inl hlive)
      rw [hlyF] at this
      exact this n hnp
  · -- stepL
    intro l p ly ly' n hly hly' hlive hnp
    have hlt := Cover.lt_of_getElem?_some hly'
    rw [hlen'] at hlt
    rcases hlay l ly hly with hly0 | ⟨rfl, _⟩
    · have hlive0 : Live l p := by
        have := Cover.lt_of_getElem?_some hly0
        rw [if_neg (by omega)] at hlive; exact hlive
      rcases hlay (l + 1) ly' hly' with hly0' | ⟨hl1, rfl⟩
      · intro htest h hH
        obtain ⟨p', m, e, h', hm, hokc, rest⟩ := hI.stepL l p ly ly' n hly0 hly0' hlive0 hnp htest h hH
        have := Cover.lt_of_getElem?_some hly0'
        exact ⟨p', m, e, h', hm, (by dsimp only; rw [if_neg (by omega), if_neg (by omega)]; exact hokc), rest⟩
      · intro htest h hH
        obtain ⟨q', m, e, h', hm, hokc, he, r1, r2, r3, r4, r5, r6⟩ := hsq.step l p ly n hl1 hly0 hlive0 hnp htest h hH
        obtain ⟨m', hm', hs⟩ := hF' q' m hm
        obtain ⟨s1, s2, s3, _, _, _, _, s8, _⟩ := stripRub_all hs
        exact ⟨q', m', e, h', hm', (by dsimp only; rw [if_pos hl1, if_pos hl1, ← s8]; exact hokc), s3 ▸ he, r1, r2, r3,
          s1 ▸ r4, r5, s2 ▸ r6⟩
    · omega
  · -- stepN
    intro l p ly n hl1 hly hlive hnp htest h hH
    have hlL : l = dd.layers.length := by omega
    subst hlL
    rw [hnew] at hly; cases hly
    rw [if_pos rfl] at hlive
    obtain ⟨n0, h0, hs⟩ := hF p n hnp
    obtain ⟨s1, s2, _⟩ := stripRub_all hs
    rw [← s1] at hH
    rw [← s1, ← s2] at htest
    obtain ⟨d, hdm, h', hH', hle'⟩ := hsq.att p hlive n0 h0 h (hdep ▸ hH)
    have hnewA := fold_hasA_new cfg var dd.layers.length cur' (layer', [], lg) p hlive n0.state n0.value
      (by rw [List.getElem?_map, h0]; rfl) htest d hdm
    rw [hnx] at hnewA
    obtain ⟨m, hm, hms, hmv, hma⟩ := hnewA
    obtain ⟨p', hp'⟩ := List.mem_iff_getElem?.mp hm
    have hw := hsq.rng n0 (List.mem_of_getElem? h0)
    have hcc := hcost n0.state (cfg.P.trans n0.state ⟨var, d⟩) ⟨var, d⟩
    have hsa : satAdd n0.value (cfg.P.cost n0.state (cfg.P.trans n0.state ⟨var, d⟩) ⟨var, d⟩) =
        n0.value + cfg.P.cost n0.state (cfg.P.trans n0.state ⟨var, d⟩) ⟨var, d⟩ := by
      apply Cover.satAdd_eq <;> (unfold Cover.Within at hw hcc; simp only [iMin, iMax]; omega)
    rw [hsa] at hmv
    refine ⟨p', m, _, h', by rw [hn]; exact hp', True.intro, hma, rfl, rfl, hcc, ?_, hle', ?_⟩
    · rw [hms, ← hdep]; exact hH'
    · rw [← s2]; exact hmv
  · -- rubN
    intro m hm
    rw [hn] at hm
    exact (hkid m hm).2.2.2.2.2.2.1
  · -- root0
    intro h; rw [hl] at h; simp at h
  · -- first
    intro ly hly n hnm
    rcases hlay 0 ly hly with hly0 | ⟨h0, rfl⟩
    · exact hI.first ly hly0 n hnm
    · have hemp : dd.layers = [] := List.length_eq_zero_iff.mp h0.symm
      obtain ⟨q, hq⟩ := List.mem_iff_getElem?.mp hnm
      obtain ⟨n0, hn0, hs⟩ := hF q n hq
      rw [← (stripRub_all hs).2.2.2.2.2.2.2.1]
      exact hsq.first hemp n0 (List.mem_of_getElem? hn0)
  · -- root1
    intro _
    by_cases hemp : dd.layers = []
    · obtain ⟨n0, h0, hs0, hv0, hc0⟩ := hsq.root hemp
      have hL0 : dd.layers.length = 0 := by rw [hemp]; rfl
      obtain ⟨n, hn', hs⟩ := hF' 0 n0 h0
      obtain ⟨s1, s2, _, _, _, _, _, s8, s9⟩ := stripRub_all hs
      have hcd : n0.cache = false ∧ n0.deleted = false := by
        rcases hc0 with hc0 | hc0
        · exact ⟨((hsq.cls 0 n0 h0).cur hc0).1, ((hsq.cls 0 n0 h0).cur hc0).2.1⟩
        · exact ⟨((hsq.cls 0 n0 h0).drop hc0).1, ((hsq.cls 0 n0 h0).drop hc0).2.1⟩
      obtain ⟨c1, c2⟩ := hcd
      refine ⟨lyF, n, (by rw [← hL0]; exact hnew), hn', (by rw [← s1]; exact hs0), (by rw [← s2]; exact hv0),
        (by rw [← s8]; exact c1), (by rw [← s9]; exact c2), ?_⟩
      rw [if_pos hL0.symm, if_pos hL0.symm]; exact hc0
    · obtain ⟨ly, n0, hly, hn0, hs0, hv0, hc0, hd0, hlive⟩ := hI.root1 hemp
      have hlt : 0 < dd.layers.length := Cover.lt_of_getElem?_some hly
      refine ⟨ly, n0, (by rw [hl, List.getElem?_append_left hlt]; exact hly), hn0, hs0, hv0, hc0, hd0, ?_⟩
      rw [if_neg (by omega), if_neg (by omega)]; exact hlive

end Ddo.C10d
